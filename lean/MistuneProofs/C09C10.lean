/-
C10 (a plugin rule whose required character is absent cannot change what the scanner finds) and
C09 (inside a text chunk claimed by the speedup rule no other rule can start): generic theorems over any
subject and any rule table, from the soundness of the matcher and of the analyses `needs` / `firstChars`.
-/
import Mistune.Scanner
import MistuneProofs.Engine.Sound
import MistuneProofs.Engine.Analyses
namespace Mistune

/-! ### helpers -/

theorem optUnion_some {a b : Option (List Nat)} {l : List Nat} (h : optUnion a b = some l) :
    ∃ la lb, a = some la ∧ b = some lb ∧ l = la ++ lb := by
  cases a with
  | none => simp [optUnion] at h
  | some la =>
    cases b with
    | none => simp [optUnion] at h
    | some lb =>
      simp only [optUnion, Option.some.injEq] at h
      exact ⟨la, lb, rfl, rfl, h.symm⟩

theorem expand_mem_iff (t : CatTables) (it : ClsItem) (l : List Nat) (h : it.expand = some l) (ch : Nat) :
    it.test t ch = true ↔ ch ∈ l := by
  cases it with
  | chr c =>
    simp only [ClsItem.expand, Option.some.injEq] at h
    subst h
    simp only [ClsItem.test, beq_iff_eq, List.mem_singleton]
    exact eq_comm
  | range lo hi =>
    simp only [ClsItem.expand] at h
    split at h
    · simp only [Option.some.injEq] at h
      subst h
      simp only [ClsItem.test, Bool.and_eq_true, decide_eq_true_eq, List.mem_range'_1]
      omega
    · simp at h
  | cat neg k => simp [ClsItem.expand] at h

theorem expandItems_mem_iff (t : CatTables) (items : List ClsItem) (l : List Nat)
    (h : expandItems items = some l) (ch : Nat) :
    clsTest t false items ch = true ↔ ch ∈ l := by
  induction items generalizing l with
  | nil =>
    simp only [expandItems, Option.some.injEq] at h
    subst h
    simp [clsTest]
  | cons it rest ih =>
    simp only [expandItems] at h
    obtain ⟨la, lb, h1, h2, rfl⟩ := optUnion_some h
    have e1 := expand_mem_iff t it la h1 ch
    have e2 := ih lb h2
    have hb : ∀ b : Bool, (b != false) = b := by intro b; cases b <;> rfl
    simp only [clsTest, hb, List.any_cons, Bool.or_eq_true, List.mem_append] at e2 ⊢
    rw [e1, e2]

theorem iter_firstChars {x : RxCtx} {r : Rx} {l : List Nat}
    (ih : ∀ (i : Nat) (c : Caps) (j : Nat) (c' : Caps), Spec x r i c j c' → i < j → x.chr i ∈ l)
    {cnt i : Nat} {c : Caps} {j : Nat} {c' : Caps}
    (h : Iter (Spec x r) cnt i c j c') (hne : i < j) : x.chr i ∈ l := by
  induction h with
  | zero i c => omega
  | @succ n i m k c cm c'' hs hrest ih2 =>
    by_cases hm : i < m
    · exact ih _ _ _ _ hs hm
    · have := spec_mono hs
      have hmi : m = i := by omega
      subst hmi
      exact ih2 hne

/-- the finite first-character set is sound -/
theorem firstChars_sound (x : RxCtx) (r : Rx) (l : List Nat) (hl : r.firstChars = some l)
    (i : Nat) (c : Caps) (j : Nat) (c' : Caps) (h : Spec x r i c j c') (hne : i < j) : x.chr i ∈ l := by
  induction r generalizing l i c j c' with
  | eps => simp only [Spec] at h; omega
  | fail => simp only [Spec] at h
  | cls neg items =>
    simp only [Spec] at h
    cases neg with
    | true => simp [Rx.firstChars] at hl
    | false =>
      simp only [Rx.firstChars] at hl
      exact (expandItems_mem_iff x.t items l hl _).1 h.2.1
  | any dotall => simp [Rx.firstChars] at hl
  | seq a b iha ihb =>
    simp only [Spec] at h
    obtain ⟨m, cm, h1, h2⟩ := h
    simp only [Rx.firstChars] at hl
    by_cases hm : i < m
    · split at hl
      · obtain ⟨la, lb, e1, e2, rfl⟩ := optUnion_some hl
        exact List.mem_append_left _ (iha la e1 _ _ _ _ h1 hm)
      · exact iha l hl _ _ _ _ h1 hm
    · have := spec_mono h1
      have hmi : m = i := by omega
      subst hmi
      have hml := minLen_sound _ _ _ _ _ _ h1
      have hemp : a.mayBeEmpty = true := by
        simp only [Rx.mayBeEmpty, beq_iff_eq]
        omega
      rw [hemp] at hl
      simp only [if_true] at hl
      obtain ⟨la, lb, e1, e2, rfl⟩ := optUnion_some hl
      exact List.mem_append_right _ (ihb lb e2 _ _ _ _ h2 hne)
  | alt a b iha ihb =>
    simp only [Spec] at h
    simp only [Rx.firstChars] at hl
    obtain ⟨la, lb, e1, e2, rfl⟩ := optUnion_some hl
    rcases h with h | h
    · exact List.mem_append_left _ (iha la e1 _ _ _ _ h hne)
    · exact List.mem_append_right _ (ihb lb e2 _ _ _ _ h hne)
  | rep r mn mx g ih =>
    simp only [Spec] at h
    obtain ⟨cnt, _, _, h3⟩ := h
    simp only [Rx.firstChars] at hl
    exact iter_firstChars (ih l hl) h3 hne
  | grp idx r ih =>
    simp only [Spec] at h
    obtain ⟨c0, h1, _⟩ := h
    simp only [Rx.firstChars] at hl
    exact ih l hl _ _ _ _ h1 hne
  | backref idx => simp [Rx.firstChars] at hl
  | look ahead neg w r ih =>
    cases ahead <;> cases neg <;> simp only [Spec] at h <;> omega
  | bos => simp only [Spec] at h; omega
  | bol => simp only [Spec] at h; omega
  | eos => simp only [Spec] at h; omega
  | eol => simp only [Spec] at h; omega
  | eosStrict => simp only [Spec] at h; omega
  | wordb => simp only [Spec] at h; omega
  | nwordb => simp only [Spec] at h; omega

theorem iter_needs' {x : RxCtx} {r : Rx}
    (ih : ∀ (i : Nat) (c : Caps) (j : Nat) (c' : Caps), Spec x r i c j c' →
      ∀ ch ∈ r.needs, ∃ p, p < x.n ∧ x.chr p = ch)
    {cnt i : Nat} {c : Caps} {j : Nat} {c' : Caps}
    (h : Iter (Spec x r) cnt i c j c') (hc : 1 ≤ cnt) :
    ∀ ch ∈ r.needs, ∃ p, p < x.n ∧ x.chr p = ch := by
  cases h with
  | zero => omega
  | succ hs hrest => exact ih _ _ _ _ hs

/-- each needed character occurs in the subject (before `endpos`) whenever there is a match -/
theorem needs_sound' (x : RxCtx) (r : Rx) (i : Nat) (c : Caps) (j : Nat) (c' : Caps)
    (h : Spec x r i c j c') : ∀ ch ∈ r.needs, ∃ p, p < x.n ∧ x.chr p = ch := by
  induction r generalizing i c j c' with
  | eps => simp [Rx.needs]
  | fail => simp [Rx.needs]
  | cls neg items =>
    intro ch hch
    obtain ⟨rfl, rfl⟩ := needs_cls_mem hch
    simp only [Spec] at h
    obtain ⟨h1, h2, h3, _⟩ := h
    refine ⟨i, h1, ?_⟩
    simp [clsTest, ClsItem.test] at h2
    omega
  | any dotall => simp [Rx.needs]
  | seq a b iha ihb =>
    simp only [Spec] at h
    obtain ⟨m, cm, h1, h2⟩ := h
    intro ch hch
    simp only [Rx.needs, List.mem_append] at hch
    rcases hch with hch | hch
    · exact iha _ _ _ _ h1 ch hch
    · exact ihb _ _ _ _ h2 ch hch
  | alt a b iha ihb =>
    simp only [Spec] at h
    intro ch hch
    simp only [Rx.needs, List.mem_filter, List.contains_iff_mem] at hch
    rcases h with h | h
    · exact iha _ _ _ _ h ch hch.1
    · exact ihb _ _ _ _ h ch hch.2
  | rep r mn mx g ih =>
    simp only [Spec] at h
    obtain ⟨cnt, h1, _, h3⟩ := h
    intro ch hch
    simp only [Rx.needs] at hch
    split at hch
    · exact iter_needs' ih h3 (by omega) ch hch
    · simp at hch
  | grp idx r ih =>
    simp only [Spec] at h
    obtain ⟨c0, h1, _⟩ := h
    simp only [Rx.needs]
    exact ih _ _ _ _ h1
  | backref idx => simp [Rx.needs]
  | look ahead neg w r ih => simp [Rx.needs]
  | bos => simp [Rx.needs]
  | bol => simp [Rx.needs]
  | eos => simp [Rx.needs]
  | eol => simp [Rx.needs]
  | eosStrict => simp [Rx.needs]
  | wordb => simp [Rx.needs]
  | nwordb => simp [Rx.needs]

/-- a regex one of whose needed characters does not occur in the subject matches nowhere -/
theorem no_match_without_needed (x : RxCtx) (r : Rx) (ch : Nat) (hch : ch ∈ r.needs)
    (habs : ∀ p, p < x.n → x.chr p ≠ ch) (q : Nat) : r.matchAt x q = none := by
  cases hm : r.matchAt x q with
  | none => rfl
  | some mt =>
    exfalso
    obtain ⟨_, hs⟩ := matchAt_sound x r q mt hm
    obtain ⟨p, hp, hpc⟩ := needs_sound' x r _ _ _ _ hs ch hch
    exact habs p hp hpc

theorem scanAt_irrelevant_rule (x : RxCtx) (rules1 rules2 : List (String × Rx)) (name : String) (r : Rx)
    (hno : ∀ q, r.matchAt x q = none) (q : Nat) :
    scanAt x (rules1 ++ (name, r) :: rules2) q = scanAt x (rules1 ++ rules2) q := by
  induction rules1 with
  | nil => simp only [List.nil_append, scanAt, hno q]
  | cons hd tl ih =>
    obtain ⟨nm, r'⟩ := hd
    simp only [List.cons_append, scanAt, ih]

theorem scanFrom_congr (x : RxCtx) (rs rs' : List (String × Rx))
    (hq : ∀ q, scanAt x rs q = scanAt x rs' q) :
    ∀ fuel pos, scanFrom x rs fuel pos = scanFrom x rs' fuel pos := by
  intro fuel
  induction fuel with
  | zero => intro pos; simp only [scanFrom]
  | succ fuel ih =>
    intro pos
    simp only [scanFrom, hq, ih]

/-- **C10 (scanner level).** Adding, at any place of the rule list, a rule that needs a character the
subject does not contain leaves every scanner result unchanged. -/
theorem scan_irrelevant_rule (x : RxCtx) (rules1 rules2 : List (String × Rx)) (name : String) (r : Rx)
    (ch : Nat) (hch : ch ∈ r.needs) (habs : ∀ p, p < x.n → x.chr p ≠ ch) (pos : Nat) :
    scan x (rules1 ++ (name, r) :: rules2) pos = scan x (rules1 ++ rules2) pos := by
  unfold scan
  exact scanFrom_congr x _ _
    (scanAt_irrelevant_rule x rules1 rules2 name r (no_match_without_needed x r ch hch habs)) _ _

/-- **C09 (scanner level).** If every rule of a table can only start with a stop character and consumes at
least one character, then at a position whose character is not a stop character no rule matches. -/
theorem no_rule_at_nonstop (x : RxCtx) (rules : List (String × Rx)) (stops : List Nat)
    (hr : ∀ p ∈ rules, ∃ l, p.2.firstChars = some l ∧ ∀ ch ∈ l, ch ∈ stops)
    (hc : rulesConsume rules = true) (q : Nat) (hq : x.chr q ∉ stops) : scanAt x rules q = none := by
  induction rules with
  | nil => simp only [scanAt]
  | cons hd tl ih =>
    obtain ⟨nm, r⟩ := hd
    simp only [rulesConsume, List.all_cons, Bool.and_eq_true, decide_eq_true_eq] at hc
    have htl : scanAt x tl q = none :=
      ih (fun p hp => hr p (List.mem_cons_of_mem _ hp)) (by simpa [rulesConsume] using hc.2)
    simp only [scanAt]
    cases hm : r.matchAt x q with
    | none => simpa using htl
    | some mt =>
      exfalso
      obtain ⟨_, hs⟩ := matchAt_sound x r q mt hm
      have hlt := nonempty_of_minLen x r _ _ _ _ hs hc.1
      obtain ⟨l, hl1, hl2⟩ := hr (nm, r) (List.mem_cons_self ..)
      exact hq (hl2 _ (firstChars_sound x r l hl1 _ _ _ _ hs hlt))

theorem clsTest_anything (t : CatTables) (ch : Nat) :
    clsTest t false [.cat false .space, .cat true .space] ch = true := by
  cases hsp : t.isSpace ch <;> simp [clsTest, ClsItem.test, hsp]

/-- the lazy `+?` loop over a body that accepts every character, after at least one iteration: the
continuation succeeds at the first position where it can -/
theorem lazyLoop_first {R : Type} (x : RxCtx)
    (mr : Nat → Caps → (Nat → Caps → Option R) → Option R)
    (hmr : ∀ i c k, mr i c k = if i < x.n then k (i + 1) c else none)
    (k : Nat → Caps → Option R) (res : R) :
    ∀ fuel cnt i c, 1 ≤ cnt → i ≤ x.n → repLoop mr 1 none false k fuel cnt true i c = some res →
      ∃ j, i ≤ j ∧ j ≤ x.n ∧ k j c = some res ∧ ∀ q, i ≤ q → q < j → k q c = none := by
  intro fuel
  induction fuel with
  | zero => intro cnt i c _ _ h; simp [repLoop] at h
  | succ fuel ih =>
    intro cnt i c hcnt hi h
    simp only [repLoop, Bool.false_eq_true, if_false, ge_iff_le, hcnt, if_true, Bool.true_and,
      Bool.or_true, Bool.true_or] at h
    cases hk : k i c with
    | some r =>
      rw [hk] at h
      simp only [Option.some.injEq] at h
      subst h
      exact ⟨i, Nat.le_refl _, hi, hk, fun q h1 h2 => by omega⟩
    | none =>
      rw [hk] at h
      simp only [hmr] at h
      split at h
      · rename_i hlt
        have hadv : (i + 1 != i) = true := by simp
        rw [hadv] at h
        obtain ⟨j, j1, j2, j3, j4⟩ := ih (cnt + 1) (i + 1) c (by omega) (by omega) h
        refine ⟨j, by omega, j2, j3, ?_⟩
        intro q q1 q2
        by_cases hqi : q = i
        · subst hqi; exact hk
        · exact j4 q (by omega) q2
      · simp at h

/-- The lazy `[\s\S]+?` followed by a look-ahead `la` stops at the FIRST position after the start where the
look-ahead holds (priority semantics of the lazy repeat, proved for this shape). -/
theorem lazy_text_first (x : RxCtx) (la : Rx) (w : Nat) (p : Nat) (mt : RxMatch)
    (h : (Rx.seq (.rep (.cls false [.cat false .space, .cat true .space]) 1 none false)
            (.look true false w la)).matchAt x p = some mt) :
    p < mt.stop ∧ mt.stop ≤ x.n ∧
    (la.m x mt.stop [] (fun _ c => some c)).isSome = true ∧
    ∀ q, p < q → q < mt.stop → la.m x q [] (fun _ c => some c) = none := by
  unfold Rx.matchAt at h
  simp only [Rx.m] at h
  have hmr : ∀ (i : Nat) (c : Caps) (k : Nat → Caps → Option RxMatch),
      (fun i c k => if (decide (i < x.n) && clsTest x.t false [.cat false .space, .cat true .space] (x.chr i)) = true
        then k (i + 1) c else none) i c k = if i < x.n then k (i + 1) c else none := by
    intro i c k
    simp [clsTest_anything]
  generalize hmrdef : (fun (i : Nat) (c : Caps) (k : Nat → Caps → Option RxMatch) =>
      if (decide (i < x.n) && clsTest x.t false [.cat false .space, .cat true .space] (x.chr i)) = true
        then k (i + 1) c else none) = mr at h hmr
  generalize hfuel : x.n + 1 + 2 - p = fuel at h
  cases fuel with
  | zero => simp [repLoop] at h
  | succ fuel =>
    have h10 : ¬ (1 ≤ 0) := by omega
    simp only [repLoop, Bool.false_eq_true, if_false, ge_iff_le, h10,
      Nat.lt_add_one, decide_true, Bool.true_and, Bool.true_or, if_true, hmr] at h
    by_cases hlt : p < x.n
    · have hadv : (p + 1 != p) = true := by simp
      simp only [hlt, if_true, hadv] at h
      obtain ⟨j, j1, j2, j3, j4⟩ :=
        lazyLoop_first x mr hmr _ mt fuel 1 (p + 1) [] (Nat.le_refl _) (by omega) h
      cases hla : la.m x j [] (fun _ c' => some c') with
      | none => rw [hla] at j3; simp at j3
      | some c'' =>
        rw [hla] at j3
        simp only [Option.some.injEq] at j3
        subst j3
        refine ⟨by show p < j; omega, j2, by show (la.m x j [] _).isSome = true; rw [hla]; rfl, ?_⟩
        intro q q1 q2
        have := j4 q (by omega) q2
        cases hq : la.m x q [] (fun _ c' => some c') with
        | none => rfl
        | some cq => rw [hq] at this; simp at this
    · simp only [hlt, if_false] at h
      cases h

/-- a look-ahead whose first alternative is the stop class holds at every stop character inside the subject -/
theorem stop_class_holds (x : RxCtx) (items : List ClsItem) (rest : Rx) (q : Nat) (hq : q < x.n)
    (hs : clsTest x.t false items (x.chr q) = true) :
    ((Rx.alt (.cls false items) rest).m x q [] (fun _ c => some c)).isSome = true := by
  simp only [Rx.m, hq, hs, decide_true, Bool.and_self, if_true, Option.isSome_some]

/-- **C09 (chunk is clean).** Combining the three: inside the span claimed by the speedup text rule, strictly
after its first character, no rule of a table that can only start with stop characters matches. -/
theorem speedup_chunk_clean (x : RxCtx) (rules : List (String × Rx)) (items : List ClsItem) (rest : Rx) (w : Nat)
    (stops : List Nat) (hst : expandItems items = some stops)
    (hr : ∀ p ∈ rules, ∃ l, p.2.firstChars = some l ∧ ∀ ch ∈ l, ch ∈ stops)
    (hc : rulesConsume rules = true) (p : Nat) (mt : RxMatch)
    (h : (Rx.seq (.rep (.cls false [.cat false .space, .cat true .space]) 1 none false)
            (.look true false w (.alt (.cls false items) rest))).matchAt x p = some mt) :
    ∀ q, p < q → q < mt.stop → scanAt x rules q = none := by
  intro q hq1 hq2
  obtain ⟨_, h2, _, h4⟩ := lazy_text_first x _ w p mt h
  have hnone := h4 q hq1 hq2
  apply no_rule_at_nonstop x rules stops hr hc q
  intro hmem
  have hs := (expandItems_mem_iff x.t items stops hst (x.chr q)).2 hmem
  have := stop_class_holds x items rest q (by omega) hs
  rw [hnone] at this
  simp at this

end Mistune

