/-
C10 "a plugin only affects documents that use its syntax", for the CONCRETE inline parser model
(`Mistune.Model.Inl`): a configuration `cfg'` that differs from `cfg` by ONE more inline rule `name` whose pattern
NEEDS a character `ch` (`Rx.needs`) parses every `ch`-free source exactly as `cfg` does (tokens and errors).

The heart is the closure invariant `PX ch st.x` ("the subject of the state contains no `ch`"): every source the
inline parser is run on while it parses `src` (children of emphasis / strong / link / image / plugin spans, the
speculative calls of `precedence_scan`) is built from characters of the parent subject.  The two parses run in
lock-step (`Agree`): induction on the nesting budget of `recAt`.
-/
import Mistune.Model.Inline
import MistuneProofs.C09C10
import MistuneProofs.C01ProgressInline
import MistuneProofs.C10InlineFrame
namespace Mistune
namespace Model
namespace Inl

/-! ### character-freeness -/

/-- no character of `s` has code `ch` -/
def CF (ch : Nat) (s : Str) : Prop := ∀ c ∈ s, c.toNat ≠ ch

instance (ch : Nat) (s : Str) : Decidable (CF ch s) := by unfold CF; exact inferInstance

/-- the matching context has a `ch`-free subject (and a sane end position) -/
def PX (ch : Nat) (x : RxCtx) : Prop := CF ch x.s.toList ∧ x.n ≤ x.s.size

theorem CF.mono {ch : Nat} {s t : Str} (h : CF ch s) (hsub : ∀ c ∈ t, c ∈ s) : CF ch t := fun c hc => h c (hsub c hc)

theorem cf_slice {ch : Nat} {a : Array Char} (h : CF ch a.toList) (i j : Nat) : CF ch (Py.slice a i j) := by
  refine h.mono (fun c hc => ?_)
  unfold Py.slice at hc
  rw [Array.toList_extract, List.extract] at hc
  exact List.mem_of_mem_drop (List.mem_of_mem_take hc)

theorem CF.dropLast {ch : Nat} {s : Str} (h : CF ch s) : CF ch s.dropLast :=
  h.mono (fun _ hc => (List.dropLast_sublist s).subset hc)

theorem CF.drop {ch : Nat} {s : Str} (h : CF ch s) (k : Nat) : CF ch (s.drop k) :=
  h.mono (fun _ hc => List.mem_of_mem_drop hc)

theorem px_mkCtx {ch : Nat} {t : Str} (h : CF ch t) : PX ch (mkCtx t t.length) := by
  refine ⟨?_, ?_⟩
  · simpa [mkCtx] using h
  · simp [mkCtx]

theorem px_habs {ch : Nat} {x : RxCtx} (h : PX ch x) : ∀ p, p < x.n → x.chr p ≠ ch := by
  intro p hp
  have hp' : p < x.s.size := Nat.lt_of_lt_of_le hp h.2
  unfold RxCtx.chr
  rw [Array.getD_eq_getD_getElem?, Array.getElem?_eq_getElem hp']
  exact h.1 _ (by simp)

/-- truncating the end position keeps `PX` -/
theorem px_trunc {ch : Nat} {x : RxCtx} (h : PX ch x) (e : Nat) : PX ch { x with n := min e x.n } :=
  ⟨h.1, Nat.le_trans (Nat.min_le_right _ _) h.2⟩

theorem startsWith_mem : ∀ (s p : Str), Py.startsWith s p = true → ∀ c ∈ p, c ∈ s
  | _, [], _, c, hc => by cases hc
  | [], _ :: _, h, _, _ => by simp [Py.startsWith] at h
  | a :: s, b :: p, h, c, hc => by
    simp only [Py.startsWith, Bool.and_eq_true, beq_iff_eq] at h
    rcases List.mem_cons.1 hc with rfl | hc
    · rw [← h.1]; exact List.mem_cons_self
    · exact List.mem_cons_of_mem _ (startsWith_mem s p h.2 c hc)

theorem replaceAll_go_mem (old new : Str) (hnew : ∀ c ∈ new, c ∈ old) :
    ∀ (fuel : Nat) (s : Str), ∀ c ∈ Py.replaceAll.go old new s fuel, c ∈ s := by
  intro fuel
  induction fuel with
  | zero =>
    intro s c hc
    cases s with
    | nil => simp [Py.replaceAll.go] at hc
    | cons a r => simpa [Py.replaceAll.go] using hc
  | succ fuel ih =>
    intro s c hc
    cases s with
    | nil => simp [Py.replaceAll.go] at hc
    | cons a r =>
      simp only [Py.replaceAll.go] at hc
      split at hc
      · rename_i hsw
        rcases List.mem_append.1 hc with h | h
        · exact startsWith_mem _ _ hsw c (hnew c h)
        · exact List.mem_of_mem_drop (ih _ c h)
      · rcases List.mem_cons.1 hc with rfl | h
        · exact List.mem_cons_self
        · exact List.mem_cons_of_mem _ (ih _ c h)

/-- `s.replace(old, new)` brings in no new character when every character of `new` occurs in `old` -/
theorem cf_replaceAll {ch : Nat} (old new : Str) (hnew : ∀ c ∈ new, c ∈ old) {s : Str} (h : CF ch s) :
    CF ch (Py.replaceAll old new s) := by
  unfold Py.replaceAll
  split
  · exact h
  · exact h.mono (replaceAll_go_mem old new hnew _ _)

theorem cf_scriptText {ch : Nat} {s : Str} (h : CF ch s) : CF ch (scriptText s) := by
  unfold scriptText
  exact cf_replaceAll _ _ (by decide) (h.drop 1).dropLast

theorem cf_groupNamed {ch : Nat} (cfg : MdCfg) {a : Array Char} (h : CF ch a.toList) (m : RxMatch) (g : String) :
    CF ch (groupNamed cfg a m g) := by
  unfold groupNamed
  split
  · unfold Py.groupStr
    cases m.group _ with
    | none => intro c hc; cases hc
    | some p => exact cf_slice h _ _
  · intro c hc; cases hc


/-! ### the two configurations -/

/-- `cfg` with another name and other inline tables (`inline.rules`, `inline.specification`); everything else
(block tables, module-level patterns, group indices, hooks, flags) is `cfg`'s -/
def withInline (cfg : MdCfg) (nm : String) (rules : List String) (spec : List (String × Rx)) : MdCfg :=
  { cfg with name := nm, inlineRules := rules, inlineSpec := spec }

/-- the rule names `precedence_scan` is called with, and what it turns them into (`lastgroup.replace("prec_", "")`) -/
def precNames : List String := ["codespan", "link", "prec_auto_link", "prec_inline_html"]

abbrev precStrip (n : String) : String := String.ofList (Py.replaceAll "prec_".toList [] n.toList)

/-- what the proof needs from the pair of inline tables: they agree away from `name`, and `name` is none of the
rule names that handlers look up themselves (`precedence_scan`; the fallback of `_ruby_re`) -/
structure Side (cfg : MdCfg) (rules : List String) (spec : List (String × Rx)) (name : String) : Prop where
  spec : ∀ n, n ≠ name → spec.lookup n = cfg.inlineSpec.lookup n
  rules : ∀ n, n ≠ name → rules.contains n = cfg.inlineRules.contains n
  prec : ∀ n ∈ precNames, n ≠ name ∧ precStrip n ≠ name
  ruby : name ≠ "ruby" ∨ (cfg.named.lookup "mistune.plugins.ruby._ruby_re").isSome = true

section
variable {cfg : MdCfg} {nm : String} {rules : List String} {spec : List (String × Rx)} {name : String} {ch : Nat}

local notation "cfg'" => withInline cfg nm rules spec

theorem compileSc_eq (hs : Side cfg rules spec name) (rs : List String) (h : name ∉ rs) :
    compileSc cfg' rs = compileSc cfg rs := by
  unfold compileSc
  induction rs with
  | nil => rfl
  | cons a l ih =>
    have ha : a ≠ name := fun e => h (e ▸ List.mem_cons_self)
    simp only [List.mapM_cons]
    rw [ih (fun hm => h (List.mem_cons_of_mem _ hm))]
    have : (withInline cfg nm rules spec).inlineSpec.lookup a = cfg.inlineSpec.lookup a := hs.spec a ha
    rw [this]

theorem compileSc_names (cfg : MdCfg) : ∀ (rs : List String) (sc : List (String × Rx)),
    compileSc cfg rs = .ok sc → ∀ p ∈ sc, p.1 ∈ rs := by
  intro rs
  unfold compileSc
  induction rs with
  | nil =>
    intro sc h p hp
    simp only [List.mapM_nil, pure, Except.pure, Except.ok.injEq] at h
    subst h; cases hp
  | cons a l ih =>
    intro sc h p hp
    simp only [List.mapM_cons] at h
    cases hl : cfg.inlineSpec.lookup a with
    | none => simp only [hl, bind, Except.bind] at h; cases h
    | some r =>
      simp only [hl, bind, Except.bind] at h
      split at h
      · cases h
      · rename_i bs hm
        simp only [pure, Except.pure, Except.ok.injEq] at h
        subst h
        rcases List.mem_cons.1 hp with rfl | hp
        · exact List.mem_cons_self
        · exact List.mem_cons_of_mem _ (ih bs hm p hp)

theorem parseLinkTextLoop_cfg (x : RxCtx) : ∀ fuel pos level,
    parseLinkTextLoop cfg' x fuel pos level = parseLinkTextLoop cfg x fuel pos level := by
  intro fuel
  induction fuel with
  | zero => intro pos level; rfl
  | succ f ih =>
    intro pos level
    simp only [parseLinkTextLoop, ih]
    rfl

theorem parseLinkText_cfg (x : RxCtx) (pos : Nat) : parseLinkText cfg' x pos = parseLinkText cfg x pos := by
  unfold parseLinkText
  rw [parseLinkTextLoop_cfg]

theorem rubyRe_cfg (hs : Side cfg rules spec name) : rubyRe cfg' = rubyRe cfg := by
  unfold rubyRe
  rcases hs.ruby with h | h
  · have : (withInline cfg nm rules spec).inlineSpec.lookup "ruby" = cfg.inlineSpec.lookup "ruby" :=
      hs.spec "ruby" (Ne.symm h)
    rw [this]
    rfl
  · have hn : (withInline cfg nm rules spec).named = cfg.named := rfl
    rw [hn]
    cases hl : cfg.named.lookup "mistune.plugins.ruby._ruby_re" with
    | none => rw [hl] at h; cases h
    | some r => rfl

theorem rubyLoop_cfg (hs : Side cfg rules spec name) : ∀ fuel m st,
    rubyLoop cfg' fuel m st = rubyLoop cfg fuel m st := by
  intro fuel
  induction fuel with
  | zero => intro m st; rfl
  | succ f ih =>
    intro m st
    simp only [rubyLoop, ih, rubyRe_cfg hs]

theorem parseRuby_cfg (hs : Side cfg rules spec name) (m : RxMatch) (st : InlineState) :
    parseRuby cfg' m st = parseRuby cfg m st := by
  unfold parseRuby
  rw [rubyLoop_cfg hs]
  rfl

/-! ### the recursive entry points agree on `ch`-free subjects -/

/-- the entry points of the two parsers agree on every state whose subject is `ch`-free (for the speculative handler
call: for every rule but the additional one) -/
structure Agree (ch : Nat) (name : String) (R' R : Rec) : Prop where
  renderSt : ∀ st, PX ch st.x → R'.renderSt st = R.renderSt st
  call : ∀ n m st, n ≠ name → PX ch st.x → R'.call n m st = R.call n m st

variable {R' R : Rec}

theorem renderIn_eq (hR : Agree ch name R' R) (child st : InlineState) (h : PX ch child.x) :
    R'.renderIn child st = R.renderIn child st := by
  unfold Rec.renderIn
  rw [hR.renderSt _ h]

theorem bind_congr_ok {ε α β : Type} {x : Except ε α} {f g : α → Except ε β}
    (h : ∀ a, x = .ok a → f a = g a) : x >>= f = x >>= g := by
  cases x with
  | error e => rfl
  | ok a => exact h a rfl

/-- a child state whose subject is a `ch`-free text: the two `render`s agree -/
theorem renderIn_child (hR : Agree ch name R' R) {child st : InlineState} {t : Str}
    (hx : child.x = mkCtx t t.length) (ht : CF ch t) : R'.renderIn child st = R.renderIn child st :=
  renderIn_eq hR _ _ (hx ▸ px_mkCtx ht)

theorem cf_stslice {st : InlineState} (hst : PX ch st.x) (i j : Nat) : CF ch (st.slice i j) := cf_slice hst.1 i j

/-! ### children sources are `ch`-free: handler by handler -/

theorem parseToEnd_eq (hR : Agree ch name R' R) (ty : String) (re : Rx) (m : RxMatch) (st : InlineState)
    (hst : PX ch st.x) : parseToEnd R' ty re m st = parseToEnd R ty re m st := by
  unfold parseToEnd renderChildren
  dsimp only
  cases re.search st.x m.stop with
  | none => rfl
  | some m1 =>
    dsimp only
    rw [renderIn_child hR rfl (cf_stslice hst _ _)]

theorem parseScript_eq (hR : Agree ch name R' R) (ty : String) (m : RxMatch) (st : InlineState)
    (hst : PX ch st.x) : parseScript R' ty m st = parseScript R ty m st := by
  unfold parseScript renderChildren group0
  dsimp only
  rw [renderIn_child hR rfl (cf_scriptText (cf_stslice hst _ _))]

theorem parseInlineSpoiler_eq (hR : Agree ch name R' R) (m : RxMatch) (st : InlineState)
    (hst : PX ch st.x) : parseInlineSpoiler cfg' R' m st = parseInlineSpoiler cfg R m st := by
  unfold parseInlineSpoiler renderChildren
  dsimp only
  rw [renderIn_child hR rfl (cf_groupNamed _ hst.1 m _)]
  rfl

theorem precedenceScan_eq (hs : Side cfg rules spec name) (hR : Agree ch name R' R) (m : RxMatch)
    (st : InlineState) (endPos : Nat) (rs : List String) (hrs : ∀ n ∈ rs, n ∈ precNames) (hst : PX ch st.x) :
    precedenceScan cfg' R' m st endPos rs = precedenceScan cfg R m st endPos rs := by
  have hnot : name ∉ rs := fun h => (hs.prec _ (hrs _ h)).1 rfl
  unfold precedenceScan
  dsimp only
  rw [compileSc_eq hs rs hnot]
  refine bind_congr_ok (fun sc hsc => ?_)
  cases hscan : scan { st.x with n := min endPos st.x.n } sc m.stop with
  | none => rfl
  | some p =>
    obtain ⟨lg, m1⟩ := p
    dsimp only
    have hlg : lg ∈ rs := by
      obtain ⟨_, _, _, ⟨r, hmem, _⟩, _⟩ := scan_sound _ _ _ _ _ hscan
      exact compileSc_names cfg rs sc hsc _ hmem
    have hne : precStrip lg ≠ name := (hs.prec _ (hrs _ hlg)).2
    rw [compileSc_eq hs [precStrip lg] (by simp only [List.mem_singleton]; exact fun h => hne h.symm)]
    refine bind_congr_ok (fun sc2 _ => ?_)
    cases scanAt st.x sc2 m1.start with
    | none => rfl
    | some q =>
      obtain ⟨_, m2⟩ := q
      dsimp only
      rw [hR.call _ m2 (st.copy.setSrcOf st) hne hst]

theorem wi_named : (withInline cfg nm rules spec).named = cfg.named := rfl

theorem parseEmphasis_eq (hs : Side cfg rules spec name) (hR : Agree ch name R' R) (m : RxMatch)
    (st : InlineState) (hst : PX ch st.x) : parseEmphasis cfg' R' m st = parseEmphasis cfg R m st := by
  unfold parseEmphasis
  rw [wi_named]
  dsimp only
  split
  · rfl
  split
  · rfl
  split
  case h_2 => rfl
  refine bind_congr_ok (fun endRe _ => ?_)
  cases endRe.search st.x m.stop with
  | none => rfl
  | some m1 =>
    dsimp only
    rw [precedenceScan_eq hs hR _ _ _ _ (by decide) hst]
    refine bind_congr_ok (fun ps _ => ?_)
    obtain ⟨precPos, st1⟩ := ps
    dsimp only
    have hc : CF ch (st.slice m.stop (m1.stop - (group0 st m).length)) := cf_stslice hst _ _
    split
    · rfl
    split
    · rw [renderIn_child hR rfl hc]
    · split
      · rw [renderIn_child hR rfl hc]
      · rw [renderIn_child hR rfl hc]

theorem parseLinkToken_eq (hR : Agree ch name R' R) (isImage : Bool) (text : Str) (attrs : Json) (st : InlineState)
    (ht : CF ch text) : parseLinkToken R' isImage text attrs st = parseLinkToken R isImage text attrs st := by
  unfold parseLinkToken
  dsimp only
  split
  · rw [renderIn_child hR rfl ht]
  · rw [renderIn_child hR rfl ht]

theorem parseLinkRef_eq (hR : Agree ch name R' R) (isImage : Bool) (text : Str) (label : Option Str) (endPos : Nat)
    (st : InlineState) (ht : CF ch text) :
    parseLinkRef R' isImage text label endPos st = parseLinkRef R isImage text label endPos st := by
  unfold parseLinkRef
  simp only [parseLinkToken_eq hR _ _ _ _ ht]

theorem parseLinkLabel_cf {x : RxCtx} (h : PX ch x) (c : MdCfg) (p : Nat) (l : Str) (e : Nat)
    (hl : parseLinkLabel c x p = some (l, e)) : CF ch l := by
  unfold parseLinkLabel at hl
  split at hl
  · simp only [Option.some.injEq, Prod.mk.injEq] at hl
    rw [← hl.1]; exact (cf_slice h.1 _ _).dropLast
  · cases hl

theorem parseLinkText_cf {x : RxCtx} (h : PX ch x) (c : MdCfg) (p : Nat) (t : Str) (e : Nat)
    (hl : parseLinkText c x p = .ok (some (t, e))) : CF ch t := by
  unfold parseLinkText at hl
  cases hloop : parseLinkTextLoop c x (x.s.size + 1 - p) p 1 with
  | error err => rw [hloop] at hl; cases hl
  | ok o =>
    rw [hloop] at hl
    cases o with
    | none => simp [bind, Except.bind, pure, Except.pure] at hl
    | some q =>
      simp only [bind, Except.bind, pure, Except.pure, Except.ok.injEq, Option.some.injEq, Prod.mk.injEq] at hl
      rw [← hl.1]; exact cf_slice h.1 _ _

theorem parseLinkLabel_cfg (x : RxCtx) (p : Nat) : parseLinkLabel cfg' x p = parseLinkLabel cfg x p := rfl
theorem parseLinkH_cfg (x : RxCtx) (p : Nat) : parseLinkH cfg' x p = parseLinkH cfg x p := rfl

theorem parseLink_eq (hs : Side cfg rules spec name) (hR : Agree ch name R' R) (m : RxMatch)
    (st : InlineState) (hst : PX ch st.x) : parseLink cfg' R' m st = parseLink cfg R m st := by
  unfold parseLink
  dsimp only
  rw [parseLinkLabel_cfg, parseLinkText_cfg]
  cases hg : group0 st m with
  | nil => rfl
  | cons c tl =>
    dsimp only
    refine bind_congr_ok (fun c0 _ => ?_)
    by_cases h1 : (c0 == '!' && st.inImage) = true
    · rw [if_pos h1, if_pos h1]
    rw [if_neg h1, if_neg h1]
    by_cases h2 : (!c0 == '!' && st.inLink) = true
    · rw [if_pos h2, if_pos h2]
    rw [if_neg h2, if_neg h2]
    cases hlab : parseLinkLabel cfg st.x m.stop with
    | some le =>
      obtain ⟨l, e⟩ := le
      have ht : CF ch l := parseLinkLabel_cf hst _ _ _ _ hlab
      dsimp only
      refine bind_congr_ok (fun te hte => ?_)
      simp only [pure, Except.pure, Except.ok.injEq] at hte
      subst hte
      dsimp only
      by_cases h3 : (decide (e ≥ st.len) && (Option.map (fun x => x.fst) (some (l, e))).isNone) = true
      · rw [if_pos h3, if_pos h3]
      rw [if_neg h3, if_neg h3]
      rw [precedenceScan_eq hs hR _ _ _ _ (by decide) hst]
      refine bind_congr_ok (fun ps _ => ?_)
      simp only [parseLinkToken_eq hR _ _ _ _ ht, parseLinkRef_eq hR _ _ _ _ _ ht, parseLinkH_cfg, parseLinkLabel_cfg]
    | none =>
      dsimp only
      refine bind_congr_ok (fun te hte => ?_)
      cases te with
      | none => rfl
      | some p =>
        obtain ⟨text, endPos⟩ := p
        have ht : CF ch text := parseLinkText_cf hst _ _ _ _ hte
        dsimp only
        by_cases h3 : (decide (endPos ≥ st.len) && (Option.map (fun x : Str × Nat => x.fst) none).isNone) = true
        · rw [if_pos h3, if_pos h3]
        rw [if_neg h3, if_neg h3]
        rw [precedenceScan_eq hs hR _ _ _ _ (by decide) hst]
        refine bind_congr_ok (fun ps _ => ?_)
        simp only [parseLinkToken_eq hR _ _ _ _ ht, parseLinkRef_eq hR _ _ _ _ _ ht, parseLinkH_cfg, parseLinkLabel_cfg]

/-- **the dispatcher**: every rule but the additional one has the same handler result in both parsers -/
theorem parseMethod_eq (hs : Side cfg rules spec name) (hR : Agree ch name R' R) (n : String) (hn : n ≠ name)
    (m : RxMatch) (st : InlineState) (hst : PX ch st.x) :
    parseMethod cfg' R' n m st = parseMethod cfg R n m st := by
  unfold parseMethod
  rw [show (withInline cfg nm rules spec).inlineRules.contains n = cfg.inlineRules.contains n from hs.rules n hn]
  split
  · rfl
  split
  all_goals first
    | rfl
    | exact parseEmphasis_eq hs hR m st hst
    | exact parseLink_eq hs hR m st hst
    | exact parseToEnd_eq hR _ _ m st hst
    | exact parseScript_eq hR _ m st hst
    | exact parseInlineSpoiler_eq hR m st hst
    | exact parseRuby_cfg hs m st

/-! ### the scanning loop, `parse`, and the induction on the nesting budget -/

theorem ptc_x (t : Str) (st st1 : InlineState)
    (h : processTextC cfg t st = .ok st1) : st1.x = st.x := (processTextC_frame cfg t st st1 h).x

theorem parseLoop_eq (hs : Side cfg rules spec name) (hR : Agree ch name R' R) (s1 s2 : List (String × Rx)) (r : Rx) (hch : ch ∈ r.needs)
    (hfresh : ∀ p ∈ s1 ++ s2, p.1 ≠ name) :
    ∀ (fuel pos : Nat) (st : InlineState), PX ch st.x →
      parseLoop cfg' R' (s1 ++ (name, r) :: s2) fuel pos st = parseLoop cfg R (s1 ++ s2) fuel pos st := by
  intro fuel
  induction fuel with
  | zero => intro pos st _; rfl
  | succ f ih =>
    intro pos st hst
    unfold parseLoop
    rw [scan_irrelevant_rule st.x s1 s2 name r ch hch (px_habs hst)]
    by_cases hlt : pos < st.len
    · rw [if_pos hlt, if_pos hlt]
      cases hscan : scan st.x (s1 ++ s2) pos with
      | none => rfl
      | some p =>
        obtain ⟨n, m⟩ := p
        dsimp only
        obtain ⟨_, _, hstop, ⟨r0, hmem, _⟩, _⟩ := scan_sound _ _ _ _ _ hscan
        have hn : n ≠ name := hfresh _ hmem
        by_cases hgt : m.start > pos
        · rw [if_pos hgt, if_pos hgt]
          refine bind_congr_ok (fun st1 h1 => ?_)
          have hx1 : st1.x = st.x := ptc_x _ _ _ h1
          have hst1 : PX ch st1.x := hx1 ▸ hst
          rw [parseMethod_eq hs hR n hn m st1 hst1]
          refine bind_congr_ok (fun res h2 => ?_)
          obtain ⟨newPos, st2⟩ := res
          have hx2 : st2.x = st1.x := parseMethod_x cfg R n m st1 newPos st2 h2
          have hst2 : PX ch st2.x := hx2 ▸ hst1
          have hdecl : (do let st3 ← processTextC cfg' (st2.slice m.start (m.start + 1)) st2
                           parseLoop cfg' R' (s1 ++ (name, r) :: s2) f (m.start + 1) st3) =
                       (do let st3 ← processTextC cfg (st2.slice m.start (m.start + 1)) st2
                           parseLoop cfg R (s1 ++ s2) f (m.start + 1) st3) := by
            refine bind_congr_ok (fun st3 h3 => ?_)
            exact ih _ st3 ((ptc_x _ _ _ h3) ▸ hst2)
          dsimp only
          cases newPos with
          | none => exact hdecl
          | some q =>
            dsimp only
            by_cases hq : (q != 0) = true
            · rw [if_pos hq, if_pos hq]
              by_cases hle : q ≤ pos
              · rw [if_pos hle, if_pos hle]
              · rw [if_neg hle, if_neg hle]
                exact ih _ st2 hst2
            · rw [if_neg hq, if_neg hq]
              exact hdecl
        · rw [if_neg hgt, if_neg hgt]
          refine bind_congr_ok (fun st1 h1 => ?_)
          have hx1 : st1.x = st.x := by cases h1; rfl
          have hst1 : PX ch st1.x := hx1 ▸ hst
          rw [parseMethod_eq hs hR n hn m st1 hst1]
          refine bind_congr_ok (fun res h2 => ?_)
          obtain ⟨newPos, st2⟩ := res
          have hx2 : st2.x = st1.x := parseMethod_x cfg R n m st1 newPos st2 h2
          have hst2 : PX ch st2.x := hx2 ▸ hst1
          have hdecl : (do let st3 ← processTextC cfg' (st2.slice m.start (m.start + 1)) st2
                           parseLoop cfg' R' (s1 ++ (name, r) :: s2) f (m.start + 1) st3) =
                       (do let st3 ← processTextC cfg (st2.slice m.start (m.start + 1)) st2
                           parseLoop cfg R (s1 ++ s2) f (m.start + 1) st3) := by
            refine bind_congr_ok (fun st3 h3 => ?_)
            exact ih _ st3 ((ptc_x _ _ _ h3) ▸ hst2)
          dsimp only
          cases newPos with
          | none => exact hdecl
          | some q =>
            dsimp only
            by_cases hq : (q != 0) = true
            · rw [if_pos hq, if_pos hq]
              by_cases hle : q ≤ pos
              · rw [if_pos hle, if_pos hle]
              · rw [if_neg hle, if_neg hle]
                exact ih _ st2 hst2
            · rw [if_neg hq, if_neg hq]
              exact hdecl
    · rw [if_neg hlt, if_neg hlt]

theorem compileSc_append (c : MdCfg) (a b : List String) :
    compileSc c (a ++ b) = (do let x ← compileSc c a; let y ← compileSc c b; pure (x ++ y)) := by
  unfold compileSc
  rw [List.mapM_append]

theorem compileSc_cons (c : MdCfg) (a : String) (b : List String) :
    compileSc c (a :: b) = (do
      let x ← (match c.inlineSpec.lookup a with | some r => Except.ok (a, r) | none => Except.error PyErr.keyError)
      let y ← compileSc c b
      pure (x :: y)) := by
  unfold compileSc
  rw [List.mapM_cons]
  rfl

theorem parse_eq (hs : Side cfg rules spec name) (hR : Agree ch name R' R) (pre post : List String) (hrules : rules = pre ++ name :: post)
    (hcr : cfg.inlineRules = pre ++ post) (r : Rx) (hr : spec.lookup name = some r) (hch : ch ∈ r.needs)
    (hfresh : name ∉ pre ++ post) (st : InlineState) (hst : PX ch st.x) : parse cfg' R' st = parse cfg R st := by
  have hpre : name ∉ pre := fun h => hfresh (List.mem_append_left _ h)
  have hpost : name ∉ post := fun h => hfresh (List.mem_append_right _ h)
  have e1 : compileSc cfg' (withInline cfg nm rules spec).inlineRules =
      (do let x ← compileSc cfg pre; let y ← compileSc cfg post; pure (x ++ (name, r) :: y)) := by
    have e0 : compileSc cfg' rules = compileSc cfg' (pre ++ name :: post) := by rw [← hrules]
    show compileSc cfg' rules = _
    rw [e0, compileSc_append, compileSc_cons, compileSc_eq hs pre hpre, compileSc_eq hs post hpost]
    have : (withInline cfg nm rules spec).inlineSpec.lookup name = some r := hr
    rw [this]
    cases compileSc cfg pre <;> cases compileSc cfg post <;> rfl
  have e2 : compileSc cfg cfg.inlineRules =
      (do let x ← compileSc cfg pre; let y ← compileSc cfg post; pure (x ++ y)) := by
    rw [hcr, compileSc_append]
  unfold parse
  rw [e1, e2]
  cases hp : compileSc cfg pre with
  | error e => rfl
  | ok s1 =>
    cases hq : compileSc cfg post with
    | error e => rfl
    | ok s2 =>
      have hfr : ∀ p ∈ s1 ++ s2, p.1 ≠ name := by
        intro p hp' he
        rcases List.mem_append.1 hp' with h | h
        · exact hpre (he ▸ compileSc_names cfg pre s1 hp p h)
        · exact hpost (he ▸ compileSc_names cfg post s2 hq p h)
      show (parseLoop cfg' R' (s1 ++ (name, r) :: s2) (st.len + 1) 0 st >>= _) = _
      rw [parseLoop_eq hs hR s1 s2 r hch hfr _ _ st hst]
      rfl

/-- **the closure invariant, by induction on the nesting budget**: the recursive entry points of the two parsers agree
on every `ch`-free subject, at every depth -/
theorem recAt_agree (hs : Side cfg rules spec name)
    (pre post : List String) (hrules : rules = pre ++ name :: post)
    (hcr : cfg.inlineRules = pre ++ post) (r : Rx) (hr : spec.lookup name = some r) (hch : ch ∈ r.needs)
    (hfresh : name ∉ pre ++ post) : ∀ k, Agree ch name (recAt cfg' k) (recAt cfg k) := by
  intro k
  induction k with
  | zero => exact ⟨fun _ _ => rfl, fun _ _ _ _ _ => rfl⟩
  | succ k ih =>
    refine ⟨fun st hst => ?_, fun n m st hn hst => ?_⟩
    · exact parse_eq hs ih pre post hrules hcr r hr hch hfresh st hst
    · exact parseMethod_eq hs ih n hn m st hst

end

/-! ### the headline theorem -/

/-- `cfg'` is `cfg` with ONE more inline rule `name` (pattern `r`), registered between `pre` and `post`:
all other fields equal (the configuration name aside); `inline.specification` of `cfg` is that of `cfg'` without the
entries of `name`. -/
structure AddsInlineRule (cfg cfg' : MdCfg) (name : String) (r : Rx) (pre post : List String) : Prop where
  same : cfg' = withInline cfg cfg'.name cfg'.inlineRules cfg'.inlineSpec
  rules' : cfg'.inlineRules = pre ++ name :: post
  rules : cfg.inlineRules = pre ++ post
  fresh : name ∉ pre ++ post
  specName : cfg'.inlineSpec.lookup name = some r
  specOther : cfg.inlineSpec = cfg'.inlineSpec.filter (fun p => p.1 != name)

/-- decidable side conditions on the rule NAME: it has a modelled handler (otherwise `cfg'` is a `KeyError` by
construction), and it is none of the names other handlers look up by themselves (`precedence_scan`: `codespan`,
`link`, `auto_link`, `inline_html` and their `prec_` forms; `ruby`: the fallback of `_ruby_re`) -/
def nameOk (cfg : MdCfg) (name : String) : Bool :=
  handlerNames.contains name && precNames.all (fun n => n != name && precStrip n != name) &&
    (name != "ruby" || (cfg.named.lookup "mistune.plugins.ruby._ruby_re").isSome)

theorem lookup_filter_ne (name : String) (n : String) (hn : n ≠ name) : ∀ l : List (String × Rx),
    (l.filter (fun p => p.1 != name)).lookup n = l.lookup n
  | [] => rfl
  | (a, b) :: l => by
    by_cases ha : a = name
    · subst ha
      have h1 : (n == a) = false := by simpa using hn
      simp only [List.filter, bne_self_eq_false, List.lookup, h1]
      exact lookup_filter_ne a n hn l
    · have h1 : (a != name) = true := by simpa using ha
      simp only [List.filter, h1, List.lookup]
      rw [lookup_filter_ne name n hn l]

theorem side_of (cfg cfg' : MdCfg) (name : String) (r : Rx) (pre post : List String)
    (h : AddsInlineRule cfg cfg' name r pre post) (hn : nameOk cfg name = true) :
    Side cfg cfg'.inlineRules cfg'.inlineSpec name := by
  unfold nameOk at hn
  simp only [Bool.and_eq_true, Bool.or_eq_true, List.all_eq_true, bne_iff_ne, ne_eq] at hn
  refine ⟨fun n hne => ?_, fun n hne => ?_, fun n hmem => ?_, hn.2⟩
  · rw [h.specOther, lookup_filter_ne name n hne]
  · rw [h.rules', h.rules]
    have : (n == name) = false := by simpa using hne
    simp only [List.contains_eq_mem, List.mem_append, List.mem_cons, hne, false_or]
  · exact hn.1.2 n hmem

/-- **C10 for the concrete inline parser.**  If `cfg'` is `cfg` plus one inline rule `name` whose pattern needs the
character `ch`, then on every source without `ch` the two inline parsers return the same tokens / the same error.
Side conditions, both decidable on regenerated data: `AddsInlineRule` (the relation between the two configurations)
and `nameOk name`.  Nothing is assumed about `env`, the block tables or the `abbr` plugin: "a handler keeps the
subject" is `parseMethod_x` (`MistuneProofs.C10InlineFrame`), which holds unconditionally. -/
theorem inlineParseEnv_irrelevant_rule (cfg cfg' : MdCfg) (name : String) (r : Rx) (pre post : List String)
    (h : AddsInlineRule cfg cfg' name r pre post) (hn : nameOk cfg name = true)
    (ch : Nat) (hch : ch ∈ r.needs) (env : Json) (src : Str) (hsrc : CF ch src) :
    Inl.inlineParseEnv cfg' env src = Inl.inlineParseEnv cfg env src := by
  have hs := side_of cfg cfg' name r pre post h hn
  have hh : handlerNames.contains name = true := by
    unfold nameOk at hn
    simp only [Bool.and_eq_true] at hn
    exact hn.1.1
  have hany : cfg'.inlineRules.any (fun n => !handlerNames.contains n) =
      cfg.inlineRules.any (fun n => !handlerNames.contains n) := by
    rw [h.rules', h.rules]
    simp only [List.any_append, List.any_cons, hh, Bool.not_true, Bool.false_or]
  have hst : PX ch ((InlineState.new env).setSrc src).x := px_mkCtx hsrc
  have key := parse_eq (nm := cfg'.name) hs
    (recAt_agree (nm := cfg'.name) hs pre post h.rules' h.rules r h.specName hch h.fresh inlineFuel)
    pre post h.rules' h.rules r h.specName hch h.fresh _ hst
  rw [← h.same] at key
  unfold Inl.inlineParseEnv renderSt
  dsimp only
  rw [hany, key]

theorem inlineParse_irrelevant_rule (cfg cfg' : MdCfg) (name : String) (r : Rx) (pre post : List String)
    (h : AddsInlineRule cfg cfg' name r pre post) (hn : nameOk cfg name = true)
    (ch : Nat) (hch : ch ∈ r.needs) (env : Json) (src : Str) (hsrc : CF ch src) :
    Model.inlineParse cfg' env src = Model.inlineParse cfg env src := by
  unfold Model.inlineParse Inl.inlineParse
  rw [inlineParseEnv_irrelevant_rule cfg cfg' name r pre post h hn ch hch env src hsrc]

end Inl
end Model
end Mistune
