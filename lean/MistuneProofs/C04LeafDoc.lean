/-
C04 / C13, a first whole-document fragment: documents that consist of ATX headings and thematic breaks as
`MarkdownRenderer` writes them (`mdHeading level text`, `mdThematicBreak`, each followed by the blank line the renderer
adds).  `BlockParser.parse` (the model's `Blk.parse`, run by `blockParse`) returns exactly the `heading` /
`thematic_break` tokens of the document, each followed by a `blank_line` token.

New here: the `blank_line` rule `(^[ \t\v\f]*\n)+` evaluated on the engine at the blank line between two blocks, a generic
refutation of every other rule at a newline (first-character analysis `Rx.firstOk` + `Rx.minLen`, both proved sound for
the engine in `Engine/Analyses`; the side condition is kernel-decided on the regenerated rule tables), and the induction
over the blocks of the document.
-/
import MistuneProofs.C04AtxFire
import MistuneProofs.Engine.Analyses
namespace Mistune
open Mistune.Model Mistune.Model.Blk Mistune.Generated

/-! ### a rule whose first character cannot be the character at the cursor does not match -/

theorem firstOk_none (r : Rx) (S : Str) (i : Nat) (a : Char) (ha : S[i]? = some a) (hmin : 1 ≤ r.minLen)
    (hf : r.firstOk pyCats a.toNat = false) : r.matchAt (Py.ctxOf S) i = none := by
  cases hm : r.matchAt (Py.ctxOf S) i with
  | none => rfl
  | some mt =>
    exfalso
    obtain ⟨_, hs⟩ := matchAt_sound _ _ _ _ hm
    have hlt := nonempty_of_minLen _ _ _ _ _ _ hs hmin
    have := firstOk_sound _ _ _ _ _ _ hs hlt
    rw [ctxOf_t, ctxOf_chr, ha, Option.getD_some, hf] at this
    cases this

/-- no rule of a list whose rules cannot start with `a` fires where the subject has `a` -/
theorem scanAt_skip (before rules : List (String × Rx)) (S : Str) (i : Nat) (a : Char) (ha : S[i]? = some a)
    (hb : before.all (fun p => decide (1 ≤ p.2.minLen) && !p.2.firstOk pyCats a.toNat) = true) :
    scanAt (Py.ctxOf S) (before ++ rules) i = scanAt (Py.ctxOf S) rules i := by
  induction before with
  | nil => rfl
  | cons p ps ih =>
    simp only [List.all_cons, Bool.and_eq_true, decide_eq_true_eq, Bool.not_eq_true'] at hb
    obtain ⟨⟨h1, h2⟩, h3⟩ := hb
    obtain ⟨name, r⟩ := p
    simp only [List.cons_append, scanAt, firstOk_none r S i a ha h1 h2]
    exact ih (by simpa using h3)

/-! ### the `blank_line` rule at a single blank line -/

theorem m_rep {R : Type} (x : RxCtx) (r : Rx) (mn : Nat) (mx : Option Nat) (g : Bool) (i : Nat) (c : Caps)
    (k : Nat → Caps → Option R) :
    (Rx.rep r mn mx g).m x i c k = repLoop (fun i c k => r.m x i c k) mn mx g k (x.n + mn + 2 - i) 0 false i c := rfl

/-- `(^[ \t\v\f]*\n)+` with `re.M` -/
def blankRuleRx : Rx :=
  .rep (.grp 1 (.seq .bol (.seq (.rep (.cls false [.chr 32, .chr 9, .chr 11, .chr 12]) 0 none true)
    (.cls false [.chr 10])))) 1 none true

/-- **Obligation:** `block.specification["blank_line"]` of every regenerated configuration -/
theorem blankRule_lookup : ∀ c ∈ allCfgs, c.blockSpec.lookup "blank_line" = some blankRuleRx := by decide +kernel

def isWs4 (ch : Char) : Bool := ch == ' ' || ch == '\t' || ch == '\x0b' || ch == '\x0c'

theorem clsTest_ws4 (ch : Char) : clsTest pyCats false [.chr 32, .chr 9, .chr 11, .chr 12] ch.toNat = isWs4 ch := by
  simp only [clsTest, List.any_cons, ClsItem.test, List.any_nil, Bool.or_false, Bool.bne_false, isWs4]
  have e : ∀ (n : Nat) (a : Char), a.toNat = n → (n == ch.toNat) = (ch == a) := by
    intro n a h
    rw [← h, Bool.eq_iff_iff]
    simp only [beq_iff_eq]
    exact ⟨fun h => (Char.toNat_inj.mp h).symm, fun h => by rw [h]⟩
  rw [e 32 ' ' rfl, e 9 '\t' rfl, e 11 '\x0b' rfl, e 12 '\x0c' rfl]
  simp [Bool.or_assoc]

/-- what may follow the blank line: nothing, or a character that does not start another blank line -/
def BlankStop (post : Str) : Prop := post = [] ∨ ∃ g more, post = g :: more ∧ isWs4 g = false ∧ g ≠ '\n'

/-- one more iteration of the body `^[ \t\v\f]*\n` is impossible after the blank line -/
theorem blankBody_none {R : Type} (pre post : Str) (hpost : BlankStop post) (c : Caps) (k : Nat → Caps → Option R) :
    (Rx.grp 1 (.seq .bol (.seq (.rep (.cls false [.chr 32, .chr 9, .chr 11, .chr 12]) 0 none true)
      (.cls false [.chr 10])))).m (Py.ctxOf (pre ++ ['\n'] ++ post)) (pre.length + 1) c k = none := by
  cases hm : (Rx.grp 1 (.seq .bol (.seq (.rep (.cls false [.chr 32, .chr 9, .chr 11, .chr 12]) 0 none true)
      (.cls false [.chr 10])))).m (Py.ctxOf (pre ++ ['\n'] ++ post)) (pre.length + 1) c k with
  | none => rfl
  | some r =>
    exfalso
    obtain ⟨j, c', hs0, _⟩ := m_sound _ _ _ _ _ _ hm
    obtain ⟨_, hs1, _⟩ := spec_grp.mp hs0
    obtain ⟨i0, c0, hbol, hs2⟩ := spec_seq.mp hs1
    obtain ⟨_, rfl, rfl⟩ := spec_bol hbol
    obtain ⟨i1, c1, h1, h2⟩ := spec_seq.mp hs2
    obtain ⟨cnt, _, _, hit⟩ := spec_rep.mp h1
    obtain ⟨rfl, _, hr⟩ := iter_cls hit
    simp only [Spec] at h2
    have hl : (pre ++ ['\n']).length = pre.length + 1 := by simp
    rcases hpost with rfl | ⟨g, more, rfl, hg1, hg2⟩
    · have := h2.1
      rw [ctxOf_n] at this
      simp at this
      omega
    · have hcnt : cnt = 0 := by
        rcases Nat.eq_zero_or_pos cnt with h0 | hpos
        · exact h0
        · exfalso
          obtain ⟨ch, hch, hp⟩ := cls_at _ _ isWs4 clsTest_ws4 _ (hr 0 hpos)
          rw [Nat.add_zero, ← hl, show (pre ++ ['\n']).length = (pre ++ ['\n']).length + ([] : Str).length by simp,
            show pre ++ ['\n'] ++ g :: more = (pre ++ ['\n']) ++ [] ++ g :: more by simp, getElem?_after] at hch
          simp only [List.head?_cons, Option.some.injEq] at hch
          rw [← hch, hg1] at hp; cases hp
      subst hcnt
      obtain ⟨ch, hch, hp⟩ := cls_at _ _ (· == '\n') (fun ch => clsTest_chr1 pyCats '\n' ch) _ ⟨h2.1, h2.2.1⟩
      rw [Nat.add_zero, ← hl, show (pre ++ ['\n']).length = (pre ++ ['\n']).length + ([] : Str).length by simp,
        show pre ++ ['\n'] ++ g :: more = (pre ++ ['\n']) ++ [] ++ g :: more by simp, getElem?_after] at hch
      simp only [List.head?_cons, Option.some.injEq] at hch
      rw [← hch] at hp
      exact hg2 (by simpa using hp)

/-- the match of the `blank_line` rule on one blank line at `p` -/
def blankMatch (p : Nat) : RxMatch := { start := p, stop := p + 1, caps := [(1, (p, p + 1))] }

/-- **The `blank_line` rule on a single empty line**: at a line start, on `"\n"` followed by the end of the subject or
by a character that cannot start a further blank line, the match is exactly that newline. -/
theorem blankRule_matchAt_hit (pre post : Str) (hbol : pre = [] ∨ pre.getLast? = some '\n') (hpost : BlankStop post) :
    blankRuleRx.matchAt (Py.ctxOf (pre ++ ['\n'] ++ post)) pre.length = some (blankMatch pre.length) := by
  unfold Rx.matchAt blankRuleRx
  rw [m_rep]
  obtain ⟨f, hf⟩ : ∃ f, (Py.ctxOf (pre ++ ['\n'] ++ post)).n + 1 + 2 - pre.length = f + 2 := by
    rw [ctxOf_n]
    exact ⟨(pre ++ ['\n'] ++ post).length + 1 - pre.length, by simp; omega⟩
  rw [hf, repLoop_succ_greedy, canMoreB_true (by intro m hm; cases hm) (Or.inr rfl)]
  -- the first iteration
  have hnl : (Py.ctxOf (pre ++ ['\n'] ++ post)).chr pre.length = 10 := by
    rw [ctxOf_chr, show pre.length = pre.length + ([] : Str).length by simp,
      show pre ++ ['\n'] ++ post = pre ++ [] ++ ('\n' :: post) by simp, getElem?_after]
    rfl
  have hlt : pre.length < (Py.ctxOf (pre ++ ['\n'] ++ post)).n := by rw [ctxOf_n]; simp
  have hcls : (decide (pre.length < (Py.ctxOf (pre ++ ['\n'] ++ post)).n) &&
      clsTest (Py.ctxOf (pre ++ ['\n'] ++ post)).t false [.chr 10]
        ((Py.ctxOf (pre ++ ['\n'] ++ post)).chr pre.length)) = true := by
    rw [hnl, decide_eq_true hlt]; rfl
  have hstep : ∀ k : Nat → Caps → Option RxMatch,
      (Rx.grp 1 (.seq .bol (.seq (.rep (.cls false [.chr 32, .chr 9, .chr 11, .chr 12]) 0 none true)
        (.cls false [.chr 10])))).m (Py.ctxOf (pre ++ ['\n'] ++ post)) pre.length [] k =
      k (pre.length + 1) [(1, (pre.length, pre.length + 1))] := by
    intro k
    rw [m_grp, m_seq, m_bol, if_pos (by rw [List.append_assoc]; exact (bolAt_append_length _ _).mpr hbol), m_seq]
    cases hk : k (pre.length + 1) [(1, (pre.length, pre.length + 1))] with
    | some r =>
      have := rep_greedy_list pre [] ('\n' :: post) [.chr 32, .chr 9, .chr 11, .chr 12] isWs4 clsTest_ws4 0 none
        (fun j c' => (Rx.cls false [.chr 10]).m (Py.ctxOf (pre ++ ['\n'] ++ post)) j c'
          (fun j c' => k j ((1, (pre.length, j)) :: c'))) [] r (by simp)
        (Or.inr (Or.inr ⟨'\n', post, rfl, by decide⟩)) (by simp) (by simp)
        (by
          simp only [List.length_nil, Nat.add_zero, Rx.m]
          rw [if_pos hcls]
          exact hk)
      rw [show pre ++ [] ++ '\n' :: post = pre ++ ['\n'] ++ post by simp] at this
      exact this
    | none =>
      -- nothing else can be returned
      cases hm : (Rx.rep (.cls false [.chr 32, .chr 9, .chr 11, .chr 12]) 0 none true).m
          (Py.ctxOf (pre ++ ['\n'] ++ post)) pre.length []
          (fun j c' => (Rx.cls false [.chr 10]).m (Py.ctxOf (pre ++ ['\n'] ++ post)) j c'
            (fun j c' => k j ((1, (pre.length, j)) :: c'))) with
      | none => rfl
      | some r =>
        exfalso
        obtain ⟨j, c', hs, hk'⟩ := m_sound _ _ _ _ _ _ hm
        obtain ⟨cnt, _, _, hit⟩ := spec_rep.mp hs
        obtain ⟨rfl, rfl, hr⟩ := iter_cls hit
        have hcnt : cnt = 0 := by
          rcases Nat.eq_zero_or_pos cnt with h0 | hpos
          · exact h0
          · exfalso
            have := (hr 0 hpos).2
            rw [Nat.add_zero, hnl, ctxOf_t] at this
            revert this; decide
        subst hcnt
        simp only [Nat.add_zero, Rx.m] at hk'
        rw [if_pos hcls, hk] at hk'
        cases hk'
  simp only [hstep]
  -- the second iteration fails, the loop is left with one iteration
  rw [repLoop_succ_greedy, canMoreB_true (by intro m hm; cases hm) (Or.inl (by simp)),
    blankBody_none pre post hpost]
  simp only [if_true]
  rfl

/-- `parse_blank_line` -/
theorem parseBlankLine_eq (mt : RxMatch) (st : BlockState) :
    parseBlankLine mt st = .ok (some mt.stop, st.appendToken (tok "blank_line" [])) := rfl

/-! ### one iteration of `BlockParser.parse` on the blank line between two blocks -/

/-- the rules tried before `blank_line` cannot start with a newline -/
def blankOk : List (String × Rx) → Bool
  | [] => false
  | (n, r) :: rest =>
    if n == "blank_line" then r == blankRuleRx
    else decide (1 ≤ r.minLen) && !r.firstOk pyCats 10 && blankOk rest

theorem blankOk_split : ∀ (sc : List (String × Rx)), blankOk sc = true →
    ∃ before after, sc = before ++ ("blank_line", blankRuleRx) :: after ∧
      before.all (fun p => decide (1 ≤ p.2.minLen) && !p.2.firstOk pyCats '\n'.toNat) = true := by
  intro sc
  induction sc with
  | nil => intro h; cases h
  | cons p rest ih =>
    obtain ⟨n, r⟩ := p
    intro h
    unfold blankOk at h
    split at h
    · rename_i hn
      refine ⟨[], rest, ?_, rfl⟩
      simp only [beq_iff_eq] at hn h
      rw [hn, h]; rfl
    · simp only [Bool.and_eq_true] at h
      obtain ⟨before, after, e, hb⟩ := ih h.2
      refine ⟨(n, r) :: before, after, by rw [e]; rfl, ?_⟩
      simp only [List.all_cons, Bool.and_eq_true]
      exact ⟨h.1, hb⟩

theorem blank_line_step (cfg : MdCfg) (sc : List (String × Rx)) (hsc : blankOk sc = true) (pmFuel fuel : Nat)
    (st : BlockState) (pre post : Str) (hx : st.x = Py.ctxOf (pre ++ ['\n'] ++ post)) (hcur : st.cursor = pre.length)
    (hmax : st.cursorMax = (pre ++ ['\n'] ++ post).length) (hbol : pre = [] ∨ pre.getLast? = some '\n')
    (hpost : BlankStop post) :
    parseLoop cfg (parseMethod cfg (pmFuel + 1)) sc (fuel + 1) st =
      parseLoop cfg (parseMethod cfg (pmFuel + 1)) sc fuel
        { st.appendToken (tok "blank_line" []) with cursor := pre.length + 1 } := by
  obtain ⟨before, after, rfl, hb⟩ := blankOk_split sc hsc
  have hget : (pre ++ ['\n'] ++ post)[pre.length]? = some '\n' := by
    rw [show pre.length = pre.length + ([] : Str).length by simp,
      show pre ++ ['\n'] ++ post = pre ++ [] ++ ('\n' :: post) by simp, getElem?_after]
    rfl
  apply parseLoop_step cfg _ _ fuel st "blank_line" (blankMatch pre.length) pre.length
  · rw [hcur, hmax]; simp
  · rw [hcur]
    apply scan_of_scanAt _ _ _ _ (by rw [hx, ctxOf_n]; simp)
    rw [hx, scanAt_skip before _ _ _ '\n' hget hb]
    simp only [scanAt, blankRule_matchAt_hit pre post hbol hpost]
  · rw [hcur]; rfl
  · rfl

/-- **Obligation:** in every regenerated configuration no block rule tried before `blank_line` can start with a
newline (and `blank_line` is the expected regex). -/
theorem blankRules_ok : ∀ c ∈ allCfgs, (match compileSc (ofRuleCfg c) (ofRuleCfg c).blockRules with
    | .ok sc => blankOk sc
    | _ => false) = true := by decide +kernel

/-! ### documents of headings and thematic breaks -/

/-- the two leaf blocks of this fragment -/
inductive LeafBlock where
  | heading (level : Nat) (text : Str)
  | rule

namespace LeafBlock

/-- the domain: levels 1..6; a heading text is non-empty, lies within one line, has no (Unicode) white space at its ends
and no closing sequence that `parse_atx_heading` would remove (`headingTextOk`, necessary: `atxSpec_blank_fixed_iff`) -/
def Ok : LeafBlock → Prop
  | heading level text => 1 ≤ level ∧ level ≤ 6 ∧ text ≠ [] ∧ '\n' ∉ text ∧ Py.strip text = text ∧
      headingTextOk text = true
  | rule => True

/-- what `MarkdownRenderer` writes for the block (`heading` / `thematic_break`) -/
def md : LeafBlock → Str
  | heading level text => mdHeading level text
  | rule => mdThematicBreak

/-- the line of the block, without the two newlines -/
def line : LeafBlock → Str
  | heading level text => List.replicate level '#' ++ ' ' :: text
  | rule => ['*', '*', '*']

/-- the token `BlockParser.parse` produces (before the inline pass: the heading still has its `text`) -/
def token : LeafBlock → Json
  | heading level text => atxToken text level
  | rule => tok "thematic_break" []

theorem md_eq (b : LeafBlock) : b.md = b.line ++ ['\n', '\n'] := by
  cases b with
  | heading level text => simp [md, line, mdHeading]
  | rule => rfl

/-- the line starts with `#` or `*` -/
theorem line_head (b : LeafBlock) (h : b.Ok) : ∃ g more, b.line = g :: more ∧ (g = '#' ∨ g = '*') := by
  cases b with
  | heading level text =>
    obtain ⟨h1, _⟩ := h
    obtain ⟨l, rfl⟩ : ∃ l, level = l + 1 := ⟨level - 1, by omega⟩
    exact ⟨'#', List.replicate l '#' ++ ' ' :: text, by simp [line, List.replicate_succ], Or.inl rfl⟩
  | rule => exact ⟨'*', ['*', '*'], rfl, Or.inr rfl⟩

end LeafBlock

/-- the document: the blocks as `MarkdownRenderer` writes them, one after the other -/
def renderLeaves (bs : List LeafBlock) : Str := (bs.map LeafBlock.md).flatten

/-- the tokens: every block's token followed by a `blank_line` token -/
def leafTokens (bs : List LeafBlock) : List Json := bs.flatMap (fun b => [b.token, tok "blank_line" []])

theorem renderLeaves_cons (b : LeafBlock) (bs : List LeafBlock) :
    renderLeaves (b :: bs) = b.line ++ ['\n', '\n'] ++ renderLeaves bs := by
  simp [renderLeaves, LeafBlock.md_eq]

theorem renderLeaves_stop (bs : List LeafBlock) (h : ∀ b ∈ bs, b.Ok) : BlankStop (renderLeaves bs) := by
  cases bs with
  | nil => exact Or.inl rfl
  | cons b bs =>
    right
    obtain ⟨g, more, e, hg⟩ := b.line_head (h b (by simp))
    refine ⟨g, more ++ ['\n', '\n'] ++ renderLeaves bs, by rw [renderLeaves_cons, e]; simp, ?_⟩
    rcases hg with rfl | rfl <;> exact ⟨by decide, by decide⟩

/-- the rule tables this fragment needs -/
structure LeafSc (sc : List (String × Rx)) : Prop where
  atx : IsAtxPrefix sc
  brk : IsBreakPrefix sc
  blank : blankOk sc = true

/-- one loop iteration on the line of a block -/
theorem leaf_step (cfg : MdCfg) (hnamed : cfg.named = namedRx) (hgroups : cfg.groups = groupIndex)
    (sc : List (String × Rx)) (hsc : LeafSc sc) (pmFuel fuel : Nat) (st : BlockState) (b : LeafBlock) (hb : b.Ok)
    (pre post : Str) (hx : st.x = Py.ctxOf (pre ++ b.md ++ post)) (hcur : st.cursor = pre.length)
    (hmax : st.cursorMax = (pre ++ b.md ++ post).length) (hbol : pre = [] ∨ pre.getLast? = some '\n') :
    parseLoop cfg (parseMethod cfg (pmFuel + 1)) sc (fuel + 1) st =
      parseLoop cfg (parseMethod cfg (pmFuel + 1)) sc fuel
        { st.appendToken b.token with cursor := pre.length + b.line.length + 1 } := by
  cases b with
  | heading level text =>
    obtain ⟨h1, h6, hne, hnl, hstrip, hok⟩ := hb
    rw [md_heading_step cfg hnamed hgroups sc hsc.atx pmFuel fuel st pre post text level hx hcur hmax hbol h1 h6 hne
      hnl hstrip hok]
    have e : pre.length + level + 1 + text.length + 1 = pre.length + (LeafBlock.heading level text).line.length + 1 := by
      simp only [LeafBlock.line, List.length_append, List.length_replicate, List.length_cons]; omega
    rw [e]
    rfl
  | rule =>
    rw [md_thematic_break_step cfg sc hsc.brk pmFuel fuel st pre post hx hcur hmax hbol]
    rfl

/-- **The loop of `BlockParser.parse` over a document of headings and thematic breaks.** -/
theorem leafDoc_loop (cfg : MdCfg) (hnamed : cfg.named = namedRx) (hgroups : cfg.groups = groupIndex)
    (sc : List (String × Rx)) (hsc : LeafSc sc) (pmFuel : Nat) :
    ∀ (bs : List LeafBlock) (pre : Str) (st : BlockState) (fuel : Nat), (∀ b ∈ bs, b.Ok) →
      st.x = Py.ctxOf (pre ++ renderLeaves bs) → st.cursor = pre.length →
      st.cursorMax = (pre ++ renderLeaves bs).length → (pre = [] ∨ pre.getLast? = some '\n') →
      2 * bs.length ≤ fuel →
      parseLoop cfg (parseMethod cfg (pmFuel + 1)) sc fuel st =
        .ok { st with tokens := st.tokens ++ leafTokens bs, cursor := st.cursorMax } := by
  intro bs
  induction bs with
  | nil =>
    intro pre st fuel _ _ hcur hmax _ _
    have hcm : st.cursor = st.cursorMax := by rw [hcur, hmax]; simp [renderLeaves]
    have hst : ({ st with tokens := st.tokens ++ leafTokens [], cursor := st.cursorMax } : BlockState) = st := by
      cases st; simp only [leafTokens, List.flatMap_nil, List.append_nil] at *; rw [hcm]
    rw [hst]
    cases fuel with
    | zero => rw [parseLoop, if_neg (by omega)]
    | succ f => rw [parseLoop, if_neg (by omega)]
  | cons b bs ih =>
    intro pre st fuel hok hx hcur hmax hbol hfuel
    obtain ⟨f, rfl⟩ : ∃ f, fuel = f + 2 := ⟨fuel - 2, by simp only [List.length_cons] at hfuel; omega⟩
    have hS : pre ++ renderLeaves (b :: bs) = pre ++ b.md ++ renderLeaves bs := by
      simp [renderLeaves]
    have hS1 : pre ++ renderLeaves (b :: bs) = (pre ++ b.line ++ ['\n']) ++ ['\n'] ++ renderLeaves bs := by
      rw [renderLeaves_cons]; simp
    have hS2 : pre ++ renderLeaves (b :: bs) = (pre ++ b.line ++ ['\n', '\n']) ++ renderLeaves bs := by
      rw [renderLeaves_cons]; simp
    -- the block's line
    rw [leaf_step cfg hnamed hgroups sc hsc pmFuel (f + 1) st b (hok b (by simp)) pre (renderLeaves bs)
      (by rw [hx, hS]) hcur (by rw [hmax, hS]) hbol]
    -- the blank line
    rw [blank_line_step cfg sc hsc.blank pmFuel f _ (pre ++ b.line ++ ['\n']) (renderLeaves bs)
      (by rw [← hS1]; exact hx) (by simp; omega) (by rw [← hS1]; exact hmax)
      (Or.inr (by generalize pre ++ b.line = A; simp)) (renderLeaves_stop bs (fun b' hb' => hok b' (by simp [hb'])))]
    -- the rest of the document
    rw [ih (pre ++ b.line ++ ['\n', '\n']) _ f (fun b' hb' => hok b' (by simp [hb'])) (by rw [← hS2]; exact hx)
      (by simp; omega) (by rw [← hS2]; exact hmax) (Or.inr (by generalize pre ++ b.line = A; simp))
      (by simp only [List.length_cons] at hfuel; omega)]
    simp [BlockState.appendToken, leafTokens]

/-- `BlockParser.parse(state)` on the root state of such a document -/
theorem leafDoc_parse (cfg : MdCfg) (hnamed : cfg.named = namedRx) (hgroups : cfg.groups = groupIndex)
    (sc : List (String × Rx)) (hcomp : compileSc cfg cfg.blockRules = .ok sc) (hsc : LeafSc sc) (pmFuel : Nat)
    (bs : List LeafBlock) (hok : ∀ b ∈ bs, b.Ok) :
    parse cfg (parseMethod cfg (pmFuel + 1)) (BlockState.root (renderLeaves bs)) none =
      .ok { BlockState.root (renderLeaves bs) with tokens := leafTokens bs, cursor := (renderLeaves bs).length } := by
  have hlen : 2 * bs.length ≤ (renderLeaves bs).length := by
    clear hok
    induction bs with
    | nil => simp
    | cons b bs ih => rw [renderLeaves_cons]; simp only [List.length_append, List.length_cons, List.length_nil]; omega
  have := leafDoc_loop cfg hnamed hgroups sc hsc pmFuel bs [] (BlockState.root (renderLeaves bs))
    ((renderLeaves bs).length + 1) hok rfl rfl rfl (Or.inl rfl) (by omega)
  unfold parse
  simp only [Option.getD_none, hcomp, bind, Except.bind]
  have hcm : (BlockState.root (renderLeaves bs)).cursorMax = (renderLeaves bs).length := rfl
  rw [hcm, this]
  simp [BlockState.root, BlockState.process, pure, Except.pure]

/-- **C04 / C13 for documents of headings and thematic breaks.**  For every regenerated configuration `c` except
`all-fenced-colon`: `BlockParser.parse` on the text `MarkdownRenderer` writes for a list of headings (levels 1..6, texts
in the domain `LeafBlock.Ok`) and thematic breaks returns exactly their tokens — `heading` with the same level and the
same text, `thematic_break` — each followed by one `blank_line` token, and the initial `env`. -/
theorem leafDoc_blockParse (c : RuleCfg) (hc : c ∈ allCfgs) (hn : c.name ≠ "all-fenced-colon")
    (bs : List LeafBlock) (hok : ∀ b ∈ bs, b.Ok) :
    Model.blockParse (ofRuleCfg c) (renderLeaves bs) = .ok (leafTokens bs, .obj [("ref_links", .obj [])]) := by
  obtain ⟨sc, hcomp, hA, hB⟩ := blockRules_prefixes c hc hn
  have hbl : blankOk sc = true := by
    have := blankRules_ok c hc
    rw [hcomp] at this
    exact this
  show Blk.blockParse (ofRuleCfg c) (renderLeaves bs) = _
  unfold Blk.blockParse
  obtain ⟨k, hk⟩ : ∃ k, nestFuel (ofRuleCfg c) (renderLeaves bs) = k + 1 := ⟨_, rfl⟩
  rw [hk]
  simp only [bind, Except.bind, leafDoc_parse (ofRuleCfg c) rfl rfl sc hcomp ⟨hA, hB, hbl⟩ k bs hok]
  rfl

/-! ### break lines of `-`: through `parse_setex_heading`

A line of `-` is also matched by the `setex_heading` rule when it has no inner blanks (`---`); that rule is tried first.
Its handler turns the previous paragraph into a heading; when the last token is not a paragraph it tries the scanner of
`thematic_break` and `list` at the cursor and calls that rule's handler.  In a leaf document the last token is never a
paragraph, so either way the line becomes a `thematic_break` token. -/

/-- the last token is not a paragraph (`last_token and last_token["type"] == "paragraph"` is false) -/
def NoPara (st : BlockState) : Prop := st.lastParagraph = .ok none

theorem noPara_root (s : Str) : NoPara (BlockState.root s) := rfl

theorem lastParagraph_append (st : BlockState) (t : Json) (c : Nat) :
    ({ st.appendToken t with cursor := c } : BlockState).lastParagraph =
      (if t.truthy then (typeOf t).bind (fun ty => if ty == "paragraph" then pure (some t) else pure none)
       else .ok none) := by
  simp [BlockState.lastParagraph, BlockState.lastToken, BlockState.appendToken, bind, Except.bind]

theorem noPara_heading (st : BlockState) (text : Str) (level c : Nat) :
    NoPara { st.appendToken (atxToken text level) with cursor := c } := by
  unfold NoPara
  rw [lastParagraph_append]
  rfl

theorem noPara_break (st : BlockState) (c : Nat) :
    NoPara { st.appendToken (tok "thematic_break" []) with cursor := c } := by
  unfold NoPara
  rw [lastParagraph_append]
  rfl

theorem noPara_blank (st : BlockState) (c : Nat) :
    NoPara { st.appendToken (tok "blank_line" []) with cursor := c } := by
  unfold NoPara
  rw [lastParagraph_append]
  rfl

/-- **Obligation:** every regenerated configuration has a `list` rule in `block.specification` -/
theorem listRule_present : ∀ c ∈ allCfgs, (c.blockSpec.lookup "list").isSome = true := by decide +kernel

/-- `parse_setex_heading` at a break line when the last token is not a paragraph: the `thematic_break` handler's result -/
theorem parseSetex_break (cfg : MdCfg) (hspec : cfg.blockSpec.lookup "thematic_break" = some thematicRuleRx)
    (hlist : (cfg.blockSpec.lookup "list").isSome = true) (pmFuel : Nat) (mt : RxMatch) (st : BlockState)
    (hlast : NoPara st) (c : Char) (hc : c = '-' ∨ c = '_' ∨ c = '*') (pre ind : Str) (units : List Str) (rest : Str)
    (hx : st.x = Py.ctxOf (pre ++ ind ++ breakBody c units ++ rest)) (hcur : st.cursor = pre.length)
    (hbol : pre = [] ∨ pre.getLast? = some '\n') (h : BreakLine ind units rest) :
    parseSetexHeading cfg (parseMethod cfg (pmFuel + 1)) mt st =
      .ok (some (pre.length + ind.length + (breakBody c units).length + 1), st.appendToken (tok "thematic_break" [])) := by
  obtain ⟨rl, hrl⟩ : ∃ rl, cfg.blockSpec.lookup "list" = some rl := by
    cases hl : cfg.blockSpec.lookup "list" with
    | none => rw [hl] at hlist; cases hlist
    | some rl => exact ⟨rl, rfl⟩
  obtain ⟨hm, hp⟩ := break_line_token c hc st pre ind units rest hx hbol h
  have hsc : compileSc cfg ["thematic_break", "list"] = .ok [("thematic_break", thematicRuleRx), ("list", rl)] := by
    simp [compileSc, hspec, hrl, List.mapM_cons, bind, Except.bind, pure, Except.pure]
  have hscan : scMatch st.x [("thematic_break", thematicRuleRx), ("list", rl)] st.cursor =
      some ("thematic_break", breakMatch pre.length ind (breakBody c units)) := by
    unfold scMatch scanAt
    unfold Py.matchAt at hm
    rw [hcur, hm]
  unfold parseSetexHeading
  unfold NoPara at hlast
  simp only [hlast, hsc, hscan, bind, Except.bind]
  exact hp

/-- **`BlockParser.parse` on a break line of `-`** (any spacing), when the last token is not a paragraph -/
theorem dash_line_step (cfg : MdCfg) (hspec : cfg.blockSpec.lookup "thematic_break" = some thematicRuleRx)
    (hlist : (cfg.blockSpec.lookup "list").isSome = true)
    (sc : List (String × Rx)) (hsc : IsBreakPrefix sc) (pmFuel fuel : Nat) (st : BlockState) (hlast : NoPara st)
    (pre ind : Str) (units : List Str) (rest : Str)
    (hx : st.x = Py.ctxOf (pre ++ ind ++ breakBody '-' units ++ rest))
    (hcur : st.cursor = pre.length) (hmax : st.cursorMax = (pre ++ ind ++ breakBody '-' units ++ rest).length)
    (hbol : pre = [] ∨ pre.getLast? = some '\n') (h : BreakLine ind units rest) :
    parseLoop cfg (parseMethod cfg (pmFuel + 2)) sc (fuel + 1) st =
      parseLoop cfg (parseMethod cfg (pmFuel + 2)) sc fuel
        { st.appendToken (tok "thematic_break" []) with
          cursor := pre.length + ind.length + (breakBody '-' units).length + 1 } := by
  obtain ⟨rIndent, more, hri, rfl⟩ := hsc
  obtain ⟨hm, hp⟩ := break_line_token '-' (Or.inl rfl) st pre ind units rest hx hbol h
  obtain ⟨b, us, hus⟩ : ∃ b us, units = b :: us := by
    cases units with
    | nil => have := h.three; simp at this
    | cons b us => exact ⟨b, us, rfl⟩
  have hS : pre ++ ind ++ breakBody '-' units ++ rest = pre ++ ind ++ '-' :: (b ++ breakBody '-' us ++ rest) := by
    rw [hus, breakBody_cons]; simp
  have hlen : pre.length < (pre ++ ind ++ breakBody '-' units ++ rest).length := by
    rw [hS]; simp only [List.length_append, List.length_cons]; omega
  have h1 : fencedRuleRx.matchAt st.x pre.length = none := by
    rw [hx, hS]; exact fencedRule_none pre ind '-' _ h.ind_blank (by decide) (by decide) (by decide)
  have h2 : rIndent.matchAt st.x pre.length = none := by
    rw [hx, hS]; exact indentRule_none rIndent hri pre ind '-' _ h.ind_blank h.ind_le (by decide) (by decide)
  have h3 : atxRuleRx.matchAt st.x pre.length = none := by
    rw [hx, hS]
    apply atxRule_matchAt_none
    right
    rw [List.append_assoc, List.drop_left]
    have := atxLineOk_runs ind [] ('-' :: (b ++ breakBody '-' us ++ rest)) h.ind_blank (by simp)
      (by intro ch r e; injection e with e1 _; rw [← e1]; decide)
      (by intro _ ch r e; injection e with e1 _; rw [← e1]; decide)
    rw [List.append_nil] at this
    rw [this]
    simp
  have h5 : thematicRuleRx.matchAt st.x pre.length = some (breakMatch pre.length ind (breakBody '-' units)) := by
    rw [hx]; exact thematicRule_matchAt_hit '-' (Or.inl rfl) pre ind units rest hbol h
  cases h4 : setexRuleRx.matchAt st.x pre.length with
  | none =>
    apply parseLoop_step cfg _ _ fuel st "thematic_break" (breakMatch pre.length ind (breakBody '-' units))
    · rw [hcur, hmax]; exact hlen
    · rw [hcur]
      apply scan_of_scanAt _ _ _ _ (by rw [hx, ctxOf_n]; omega)
      simp only [scanAt, h1, h2, h3, h4, h5]
    · rw [hcur]; rfl
    · exact hp
  | some mts =>
    have hst : mts.start = pre.length := (matchAt_sound _ _ _ _ h4).1
    apply parseLoop_step cfg _ _ fuel st "setex_heading" mts
    · rw [hcur, hmax]; exact hlen
    · rw [hcur]
      apply scan_of_scanAt _ _ _ _ (by rw [hx, ctxOf_n]; omega)
      simp only [scanAt, h1, h2, h3, h4]
    · rw [hcur]; exact hst
    · show parseSetexHeading cfg (parseMethod cfg (pmFuel + 1)) mts st = _
      exact parseSetex_break cfg hspec hlist pmFuel mts st hlast '-' (Or.inl rfl) pre ind units rest hx hcur hbol h

/-! ### general line documents: any heading lines, any `*` / `_` break lines, groups of blank lines

The canonical writer of the test harness (`docgen.print_doc`) writes headings as `#…# text` with an optional closing
sequence and rules as `***`, `___`, `*****` …, separated by blank lines; all of these are instances. -/

/-- what may follow a group of blank lines: blanks that are not followed by a newline (the next line is not blank) -/
def BlankStop2 (post : Str) : Prop :=
  ∃ ws rest, post = ws ++ rest ∧ (∀ ch ∈ ws, isWs4 ch = true) ∧
    (rest = [] ∨ ∃ g more, rest = g :: more ∧ isWs4 g = false ∧ g ≠ '\n')

/-- the body `^[ \t\v\f]*\n` fails on a line that is not blank -/
theorem blankBody_none2 {R : Type} (a post : Str) (hpost : BlankStop2 post) (c : Caps) (k : Nat → Caps → Option R) :
    (Rx.grp 1 (.seq .bol (.seq (.rep (.cls false [.chr 32, .chr 9, .chr 11, .chr 12]) 0 none true)
      (.cls false [.chr 10])))).m (Py.ctxOf (a ++ post)) a.length c k = none := by
  cases hm : (Rx.grp 1 (.seq .bol (.seq (.rep (.cls false [.chr 32, .chr 9, .chr 11, .chr 12]) 0 none true)
      (.cls false [.chr 10])))).m (Py.ctxOf (a ++ post)) a.length c k with
  | none => rfl
  | some r =>
    exfalso
    obtain ⟨ws, rest, rfl, hws, hrest⟩ := hpost
    obtain ⟨j, c', hs0, _⟩ := m_sound _ _ _ _ _ _ hm
    obtain ⟨_, hs1, _⟩ := spec_grp.mp hs0
    obtain ⟨i0, c0, hbol, hs2⟩ := spec_seq.mp hs1
    simp only [Spec] at hbol
    obtain ⟨_, rfl, rfl⟩ := hbol
    obtain ⟨i1, c1, h1, h2⟩ := spec_seq.mp hs2
    obtain ⟨cnt, _, _, hit⟩ := spec_rep.mp h1
    obtain ⟨rfl, _, hr⟩ := iter_cls hit
    simp only [Spec] at h2
    obtain ⟨ch, hch, hp⟩ := cls_at _ _ (· == '\n') (fun ch => clsTest_chr1 pyCats '\n' ch) _ ⟨h2.1, h2.2.1⟩
    have hnl : ch = '\n' := by simpa using hp
    rw [← List.append_assoc] at hch hr
    -- the character after the run of blanks of `ws ++ rest`
    have hafter : ∀ x, (a ++ ws ++ rest)[a.length + ws.length]? = some x → isWs4 x = false ∧ x ≠ '\n' := by
      intro x hx
      rw [getElem?_after] at hx
      rcases hrest with rfl | ⟨g, more, rfl, hg1, hg2⟩
      · cases hx
      · simp only [List.head?_cons, Option.some.injEq] at hx
        rw [← hx]; exact ⟨hg1, hg2⟩
    rcases Nat.lt_trichotomy cnt ws.length with hlt | heq | hgt
    · rw [getElem?_mid _ _ _ _ hlt, Option.some.injEq] at hch
      have := hws _ (List.getElem_mem hlt)
      rw [hch, hnl] at this
      revert this; decide
    · rw [heq] at hch
      exact (hafter ch hch).2 hnl
    · obtain ⟨x, hx, hpx⟩ := cls_at _ _ isWs4 clsTest_ws4 _ (hr ws.length hgt)
      rw [(hafter x hx).1] at hpx
      cases hpx

/-- the text of a group of blank lines -/
def blanksText (ls : List Str) : Str := (ls.map (· ++ ['\n'])).flatten

theorem blanksText_cons (l : Str) (ls : List Str) : blanksText (l :: ls) = l ++ ['\n'] ++ blanksText ls := by
  simp [blanksText]

/-- **the greedy path of `(^[ \t\v\f]*\n)+`** over a group of blank lines that is followed by a line that is not blank:
every iteration takes one line; the continuation is entered once, at the end of the group. -/
theorem blankLoop {R : Type} (S post : Str) (hpost : BlankStop2 post) (K : Nat → Caps → Option R) (e : Nat)
    (hK : ∀ c', ∃ r, K e c' = some r) :
    ∀ (ls : List Str) (a : Str) (fuel cnt : Nat) (pa : Bool) (caps : Caps),
      S = a ++ blanksText ls ++ post → (∀ l ∈ ls, ∀ ch ∈ l, isWs4 ch = true) → (a = [] ∨ a.getLast? = some '\n') →
      1 ≤ cnt + ls.length → ls.length < fuel → (pa = true ∨ cnt = 0) → e = a.length + (blanksText ls).length →
      ∃ capsF, repLoop (fun i c k => (Rx.grp 1 (.seq .bol (.seq (.rep (.cls false [.chr 32, .chr 9, .chr 11, .chr 12])
        0 none true) (.cls false [.chr 10])))).m (Py.ctxOf S) i c k) 1 none true K fuel cnt pa a.length caps =
        K e capsF := by
  intro ls
  induction ls with
  | nil =>
    intro a fuel cnt pa caps hS _ _ hcnt hf _ he
    obtain ⟨f, rfl⟩ : ∃ f, fuel = f + 1 := ⟨fuel - 1, by omega⟩
    simp only [blanksText, List.map_nil, List.flatten_nil, List.length_nil, Nat.add_zero, List.append_nil] at hS he hcnt
    refine ⟨caps, ?_⟩
    rw [repLoop_succ_greedy]
    simp only [hS, blankBody_none2 a post hpost, ite_self]
    rw [if_pos hcnt, he]
  | cons l ls ih =>
    intro a fuel cnt pa caps hS hws hbol hcnt hf hpa he
    obtain ⟨f, rfl⟩ : ∃ f, fuel = f + 1 := ⟨fuel - 1, by simp at hf; omega⟩
    have hS' : S = (a ++ l ++ ['\n']) ++ blanksText ls ++ post := by rw [hS, blanksText_cons]; simp
    have hS'' : S = a ++ l ++ ('\n' :: (blanksText ls ++ post)) := by rw [hS, blanksText_cons]; simp
    obtain ⟨capsF, hrec⟩ := ih (a ++ l ++ ['\n']) f (cnt + 1) true ((1, (a.length, a.length + l.length + 1)) :: caps) hS'
      (fun l' hl' => hws l' (by simp [hl'])) (Or.inr (by generalize a ++ l = A; simp))
      (by omega) (by simp only [List.length_cons] at hf; omega) (Or.inl rfl)
      (by rw [he, blanksText_cons]; simp; omega)
    refine ⟨capsF, ?_⟩
    obtain ⟨r, hr⟩ := hK capsF
    rw [repLoop_succ_greedy, canMoreB_true (by intro m hm; cases hm) hpa]
    have hstep : (Rx.grp 1 (.seq .bol (.seq (.rep (.cls false [.chr 32, .chr 9, .chr 11, .chr 12]) 0 none true)
        (.cls false [.chr 10])))).m (Py.ctxOf S) a.length caps
        (fun j c' => repLoop (fun i c k => (Rx.grp 1 (.seq .bol (.seq (.rep (.cls false [.chr 32, .chr 9, .chr 11, .chr 12])
          0 none true) (.cls false [.chr 10])))).m (Py.ctxOf S) i c k) 1 none true K f (cnt + 1) (j != a.length) j c') =
        some r := by
      rw [m_grp, m_seq, m_bol, if_pos (by rw [hS'', List.append_assoc]; exact (bolAt_append_length _ _).mpr hbol), m_seq]
      have hnl : (Py.ctxOf S).chr (a.length + l.length) = 10 := by
        rw [ctxOf_chr, hS'', getElem?_after]; rfl
      have hlt : a.length + l.length < (Py.ctxOf S).n := by rw [ctxOf_n, hS'']; simp
      have := rep_greedy_list a l ('\n' :: (blanksText ls ++ post)) [.chr 32, .chr 9, .chr 11, .chr 12] isWs4
        clsTest_ws4 0 none
        (fun j c' => (Rx.cls false [.chr 10]).m (Py.ctxOf S) j c'
          (fun j c' => repLoop (fun i c k => (Rx.grp 1 (.seq .bol (.seq (.rep (.cls false [.chr 32, .chr 9, .chr 11, .chr 12])
            0 none true) (.cls false [.chr 10])))).m (Py.ctxOf S) i c k) 1 none true K f (cnt + 1) (j != a.length) j
              ((1, (a.length, j)) :: c'))) caps r (hws l (by simp))
        (Or.inr (Or.inr ⟨'\n', _, rfl, by decide⟩)) (by simp) (by omega)
        (by
          simp only [Rx.m]
          rw [if_pos (by rw [hnl, decide_eq_true hlt]; rfl)]
          have e1 : (a.length + l.length + 1 != a.length) = true := by simp; omega
          rw [e1, ← hr, ← hrec]
          congr 1
          simp only [List.length_append, List.length_singleton])
      rw [← hS''] at this
      exact this
    simp only [hstep, hr, if_true]

/-- **The `blank_line` rule on a group of blank lines** followed by a line that is not blank: one match that covers the
whole group. -/
theorem blankRule_matchAt_group (pre : Str) (ls : List Str) (post : Str) (hbol : pre = [] ∨ pre.getLast? = some '\n')
    (hne : ls ≠ []) (hws : ∀ l ∈ ls, ∀ ch ∈ l, isWs4 ch = true) (hpost : BlankStop2 post) :
    ∃ mt, blankRuleRx.matchAt (Py.ctxOf (pre ++ blanksText ls ++ post)) pre.length = some mt ∧
      mt.start = pre.length ∧ mt.stop = pre.length + (blanksText ls).length := by
  unfold Rx.matchAt blankRuleRx
  rw [m_rep]
  have hlen : ls.length ≤ (blanksText ls).length := by
    clear hne hws
    induction ls with
    | nil => simp
    | cons l ls ih => rw [blanksText_cons]; simp; omega
  obtain ⟨capsF, h⟩ := blankLoop (pre ++ blanksText ls ++ post) post hpost
    (fun j c => some ({ start := pre.length, stop := j, caps := c } : RxMatch)) (pre.length + (blanksText ls).length)
    (fun c' => ⟨_, rfl⟩) ls pre ((Py.ctxOf (pre ++ blanksText ls ++ post)).n + 1 + 2 - pre.length) 0 false [] rfl hws hbol
    (by cases ls with
        | nil => exact absurd rfl hne
        | cons _ _ => simp)
    (by rw [ctxOf_n]; simp only [List.length_append]; omega) (Or.inr rfl) rfl
  exact ⟨_, h, rfl, rfl⟩

/-- one loop iteration on a group of blank lines whose first line is empty (a first line of blanks can be claimed by an
earlier rule: five blanks are an `indent_code` line) -/
theorem blank_group_step (cfg : MdCfg) (sc : List (String × Rx)) (hsc : blankOk sc = true) (pmFuel fuel : Nat)
    (st : BlockState) (pre : Str) (ls : List Str) (post : Str)
    (hx : st.x = Py.ctxOf (pre ++ blanksText ([] :: ls) ++ post)) (hcur : st.cursor = pre.length)
    (hmax : st.cursorMax = (pre ++ blanksText ([] :: ls) ++ post).length) (hbol : pre = [] ∨ pre.getLast? = some '\n')
    (hws : ∀ l ∈ ls, ∀ ch ∈ l, isWs4 ch = true) (hpost : BlankStop2 post) :
    parseLoop cfg (parseMethod cfg (pmFuel + 1)) sc (fuel + 1) st =
      parseLoop cfg (parseMethod cfg (pmFuel + 1)) sc fuel
        { st.appendToken (tok "blank_line" []) with cursor := pre.length + (blanksText ([] :: ls)).length } := by
  obtain ⟨before, after, rfl, hb⟩ := blankOk_split sc hsc
  obtain ⟨mt, hm, hstart, hstop⟩ := blankRule_matchAt_group pre ([] :: ls) post hbol (by simp)
    (by
      intro l hl
      rcases List.mem_cons.mp hl with rfl | hl
      · simp
      · exact hws l hl) hpost
  have hpos : (blanksText ([] :: ls)).length = (blanksText ls).length + 1 := by rw [blanksText_cons]; simp
  have hget : (pre ++ blanksText ([] :: ls) ++ post)[pre.length]? = some '\n' := by
    rw [blanksText_cons, show pre.length = pre.length + ([] : Str).length by simp,
      show pre ++ ([] ++ ['\n'] ++ blanksText ls) ++ post = pre ++ [] ++ ('\n' :: (blanksText ls ++ post)) by simp,
      getElem?_after]
    rfl
  apply parseLoop_step cfg _ _ fuel st "blank_line" mt (pre.length + (blanksText ls).length)
  · rw [hcur, hmax]; simp only [List.length_append]; omega
  · rw [hcur]
    apply scan_of_scanAt _ _ _ _ (by rw [hx, ctxOf_n]; simp only [List.length_append]; omega)
    rw [hx, scanAt_skip before _ _ _ '\n' hget hb]
    simp only [scanAt, hm]
  · rw [hcur]; exact hstart
  · show parseBlankLine mt st = _
    rw [parseBlankLine_eq, hstop, hpos]
    rfl

theorem blanks_last : ∀ (ls : List Str) (A : Str), (A ++ ['\n'] ++ blanksText ls).getLast? = some '\n' := by
  intro ls
  induction ls with
  | nil => intro A; simp [blanksText]
  | cons l ls ih =>
    intro A
    have := ih (A ++ ['\n'] ++ l)
    rw [blanksText_cons]
    simpa using this

/-- a line item of a general leaf document -/
inductive LeafLine where
  /-- a heading line `ind ++ hashes ++ tail` -/
  | heading (ind hashes tail : Str)
  /-- a break line `ind ++ breakBody c units` of `-`, `_` or `*` -/
  | rule (c : Char) (ind : Str) (units : List Str)
  /-- an empty line followed by the lines `ls` of blanks (a maximal group of blank lines) -/
  | blanks (ls : List Str)

namespace LeafLine

/-- the text of the item, with the newline(s) -/
def text : LeafLine → Str
  | heading ind hashes tail => ind ++ hashes ++ tail ++ ['\n']
  | rule c ind units => ind ++ breakBody c units ++ ['\n']
  | blanks ls => blanksText ([] :: ls)

/-- the token `BlockParser.parse` produces -/
def token : LeafLine → Json
  | heading _ hashes tail => atxToken (atxSpec tail) hashes.length
  | rule _ _ _ => tok "thematic_break" []
  | blanks _ => tok "blank_line" []

def isBlanks : LeafLine → Bool
  | blanks _ => true
  | _ => false

/-- the conditions on one item -/
def Ok : LeafLine → Prop
  | heading ind hashes tail => AtxLine ind hashes tail ['\n']
  | rule c ind units => (c = '-' ∨ c = '_' ∨ c = '*') ∧ BreakLine ind units ['\n']
  | blanks ls => ∀ l ∈ ls, ∀ ch ∈ l, isWs4 ch = true

theorem text_last (l : LeafLine) (pre : Str) : (pre ++ l.text).getLast? = some '\n' := by
  cases l with
  | heading ind hashes tail =>
    simp only [text]
    generalize ind ++ hashes ++ tail = A
    simp
  | rule c ind units =>
    simp only [text]
    generalize ind ++ breakBody c units = A
    simp
  | blanks ls =>
    simp only [text, blanksText_cons, List.nil_append]
    rw [← List.append_assoc]
    exact blanks_last ls pre

theorem text_pos (l : LeafLine) : 1 ≤ l.text.length := by
  cases l with
  | heading ind hashes tail => simp [text]; omega
  | rule c ind units => simp [text]; omega
  | blanks ls => simp [text, blanksText_cons]

end LeafLine

/-- the document -/
def linesText (ls : List LeafLine) : Str := (ls.map LeafLine.text).flatten

/-- every item is well formed and a group of blank lines is maximal (not followed by another group) -/
def LinesOk : List LeafLine → Prop
  | [] => True
  | l :: rest => l.Ok ∧ (l.isBlanks = true → ∀ l' ∈ rest.head?, l'.isBlanks = false) ∧ LinesOk rest

theorem atxLine_rest {ind hashes tail rest : Str} (h : AtxLine ind hashes tail rest) (next : Str) :
    AtxLine ind hashes tail ('\n' :: next) :=
  ⟨h.ind_blank, h.ind_le, h.hashes_hash, h.hashes_pos, h.hashes_le, ⟨h.tail.head, h.tail.no_nl, Or.inr ⟨_, rfl⟩⟩⟩

theorem breakLine_rest {ind : Str} {units : List Str} {rest : Str} (h : BreakLine ind units rest) (next : Str) :
    BreakLine ind units ('\n' :: next) :=
  ⟨h.ind_blank, h.ind_le, h.units_blank, h.three, Or.inr ⟨_, rfl⟩⟩

/-- the text after a maximal group of blank lines does not start with a blank line -/
theorem linesText_stop (rest : List LeafLine) (h : LinesOk rest) (hh : ∀ l' ∈ rest.head?, l'.isBlanks = false) :
    BlankStop2 (linesText rest) := by
  cases rest with
  | nil => exact ⟨[], [], rfl, by simp, Or.inl rfl⟩
  | cons l rest =>
    have hl := hh l (by simp)
    obtain ⟨hok, _, _⟩ := h
    cases l with
    | heading ind hashes tail =>
      obtain ⟨x, hs', rfl⟩ : ∃ x hs', hashes = x :: hs' := by
        cases hashes with
        | nil => have := hok.hashes_pos; simp at this
        | cons x hs' => exact ⟨x, hs', rfl⟩
      have hx : x = '#' := hok.hashes_hash x (by simp)
      refine ⟨ind, x :: (hs' ++ tail ++ ['\n'] ++ linesText rest), by simp [linesText, LeafLine.text],
        fun ch hch => by rw [hok.ind_blank ch hch]; decide, Or.inr ⟨x, _, rfl, by rw [hx]; decide, by rw [hx]; decide⟩⟩
    | rule c ind units =>
      obtain ⟨hc, hb⟩ := hok
      obtain ⟨b, us, rfl⟩ : ∃ b us, units = b :: us := by
        cases units with
        | nil => have := hb.three; simp at this
        | cons b us => exact ⟨b, us, rfl⟩
      refine ⟨ind, c :: (b ++ breakBody c us ++ ['\n'] ++ linesText rest),
        by simp [linesText, LeafLine.text, breakBody_cons],
        fun ch hch => by rw [hb.ind_blank ch hch]; decide, Or.inr ⟨c, _, rfl, ?_⟩⟩
      rcases hc with rfl | rfl | rfl <;> exact ⟨by decide, by decide⟩
    | blanks ls => cases hl

/-- one loop iteration on an item; the last token is not a paragraph before and after -/
theorem line_step (cfg : MdCfg) (hnamed : cfg.named = namedRx) (hgroups : cfg.groups = groupIndex)
    (hspec : cfg.blockSpec.lookup "thematic_break" = some thematicRuleRx)
    (hlist : (cfg.blockSpec.lookup "list").isSome = true)
    (sc : List (String × Rx)) (hsc : LeafSc sc) (pmFuel fuel : Nat) (st : BlockState) (hlast : NoPara st)
    (l : LeafLine) (hl : l.Ok)
    (pre post : Str) (hpost : l.isBlanks = true → BlankStop2 post)
    (hx : st.x = Py.ctxOf (pre ++ l.text ++ post)) (hcur : st.cursor = pre.length)
    (hmax : st.cursorMax = (pre ++ l.text ++ post).length) (hbol : pre = [] ∨ pre.getLast? = some '\n') :
    parseLoop cfg (parseMethod cfg (pmFuel + 2)) sc (fuel + 1) st =
      parseLoop cfg (parseMethod cfg (pmFuel + 2)) sc fuel
        { st.appendToken l.token with cursor := pre.length + l.text.length } ∧
    NoPara { st.appendToken l.token with cursor := pre.length + l.text.length } := by
  cases l with
  | heading ind hashes tail =>
    refine ⟨?_, noPara_heading st _ _ _⟩
    have hS : pre ++ (LeafLine.heading ind hashes tail).text ++ post = pre ++ ind ++ hashes ++ tail ++ ('\n' :: post) := by
      simp [LeafLine.text]
    rw [atx_line_step cfg hnamed hgroups sc hsc.atx (pmFuel + 1) fuel st pre ind hashes tail ('\n' :: post)
      (by rw [hx, hS]) hcur (by rw [hmax, hS]) hbol (atxLine_rest hl post)]
    have e : pre.length + ind.length + hashes.length + tail.length + 1 =
        pre.length + (LeafLine.heading ind hashes tail).text.length := by
      simp only [LeafLine.text, List.length_append, List.length_cons, List.length_nil]; omega
    rw [e]; rfl
  | rule c ind units =>
    refine ⟨?_, noPara_break st _⟩
    have hS : pre ++ (LeafLine.rule c ind units).text ++ post = pre ++ ind ++ breakBody c units ++ ('\n' :: post) := by
      simp [LeafLine.text]
    have e : pre.length + ind.length + (breakBody c units).length + 1 =
        pre.length + (LeafLine.rule c ind units).text.length := by
      simp only [LeafLine.text, List.length_append, List.length_cons, List.length_nil]; omega
    obtain ⟨hc, hb⟩ := hl
    rcases hc with rfl | hc
    · rw [dash_line_step cfg hspec hlist sc hsc.brk pmFuel fuel st hlast pre ind units ('\n' :: post) (by rw [hx, hS]) hcur
        (by rw [hmax, hS]) hbol (breakLine_rest hb post), e]
      rfl
    · rw [break_line_step cfg c hc sc hsc.brk (pmFuel + 1) fuel st pre ind units ('\n' :: post) (by rw [hx, hS]) hcur
        (by rw [hmax, hS]) hbol (breakLine_rest hb post), e]
      rfl
  | blanks ls =>
    exact ⟨blank_group_step cfg sc hsc.blank (pmFuel + 1) fuel st pre ls post hx hcur hmax hbol hl (hpost rfl),
      noPara_blank st _⟩

/-- **The loop of `BlockParser.parse` over a general leaf document.** -/
theorem leafLines_loop (cfg : MdCfg) (hnamed : cfg.named = namedRx) (hgroups : cfg.groups = groupIndex)
    (hspec : cfg.blockSpec.lookup "thematic_break" = some thematicRuleRx)
    (hlist : (cfg.blockSpec.lookup "list").isSome = true)
    (sc : List (String × Rx)) (hsc : LeafSc sc) (pmFuel : Nat) :
    ∀ (ls : List LeafLine) (pre : Str) (st : BlockState) (fuel : Nat), LinesOk ls → NoPara st →
      st.x = Py.ctxOf (pre ++ linesText ls) → st.cursor = pre.length →
      st.cursorMax = (pre ++ linesText ls).length → (pre = [] ∨ pre.getLast? = some '\n') → ls.length ≤ fuel →
      parseLoop cfg (parseMethod cfg (pmFuel + 2)) sc fuel st =
        .ok { st with tokens := st.tokens ++ ls.map LeafLine.token, cursor := st.cursorMax } := by
  intro ls
  induction ls with
  | nil =>
    intro pre st fuel _ _ _ hcur hmax _ _
    have hcm : st.cursor = st.cursorMax := by rw [hcur, hmax]; simp [linesText]
    have hst : ({ st with tokens := st.tokens ++ [].map LeafLine.token, cursor := st.cursorMax } : BlockState) = st := by
      cases st; simp only [List.map_nil, List.append_nil] at *; rw [hcm]
    rw [hst]
    cases fuel with
    | zero => rw [parseLoop, if_neg (by omega)]
    | succ f => rw [parseLoop, if_neg (by omega)]
  | cons l ls ih =>
    intro pre st fuel hok hlast hx hcur hmax hbol hfuel
    obtain ⟨f, rfl⟩ : ∃ f, fuel = f + 1 := ⟨fuel - 1, by simp only [List.length_cons] at hfuel; omega⟩
    obtain ⟨hl, hnext, hrest⟩ := hok
    have hS : pre ++ linesText (l :: ls) = pre ++ l.text ++ linesText ls := by simp [linesText]
    obtain ⟨hstep, hlast'⟩ := line_step cfg hnamed hgroups hspec hlist sc hsc pmFuel f st hlast l hl pre (linesText ls)
      (fun hb => linesText_stop ls hrest (hnext hb)) (by rw [hx, hS]) hcur (by rw [hmax, hS]) hbol
    rw [hstep]
    rw [ih (pre ++ l.text) _ f hrest hlast' (by rw [← hS]; exact hx) (by simp) (by rw [← hS]; exact hmax)
      (Or.inr (l.text_last pre)) (by simp only [List.length_cons] at hfuel; omega)]
    simp [BlockState.appendToken]

/-- **C04 for general leaf documents.**  For every regenerated configuration except `all-fenced-colon`: a document whose
lines are ATX heading lines (any admissible indentation, any rest of the line, closing sequence or not), thematic-break
lines of `-`, `_` or `*` (any admissible spacing) and maximal groups of blank lines (the first one empty) parses to exactly one
token per item: `heading` with `level = len(hashes)` and `text = atxSpec tail`, `thematic_break`, `blank_line`. -/
theorem leafLines_blockParse (c : RuleCfg) (hc : c ∈ allCfgs) (hn : c.name ≠ "all-fenced-colon")
    (ls : List LeafLine) (hok : LinesOk ls) :
    Model.blockParse (ofRuleCfg c) (linesText ls) = .ok (ls.map LeafLine.token, .obj [("ref_links", .obj [])]) := by
  obtain ⟨sc, hcomp, hA, hB⟩ := blockRules_prefixes c hc hn
  have hbl : blankOk sc = true := by
    have := blankRules_ok c hc
    rw [hcomp] at this
    exact this
  have hlen : ls.length ≤ (linesText ls).length := by
    clear hok
    induction ls with
    | nil => simp
    | cons l ls ih =>
      have := l.text_pos
      simp only [linesText, List.map_cons, List.flatten_cons, List.length_append, List.length_cons] at ih ⊢
      omega
  have hloop := leafLines_loop (ofRuleCfg c) rfl rfl (thematicRule_lookup c hc) (listRule_present c hc) sc ⟨hA, hB, hbl⟩
    (4 * (linesText ls).length + (ofRuleCfg c).maxNested + 14) ls [] (BlockState.root (linesText ls))
    ((linesText ls).length + 1) hok (noPara_root _) rfl rfl rfl (Or.inl rfl) (by omega)
  show Blk.blockParse (ofRuleCfg c) (linesText ls) = _
  unfold Blk.blockParse parse
  have hcm : (BlockState.root (linesText ls)).cursorMax = (linesText ls).length := rfl
  have hnf : nestFuel (ofRuleCfg c) (linesText ls) = 4 * (linesText ls).length + (ofRuleCfg c).maxNested + 14 + 2 := rfl
  simp only [Option.getD_none, hcomp, bind, Except.bind, hcm, hnf, hloop]
  simp [BlockState.root, BlockState.process, pure, Except.pure]

/-! ### instances -/

section LeafDocExamples

theorem cfg_core_mem : cfg_core ∈ allCfgs := List.Mem.head _

def exDoc : List LeafBlock := [.heading 2 "foo bar".toList, .rule, .heading 1 "a #b".toList, .heading 6 "C#".toList]

example : renderLeaves exDoc = "## foo bar\n\n***\n\n# a #b\n\n###### C#\n\n".toList := by decide

theorem exDoc_ok : ∀ b ∈ exDoc, b.Ok := by
  intro b hb
  simp only [exDoc, List.mem_cons, List.not_mem_nil, or_false] at hb
  rcases hb with rfl | rfl | rfl | rfl
  · exact ⟨by decide, by decide, by decide, by decide, by decide, by decide⟩
  · trivial
  · exact ⟨by decide, by decide, by decide, by decide, by decide, by decide⟩
  · exact ⟨by decide, by decide, by decide, by decide, by decide, by decide⟩

/-- the theorem instantiated (core configuration): four blocks, eight tokens -/
example : Model.blockParse (ofRuleCfg cfg_core) (renderLeaves exDoc) =
    .ok ([atxToken "foo bar".toList 2, tok "blank_line" [], tok "thematic_break" [], tok "blank_line" [],
          atxToken "a #b".toList 1, tok "blank_line" [], atxToken "C#".toList 6, tok "blank_line" []],
         .obj [("ref_links", .obj [])]) :=
  leafDoc_blockParse cfg_core cfg_core_mem (by decide) exDoc exDoc_ok

/-- the single steps instantiated: a heading line in the middle of a subject, the blank line after it -/
example : ∃ sc, compileSc atxCfg atxCfg.blockRules = .ok sc ∧ LeafSc sc := by
  obtain ⟨sc, h1, h2, h3⟩ := blockRules_prefixes cfg_core cfg_core_mem (by decide)
  exact ⟨sc, h1, h2, h3, by have := blankRules_ok cfg_core cfg_core_mem; rw [h1] at this; exact this⟩

example : blankRuleRx.matchAt (Py.ctxOf ("# a\n".toList ++ ['\n'] ++ "***\n".toList)) 4 = some (blankMatch 4) :=
  blankRule_matchAt_hit "# a\n".toList "***\n".toList (Or.inr (by decide)) (Or.inr ⟨'*', _, rfl, by decide, by decide⟩)

/-- a second blank line would be taken by the same match (`BlankStop` is needed) -/
example : (blankRuleRx.matchAt (Py.ctxOf "\n\n#".toList) 0).map (·.stop) = some 2 := by decide

/-- a general line document: a heading with closing sequence, an empty line, a `_` rule directly followed by an indented
heading, a group of two blank lines (the second one with a blank), an indented spaced `*` rule, and the two kinds of `-`
rules (`---` is claimed by `setex_heading` first, `- - -` is not) -/
def exLines : List LeafLine :=
  [.heading [] "##".toList " foo bar ##".toList, .blanks [], .rule '_' [] [[], [], []],
   .heading " ".toList "#".toList " x".toList, .blanks [" ".toList], .rule '*' "  ".toList [" ".toList, " ".toList, []],
   .rule '-' [] [[], [], []], .rule '-' [] [" ".toList, " ".toList, []]]

example : linesText exLines = "## foo bar ##\n\n___\n # x\n\n \n  * * *\n---\n- - -\n".toList := by decide

theorem exLines_ok : LinesOk exLines := by
  refine ⟨?_, by simp [LeafLine.isBlanks], ?_, by simp [LeafLine.isBlanks], ?_, by simp [LeafLine.isBlanks], ?_,
    by simp [LeafLine.isBlanks], ?_, by simp [LeafLine.isBlanks], ?_, by simp [LeafLine.isBlanks], ?_,
    by simp [LeafLine.isBlanks], ?_, by simp [LeafLine.isBlanks], trivial⟩
  · exact ⟨by decide, by decide, by decide, by decide, by decide, Or.inr ⟨' ', _, rfl, rfl⟩, by decide, Or.inr ⟨_, rfl⟩⟩
  · intro l hl; cases hl
  · exact ⟨Or.inr (Or.inl rfl), by decide, by decide, by decide, by decide, Or.inr ⟨_, rfl⟩⟩
  · exact ⟨by decide, by decide, by decide, by decide, by decide, Or.inr ⟨' ', _, rfl, rfl⟩, by decide, Or.inr ⟨_, rfl⟩⟩
  · show ∀ l ∈ [" ".toList], ∀ ch ∈ l, isWs4 ch = true
    decide
  · exact ⟨Or.inr (Or.inr rfl), by decide, by decide, by decide, by decide, Or.inr ⟨_, rfl⟩⟩
  · exact ⟨Or.inl rfl, by decide, by decide, by decide, by decide, Or.inr ⟨_, rfl⟩⟩
  · exact ⟨Or.inl rfl, by decide, by decide, by decide, by decide, Or.inr ⟨_, rfl⟩⟩

example : Model.blockParse (ofRuleCfg cfg_core) (linesText exLines) =
    .ok ([atxToken (atxSpec " foo bar ##".toList) 2, tok "blank_line" [], tok "thematic_break" [],
          atxToken (atxSpec " x".toList) 1, tok "blank_line" [], tok "thematic_break" [], tok "thematic_break" [],
          tok "thematic_break" []],
         .obj [("ref_links", .obj [])]) :=
  leafLines_blockParse cfg_core cfg_core_mem (by decide) exLines exLines_ok

example : atxSpec " foo bar ##".toList = "foo bar".toList ∧ atxSpec " x".toList = "x".toList := by decide

end LeafDocExamples

end Mistune
