/-
C12 — link references: first definition wins, whatever follows; lookups depend only on the key.
(Case / white-space insensitivity of labels is `unikeyPy_case`, `unikeyPy_ws_run`, … of C18; that every inline
lookup sees the FINAL table is the two-pass structure of `Model.parseDoc`.)
-/
import Mistune.RefTable
namespace Mistune

variable {D : Type}

theorem lookup_append_aux (a b : List (Str × D)) (key : Str) :
    (a ++ b).lookup key = (a.lookup key).orElse (fun _ => b.lookup key) := by
  induction a with
  | nil => simp [List.lookup]
  | cons p r ih =>
    obtain ⟨x, y⟩ := p
    simp only [List.cons_append, List.lookup_cons]
    cases key == x <;> simp [ih]

theorem any_eq_lookup_isSome (tbl : List (Str × D)) (key : Str) :
    tbl.any (fun p => p.1 == key) = (tbl.lookup key).isSome := by
  induction tbl with
  | nil => simp [List.lookup]
  | cons p r ih =>
    obtain ⟨x, y⟩ := p
    simp only [List.any_cons, List.lookup_cons, ih]
    by_cases hx : x = key
    · subst hx; simp
    · have h1 : (x == key) = false := by simpa using hx
      have h2 : (key == x) = false := by simpa using fun h : key = x => hx h.symm
      simp [h1, h2]

theorem refLookup_refAdd_same (tbl : List (Str × D)) (key : Str) (d : D) :
    refLookup (refAdd tbl key d) key = (refLookup tbl key).orElse (fun _ => some d) := by
  unfold refLookup refAdd
  rw [any_eq_lookup_isSome]
  cases h : tbl.lookup key with
  | none => simp [lookup_append_aux, h, List.lookup]
  | some v => simp [h]

theorem refLookup_refAdd_other (tbl : List (Str × D)) (k key : Str) (d : D) (h : k ≠ key) :
    refLookup (refAdd tbl k d) key = refLookup tbl key := by
  unfold refLookup refAdd
  have h2 : (key == k) = false := by simpa using fun e : key = k => h e.symm
  split
  · rfl
  · rw [lookup_append_aux]
    simp [List.lookup, h2]

theorem refBuild_lookup_gen (tbl defs : List (Str × D)) (key : Str) :
    refLookup (refBuild tbl defs) key = (refLookup tbl key).orElse (fun _ => firstDef defs key) := by
  induction defs generalizing tbl with
  | nil => simp [refBuild, firstDef]
  | cons p rest ih =>
    obtain ⟨k, d⟩ := p
    simp only [refBuild, firstDef]
    rw [ih]
    by_cases hk : k = key
    · subst hk
      rw [refLookup_refAdd_same]
      cases refLookup tbl k <;> simp
    · rw [refLookup_refAdd_other _ _ _ _ hk]
      have h1 : (k == key) = false := by simpa using hk
      simp [h1]

theorem refBuild_append_aux (tbl defs more : List (Str × D)) :
    refBuild tbl (defs ++ more) = refBuild (refBuild tbl defs) more := by
  induction defs generalizing tbl with
  | nil => rfl
  | cons p rest ih =>
    obtain ⟨k, d⟩ := p
    simp only [List.cons_append, refBuild, ih]

/-- **C12 (first definition wins, for every sequence of definitions).** Looking a key up in the table built
from any list of definitions (in block-pass order) gives the data of the FIRST definition with that key —
later duplicates, wherever they stand, change nothing; an undefined key gives `none` (the reference stays text). -/
theorem refBuild_first (defs : List (Str × D)) (key : Str) :
    refLookup (refBuild [] defs) key = firstDef defs key := by
  rw [refBuild_lookup_gen]
  simp [refLookup, List.lookup]

/-- Appending further definitions never changes what an already defined key resolves to. -/
theorem refBuild_append_stable (defs more : List (Str × D)) (key : Str) (d : D)
    (h : refLookup (refBuild [] defs) key = some d) :
    refLookup (refBuild [] (defs ++ more)) key = some d := by
  rw [refBuild_append_aux, refBuild_lookup_gen, h]
  simp


end Mistune
