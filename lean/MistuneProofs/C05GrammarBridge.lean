/-
C05 for the concrete model: the second pass (`iterRenderG`) turns a tree of the block-pass grammar `preSeq` into a
tree of the token grammar `wfSeq`, provided the inline parser returns inline token lists of the grammar.
-/
import MistuneProofs.C05GrammarPre
namespace Mistune

/-- the per-token check of `wfSeq` as a function of the type name and the other four grammar fields -/
def wfTy (rec : List Json → TokCtx → Nat → Bool) (ty : String) (attrsJ rawJ chJ textJ : Option Json)
    (ctx : TokCtx) (depth mx : Nat) : Bool :=
    let attrs := attrsJ.getD (.obj [])
    let hasRaw := optHas rawJ
    let hasCh := optHas chJ
    let basic := !optHas textJ && !(hasRaw && hasCh) &&
      (match rawJ with | some (.str _) => true | none => true | _ => false) &&
      (match chJ with | some (.arr _) => true | none => true | _ => false) &&
      attrsOkB attrsJ
    let ctxOk := match ctx with
      | .inline => inlineTypes.contains ty
      | .block => blockTypes.contains ty && !onlyUnder.contains ty
      | .only allowed => blockTypes.contains ty && allowed.contains ty
    let shape :=
      if inlineLeafRaw.contains ty || blockLeafRaw.contains ty then hasRaw
      else if inlineEmpty.contains ty || blockEmpty.contains ty then !hasRaw && !hasCh
      else hasCh
    let perType :=
      (if ty == "heading" then (match attrs.getInt? "level" with | some n => 1 ≤ n && n ≤ 6 | none => false) else true) &&
      (if ty == "list" then (match attrs.get? "ordered" with | some (.bool _) => true | _ => false) && isIntJ (attrs.get? "depth") &&
          (match attrs.get? "start" with | none => true | some (.num _) => true | _ => false) else true) &&
      (if ty == "link" || ty == "image" then (match attrs.get? "url" with | some (.str _) => true | _ => false) else true) &&
      (if ty == "footnote_ref" then (match attrs.getInt? "index" with | some n => 1 ≤ n | none => false) else true) &&
      (if ty == "table" then
         match optList chJ with
         | [h, b] =>
           h.type == "table_head" && b.type == "table_body" &&
           (let head := h.getArr "children"
            let aligns := head.map alignOf
            (b.getArr "children").all (fun row =>
              let cells := row.getArr "children"
              cells.length == head.length &&
              (List.zip (cells.map alignOf) aligns).all (fun p => jsonEqAlign p.1 p.2)))
         | _ => false
       else true) &&
      (if ty == "table_cell" then
         (match attrs.get? "align" with
          | some (.str a) => a == "left".toList || a == "right".toList || a == "center".toList
          | some .null => true | none => true | _ => false) &&
         (match attrs.get? "head" with | some (.bool _) => true | _ => false)
       else true)
    let nd := depth + (if countedContainers.contains ty then 1 else 0)
    let sub : TokCtx :=
      match ctx with
      | .inline => .inline
      | _ =>
        if blockInlineChildren.contains ty then .inline
        else match blockSpecial.lookup ty with
          | some allowed => .only allowed
          | none => .block
    basic && ctxOk && shape && perType && nd ≤ mx &&
      (if hasCh then rec (optList chJ) sub nd else true)

/-- the per-token check of `wfSeq` as a function of the five grammar fields -/
def wfView (rec : List Json → TokCtx → Nat → Bool) (tyJ attrsJ rawJ chJ textJ : Option Json)
    (ctx : TokCtx) (depth mx : Nat) : Bool :=
  match tyJ with
  | some (.str tyS) => wfTy rec (String.ofList tyS) attrsJ rawJ chJ textJ ctx depth mx
  | _ => false

theorem wfSeq_single_view (n : Nat) (kv : List (String × Json)) (ctx : TokCtx) (d mx : Nat) :
    wfSeq (n + 1) [.obj kv] ctx d mx =
      wfView (fun cs c d' => wfSeq n cs c d' mx) ((Json.obj kv).get? "type") ((Json.obj kv).get? "attrs")
        ((Json.obj kv).get? "raw") ((Json.obj kv).get? "children") ((Json.obj kv).get? "text") ctx d mx := by
  rw [wfSeq, List.all_cons, List.all_nil, Bool.and_true]
  rfl

/-- the block-pass check as a function of the type name -/
def preTy (rec : List Json → TokCtx → Nat → Bool) (ty : String) (attrsJ rawJ chJ textJ : Option Json)
    (ctx : TokCtx) (depth mx : Nat) : Bool :=
  preView rec (some (.str ty.toList)) attrsJ rawJ chJ textJ ctx depth mx

theorem preView_eq_preTy (rec : List Json → TokCtx → Nat → Bool) (tyS : Str) (attrsJ rawJ chJ textJ : Option Json)
    (ctx : TokCtx) (d mx : Nat) :
    preView rec (some (.str tyS)) attrsJ rawJ chJ textJ ctx d mx =
      preTy rec (String.ofList tyS) attrsJ rawJ chJ textJ ctx d mx := by
  simp only [preTy, String.toList_ofList]

theorem preTy_types (rec : List Json → TokCtx → Nat → Bool) (ty : String) (attrsJ rawJ chJ textJ : Option Json)
    (ctx : TokCtx) (d mx : Nat) (h : preTy rec ty attrsJ rawJ chJ textJ ctx d mx = true) :
    ty = "paragraph" ∨ ty = "block_text" ∨ ty = "heading" ∨ ty = "block_code" ∨ ty = "block_html" ∨
    ty = "thematic_break" ∨ ty = "blank_line" ∨ ty = "block_quote" ∨ ty = "list" ∨ ty = "list_item" ∨ ty = "block_math" ∨ ty = "block_spoiler" := by
  simp only [preTy, preView, String.ofList_toList, Bool.and_eq_true] at h
  have h2 := h.2
  clear h
  by_cases n1 : ty = "paragraph"; · simp [n1]
  by_cases n2 : ty = "block_text"; · simp [n2]
  by_cases n3 : ty = "heading"; · simp [n3]
  by_cases n4 : ty = "block_code"; · simp [n4]
  by_cases n5 : ty = "block_html"; · simp [n5]
  by_cases n6 : ty = "thematic_break"; · simp [n6]
  by_cases n7 : ty = "blank_line"; · simp [n7]
  by_cases n8 : ty = "block_quote"; · simp [n8]
  by_cases n9 : ty = "list"; · simp [n9]
  by_cases n10 : ty = "list_item"; · simp [n10]
  by_cases n11 : ty = "block_math"; · simp [n11]
  by_cases n12 : ty = "block_spoiler"; · simp [n12]
  simp [n1, n2, n3, n4, n5, n6, n7, n8, n9, n10, n11, n12] at h2

macro "wf_simp" : tactic =>
  `(tactic| simp [wfTy, optHas, optList, inlineTypes,
      blockTypes, onlyUnder, inlineLeafRaw, blockLeafRaw, inlineEmpty, blockEmpty, blockInlineChildren,
      blockBlockChildren, blockSpecial, countedContainers, List.lookup, *])

macro "pre_simp" h:ident : tactic =>
  `(tactic| simp [preTy, preView, optHas, optArr, optStr, optList, isBlockCtx, isItemCtx] at $h:ident)

theorem wfTy_quote (rec : List Json → TokCtx → Nat → Bool) (ty : String) (hty : ty = "block_quote" ∨ ty = "block_spoiler")
    (attrsJ : Option Json) (cs : List Json) (d mx : Nat)
    (h1 : attrsOkB attrsJ = true) (hd : d + 1 ≤ mx) (hrec : rec cs .block (d + 1) = true) :
    wfTy rec ty attrsJ none (some (.arr cs)) none .block d mx = true := by
  rcases hty with e | e <;> subst e <;> wf_simp

theorem wfTy_list (rec : List Json → TokCtx → Nat → Bool) (attrsJ : Option Json) (cs : List Json) (d mx : Nat)
    (h1 : attrsOkB attrsJ = true) (hd : d + 1 ≤ mx)
    (h2 : (match (attrsJ.getD (.obj [])).get? "ordered" with | some (.bool _) => true | _ => false) = true)
    (h3 : isIntJ ((attrsJ.getD (.obj [])).get? "depth") = true)
    (h4 : (match (attrsJ.getD (.obj [])).get? "start" with | none => true | some (.num _) => true | _ => false) = true)
    (hrec : rec cs (.only ["list_item", "task_list_item"]) (d + 1) = true) :
    wfTy rec "list" attrsJ none (some (.arr cs)) none .block d mx = true := by wf_simp

theorem wfTy_item (rec : List Json → TokCtx → Nat → Bool) (attrsJ : Option Json) (cs : List Json) (d mx : Nat)
    (allowed : List String) (h1 : attrsOkB attrsJ = true) (hd : d ≤ mx) (ha : allowed.contains "list_item" = true)
    (hrec : rec cs .block d = true) :
    wfTy rec "list_item" attrsJ none (some (.arr cs)) none (.only allowed) d mx = true := by
  have ha' : "list_item" ∈ allowed := by simpa using ha
  wf_simp

theorem wfTy_text (rec : List Json → TokCtx → Nat → Bool) (ty : String) (hty : ty = "paragraph" ∨ ty = "block_text")
    (attrsJ : Option Json) (cs : List Json) (d mx : Nat)
    (h1 : attrsOkB attrsJ = true) (hd : d ≤ mx) (hrec : rec cs .inline d = true) :
    wfTy rec ty attrsJ none (some (.arr cs)) none .block d mx = true := by
  rcases hty with e | e <;> subst e <;> wf_simp

theorem wfTy_heading (rec : List Json → TokCtx → Nat → Bool)
    (attrsJ : Option Json) (cs : List Json) (d mx : Nat)
    (h1 : attrsOkB attrsJ = true) (hd : d ≤ mx)
    (h2 : (match (attrsJ.getD (.obj [])).getInt? "level" with | some n => decide (1 ≤ n) && decide (n ≤ 6) | none => false) = true)
    (hrec : rec cs .inline d = true) :
    wfTy rec "heading" attrsJ none (some (.arr cs)) none .block d mx = true := by wf_simp

theorem wfTy_raw (rec : List Json → TokCtx → Nat → Bool) (ty : String) (hty : ty = "block_code" ∨ ty = "block_html" ∨ ty = "block_math")
    (attrsJ : Option Json) (raw : Str) (d mx : Nat) (h1 : attrsOkB attrsJ = true) (hd : d ≤ mx) :
    wfTy rec ty attrsJ (some (.str raw)) none none .block d mx = true := by
  rcases hty with e | e | e <;> subst e <;> wf_simp

theorem wfTy_empty (rec : List Json → TokCtx → Nat → Bool) (ty : String) (hty : ty = "thematic_break" ∨ ty = "blank_line")
    (attrsJ : Option Json) (d mx : Nat) (h1 : attrsOkB attrsJ = true) (hd : d ≤ mx) :
    wfTy rec ty attrsJ none none none .block d mx = true := by
  rcases hty with e | e <;> subst e <;> wf_simp

theorem optStr_inv (o : Option Json) (h : optStr o = true) : ∃ r, o = some (.str r) := by
  cases o with
  | none => simp [optStr] at h
  | some v => cases v <;> simp [optStr] at h; exact ⟨_, rfl⟩

/-- containers: the children are re-checked by `rec'` -/
theorem view_container (rec rec' : List Json → TokCtx → Nat → Bool) (ty : String) (attrsJ rawJ textJ : Option Json)
    (cs cs' : List Json) (ctx : TokCtx) (d mx : Nat)
    (h : preTy rec ty attrsJ rawJ (some (.arr cs)) textJ ctx d mx = true)
    (hrec : ∀ c d', rec cs c d' = true → rec' cs' c d' = true) :
    wfTy rec' ty attrsJ rawJ (some (.arr cs')) textJ ctx d mx = true := by
  rcases preTy_types _ _ _ _ _ _ _ _ _ h with e | e | e | e | e | e | e | e | e | e | e | e
  all_goals subst e
  all_goals cases ctx
  all_goals pre_simp h
  · obtain ⟨⟨a1, a2⟩, ⟨⟨a3, a4⟩, a5⟩, a6⟩ := h
    subst a4 a5
    exact wfTy_quote _ _ (Or.inl rfl) _ _ _ _ (attrsOkT_B a2) a3 (hrec _ _ a6)
  · obtain ⟨⟨a1, a2⟩, ⟨⟨⟨⟨⟨a3, a4⟩, a5⟩, b1⟩, b2⟩, b3⟩, a6⟩ := h
    subst a4 a5
    exact wfTy_list _ _ _ _ _ (attrsOkT_B a2) a3 b1 b2 b3 (hrec _ _ a6)
  · obtain ⟨⟨a1, a2⟩, ⟨⟨a3, a4⟩, a5⟩, a6⟩ := h
    subst a4 a5
    exact wfTy_item _ _ _ _ _ _ (attrsOkT_B a2) a1 (by simpa using a3) (hrec _ _ a6)
  · obtain ⟨⟨a1, a2⟩, ⟨⟨a3, a4⟩, a5⟩, a6⟩ := h
    subst a4 a5
    exact wfTy_quote _ _ (Or.inr rfl) _ _ _ _ (attrsOkT_B a2) a3 (hrec _ _ a6)

/-- text blocks: `text` is replaced by inline children -/
theorem view_text (rec rec' : List Json → TokCtx → Nat → Bool) (ty : String) (attrsJ rawJ chJ : Option Json)
    (text : Str) (ctx : TokCtx) (d mx : Nat)
    (h : preTy rec ty attrsJ rawJ chJ (some (.str text)) ctx d mx = true) :
    rawJ = none ∧ chJ = none ∧ d ≤ mx ∧
      ∀ cs, rec' cs .inline d = true → wfTy rec' ty attrsJ none (some (.arr cs)) none ctx d mx = true := by
  rcases preTy_types _ _ _ _ _ _ _ _ _ h with e | e | e | e | e | e | e | e | e | e | e | e
  all_goals subst e
  all_goals cases ctx
  all_goals pre_simp h
  · obtain ⟨⟨a1, a2⟩, a3, a4⟩ := h
    exact ⟨a3, a4, a1, fun cs hcs => wfTy_text _ _ (Or.inl rfl) _ _ _ _ (attrsOkT_B a2) a1 hcs⟩
  · obtain ⟨⟨a1, a2⟩, a3, a4⟩ := h
    exact ⟨a3, a4, a1, fun cs hcs => wfTy_text _ _ (Or.inr rfl) _ _ _ _ (attrsOkT_B a2) a1 hcs⟩
  · obtain ⟨⟨a1, a2⟩, ⟨a3, a4⟩, a5⟩ := h
    exact ⟨a3, a4, a1, fun cs hcs => wfTy_heading _ _ _ _ _ (attrsOkT_B a2) a1 a5 hcs⟩

/-- leaves: unchanged by the second pass -/
theorem view_leaf (rec rec' : List Json → TokCtx → Nat → Bool) (ty : String) (attrsJ rawJ chJ textJ : Option Json)
    (ctx : TokCtx) (d mx : Nat) (hch : optArr chJ = false) (htx : optStr textJ = false)
    (h : preTy rec ty attrsJ rawJ chJ textJ ctx d mx = true) :
    wfTy rec' ty attrsJ rawJ chJ textJ ctx d mx = true := by
  rcases preTy_types _ _ _ _ _ _ _ _ _ h with e | e | e | e | e | e | e | e | e | e | e | e
  all_goals subst e
  all_goals cases ctx
  all_goals simp [preTy, preView, optHas, hch, htx, optList, isBlockCtx, isItemCtx] at h
  · obtain ⟨⟨a1, a2⟩, ⟨a3, a4⟩, a5⟩ := h
    subst a4 a5
    obtain ⟨r, hr⟩ := optStr_inv _ a3
    subst hr
    exact wfTy_raw _ _ (Or.inl rfl) _ _ _ _ (attrsOkT_B a2) a1
  · obtain ⟨⟨a1, a2⟩, ⟨a3, a4⟩, a5⟩ := h
    subst a4 a5
    obtain ⟨r, hr⟩ := optStr_inv _ a3
    subst hr
    exact wfTy_raw _ _ (Or.inr (Or.inl rfl)) _ _ _ _ (attrsOkT_B a2) a1
  · obtain ⟨⟨a1, a2⟩, ⟨a3, a4⟩, a5⟩ := h
    subst a3 a4 a5
    exact wfTy_empty _ _ (Or.inl rfl) _ _ _ (attrsOkT_B a2) a1
  · obtain ⟨⟨a1, a2⟩, ⟨a3, a4⟩, a5⟩ := h
    subst a3 a4 a5
    exact wfTy_empty _ _ (Or.inr rfl) _ _ _ (attrsOkT_B a2) a1
  · obtain ⟨⟨a1, a2⟩, ⟨a3, a4⟩, a5⟩ := h
    subst a4 a5
    obtain ⟨r, hr⟩ := optStr_inv _ a3
    subst hr
    exact wfTy_raw _ _ (Or.inr (Or.inr rfl)) _ _ _ _ (attrsOkT_B a2) a1

/-! ### the second pass -/

theorem set_obj (kv : List (String × Json)) (k : String) (v : Json) : ∃ kv', (Json.obj kv).set k v = .obj kv' := by
  simp only [Json.set]; split <;> exact ⟨_, rfl⟩

theorem get?_erase_self (t : Json) (k : String) : (t.erase k).get? k = none := by
  cases t with
  | obj kv =>
    simp only [Json.erase, Json.get?]
    induction kv with
    | nil => rfl
    | cons p kv ih =>
      obtain ⟨a, b⟩ := p
      simp only [List.filter_cons]
      by_cases hak : a = k
      · subst hak; simp [ih]
      · have h0 : (a != k) = true := by simpa using hak
        have h1 : (k == a) = false := by simpa using (fun e : k = a => hak e.symm)
        simp only [h0, if_true, List.lookup, h1]
        exact ih
  | _ => rfl

theorem erase_obj (kv : List (String × Json)) (k : String) : ∃ kv', (Json.obj kv).erase k = .obj kv' := ⟨_, rfl⟩

/-- **the second pass maps the block-pass grammar into the token grammar**: `K + 1` is a fuel that suffices for
every list the inline parser returns -/
theorem iterRender_wf (inl : Str → Except PyErr (List Json)) (K mx : Nat)
    (hinl : ∀ s out d, d ≤ mx → inl s = .ok out → wfSeq (K + 1) out .inline d mx = true) :
    ∀ (n fuel : Nat) (toks : List Json) (ctx : TokCtx) (d : Nat) (out : List Json),
      preSeq n toks ctx d mx = true → iterRenderG inl fuel toks = .ok out →
      wfSeq (n + K + 1) out ctx d mx = true := by
  intro n
  induction n with
  | zero => intro fuel toks ctx d out h; simp [preSeq] at h
  | succ m ih =>
    intro fuel toks ctx d out h hrun
    cases fuel with
    | zero => simp [iterRenderG] at hrun
    | succ fuel =>
      rw [iterRenderG_succ] at hrun
      have e : m + 1 + K + 1 = (m + K + 1) + 1 := by omega
      rw [e, wfSeq_iff]
      refine mapM_ok_forall (stepG inl fuel) (fun t => preSeq (m + 1) [t] ctx d mx = true)
        (fun t' => wfSeq (m + K + 1 + 1) [t'] ctx d mx = true) ?_ toks out hrun ((preSeq_iff _ _ _ _ _).1 h)
      intro t t' ht hstep
      rw [preSeq_single, preTok] at ht
      -- the token has a string type, hence is an object
      cases hty : t.get? "type" with
      | none => rw [hty] at ht; simp [preView] at ht
      | some tyJ =>
        obtain ⟨kv, hkv⟩ := isObj_of_get? _ _ _ hty
        rw [hty] at ht
        cases tyJ with
        | str tyS =>
          rw [preView_eq_preTy] at ht
          subst hkv
          unfold stepG at hstep
          split at hstep
          · rename_i cs hcs
            rw [hcs] at ht
            cases hr : iterRenderG inl fuel cs with
            | error e => rw [hr] at hstep; cases hstep
            | ok cs' =>
              rw [hr] at hstep
              have e2 : (Json.obj kv).set "children" (.arr cs') = t' := by
                simpa [bind, Except.bind, pure, Except.pure] using hstep
              subst e2
              obtain ⟨kv', hkv'⟩ := set_obj kv "children" (.arr cs')
              have g := wfSeq_single_view (m + K + 1) kv' ctx d mx
              rw [← hkv'] at g
              rw [g, get?_set_ne _ _ "type" _ (by decide), get?_set_ne _ _ "attrs" _ (by decide),
                get?_set_ne _ _ "raw" _ (by decide), get?_set_ne _ _ "text" _ (by decide), get?_set_self, hty]
              exact view_container _ (fun cs c d' => wfSeq (m + K + 1) cs c d' mx) _ _ _ _ cs cs' ctx d mx ht
                (fun c d' hh => ih fuel cs c d' cs' hh hr)
          · rename_i hnc
            have hch : optArr ((Json.obj kv).get? "children") = false := by
              cases hc : (Json.obj kv).get? "children" with
              | none => rfl
              | some v =>
                cases v with
                | arr l => exact absurd hc (hnc l)
                | _ => rfl
            split at hstep
            · rename_i text htext
              rw [htext] at ht
              obtain ⟨r1, r2, r3, r4⟩ := view_text _ (fun cs c d' => wfSeq (m + K + 1) cs c d' mx) _ _ _ _ _ _ _ _ ht
              cases hr : inl (Py.stripC " \r\n\t\x0c".toList text) with
              | error e => rw [hr] at hstep; cases hstep
              | ok cs =>
                rw [hr] at hstep
                have e2 : ((Json.obj kv).erase "text").set "children" (.arr cs) = t' := by
                  simpa [bind, Except.bind, pure, Except.pure] using hstep
                subst e2
                obtain ⟨kv1, hkv1⟩ := erase_obj kv "text"
                obtain ⟨kv', hkv'⟩ := set_obj kv1 "children" (.arr cs)
                have g := wfSeq_single_view (m + K + 1) kv' ctx d mx
                rw [← hkv', ← hkv1] at g
                have gch : (((Json.obj kv).erase "text").set "children" (.arr cs)).get? "children" = some (.arr cs) := by
                  rw [hkv1]; exact get?_set_self _ _ _
                rw [g, gch, get?_set_ne _ _ "type" _ (by decide), get?_set_ne _ _ "attrs" _ (by decide),
                  get?_set_ne _ _ "raw" _ (by decide), get?_set_ne _ _ "text" _ (by decide),
                  get?_erase_ne _ _ "type" (by decide), get?_erase_ne _ _ "attrs" (by decide),
                  get?_erase_ne _ _ "raw" (by decide), get?_erase_self, hty, r1]
                exact r4 cs (wfSeq_mono_le (by omega) _ _ _ _ (hinl _ _ d r3 hr))
            · rename_i hnt
              have htx : optStr ((Json.obj kv).get? "text") = false := by
                cases hc : (Json.obj kv).get? "text" with
                | none => rfl
                | some v =>
                  cases v with
                  | str l => exact absurd hc (hnt l)
                  | _ => rfl
              have e2 : Json.obj kv = t' := by
                simpa [pure, Except.pure] using hstep
              subst e2
              rw [wfSeq_single_view, hty]
              exact view_leaf _ (fun cs c d' => wfSeq (m + K + 1) cs c d' mx) _ _ _ _ _ _ _ _ hch htx ht
        | _ => simp [preView] at ht

/-! ### the attribute shape through the second pass (for C02) -/

theorem preTy_shape (rec : List Json → TokCtx → Nat → Bool) (ty : String) (attrsJ rawJ chJ textJ : Option Json)
    (ctx : TokCtx) (d mx : Nat) (h : preTy rec ty attrsJ rawJ chJ textJ ctx d mx = true) :
    coreTys.contains ty = true ∧ attrsShape ty attrsJ = true := by
  have h' := h
  simp only [preTy, preView, String.ofList_toList, Bool.and_eq_true, attrsOkT] at h'
  refine ⟨?_, h'.1.2.2⟩
  rcases preTy_types _ _ _ _ _ _ _ _ _ h with e | e | e | e | e | e | e | e | e | e | e | e <;> subst e <;> decide

theorem preTy_children (rec : List Json → TokCtx → Nat → Bool) (ty : String) (attrsJ rawJ textJ : Option Json)
    (cs : List Json) (ctx : TokCtx) (d mx : Nat)
    (h : preTy rec ty attrsJ rawJ (some (.arr cs)) textJ ctx d mx = true) : ∃ c d', rec cs c d' = true := by
  rcases preTy_types _ _ _ _ _ _ _ _ _ h with e | e | e | e | e | e | e | e | e | e | e | e
  all_goals subst e
  all_goals cases ctx
  all_goals pre_simp h
  · exact ⟨_, _, h.2.2⟩
  · exact ⟨_, _, h.2.2⟩
  · exact ⟨_, _, h.2.2⟩
  · exact ⟨_, _, h.2.2⟩

theorem type_of_get? (t : Json) (s : Str) (h : t.get? "type" = some (.str s)) : t.type = String.ofList s := by
  simp [Json.type, Json.getStr, h]

theorem iterRender_shp (inl : Str → Except PyErr (List Json)) (K mx : Nat)
    (hinl : ∀ s out, inl s = .ok out → shpAll (K + 1) out = true) :
    ∀ (n fuel : Nat) (toks : List Json) (ctx : TokCtx) (d : Nat) (out : List Json),
      preSeq n toks ctx d mx = true → iterRenderG inl fuel toks = .ok out → shpAll (n + K + 1) out = true := by
  intro n
  induction n with
  | zero => intro fuel toks ctx d out h; simp [preSeq] at h
  | succ m ih =>
    intro fuel toks ctx d out h hrun
    cases fuel with
    | zero => simp [iterRenderG] at hrun
    | succ fuel =>
      rw [iterRenderG_succ] at hrun
      have e : m + 1 + K + 1 = (m + K + 1) + 1 := by omega
      rw [e]
      unfold shpAll
      rw [List.all_eq_true]
      refine mapM_ok_forall (stepG inl fuel) (fun t => preSeq (m + 1) [t] ctx d mx = true)
        (fun t' => shp (m + K + 1 + 1) t' = true) ?_ toks out hrun ((preSeq_iff _ _ _ _ _).1 h)
      intro t t' ht hstep
      rw [preSeq_single, preTok] at ht
      cases hty : t.get? "type" with
      | none => rw [hty] at ht; simp [preView] at ht
      | some tyJ =>
        obtain ⟨kv, hkv⟩ := isObj_of_get? _ _ _ hty
        rw [hty] at ht
        cases tyJ with
        | str tyS =>
          rw [preView_eq_preTy] at ht
          obtain ⟨s1, s2⟩ := preTy_shape _ _ _ _ _ _ _ _ _ ht
          subst hkv
          unfold stepG at hstep
          split at hstep
          · rename_i cs hcs
            rw [hcs] at ht
            obtain ⟨c, d', hrec⟩ := preTy_children _ _ _ _ _ _ _ _ _ ht
            cases hr : iterRenderG inl fuel cs with
            | error e => rw [hr] at hstep; cases hstep
            | ok cs' =>
              rw [hr] at hstep
              have e2 : (Json.obj kv).set "children" (.arr cs') = t' := by
                simpa [bind, Except.bind, pure, Except.pure] using hstep
              subst e2
              have ihc := ih fuel cs c d' cs' hrec hr
              rw [shp, type_of_get? _ tyS (by rw [get?_set_ne _ _ "type" _ (by decide)]; exact hty),
                get?_set_ne _ _ "attrs" _ (by decide), get?_set_self, s1, s2]
              exact ihc
          · rename_i hnc
            split at hstep
            · rename_i text htext
              cases hr : inl (Py.stripC " \r\n\t\x0c".toList text) with
              | error e => rw [hr] at hstep; cases hstep
              | ok cs =>
                rw [hr] at hstep
                have e2 : ((Json.obj kv).erase "text").set "children" (.arr cs) = t' := by
                  simpa [bind, Except.bind, pure, Except.pure] using hstep
                subst e2
                obtain ⟨kv1, hkv1⟩ := erase_obj kv "text"
                have gch : (((Json.obj kv).erase "text").set "children" (.arr cs)).get? "children" = some (.arr cs) := by
                  rw [hkv1]; exact get?_set_self _ _ _
                rw [shp, type_of_get? _ tyS (by
                    rw [get?_set_ne _ _ "type" _ (by decide), get?_erase_ne _ _ "type" (by decide)]; exact hty),
                  get?_set_ne _ _ "attrs" _ (by decide), get?_erase_ne _ _ "attrs" (by decide), gch, s1, s2]
                exact shpAll_mono_le (by omega) _ (hinl _ _ hr)
            · have e2 : Json.obj kv = t' := by
                simpa [pure, Except.pure] using hstep
              subst e2
              rw [shp, type_of_get? _ tyS hty, s1, s2]
              split
              · rename_i cs hcs; exact absurd hcs (hnc cs)
              · rfl
        | _ => simp [preView] at ht

end Mistune
