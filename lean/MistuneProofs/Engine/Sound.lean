/-
Soundness of the matcher w.r.t. `Spec` (CPS inversion), and what it gives for `matchAt` / `search`.
-/
import MistuneProofs.Engine.Spec
namespace Mistune

/-- Soundness of the repeat loop, relative to a step relation for which the body matcher is sound. -/
theorem repLoop_sound {R : Type} (step : Nat → Caps → Nat → Caps → Prop)
    (mr : Nat → Caps → (Nat → Caps → Option R) → Option R)
    (hmr : ∀ i c (k : Nat → Caps → Option R) res, mr i c k = some res →
      ∃ j c', step i c j c' ∧ k j c' = some res)
    (mn : Nat) (mx : Option Nat) (g : Bool) (k : Nat → Caps → Option R) (res : R) :
    ∀ fuel cnt prevAdv i c, (∀ m, mx = some m → cnt ≤ m) →
      repLoop mr mn mx g k fuel cnt prevAdv i c = some res →
      ∃ n j c', Iter step n i c j c' ∧ mn ≤ cnt + n ∧ (∀ m, mx = some m → cnt + n ≤ m) ∧
        k j c' = some res := by
  intro fuel
  induction fuel with
  | zero => intro cnt p i c _ h; simp [repLoop] at h
  | succ fuel ih =>
    intro cnt p i c hcan h
    have hmore : ∀ (canMore : Bool), (canMore = true → ∀ m, mx = some m → cnt < m) →
        (if canMore = true then
          mr i c (fun j c' => repLoop mr mn mx g k fuel (cnt + 1) (j != i) j c') else none) = some res →
        ∃ n j c', Iter step n i c j c' ∧ mn ≤ cnt + n ∧ (∀ m, mx = some m → cnt + n ≤ m) ∧
          k j c' = some res := by
      intro cm hcm hm
      cases cm with
      | false => simp at hm
      | true =>
        simp only [if_true] at hm
        obtain ⟨j, c', hs, hk⟩ := hmr _ _ _ _ hm
        obtain ⟨n, j2, c2, hit, h1, h2, h3⟩ := ih _ _ _ _ (fun m hmm => hcm rfl m hmm) hk
        refine ⟨n + 1, j2, c2, Iter.succ hs hit, by omega, ?_, h3⟩
        intro m hmm
        have := h2 m hmm
        omega
    have hdone : (if cnt ≥ mn then k i c else none) = some res →
        ∃ n j c', Iter step n i c j c' ∧ mn ≤ cnt + n ∧ (∀ m, mx = some m → cnt + n ≤ m) ∧
          k j c' = some res := by
      intro hd
      split at hd
      · rename_i hge
        exact ⟨0, i, c, Iter.zero i c, by omega, by simpa using hcan, hd⟩
      · simp at hd
    simp only [repLoop] at h
    cases g with
    | true =>
      simp only [if_true] at h
      split at h
      · rename_i r hr
        cases h
        exact hmore _ (by intro hc m hmm; subst hmm; simp at hc; exact hc.1) hr
      · exact hdone h
    | false =>
      simp only [Bool.false_eq_true, if_false] at h
      split at h
      · rename_i r hr
        cases h
        exact hdone hr
      · exact hmore _ (by intro hc m hmm; subst hmm; simp at hc; exact hc.1) h

/-- **Soundness (CPS inversion).** If the matcher, continued by `k`, succeeds, then the regex admits some
`(j, c')` (in the sense of `Spec`) on which `k` returned that result. -/
theorem m_sound {R : Type} (x : RxCtx) (r : Rx) (i : Nat) (c : Caps) (k : Nat → Caps → Option R) (res : R)
    (h : r.m x i c k = some res) : ∃ j c', Spec x r i c j c' ∧ k j c' = some res := by
  induction r generalizing R i c k res with
  | eps => simp only [Rx.m] at h; exact ⟨i, c, by simp [Spec], h⟩
  | fail => simp [Rx.m] at h
  | cls neg items =>
    simp only [Rx.m] at h
    split at h
    · rename_i hc
      simp at hc
      exact ⟨i + 1, c, by simp [Spec, hc], h⟩
    · simp at h
  | any dotall =>
    simp only [Rx.m] at h
    split at h
    · rename_i hc
      simp at hc
      exact ⟨i + 1, c, by simp [Spec, hc], h⟩
    · simp at h
  | seq a b iha ihb =>
    simp only [Rx.m] at h
    obtain ⟨m, cm, hs, hk⟩ := iha _ _ _ _ h
    obtain ⟨j, c', hs2, hk2⟩ := ihb _ _ _ _ hk
    exact ⟨j, c', by simp only [Spec]; exact ⟨m, cm, hs, hs2⟩, hk2⟩
  | alt a b iha ihb =>
    simp only [Rx.m] at h
    split at h
    · rename_i r hr
      cases h
      obtain ⟨j, c', hs, hk⟩ := iha _ _ _ _ hr
      exact ⟨j, c', by simp only [Spec]; exact Or.inl hs, hk⟩
    · obtain ⟨j, c', hs, hk⟩ := ihb _ _ _ _ h
      exact ⟨j, c', by simp only [Spec]; exact Or.inr hs, hk⟩
  | rep r mn mx g ih =>
    simp only [Rx.m] at h
    obtain ⟨n, j, c', hit, h1, h2, h3⟩ :=
      repLoop_sound (Spec x r) (fun i c k => r.m x i c k) (fun i c k res hh => ih i c k res hh)
        mn mx g k res _ 0 false i c (by intros; omega) h
    refine ⟨j, c', ?_, h3⟩
    simp only [Spec]
    exact ⟨n, by omega, by simpa using h2, hit⟩
  | grp idx r ih =>
    simp only [Rx.m] at h
    obtain ⟨j, c', hs, hk⟩ := ih _ _ _ _ h
    exact ⟨j, _, by simp only [Spec]; exact ⟨c', hs, rfl⟩, hk⟩
  | backref idx =>
    simp only [Rx.m] at h
    split at h
    · simp at h
    · rename_i a b hg
      split at h
      · rename_i hc
        simp at hc
        exact ⟨_, c, by rw [Spec]; exact ⟨a, b, hg, rfl, hc.1, hc.2, rfl⟩, h⟩
      · simp at h
  | look ahead neg w r ih =>
    cases ahead <;> cases neg <;> simp only [Rx.m] at h
    · split at h
      · rename_i hw
        split at h
        · rename_i c1 hr
          obtain ⟨j, c', hs, hk⟩ := ih _ _ _ _ hr
          split at hk
          · rename_i hj
            simp at hj hk
            subst hj; subst hk
            exact ⟨j, c', by rw [Spec]; exact ⟨rfl, hw, hs⟩, h⟩
          · simp at hk
        · simp at h
      · simp at h
    · split at h
      · split at h
        · simp at h
        · exact ⟨i, c, by simp [Spec], h⟩
      · exact ⟨i, c, by simp [Spec], h⟩
    · split at h
      · rename_i c1 hr
        obtain ⟨j, c', hs, hk⟩ := ih _ _ _ _ hr
        simp at hk
        subst hk
        exact ⟨i, c', by rw [Spec]; exact ⟨rfl, j, hs⟩, h⟩
      · simp at h
    · split at h
      · simp at h
      · exact ⟨i, c, by simp [Spec], h⟩
  | bos =>
    simp only [Rx.m] at h
    split at h
    · rename_i hc
      simp at hc
      exact ⟨i, c, by simp [Spec, hc], h⟩
    · simp at h
  | bol =>
    simp only [Rx.m] at h
    split at h
    · rename_i hc
      simp at hc
      exact ⟨i, c, by simp [Spec, hc], h⟩
    · simp at h
  | eos =>
    simp only [Rx.m] at h
    split at h
    · rename_i hc
      simp at hc
      exact ⟨i, c, by simp [Spec, hc], h⟩
    · simp at h
  | eol =>
    simp only [Rx.m] at h
    split at h
    · rename_i hc
      simp at hc
      exact ⟨i, c, by simp [Spec, hc], h⟩
    · simp at h
  | eosStrict =>
    simp only [Rx.m] at h
    split at h
    · rename_i hc
      simp at hc
      exact ⟨i, c, by simp [Spec, hc], h⟩
    · simp at h
  | wordb =>
    simp only [Rx.m] at h
    split at h
    · rename_i hc
      exact ⟨i, c, by rw [Spec]; exact ⟨hc, rfl, rfl⟩, h⟩
    · simp at h
  | nwordb =>
    simp only [Rx.m] at h
    split at h
    · simp at h
    · rename_i hc
      exact ⟨i, c, by rw [Spec]; exact ⟨by simpa using hc, rfl, rfl⟩, h⟩

theorem iter_bounds (step : Nat → Caps → Nat → Caps → Prop) (n : Nat)
    (hstep : ∀ i c j c', step i c j c' → i ≤ n → i ≤ j ∧ j ≤ n)
    {cnt i : Nat} {c : Caps} {j : Nat} {c' : Caps}
    (h : Iter step cnt i c j c') (hi : i ≤ n) : i ≤ j ∧ j ≤ n := by
  induction h with
  | zero i c => omega
  | succ hs _ ih =>
    have b1 := hstep _ _ _ _ hs hi
    have b2 := ih b1.2
    omega

/-- A `Spec` match never moves backwards and never passes `endpos`. -/
theorem spec_bounds (x : RxCtx) (r : Rx) (i : Nat) (c : Caps) (j : Nat) (c' : Caps)
    (h : Spec x r i c j c') (hi : i ≤ x.n) : i ≤ j ∧ j ≤ x.n := by
  induction r generalizing i c j c' with
  | eps => simp only [Spec] at h; omega
  | fail => simp only [Spec] at h
  | cls neg items => simp only [Spec] at h; omega
  | any dotall => simp only [Spec] at h; omega
  | seq a b iha ihb =>
    simp only [Spec] at h
    obtain ⟨m, cm, h1, h2⟩ := h
    have b1 := iha _ _ _ _ h1 hi
    have b2 := ihb _ _ _ _ h2 b1.2
    omega
  | alt a b iha ihb =>
    simp only [Spec] at h
    rcases h with h | h
    · exact iha _ _ _ _ h hi
    · exact ihb _ _ _ _ h hi
  | rep r mn mx g ih =>
    simp only [Spec] at h
    obtain ⟨cnt, _, _, hit⟩ := h
    exact iter_bounds (Spec x r) x.n (fun i c j c' hs hi => ih i c j c' hs hi) hit hi
  | grp idx r ih =>
    simp only [Spec] at h
    obtain ⟨c0, h1, _⟩ := h
    exact ih _ _ _ _ h1 hi
  | backref idx =>
    simp only [Spec] at h
    obtain ⟨a, b, _, h1, h2, _, _⟩ := h
    omega
  | look ahead neg w r ih =>
    cases ahead <;> cases neg <;> simp only [Spec] at h <;> omega
  | bos => simp only [Spec] at h; omega
  | bol => simp only [Spec] at h; omega
  | eos => simp only [Spec] at h; omega
  | eol => simp only [Spec] at h; omega
  | eosStrict => simp only [Spec] at h; omega
  | wordb => simp only [Spec] at h; omega
  | nwordb => simp only [Spec] at h; omega

/-- `pattern.match`: the returned span starts at `pos` and is admitted by `Spec`. -/
theorem matchAt_sound (x : RxCtx) (r : Rx) (pos : Nat) (mt : RxMatch) (h : r.matchAt x pos = some mt) :
    mt.start = pos ∧ Spec x r pos [] mt.stop mt.caps := by
  unfold Rx.matchAt at h
  obtain ⟨j, c', hs, hk⟩ := m_sound x r pos [] _ mt h
  simp at hk
  subst hk
  exact ⟨rfl, hs⟩

theorem searchFrom_sound (x : RxCtx) (r : Rx) : ∀ fuel pos mt, r.searchFrom x fuel pos = some mt →
    pos ≤ mt.start ∧ mt.start ≤ x.n ∧ r.matchAt x mt.start = some mt ∧
    ∀ q, pos ≤ q → q < mt.start → r.matchAt x q = none := by
  intro fuel
  induction fuel with
  | zero => intro pos mt h; simp [Rx.searchFrom] at h
  | succ fuel ih =>
    intro pos mt h
    simp only [Rx.searchFrom] at h
    split at h
    · simp at h
    · rename_i hpos
      split at h
      · rename_i mt' hm
        cases h
        have hst := (matchAt_sound x r pos mt hm).1
        refine ⟨by omega, by omega, by rw [hst]; exact hm, ?_⟩
        intro q h1 h2
        omega
      · rename_i hm
        obtain ⟨h1, h2, h3, h4⟩ := ih _ _ h
        refine ⟨by omega, h2, h3, ?_⟩
        intro q hq1 hq2
        by_cases hq : q = pos
        · subst hq; exact hm
        · exact h4 q (by omega) hq2

theorem searchFrom_none (x : RxCtx) (r : Rx) : ∀ fuel pos, r.searchFrom x fuel pos = none →
    x.n + 1 - pos ≤ fuel → ∀ q, pos ≤ q → q ≤ x.n → r.matchAt x q = none := by
  intro fuel
  induction fuel with
  | zero => intro pos _ hf q h1 h2; omega
  | succ fuel ih =>
    intro pos h hf q h1 h2
    simp only [Rx.searchFrom] at h
    split at h
    · omega
    · split at h
      · simp at h
      · rename_i hm
        by_cases hq : q = pos
        · subst hq; exact hm
        · exact ih _ h (by omega) q (by omega) h2

/-- `pattern.search`: the returned span lies in `[pos, endpos]`, is admitted by `Spec`, and no earlier start
position in `[pos, start)` has a match (leftmost). -/
theorem search_sound (x : RxCtx) (r : Rx) (pos : Nat) (mt : RxMatch) (h : r.search x pos = some mt) :
    pos ≤ mt.start ∧ mt.start ≤ mt.stop ∧ mt.stop ≤ x.n ∧ Spec x r mt.start [] mt.stop mt.caps ∧
    ∀ q, pos ≤ q → q < mt.start → r.matchAt x q = none := by
  unfold Rx.search at h
  obtain ⟨h1, h2, h3, h4⟩ := searchFrom_sound x r _ _ _ h
  have hs := (matchAt_sound x r _ mt h3).2
  have hb := spec_bounds x r _ _ _ _ hs h2
  exact ⟨h1, hb.1, hb.2, hs, h4⟩

/-- `search` returns `none` only if no start position in `[pos, endpos]` has a match. -/
theorem search_none (x : RxCtx) (r : Rx) (pos : Nat) (h : r.search x pos = none) :
    ∀ q, pos ≤ q → q ≤ x.n → r.matchAt x q = none := by
  unfold Rx.search at h
  exact searchFrom_none x r _ _ h (by omega)

end Mistune
