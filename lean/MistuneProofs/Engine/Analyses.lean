/-
Soundness of the static analyses of `Mistune.RxAnalysis` w.r.t. `Spec` (hence, through `m_sound`, w.r.t. the
matcher, and — through the conformance run — w.r.t. CPython's `re`).
-/
import MistuneProofs.Engine.Spec
namespace Mistune

/-! ### helper lemmas -/

theorem iter_minLen {x : RxCtx} {r : Rx}
    (ih : ∀ (i : Nat) (c : Caps) (j : Nat) (c' : Caps), Spec x r i c j c' → i + r.minLen ≤ j)
    {cnt i : Nat} {c : Caps} {j : Nat} {c' : Caps}
    (h : Iter (Spec x r) cnt i c j c') : i + cnt * r.minLen ≤ j := by
  induction h with
  | zero i c => simp
  | succ hs _ ih2 =>
    have := ih _ _ _ _ hs
    rw [Nat.succ_mul]
    omega

/-- every match is at least `minLen` long -/
theorem minLen_sound (x : RxCtx) (r : Rx) (i : Nat) (c : Caps) (j : Nat) (c' : Caps)
    (h : Spec x r i c j c') : i + r.minLen ≤ j := by
  induction r generalizing i c j c' with
  | eps => simp only [Spec] at h; simp only [Rx.minLen]; omega
  | fail => simp only [Spec] at h
  | cls neg items => simp only [Spec] at h; simp only [Rx.minLen]; omega
  | any dotall => simp only [Spec] at h; simp only [Rx.minLen]; omega
  | seq a b iha ihb =>
    simp only [Spec] at h
    obtain ⟨m, cm, h1, h2⟩ := h
    have := iha _ _ _ _ h1
    have := ihb _ _ _ _ h2
    simp only [Rx.minLen]; omega
  | alt a b iha ihb =>
    simp only [Spec] at h
    simp only [Rx.minLen]
    rcases h with h | h
    · have := iha _ _ _ _ h; omega
    · have := ihb _ _ _ _ h; omega
  | rep r mn mx g ih =>
    simp only [Spec] at h
    obtain ⟨cnt, h1, _, h3⟩ := h
    have := iter_minLen ih h3
    have : mn * r.minLen ≤ cnt * r.minLen := Nat.mul_le_mul_right _ h1
    simp only [Rx.minLen]; omega
  | grp idx r ih =>
    simp only [Spec] at h
    obtain ⟨c0, h1, _⟩ := h
    have := ih _ _ _ _ h1
    simp only [Rx.minLen]; omega
  | backref idx =>
    simp only [Spec] at h
    obtain ⟨a, b, _, h2, _⟩ := h
    simp only [Rx.minLen]; omega
  | look ahead neg w r ih =>
    simp only [Rx.minLen]
    cases ahead <;> cases neg <;> simp only [Spec] at h <;> omega
  | bos => simp only [Spec] at h; simp only [Rx.minLen]; omega
  | bol => simp only [Spec] at h; simp only [Rx.minLen]; omega
  | eos => simp only [Spec] at h; simp only [Rx.minLen]; omega
  | eol => simp only [Spec] at h; simp only [Rx.minLen]; omega
  | eosStrict => simp only [Spec] at h; simp only [Rx.minLen]; omega
  | wordb => simp only [Spec] at h; simp only [Rx.minLen]; omega
  | nwordb => simp only [Spec] at h; simp only [Rx.minLen]; omega

theorem spec_mono {x : RxCtx} {r : Rx} {i : Nat} {c : Caps} {j : Nat} {c' : Caps}
    (h : Spec x r i c j c') : i ≤ j := by
  have := minLen_sound x r i c j c' h; omega

theorem iter_mono {x : RxCtx} {r : Rx} {cnt i : Nat} {c : Caps} {j : Nat} {c' : Caps}
    (h : Iter (Spec x r) cnt i c j c') : i ≤ j := by
  have := iter_minLen (minLen_sound x r) h; omega

/-- a regex that cannot be empty only has non-empty matches -/
theorem nonempty_of_minLen (x : RxCtx) (r : Rx) (i : Nat) (c : Caps) (j : Nat) (c' : Caps)
    (h : Spec x r i c j c') (hm : 1 ≤ r.minLen) : i < j := by
  have := minLen_sound x r i c j c' h; omega

theorem iter_zeroWidth {x : RxCtx} {r : Rx}
    (ih : ∀ (i : Nat) (c : Caps) (j : Nat) (c' : Caps), Spec x r i c j c' → j = i)
    {cnt i : Nat} {c : Caps} {j : Nat} {c' : Caps}
    (h : Iter (Spec x r) cnt i c j c') : j = i := by
  induction h with
  | zero i c => rfl
  | succ hs _ ih2 =>
    have := ih _ _ _ _ hs
    omega

/-- a zero-width regex only has empty matches -/
theorem zeroWidth_sound (x : RxCtx) (r : Rx) (i : Nat) (c : Caps) (j : Nat) (c' : Caps)
    (h : Spec x r i c j c') (hz : r.zeroWidth = true) : j = i := by
  induction r generalizing i c j c' with
  | eps => simp only [Spec] at h; exact h.1
  | fail => simp only [Spec] at h
  | cls neg items => simp [Rx.zeroWidth] at hz
  | any dotall => simp [Rx.zeroWidth] at hz
  | seq a b iha ihb =>
    simp only [Spec] at h
    simp only [Rx.zeroWidth, Bool.and_eq_true] at hz
    obtain ⟨m, cm, h1, h2⟩ := h
    have := iha _ _ _ _ h1 hz.1
    have := ihb _ _ _ _ h2 hz.2
    omega
  | alt a b iha ihb =>
    simp only [Spec] at h
    simp only [Rx.zeroWidth, Bool.and_eq_true] at hz
    rcases h with h | h
    · exact iha _ _ _ _ h hz.1
    · exact ihb _ _ _ _ h hz.2
  | rep r mn mx g ih =>
    simp only [Spec] at h
    simp only [Rx.zeroWidth] at hz
    obtain ⟨cnt, _, _, h3⟩ := h
    exact iter_zeroWidth (fun i c j c' hs => ih i c j c' hs hz) h3
  | grp idx r ih =>
    simp only [Spec] at h
    simp only [Rx.zeroWidth] at hz
    obtain ⟨c0, h1, _⟩ := h
    exact ih _ _ _ _ h1 hz
  | backref idx => simp [Rx.zeroWidth] at hz
  | look ahead neg w r ih =>
    cases ahead <;> cases neg <;> simp only [Spec] at h <;> exact h.1
  | bos => simp only [Spec] at h; exact h.2.1
  | bol => simp only [Spec] at h; exact h.2.1
  | eos => simp only [Spec] at h; exact h.2.1
  | eol => simp only [Spec] at h; exact h.2.1
  | eosStrict => simp only [Spec] at h; exact h.2.1
  | wordb => simp only [Spec] at h; exact h.2.1
  | nwordb => simp only [Spec] at h; exact h.2.1

theorem iter_firstOk {x : RxCtx} {r : Rx}
    (ih : ∀ (i : Nat) (c : Caps) (j : Nat) (c' : Caps), Spec x r i c j c' → i < j →
      r.firstOk x.t (x.chr i) = true)
    {cnt i : Nat} {c : Caps} {j : Nat} {c' : Caps}
    (h : Iter (Spec x r) cnt i c j c') (hne : i < j) : r.firstOk x.t (x.chr i) = true := by
  induction h with
  | zero i c => omega
  | @succ n i m k c cm c'' hs hrest ih2 =>
    by_cases hm : i < m
    · exact ih _ _ _ _ hs hm
    · have := spec_mono hs
      have hmi : m = i := by omega
      subst hmi
      exact ih2 hne

/-- the first character of a non-empty match is in the first set -/
theorem firstOk_sound (x : RxCtx) (r : Rx) (i : Nat) (c : Caps) (j : Nat) (c' : Caps)
    (h : Spec x r i c j c') (hne : i < j) : r.firstOk x.t (x.chr i) = true := by
  induction r generalizing i c j c' with
  | eps => simp only [Spec] at h; omega
  | fail => simp only [Spec] at h
  | cls neg items => simp only [Spec] at h; simp only [Rx.firstOk]; exact h.2.1
  | any dotall =>
    simp only [Spec] at h
    simp only [Rx.firstOk]
    rcases h.2.1 with hd | hd
    · simp [hd]
    · simp [hd]
  | seq a b iha ihb =>
    simp only [Spec] at h
    obtain ⟨m, cm, h1, h2⟩ := h
    simp only [Rx.firstOk, Bool.or_eq_true, Bool.and_eq_true]
    by_cases hm : i < m
    · exact Or.inl (iha _ _ _ _ h1 hm)
    · have := spec_mono h1
      have hmi : m = i := by omega
      subst hmi
      have := minLen_sound _ _ _ _ _ _ h1
      refine Or.inr ⟨?_, ihb _ _ _ _ h2 hne⟩
      simp only [Rx.mayBeEmpty, beq_iff_eq]
      omega
  | alt a b iha ihb =>
    simp only [Spec] at h
    simp only [Rx.firstOk, Bool.or_eq_true]
    rcases h with h | h
    · exact Or.inl (iha _ _ _ _ h hne)
    · exact Or.inr (ihb _ _ _ _ h hne)
  | rep r mn mx g ih =>
    simp only [Spec] at h
    obtain ⟨cnt, _, _, h3⟩ := h
    simp only [Rx.firstOk]
    exact iter_firstOk ih h3 hne
  | grp idx r ih =>
    simp only [Spec] at h
    obtain ⟨c0, h1, _⟩ := h
    simp only [Rx.firstOk]
    exact ih _ _ _ _ h1 hne
  | backref idx => simp only [Rx.firstOk]
  | look ahead neg w r ih =>
    cases ahead <;> cases neg <;> simp only [Spec] at h <;> omega
  | bos => simp only [Spec] at h; omega
  | bol => simp only [Spec] at h; omega
  | eos => simp only [Spec] at h; omega
  | eol => simp only [Spec] at h; omega
  | eosStrict => simp only [Spec] at h; omega
  | wordb => simp only [Spec] at h; omega
  | nwordb => simp only [Spec] at h; omega

theorem needs_cls_mem {neg : Bool} {items : List ClsItem} {ch : Nat}
    (h : ch ∈ (Rx.cls neg items).needs) : neg = false ∧ items = [.chr ch] := by
  unfold Rx.needs at h
  split at h <;> simp_all

theorem iter_needs {x : RxCtx} {r : Rx}
    (ih : ∀ (i : Nat) (c : Caps) (j : Nat) (c' : Caps), Spec x r i c j c' →
      ∀ ch ∈ r.needs, ∃ p, i ≤ p ∧ p < j ∧ x.chr p = ch)
    {cnt i : Nat} {c : Caps} {j : Nat} {c' : Caps}
    (h : Iter (Spec x r) cnt i c j c') (hc : 1 ≤ cnt) :
    ∀ ch ∈ r.needs, ∃ p, i ≤ p ∧ p < j ∧ x.chr p = ch := by
  cases h with
  | zero => omega
  | succ hs hrest =>
    intro ch hch
    obtain ⟨p, h1, h2, h3⟩ := ih _ _ _ _ hs ch hch
    have := iter_mono hrest
    exact ⟨p, h1, by omega, h3⟩

/-- each needed character occurs inside every match -/
theorem needs_sound (x : RxCtx) (r : Rx) (i : Nat) (c : Caps) (j : Nat) (c' : Caps)
    (h : Spec x r i c j c') : ∀ ch ∈ r.needs, ∃ p, i ≤ p ∧ p < j ∧ x.chr p = ch := by
  induction r generalizing i c j c' with
  | eps => simp [Rx.needs]
  | fail => simp [Rx.needs]
  | cls neg items =>
    intro ch hch
    obtain ⟨rfl, rfl⟩ := needs_cls_mem hch
    simp only [Spec] at h
    obtain ⟨_, h2, h3, _⟩ := h
    refine ⟨i, Nat.le_refl _, by omega, ?_⟩
    simp [clsTest, ClsItem.test] at h2
    omega
  | any dotall => simp [Rx.needs]
  | seq a b iha ihb =>
    simp only [Spec] at h
    obtain ⟨m, cm, h1, h2⟩ := h
    intro ch hch
    simp only [Rx.needs, List.mem_append] at hch
    have := spec_mono h1
    have := spec_mono h2
    rcases hch with hch | hch
    · obtain ⟨p, p1, p2, p3⟩ := iha _ _ _ _ h1 ch hch
      exact ⟨p, p1, by omega, p3⟩
    · obtain ⟨p, p1, p2, p3⟩ := ihb _ _ _ _ h2 ch hch
      exact ⟨p, by omega, p2, p3⟩
  | alt a b iha ihb =>
    simp only [Spec] at h
    intro ch hch
    simp only [Rx.needs, List.mem_filter, List.contains_iff_mem] at hch
    rcases h with h | h
    · exact iha _ _ _ _ h ch hch.1
    · exact ihb _ _ _ _ h ch hch.2
  | rep r mn mx g ih =>
    simp only [Spec] at h
    obtain ⟨cnt, h1, _, h3⟩ := h
    intro ch hch
    simp only [Rx.needs] at hch
    split at hch
    · exact iter_needs ih h3 (by omega) ch hch
    · simp at hch
  | grp idx r ih =>
    simp only [Spec] at h
    obtain ⟨c0, h1, _⟩ := h
    simp only [Rx.needs]
    exact ih _ _ _ _ h1
  | backref idx => simp [Rx.needs]
  | look ahead neg w r ih => simp [Rx.needs]
  | bos => simp [Rx.needs]
  | bol => simp [Rx.needs]
  | eos => simp [Rx.needs]
  | eol => simp [Rx.needs]
  | eosStrict => simp [Rx.needs]
  | wordb => simp [Rx.needs]
  | nwordb => simp [Rx.needs]

theorem bolAnchored_look {a n : Bool} {w : Nat} {r : Rx}
    (h : (Rx.look a n w r).bolAnchored = true) :
    a = false ∧ n = false ∧ w = 1 ∧ r = .cls false [.chr 10] := by
  unfold Rx.bolAnchored at h
  split at h <;> simp_all

/-- a line-anchored regex only matches at the start of a line -/
theorem bolAnchored_sound (x : RxCtx) (r : Rx) (i : Nat) (c : Caps) (j : Nat) (c' : Caps)
    (h : Spec x r i c j c') (hb : r.bolAnchored = true) : i = 0 ∨ x.chr (i - 1) = 10 := by
  induction r generalizing i c j c' with
  | eps => simp [Rx.bolAnchored] at hb
  | fail => simp only [Spec] at h
  | cls neg items => simp [Rx.bolAnchored] at hb
  | any dotall => simp [Rx.bolAnchored] at hb
  | seq a b iha ihb =>
    simp only [Spec] at h
    obtain ⟨m, cm, h1, h2⟩ := h
    simp only [Rx.bolAnchored, Bool.or_eq_true, Bool.and_eq_true] at hb
    rcases hb with hb | ⟨hz, hb⟩
    · exact iha _ _ _ _ h1 hb
    · have hmi := zeroWidth_sound _ _ _ _ _ _ h1 hz
      subst hmi
      exact ihb _ _ _ _ h2 hb
  | alt a b iha ihb =>
    simp only [Spec] at h
    simp only [Rx.bolAnchored, Bool.and_eq_true] at hb
    rcases h with h | h
    · exact iha _ _ _ _ h hb.1
    · exact ihb _ _ _ _ h hb.2
  | rep r mn mx g ih =>
    simp only [Spec] at h
    obtain ⟨cnt, h1, _, h3⟩ := h
    simp only [Rx.bolAnchored, Bool.and_eq_true, decide_eq_true_eq] at hb
    cases h3 with
    | zero => omega
    | succ hs _ => exact ih _ _ _ _ hs hb.2
  | grp idx r ih =>
    simp only [Spec] at h
    obtain ⟨c0, h1, _⟩ := h
    simp only [Rx.bolAnchored] at hb
    exact ih _ _ _ _ h1 hb
  | backref idx => simp [Rx.bolAnchored] at hb
  | look ahead neg w r ih =>
    obtain ⟨rfl, rfl, rfl, rfl⟩ := bolAnchored_look hb
    simp only [Spec] at h
    obtain ⟨_, h1, _, h2, _⟩ := h
    right
    simp [clsTest, ClsItem.test] at h2
    omega
  | bos => simp only [Spec] at h; exact Or.inl h.1
  | bol => simp only [Spec] at h; exact h.1
  | eos => simp [Rx.bolAnchored] at hb
  | eol => simp [Rx.bolAnchored] at hb
  | eosStrict => simp [Rx.bolAnchored] at hb
  | wordb => simp [Rx.bolAnchored] at hb
  | nwordb => simp [Rx.bolAnchored] at hb

end Mistune
