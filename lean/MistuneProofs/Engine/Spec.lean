/-
Declarative match relation `Spec` for `Rx`: which `(start, captures) ↦ (end, captures)` pairs a regex
admits, *without* priorities, fuel or continuations.  It deliberately over-approximates at negative
look-arounds (they constrain nothing): every analysis proved sound for `Spec` is then sound for the matcher,
which is the only direction the properties need (a returned match has the analysed shape).
-/
import Mistune.Rx
import Mistune.RxAnalysis
namespace Mistune

/-- `cnt` consecutive iterations of a step relation -/
inductive Iter (step : Nat → Caps → Nat → Caps → Prop) : Nat → Nat → Caps → Nat → Caps → Prop where
  | zero (i : Nat) (c : Caps) : Iter step 0 i c i c
  | succ {n i j k : Nat} {c c' c'' : Caps} :
      step i c j c' → Iter step n j c' k c'' → Iter step (n + 1) i c k c''

def Spec (x : RxCtx) : Rx → Nat → Caps → Nat → Caps → Prop
  | .eps, i, c, j, c' => j = i ∧ c' = c
  | .fail, _, _, _, _ => False
  | .cls neg items, i, c, j, c' => i < x.n ∧ clsTest x.t neg items (x.chr i) = true ∧ j = i + 1 ∧ c' = c
  | .any dotall, i, c, j, c' => i < x.n ∧ (dotall = true ∨ x.chr i ≠ 10) ∧ j = i + 1 ∧ c' = c
  | .seq a b, i, c, j, c' => ∃ m cm, Spec x a i c m cm ∧ Spec x b m cm j c'
  | .alt a b, i, c, j, c' => Spec x a i c j c' ∨ Spec x b i c j c'
  | .rep r mn mx _, i, c, j, c' =>
      ∃ cnt, mn ≤ cnt ∧ (∀ m, mx = some m → cnt ≤ m) ∧ Iter (Spec x r) cnt i c j c'
  | .grp idx r, i, c, j, c' => ∃ c0, Spec x r i c j c0 ∧ c' = (idx, (i, j)) :: c0
  | .backref idx, i, c, j, c' =>
      ∃ a b, c.get idx = some (a, b) ∧ j = i + (b - a) ∧ j ≤ x.n ∧ x.sameSub a i (b - a) = true ∧ c' = c
  | .look true false _ r, i, c, j, c' => j = i ∧ ∃ e, Spec x r i c e c'
  | .look true true _ _, i, c, j, c' => j = i ∧ c' = c
  | .look false false w r, i, c, j, c' => j = i ∧ w ≤ i ∧ Spec x r (i - w) c i c'
  | .look false true _ _, i, c, j, c' => j = i ∧ c' = c
  | .bos, i, c, j, c' => i = 0 ∧ j = i ∧ c' = c
  | .bol, i, c, j, c' => (i = 0 ∨ x.chr (i - 1) = 10) ∧ j = i ∧ c' = c
  | .eos, i, c, j, c' => (i = x.n ∨ (i + 1 = x.n ∧ x.chr i = 10)) ∧ j = i ∧ c' = c
  | .eol, i, c, j, c' => (i = x.n ∨ (i < x.n ∧ x.chr i = 10)) ∧ j = i ∧ c' = c
  | .eosStrict, i, c, j, c' => i = x.n ∧ j = i ∧ c' = c
  | .wordb, i, c, j, c' => ((decide (i > 0) && x.isWordAt (i - 1)) != x.isWordAt i) = true ∧ j = i ∧ c' = c
  | .nwordb, i, c, j, c' => ((decide (i > 0) && x.isWordAt (i - 1)) != x.isWordAt i) = false ∧ j = i ∧ c' = c

end Mistune
