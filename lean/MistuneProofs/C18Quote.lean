/-
C18 — `escape_url` (the `urllib.parse.quote` layer): output alphabet, percent-escapes untouched, idempotence.
-/
import Mistune.Util
namespace Mistune

def hexChars : Str := "0123456789ABCDEF".toList

/-- What a character of `quote safe _` can be. -/
def OkChar (safe : Str) (c : Char) : Prop :=
  (c.toNat < 128 ∧ byteSafe safe c.toNat = true) ∨ c = '%' ∨ c ∈ hexChars

theorem byteSafe_lt (safe : Str) (b : Nat) (h : byteSafe safe b = true) : b < 128 := by
  unfold byteSafe alwaysSafe at h
  simp only [Bool.or_eq_true, Bool.and_eq_true, decide_eq_true_eq, List.any_eq_true] at h
  rcases h with h | ⟨c, _, _, h⟩
  · omega
  · exact h

theorem toNat_ofNat_small (b : Nat) (h : b < 128) : (Char.ofNat b).toNat = b := by
  have hv : b.isValidChar := by left; omega
  simp [Char.ofNat, hv, Char.ofNatAux, Char.toNat]

theorem hexDigit_mem : ∀ n, n < 16 → hexDigit n ∈ hexChars := by decide

theorem char_toNat_lt (c : Char) : c.toNat < 0x110000 := by
  have h := c.valid
  simp only [UInt32.isValidChar] at h
  have e : c.val.toNat = c.toNat := rfl
  rw [e] at h
  rcases h with h | ⟨_, h⟩
  · have : (55296 : UInt32).toNat = 55296 := rfl
    omega
  · have : (1114112 : UInt32).toNat = 1114112 := rfl
    omega

theorem utf8Bytes_lt (c : Char) : ∀ b ∈ utf8Bytes c, b < 256 := by
  intro b hb
  have hc : c.toNat < 0x110000 := char_toNat_lt c
  unfold utf8Bytes at hb
  simp only at hb
  split at hb
  · simp at hb; omega
  split at hb
  · simp at hb; omega
  split at hb
  · simp at hb; omega
  · simp at hb; omega

theorem quoteByte_ok (safe : Str) (b : Nat) (hb : b < 256) : ∀ c ∈ quoteByte safe b, OkChar safe c := by
  intro c hc
  unfold quoteByte at hc
  split at hc
  · rename_i hs
    simp at hc; subst hc
    have := byteSafe_lt safe b hs
    left; rw [toNat_ofNat_small b this]; exact ⟨this, hs⟩
  · simp at hc
    rcases hc with h | h | h
    · right; left; exact h
    · right; right; subst h; exact hexDigit_mem _ (by omega)
    · right; right; subst h; exact hexDigit_mem _ (by omega)

/-- **C18 (escape_url, alphabet).** Every character `quote` emits is an ASCII character of the safe set,
`%`, or an upper-case hex digit. -/
theorem quote_ok (safe : Str) (s : Str) : ∀ c ∈ quote safe s, OkChar safe c := by
  intro c hc
  unfold quote at hc
  obtain ⟨ch, _, h⟩ := List.mem_flatMap.1 hc
  obtain ⟨b, hb, h⟩ := List.mem_flatMap.1 h
  exact quoteByte_ok safe b (utf8Bytes_lt ch b hb) c h

theorem byteSafe_url_range : ∀ n, n < 128 → byteSafe urlSafeChars n = true →
    33 ≤ n ∧ n < 127 ∧ n ≠ 34 ∧ n ≠ 60 ∧ n ≠ 62 ∧ n ≠ 39 ∧ n ≠ 92 ∧ n ≠ 96 := by decide

/-- **C18 (escape_url, attribute safety).** With mistune's safe set the result of `escape_url` is printable
ASCII without space, `"`, `'`, `<`, `>`, backslash or backtick — whatever `unescape` returned. -/
theorem escapeUrl_attr_safe (u : Str → Str) (s : Str) :
    ∀ c ∈ escapeUrl u s, 33 ≤ c.toNat ∧ c.toNat < 127 ∧ c ≠ '"' ∧ c ≠ '<' ∧ c ≠ '>' ∧ c ≠ '\'' ∧ c ≠ ' ' := by
  intro c hc
  have h := quote_ok urlSafeChars (u s) c hc
  have key : 33 ≤ c.toNat ∧ c.toNat < 127 ∧ c.toNat ≠ 34 ∧ c.toNat ≠ 60 ∧ c.toNat ≠ 62 ∧ c.toNat ≠ 39 := by
    rcases h with ⟨h1, h2⟩ | h | h
    · have := byteSafe_url_range _ h1 h2; omega
    · subst h; decide
    · have : ∀ x ∈ hexChars, 33 ≤ x.toNat ∧ x.toNat < 127 ∧ x.toNat ≠ 34 ∧ x.toNat ≠ 60 ∧ x.toNat ≠ 62
          ∧ x.toNat ≠ 39 := by decide
      exact this c h
  refine ⟨key.1, key.2.1, ?_, ?_, ?_, ?_, ?_⟩ <;> (intro hh; subst hh; revert key; decide)

theorem quote_fix (safe : Str) (s : Str)
    (h : ∀ c ∈ s, c.toNat < 128 ∧ byteSafe safe c.toNat = true) : quote safe s = s := by
  induction s with
  | nil => rfl
  | cons c s ih =>
    have hc := h c (by simp)
    have hs := ih (fun x hx => h x (by simp [hx]))
    have e : quote safe (c :: s) = (utf8Bytes c).flatMap (quoteByte safe) ++ quote safe s := by
      simp [quote]
    rw [e, hs]
    have : utf8Bytes c = [c.toNat] := by simp [utf8Bytes, hc.1]
    rw [this]
    simp [quoteByte, hc.2, Char.ofNat_toNat]

theorem okChar_safe (safe : Str) (hp : '%' ∈ safe) (c : Char) (h : OkChar safe c) :
    c.toNat < 128 ∧ byteSafe safe c.toNat = true := by
  rcases h with h | h | h
  · exact h
  · subst h
    refine ⟨by decide, ?_⟩
    unfold byteSafe
    simp only [Bool.or_eq_true, List.any_eq_true, Bool.and_eq_true, decide_eq_true_eq]
    right; exact ⟨'%', hp, rfl, by decide⟩
  · have : ∀ x ∈ hexChars, x.toNat < 128 ∧ alwaysSafe x.toNat = true := by decide
    have := this c h
    exact ⟨this.1, by simp [byteSafe, this.2]⟩

/-- **C18 (escape_url, idempotence of the quoting layer).** -/
theorem quote_idem (safe : Str) (hp : '%' ∈ safe) (s : Str) : quote safe (quote safe s) = quote safe s :=
  quote_fix safe _ (fun c hc => okChar_safe safe hp c (quote_ok safe s c hc))

/-- **C18 (escape_url, percent-encoded octets are left alone).** A string of already safe characters and
`%HH` escapes is returned unchanged. -/
theorem quote_pct_unchanged (s : Str) (h : ∀ c ∈ s, OkChar urlSafeChars c) : quote urlSafeChars s = s :=
  quote_fix _ _ (fun c hc => okChar_safe _ (by decide) c (h c hc))

/-- **C18 (escape_url, second application).** If no character reference is decoded on the second
application (`u` is the identity on the first result) then `escape_url` is idempotent. -/
theorem escapeUrl_idem (u : Str → Str) (s : Str) (h : u (escapeUrl u s) = escapeUrl u s) :
    escapeUrl u (escapeUrl u s) = escapeUrl u s := by
  unfold escapeUrl at *
  rw [h]; exact quote_idem _ (by decide) _

end Mistune
