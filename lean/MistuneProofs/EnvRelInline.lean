/-
How the inline pass of the CONCRETE model (`Mistune.Model.Inl`, `Mistune.Model.Hooks.iterRenderEnv`) treats the
shared `env`: only `parse_inline_footnote` writes it; every other inline handler leaves it alone or threads it
through child states / speculative calls (`Rec.renderIn`, `precedenceScan`); this includes the plugin rules of
`Mistune.Model.InlinePlugins` (`strikethrough`, `mark`, `insert`, `superscript`, `subscript`, `inline_spoiler` render
children through `renderChildren`; `url_link`, `text` go through `processTextC`; `inline_math`, `ruby` only append
tokens — `_parse_ruby_link` READS `env["ref_links"]`).  Hence every reflexive and transitive
relation `R` on `env` values that `parseInlineFootnote` respects holds between the `env` before and after
`inlineParseEnv`, `iterRenderEnv`, `renderState`.
-/
import Mistune.Model.Hooks
import MistuneProofs.EnvRel
namespace Mistune
namespace Model
namespace Inl
open Blk (Sat)

/-- a relation on `env` values that is reflexive, transitive and respected by the one inline handler that writes `env` -/
structure InlEnvRel (cfg : MdCfg) (R : Json → Json → Prop) : Prop where
  refl : ∀ e, R e e
  trans : ∀ {a b c}, R a b → R b c → R a c
  footnote : ∀ m st r st', parseInlineFootnote cfg m st = .ok (r, st') → R st.env st'.env

/-- the contract of the recursive entry points with respect to `R` -/
structure RecRel (R : Json → Json → Prop) (Rc : Rec) : Prop where
  renderSt : ∀ st, Sat (fun st' => R st.env st'.env) (Rc.renderSt st)
  call : ∀ name m st, Sat (fun res => R st.env res.2.env) (Rc.call name m st)

/-! ### state helpers keep `env` -/

namespace InlineState
@[simp] theorem appendToken_env (st : InlineState) (t : Json) : (st.appendToken t).env = st.env := rfl
@[simp] theorem setSrc_env (st : InlineState) (s : Str) : (st.setSrc s).env = st.env := rfl
@[simp] theorem setSrcOf_env (st o : InlineState) : (st.setSrcOf o).env = st.env := rfl
@[simp] theorem copy_env (st : InlineState) : st.copy.env = st.env := rfl
end InlineState

@[simp] theorem processText_env (text : Str) (st : InlineState) : (processText text st).env = st.env := rfl

theorem abbrLoop_env (ref : Json) (keys : List Str) :
    ∀ (fuel : Nat) (rest : Str) (atZero : Bool) (st : InlineState),
      Sat (fun st' => st'.env = st.env) (abbrLoop ref keys fuel rest atZero st) := by
  intro fuel
  induction fuel with
  | zero => intro rest atZero st; unfold abbrLoop; exact Sat.err
  | succ fuel ih =>
    intro rest atZero st
    unfold abbrLoop
    extract_lets finish
    have hfin : finish.env = st.env := by
      show (if _ then _ else _ : InlineState).env = _
      split
      · rfl
      · split <;> rfl
    clear_value finish
    split
    · exact Sat.ok hfin
    · split
      · exact Sat.ok hfin
      · extract_lets st1
        have h1 : st1.env = st.env := by
          show (if _ then _ else _ : InlineState).env = _
          split <;> rfl
        clear_value st1
        split
        · exact Sat.err
        · split
          · exact Sat.err
          · extract_lets st2
            exact (ih _ _ _).mono (fun a ha => by rw [ha]; exact h1)

theorem abbrProcessText_env (text : Str) (st : InlineState) :
    Sat (fun st' => st'.env = st.env) (abbrProcessText text st) := by
  unfold abbrProcessText
  extract_lets ref
  split
  · exact Sat.ok rfl
  · split
    rename_i text1 st1 heq
    have h1 : st1.env = st.env := by
      split at heq
      · split at heq
        · cases heq; rfl
        · cases heq; rfl
      · cases heq; rfl
    exact (abbrLoop_env _ _ _ _ _ _).mono (fun a ha => by rw [ha]; exact h1)

theorem processTextC_env (cfg : MdCfg) (text : Str) (st : InlineState) :
    Sat (fun st' => st'.env = st.env) (processTextC cfg text st) := by
  unfold processTextC
  split
  · exact abbrProcessText_env _ _
  · exact Sat.ok rfl

theorem addAutoLink_env (cfg : MdCfg) (url text : Str) (st : InlineState) :
    Sat (fun st' => st'.env = st.env) (addAutoLink cfg url text st) := by
  unfold addAutoLink
  exact Sat.bind (Sat.true _) (fun u _ => Sat.pure rfl)

/-! ### handlers that do not touch `env` -/

theorem parseEscape_env (cfg : MdCfg) (m : RxMatch) (st : InlineState) :
    Sat (fun res => res.2.env = st.env) (parseEscape cfg m st) := Sat.ok rfl

theorem parseCodespan_env (m : RxMatch) (st : InlineState) :
    Sat (fun res => res.2.env = st.env) (parseCodespan m st) := by
  unfold parseCodespan
  extract_lets marker pos
  split <;> exact Sat.ok rfl

theorem parseLinebreak_env (m : RxMatch) (st : InlineState) :
    Sat (fun res => res.2.env = st.env) (parseLinebreak m st) := Sat.ok rfl

theorem parseSoftbreak_env (m : RxMatch) (st : InlineState) :
    Sat (fun res => res.2.env = st.env) (parseSoftbreak m st) := Sat.ok rfl

theorem parseInlineHtml_env (m : RxMatch) (st : InlineState) :
    Sat (fun res => res.2.env = st.env) (parseInlineHtml m st) := by
  unfold parseInlineHtml
  extract_lets endPos html st1 st2
  refine Sat.ok ?_
  show st2.env = st.env
  show (if _ then _ else _ : InlineState).env = _
  split
  · rfl
  · split <;> rfl

theorem parseAutoLink_env (cfg : MdCfg) (m : RxMatch) (st : InlineState) :
    Sat (fun res => res.2.env = st.env) (parseAutoLink cfg m st) := by
  unfold parseAutoLink
  extract_lets text pos
  split
  · exact Sat.bind (processTextC_env _ _ _) (fun a ha => Sat.pure ha)
  · exact Sat.bind (addAutoLink_env _ _ _ _) (fun a ha => Sat.pure ha)

theorem parseAutoEmail_env (cfg : MdCfg) (m : RxMatch) (st : InlineState) :
    Sat (fun res => res.2.env = st.env) (parseAutoEmail cfg m st) := by
  unfold parseAutoEmail
  extract_lets text pos
  split
  · exact Sat.bind (processTextC_env _ _ _) (fun a ha => Sat.pure ha)
  · exact Sat.bind (addAutoLink_env _ _ _ _) (fun a ha => Sat.pure ha)

/-! ### plugin handlers that do not touch `env` (`Mistune.Model.InlinePlugins`) -/

theorem listFoldl_appendToken_env (l : List Json) (st : InlineState) :
    (l.foldl (fun s t => s.appendToken t) st).env = st.env := by
  induction l generalizing st with
  | nil => rfl
  | cons x xs ih => rw [List.foldl_cons, ih]; rfl

/-- `url.parse_url_link` -/
theorem parseUrlLink_env (cfg : MdCfg) (m : RxMatch) (st : InlineState) :
    Sat (fun res => res.2.env = st.env) (parseUrlLink cfg m st) := by
  unfold parseUrlLink
  extract_lets text pos
  split
  · exact Sat.bind (processTextC_env _ _ _) (fun a ha => Sat.pure ha)
  · exact Sat.bind (Sat.true _) (fun u _ => Sat.pure rfl)

/-- `math.parse_inline_math` -/
theorem parseInlineMath_env (cfg : MdCfg) (m : RxMatch) (st : InlineState) :
    Sat (fun res => res.2.env = st.env) (parseInlineMath cfg m st) := Sat.ok rfl

/-- `speedup.parse_text` -/
theorem parseText_env (cfg : MdCfg) (m : RxMatch) (st : InlineState) :
    Sat (fun res => res.2.env = st.env) (parseText cfg m st) := by
  unfold parseText
  extract_lets text text2
  exact Sat.bind (processTextC_env _ _ _) (fun a ha => Sat.pure ha)

/-- the `while True` loop of `ruby.parse_ruby` -/
theorem rubyLoop_env (cfg : MdCfg) : ∀ (fuel : Nat) (m : RxMatch) (st : InlineState),
    Sat (fun res => res.2.2.env = st.env) (rubyLoop cfg fuel m st) := by
  intro fuel
  induction fuel with
  | zero => intro m st; unfold rubyLoop; exact Sat.err
  | succ fuel ih =>
    intro m st
    unfold rubyLoop
    refine Sat.bind (Sat.true _) (fun tokens _ => ?_)
    extract_lets endPos
    split
    · exact Sat.pure rfl
    · exact (ih _ _).mono (fun a ha => ha.trans (listFoldl_appendToken_env _ _))

/-- `ruby._parse_ruby_link` (READS `env["ref_links"]`, writes nothing) -/
theorem parseRubyLink_env (cfg : MdCfg) (st : InlineState) (pos : Nat) (tokens : List Json) :
    Sat (fun res => res.2.env = st.env) (parseRubyLink cfg st pos tokens) := by
  intro a ha
  unfold parseRubyLink at ha
  simp only [bind, Except.bind, pure, Except.pure] at ha
  repeat' split at ha
  all_goals first
    | (cases ha; done)
    | (cases ha; rfl)
    | (cases ha; exact listFoldl_appendToken_env _ _)

/-- `ruby.parse_ruby` -/
theorem parseRuby_env (cfg : MdCfg) (m : RxMatch) (st : InlineState) :
    Sat (fun res => res.2.env = st.env) (parseRuby cfg m st) := by
  unfold parseRuby
  refine Sat.bind (rubyLoop_env cfg _ m st) ?_
  rintro ⟨tokens, endPos, st1⟩ h1
  dsimp only at h1 ⊢
  have hk : ∀ x : Option Nat × InlineState, x.2.env = st.env →
      Sat (fun (res : Option Nat × InlineState) => res.2.env = st.env)
        (if posTruthy x.1 = true then pure (x.1, x.2)
          else pure (some endPos, List.foldl (fun s t => s.appendToken t) x.2 tokens)) := by
    rintro ⟨linkPos, st2⟩ h2
    dsimp only at h2 ⊢
    split
    · exact Sat.pure h2
    · exact Sat.pure ((listFoldl_appendToken_env _ _).trans h2)
  split
  · exact Sat.bind ((parseRubyLink_env cfg st1 endPos tokens).mono (fun a ha => ha.trans h1)) hk
  · exact Sat.bind (Sat.pure (P := fun (x : Option Nat × InlineState) => x.2.env = st.env) h1) hk

/-! ### handlers parameterised by the recursive entry points -/

section rel
variable {cfg : MdCfg} {R : Json → Json → Prop} (hR : InlEnvRel cfg R)
include hR

theorem Sat.relOfEnvI {st : InlineState} {e : HRes}
    (h : Sat (fun res => res.2.env = st.env) e) : Sat (fun res => R st.env res.2.env) e :=
  h.mono (fun a ha => by rw [ha]; exact hR.refl _)

omit hR in
theorem renderIn_rel {Rc : Rec} (hRc : RecRel R Rc) (child st : InlineState) (hc : child.env = st.env) :
    Sat (fun res => R st.env res.2.env) (Rc.renderIn child st) := by
  unfold Rec.renderIn
  refine Sat.bind (hRc.renderSt child) (fun c h => ?_)
  refine Sat.pure ?_
  show R st.env c.env
  rw [← hc]; exact h

/-! #### plugin handlers that render children (`Mistune.Model.InlinePlugins`) -/

omit hR in
/-- `children = inline.render(new_state)` of the plugin handlers -/
theorem renderChildren_rel {Rc : Rec} (hRc : RecRel R Rc) (child st : InlineState) (hc : child.env = st.env) :
    Sat (fun res => R st.env res.2.env) (renderChildren Rc child st) := renderIn_rel hRc child st hc

/-- `formatting._parse_to_end` -/
theorem parseToEnd_rel {Rc : Rec} (hRc : RecRel R Rc) (tokType : String) (endPattern : Rx) (m : RxMatch)
    (st : InlineState) : Sat (fun res => R st.env res.2.env) (parseToEnd Rc tokType endPattern m st) := by
  unfold parseToEnd
  extract_lets pos
  split
  · exact Sat.pure (hR.refl _)
  · refine Sat.bind (renderChildren_rel hRc _ st rfl) ?_
    rintro ⟨children, st1⟩ h1
    exact Sat.pure h1

theorem parseStrikethrough_rel {Rc : Rec} (hRc : RecRel R Rc) (m : RxMatch) (st : InlineState) :
    Sat (fun res => R st.env res.2.env) (parseStrikethrough cfg Rc m st) := parseToEnd_rel hR hRc _ _ m st

theorem parseMark_rel {Rc : Rec} (hRc : RecRel R Rc) (m : RxMatch) (st : InlineState) :
    Sat (fun res => R st.env res.2.env) (parseMark cfg Rc m st) := parseToEnd_rel hR hRc _ _ m st

theorem parseInsert_rel {Rc : Rec} (hRc : RecRel R Rc) (m : RxMatch) (st : InlineState) :
    Sat (fun res => R st.env res.2.env) (parseInsert cfg Rc m st) := parseToEnd_rel hR hRc _ _ m st

omit hR in
/-- `formatting._parse_script` (`superscript`, `subscript`) -/
theorem parseScript_rel {Rc : Rec} (hRc : RecRel R Rc) (tokType : String) (m : RxMatch) (st : InlineState) :
    Sat (fun res => R st.env res.2.env) (parseScript Rc tokType m st) := by
  unfold parseScript
  extract_lets text newState
  refine Sat.bind (renderChildren_rel hRc _ st rfl) ?_
  rintro ⟨children, st1⟩ h1
  exact Sat.pure h1

omit hR in
/-- `spoiler.parse_inline_spoiler` -/
theorem parseInlineSpoiler_rel {Rc : Rec} (hRc : RecRel R Rc) (m : RxMatch) (st : InlineState) :
    Sat (fun res => R st.env res.2.env) (parseInlineSpoiler cfg Rc m st) := by
  unfold parseInlineSpoiler
  extract_lets text newState
  refine Sat.bind (renderChildren_rel hRc _ st rfl) ?_
  rintro ⟨children, st1⟩ h1
  exact Sat.pure h1

omit hR in
theorem foldl_appendToken_env (l : Array Json) (st : InlineState) :
    (l.foldl (fun s t => s.appendToken t) st).env = st.env := by
  rw [← Array.foldl_toList]
  generalize l.toList = xs
  induction xs generalizing st with
  | nil => rfl
  | cons x xs ih => rw [List.foldl_cons, ih]; rfl

theorem precedenceScan_rel {Rc : Rec} (hRc : RecRel R Rc) (m : RxMatch) (st : InlineState) (endPos : Nat)
    (rules : List String) :
    Sat (fun res => R st.env res.2.env) (precedenceScan cfg Rc m st endPos rules) := by
  unfold precedenceScan
  extract_lets markPos
  refine Sat.bind (Sat.true _) (fun sc _ => ?_)
  split
  · exact Sat.pure (hR.refl _)
  · extract_lets ruleName
    refine Sat.bind (Sat.true _) (fun sc2 _ => ?_)
    split
    · exact Sat.pure (hR.refl _)
    · refine Sat.bind (hRc.call _ _ _) ?_
      rintro ⟨m2Pos, ns⟩ h
      have h' : R st.env ns.env := h
      dsimp only
      split
      · exact Sat.pure h'
      · split
        · exact Sat.pure h'
        · refine Sat.pure ?_
          show R st.env (InlineState.env (Array.foldl _ _ _))
          rw [foldl_appendToken_env]; exact h'

omit hR in
theorem parseLinkToken_rel {Rc : Rec} (hRc : RecRel R Rc) (isImage : Bool) (text : Str) (attrs : Json)
    (st : InlineState) :
    Sat (fun res => R st.env res.2.env) (parseLinkToken Rc isImage text attrs st) := by
  unfold parseLinkToken
  extract_lets newState
  split
  · refine Sat.bind (renderIn_rel hRc _ st rfl) ?_
    rintro ⟨ch, st1⟩ h
    exact Sat.pure h
  · refine Sat.bind (renderIn_rel hRc _ st rfl) ?_
    rintro ⟨ch, st1⟩ h
    exact Sat.pure h

theorem parseLinkRef_rel {Rc : Rec} (hRc : RecRel R Rc) (isImage : Bool) (text : Str) (label : Option Str)
    (endPos : Nat) (st : InlineState) :
    Sat (fun res => R st.env res.2.env) (parseLinkRef Rc isImage text label endPos st) := by
  unfold parseLinkRef
  split
  · exact Sat.ok (hR.refl _)
  · split
    · exact Sat.ok (hR.refl _)
    · split
      · exact Sat.ok (hR.refl _)
      · extract_lets key
        split
        · exact Sat.ok (hR.refl _)
        · split
          · exact Sat.ok (hR.refl _)
          · extract_lets title jp
            have hjp : ∀ u, Sat (fun res => R st.env res.2.env) (jp u) := by
              intro u
              unfold jp; dsimp -zeta only
              extract_lets attrs
              refine Sat.bind (parseLinkToken_rel hRc _ _ _ _) ?_
              rintro ⟨token, st1⟩ h
              exact Sat.pure h
            clear_value jp
            split
            · exact Sat.bind (Sat.true _) (fun u _ => hjp u)
            · exact Sat.bind (Sat.true _) (fun u _ => hjp u)

theorem parseLink_rel {Rc : Rec} (hRc : RecRel R Rc) (m : RxMatch) (st : InlineState) :
    Sat (fun res => R st.env res.2.env) (parseLink cfg Rc m st) := by
  unfold parseLink
  extract_lets pos marker lab label jp
  have hjp : ∀ c0, Sat (fun res => R st.env res.2.env) (jp c0) := by
    intro c0
    unfold jp; dsimp -zeta only
    clear jp
    extract_lets isImage jp2
    have hjp2 : ∀ te, Sat (fun res => R st.env res.2.env) (jp2 te) := by
      intro te
      unfold jp2; try dsimp -zeta only
      split
      · exact Sat.pure (hR.refl _)
      · split
        · exact Sat.pure (hR.refl _)
        · refine Sat.bind (precedenceScan_rel hR hRc _ _ _ _) ?_
          rintro ⟨precPos, st1⟩ h1
          have h1' : R st.env st1.env := h1
          have href : ∀ t l e, Sat (fun res => R st.env res.2.env) (parseLinkRef Rc isImage t l e st1) :=
            fun t l e => (parseLinkRef_rel hR hRc _ t l e st1).mono (fun a ha => hR.trans h1' ha)
          dsimp only
          split
          · exact Sat.pure h1'
          · split
            · split
              · refine Sat.bind (Sat.true _) (fun o _ => ?_)
                split
                · split
                  · refine Sat.bind (parseLinkToken_rel hRc _ _ _ _) ?_
                    rintro ⟨token, st2⟩ h2
                    exact Sat.pure (hR.trans h1' h2)
                  · exact href _ _ _
                · exact href _ _ _
              · split
                · split
                  · split
                    · exact href _ _ _
                    · exact href _ _ _
                  · exact href _ _ _
                · exact href _ _ _
            · exact href _ _ _
    clear_value jp2 label lab
    split
    · exact Sat.pure (hR.refl _)
    · split
      · exact Sat.pure (hR.refl _)
      · split
        · exact Sat.bind (Sat.true _) (fun te _ => hjp2 te)
        · exact Sat.bind (Sat.true _) (fun te _ => hjp2 te)
  clear_value jp marker
  split
  · exact Sat.bind (Sat.true _) (fun c _ => hjp c)
  · exact Sat.bind (Sat.true _) (fun c _ => hjp c)

theorem parseEmphasis_rel {Rc : Rec} (hRc : RecRel R Rc) (m : RxMatch) (st : InlineState) :
    Sat (fun res => R st.env res.2.env) (parseEmphasis cfg Rc m st) := by
  unfold parseEmphasis
  extract_lets pos marker mlen jp
  split
  · exact Sat.pure (hR.refl _)
  split
  · exact Sat.pure (hR.refl _)
  have hjp : ∀ endRe, Sat (fun res => R st.env res.2.env) (jp endRe) := by
    intro endRe
    unfold jp; dsimp -zeta only
    split
    · exact Sat.pure (hR.refl _)
    · extract_lets endPos text
      refine Sat.bind (precedenceScan_rel hR hRc _ _ _ _) ?_
      rintro ⟨precPos, st1⟩ h1
      have h1' : R st.env st1.env := h1
      dsimp only
      split
      · exact Sat.pure h1'
      · split
        · refine Sat.bind (renderIn_rel hRc _ st1 rfl) ?_
          rintro ⟨ch, st2⟩ h2
          exact Sat.pure (hR.trans h1' h2)
        · split
          · refine Sat.bind (renderIn_rel hRc _ st1 rfl) ?_
            rintro ⟨ch, st2⟩ h2
            exact Sat.pure (hR.trans h1' h2)
          · refine Sat.bind (renderIn_rel hRc _ st1 rfl) ?_
            rintro ⟨ch, st2⟩ h2
            exact Sat.pure (hR.trans h1' h2)
  clear_value jp
  split
  · exact Sat.bind (Sat.true _) (fun c _ => hjp c)
  · exact Sat.bind (Sat.true _) (fun c _ => hjp c)

theorem parseMethod_rel {Rc : Rec} (hRc : RecRel R Rc) (name : String) (m : RxMatch) (st : InlineState) :
    Sat (fun res => R st.env res.2.env) (parseMethod cfg Rc name m st) := by
  unfold parseMethod
  split
  · exact Sat.err
  split
  · exact Sat.relOfEnvI hR (parseEscape_env _ _ _)
  · exact Sat.relOfEnvI hR (parseCodespan_env _ _)
  · exact parseEmphasis_rel hR hRc _ _
  · exact parseLink_rel hR hRc _ _
  · exact Sat.relOfEnvI hR (parseAutoLink_env _ _ _)
  · exact Sat.relOfEnvI hR (parseAutoEmail_env _ _ _)
  · exact Sat.relOfEnvI hR (parseInlineHtml_env _ _)
  · exact Sat.relOfEnvI hR (parseLinebreak_env _ _)
  · exact Sat.relOfEnvI hR (parseSoftbreak_env _ _)
  · exact fun a ha => hR.footnote _ _ _ _ ha
  · exact parseStrikethrough_rel hR hRc _ _
  · exact parseMark_rel hR hRc _ _
  · exact parseInsert_rel hR hRc _ _
  · exact parseScript_rel hRc _ _ _
  · exact parseScript_rel hRc _ _ _
  · exact Sat.relOfEnvI hR (parseUrlLink_env _ _ _)
  · exact Sat.relOfEnvI hR (parseInlineMath_env _ _ _)
  · exact Sat.relOfEnvI hR (parseText_env _ _ _)
  · exact Sat.relOfEnvI hR (parseRuby_env _ _ _)
  · exact parseInlineSpoiler_rel hRc _ _
  · exact Sat.err

theorem parseLoop_rel {Rc : Rec} (hRc : RecRel R Rc) (sc : List (String × Rx)) :
    ∀ (fuel pos : Nat) (st : InlineState),
      Sat (fun res => R st.env res.2.env) (parseLoop cfg Rc sc fuel pos st) := by
  intro fuel
  induction fuel with
  | zero => intro pos st; unfold parseLoop; exact Sat.err
  | succ fuel ih =>
    intro pos st
    unfold parseLoop
    split
    · split
      · exact Sat.ok (hR.refl _)
      · rename_i name m hscan
        extract_lets endPos pos1 jp
        have hjp : ∀ st1 : InlineState, st1.env = st.env → Sat (fun res => R st.env res.2.env) (jp st1) := by
          intro st1 h1
          unfold jp; dsimp -zeta only
          refine Sat.bind (parseMethod_rel hR hRc _ _ _) ?_
          rintro ⟨newPos, st2⟩ h2
          have h2' : R st.env st2.env := by rw [← h1]; exact h2
          have hstep : ∀ p t, Sat (fun res => R st.env res.2.env)
              (processTextC cfg t st2 >>= fun s => parseLoop cfg Rc sc fuel p s) := by
            intro p t
            refine Sat.bind (processTextC_env _ _ _) (fun s hs => ?_)
            exact (ih _ _).mono (fun a ha => hR.trans (by rw [hs]; exact h2') ha)
          dsimp only
          split
          · split
            · split
              · exact Sat.err
              · exact (ih _ _).mono (fun a ha => hR.trans h2' ha)
            · exact hstep _ _
          · exact hstep _ _
        clear_value jp
        split
        · exact Sat.bind (processTextC_env _ _ _) (fun a ha => hjp a ha)
        · simp only [pure_bind]
          exact hjp _ rfl
    · exact Sat.ok (hR.refl _)

theorem parse_rel {Rc : Rec} (hRc : RecRel R Rc) (st : InlineState) :
    Sat (fun st' => R st.env st'.env) (parse cfg Rc st) := by
  unfold parse
  refine Sat.bind (Sat.true _) (fun sc _ => ?_)
  refine Sat.bind (parseLoop_rel hR hRc sc _ _ st) ?_
  rintro ⟨pos, st1⟩ h1
  have h1' : R st.env st1.env := h1
  dsimp only
  split
  · exact (processTextC_env _ _ _).mono (fun a ha => by rw [ha]; exact h1')
  · split
    · exact (processTextC_env _ _ _).mono (fun a ha => by rw [ha]; exact h1')
    · exact Sat.pure h1'

theorem renderSt_rel {Rc : Rec} (hRc : RecRel R Rc) (st : InlineState) :
    Sat (fun st' => R st.env st'.env) (renderSt cfg Rc st) := parse_rel hR hRc st

end rel

/-! ### the recursive entry points and the whole inline pass -/

theorem recAt_rel (cfg : MdCfg) (R : Json → Json → Prop) (hR : InlEnvRel cfg R) :
    ∀ fuel, RecRel R (recAt cfg fuel) := by
  intro fuel
  induction fuel with
  | zero => exact ⟨fun _ => Sat.err, fun _ _ _ => Sat.err⟩
  | succ fuel ih =>
    exact ⟨fun st => renderSt_rel hR ih st, fun name m st => parseMethod_rel hR ih name m st⟩

end Inl

theorem inlineParseEnv_rel (cfg : MdCfg) (R : Json → Json → Prop) (hR : Inl.InlEnvRel cfg R) (env : Json)
    (src : Str) : Blk.Sat (fun res => R env res.2) (Model.inlineParseEnv cfg env src) := by
  unfold Model.inlineParseEnv Inl.inlineParseEnv
  split
  · exact Blk.Sat.bind (Q := fun _ => False) Blk.Sat.throw (fun _ h => h.elim)
  · dsimp only
    refine Blk.Sat.bind (Inl.renderSt_rel hR (Inl.recAt_rel cfg R hR _) _) (fun st1 h1 => ?_)
    exact Blk.Sat.pure h1

namespace Hooks
open Blk (Sat)

theorem foldlM_rel {α : Type} {R : Json → Json → Prop} (hrefl : ∀ e, R e e)
    (htrans : ∀ {a b c}, R a b → R b c → R a c)
    (f : List Json × Json → α → Except PyErr (List Json × Json))
    (hf : ∀ acc t, Sat (fun acc' => R acc.2 acc'.2) (f acc t)) :
    ∀ (toks : List α) (acc : List Json × Json), Sat (fun res => R acc.2 res.2) (toks.foldlM f acc) := by
  intro toks
  induction toks with
  | nil => intro acc; rw [List.foldlM_nil]; exact Sat.pure (hrefl _)
  | cons t toks ih =>
    intro acc
    rw [List.foldlM_cons]
    exact Sat.bind (hf acc t) (fun a ha => (ih a).mono (fun b hb => htrans ha hb))

theorem iterRenderEnv_rel (cfg : MdCfg) (R : Json → Json → Prop) (hR : Inl.InlEnvRel cfg R) :
    ∀ (fuel : Nat) (env : Json) (toks : List Json),
      Sat (fun res => R env res.2) (iterRenderEnv cfg fuel env toks) := by
  intro fuel
  induction fuel with
  | zero => intro env toks; unfold iterRenderEnv; exact Sat.err
  | succ fuel ih =>
    intro env toks
    unfold iterRenderEnv
    refine foldlM_rel hR.refl hR.trans _ ?_ toks ([], env)
    rintro ⟨out, env1⟩ t
    dsimp only
    split
    · refine Sat.bind (ih _ _) ?_
      rintro ⟨cs, env2⟩ h2
      exact Sat.pure h2
    · split
      · refine Sat.bind (inlineParseEnv_rel cfg R hR _ _) ?_
        rintro ⟨cs, env2⟩ h2
        exact Sat.pure h2
      · exact Sat.pure (hR.refl _)

theorem renderState_rel (cfg : MdCfg) (R : Json → Json → Prop) (hR : Inl.InlEnvRel cfg R) (toks : List Json)
    (env : Json) : Sat (fun res => R env res.2) (renderState cfg toks env) :=
  iterRenderEnv_rel cfg R hR _ _ _

end Hooks
end Model
end Mistune
