/-
C05 (the token tree obeys the documented grammar), for the CONCRETE parser model: shared framework.

* `Sat P e`: a normal result of the computation `e` satisfies `P` (nothing is said about errors);
* `wfSeq` is monotone in its fuel, splits over `++`, and its per-token check `wfTok`.
-/
import Mistune.Model.Doc
import MistuneProofs.C05
namespace Mistune

/-- a normal result of `e` satisfies `P` -/
def Sat {α : Type} (P : α → Prop) (e : Except PyErr α) : Prop := ∀ a, e = .ok a → P a

theorem Sat.bind {α β : Type} {Q : α → Prop} {P : β → Prop} {e : Except PyErr α} {f : α → Except PyErr β}
    (h1 : Sat Q e) (h2 : ∀ a, Q a → Sat P (f a)) : Sat P (e >>= f) := by
  intro b hb
  cases e with
  | ok a => exact h2 a (h1 a rfl) b hb
  | error err => cases hb

theorem Sat.ok {α : Type} {P : α → Prop} {a : α} (h : P a) : Sat P (.ok a : Except PyErr α) := by
  intro b hb; cases hb; exact h

theorem Sat.pure {α : Type} {P : α → Prop} {a : α} (h : P a) : Sat P (pure a : Except PyErr α) := by
  intro b hb; cases hb; exact h

theorem Sat.err {α : Type} {P : α → Prop} {e : PyErr} : Sat P (.error e : Except PyErr α) := by
  intro b hb; cases hb

theorem Sat.throw {α : Type} {P : α → Prop} {e : PyErr} : Sat P (throw e : Except PyErr α) := by
  intro b hb; cases hb

theorem Sat.mono {α : Type} {Q P : α → Prop} {e : Except PyErr α} (h : Sat Q e) (hqp : ∀ a, Q a → P a) :
    Sat P e := fun a ha => hqp a (h a ha)

theorem Sat.triv {α : Type} (e : Except PyErr α) : Sat (fun _ => True) e := fun _ _ => trivial

/-- every reference-link definition of `env["ref_links"]` has a string `url` (what `parse_ref_link` stores and the
inline `parse_link` reads) -/
def EnvOk (env : Json) : Prop :=
  ∀ refLinks, env.get? "ref_links" = some refLinks → ∀ key e, refLinks.get? key = some e →
    ∀ u, e.get? "url" = some u → ∃ s, u = .str s

/-- the per-token check of `wfSeq` with `rec` for the children -/
theorem wfSeq_succ (fuel : Nat) (toks : List Json) (ctx : TokCtx) (d mx : Nat) :
    wfSeq (fuel + 1) toks ctx d mx = toks.all (fun t => wfSeq (fuel + 1) [t] ctx d mx) := by
  simp only [wfSeq, List.all_cons, List.all_nil, Bool.and_true]

theorem wfSeq_nil (fuel : Nat) (ctx : TokCtx) (d mx : Nat) : wfSeq (fuel + 1) [] ctx d mx = true := by
  simp [wfSeq]

theorem wfSeq_iff (fuel : Nat) (toks : List Json) (ctx : TokCtx) (d mx : Nat) :
    wfSeq (fuel + 1) toks ctx d mx = true ↔ ∀ t ∈ toks, wfSeq (fuel + 1) [t] ctx d mx = true := by
  rw [wfSeq_succ, List.all_eq_true]

theorem wfSeq_append (fuel : Nat) (a b : List Json) (ctx : TokCtx) (d mx : Nat) :
    wfSeq (fuel + 1) (a ++ b) ctx d mx = (wfSeq (fuel + 1) a ctx d mx && wfSeq (fuel + 1) b ctx d mx) := by
  simp only [wfSeq, List.all_append]

theorem wfSeq_mono : ∀ (fuel : Nat) (toks : List Json) (ctx : TokCtx) (d mx : Nat),
    wfSeq fuel toks ctx d mx = true → wfSeq (fuel + 1) toks ctx d mx = true := by
  intro fuel
  induction fuel with
  | zero => intro toks ctx d mx h; simp [wfSeq] at h
  | succ n ih =>
    intro toks ctx d mx h
    unfold wfSeq at h ⊢
    rw [List.all_eq_true] at h ⊢
    intro t ht
    have h1 := h t ht
    clear h
    revert h1
    split
    · split
      · simp only [Bool.and_eq_true]
        rintro ⟨h1, h2⟩
        refine ⟨h1, ?_⟩
        split
        · rename_i hc
          rw [if_pos hc] at h2
          exact ih _ _ _ _ h2
        · rfl
      · exact id
    · exact id

theorem wfSeq_mono_le {n m : Nat} (h : n ≤ m) (toks : List Json) (ctx : TokCtx) (d mx : Nat)
    (hw : wfSeq n toks ctx d mx = true) : wfSeq m toks ctx d mx = true := by
  induction h with
  | refl => exact hw
  | step _ ih => exact wfSeq_mono _ _ _ _ _ ih

/-! ### the attribute shape of core tokens (for C02: `refinedOk` of the render templates) -/

/-- values that are safe whatever a template does with them: numbers, booleans, `None` -/
def plainJ : Json → Bool
  | .num _ => true
  | .bool _ => true
  | .null => true
  | _ => false

/-- the `attrs` of a token of type `ty`: every value is plain, except `url` / `title` of links and images and `info`
of code blocks (document data, which the templates must escape) -/
def attrsShape (ty : String) : Option Json → Bool
  | some (.obj kv) => kv.all (fun p => plainJ p.2 ||
      ((ty == "link" || ty == "image") && (p.1 == "url" || p.1 == "title")) || (ty == "block_code" && p.1 == "info"))
  | _ => true

/-- the token types the covered handlers produce (core, and the inline plugins formatting / url / math / speedup) -/
def coreTys : List String :=
  ["paragraph", "block_text", "heading", "block_code", "block_html", "thematic_break", "blank_line", "block_quote",
   "list", "list_item", "text", "codespan", "inline_html", "emphasis", "strong", "link", "image", "linebreak",
   "softbreak", "footnote_ref",
   -- plugins formatting, math (inline): containers / a raw leaf without `attrs`
   "strikethrough", "mark", "insert", "superscript", "subscript", "inline_math", "block_math", "block_spoiler", "inline_spoiler"]

/-- every token of the tree has a core type and `attrs` of the shape `attrsShape`; fuel bounds the depth -/
def shp : Nat → Json → Bool
  | 0, _ => false
  | k + 1, t =>
    coreTys.contains t.type && attrsShape t.type (t.get? "attrs") &&
    (match t.get? "children" with
     | some (.arr cs) => cs.all (shp k)
     | _ => true)

def shpAll (k : Nat) (l : List Json) : Bool := l.all (shp k)

theorem shp_mono : ∀ (k : Nat) (t : Json), shp k t = true → shp (k + 1) t = true := by
  intro k
  induction k with
  | zero => intro t h; simp [shp] at h
  | succ k ih =>
    intro t h
    unfold shp at h ⊢
    simp only [Bool.and_eq_true] at h ⊢
    refine ⟨h.1, ?_⟩
    have h2 := h.2
    split
    · rename_i cs hcs
      rw [hcs] at h2
      simp only [List.all_eq_true] at h2 ⊢
      exact fun c hc => ih c (h2 c hc)
    · rfl

theorem shpAll_mono_le {n m : Nat} (h : n ≤ m) (l : List Json) (hl : shpAll n l = true) : shpAll m l = true := by
  induction h with
  | refl => exact hl
  | step _ ih =>
    unfold shpAll at ih ⊢
    rw [List.all_eq_true] at ih ⊢
    exact fun t ht => shp_mono _ t (ih t ht)

theorem shpAll_append (k : Nat) (a b : List Json) : shpAll k (a ++ b) = (shpAll k a && shpAll k b) := by
  simp only [shpAll, List.all_append]

/-- the shape depends on `type`, `attrs`, `children` only -/
theorem shp_congr (k : Nat) (t t' : Json) (h1 : t'.get? "type" = t.get? "type") (h2 : t'.get? "attrs" = t.get? "attrs")
    (h3 : t'.get? "children" = t.get? "children") : shp (k + 1) t' = shp (k + 1) t := by
  simp only [shp, Json.type, Json.getStr, h1, h2, h3]

end Mistune
