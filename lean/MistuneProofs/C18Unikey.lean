/-
C18 — `unikey`: idempotence, whitespace-run and case insensitivity.  Generic in the whitespace predicate
and the fold table, under decidable table conditions that `MistuneProofs.Oblig.Unicode` discharges for
the tables regenerated from the running CPython.
-/
import Mistune.Util
namespace Mistune

variable (isSp : Char → Bool)

/-- A word as produced by `split()`: non-empty, no whitespace. -/
def OkWord (w : Str) : Prop := w ≠ [] ∧ ∀ c ∈ w, isSp c = false

theorem splitGo_inv (s : Str) :
    (∀ c ∈ (splitGo isSp s).1, isSp c = false) ∧ (∀ w ∈ (splitGo isSp s).2, OkWord isSp w) := by
  induction s with
  | nil => simp [splitGo]
  | cons c r ih =>
    simp only [splitGo]
    by_cases hc : isSp c = true
    · simp only [hc, if_true]
      refine ⟨by simp, ?_⟩
      by_cases he : (splitGo isSp r).1.isEmpty = true
      · simp only [he, if_true]; exact ih.2
      · simp only [he]
        intro w hw
        simp at hw
        rcases hw with h | h
        · subst h; exact ⟨by simpa using he, ih.1⟩
        · exact ih.2 w h
    · simp only [hc]
      refine ⟨?_, ih.2⟩
      intro x hx
      simp at hx
      rcases hx with h | h
      · subst h; simpa using hc
      · exact ih.1 x h

theorem splitWs_ok (s : Str) : ∀ w ∈ splitWs isSp s, OkWord isSp w := by
  have h := splitGo_inv isSp s
  unfold splitWs
  by_cases he : (splitGo isSp s).1.isEmpty = true
  · simp only [he, if_true]; exact h.2
  · simp only [he]
    intro w hw; simp at hw
    rcases hw with e | e
    · subst e; exact ⟨by simpa using he, h.1⟩
    · exact h.2 w e

/-- scanning a run of non-space characters prepends it to the word in progress -/
theorem splitGo_word_append (w t : Str) (hw : ∀ c ∈ w, isSp c = false) :
    splitGo isSp (w ++ t) = (w ++ (splitGo isSp t).1, (splitGo isSp t).2) := by
  induction w with
  | nil => simp
  | cons c r ih =>
    have hc : isSp c = false := hw c (by simp)
    have := ih (fun x hx => hw x (by simp [hx]))
    simp [splitGo, hc, this]

theorem splitGo_joinSp (W : List Str) (h : ∀ w ∈ W, OkWord isSp w) (h0 : isSp ' ' = true) :
    splitGo isSp (joinSp W) = match W with | [] => ([], []) | w :: ws => (w, ws) := by
  induction W with
  | nil => simp [joinSp, splitGo]
  | cons w ws ih =>
    have hw := h w (by simp)
    have ihs := ih (fun x hx => h x (by simp [hx]))
    cases ws with
    | nil =>
      simp only [joinSp]
      have := splitGo_word_append isSp w [] hw.2
      simpa [splitGo] using this
    | cons w2 ws2 =>
      simp only [joinSp]
      rw [splitGo_word_append isSp w _ hw.2]
      simp only [splitGo, h0, if_true]
      simp only at ihs
      rw [ihs]
      have hw2 := h w2 (by simp)
      have : w2.isEmpty = false := by
        cases w2 with
        | nil => exact absurd rfl hw2.1
        | cons _ _ => rfl
      simp [this]

/-- **`split()` inverts `" ".join` on well-formed word lists.** -/
theorem splitWs_joinSp (W : List Str) (h : ∀ w ∈ W, OkWord isSp w) (h0 : isSp ' ' = true) :
    splitWs isSp (joinSp W) = W := by
  unfold splitWs
  rw [splitGo_joinSp isSp W h h0]
  cases W with
  | nil => simp
  | cons w ws =>
    have hw := h w (by simp)
    cases w with
    | nil => exact absurd rfl hw.1
    | cons _ _ => simp

theorem joinSp_ne_nil (w : Str) (ws : List Str) (hw : w ≠ []) : joinSp (w :: ws) ≠ [] := by
  cases ws with
  | nil => simpa [joinSp]
  | cons a b => cases w with
    | nil => exact absurd rfl hw
    | cons _ _ => simp [joinSp]

theorem joinSp_head (W : List Str) (h : ∀ w ∈ W, OkWord isSp w) :
    ∀ c r, joinSp W = c :: r → isSp c = false := by
  intro c r e
  cases W with
  | nil => simp [joinSp] at e
  | cons w ws =>
    have hw := h w (by simp)
    cases w with
    | nil => exact absurd rfl hw.1
    | cons a b =>
      have : c = a := by
        cases ws with
        | nil => simp [joinSp] at e; exact e.1.symm
        | cons _ _ => simp [joinSp] at e; exact e.1.symm
      subst this; exact hw.2 c (by simp)

theorem joinSp_last (W : List Str) (h : ∀ w ∈ W, OkWord isSp w) :
    ∀ c, (joinSp W).getLast? = some c → isSp c = false := by
  induction W with
  | nil => intro c e; simp [joinSp] at e
  | cons w ws ih =>
    intro c e
    have hw := h w (by simp)
    cases ws with
    | nil =>
      simp only [joinSp] at e
      exact hw.2 c (List.mem_of_getLast? e)
    | cons w2 ws2 =>
      simp only [joinSp] at e
      have hne : joinSp (w2 :: ws2) ≠ [] := joinSp_ne_nil w2 ws2 (h w2 (by simp)).1
      have : (w ++ ' ' :: joinSp (w2 :: ws2)).getLast? = (joinSp (w2 :: ws2)).getLast? := by
        rw [List.getLast?_append]
        cases hj : joinSp (w2 :: ws2) with
        | nil => exact absurd hj hne
        | cons a b => cases h' : (a :: b).getLast? with
          | none => simp at h'
          | some z => simp [h']
      rw [this] at e
      exact ih (fun x hx => h x (by simp [hx])) c e

theorem dropWhile_head_false (p : Char → Bool) (s : Str) (h : ∀ c r, s = c :: r → p c = false) :
    s.dropWhile p = s := by
  cases s with
  | nil => rfl
  | cons c r => simp [List.dropWhile, h c r rfl]

/-- `.strip()` after `" ".join(s.split())` is a no-op. -/
theorem stripWs_joinSp (W : List Str) (h : ∀ w ∈ W, OkWord isSp w) : stripWs isSp (joinSp W) = joinSp W := by
  unfold stripWs
  rw [dropWhile_head_false isSp _ (joinSp_head isSp W h)]
  rw [dropWhile_head_false isSp (joinSp W).reverse]
  · simp
  · intro c r e
    have : (joinSp W).getLast? = some c := by
      have := congrArg List.head? e
      simpa [List.head?_reverse] using this
    exact joinSp_last isSp W h c this

variable (fold : Char → Str)

theorem flatMap_joinSp (W : List Str) (h0 : fold ' ' = [' ']) :
    (joinSp W).flatMap fold = joinSp (W.map (fun w => w.flatMap fold)) := by
  induction W with
  | nil => simp [joinSp]
  | cons w ws ih =>
    cases ws with
    | nil => simp [joinSp]
    | cons w2 ws2 =>
      simp only [joinSp, List.map_cons] at ih ⊢
      simp [List.flatMap_append, h0, ih]

/-- Table conditions for `unikey` (decided on the regenerated tables). -/
structure FoldOk : Prop where
  sp_space : isSp ' ' = true
  sp_fix : ∀ c, isSp c = true → fold c = [c]
  nonsp_ne : ∀ c, isSp c = false → fold c ≠ []
  nonsp_out : ∀ c, isSp c = false → ∀ x ∈ fold c, isSp x = false
  out_fix : ∀ c, ∀ x ∈ fold c, fold x = [x]

theorem fold_word_ok (H : FoldOk isSp fold) (w : Str) (hw : OkWord isSp w) :
    OkWord isSp (w.flatMap fold) := by
  constructor
  · cases w with
    | nil => exact absurd rfl hw.1
    | cons c r =>
      have := H.nonsp_ne c (hw.2 c (by simp))
      simp [this]
  · intro x hx
    obtain ⟨c, hc, hx⟩ := List.mem_flatMap.1 hx
    exact H.nonsp_out c (hw.2 c hc) x hx

theorem flatMap_fix (s : Str) (h : ∀ x ∈ s, fold x = [x]) : s.flatMap fold = s := by
  induction s with
  | nil => rfl
  | cons c r ih =>
    simp [h c (by simp), ih (fun x hx => h x (by simp [hx]))]

/-- Normal form of `unikey`: the folded words joined by single spaces. -/
theorem unikey_nf (H : FoldOk isSp fold) (s : Str) :
    unikey isSp fold s = joinSp ((splitWs isSp s).map (fun w => w.flatMap fold)) := by
  unfold unikey
  rw [stripWs_joinSp isSp _ (splitWs_ok isSp s)]
  exact flatMap_joinSp fold _ (H.sp_fix ' ' H.sp_space)

/-- **C18 (unikey, idempotence).** -/
theorem unikey_idem (H : FoldOk isSp fold) (s : Str) :
    unikey isSp fold (unikey isSp fold s) = unikey isSp fold s := by
  have hok : ∀ w ∈ (splitWs isSp s).map (fun w => w.flatMap fold), OkWord isSp w := by
    intro w hw
    obtain ⟨v, hv, e⟩ := List.mem_map.1 hw
    subst e; exact fold_word_ok isSp fold H v (splitWs_ok isSp s v hv)
  rw [unikey_nf isSp fold H s]
  rw [unikey_nf isSp fold H, splitWs_joinSp isSp _ hok H.sp_space]
  congr 1
  rw [List.map_map]
  apply List.map_congr_left
  intro w _
  simp only [Function.comp]
  apply flatMap_fix
  intro x hx
  obtain ⟨c, _, hx⟩ := List.mem_flatMap.1 hx
  exact H.out_fix c x hx

/-! ### whitespace insensitivity -/

theorem splitGo_append_nil (a t : Str) (ht : (splitGo isSp t).1 = []) :
    splitGo isSp (a ++ t) = ((splitGo isSp a).1, (splitGo isSp a).2 ++ (splitGo isSp t).2) := by
  induction a with
  | nil =>
    simp only [List.nil_append, splitGo]
    rw [← ht]
  | cons c r ih =>
    simp only [List.cons_append, splitGo, ih]
    by_cases hc : isSp c = true
    · simp only [hc, if_true]
      by_cases he : (splitGo isSp r).1.isEmpty = true <;> simp [he]
    · simp [hc]

theorem splitGo_spaces (sp b : Str) (hsp : sp ≠ []) (h : ∀ c ∈ sp, isSp c = true) :
    splitGo isSp (sp ++ b) = ([], splitWs isSp b) := by
  induction sp with
  | nil => exact absurd rfl hsp
  | cons c r ih =>
    have hc := h c (by simp)
    cases r with
    | nil => simp [splitGo, hc, splitWs]
    | cons c2 r2 =>
      have := ih (by simp) (fun x hx => h x (by simp [hx]))
      simp only [List.cons_append] at this ⊢
      rw [splitGo, this]
      simp [hc]

/-- `split()` sees any non-empty whitespace run between `a` and `b` as one separator. -/
theorem splitWs_sep (a sp b : Str) (hsp : sp ≠ []) (h : ∀ c ∈ sp, isSp c = true) :
    splitWs isSp (a ++ sp ++ b) = splitWs isSp a ++ splitWs isSp b := by
  have e := splitGo_spaces isSp sp b hsp h
  unfold splitWs
  rw [List.append_assoc, splitGo_append_nil isSp a (sp ++ b) (by rw [e]), e]
  simp only
  by_cases he : (splitGo isSp a).1.isEmpty = true <;> simp [he, splitWs]

/-- **C18 (unikey, whitespace runs).** Two labels that differ only in *which* non-empty whitespace run
separates two parts have the same key; leading and trailing whitespace is ignored. -/
theorem unikey_ws_run (a b sp1 sp2 : Str) (h1 : sp1 ≠ []) (h2 : sp2 ≠ [])
    (hs1 : ∀ c ∈ sp1, isSp c = true) (hs2 : ∀ c ∈ sp2, isSp c = true) :
    unikey isSp fold (a ++ sp1 ++ b) = unikey isSp fold (a ++ sp2 ++ b) := by
  unfold unikey
  rw [splitWs_sep isSp a sp1 b h1 hs1, splitWs_sep isSp a sp2 b h2 hs2]

theorem splitWs_nil : splitWs isSp [] = [] := by simp [splitWs, splitGo]

theorem unikey_ws_lead (sp b : Str) (h1 : sp ≠ []) (hs : ∀ c ∈ sp, isSp c = true) :
    unikey isSp fold (sp ++ b) = unikey isSp fold b := by
  have := splitWs_sep isSp [] sp b h1 hs
  simp only [List.nil_append, splitWs_nil] at this
  unfold unikey; rw [this]

theorem unikey_ws_trail (a sp : Str) (h1 : sp ≠ []) (hs : ∀ c ∈ sp, isSp c = true) :
    unikey isSp fold (a ++ sp) = unikey isSp fold a := by
  have := splitWs_sep isSp a sp [] h1 hs
  simp only [List.append_nil, splitWs_nil] at this
  unfold unikey; rw [this]

/-! ### case insensitivity -/

theorem splitGo_map (v : Char → Char) (hv : ∀ c, isSp (v c) = isSp c) (s : Str) :
    splitGo isSp (s.map v) = (((splitGo isSp s).1).map v, ((splitGo isSp s).2).map (List.map v)) := by
  induction s with
  | nil => simp [splitGo]
  | cons c r ih =>
    simp only [List.map_cons, splitGo, ih, hv]
    by_cases hc : isSp c = true
    · simp only [hc, if_true]
      by_cases he : (splitGo isSp r).1.isEmpty = true <;> simp [he]
    · simp [hc]

/-- **C18 (unikey, letter case).** For any per-character case variant `v` (lower, upper, title,
swapcase of a single code point, …) that the fold table identifies with the original character, a label and
its `v`-image have the same key.  The hypothesis on `v` is decided for CPython's tables in `Oblig.Unicode`. -/
theorem unikey_case (v : Char → Char) (hv : ∀ c, isSp (v c) = isSp c) (hf : ∀ c, fold (v c) = fold c)
    (s : Str) : unikey isSp fold (s.map v) = unikey isSp fold s := by
  have hw : ∀ w : Str, (w.map v).flatMap fold = w.flatMap fold := by
    intro w; induction w with
    | nil => rfl
    | cons c r ih => simp [hf, ih]
  have e : splitWs isSp (s.map v) = (splitWs isSp s).map (List.map v) := by
    unfold splitWs
    rw [splitGo_map isSp v hv]
    by_cases he : (splitGo isSp s).1.isEmpty = true <;> simp [he]
  -- go through the un-normalised definition: strip commutes trivially because both sides are joinSp of ok words
  have hok1 := splitWs_ok isSp (s.map v)
  have hok2 := splitWs_ok isSp s
  unfold unikey
  rw [stripWs_joinSp isSp _ hok1, stripWs_joinSp isSp _ hok2, e]
  have hj : ∀ W : List Str, (joinSp (W.map (List.map v))).flatMap fold = (joinSp W).flatMap fold := by
    intro W; induction W with
    | nil => rfl
    | cons w ws ih =>
      cases ws with
      | nil => simpa [joinSp] using hw w
      | cons w2 ws2 =>
        simp only [List.map_cons, joinSp] at ih ⊢
        have hsp : fold ' ' = fold ' ' := rfl
        simp only [List.flatMap_append, List.flatMap_cons, hw, ih]
  exact hj _

end Mistune
