/-
C05 for the concrete model, block pass: every handler of `Mistune.Model.Blk` keeps the tokens of the state inside
the block-pass grammar `preSeq`, including the nesting clause (a container is opened only in a state whose depth
is below `max_nested_level`).  This file: the framework, the handlers that do not recurse, `parse`, block quotes.
Lists, the induction on the nesting budget and `blockParse_pre`: `C05GrammarList`.
-/
import MistuneProofs.C05GrammarPre
import MistuneProofs.C01Progress
namespace Mistune
namespace Model
namespace Blk
namespace G

/-! ### the state invariant and the contract -/

/-- fuel that suffices for a token of a state of depth `d`: a quote costs one level, a list two -/
def gF (mx d : Nat) : Nat := 2 * (mx - d) + 1

/-- the token `t` is a block-pass token of a state of depth `d` -/
def TokOk (mx d : Nat) (t : Json) : Prop := preSeq (gF mx d) [t] .block d mx = true

/-- the state is at most `mx` deep, every token of it is in the grammar, `env` holds well-formed link definitions -/
def TokensOk (mx : Nat) (st : BlockState) : Prop :=
  st.depth ≤ mx ∧ (∀ t ∈ st.tokens, TokOk mx st.depth t) ∧ EnvOk st.env

/-- tokens in the grammar, same depth, same subject -/
def Keeps (mx : Nat) (st st' : BlockState) : Prop := TokensOk mx st' ∧ st'.depth = st.depth ∧ st'.x = st.x

/-- what a handler guarantees: the tokens stay in the grammar, the depth and subject of the state are unchanged -/
def GPost (mx : Nat) (st : BlockState) (res : Option Nat × BlockState) : Prop := Keeps mx st res.2

/-- the ATX rule captured one to six `#` (a fact about the rule's regex, see `CfgAtx`) -/
def AtxPre (cfg : MdCfg) (name : String) (mt : RxMatch) (st : BlockState) : Prop :=
  name = "atx_heading" → 1 ≤ (grp cfg st mt "atx_1").length ∧ (grp cfg st mt "atx_1").length ≤ 6

/-- **the grammar contract** of a parse method: a container rule is only invoked below the nesting limit -/
def PMGrammar (cfg : MdCfg) (pm : ParseMethod) : Prop :=
  ∀ name mt st, TokensOk cfg.maxNested st → ((name = "block_quote" ∨ name = "list") → st.depth < cfg.maxNested) →
    AtxPre cfg name mt st → Sat (GPost cfg.maxNested st) (pm name mt st)

/-- the rule table of a state of depth `d` has container rules only below the nesting limit -/
def ScDepthOk (mx d : Nat) (sc : List (String × Rx)) : Prop :=
  ∀ n r, (n, r) ∈ sc → (n = "block_quote" ∨ n = "list") → d < mx

theorem compileSc_names (cfg : MdCfg) (rules : List String) :
    Sat (fun sc => ∀ n r, (n, r) ∈ sc → n ∈ rules ∧ (n, r) ∈ cfg.blockSpec) (compileSc cfg rules) := by
  unfold compileSc
  induction rules with
  | nil => simp only [List.mapM_nil]; exact Sat.pure (fun n r h => by cases h)
  | cons a l ih =>
    simp only [List.mapM_cons]
    refine Sat.bind (Q := fun p => p.1 = a ∧ p ∈ cfg.blockSpec) ?_ (fun b hb => ?_)
    · split
      · rename_i r hr
        exact Sat.ok ⟨rfl, lookup_mem _ _ _ hr⟩
      · exact Sat.err
    · refine Sat.bind ih (fun bs hbs => ?_)
      refine Sat.pure (fun n r hmem => ?_)
      rcases List.mem_cons.1 hmem with h | h
      · subst h; have : n = a := hb.1
        rw [this]; exact ⟨List.mem_cons_self, by rw [← this]; exact hb.2⟩
      · exact ⟨List.mem_cons_of_mem _ (hbs n r h).1, (hbs n r h).2⟩

/-! ### literal tokens -/

theorem TokOk.append {mx : Nat} {st : BlockState} {t : Json} (h : TokensOk mx st) (ht : TokOk mx st.depth t) :
    TokensOk mx (st.appendToken t) := by
  refine ⟨h.1, fun t' ht' => ?_, h.2.2⟩
  simp only [BlockState.appendToken, List.mem_append, List.mem_singleton] at ht'
  rcases ht' with h1 | h1
  · exact h.2.1 t' h1
  · subst h1; exact ht

macro "pre_lit" h:term : tactic =>
  `(tactic| (unfold TokOk gF; simp [preSeq, preTok, preView, tok, Json.get?, List.lookup, Json.s, isBlockCtx, optHas, optStr,
      optArr, optList, attrsOkB, attrsOkT, attrsShape, plainJ, Json.getInt?, $h:term]))

theorem tokOk_blank (mx d : Nat) (h : d ≤ mx) : TokOk mx d (tok "blank_line" []) := by pre_lit h
theorem tokOk_thematic (mx d : Nat) (h : d ≤ mx) : TokOk mx d (tok "thematic_break" []) := by pre_lit h
theorem tokOk_paragraph (mx d : Nat) (h : d ≤ mx) (text : Str) : TokOk mx d (tok "paragraph" [("text", .str text)]) := by
  pre_lit h
theorem tokOk_html (mx d : Nat) (h : d ≤ mx) (text : Str) : TokOk mx d (tok "block_html" [("raw", .str text)]) := by
  pre_lit h
theorem tokOk_indent (mx d : Nat) (h : d ≤ mx) (code : Str) :
    TokOk mx d (tok "block_code" [("raw", .str code), ("style", Json.s "indent")]) := by pre_lit h
theorem tokOk_fenced (mx d : Nat) (h : d ≤ mx) (code marker : Str) :
    TokOk mx d (tok "block_code" [("raw", .str code), ("style", Json.s "fenced"), ("marker", .str marker)]) := by pre_lit h
theorem tokOk_fenced_info (mx d : Nat) (h : d ≤ mx) (code marker : Str) (a : Json) :
    TokOk mx d ((tok "block_code" [("raw", .str code), ("style", Json.s "fenced"), ("marker", .str marker)]).set "attrs"
      (.obj [("info", a)])) := by
  unfold TokOk gF
  simp [preSeq, preTok, preView, tok, Json.get?, Json.set, List.lookup, Json.s, isBlockCtx, optHas, optStr,
      optArr, optList, attrsOkB, attrsOkT, attrsShape, plainJ, Json.getInt?, h]

/-! ### paragraphs: `add_paragraph`, `append_paragraph`, setext headings -/

theorem preView_para_inv (rec : List Json → TokCtx → Nat → Bool) (s : Str) (hs : String.ofList s = "paragraph")
    (attrsJ rawJ chJ textJ : Option Json) (ctx : TokCtx) (d mx : Nat)
    (h : preView rec (some (.str s)) attrsJ rawJ chJ textJ ctx d mx = true) :
    d ≤ mx ∧ attrsOkT "paragraph" attrsJ = true ∧ isBlockCtx ctx = true ∧ optStr textJ = true ∧ rawJ = none ∧
      chJ = none := by
  simp only [preView, hs] at h
  simp [optHas] at h
  obtain ⟨⟨h1, h2⟩, ⟨⟨h3, h4⟩, h5⟩, h6⟩ := h
  exact ⟨h1, h2, h3, h4, h5, h6⟩

theorem preView_textblock (rec : List Json → TokCtx → Nat → Bool) (s : Str)
    (hs : String.ofList s = "paragraph" ∨ String.ofList s = "block_text")
    (attrsJ textJ : Option Json) (ctx : TokCtx) (d mx : Nat) (h1 : d ≤ mx) (h2 : attrsOkT "paragraph" attrsJ = true)
    (h3 : isBlockCtx ctx = true) (h4 : optStr textJ = true) :
    preView rec (some (.str s)) attrsJ none none textJ ctx d mx = true := by
  have h2' : attrsOkT "block_text" attrsJ = true := by
    rw [attrsOkT_congr "paragraph" "block_text" attrsJ (by decide) (by decide)]; exact h2
  rcases hs with hs | hs <;> simp [preView, hs, optHas, h1, h2, h2', h3, h4]

theorem preView_heading (rec : List Json → TokCtx → Nat → Bool) (level : Int) (hl : 1 ≤ level ∧ level ≤ 6)
    (textJ : Option Json) (ctx : TokCtx) (d mx : Nat) (h1 : d ≤ mx)
    (h3 : isBlockCtx ctx = true) (h4 : optStr textJ = true) :
    preView rec (some (Json.s "heading")) (some (.obj [("level", .num level)])) none none textJ ctx d mx = true := by
  simp [preView, Json.s, optHas, attrsOkB, attrsOkT, attrsShape, plainJ, h1, h3, h4, Json.getInt?, Json.get?, List.lookup, hl.1, hl.2]

theorem typeOf_eq (t : Json) (n : String) (hn : n ≠ "") (h : typeOf t = .ok n) :
    ∃ s, t.get? "type" = some (.str s) ∧ String.ofList s = n := by
  unfold typeOf getE at h
  cases hg : t.get? "type" with
  | none => rw [hg] at h; cases h
  | some v =>
    rw [hg] at h
    cases v with
    | str s => exact ⟨s, rfl, by injection h⟩
    | _ => exact absurd (by injection h) hn.symm

theorem lastParagraph_spec (st : BlockState) :
    Sat (fun r => ∀ last, r = some last → last ∈ st.tokens ∧ typeOf last = .ok "paragraph") st.lastParagraph := by
  unfold BlockState.lastParagraph
  split
  · exact Sat.ok (fun last h => by cases h)
  · rename_i last hl
    split
    · intro r hr
      cases hty : typeOf last with
      | error e => rw [hty] at hr; cases hr
      | ok ty =>
        rw [hty] at hr
        simp only [bind, Except.bind] at hr
        split at hr
        · rename_i heq
          cases hr
          intro l hl'
          cases hl'
          have : ty = "paragraph" := by simpa using heq
          subst this
          exact ⟨List.mem_of_getLast? hl, hty⟩
        · cases hr
          intro l hl'; cases hl'
    · exact Sat.ok (fun last h => by cases h)

theorem tokOk_addText (mx d : Nat) (last : Json) (text : Str) (hok : TokOk mx d last)
    (hty : typeOf last = .ok "paragraph") : Sat (TokOk mx d) (BlockState.addText last text) := by
  obtain ⟨s, hs1, hs2⟩ := typeOf_eq last "paragraph" (by decide) hty
  obtain ⟨kv, hkv⟩ := isObj_of_get? _ _ _ hs1
  unfold BlockState.addText
  intro r hr
  unfold getE at hr
  cases hg : last.get? "text" with
  | none => rw [hg] at hr; cases hr
  | some v =>
    rw [hg] at hr
    cases v with
    | str s0 =>
      have hr' : r = last.set "text" (.str (s0 ++ text)) := by
        have : (Except.ok (last.set "text" (.str (s0 ++ text))) : Except PyErr Json) = .ok r := hr
        injection this with h; exact h.symm
      subst hr'
      unfold TokOk gF at hok ⊢
      rw [preSeq_single, preTok] at hok ⊢
      rw [hs1] at hok
      obtain ⟨a1, a2, a3, a4, a5, a6⟩ := preView_para_inv _ s hs2 _ _ _ _ _ _ _ hok
      rw [get?_set_ne _ _ _ _ (by decide), get?_set_ne _ _ _ _ (by decide), get?_set_ne _ _ _ _ (by decide),
        get?_set_ne _ _ _ _ (by decide), hs1, a5, a6]
      have : (last.set "text" (.str (s0 ++ text))).get? "text" = some (.str (s0 ++ text)) := by
        rw [hkv]; exact get?_set_self _ _ _
      rw [this]
      exact preView_textblock _ s (Or.inl hs2) _ _ _ _ _ a1 a2 a3 rfl
    | _ => cases hr

theorem tokensOk_setLast {mx : Nat} {st : BlockState} {t : Json} (h : TokensOk mx st) (ht : TokOk mx st.depth t) :
    TokensOk mx (st.setLastToken t) := by
  refine ⟨h.1, fun t' ht' => ?_, h.2.2⟩
  simp only [BlockState.setLastToken, List.mem_append, List.mem_singleton] at ht'
  rcases ht' with h1 | h1
  · exact h.2.1 t' (List.dropLast_subset _ h1)
  · subst h1; exact ht

theorem addParagraph_ok (mx : Nat) (st : BlockState) (text : Str) (h : TokensOk mx st) :
    Sat (Keeps mx st) (st.addParagraph text) := by
  unfold BlockState.addParagraph
  refine Sat.bind (lastParagraph_spec st) (fun a ha => ?_)
  split
  · rename_i last
    obtain ⟨hm, hty⟩ := ha last rfl
    refine Sat.bind (tokOk_addText mx st.depth last text (h.2.1 _ hm) hty) (fun b hb => ?_)
    exact Sat.pure ⟨tokensOk_setLast h hb, rfl, rfl⟩
  · exact Sat.pure ⟨TokOk.append h (tokOk_paragraph _ _ h.1 _), rfl, rfl⟩

theorem appendParagraph_ok (mx : Nat) (cfg : MdCfg) (st : BlockState) (h : TokensOk mx st) :
    Sat (fun r => Keeps mx st r.2) (st.appendParagraph cfg) := by
  unfold BlockState.appendParagraph
  refine Sat.bind (lastParagraph_spec st) (fun a ha => ?_)
  split
  · rename_i last
    obtain ⟨hm, hty⟩ := ha last rfl
    refine Sat.bind (Sat.triv _) (fun pos _ => ?_)
    refine Sat.bind (tokOk_addText mx st.depth last _ (h.2.1 _ hm) hty) (fun b hb => ?_)
    exact Sat.pure ⟨tokensOk_setLast h hb, rfl, rfl⟩
  · exact Sat.pure ⟨h, rfl, rfl⟩

theorem Keeps.refl {mx : Nat} {st : BlockState} (h : TokensOk mx st) : Keeps mx st st := ⟨h, rfl, rfl⟩

theorem Keeps.env {mx : Nat} {st st' : BlockState} (e : Json) (h : Keeps mx st st') (he : EnvOk e) :
    Keeps mx st { st' with env := e } := ⟨⟨h.1.1, h.1.2.1, he⟩, h.2.1, h.2.2⟩

theorem Keeps.cursor {mx : Nat} {st st' : BlockState} (c : Nat) (h : Keeps mx st st') :
    Keeps mx st { st' with cursor := c } := h

theorem Keeps.trans {mx : Nat} {a b c : BlockState} (h1 : Keeps mx a b) (h2 : Keeps mx b c) : Keeps mx a c :=
  ⟨h2.1, h2.2.1.trans h1.2.1, h2.2.2.trans h1.2.2⟩

theorem Keeps.append {mx : Nat} {st st' : BlockState} {t : Json} (h : Keeps mx st st') (ht : TokOk mx st.depth t) :
    Keeps mx st (st'.appendToken t) := ⟨TokOk.append h.1 (by rw [h.2.1]; exact ht), h.2.1, h.2.2⟩

/-! ### the handlers that do not recurse -/

theorem parseBlankLine_ok (mx : Nat) (mt : RxMatch) (st : BlockState) (h : TokensOk mx st) :
    Sat (GPost mx st) (parseBlankLine mt st) :=
  Sat.ok (Keeps.append (Keeps.refl h) (tokOk_blank _ _ h.1))

theorem parseThematicBreak_ok (mx : Nat) (mt : RxMatch) (st : BlockState) (h : TokensOk mx st) :
    Sat (GPost mx st) (parseThematicBreak mt st) :=
  Sat.ok (Keeps.append (Keeps.refl h) (tokOk_thematic _ _ h.1))

theorem parseAtxHeading_ok (cfg : MdCfg) (mx : Nat) (mt : RxMatch) (st : BlockState) (h : TokensOk mx st)
    (hl : 1 ≤ (grp cfg st mt "atx_1").length ∧ (grp cfg st mt "atx_1").length ≤ 6) :
    Sat (GPost mx st) (parseAtxHeading cfg mt st) := by
  unfold parseAtxHeading
  refine Sat.ok (Keeps.append (Keeps.refl h) ?_)
  have hd := h.1
  have h1 : (1 : Int) ≤ ((grp cfg st mt "atx_1").length : Int) := by omega
  have h2 : ((grp cfg st mt "atx_1").length : Int) ≤ 6 := by omega
  unfold TokOk gF
  simp [preSeq, preTok, preView, tok, Json.get?, List.lookup, Json.s, isBlockCtx, optHas, optStr,
      optArr, optList, attrsOkB, attrsOkT, attrsShape, plainJ, Json.getInt?, hd, h1, h2]

theorem parseIndentCode_ok (cfg : MdCfg) (mx : Nat) (mt : RxMatch) (st : BlockState) (h : TokensOk mx st) :
    Sat (GPost mx st) (parseIndentCode cfg mt st) := by
  unfold parseIndentCode
  refine Sat.bind (appendParagraph_ok mx cfg st h) ?_
  rintro ⟨endPos, st1⟩ hk
  dsimp only at hk ⊢
  split
  · exact Sat.pure hk
  · exact Sat.pure (Keeps.append hk (tokOk_indent _ _ h.1 _))

theorem parseFencedCode_ok (cfg : MdCfg) (mx : Nat) (mt : RxMatch) (st : BlockState) (h : TokensOk mx st) :
    Sat (GPost mx st) (parseFencedCode cfg mt st) := by
  unfold parseFencedCode
  simp only
  split
  · simp only [pure_bind]
    split
    · exact Sat.pure (Keeps.refl h)
    · refine Sat.pure (Keeps.append (Keeps.refl h) ?_)
      split
      · exact tokOk_fenced_info _ _ h.1 _ _ _
      · exact tokOk_fenced _ _ h.1 _ _
  · exact Sat.throw

theorem parseHtmlToEnd_ok (cfg : MdCfg) (mx : Nat) (st : BlockState) (h : TokensOk mx st) (endMarker : Str) (p : Nat) :
    Sat (GPost mx st) (parseHtmlToEnd cfg st endMarker p) := by
  unfold parseHtmlToEnd
  split
  · exact Sat.pure (Keeps.append (Keeps.refl h) (tokOk_html _ _ h.1 _))
  · extract_lets text st2
    refine Sat.bind (Sat.triv _) (fun endPos _ => ?_)
    exact Sat.pure (Keeps.append (st' := st2) (Keeps.refl h) (tokOk_html _ _ h.1 _))

theorem parseHtmlToNewline_ok (mx : Nat) (st : BlockState) (h : TokensOk mx st) (nl : Rx) :
    Sat (GPost mx st) (parseHtmlToNewline st nl) := by
  unfold parseHtmlToNewline
  split
  · exact Sat.ok (Keeps.append (Keeps.refl h) (tokOk_html _ _ h.1 _))
  · exact Sat.ok (Keeps.append (Keeps.refl h) (tokOk_html _ _ h.1 _))

theorem parseRawHtml_ok (cfg : MdCfg) (mx : Nat) (mt : RxMatch) (st : BlockState) (h : TokensOk mx st) :
    Sat (GPost mx st) (parseRawHtml cfg mt st) := by
  have hend := parseHtmlToEnd_ok cfg mx st h
  have hnl := parseHtmlToNewline_ok mx st h
  unfold parseRawHtml
  extract_lets blankLine marker closeTag openTag startPos isTruthy jp
  have hjp : Sat (GPost mx st) (jp ()) := by
    show Sat (GPost mx st) (BlockState.appendParagraph cfg st >>= _)
    refine Sat.bind (appendParagraph_ok mx cfg st h) ?_
    rintro ⟨endPos, st1⟩ hk
    dsimp only at hk
    show Sat (GPost mx st) (if truthyPos endPos = true then _ else _)
    split
    · exact Sat.pure hk
    · refine Sat.bind (Sat.triv _) (fun e _ => ?_)
      split
      · exact (parseHtmlToNewline_ok mx st1 hk.1 _).mono (fun a ha => Keeps.trans hk ha)
      · exact Sat.pure hk
  clear_value jp closeTag openTag
  split
  · exact hend _ _
  split
  · exact hend _ _
  split
  · exact hend _ _
  split
  · exact hend _ _
  split
  · split
    · exact hnl _
    · exact hjp
  · split
    · exact hend _ _
    · split
      · exact hnl _
      · exact hjp
  · exact hjp

theorem getE_eq (j : Json) (k : String) : Sat (fun v => j.get? k = some v) (getE j k) := by
  unfold getE
  intro v hv
  cases hg : j.get? k with
  | none => rw [hg] at hv; cases hv
  | some w => rw [hg] at hv; injection hv with e; rw [e]

/-- storing a definition with a string `url` keeps `EnvOk` -/
theorem envOk_reflink (env refs : Json) (k : String) (url label : Str) (title : Option Str)
    (h : EnvOk env) (hrefs : env.get? "ref_links" = some refs) :
    EnvOk (env.set "ref_links" (refs.set k
      (match title with
       | some t => if !t.isEmpty then (Json.obj [("url", .str url), ("label", .str label)]).set "title" (.str t)
                   else Json.obj [("url", .str url), ("label", .str label)]
       | none => Json.obj [("url", .str url), ("label", .str label)]))) := by
  obtain ⟨kv, hkv⟩ := isObj_of_get? _ _ _ hrefs
  intro refLinks hr key e he u hu
  rw [hkv, get?_set_self] at hr
  injection hr with hr
  subst hr
  by_cases hk : key = k
  · subst hk
    cases refs with
    | obj rkv =>
      rw [get?_set_self] at he
      injection he with he
      subst he
      revert hu
      split
      · split
        · intro hu
          rw [get?_set_ne _ _ "url" _ (by decide)] at hu
          simp [Json.get?, List.lookup] at hu
          exact ⟨_, hu.symm⟩
        · intro hu
          simp [Json.get?, List.lookup] at hu
          exact ⟨_, hu.symm⟩
      · intro hu
        simp [Json.get?, List.lookup] at hu
        exact ⟨_, hu.symm⟩
    | _ => simp [Json.set, Json.get?] at he
  · rw [get?_set_ne _ _ _ _ hk] at he
    exact h refs hrefs key e he u hu

theorem parseRefLink_ok (cfg : MdCfg) (mx : Nat) (mt : RxMatch) (st : BlockState) (h : TokensOk mx st) :
    Sat (GPost mx st) (parseRefLink cfg mt st) := by
  unfold parseRefLink
  refine Sat.bind (appendParagraph_ok mx cfg st h) ?_
  rintro ⟨endPos, st1⟩ hk
  dsimp only at hk
  show Sat (GPost mx st) (if truthyPos endPos = true then _ else _)
  split
  · exact Sat.pure hk
  extract_lets label key
  split
  · exact Sat.pure hk
  refine Sat.bind (Sat.triv _) (fun r _ => ?_)
  split
  · exact Sat.pure hk
  extract_lets maxPos
  split
  split
  split
  extract_lets endPos2
  split
  · exact Sat.pure hk
  refine Sat.bind (getE_eq _ _) (fun refs hrefs => ?_)
  split
  · split
    · exact Sat.throw
    · refine Sat.pure (Keeps.env _ hk ?_)
      exact envOk_reflink _ _ _ _ _ _ hk.1.2.2 hrefs
  · exact Sat.pure hk

/-! ### setext headings -/

theorem tokOk_setext (mx d : Nat) (last : Json) (level : Int) (hl : 1 ≤ level ∧ level ≤ 6) (hok : TokOk mx d last)
    (hty : typeOf last = .ok "paragraph") :
    TokOk mx d (((last.set "type" (Json.s "heading")).set "style" (Json.s "setext")).set "attrs"
      (.obj [("level", .num level)])) := by
  obtain ⟨s, hs1, hs2⟩ := typeOf_eq last "paragraph" (by decide) hty
  obtain ⟨kv, hkv⟩ := isObj_of_get? _ _ _ hs1
  unfold TokOk gF at hok ⊢
  rw [preSeq_single, preTok] at hok ⊢
  rw [hs1] at hok
  obtain ⟨a1, a2, a3, a4, a5, a6⟩ := preView_para_inv _ s hs2 _ _ _ _ _ _ _ hok
  have e1 : ∃ kv1, last.set "type" (Json.s "heading") = .obj kv1 := by
    rw [hkv]; simp only [Json.set]; split <;> exact ⟨_, rfl⟩
  obtain ⟨kv1, hkv1⟩ := e1
  have e2 : ∃ kv2, (last.set "type" (Json.s "heading")).set "style" (Json.s "setext") = .obj kv2 := by
    rw [hkv1]; simp only [Json.set]; split <;> exact ⟨_, rfl⟩
  obtain ⟨kv2, hkv2⟩ := e2
  have t1 : (((last.set "type" (Json.s "heading")).set "style" (Json.s "setext")).set "attrs"
      (.obj [("level", .num level)])).get? "type" = some (Json.s "heading") := by
    rw [get?_set_ne _ _ _ _ (by decide), get?_set_ne _ _ _ _ (by decide), hkv]; exact get?_set_self _ _ _
  have t2 : (((last.set "type" (Json.s "heading")).set "style" (Json.s "setext")).set "attrs"
      (.obj [("level", .num level)])).get? "attrs" = some (.obj [("level", .num level)]) := by
    rw [hkv2]; exact get?_set_self _ _ _
  rw [t1, t2, get?_set_ne _ _ _ _ (by decide), get?_set_ne _ _ _ _ (by decide), get?_set_ne _ _ _ _ (by decide),
    get?_set_ne _ _ _ _ (by decide), get?_set_ne _ _ _ _ (by decide), get?_set_ne _ _ _ _ (by decide),
    get?_set_ne _ _ _ _ (by decide), get?_set_ne _ _ _ _ (by decide), get?_set_ne _ _ _ _ (by decide), a5, a6]
  exact preView_heading _ level hl _ _ _ _ a1 a3 a4

theorem parseSetexHeading_ok (cfg : MdCfg) (pm : ParseMethod) (hpm : PMGrammar cfg pm) (mt : RxMatch) (st : BlockState)
    (h : TokensOk cfg.maxNested st) : Sat (GPost cfg.maxNested st) (parseSetexHeading cfg pm mt st) := by
  unfold parseSetexHeading
  refine Sat.bind (lastParagraph_spec st) (fun a ha => ?_)
  split
  · rename_i last
    obtain ⟨hm, hty⟩ := ha last rfl
    refine Sat.pure ⟨tokensOk_setLast h ?_, rfl, rfl⟩
    refine tokOk_setext _ _ _ _ ?_ (h.2.1 _ hm) hty
    split <;> decide
  · refine Sat.bind (compileSc_names cfg _) (fun sc hsc => ?_)
    split
    · rename_i nm m2 hm2
      obtain ⟨_, _, _, r, hmem, _⟩ := scMatch_sound _ _ _ _ _ hm2
      have hn := (hsc _ _ hmem).1
      simp only [List.mem_cons, List.not_mem_nil, or_false] at hn
      split
      · exact Sat.pure (Keeps.refl h)
      · rename_i hng
        refine hpm _ _ _ h (fun hc => ?_) (fun ha => ?_)
        · rcases hc with hc | hc
          · rcases hn with hn | hn <;> rw [hn] at hc <;> exact absurd hc (by decide)
          · have : ¬ (st.depth ≥ cfg.maxNested) := by
              intro hge; apply hng; simp [hc, hge]
            omega
        · rcases hn with hn | hn <;> rw [hn] at ha <;> exact absurd ha (by decide)
    · exact Sat.pure (Keeps.refl h)

/-! ### `BlockParser.parse` -/

/-- the ATX entries of a rule table capture one to six `#` in `atx_1` -/
def AtxSc (cfg : MdCfg) (sc : List (String × Rx)) : Prop :=
  ∀ (x : RxCtx) (r : Rx) (mt : RxMatch), ("atx_heading", r) ∈ sc → Spec x r mt.start [] mt.stop mt.caps →
    1 ≤ (groupNamed cfg x.s mt "atx_1").length ∧ (groupNamed cfg x.s mt "atx_1").length ≤ 6

theorem parseLoop_ok (cfg : MdCfg) (pm : ParseMethod) (hpm : PMGrammar cfg pm) (sc : List (String × Rx)) (d : Nat)
    (hsc : ScDepthOk cfg.maxNested d sc) (hatx : AtxSc cfg sc) :
    ∀ (fuel : Nat) (st : BlockState), TokensOk cfg.maxNested st → st.depth = d →
      Sat (fun st' => Keeps cfg.maxNested st st') (parseLoop cfg pm sc fuel st) := by
  intro fuel
  induction fuel with
  | zero =>
    intro st h _
    unfold parseLoop
    split
    · exact Sat.err
    · exact Sat.ok (Keeps.refl h)
  | succ fuel ih =>
    intro st h hd
    unfold parseLoop
    split
    · split
      · exact Sat.ok (Keeps.refl h)
      · rename_i name m hscan
        obtain ⟨_, _, _, ⟨r, hmem, hspec⟩, _⟩ := scan_sound _ _ _ _ _ hscan
        extract_lets endPos jpLoop jp
        have hloop : ∀ st3 : BlockState, Keeps cfg.maxNested st st3 →
            Sat (fun st' => Keeps cfg.maxNested st st') (jpLoop st3) := by
          intro st3 hk
          exact (ih st3 hk.1 (hk.2.1.trans hd)).mono (fun a ha => Keeps.trans hk ha)
        clear_value jpLoop
        have hjp : ∀ st1 : BlockState, Keeps cfg.maxNested st st1 →
            Sat (fun st' => Keeps cfg.maxNested st st') (jp st1) := by
          intro st1 hk
          have hx := hk.2.2
          show Sat _ (pm name m st1 >>= _)
          refine Sat.bind (hpm _ _ _ hk.1 (fun hc => ?_) (fun ha => ?_)) ?_
          · rw [hk.2.1, hd]; exact hsc _ _ hmem hc
          · subst ha; unfold grp; rw [hx]; exact hatx _ _ _ hmem hspec
          rintro ⟨endPos2, st2⟩ hp
          have hk2 : Keeps cfg.maxNested st st2 := Keeps.trans hk hp
          show Sat _ (if truthyPos endPos2 = true then _ else _)
          split
          · simp only [pure_bind]
            exact hloop _ (Keeps.cursor _ hk2)
          · refine Sat.bind (Sat.triv _) (fun e3 _ => ?_)
            refine Sat.bind (addParagraph_ok _ _ _ hk2.1) (fun a ha => ?_)
            simp only [pure_bind]
            exact hloop _ (Keeps.cursor _ (Keeps.trans hk2 ha))
        clear_value jp
        split
        · refine Sat.bind (addParagraph_ok _ _ _ h) (fun a ha => ?_)
          simp only [pure_bind]
          exact hjp _ (Keeps.cursor _ ha)
        · simp only [pure_bind]
          exact hjp _ (Keeps.refl h)
    · exact Sat.ok (Keeps.refl h)

/-- container rules only below the nesting limit -/
def RulesOk (mx d : Nat) (rules : List String) : Prop := ∀ n ∈ rules, (n = "block_quote" ∨ n = "list") → d < mx

theorem parse_ok (cfg : MdCfg) (pm : ParseMethod) (hpm : PMGrammar cfg pm) (hatx : AtxSc cfg cfg.blockSpec)
    (st : BlockState) (rules : Option (List String)) (h : TokensOk cfg.maxNested st)
    (hr : RulesOk cfg.maxNested st.depth (rules.getD cfg.blockRules)) :
    Sat (fun st' => Keeps cfg.maxNested st st') (parse cfg pm st rules) := by
  unfold parse
  refine Sat.bind (compileSc_names cfg _) (fun sc hsc => ?_)
  refine Sat.bind (parseLoop_ok cfg pm hpm sc st.depth (fun n r hm hc => hr n (hsc n r hm).1 hc)
    (fun x r mt hm hs => hatx x r mt (hsc _ _ hm).2 hs) _ st h rfl) (fun st1 hk => ?_)
  split
  · refine Sat.bind (addParagraph_ok _ _ _ hk.1) (fun a ha => ?_)
    exact Sat.pure (Keeps.cursor _ (Keeps.trans hk ha))
  · exact Sat.pure hk

/-! ### block quotes -/

theorem extractQuoteLoop_ok (cfg : MdCfg) (pm : ParseMethod) (hpm : PMGrammar cfg pm) (breakSc : List (String × Rx))
    (hnames : ∀ n r, (n, r) ∈ breakSc → n ≠ "atx_heading") :
    ∀ (fuel : Nat) (text : Str) (pbl : Bool) (endPos : Option Nat) (st : BlockState),
      TokensOk cfg.maxNested st → st.depth < cfg.maxNested →
      Sat (fun r => Keeps cfg.maxNested st r.2.2) (extractQuoteLoop cfg pm breakSc fuel text pbl endPos st) := by
  intro fuel
  induction fuel with
  | zero =>
    intro text pbl endPos st h _
    unfold extractQuoteLoop
    split
    · exact Sat.err
    · exact Sat.ok (Keeps.refl h)
  | succ fuel ih =>
    intro text pbl endPos st h hd
    unfold extractQuoteLoop
    split
    · split
      · extract_lets quote text' st' pbl'
        have hk : Keeps cfg.maxNested st st' := Keeps.cursor _ (Keeps.refl h)
        exact (ih _ _ _ _ hk.1 (by rw [hk.2.1]; exact hd)).mono (fun a ha => Keeps.trans hk ha)
      · split
        · exact Sat.ok (Keeps.refl h)
        · extract_lets jp
          have hjp : ∀ x : Option Nat × BlockState, Keeps cfg.maxNested st x.2 →
              Sat (fun r => Keeps cfg.maxNested st r.2.2) (jp x) := by
            rintro ⟨endPos2, st2⟩ hk
            dsimp only at hk
            show Sat _ (if truthyPos endPos2 = true then _ else _)
            split
            · exact Sat.pure hk
            · refine Sat.bind (Sat.triv _) (fun pos _ => ?_)
              have hk3 : Keeps cfg.maxNested st { st2 with cursor := pos } := Keeps.cursor _ hk
              exact (ih _ _ _ _ hk3.1 (by rw [hk3.2.1]; exact hd)).mono (fun a ha => Keeps.trans hk3 ha)
          clear_value jp
          split
          · rename_i name m4 hm4
            obtain ⟨_, _, _, r, hmem, _⟩ := scMatch_sound _ _ _ _ _ hm4
            exact Sat.bind (hpm _ _ _ h (fun _ => hd) (fun ha => absurd ha (hnames _ _ hmem))) (fun x hx => hjp x hx)
          · simp only [pure_bind]
            exact hjp _ (Keeps.refl h)
    · exact Sat.ok (Keeps.refl h)

theorem extractBlockQuote_ok (cfg : MdCfg) (pm : ParseMethod) (hpm : PMGrammar cfg pm) (mt : RxMatch) (st : BlockState)
    (h : TokensOk cfg.maxNested st) (hd : st.depth < cfg.maxNested) :
    Sat (fun r => Keeps cfg.maxNested st r.2.2) (extractBlockQuote cfg pm mt st) := by
  unfold extractBlockQuote
  extract_lets text1 text2 text3 st1
  refine Sat.bind (Sat.triv _) (fun sc _ => ?_)
  extract_lets requireMarker
  have hk1 : Keeps cfg.maxNested st st1 := Keeps.cursor _ (Keeps.refl h)
  split
  · split
    · exact Sat.pure (Keeps.cursor _ hk1)
    · exact Sat.pure hk1
  · refine Sat.bind (compileSc_names cfg _) (fun breakSc hb => ?_)
    refine Sat.bind (extractQuoteLoop_ok cfg pm hpm breakSc (fun n r hm => ?_) _ _ _ _ st1 hk1.1
      (by rw [hk1.2.1]; exact hd)) ?_
    · have := (hb n r hm).1
      simp only [List.mem_cons, List.not_mem_nil, or_false] at this
      rcases this with e | e | e | e | e <;> rw [e] <;> decide
    · rintro ⟨text, endPos, st2⟩ hk
      exact Sat.pure (Keeps.trans hk1 hk)

theorem gF_succ (mx d : Nat) (hd : d < mx) : gF mx d = gF mx (d + 1) + 2 := by unfold gF; omega

theorem tokOk_quote (mx d : Nat) (hd : d < mx) (ty : String) (hty : ty = "block_quote" ∨ ty = "block_spoiler")
    (cs : List Json) (hcs : ∀ t ∈ cs, TokOk mx (d + 1) t) :
    TokOk mx d (tok ty [("children", .arr cs)]) := by
  unfold TokOk
  rw [gF_succ mx d hd, preSeq_single]
  have hle : d ≤ mx := by omega
  have hle1 : d + 1 ≤ mx := hd
  have hrec : preSeq (gF mx (d + 1) + 1) cs .block (d + 1) mx = true := by
    apply preSeq_mono
    unfold TokOk gF at hcs
    unfold gF
    exact (preSeq_iff _ _ _ _ _).2 hcs
  rcases hty with e | e <;> subst e <;>
    simp [preTok, preView, tok, Json.get?, List.lookup, Json.s, isBlockCtx, optHas, optStr,
      optArr, optList, attrsOkB, attrsOkT, attrsShape, plainJ, hle, hle1, hrec]

theorem tokensOk_insert {mx : Nat} {st : BlockState} {t : Json} (i : Nat) (h : TokensOk mx st)
    (ht : TokOk mx st.depth t) : TokensOk mx { st with tokens := listInsert st.tokens i t } := by
  refine ⟨h.1, fun t' ht' => ?_, h.2.2⟩
  simp only [listInsert, List.mem_append, List.mem_cons] at ht'
  rcases ht' with h1 | h1 | h1
  · exact h.2.1 t' (List.mem_of_mem_take h1)
  · subst h1; exact ht
  · exact h.2.1 t' (List.mem_of_mem_drop h1)

theorem tokensOk_child {mx : Nat} (st : BlockState) (src : Str) (hd : st.depth < mx) (he : EnvOk st.env) :
    TokensOk mx (st.childState src) := by
  refine ⟨?_, fun t ht => ?_, he⟩
  · show st.depth + 1 ≤ mx; omega
  · simp [BlockState.childState, BlockState.process] at ht

theorem rulesOk_without (mx d : Nat) (rules : List String) : RulesOk mx d (withoutContainers rules) := by
  intro n hn hc
  unfold withoutContainers at hn
  simp only [List.mem_filter, Bool.and_eq_true, bne_iff_ne, ne_eq] at hn
  rcases hc with hc | hc
  · exact absurd hc hn.2.1
  · exact absurd hc hn.2.2

theorem parseBlockQuote_ok (cfg : MdCfg) (pm : ParseMethod) (hpm : PMGrammar cfg pm) (hatx : AtxSc cfg cfg.blockSpec)
    (mt : RxMatch) (st : BlockState) (h : TokensOk cfg.maxNested st) (hd : st.depth < cfg.maxNested) :
    Sat (GPost cfg.maxNested st) (parseBlockQuote cfg pm mt st) := by
  unfold parseBlockQuote
  extract_lets tokIndex
  refine Sat.bind (extractBlockQuote_ok cfg pm hpm mt st h hd) ?_
  rintro ⟨text, endPos, st1⟩ hk
  dsimp only at hk
  have hd1 : st1.depth < cfg.maxNested := by rw [hk.2.1]; exact hd
  have hchild : TokensOk cfg.maxNested (st1.childState text) := tokensOk_child st1 text hd1 hk.1.2.2
  have hrules : RulesOk cfg.maxNested (st1.childState text).depth (Option.getD (some (if st1.depth + 1 ≥ cfg.maxNested
      then withoutContainers cfg.quoteRules else cfg.quoteRules)) cfg.blockRules) := by
    show RulesOk cfg.maxNested (st1.depth + 1) (if st1.depth + 1 ≥ cfg.maxNested then _ else _)
    split
    · exact rulesOk_without _ _ _
    · intro n _ _; omega
  show Sat _ (parse cfg pm (st1.childState text) (some (if st1.depth + 1 ≥ cfg.maxNested
      then withoutContainers cfg.quoteRules else cfg.quoteRules)) >>= _)
  refine Sat.bind (parse_ok cfg pm hpm hatx _ _ hchild hrules) (fun child2 hc => ?_)
  have hdc : child2.depth = st1.depth + 1 := hc.2.1
  have htok : TokOk cfg.maxNested st1.depth (tok "block_quote" [("children", .arr child2.tokens)]) := by
    refine tokOk_quote _ _ hd1 _ (Or.inl rfl) _ (fun t ht => ?_)
    have := hc.1.2.1 t ht
    rw [hdc] at this
    exact this
  have hk2 : Keeps cfg.maxNested st { st1 with env := child2.env } := Keeps.env _ hk hc.1.2.2
  extract_lets st2 token
  split
  · exact Sat.pure ⟨tokensOk_insert _ hk2.1 htok, hk2.2.1, hk2.2.2⟩
  · exact Sat.pure (Keeps.append hk2 (by rw [← hk.2.1]; exact htok))

/-- `spoiler.parse_block_spoiler`: a block quote whose token type is `block_spoiler` at the top level -/
theorem parseBlockSpoiler_ok (cfg : MdCfg) (pm : ParseMethod) (hpm : PMGrammar cfg pm) (hatx : AtxSc cfg cfg.blockSpec)
    (mt : RxMatch) (st : BlockState) (h : TokensOk cfg.maxNested st) (hd : st.depth < cfg.maxNested) :
    Sat (GPost cfg.maxNested st) (parseBlockSpoiler cfg pm mt st) := by
  unfold parseBlockSpoiler
  extract_lets tokIndex
  refine Sat.bind (extractBlockQuote_ok cfg pm hpm mt st h hd) ?_
  rintro ⟨text, endPos, st1⟩ hk
  dsimp only at hk
  have hd1 : st1.depth < cfg.maxNested := by rw [hk.2.1]; exact hd
  dsimp -zeta only
  extract_lets text2 isSpoiler text3 tokType
  have htt : tokType = "block_quote" ∨ tokType = "block_spoiler" := by
    show (if isSpoiler = true then "block_spoiler" else "block_quote") = "block_quote" ∨
      (if isSpoiler = true then "block_spoiler" else "block_quote") = "block_spoiler"
    cases isSpoiler <;> simp
  clear_value tokType text3
  have hchild : TokensOk cfg.maxNested (st1.childState text3) := tokensOk_child st1 text3 hd1 hk.1.2.2
  have hrules : RulesOk cfg.maxNested (st1.childState text3).depth (Option.getD (some (if st1.depth + 1 ≥ cfg.maxNested
      then withoutContainers cfg.quoteRules else cfg.quoteRules)) cfg.blockRules) := by
    show RulesOk cfg.maxNested (st1.depth + 1) (if st1.depth + 1 ≥ cfg.maxNested then _ else _)
    split
    · exact rulesOk_without _ _ _
    · intro n _ _; omega
  show Sat _ (parse cfg pm (st1.childState text3) (some (if st1.depth + 1 ≥ cfg.maxNested
      then withoutContainers cfg.quoteRules else cfg.quoteRules)) >>= _)
  refine Sat.bind (parse_ok cfg pm hpm hatx _ _ hchild hrules) (fun child2 hc => ?_)
  have hdc : child2.depth = st1.depth + 1 := hc.2.1
  have htok : TokOk cfg.maxNested st1.depth (tok tokType [("children", .arr child2.tokens)]) := by
    refine tokOk_quote _ _ hd1 _ htt _ (fun t ht => ?_)
    have := hc.1.2.1 t ht
    rw [hdc] at this
    exact this
  have hk2 : Keeps cfg.maxNested st { st1 with env := child2.env } := Keeps.env _ hk hc.1.2.2
  extract_lets st2 token
  split
  · exact Sat.pure ⟨tokensOk_insert _ hk2.1 htok, hk2.2.1, hk2.2.2⟩
  · exact Sat.pure (Keeps.append hk2 (by rw [← hk.2.1]; exact htok))

end G
end Blk
end Model
end Mistune
