/-
C11 (fenced code): the `(code, end_pos)` computation of `parse_fenced_code` (`Model.Blk.fencedBody`) reproduces the
code body verbatim (up to the specified stripping of at most `len(spaces)` leading blanks per line) and stops exactly
after the closing fence line; without a closing fence line it takes the whole rest of the subject.

The engine has no general completeness theorem; completeness is proved here for the two run-time regexes
`fenceEndRx c n` and `trimRx k` (greedy path for success, `matchAt_sound` + `Spec` inversion for failure).
-/
import Mistune.Model.Block
import MistuneProofs.Engine.Spec
import MistuneProofs.Engine.Sound
namespace Mistune
open Mistune.Model Mistune.Model.Blk

/-! ### the subject as a list -/

theorem ctxOf_n (s : Str) : (Py.ctxOf s).n = s.length := by simp [Py.ctxOf, mkCtx]

theorem ctxOf_s (s : Str) : (Py.ctxOf s).s = s.toArray := rfl

theorem ctxOf_t (s : Str) : (Py.ctxOf s).t = pyCats := rfl

theorem ctxOf_chr (s : Str) (i : Nat) : (Py.ctxOf s).chr i = (s[i]?.getD ' ').toNat := by
  simp [RxCtx.chr, ctxOf_s]

theorem slice_toArray (s : Str) (i j : Nat) : Py.slice s.toArray i j = (s.drop i).take (j - i) := by
  simp [Py.slice]

theorem clsTest_chr1 (t : CatTables) (a : Char) (ch : Char) :
    clsTest t false [.chr a.toNat] ch.toNat = (ch == a) := by
  simp only [clsTest, List.any_cons, ClsItem.test, List.any_nil, Bool.or_false, Bool.bne_false]
  rw [Bool.eq_iff_iff]
  simp only [beq_iff_eq]
  exact ⟨fun h => (Char.toNat_inj.mp h).symm, fun h => by rw [h]⟩

theorem clsTest_chr2 (t : CatTables) (a b : Char) (ch : Char) :
    clsTest t false [.chr a.toNat, .chr b.toNat] ch.toNat = (ch == a || ch == b) := by
  simp only [clsTest, List.any_cons, ClsItem.test, List.any_nil, Bool.or_false, Bool.bne_false]
  rw [Bool.eq_iff_iff]
  simp only [Bool.or_eq_true, beq_iff_eq]
  constructor
  · rintro (h | h)
    · exact Or.inl (Char.toNat_inj.mp h).symm
    · exact Or.inr (Char.toNat_inj.mp h).symm
  · rintro (h | h)
    · exact Or.inl (by rw [h])
    · exact Or.inr (by rw [h])

/-! ### the greedy path of `cls{lo,hi}` -/

/-- the guard of a further iteration in `repLoop` -/
def canMoreB (hi : Option Nat) (lo cnt : Nat) (pa : Bool) : Bool :=
  (match hi with | some m => decide (cnt < m) | none => true) && (decide (cnt < lo) || pa || cnt == 0)

theorem repLoop_succ_greedy {R : Type} (mr : Nat → Caps → (Nat → Caps → Option R) → Option R)
    (lo : Nat) (hi : Option Nat) (k : Nat → Caps → Option R) (f cnt : Nat) (pa : Bool) (i : Nat) (c : Caps) :
    repLoop mr lo hi true k (f + 1) cnt pa i c =
      (match (if canMoreB hi lo cnt pa then
          mr i c (fun j c' => repLoop mr lo hi true k f (cnt + 1) (j != i) j c') else none) with
        | some r => some r
        | none => if cnt ≥ lo then k i c else none) := rfl

theorem canMoreB_true {hi : Option Nat} {lo cnt : Nat} {pa : Bool} (h1 : ∀ m, hi = some m → cnt < m)
    (h2 : pa = true ∨ cnt = 0) : canMoreB hi lo cnt pa = true := by
  cases hi with
  | none => rcases h2 with h | h <;> simp [canMoreB, h]
  | some m => have := h1 m rfl; rcases h2 with h | h <;> simp [canMoreB, h] <;> omega

theorem canMoreB_false {lo cnt : Nat} {pa : Bool} : canMoreB (some cnt) lo cnt pa = false := by
  simp [canMoreB]

/-- If exactly `j` further iterations are possible (the class matches at `i .. i+j-1` and then the bound is reached
or the class fails), and the continuation succeeds there, the greedy loop returns that result (no backtracking). -/
theorem repLoop_cls_greedy {R : Type} (x : RxCtx) (items : List ClsItem) (lo : Nat) (hi : Option Nat)
    (k : Nat → Caps → Option R) (c : Caps) (r : R) :
    ∀ (j fuel cnt i : Nat) (pa : Bool),
      (∀ t, t < j → i + t < x.n ∧ clsTest x.t false items (x.chr (i + t)) = true) →
      (hi = some (cnt + j) ∨ ¬ (i + j < x.n ∧ clsTest x.t false items (x.chr (i + j)) = true)) →
      (∀ m, hi = some m → cnt + j ≤ m) →
      lo ≤ cnt + j → j < fuel → (pa = true ∨ cnt = 0) →
      k (i + j) c = some r →
      repLoop (fun i c k => (Rx.cls false items).m x i c k) lo hi true k fuel cnt pa i c = some r := by
  intro j
  induction j with
  | zero =>
    intro fuel cnt i pa _ hstop _ hlo hfuel _ hk
    obtain ⟨f, rfl⟩ : ∃ f, fuel = f + 1 := ⟨fuel - 1, by omega⟩
    simp only [Nat.add_zero] at hstop hlo hk
    have hdone : (if cnt ≥ lo then k i c else none) = some r := by simp [hlo, hk]
    rw [repLoop_succ_greedy]
    rcases hstop with hhi | hno
    · subst hhi
      rw [canMoreB_false]
      exact hdone
    · have : (Rx.cls false items).m x i c
          (fun j c' => repLoop (fun i c k => (Rx.cls false items).m x i c k) lo hi true k f (cnt + 1) (j != i) j c')
          = none := by
        simp only [Rx.m]
        split
        · rename_i h
          simp only [Bool.and_eq_true, decide_eq_true_eq] at h
          exact absurd h hno
        · rfl
      simp only [this, ite_self]
      exact hdone
  | succ j ih =>
    intro fuel cnt i pa hrun hstop hhi hlo hfuel hpa hk
    obtain ⟨f, rfl⟩ : ∃ f, fuel = f + 1 := ⟨fuel - 1, by omega⟩
    have h0 := hrun 0 (by omega)
    simp only [Nat.add_zero] at h0
    have hcan : canMoreB hi lo cnt pa = true :=
      canMoreB_true (fun m hm => by have := hhi m hm; omega) hpa
    have hrec := ih f (cnt + 1) (i + 1) ((i + 1) != i)
      (fun t ht => by have := hrun (t + 1) (by omega); rwa [show i + 1 + t = i + (t + 1) by omega])
      (by rw [show cnt + 1 + j = cnt + (j + 1) by omega, show i + 1 + j = i + (j + 1) by omega]; exact hstop)
      (fun m hm => by have := hhi m hm; omega) (by omega) (by omega) (Or.inl (by simp))
      (by rw [show i + 1 + j = i + (j + 1) by omega]; exact hk)
    rw [repLoop_succ_greedy, hcan]
    have : (Rx.cls false items).m x i c
        (fun j c' => repLoop (fun i c k => (Rx.cls false items).m x i c k) lo hi true k f (cnt + 1) (j != i) j c')
        = some r := by
      simp only [Rx.m]
      rw [if_pos (by simp [h0.1, h0.2])]
      exact hrec
    simp only [if_true, this]

/-- the greedy path of `cls{lo,hi}` followed by a continuation -/
theorem rep_cls_greedy {R : Type} (x : RxCtx) (items : List ClsItem) (lo : Nat) (hi : Option Nat)
    (k : Nat → Caps → Option R) (c : Caps) (r : R) (i j : Nat)
    (hrun : ∀ t, t < j → i + t < x.n ∧ clsTest x.t false items (x.chr (i + t)) = true)
    (hstop : hi = some j ∨ ¬ (i + j < x.n ∧ clsTest x.t false items (x.chr (i + j)) = true))
    (hhi : ∀ m, hi = some m → j ≤ m) (hlo : lo ≤ j) (hle : i + j ≤ x.n)
    (hk : k (i + j) c = some r) :
    (Rx.rep (.cls false items) lo hi true).m x i c k = some r := by
  simp only [Rx.m]
  exact repLoop_cls_greedy x items lo hi k c r j _ 0 i false hrun (by simpa using hstop)
    (by simpa using hhi) (by simpa using hlo) (by omega) (Or.inr rfl) hk

theorem getElem?_mid (a run rest : Str) (t : Nat) (h : t < run.length) :
    (a ++ run ++ rest)[a.length + t]? = some run[t] := by
  rw [List.append_assoc, List.getElem?_append_right (by omega), Nat.add_sub_cancel_left,
    List.getElem?_append_left h, List.getElem?_eq_getElem h]

theorem getElem?_after (a run rest : Str) :
    (a ++ run ++ rest)[a.length + run.length]? = rest.head? := by
  rw [List.getElem?_append_right (by simp), List.length_append, Nat.sub_self]
  cases rest <;> simp

/-- list form of `rep_cls_greedy`: the subject is `a ++ run ++ rest`, the loop starts after `a`, `run` is the maximal
run of class characters (bounded by `hi`) -/
theorem rep_greedy_list {R : Type} (a run rest : Str) (items : List ClsItem) (p : Char → Bool)
    (hp : ∀ ch : Char, clsTest pyCats false items ch.toNat = p ch)
    (lo : Nat) (hi : Option Nat) (k : Nat → Caps → Option R) (c : Caps) (r : R)
    (hrun : ∀ ch ∈ run, p ch = true)
    (hstop : hi = some run.length ∨ rest = [] ∨ ∃ ch r', rest = ch :: r' ∧ p ch = false)
    (hhi : ∀ m, hi = some m → run.length ≤ m) (hlo : lo ≤ run.length)
    (hk : k (a.length + run.length) c = some r) :
    (Rx.rep (.cls false items) lo hi true).m (Py.ctxOf (a ++ run ++ rest)) a.length c k = some r := by
  apply rep_cls_greedy _ items lo hi k c r a.length run.length
  · intro t ht
    refine ⟨by simp [ctxOf_n]; omega, ?_⟩
    rw [ctxOf_chr, getElem?_mid _ _ _ _ ht, ctxOf_t, Option.getD_some, hp]
    exact hrun _ (List.getElem_mem ht)
  · rcases hstop with h | h | ⟨ch, r', h, hch⟩
    · exact Or.inl h
    · right
      subst h
      simp [ctxOf_n]
    · right
      subst h
      rw [ctxOf_chr, getElem?_after, ctxOf_t]
      simp [hp, hch]
  · exact hhi
  · exact hlo
  · simp [ctxOf_n]
  · exact hk

/-! ### line starts -/

/-- `q` is a line start of `s` (what `^` tests under `re.M`) -/
def bolAt (s : Str) (q : Nat) : Prop := q = 0 ∨ s[q - 1]? = some '\n'

instance (s : Str) (q : Nat) : Decidable (bolAt s q) := by unfold bolAt; infer_instance

theorem bol_test (s : Str) (i : Nat) : (i == 0 || (Py.ctxOf s).chr (i - 1) == 10) = true ↔ bolAt s i := by
  rw [ctxOf_chr, bolAt]
  simp only [Bool.or_eq_true, beq_iff_eq]
  constructor
  · rintro (h | h)
    · exact Or.inl h
    · right
      cases hg : s[i - 1]? with
      | none => rw [hg] at h; simp at h
      | some ch =>
        rw [hg] at h
        simp only [Option.getD_some] at h
        rw [show ch = '\n' from Char.toNat_inj.mp h]
  · rintro (h | h)
    · exact Or.inl h
    · right; rw [h]; rfl

theorem bolAt_append_length (a b : Str) : bolAt (a ++ b) a.length ↔ (a = [] ∨ a.getLast? = some '\n') := by
  unfold bolAt
  rcases List.eq_nil_or_concat a with rfl | ⟨a', ch, rfl⟩
  · simp
  · simp

theorem m_seq {R : Type} (x : RxCtx) (a b : Rx) (i : Nat) (c : Caps) (k : Nat → Caps → Option R) :
    (Rx.seq a b).m x i c k = a.m x i c (fun j c' => b.m x j c' k) := rfl

theorem m_bol {R : Type} (s : Str) (i : Nat) (c : Caps) (k : Nat → Caps → Option R) :
    Rx.bol.m (Py.ctxOf s) i c k = if bolAt s i then k i c else none := by
  simp only [Rx.m]
  by_cases h : bolAt s i
  · rw [if_pos ((bol_test s i).mpr h), if_pos h]
  · rw [if_neg (fun h' => h ((bol_test s i).mp h')), if_neg h]

/-! ### the closing-fence regex: success at a closing line -/

def isBlank (ch : Char) : Bool := ch == ' ' || ch == '\t'

/-- `fenceEndRx c n` matches at a line start followed by ≤ 3 blanks, `m ≥ n` fence characters, blanks/tabs and then a
newline or the end of the subject; it stops after that newline / at the end. -/
theorem fenceEnd_matchAt_closer (c : Char) (n m : Nat) (a sp bl tail : Str)
    (hc1 : c ≠ ' ') (hc2 : c ≠ '\t') (hc3 : c ≠ '\n')
    (hbol : a = [] ∨ a.getLast? = some '\n')
    (hsp : ∀ ch ∈ sp, ch = ' ') (hsp3 : sp.length ≤ 3) (hn : 1 ≤ n) (hm : n ≤ m)
    (hbl : ∀ ch ∈ bl, isBlank ch = true)
    (htail : tail = [] ∨ ∃ t', tail = '\n' :: t') :
    (fenceEndRx c n).matchAt (Py.ctxOf (a ++ sp ++ List.replicate m c ++ bl ++ tail)) a.length =
      some { start := a.length,
             stop := a.length + sp.length + m + bl.length + (if tail = [] then 0 else 1), caps := [] } := by
  generalize hS : a ++ sp ++ List.replicate m c ++ bl ++ tail = S
  have hS1 : a ++ sp ++ (List.replicate m c ++ bl ++ tail) = S := by rw [← hS]; simp
  have hS2 : (a ++ sp) ++ List.replicate m c ++ (bl ++ tail) = S := by rw [← hS]; simp
  have hS3 : (a ++ sp ++ List.replicate m c) ++ bl ++ tail = S := hS
  unfold Rx.matchAt fenceEndRx
  rw [m_seq, m_bol, if_pos (by rw [← hS1, List.append_assoc]; exact (bolAt_append_length _ _).mpr hbol)]
  -- the tail: `(?:\n|$)`
  have h4 : (Rx.alt (.cls false [.chr 10]) .eol).m (Py.ctxOf S) (a.length + sp.length + m + bl.length) []
      (fun j c => some ({ start := a.length, stop := j, caps := c } : RxMatch)) =
      some { start := a.length,
             stop := a.length + sp.length + m + bl.length + (if tail = [] then 0 else 1), caps := [] } := by
    have hpos : a.length + sp.length + m + bl.length = (a ++ sp ++ List.replicate m c).length + bl.length := by
      simp; omega
    have hchr : S[a.length + sp.length + m + bl.length]? = tail.head? := by
      rw [hpos, ← hS3, getElem?_after]
    simp only [Rx.m, ctxOf_chr, ctxOf_n, hchr]
    rcases htail with rfl | ⟨t', rfl⟩
    · have hlen : S.length = a.length + sp.length + m + bl.length := by rw [← hS]; simp; omega
      simp [hlen]
    · have hlen : a.length + sp.length + m + bl.length < S.length := by rw [← hS]; simp; omega
      simp [hlen, clsTest, ClsItem.test]
  -- `[ \t]*`
  have h3 := rep_greedy_list (a ++ sp ++ List.replicate m c) bl tail [.chr 32, .chr 9] isBlank
    (fun ch => clsTest_chr2 pyCats ' ' '\t' ch) 0 none
    (fun j c' => (Rx.alt (.cls false [.chr 10]) .eol).m (Py.ctxOf S) j c'
      (fun j c => some ({ start := a.length, stop := j, caps := c } : RxMatch))) [] _ hbl
    (by
      right
      rcases htail with rfl | ⟨t', rfl⟩
      · exact Or.inl rfl
      · exact Or.inr ⟨'\n', t', rfl, by decide⟩)
    (by simp) (by omega)
    (by
      rw [show (a ++ sp ++ List.replicate m c).length + bl.length = a.length + sp.length + m + bl.length by
        simp; omega]
      exact h4)
  rw [hS3] at h3
  -- `c{n,}`
  have h2 := rep_greedy_list (a ++ sp) (List.replicate m c) (bl ++ tail) [.chr c.toNat] (· == c)
    (fun ch => clsTest_chr1 pyCats c ch) n none
    (fun j c' => (Rx.seq (.rep (.cls false [.chr 32, .chr 9]) 0 none true)
      (.alt (.cls false [.chr 10]) .eol)).m (Py.ctxOf S) j c'
      (fun j c => some ({ start := a.length, stop := j, caps := c } : RxMatch))) [] _
    (by intro ch hch; simp [List.eq_of_mem_replicate hch])
    (by
      right
      cases bl with
      | nil =>
        rcases htail with rfl | ⟨t', rfl⟩
        · exact Or.inl rfl
        · exact Or.inr ⟨'\n', t', rfl, by simpa using Ne.symm hc3⟩
      | cons b bl' =>
        refine Or.inr ⟨b, bl' ++ tail, rfl, ?_⟩
        have := hbl b (by simp)
        simp only [isBlank, Bool.or_eq_true, beq_iff_eq] at this
        rcases this with rfl | rfl
        · simpa using Ne.symm hc1
        · simpa using Ne.symm hc2)
    (by simp) (by simpa using hm)
    (by rw [m_seq, show (a ++ sp).length + (List.replicate m c).length = (a ++ sp ++ List.replicate m c).length by
        simp; omega]; exact h3)
  rw [hS2] at h2
  -- ` {0,3}`
  have h1 := rep_greedy_list a sp (List.replicate m c ++ bl ++ tail) [.chr 32] (· == ' ')
    (fun ch => clsTest_chr1 pyCats ' ' ch) 0 (some 3)
    (fun j c' => (Rx.seq (.rep (.cls false [.chr c.toNat]) n none true)
      (.seq (.rep (.cls false [.chr 32, .chr 9]) 0 none true) (.alt (.cls false [.chr 10]) .eol))).m (Py.ctxOf S) j c'
      (fun j c => some ({ start := a.length, stop := j, caps := c } : RxMatch))) [] _
    (by intro ch hch; simp [hsp ch hch])
    (by
      right; right
      obtain ⟨m', rfl⟩ : ∃ m', m = m' + 1 := ⟨m - 1, by omega⟩
      exact ⟨c, List.replicate m' c ++ bl ++ tail, by simp [List.replicate_succ], by simpa using hc1⟩)
    (by intro m' hm'; cases hm'; exact hsp3) (by omega)
    (by rw [m_seq, show a.length + sp.length = (a ++ sp).length by simp]; exact h2)
  rw [hS1] at h1
  rw [m_seq]
  exact h1

/-! ### the closing-fence regex: what a match looks like (from soundness) -/

theorem iter_cls {x : RxCtx} {items : List ClsItem} {cnt i : Nat} {c : Caps} {j : Nat} {c' : Caps}
    (h : Iter (Spec x (.cls false items)) cnt i c j c') :
    j = i + cnt ∧ c' = c ∧ ∀ t, t < cnt → i + t < x.n ∧ clsTest x.t false items (x.chr (i + t)) = true := by
  induction h with
  | zero i c => exact ⟨rfl, rfl, fun t ht => by omega⟩
  | @succ n i0 j0 k0 c0 c1 c2 hs _ ih =>
    simp only [Spec] at hs
    obtain ⟨h1, h2, rfl, rfl⟩ := hs
    obtain ⟨rfl, rfl, h3⟩ := ih
    refine ⟨by omega, rfl, ?_⟩
    intro t ht
    cases t with
    | zero => exact ⟨h1, h2⟩
    | succ t => have := h3 t (by omega); rwa [show i0 + 1 + t = i0 + (t + 1) by omega] at this

/-- a run of `d` characters satisfying `p` from position `q` on -/
theorem run_of_forall (p : Char → Bool) : ∀ (d : Nat) (s : Str) (q : Nat),
    (∀ t, t < d → ∃ ch, s[q + t]? = some ch ∧ p ch = true) →
    ∃ u, u.length = d ∧ (∀ ch ∈ u, p ch = true) ∧ s.drop q = u ++ s.drop (q + d) := by
  intro d
  induction d with
  | zero => intro s q _; exact ⟨[], rfl, by simp, by simp⟩
  | succ d ih =>
    intro s q h
    obtain ⟨ch, hch, hp⟩ := h 0 (by omega)
    simp only [Nat.add_zero] at hch
    obtain ⟨u, hu, hpu, hd⟩ := ih s (q + 1) (fun t ht => by
      have := h (t + 1) (by omega); rwa [show q + 1 + t = q + (t + 1) by omega])
    have hq : q < s.length := by
      rcases Nat.lt_or_ge q s.length with h | h
      · exact h
      · rw [List.getElem?_eq_none h] at hch; cases hch
    refine ⟨ch :: u, by simp [hu], ?_, ?_⟩
    · intro b hb
      rcases List.mem_cons.mp hb with rfl | hb
      · exact hp
      · exact hpu b hb
    · rw [List.drop_eq_getElem_cons hq, hd]
      rw [List.getElem?_eq_getElem hq] at hch
      cases hch
      rw [show q + 1 + d = q + (d + 1) by omega]
      rfl

theorem cls_at (s : Str) (items : List ClsItem) (p : Char → Bool)
    (hp : ∀ ch : Char, clsTest pyCats false items ch.toNat = p ch) (i : Nat)
    (h : i < (Py.ctxOf s).n ∧ clsTest (Py.ctxOf s).t false items ((Py.ctxOf s).chr i) = true) :
    ∃ ch, s[i]? = some ch ∧ p ch = true := by
  obtain ⟨h1, h2⟩ := h
  rw [ctxOf_n] at h1
  rw [ctxOf_chr, ctxOf_t, List.getElem?_eq_getElem h1, Option.getD_some, hp] at h2
  exact ⟨s[i], List.getElem?_eq_getElem h1, h2⟩

theorem spec_seq {x : RxCtx} {a b : Rx} {i : Nat} {c : Caps} {j : Nat} {c' : Caps} :
    Spec x (.seq a b) i c j c' ↔ ∃ m cm, Spec x a i c m cm ∧ Spec x b m cm j c' := Iff.rfl

theorem spec_rep {x : RxCtx} {r : Rx} {mn : Nat} {mx : Option Nat} {g : Bool} {i : Nat} {c : Caps} {j : Nat}
    {c' : Caps} : Spec x (.rep r mn mx g) i c j c' ↔
      ∃ cnt, mn ≤ cnt ∧ (∀ m, mx = some m → cnt ≤ m) ∧ Iter (Spec x r) cnt i c j c' := Iff.rfl

/-- what a match of `fenceEndRx c n` at `q` looks like -/
theorem fenceEnd_matchAt_sound (c : Char) (n : Nat) (s : Str) (q : Nat) (mt : RxMatch)
    (h : (fenceEndRx c n).matchAt (Py.ctxOf s) q = some mt) :
    bolAt s q ∧ ∃ sp m bl tail, s.drop q = sp ++ List.replicate m c ++ bl ++ tail ∧
      (∀ ch ∈ sp, ch = ' ') ∧ sp.length ≤ 3 ∧ n ≤ m ∧ (∀ ch ∈ bl, isBlank ch = true) ∧
      (tail = [] ∨ ∃ t', tail = '\n' :: t') := by
  obtain ⟨_, hs⟩ := matchAt_sound _ _ _ _ h
  unfold fenceEndRx at hs
  obtain ⟨i0, c0, hbol, hs⟩ := spec_seq.mp hs
  obtain ⟨i1, c1, h1, hs⟩ := spec_seq.mp hs
  obtain ⟨i2, c2, h2, hs⟩ := spec_seq.mp hs
  obtain ⟨i3, c3, h3, h4⟩ := spec_seq.mp hs
  simp only [Spec] at hbol
  obtain ⟨hbol, rfl, rfl⟩ := hbol
  obtain ⟨n1, _, hn1, hit1⟩ := spec_rep.mp h1
  obtain ⟨n2, hn2, _, hit2⟩ := spec_rep.mp h2
  obtain ⟨n3, _, _, hit3⟩ := spec_rep.mp h3
  obtain ⟨rfl, rfl, hr1⟩ := iter_cls hit1
  obtain ⟨rfl, rfl, hr2⟩ := iter_cls hit2
  obtain ⟨rfl, rfl, hr3⟩ := iter_cls hit3
  have hn1' : n1 ≤ 3 := hn1 3 rfl
  refine ⟨(bol_test s i0).mp (by
    rcases hbol with h | h
    · simp [h]
    · simp [h]), ?_⟩
  obtain ⟨sp, hsp1, hsp2, hd1⟩ := run_of_forall (· == ' ') n1 s i0
    (fun t ht => cls_at s _ _ (fun ch => clsTest_chr1 pyCats ' ' ch) _ (hr1 t ht))
  obtain ⟨cs, hcs1, hcs2, hd2⟩ := run_of_forall (· == c) n2 s (i0 + n1)
    (fun t ht => cls_at s _ _ (fun ch => clsTest_chr1 pyCats c ch) _ (hr2 t ht))
  obtain ⟨bl, hbl1, hbl2, hd3⟩ := run_of_forall isBlank n3 s (i0 + n1 + n2)
    (fun t ht => cls_at s _ _ (fun ch => clsTest_chr2 pyCats ' ' '\t' ch) _ (hr3 t ht))
  have hcs : cs = List.replicate n2 c :=
    List.eq_replicate_iff.mpr ⟨hcs1, fun b hb => by simpa using hcs2 b hb⟩
  refine ⟨sp, n2, bl, s.drop (i0 + n1 + n2 + n3), ?_, fun ch hch => by simpa using hsp2 ch hch,
    by omega, hn2, hbl2, ?_⟩
  · rw [hd1, hd2, hd3, hcs]; simp
  · -- the tail
    simp only [Spec] at h4
    have key : i0 + n1 + n2 + n3 = s.length ∨ s[i0 + n1 + n2 + n3]? = some '\n' := by
      rcases h4 with ⟨h5, h6, _⟩ | ⟨h5 | ⟨h5, h6⟩, _⟩
      · right
        obtain ⟨ch, hch, hp⟩ := cls_at s [.chr 10] (· == '\n') (fun ch => clsTest_chr1 pyCats '\n' ch) _ ⟨h5, h6⟩
        rw [hch]; simpa using hp
      · left; rw [h5, ctxOf_n]
      · right
        rw [ctxOf_n] at h5
        rw [ctxOf_chr, List.getElem?_eq_getElem h5, Option.getD_some] at h6
        rw [List.getElem?_eq_getElem h5, show s[i0 + n1 + n2 + n3] = '\n' from Char.toNat_inj.mp h6]
    rcases key with hk | hk
    · left; rw [hk]; simp
    · right
      have hlt : i0 + n1 + n2 + n3 < s.length := by
        rcases Nat.lt_or_ge (i0 + n1 + n2 + n3) s.length with h | h
        · exact h
        · rw [List.getElem?_eq_none h] at hk; cases hk
      rw [List.getElem?_eq_getElem hlt, Option.some.injEq] at hk
      exact ⟨_, by rw [List.drop_eq_getElem_cons hlt, hk]⟩

/-! ### closing fence lines, lines of a text, the per-line trim (list level) -/

/-- `line` is a closing fence line for fence character `c` and opening length `n`: at most three blanks, at least `n`
times `c`, then only blanks and tabs -/
def isCloser (c : Char) (n : Nat) (line : Str) : Bool :=
  let sp := line.takeWhile (· == ' ')
  let r1 := line.dropWhile (· == ' ')
  let cs := r1.takeWhile (· == c)
  let r2 := r1.dropWhile (· == c)
  decide (sp.length ≤ 3) && decide (n ≤ cs.length) && r2.all isBlank

theorem takeWhile_nil_of_head {p : Char → Bool} {l : Str} (h : ∀ ch r, l = ch :: r → p ch = false) :
    l.takeWhile p = [] := by
  cases l with
  | nil => rfl
  | cons ch r => simp [h ch r rfl]

theorem dropWhile_id_of_head {p : Char → Bool} {l : Str} (h : ∀ ch r, l = ch :: r → p ch = false) :
    l.dropWhile p = l := by
  cases l with
  | nil => rfl
  | cons ch r => simp [h ch r rfl]

theorem mem_takeWhile_pos {p : Char → Bool} {l : Str} {ch : Char} (h : ch ∈ l.takeWhile p) : p ch = true := by
  induction l with
  | nil => simp at h
  | cons a r ih =>
    rw [List.takeWhile_cons] at h
    split at h
    · rcases List.mem_cons.mp h with rfl | h
      · assumption
      · exact ih h
    · simp at h

/-- every line of the declared shape is a closing fence line -/
theorem isCloser_of_shape (c : Char) (n m : Nat) (sp bl : Str) (hc1 : c ≠ ' ') (hc2 : c ≠ '\t') (hn : 1 ≤ n)
    (hsp : ∀ ch ∈ sp, ch = ' ') (hsp3 : sp.length ≤ 3) (hm : n ≤ m) (hbl : ∀ ch ∈ bl, isBlank ch = true) :
    isCloser c n (sp ++ List.replicate m c ++ bl) = true := by
  obtain ⟨m', rfl⟩ : ∃ m', m = m' + 1 := ⟨m - 1, by omega⟩
  have hblc : ∀ ch r, bl = ch :: r → (ch == c) = false := by
    intro ch r h
    have := hbl ch (by simp [h])
    simp only [isBlank, Bool.or_eq_true, beq_iff_eq] at this
    rcases this with rfl | rfl
    · simpa using Ne.symm hc1
    · simpa using Ne.symm hc2
  have hsp' : ∀ ch ∈ sp, (ch == ' ') = true := fun ch hch => by simp [hsp ch hch]
  have hrep : ∀ ch ∈ List.replicate (m' + 1) c, (ch == c) = true := fun ch hch => by
    simp [List.eq_of_mem_replicate hch]
  have h1 : (sp ++ List.replicate (m' + 1) c ++ bl).takeWhile (· == ' ') = sp := by
    rw [List.append_assoc, List.takeWhile_append_of_pos hsp', List.replicate_succ]
    simp [hc1]
  have h2 : (sp ++ List.replicate (m' + 1) c ++ bl).dropWhile (· == ' ') = List.replicate (m' + 1) c ++ bl := by
    rw [List.append_assoc, List.dropWhile_append_of_pos hsp', List.replicate_succ]
    simp [hc1]
  have h3 : (List.replicate (m' + 1) c ++ bl).takeWhile (· == c) = List.replicate (m' + 1) c := by
    rw [List.takeWhile_append_of_pos hrep, takeWhile_nil_of_head hblc, List.append_nil]
  have h4 : (List.replicate (m' + 1) c ++ bl).dropWhile (· == c) = bl := by
    rw [List.dropWhile_append_of_pos hrep, dropWhile_id_of_head hblc]
  simp only [isCloser, h1, h2, h3, h4, List.length_replicate, Bool.and_eq_true, decide_eq_true_eq, List.all_eq_true]
  exact ⟨⟨hsp3, hm⟩, hbl⟩

/-- conversely, a closing fence line has the declared shape (no side condition) -/
theorem shape_of_isCloser (c : Char) (n : Nat) (line : Str) (h : isCloser c n line = true) :
    ∃ sp m bl, line = sp ++ List.replicate m c ++ bl ∧ (∀ ch ∈ sp, ch = ' ') ∧ sp.length ≤ 3 ∧ n ≤ m ∧
      (∀ ch ∈ bl, isBlank ch = true) := by
  simp only [isCloser, Bool.and_eq_true, decide_eq_true_eq, List.all_eq_true] at h
  obtain ⟨⟨h1, h2⟩, h3⟩ := h
  refine ⟨line.takeWhile (· == ' '), ((line.dropWhile (· == ' ')).takeWhile (· == c)).length,
    (line.dropWhile (· == ' ')).dropWhile (· == c), ?_, ?_, h1, h2, h3⟩
  · have : List.replicate ((line.dropWhile (· == ' ')).takeWhile (· == c)).length c =
        (line.dropWhile (· == ' ')).takeWhile (· == c) := by
      symm
      rw [List.eq_replicate_iff]
      exact ⟨rfl, fun b hb => by simpa using (mem_takeWhile_pos hb)⟩
    rw [this, List.append_assoc, List.takeWhile_append_dropWhile, List.takeWhile_append_dropWhile]
  · intro ch hch
    simpa using (mem_takeWhile_pos hch)

/-- put a character in front of the first line -/
def consHead (ch : Char) : List Str → List Str
  | l :: ls => (ch :: l) :: ls
  | [] => [[ch]]

/-- `t.split("\n")`: the lines of `t` (always at least one; a trailing newline gives a last empty line) -/
def splitNl : Str → List Str
  | [] => [[]]
  | ch :: r => if ch = '\n' then [] :: splitNl r else consHead ch (splitNl r)

/-- remove `min k (number of leading blanks)` leading blanks -/
def dropUpTo : Nat → Str → Str
  | 0, l => l
  | _ + 1, [] => []
  | k + 1, ch :: r => if ch = ' ' then dropUpTo k r else ch :: r

/-- `min k (number of leading blanks)` -/
def spRun : Nat → Str → Nat
  | 0, _ => 0
  | _ + 1, [] => 0
  | k + 1, ch :: r => if ch = ' ' then spRun k r + 1 else 0

/-- strip up to `k` leading blanks from every line -/
def trimLines (k : Nat) (t : Str) : Str := Py.join ['\n'] ((splitNl t).map (dropUpTo k))

/-- the same, except for the first line (the text starts in the middle of a line) -/
def midLines (k : Nat) (t : Str) : Str :=
  match splitNl t with
  | l :: ls => Py.join ['\n'] (l :: ls.map (dropUpTo k))
  | [] => []

theorem spRun_eq (k : Nat) (l : Str) : spRun k l = min k (l.takeWhile (· == ' ')).length := by
  induction k generalizing l with
  | zero => simp [spRun]
  | succ k ih =>
    cases l with
    | nil => simp [spRun]
    | cons ch r =>
      by_cases h : ch = ' '
      · subst h; simp [spRun, ih]
      · simp [spRun, h]

theorem dropUpTo_eq (k : Nat) (l : Str) : dropUpTo k l = l.drop (spRun k l) := by
  induction k generalizing l with
  | zero => simp [dropUpTo, spRun]
  | succ k ih =>
    cases l with
    | nil => simp [dropUpTo, spRun]
    | cons ch r =>
      by_cases h : ch = ' '
      · subst h; simp [dropUpTo, spRun, ih]
      · simp [dropUpTo, spRun, h]

theorem dropUpTo_zero (l : Str) : dropUpTo 0 l = l := rfl

theorem dropUpTo_nil (k : Nat) : dropUpTo k [] = [] := by cases k <;> rfl

/-- the blanks counted by `spRun`: a maximal run of at most `k` blanks -/
theorem spRun_spec (k : Nat) (b : Str) :
    ∃ run rest, b = run ++ rest ∧ run.length = spRun k b ∧ (∀ ch ∈ run, ch = ' ') ∧ spRun k b ≤ k ∧
      (spRun k b = k ∨ rest = [] ∨ ∃ ch r', rest = ch :: r' ∧ ch ≠ ' ') := by
  induction k generalizing b with
  | zero => exact ⟨[], b, rfl, by simp [spRun], by simp, by simp [spRun], Or.inl (by simp [spRun])⟩
  | succ k ih =>
    cases b with
    | nil => exact ⟨[], [], rfl, by simp [spRun], by simp, by simp [spRun], Or.inr (Or.inl rfl)⟩
    | cons ch r =>
      by_cases h : ch = ' '
      · subst h
        obtain ⟨run, rest, h1, h2, h3, h4, h5⟩ := ih r
        refine ⟨' ' :: run, rest, by rw [h1]; rfl, by simp [spRun, h2], ?_, by simp [spRun]; omega, ?_⟩
        · intro ch hch
          rcases List.mem_cons.mp hch with rfl | hch
          · rfl
          · exact h3 ch hch
        · rcases h5 with h5 | h5
          · left; simp [spRun, h5]
          · right; exact h5
      · exact ⟨[], ch :: r, rfl, by simp [spRun, h], by simp, by simp [spRun, h],
          Or.inr (Or.inr ⟨ch, r, rfl, h⟩)⟩

theorem splitNl_ne_nil (t : Str) : splitNl t ≠ [] := by
  cases t with
  | nil => simp [splitNl]
  | cons ch r =>
    simp only [splitNl]
    split
    · simp
    · cases splitNl r <;> simp [consHead]

theorem consHead_append (ch : Char) (ls ms : List Str) (h : ls ≠ []) :
    consHead ch (ls ++ ms) = consHead ch ls ++ ms := by
  cases ls with
  | nil => exact absurd rfl h
  | cons l ls => rfl

theorem splitNl_append_nl (u v : Str) : splitNl (u ++ '\n' :: v) = splitNl u ++ splitNl v := by
  induction u with
  | nil => simp [splitNl]
  | cons ch r ih =>
    simp only [List.cons_append, splitNl]
    split
    · rw [ih]; rfl
    · rw [ih, consHead_append _ _ _ (splitNl_ne_nil r)]

theorem splitNl_no_nl (u : Str) (h : '\n' ∉ u) : splitNl u = [u] := by
  induction u with
  | nil => rfl
  | cons ch r ih =>
    have h1 : ch ≠ '\n' := fun e => h (by simp [e])
    have h2 : '\n' ∉ r := fun e => h (by simp [e])
    simp [splitNl, h1, ih h2, consHead]

theorem splitNl_line_nl (u v : Str) (h : '\n' ∉ u) : splitNl (u ++ '\n' :: v) = u :: splitNl v := by
  rw [splitNl_append_nl, splitNl_no_nl u h]; rfl

theorem join_splitNl (t : Str) : Py.join ['\n'] (splitNl t) = t := by
  induction t with
  | nil => rfl
  | cons ch r ih =>
    simp only [splitNl]
    split
    · rename_i h
      subst h
      have := splitNl_ne_nil r
      cases hs : splitNl r with
      | nil => exact absurd hs this
      | cons l ls => rw [hs] at ih; simp only [Py.join]; rw [ih]; rfl
    · cases hs : splitNl r with
      | nil => exact absurd hs (splitNl_ne_nil r)
      | cons l ls =>
        rw [hs] at ih
        cases ls with
        | nil => simp only [consHead, Py.join] at ih ⊢; rw [ih]
        | cons l2 ls2 => simp only [consHead, Py.join] at ih ⊢; rw [← ih]; simp

theorem trimLines_zero (t : Str) : trimLines 0 t = t := by
  unfold trimLines
  rw [show (splitNl t).map (dropUpTo 0) = splitNl t from by
    rw [show dropUpTo 0 = id from rfl]; simp]
  exact join_splitNl t

theorem trimLines_nil (k : Nat) : trimLines k [] = [] := by
  simp [trimLines, splitNl, dropUpTo_nil, Py.join]

theorem midLines_nil (k : Nat) : midLines k [] = [] := rfl

theorem midLines_nl (k : Nat) (r : Str) : midLines k ('\n' :: r) = '\n' :: trimLines k r := by
  unfold midLines trimLines
  cases hs : splitNl r with
  | nil => exact absurd hs (splitNl_ne_nil r)
  | cons l ls => simp [splitNl, hs, Py.join]

theorem midLines_cons (k : Nat) (ch : Char) (r : Str) (h : ch ≠ '\n') :
    midLines k (ch :: r) = ch :: midLines k r := by
  unfold midLines
  cases hs : splitNl r with
  | nil => exact absurd hs (splitNl_ne_nil r)
  | cons l ls =>
    simp only [splitNl, h, if_false, hs, consHead]
    cases ls with
    | nil => simp [Py.join]
    | cons l2 ls2 => simp [Py.join]

theorem splitNl_dropUpTo (k : Nat) (b l : Str) (ls : List Str) (h : splitNl b = l :: ls) :
    splitNl (dropUpTo k b) = dropUpTo k l :: ls := by
  induction k generalizing b l with
  | zero => exact h
  | succ k ih =>
    cases b with
    | nil => simp only [splitNl, List.cons.injEq] at h; obtain ⟨rfl, rfl⟩ := h; rfl
    | cons ch r =>
      by_cases hch : ch = ' '
      · subst hch
        cases hs : splitNl r with
        | nil => exact absurd hs (splitNl_ne_nil r)
        | cons l' ls' =>
          simp only [splitNl, show (' ' : Char) ≠ '\n' by decide, if_false, hs, consHead, List.cons.injEq] at h
          obtain ⟨rfl, rfl⟩ := h
          simp only [dropUpTo, if_true]
          exact ih r l' hs
      · by_cases hnl : ch = '\n'
        · subst hnl
          simp only [splitNl, if_true, List.cons.injEq] at h
          obtain ⟨rfl, rfl⟩ := h
          simp [dropUpTo, splitNl]
        · cases hs : splitNl r with
          | nil => exact absurd hs (splitNl_ne_nil r)
          | cons l' ls' =>
            simp only [splitNl, hnl, if_false, hs, consHead, List.cons.injEq] at h
            obtain ⟨rfl, rfl⟩ := h
            simp [dropUpTo, hch, splitNl, hnl, hs, consHead]

theorem trimLines_eq_mid (k : Nat) (b : Str) : trimLines k b = midLines k (dropUpTo k b) := by
  unfold trimLines midLines
  cases hs : splitNl b with
  | nil => exact absurd hs (splitNl_ne_nil b)
  | cons l ls => rw [splitNl_dropUpTo k b l ls hs]; rfl

theorem midLines_no_nl (k : Nat) (u : Str) (h : '\n' ∉ u) : midLines k u = u := by
  unfold midLines
  rw [splitNl_no_nl u h]; rfl

theorem midLines_line_nl (k : Nat) (u v : Str) (h : '\n' ∉ u) :
    midLines k (u ++ '\n' :: v) = u ++ '\n' :: trimLines k v := by
  induction u with
  | nil => exact midLines_nl k v
  | cons ch r ih =>
    have h1 : ch ≠ '\n' := fun e => h (by simp [e])
    have h2 : '\n' ∉ r := fun e => h (by simp [e])
    rw [List.cons_append, midLines_cons k ch _ h1, ih h2]; rfl

theorem trimLines_line_nl (k : Nat) (u v : Str) (h : '\n' ∉ u) :
    trimLines k (u ++ '\n' :: v) = dropUpTo k u ++ '\n' :: trimLines k v := by
  unfold trimLines
  rw [splitNl_line_nl u v h]
  cases hs : splitNl v with
  | nil => exact absurd hs (splitNl_ne_nil v)
  | cons l ls => simp [Py.join]

/-- `trimLines` on a text made of complete lines -/
theorem trimLines_flatten (k : Nat) (lines : List Str) (h : ∀ l ∈ lines, '\n' ∉ l) :
    trimLines k (lines.map (· ++ ['\n'])).flatten = (lines.map (fun l => dropUpTo k l ++ ['\n'])).flatten := by
  induction lines with
  | nil => exact trimLines_nil k
  | cons l ls ih =>
    simp only [List.map_cons, List.flatten_cons, List.append_assoc, List.singleton_append]
    rw [trimLines_line_nl k l _ (h l (by simp)), ih (fun l' hl' => h l' (by simp [hl']))]

/-! ### `search` from the first matching position -/

theorem search_first (r : Rx) (x : RxCtx) (p q : Nat) (mt : RxMatch) (hpq : p ≤ q) (hq : q ≤ x.n)
    (hfail : ∀ i, p ≤ i → i < q → r.matchAt x i = none) (hm : r.matchAt x q = some mt) :
    r.search x p = some mt := by
  cases hsr : r.search x p with
  | none => have := search_none x r p hsr q hpq hq; rw [this] at hm; cases hm
  | some mt' =>
    unfold Rx.search at hsr
    obtain ⟨h1, h2, h3, h4⟩ := searchFrom_sound x r _ _ _ hsr
    rcases Nat.lt_trichotomy mt'.start q with h | h | h
    · rw [hfail _ h1 h] at h3; cases h3
    · rw [h, hm] at h3; exact h3.symm
    · rw [h4 q hpq h] at hm; cases hm

theorem search_all_none (r : Rx) (x : RxCtx) (p : Nat)
    (hfail : ∀ i, p ≤ i → i ≤ x.n → r.matchAt x i = none) : r.search x p = none := by
  cases hsr : r.search x p with
  | none => rfl
  | some mt' =>
    unfold Rx.search at hsr
    obtain ⟨h1, h2, h3, _⟩ := searchFrom_sound x r _ _ _ hsr
    rw [hfail _ h1 h2] at h3; cases h3

/-! ### the trim regex `^ {0,k}` -/

theorem trim_matchAt (k : Nat) (t : Str) (q : Nat) (hq : q ≤ t.length) :
    (trimRx k).matchAt (Py.ctxOf t) q =
      if bolAt t q then some { start := q, stop := q + spRun k (t.drop q), caps := [] } else none := by
  unfold Rx.matchAt trimRx
  rw [m_seq, m_bol]
  by_cases hb : bolAt t q
  · rw [if_pos hb, if_pos hb]
    obtain ⟨run, rest, h1, h2, h3, h4, h5⟩ := spRun_spec k (t.drop q)
    have ht : t.take q ++ run ++ rest = t := by rw [List.append_assoc, ← h1, List.take_append_drop]
    have hlen : (t.take q).length = q := by simp [hq]
    have := rep_greedy_list (t.take q) run rest [.chr 32] (· == ' ') (fun ch => clsTest_chr1 pyCats ' ' ch)
      0 (some k) (fun j c => some ({ start := q, stop := j, caps := c } : RxMatch)) [] _
      (fun ch hch => by simp [h3 ch hch])
      (by
        rcases h5 with h5 | h5 | ⟨ch, r', h5, h6⟩
        · left; rw [h2, h5]
        · right; left; exact h5
        · right; right; exact ⟨ch, r', h5, by simpa using h6⟩)
      (by intro m hm; cases hm; omega) (by omega) rfl
    rw [ht, hlen, h2] at this
    exact this
  · rw [if_neg hb, if_neg hb]

theorem trim_search_bol (k : Nat) (t : Str) (p : Nat) (hp : p ≤ t.length) (hb : bolAt t p) :
    (trimRx k).search (Py.ctxOf t) p = some { start := p, stop := p + spRun k (t.drop p), caps := [] } := by
  apply search_first _ _ p p _ (Nat.le_refl _) (by rw [ctxOf_n]; exact hp) (fun i h1 h2 => by omega)
  rw [trim_matchAt k t p hp, if_pos hb]

theorem not_bol_of_mem (t : Str) (i : Nat) (hi : 0 < i) (h : ∀ ch, t[i - 1]? = some ch → ch ≠ '\n') :
    ¬ bolAt t i := by
  rintro (h0 | h1)
  · omega
  · exact h _ h1 rfl

theorem trim_search_next (k : Nat) (t : Str) (p : Nat) (u v : Str) (hb : ¬ bolAt t p)
    (hd : t.drop p = u ++ '\n' :: v) (hu : '\n' ∉ u) :
    (trimRx k).search (Py.ctxOf t) p =
      some { start := p + u.length + 1, stop := p + u.length + 1 + spRun k v, caps := [] } := by
  have hlen : p + u.length + 1 + v.length = t.length := by
    have := congrArg List.length hd
    simp at this; omega
  have hget : ∀ j, t[p + j]? = (u ++ '\n' :: v)[j]? := fun j => by rw [← hd, List.getElem?_drop]
  apply search_first _ _ p (p + u.length + 1) _ (by omega) (by rw [ctxOf_n]; omega)
  · intro i h1 h2
    rw [trim_matchAt k t i (by omega), if_neg]
    by_cases hip : i = p
    · rw [hip]; exact hb
    · apply not_bol_of_mem t i (by omega)
      intro ch hch
      rw [show i - 1 = p + (i - 1 - p) by omega, hget, List.getElem?_append_left (by omega)] at hch
      have hmem : ch ∈ u := List.mem_of_getElem? hch
      exact fun e => hu (e ▸ hmem)
  · rw [trim_matchAt k t _ (by omega), if_pos]
    · rw [show p + u.length + 1 = p + (u.length + 1) by omega, ← List.drop_drop, hd]
      simp
    · right
      rw [show p + u.length + 1 - 1 = p + u.length by omega, hget]
      simp

theorem trim_search_none (k : Nat) (t : Str) (p : Nat) (hb : ¬ bolAt t p) (hu : '\n' ∉ t.drop p) :
    (trimRx k).search (Py.ctxOf t) p = none := by
  apply search_all_none
  intro i h1 h2
  rw [ctxOf_n] at h2
  rw [trim_matchAt k t i h2, if_neg]
  by_cases hip : i = p
  · rw [hip]; exact hb
  · apply not_bol_of_mem t i (by omega)
    intro ch hch
    rw [show i - 1 = p + (i - 1 - p) by omega, ← List.getElem?_drop] at hch
    have hmem : ch ∈ t.drop p := List.mem_of_getElem? hch
    exact fun e => hu (e ▸ hmem)

/-! ### the `sub` loop for the trim regex -/

theorem first_nl_split (b : Str) (h : '\n' ∈ b) : ∃ u v, b = u ++ '\n' :: v ∧ '\n' ∉ u := by
  induction b with
  | nil => simp at h
  | cons ch r ih =>
    by_cases hch : ch = '\n'
    · exact ⟨[], r, by simp [hch], by simp⟩
    · have : '\n' ∈ r := by
        rcases List.mem_cons.mp h with e | e
        · exact absurd e.symm hch
        · exact e
      obtain ⟨u, v, h1, h2⟩ := ih this
      refine ⟨ch :: u, v, by simp [h1], ?_⟩
      intro e
      rcases List.mem_cons.mp e with e | e
      · exact hch e.symm
      · exact h2 e

/-- what the loop does once it has found the match at a line start `q` -/
theorem trim_step (k : Nat) (t : Str) (fuel : Nat)
    (ih : ∀ (p : Nat) (acc : Str), p ≤ t.length → t.length + 1 ≤ fuel + p →
      Py.reSub.go (trimRx k) (fun _ _ => []) (Py.ctxOf t) fuel p p acc =
        acc ++ (if bolAt t p then trimLines k (t.drop p) else midLines k (t.drop p)))
    (q : Nat) (acc : Str) (hq : q ≤ t.length) (hf : t.length + 1 ≤ fuel + q + 1) :
    (if (q + spRun k (t.drop q) == q) = true then
        if q < (Py.ctxOf t).n then
          Py.reSub.go (trimRx k) (fun _ _ => []) (Py.ctxOf t) fuel (q + 1) (q + 1)
            (acc ++ [(Py.ctxOf t).s.getD q ' '])
        else acc
      else Py.reSub.go (trimRx k) (fun _ _ => []) (Py.ctxOf t) fuel (q + spRun k (t.drop q))
        (q + spRun k (t.drop q)) acc) = acc ++ trimLines k (t.drop q) := by
  rw [trimLines_eq_mid, dropUpTo_eq, List.drop_drop]
  obtain ⟨run, rest, h1, h2, h3, h4, h5⟩ := spRun_spec k (t.drop q)
  generalize spRun k (t.drop q) = j at *
  by_cases hj : j = 0
  · rw [hj]
    simp only [Nat.add_zero, beq_self_eq_true, if_true, ctxOf_n]
    by_cases hlt : q < t.length
    · rw [if_pos hlt, ih (q + 1) _ (by omega) (by omega)]
      have hd : t.drop q = t[q] :: t.drop (q + 1) := List.drop_eq_getElem_cons hlt
      have hg : (Py.ctxOf t).s.getD q ' ' = t[q] := by simp [ctxOf_s, hlt]
      rw [hg, hd]
      by_cases hnl : t[q] = '\n'
      · rw [if_pos (show bolAt t (q + 1) from Or.inr (by simp [List.getElem?_eq_getElem hlt, hnl])), hnl,
          midLines_nl]
        simp
      · rw [if_neg (not_bol_of_mem t (q + 1) (by omega) (by
          intro ch hch
          simp only [Nat.add_sub_cancel, List.getElem?_eq_getElem hlt, Option.some.injEq] at hch
          exact hch ▸ hnl)), midLines_cons _ _ _ hnl]
        simp
    · rw [if_neg hlt, List.drop_of_length_le (by omega), midLines_nil, List.append_nil]
  · have hne : (q + j == q) = false := by simp; omega
    rw [hne]
    simp only [Bool.false_eq_true, if_false]
    have hlen : q + j ≤ t.length := by
      have := congrArg List.length h1
      simp at this; omega
    rw [ih _ _ hlen (by omega), if_neg]
    apply not_bol_of_mem t _ (by omega)
    intro ch hch
    -- the character before is a blank of the run
    have hlt : j - 1 < run.length := by omega
    have : t[q + (j - 1)]? = some ' ' := by
      rw [← List.getElem?_drop, h1, List.getElem?_append_left hlt,
        List.getElem?_eq_getElem hlt, h3 _ (List.getElem_mem hlt)]
    rw [show q + j - 1 = q + (j - 1) by omega, this] at hch
    cases hch
    decide

/-- loop invariant of `sub` for the trim regex -/
theorem trim_go (k : Nat) (t : Str) : ∀ (fuel p : Nat) (acc : Str), p ≤ t.length → t.length + 1 ≤ fuel + p →
    Py.reSub.go (trimRx k) (fun _ _ => []) (Py.ctxOf t) fuel p p acc =
      acc ++ (if bolAt t p then trimLines k (t.drop p) else midLines k (t.drop p)) := by
  intro fuel
  induction fuel with
  | zero => intro p acc h1 h2; omega
  | succ fuel ih =>
    intro p acc hp hf
    rw [Py.reSub.go, if_neg (by rw [ctxOf_n]; omega)]
    by_cases hb : bolAt t p
    · rw [trim_search_bol k t p hp hb, if_pos hb]
      simp only [ctxOf_s, slice_toArray, Nat.sub_self, List.take_zero, List.append_nil]
      have := trim_step k t fuel ih p acc hp (by omega)
      simp only [ctxOf_s] at this
      exact this
    · rw [if_neg hb]
      by_cases hnl : '\n' ∈ t.drop p
      · obtain ⟨u, v, hd, hu⟩ := first_nl_split _ hnl
        have hlen : p + u.length + 1 + v.length = t.length := by
          have := congrArg List.length hd
          simp at this; omega
        rw [trim_search_next k t p u v hb hd hu, hd, midLines_line_nl k u v hu]
        simp only [ctxOf_s, slice_toArray, List.append_nil]
        have hv : v = t.drop (p + u.length + 1) := by
          rw [show p + u.length + 1 = p + (u.length + 1) by omega, ← List.drop_drop, hd]; simp
        have hsl : (t.drop p).take (p + u.length + 1 - p) = u ++ ['\n'] := by
          rw [hd, show p + u.length + 1 - p = (u ++ ['\n']).length by simp; omega,
            show u ++ '\n' :: v = (u ++ ['\n']) ++ v by simp, List.take_left]
        rw [hsl]
        have := trim_step k t fuel ih (p + u.length + 1) (acc ++ (u ++ ['\n'])) (by omega) (by omega)
        simp only [ctxOf_s] at this
        rw [← hv] at this
        rw [this]
        simp
      · rw [trim_search_none k t p hb hnl, midLines_no_nl k _ hnl]
        simp only [ctxOf_s, ctxOf_n, slice_toArray]
        rw [List.take_of_length_le (by simp)]

/-- **`^ {0,k}` substituted by the empty string strips up to `k` leading blanks of every line.** -/
theorem reSub_trim (k : Nat) (t : Str) : Py.reSub (trimRx k) (fun _ _ => []) t = trimLines k t := by
  unfold Py.reSub
  have := trim_go k t (t.length + 2) 0 [] (by omega) (by omega)
  simp only [List.nil_append, List.drop_zero] at this
  rw [if_pos (show bolAt t 0 from Or.inl rfl)] at this
  exact this

/-! ### the two theorems about `fencedBody` -/

/-- the conditional trim of `parse_fenced_code` (`if spaces and code:`) is `trimLines` in every case -/
theorem trim_code (k : Nat) (code : Str) :
    (if (k != 0 && !code.isEmpty) = true then Py.reSub (trimRx k) (fun _ _ => []) code else code) =
      trimLines k code := by
  by_cases hk : k = 0
  · subst hk; simp [trimLines_zero]
  · cases code with
    | nil => simp [trimLines_nil]
    | cons ch r => simp [hk, reSub_trim]

theorem fencedBody_eq (x : RxCtx) (cursorMax : Nat) (c : Char) (n k cursorStart : Nat) :
    fencedBody x cursorMax c n k cursorStart =
      match Py.search (fenceEndRx c n) x cursorStart with
      | some m2 => (trimLines k (Py.slice x.s cursorStart m2.start), m2.stop)
      | none => (trimLines k (Py.slice x.s cursorStart x.s.size), cursorMax) := by
  unfold fencedBody
  cases Py.search (fenceEndRx c n) x cursorStart with
  | none => simp only [trim_code]
  | some m2 => simp only [trim_code]

/-- the line found at a matching position is one of the lines of the text from `p` on -/
theorem line_mem (s : Str) (p i : Nat) (l tail : Str) (hpi : p ≤ i) (hi : i ≤ s.length)
    (hb : i = p ∨ bolAt s i) (hd : s.drop i = l ++ tail) (hl : '\n' ∉ l)
    (htail : tail = [] ∨ ∃ t', tail = '\n' :: t') : l ∈ splitNl (s.drop p) := by
  have h1 : l ∈ splitNl (s.drop i) := by
    rw [hd]
    rcases htail with rfl | ⟨t', rfl⟩
    · rw [List.append_nil, splitNl_no_nl l hl]; simp
    · rw [splitNl_line_nl l t' hl]; simp
  by_cases hip : i = p
  · rw [← hip]; exact h1
  · have hb' : s[i - 1]? = some '\n' := by
      rcases hb with h | h | h
      · exact absurd h hip
      · omega
      · exact h
    have hlt : i - 1 < s.length := by omega
    rw [List.getElem?_eq_getElem hlt, Option.some.injEq] at hb'
    have : s.drop p = (s.drop p).take (i - 1 - p) ++ '\n' :: s.drop i := by
      conv => lhs; rw [← List.take_append_drop (i - 1 - p) (s.drop p)]
      rw [List.drop_drop, show p + (i - 1 - p) = i - 1 by omega, List.drop_eq_getElem_cons hlt, hb',
        show i - 1 + 1 = i by omega]
    rw [this, splitNl_append_nl]
    exact List.mem_append_right _ h1

/-- **(b) unclosed fence.** If no line of the rest of the subject (from `cursorStart`) is a closing fence line, the
code is the whole rest (each line stripped of up to `k` leading blanks) and the end position is `cursorMax`. -/
theorem fenced_unclosed_verbatim (c : Char) (n k : Nat) (s : Str) (cursorStart cursorMax : Nat)
    (hc1 : c ≠ ' ') (hc2 : c ≠ '\t') (hc3 : c ≠ '\n') (hn : 1 ≤ n)
    (hno : ∀ l ∈ splitNl (s.drop cursorStart), isCloser c n l = false) :
    fencedBody (Py.ctxOf s) cursorMax c n k cursorStart = (trimLines k (s.drop cursorStart), cursorMax) := by
  have hdrop : s.drop (min cursorStart s.length) = s.drop cursorStart := by
    rcases Nat.le_total cursorStart s.length with h | h
    · rw [Nat.min_eq_left h]
    · rw [Nat.min_eq_right h, List.drop_of_length_le h, List.drop_of_length_le (Nat.le_refl _)]
  have hsearch : Py.search (fenceEndRx c n) (Py.ctxOf s) cursorStart = none := by
    unfold Py.search
    rw [ctxOf_n]
    apply search_all_none
    intro i h1 h2
    rw [ctxOf_n] at h2
    cases hm : (fenceEndRx c n).matchAt (Py.ctxOf s) i with
    | none => rfl
    | some mt =>
      exfalso
      obtain ⟨hb, sp, m, bl, tail, hd, hsp, hsp3, hm', hbl, htail⟩ := fenceEnd_matchAt_sound c n s i mt hm
      have hl : '\n' ∉ sp ++ List.replicate m c ++ bl := by
        intro e
        rcases List.mem_append.mp e with e | e
        · rcases List.mem_append.mp e with e | e
          · exact absurd (hsp _ e) (by decide)
          · exact hc3 (List.eq_of_mem_replicate e).symm
        · exact absurd (hbl _ e) (by decide)
      have hmem := line_mem s (min cursorStart s.length) i _ tail h1 h2 (Or.inr hb) hd hl htail
      rw [hdrop] at hmem
      have := hno _ hmem
      rw [isCloser_of_shape c n m sp bl hc1 hc2 hn hsp hsp3 hm' hbl] at this
      cases this
  rw [fencedBody_eq, hsearch]
  simp only [ctxOf_s, slice_toArray]
  rw [List.take_of_length_le (by simp)]

/-- non-vacuity of (b): subject `"  ~~~\n  x\n~~\n   y"`, cursor after the opening fence line, `k = 2`, no closing line
(`~~` is too short): the code is the whole rest, every line stripped of ≤ 2 blanks; end position = `cursorMax` -/
example :
    fencedBody (Py.ctxOf "  ~~~\n  x\n~~\n   y".toList) 17 '~' 3 2 6 = ("x\n~~\n y".toList, 17) :=
  fenced_unclosed_verbatim '~' 3 2 "  ~~~\n  x\n~~\n   y".toList 6 17 (by decide) (by decide) (by decide) (by decide)
    (by decide)

/-- (b) with `k = 0` (no indentation of the opening fence): the rest of the subject, verbatim -/
theorem fenced_unclosed_verbatim_notrim (c : Char) (n : Nat) (s : Str) (cursorStart cursorMax : Nat)
    (hc1 : c ≠ ' ') (hc2 : c ≠ '\t') (hc3 : c ≠ '\n') (hn : 1 ≤ n)
    (hno : ∀ l ∈ splitNl (s.drop cursorStart), isCloser c n l = false) :
    fencedBody (Py.ctxOf s) cursorMax c n 0 cursorStart = (s.drop cursorStart, cursorMax) := by
  rw [fenced_unclosed_verbatim c n 0 s cursorStart cursorMax hc1 hc2 hc3 hn hno, trimLines_zero]

/-- a line start inside the body is the start of one of its lines -/
theorem bol_in_body (lines : List Str) (hnl : ∀ l ∈ lines, '\n' ∉ l) : ∀ (pre post : Str) (q : Nat),
    pre.length ≤ q → q < pre.length + ((lines.map (· ++ ['\n'])).flatten).length →
    bolAt (pre ++ (lines.map (· ++ ['\n'])).flatten ++ post) q →
    ∃ l ∈ lines, ∃ r, (pre ++ (lines.map (· ++ ['\n'])).flatten ++ post).drop q = l ++ '\n' :: r := by
  induction lines with
  | nil => intro pre post q h1 h2; simp at h2; omega
  | cons line ls ih =>
    intro pre post q h1 h2 hb
    simp only [List.map_cons, List.flatten_cons, List.length_append, List.length_cons, List.length_nil] at h2
    by_cases hq : q = pre.length
    · refine ⟨line, by simp, (ls.map (· ++ ['\n'])).flatten ++ post, ?_⟩
      rw [hq]
      simp
    · by_cases hq2 : q ≤ pre.length + line.length
      · exfalso
        rcases hb with hb | hb
        · omega
        · simp only [List.map_cons, List.flatten_cons, List.append_assoc] at hb
          rw [List.getElem?_append_right (by omega), List.getElem?_append_left (by omega)] at hb
          exact hnl line (by simp) (List.mem_of_getElem? hb)
      · have hS : pre ++ ((line :: ls).map (· ++ ['\n'])).flatten ++ post =
            (pre ++ line ++ ['\n']) ++ (ls.map (· ++ ['\n'])).flatten ++ post := by simp
        rw [hS] at hb ⊢
        obtain ⟨l, hl, r, hr⟩ := ih (fun l hl => hnl l (by simp [hl])) (pre ++ line ++ ['\n']) post q
          (by simp only [List.length_append, List.length_cons, List.length_nil]; omega)
          (by simp only [List.length_append, List.length_cons, List.length_nil]; omega) hb
        exact ⟨l, by simp [hl], r, hr⟩

theorem body_bol (pre : Str) (lines : List Str) (hpre : pre = [] ∨ pre.getLast? = some '\n') :
    pre ++ (lines.map (· ++ ['\n'])).flatten = [] ∨
      (pre ++ (lines.map (· ++ ['\n'])).flatten).getLast? = some '\n' := by
  rcases List.eq_nil_or_concat lines with rfl | ⟨ls, l, rfl⟩
  · simpa using hpre
  · right
    simp [← List.append_assoc]

/-- **(a) closed fence, verbatim.** The subject is `pre ++ body ++ closer ++ post`, the cursor is at the line start
after `pre`, `body` consists of complete lines none of which is a closing fence line, `closer` is a closing fence line
(terminated by a newline, or by the end of the subject).  Then the code is `body` with every line stripped of up to `k`
leading blanks (`k = 0`: `body` itself) and the end position is just after `closer`. -/
theorem fenced_closed_verbatim (c : Char) (n k m : Nat) (pre post sp bl nl : Str) (lines : List Str)
    (cursorMax : Nat) (hc1 : c ≠ ' ') (hc2 : c ≠ '\t') (hc3 : c ≠ '\n') (hn : 1 ≤ n)
    (hpre : pre = [] ∨ pre.getLast? = some '\n')
    (hlines : ∀ l ∈ lines, '\n' ∉ l ∧ isCloser c n l = false)
    (hsp : ∀ ch ∈ sp, ch = ' ') (hsp3 : sp.length ≤ 3) (hm : n ≤ m) (hbl : ∀ ch ∈ bl, isBlank ch = true)
    (hnl : nl = ['\n'] ∨ (nl = [] ∧ post = [])) :
    let body := (lines.map (· ++ ['\n'])).flatten
    let closer := sp ++ List.replicate m c ++ bl ++ nl
    let s := pre ++ body ++ closer ++ post
    fencedBody (Py.ctxOf s) cursorMax c n k pre.length =
      ((lines.map (fun l => dropUpTo k l ++ ['\n'])).flatten, pre.length + body.length + closer.length) := by
  intro body closer s
  have hS : s = (pre ++ body) ++ sp ++ List.replicate m c ++ bl ++ (nl ++ post) := by
    simp [s, closer]
  have htail : nl ++ post = [] ∨ ∃ t', nl ++ post = '\n' :: t' := by
    rcases hnl with rfl | ⟨rfl, rfl⟩
    · exact Or.inr ⟨post, rfl⟩
    · exact Or.inl rfl
  have hmatch := fenceEnd_matchAt_closer c n m (pre ++ body) sp bl (nl ++ post) hc1 hc2 hc3
    (body_bol pre lines hpre) hsp hsp3 hn hm hbl htail
  rw [← hS] at hmatch
  have hstop : (pre ++ body).length + sp.length + m + bl.length + (if nl ++ post = [] then 0 else 1) =
      pre.length + body.length + closer.length := by
    rcases hnl with rfl | ⟨rfl, rfl⟩
    · simp [closer]; omega
    · simp [closer]; omega
  rw [hstop] at hmatch
  have hlen : (pre ++ body).length ≤ s.length := by rw [hS]; simp
  have hsearch : Py.search (fenceEndRx c n) (Py.ctxOf s) pre.length =
      some { start := (pre ++ body).length, stop := pre.length + body.length + closer.length, caps := [] } := by
    unfold Py.search
    rw [ctxOf_n, Nat.min_eq_left (by simp at hlen; omega)]
    apply search_first _ _ _ _ _ (by simp) (by rw [ctxOf_n]; exact hlen) _ hmatch
    intro i h1 h2
    cases hmi : (fenceEndRx c n).matchAt (Py.ctxOf s) i with
    | none => rfl
    | some mt =>
      exfalso
      obtain ⟨hb, sp', m', bl', tail', hd, hsp', hsp3', hm', hbl', htail'⟩ :=
        fenceEnd_matchAt_sound c n s i mt hmi
      have hs2 : s = pre ++ body ++ (closer ++ post) := by simp [s]
      rw [hs2] at hb hd
      obtain ⟨l, hl, r, hr⟩ := bol_in_body lines (fun l hl => (hlines l hl).1) pre (closer ++ post) i h1
        (by rw [List.length_append] at h2; exact h2) hb
      have hl' : '\n' ∉ sp' ++ List.replicate m' c ++ bl' := by
        intro e
        rcases List.mem_append.mp e with e | e
        · rcases List.mem_append.mp e with e | e
          · exact absurd (hsp' _ e) (by decide)
          · exact hc3 (List.eq_of_mem_replicate e).symm
        · exact absurd (hbl' _ e) (by decide)
      have e1 : (splitNl ((pre ++ body ++ (closer ++ post)).drop i)).head? = some l := by
        rw [hr, splitNl_line_nl l r (hlines l hl).1]; rfl
      have e2 : (splitNl ((pre ++ body ++ (closer ++ post)).drop i)).head? =
          some (sp' ++ List.replicate m' c ++ bl') := by
        rw [hd]
        rcases htail' with rfl | ⟨t', rfl⟩
        · rw [List.append_nil, splitNl_no_nl _ hl']; rfl
        · rw [splitNl_line_nl _ t' hl']; rfl
      rw [e1, Option.some.injEq] at e2
      have := (hlines l hl).2
      rw [e2, isCloser_of_shape c n m' sp' bl' hc1 hc2 hn hsp' hsp3' hm' hbl'] at this
      cases this
  rw [fencedBody_eq, hsearch]
  simp only [ctxOf_s, slice_toArray]
  have hcode : (s.drop pre.length).take ((pre ++ body).length - pre.length) = body := by
    rw [show s = pre ++ (body ++ (closer ++ post)) by simp [s]]
    simp
  rw [hcode, trimLines_flatten k lines (fun l hl => (hlines l hl).1)]

/-- non-vacuity of (a): subject `"  ~~~\n" ++ "  x\n\n~~\n" ++ "~~~~ \n" ++ "rest"`, fence `~~~` indented by 2:
body lines `["  x", "", "~~"]` (the last one is too short to close), closer `"~~~~ \n"` -/
example :
    fencedBody (Py.ctxOf "  ~~~\n  x\n\n~~\n~~~~ \nrest".toList) 24 '~' 3 2 6 = ("x\n\n~~\n".toList, 20) :=
  fenced_closed_verbatim '~' 3 2 4 "  ~~~\n".toList "rest".toList [] [' '] ['\n'] ["  x".toList, [], "~~".toList] 24
    (by decide) (by decide) (by decide) (by decide) (by decide) (by decide) (by decide) (by decide) (by decide)
    (by decide) (by decide)

/-- the same at the end of the subject (closer without newline, `post = []`), closer indented by 3, empty body -/
example : fencedBody (Py.ctxOf "```\n   ````\t".toList) 12 '`' 3 0 4 = ([], 12) :=
  fenced_closed_verbatim '`' 3 0 4 "```\n".toList [] "   ".toList ['\t'] [] [] 12
    (by decide) (by decide) (by decide) (by decide) (by decide) (by decide) (by decide) (by decide) (by decide)
    (by decide) (by decide)

/-- (a) with `k = 0`: the body itself, verbatim -/
theorem fenced_closed_verbatim_notrim (c : Char) (n m : Nat) (pre post sp bl nl : Str) (lines : List Str)
    (cursorMax : Nat) (hc1 : c ≠ ' ') (hc2 : c ≠ '\t') (hc3 : c ≠ '\n') (hn : 1 ≤ n)
    (hpre : pre = [] ∨ pre.getLast? = some '\n')
    (hlines : ∀ l ∈ lines, '\n' ∉ l ∧ isCloser c n l = false)
    (hsp : ∀ ch ∈ sp, ch = ' ') (hsp3 : sp.length ≤ 3) (hm : n ≤ m) (hbl : ∀ ch ∈ bl, isBlank ch = true)
    (hnl : nl = ['\n'] ∨ (nl = [] ∧ post = [])) :
    let body := (lines.map (· ++ ['\n'])).flatten
    let closer := sp ++ List.replicate m c ++ bl ++ nl
    let s := pre ++ body ++ closer ++ post
    fencedBody (Py.ctxOf s) cursorMax c n 0 pre.length = (body, pre.length + body.length + closer.length) :=
  fenced_closed_verbatim c n 0 m pre post sp bl nl lines cursorMax hc1 hc2 hc3 hn hpre hlines hsp hsp3 hm hbl hnl

/-! ### why `1 ≤ n`, `c ≠ ' '`, `c ≠ '\n'` are needed (evaluations of the model)

`isCloser` takes *all* leading blanks as the indentation.  For `n = 0` or `c = ' '` the regex can split a run of four
blanks as three blanks of indentation plus one trailing / fence blank, so a line of four blanks closes the fence although
`isCloser` rejects it; for `c = '\n'` the "fence characters" are the line terminators, so an empty line closes.
None of this can happen in `parse_fenced_code` (`c` is a backtick or a tilde, `n ≥ 3`). -/

example : isCloser '~' 0 "    ".toList = false ∧
    fencedBody (Py.ctxOf "    \n~~~\n".toList) 9 '~' 0 0 0 = ([], 5) := by decide

example : isCloser ' ' 1 "    ".toList = false ∧
    fencedBody (Py.ctxOf "    \nx\n".toList) 7 ' ' 1 0 0 = ([], 5) := by decide

example : isCloser '\n' 1 [] = false ∧
    fencedBody (Py.ctxOf "\n\nx\n".toList) 5 '\n' 1 0 0 = ([], 2) := by decide

/-! ### (c) the handler -/

/-- the only non-syntactic step of factoring `fencedBody` out of `parseFencedCode`: the guard `if spaces` became
`k != 0` with `k = len(spaces)` -/
theorem not_isEmpty_eq_length_ne (l : Str) : (!l.isEmpty) = (l.length != 0) := by
  cases l <;> rfl

/-- When `parse_fenced_code` neither raises (`marker[0]`) nor declines (a backtick inside the info string of a
backtick fence), it appends one token whose `raw` is the code computed by `fencedBody` and returns its end position. -/
theorem parseFencedCode_eq (cfg : MdCfg) (mt : RxMatch) (st : BlockState) (c : Char) (mrest : Str)
    (hmarker : grp cfg st mt "fenced_2" = c :: mrest)
    (hinfo : (!(grp cfg st mt "fenced_3").isEmpty && c == '`' && (grp cfg st mt "fenced_3").contains c) = false) :
    let fb := fencedBody st.x st.cursorMax c (c :: mrest).length (grp cfg st mt "fenced_1").length (mt.stop + 1)
    ∃ token, parseFencedCode cfg mt st = .ok (some fb.2, st.appendToken token) ∧
      token.getStr? "raw" = some fb.1 := by
  intro fb
  unfold parseFencedCode
  simp only [hmarker, pure_bind, hinfo, Bool.false_eq_true, if_false]
  refine ⟨_, rfl, ?_⟩
  split
  · simp [tok, Json.set, Json.getStr?, Json.get?, List.lookup, fb]
  · simp [tok, Json.getStr?, Json.get?, List.lookup, fb]

/-- the early return: a backtick fence whose info string contains a backtick is not a fence -/
theorem parseFencedCode_decline (cfg : MdCfg) (mt : RxMatch) (st : BlockState) (c : Char) (mrest : Str)
    (hmarker : grp cfg st mt "fenced_2" = c :: mrest)
    (hinfo : (!(grp cfg st mt "fenced_3").isEmpty && c == '`' && (grp cfg st mt "fenced_3").contains c) = true) :
    parseFencedCode cfg mt st = .ok (none, st) := by
  unfold parseFencedCode
  simp only [hmarker, pure_bind, hinfo, if_true]
  rfl

/-- the error: `marker[0]` on an empty marker (cannot happen with the shipped rule: the group is `` `{3,}|~{3,} ``) -/
theorem parseFencedCode_raise (cfg : MdCfg) (mt : RxMatch) (st : BlockState)
    (hmarker : grp cfg st mt "fenced_2" = []) : parseFencedCode cfg mt st = .error .indexError := by
  unfold parseFencedCode
  simp only [hmarker]
  rfl


end Mistune
