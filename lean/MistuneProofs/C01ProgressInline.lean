/-
C01, progress of the concrete INLINE parser model `Mistune.Model.Inl` (inline_parser.py, helpers.py, the
`process_text` of plugins/abbr.py): no loop of the model (`parseLoop`, `parseLinkTextLoop`, `abbrLoop`) returns
`.noProgress`.  The scanner loop itself advances by one character when a handler declines, so the contract of a
handler is: a truthy return value is not before the end of its match.  Same `Good` framework as `C01Progress`.
-/
import Mistune.Model.Inline
import MistuneProofs.C01ProgressList
namespace Mistune
namespace Model
namespace Inl
open Mistune.Model.Blk (Good lookup_mem get?_set_ne)

/-! ### the invariant on `env` (needed by the `abbr` plugin only) -/

/-- no abbreviation key is empty (`REF_ABBR` captures `[^\]]+`); only the `process_text` of plugins/abbr.py reads it -/
def AbbrKeys (env : Json) : Prop :=
  ∀ kv, env.get? "ref_abbrs" = some (.obj kv) → ∀ p ∈ kv, p.1.toList ≠ []

/-- `AbbrKeys`, required only of a configuration that has the `abbr` plugin (its block rule `ref_abbr` is
registered): for every other configuration this holds of every `env` -/
def AbbrOk (cfg : MdCfg) (env : Json) : Prop := (cfg.blockSpec.lookup "ref_abbr").isSome = true → AbbrKeys env

/-- the two environments have the same abbreviation table -/
def EnvSame (e e' : Json) : Prop := e'.get? "ref_abbrs" = e.get? "ref_abbrs"

theorem AbbrOk.of_same {cfg : MdCfg} {e e' : Json} (h : AbbrOk cfg e) (hs : EnvSame e e') : AbbrOk cfg e' := by
  intro hreg kv hkv; rw [hs] at hkv; exact h hreg kv hkv

/-- the state after a step: same subject, same abbreviation table -/
def Fr (st st' : InlineState) : Prop := st'.x = st.x ∧ EnvSame st.env st'.env

theorem Fr.refl {st : InlineState} : Fr st st := ⟨Eq.refl _, Eq.refl _⟩
theorem Fr.trans {a b c : InlineState} (h1 : Fr a b) (h2 : Fr b c) : Fr a c :=
  ⟨h2.1.trans h1.1, Eq.trans h2.2 h1.2⟩

/-! ### plugins/abbr.py `process_text` -/

theorem abbrSearch_mem (keys : List Str) : ∀ (rest : Str) (off o : Nat) (l : Str),
    abbrSearch keys rest off = some (o, l) → l ∈ keys := by
  intro rest
  induction rest with
  | nil =>
    intro off o l h
    simp only [abbrSearch, Option.map_eq_some_iff] at h
    obtain ⟨k, hk, heq⟩ := h
    cases heq
    exact List.mem_of_find?_eq_some hk
  | cons c r ih =>
    intro off o l h
    simp only [abbrSearch] at h
    split at h
    · rename_i k hk
      cases h
      exact List.mem_of_find?_eq_some hk
    · exact ih _ _ _ h

theorem abbrLoop_good (ref : Json) (keys : List Str) (hkeys : ∀ k ∈ keys, k ≠ []) :
    ∀ (fuel : Nat) (rest : Str) (atZero : Bool) (st : InlineState), rest.length < fuel →
      Good (fun st' => Fr st st') (abbrLoop ref keys fuel rest atZero st) := by
  intro fuel
  induction fuel with
  | zero => intro rest atZero st h; omega
  | succ fuel ih =>
    intro rest atZero st hfu
    unfold abbrLoop
    extract_lets finish
    have hfin : Fr st finish := by
      show Fr st (if atZero = true then _ else if _ then _ else _)
      split
      · exact ⟨rfl, rfl⟩
      · split
        · exact ⟨rfl, rfl⟩
        · exact Fr.refl
    split
    · exact Good.ok hfin
    · rename_i hne
      split
      · exact Good.ok hfin
      · rename_i off label hs
        have hl := hkeys _ (abbrSearch_mem keys _ _ _ _ hs)
        extract_lets st2
        have h2 : Fr st st2 := by
          show Fr st (if off > 0 then _ else _)
          split
          · exact ⟨rfl, rfl⟩
          · exact Fr.refl
        split
        · exact Good.err (by decide)
        · rename_i title _
          have hle : label.isEmpty = false := by
            cases label with
            | nil => exact absurd rfl hl
            | cons a b => rfl
          simp only [hle, Bool.false_eq_true, if_false]
          have hlen : 0 < label.length := by
            cases label with
            | nil => exact absurd rfl hl
            | cons a b => simp
          have := ih (rest.drop (off + label.length)) false
            (st2.appendToken (tok "abbr" [("children", .arr [textTok label]), ("attrs", .obj [("title", title)])]))
            (by
              have hr : 0 < rest.length := by
                cases rest with
                | nil => simp at hne
                | cons a b => simp
              simp only [List.length_drop]; omega)
          exact this.mono (fun st' h => h2.trans (Fr.trans ⟨rfl, rfl⟩ h))


theorem abbr_keys_ok (env : Json) (hab : AbbrKeys env) :
    ∀ k ∈ (match (env.get? "ref_abbrs").getD .null with
      | .obj kv => kv.map (fun (p : String × Json) => p.1.toList)
      | _ => []), k ≠ [] := by
  intro k hk
  split at hk
  · rename_i kv hkv
    have hget : env.get? "ref_abbrs" = some (.obj kv) := by
      cases hg : env.get? "ref_abbrs" with
      | none => rw [hg] at hkv; cases hkv
      | some v => rw [hg] at hkv; simp only [Option.getD_some] at hkv; rw [hkv]
    obtain ⟨p, hp, rfl⟩ := List.mem_map.1 hk
    exact hab kv hget p hp
  · cases hk

theorem abbrProcessText_good (text : Str) (st : InlineState) (hab : AbbrKeys st.env) :
    Good (fun st' => Fr st st') (abbrProcessText text st) := by
  unfold abbrProcessText
  extract_lets ref keys
  split
  · exact Good.ok ⟨rfl, rfl⟩
  · split
    rename_i text2 st2 heq
    have h2 : Fr st st2 := by
      split at heq
      · split at heq
        · cases heq; exact ⟨rfl, rfl⟩
        · cases heq; exact Fr.refl
      · cases heq; exact Fr.refl
    have hkeys : ∀ k ∈ keys, k ≠ [] := abbr_keys_ok st.env hab
    exact (abbrLoop_good ref keys hkeys _ _ _ _ (by omega)).mono (fun st' h => h2.trans h)

theorem processTextC_good (cfg : MdCfg) (text : Str) (st : InlineState) (hab : AbbrOk cfg st.env) :
    Good (fun st' => Fr st st') (processTextC cfg text st) := by
  unfold processTextC
  split
  · rename_i hreg
    exact abbrProcessText_good text st (hab hreg)
  · exact Good.ok ⟨rfl, rfl⟩


/-! ### `escape_url` never reports `.noProgress` -/

theorem reSubM_go_good (r : Rx) (repl : Array Char → RxMatch → Except PyErr Str) (x : RxCtx)
    (hrepl : ∀ a mt, Good (fun _ => True) (repl a mt)) :
    ∀ fuel pos copyPos acc, Good (fun _ => True) (Py.reSubM.go r repl x fuel pos copyPos acc) := by
  intro fuel
  induction fuel with
  | zero => intro pos copyPos acc; unfold Py.reSubM.go; exact Good.ok trivial
  | succ fuel ih =>
    intro pos copyPos acc
    unfold Py.reSubM.go
    split
    · exact Good.ok trivial
    · split
      · exact Good.ok trivial
      · rename_i mt _
        have := hrepl x.s mt
        split
        · rename_i e he
          rw [he] at this
          exact this
        · dsimp only
          split
          · split
            · exact ih _ _ _
            · exact Good.ok trivial
          · exact ih _ _ _

theorem pyInt_good (base : Nat) (s : Str) : Good (fun _ => True) (Charref.pyInt base s) := by
  unfold Charref.pyInt
  split
  · exact Good.err (by decide)
  · split
    · exact Good.err (by decide)
    · split
      · exact Good.ok trivial
      · exact Good.err (by decide)

theorem replaceCharref_good (s : Str) : Good (fun _ => True) (Charref.replaceCharref s) := by
  unfold Charref.replaceCharref
  split
  · exact Good.err (by decide)
  · split
    · exact Good.err (by decide)
    · extract_lets jp
      have hjp : ∀ num, Good (fun _ => True) (jp num) := by
        intro num
        show Good _ (match List.lookup num Generated.invalidCharrefs with | some r => _ | none => _)
        split
        · exact Good.pure trivial
        · split
          · exact Good.pure trivial
          · split <;> exact Good.pure trivial
      clear_value jp
      split
      · exact Good.bind (pyInt_good _ _) (fun n _ => hjp n)
      · exact Good.bind (pyInt_good _ _) (fun n _ => hjp n)
  · split <;> exact Good.ok trivial

theorem replaceKnownCharref_good (s : Str) : Good (fun _ => True) (Charref.replaceKnownCharref s) := by
  unfold Charref.replaceKnownCharref
  split
  · exact Good.err (by decide)
  · exact replaceCharref_good _
  · split
    · exact replaceCharref_good _
    · exact Good.ok trivial

theorem escapeUrl_good (cfg : MdCfg) (link : Str) : Good (fun _ => True) (escapeUrl cfg link) := by
  unfold escapeUrl Charref.escapeUrl
  refine Good.bind (Q := fun _ => True) ?_ (fun u _ => Good.pure trivial)
  unfold Charref.unescape
  split
  · exact Good.ok trivial
  · unfold Py.reSubM
    refine reSubM_go_good _ _ _ (fun a mt => ?_) _ _ _ _
    split
    · exact replaceKnownCharref_good _
    · exact Good.err (by decide)


/-! ### the contract -/

/-- what an inline handler guarantees: same subject and abbreviation table, and a truthy return value is not before
the end of the match -/
def IPost (m : RxMatch) (st : InlineState) (res : Option Nat × InlineState) : Prop :=
  Fr st res.2 ∧ ∀ p, res.1 = some p → p ≠ 0 → m.stop ≤ p

/-- the contract of the recursive entry points -/
structure RecOk (cfg : MdCfg) (R : Rec) : Prop where
  renderSt : ∀ st, st.x.n ≤ st.x.s.size → AbbrOk cfg st.env → Good (fun c => EnvSame st.env c.env) (R.renderSt st)
  call : ∀ name m st, m.stop ≤ st.x.n → st.x.n ≤ st.x.s.size → AbbrOk cfg st.env →
    Good (fun res => EnvSame st.env res.2.env) (R.call name m st)

theorem IPost.stop {m : RxMatch} {st st' : InlineState} (h : Fr st st') {p : Nat} (hp : m.stop ≤ p) :
    IPost m st (some p, st') := ⟨h, fun q hq _ => by cases hq; exact hp⟩

theorem IPost.none {m : RxMatch} {st st' : InlineState} (h : Fr st st') : IPost m st (none, st') :=
  ⟨h, fun q hq _ => by cases hq⟩

theorem renderIn_good {cfg : MdCfg} (R : Rec) (hR : RecOk cfg R) (child st : InlineState) (henv : child.env = st.env)
    (hn : child.x.n ≤ child.x.s.size) (hab : AbbrOk cfg st.env) : Good (fun res => Fr st res.2) (R.renderIn child st) := by
  unfold Rec.renderIn
  refine Good.bind (hR.renderSt child hn (by rw [henv]; exact hab)) (fun c hc => ?_)
  exact Good.pure ⟨rfl, by rw [henv] at hc; exact hc⟩

/-! ### handlers without recursion -/

theorem parseEscape_good (cfg : MdCfg) (m : RxMatch) (st : InlineState) :
    Good (IPost m st) (parseEscape cfg m st) := Good.ok (IPost.stop ⟨rfl, rfl⟩ (Nat.le_refl _))

theorem parseLinebreak_good (m : RxMatch) (st : InlineState) : Good (IPost m st) (parseLinebreak m st) :=
  Good.ok (IPost.stop ⟨rfl, rfl⟩ (Nat.le_refl _))

theorem parseSoftbreak_good (m : RxMatch) (st : InlineState) : Good (IPost m st) (parseSoftbreak m st) :=
  Good.ok (IPost.stop ⟨rfl, rfl⟩ (Nat.le_refl _))

theorem matchAt_stop_ge (r : Rx) (x : RxCtx) (pos : Nat) (m : RxMatch) (h : r.matchAt x pos = some m) :
    pos ≤ m.stop := by
  obtain ⟨h1, h2⟩ := matchAt_sound x r pos m h
  exact spec_mono h2

theorem parseCodespan_good (m : RxMatch) (st : InlineState) : Good (IPost m st) (parseCodespan m st) := by
  unfold parseCodespan
  extract_lets marker pos
  split
  · rename_i code endPos hb
    refine Good.ok (IPost.stop ⟨rfl, rfl⟩ ?_)
    unfold codespanBody at hb
    simp only at hb
    split at hb
    · rename_i m2 hm2
      have := matchAt_stop_ge _ _ _ _ hm2
      simp only [Option.some.injEq, Prod.mk.injEq] at hb
      omega
    · cases hb
  · exact Good.ok (IPost.stop ⟨rfl, rfl⟩ (Nat.le_refl _))

theorem parseInlineHtml_good (m : RxMatch) (st : InlineState) : Good (IPost m st) (parseInlineHtml m st) := by
  unfold parseInlineHtml
  extract_lets endPos html st1 st2
  refine Good.ok (IPost.stop ?_ (Nat.le_refl _))
  show Fr st (if _ then _ else if _ then _ else _)
  split
  · exact ⟨rfl, rfl⟩
  · split
    · exact ⟨rfl, rfl⟩
    · exact ⟨rfl, rfl⟩

theorem parseInlineFootnote_good (cfg : MdCfg) (m : RxMatch) (st : InlineState) :
    Good (IPost m st) (parseInlineFootnote cfg m st) := by
  unfold parseInlineFootnote
  extract_lets key ref
  split
  · split
    rename_i notes2 st2 heq
    have h2 : Fr st st2 := by
      split at heq
      · cases heq
        exact ⟨rfl, get?_set_ne _ _ _ _ (by decide)⟩
      · cases heq; exact Fr.refl
    exact Good.ok (IPost.stop (h2.trans ⟨rfl, rfl⟩) (Nat.le_refl _))
  · exact Good.ok (IPost.stop ⟨rfl, rfl⟩ (Nat.le_refl _))

theorem addAutoLink_good (cfg : MdCfg) (url text : Str) (st : InlineState) :
    Good (fun st' => Fr st st') (addAutoLink cfg url text st) := by
  unfold addAutoLink
  refine Good.bind (escapeUrl_good cfg url) (fun u _ => Good.pure ⟨rfl, rfl⟩)

theorem parseAutoLink_good (cfg : MdCfg) (m : RxMatch) (st : InlineState) (hab : AbbrOk cfg st.env) :
    Good (IPost m st) (parseAutoLink cfg m st) := by
  unfold parseAutoLink
  extract_lets text pos
  split
  · refine Good.bind (processTextC_good cfg text st hab) (fun st' h => ?_)
    exact Good.pure (IPost.stop h (Nat.le_refl _))
  · refine Good.bind (addAutoLink_good cfg _ _ st) (fun st' h => ?_)
    exact Good.pure (IPost.stop h (Nat.le_refl _))

theorem parseAutoEmail_good (cfg : MdCfg) (m : RxMatch) (st : InlineState) (hab : AbbrOk cfg st.env) :
    Good (IPost m st) (parseAutoEmail cfg m st) := by
  unfold parseAutoEmail
  extract_lets text pos
  split
  · refine Good.bind (processTextC_good cfg text st hab) (fun st' h => ?_)
    exact Good.pure (IPost.stop h (Nat.le_refl _))
  · refine Good.bind (addAutoLink_good cfg _ _ st) (fun st' h => ?_)
    exact Good.pure (IPost.stop h (Nat.le_refl _))


/-! ### helpers.py: link pieces -/

theorem parseLinkTextLoop_good (cfg : MdCfg) (x : RxCtx)
    (hbr : 1 ≤ (cfg.rx "mistune.helpers._INLINE_SQUARE_BRACKET_RE").minLen) :
    ∀ (fuel pos level : Nat), x.s.size - pos < fuel →
      Good (fun r => ∀ p, r = some p → pos ≤ p) (parseLinkTextLoop cfg x fuel pos level) := by
  intro fuel
  induction fuel with
  | zero => intro pos level h; omega
  | succ fuel ih =>
    intro pos level hfu
    unfold parseLinkTextLoop
    split
    · rename_i hlt
      split
      · exact Good.ok (fun p h => by cases h)
      · rename_i m hm
        obtain ⟨a1, a2, a3, a4, _⟩ := search_sound _ _ _ _ hm
        have hne := nonempty_of_minLen _ _ _ _ _ _ a4 hbr
        extract_lets pos2 marker
        have hp2 : pos < pos2 := by show pos < m.stop; omega
        have hrec : ∀ lv, Good (fun r => ∀ p, r = some p → pos ≤ p) (parseLinkTextLoop cfg x fuel pos2 lv) :=
          fun lv => (ih pos2 lv (by omega)).mono (fun r hr p hp => by have := hr p hp; omega)
        split
        · split
          · exact Good.ok (fun p h => by cases h; exact Nat.le_of_lt hp2)
          · exact hrec _
        · exact hrec _
    · exact Good.ok (fun p h => by cases h)

theorem parseLinkText_good (cfg : MdCfg) (x : RxCtx)
    (hbr : 1 ≤ (cfg.rx "mistune.helpers._INLINE_SQUARE_BRACKET_RE").minLen) (pos : Nat) (hpos : pos ≤ x.s.size) :
    Good (fun r => ∀ t p, r = some (t, p) → pos ≤ p) (parseLinkText cfg x pos) := by
  unfold parseLinkText
  refine Good.bind (parseLinkTextLoop_good cfg x hbr (x.s.size + 1 - pos) pos 1 (by omega)) (fun r hr => ?_)
  split
  · rename_i p
    exact Good.pure (fun t q h => by cases h; exact hr p rfl)
  · exact Good.pure (fun t q h => by cases h)

theorem parseLinkLabel_bound (cfg : MdCfg) (x : RxCtx) (startPos : Nat) (l : Str) (e : Nat)
    (h : parseLinkLabel cfg x startPos = some (l, e)) : startPos ≤ e := by
  unfold parseLinkLabel at h
  split at h
  · rename_i m hm
    have := matchAt_stop_ge _ _ _ _ hm
    simp only [Option.some.injEq, Prod.mk.injEq] at h
    omega
  · cases h

theorem parseLinkHref_good (cfg : MdCfg) (x : RxCtx) (startPos : Nat) (block : Bool) :
    Good (fun r => ∀ h p, r = some (h, p) → startPos - 1 ≤ p) (parseLinkHref cfg x startPos block) := by
  unfold parseLinkHref
  split
  · rename_i m hm
    have h1 := matchAt_stop_ge _ _ _ _ hm
    extract_lets sp
    split
    · rename_i m' hm'
      have h2 := matchAt_stop_ge _ _ _ _ hm'
      exact Good.ok (fun h p he => by cases he; show startPos - 1 ≤ m'.stop; have : sp = m.stop - 1 := rfl; omega)
    · exact Good.ok (fun h p he => by cases he)
  · extract_lets m?
    have hmdef : m? = (if block = true then (cfg.rx "mistune.helpers.LINK_HREF_BLOCK_RE").matchAt x startPos
              else (cfg.rx "mistune.helpers.LINK_HREF_INLINE_RE").matchAt x startPos) := rfl
    clear_value m?
    split
    · exact Good.ok (fun h p he => by cases he)
    · rename_i m
      have h1 : startPos ≤ m.stop := by
        have hm' : (if block = true then (cfg.rx "mistune.helpers.LINK_HREF_BLOCK_RE").matchAt x startPos
              else (cfg.rx "mistune.helpers.LINK_HREF_INLINE_RE").matchAt x startPos) = some m := hmdef.symm
        split at hm'
        · exact matchAt_stop_ge _ _ _ _ hm'
        · exact matchAt_stop_ge _ _ _ _ hm'
      extract_lets endPos href
      have he : endPos = m.stop := rfl
      split
      · refine Good.bind (Q := fun _ => True) ?_ (fun c _ => ?_)
        · unfold pyGetItem
          extract_lets j
          split
          · exact Good.err (by decide)
          · split
            · exact Good.ok trivial
            · exact Good.err (by decide)
        · extract_lets jp
          have hjp : ∀ hh, Good (fun r => ∀ (h : Str) (p : Nat), r = some (h, p) → startPos - 1 ≤ p) (jp hh) := by
            intro hh
            show Good _ (if (c == hh) = true then _ else _)
            split
            · exact Good.pure (fun h p hq => by cases hq; omega)
            · exact Good.pure (fun h p hq => by cases hq; omega)
          clear_value jp
          split
          · simp only [pure_bind]; exact hjp _
          · exact (by decide : PyErr.indexError ≠ PyErr.noProgress)
      · exact Good.pure (fun h p hq => by cases hq; omega)

theorem parseLinkTitle_bound (cfg : MdCfg) (x : RxCtx) (startPos maxPos : Nat) (t : Str) (p : Nat)
    (h : parseLinkTitle cfg x startPos maxPos = some (t, p)) : startPos ≤ p := by
  unfold parseLinkTitle at h
  split at h
  · rename_i m hm
    have := matchAt_stop_ge _ _ _ _ hm
    simp only [Option.some.injEq, Prod.mk.injEq] at h
    omega
  · cases h

theorem parseLinkH_good (cfg : MdCfg) (x : RxCtx) (pos : Nat) :
    Good (fun r => ∀ a p, r = some (a, p) → pos - 1 ≤ p) (parseLinkH cfg x pos) := by
  unfold parseLinkH
  refine Good.bind (parseLinkHref_good cfg x pos false) (fun r hr => ?_)
  split
  · exact Good.pure (fun a p h => by cases h)
  · rename_i href hrefPos
    have h0 := hr _ _ rfl
    extract_lets t nextPos
    have hnp : pos - 1 ≤ nextPos := by
      show pos - 1 ≤ (match parseLinkTitle cfg x hrefPos x.s.size with
        | some (_, tp) => if tp != 0 then tp else hrefPos | none => hrefPos)
      split
      · rename_i tt tp ht
        have := parseLinkTitle_bound _ _ _ _ _ _ ht
        split <;> omega
      · exact h0
    split
    · exact Good.pure (fun a p h => by cases h)
    · rename_i m hm
      have := matchAt_stop_ge _ _ _ _ hm
      refine Good.bind (escapeUrl_good cfg _) (fun url _ => ?_)
      exact Good.pure (fun a p h => by cases h; omega)


/-! ### handlers that recurse -/

theorem mkCtx_n_le (s : Str) (e : Nat) : (mkCtx s e).n ≤ (mkCtx s e).s.size := by
  unfold mkCtx
  exact Nat.min_le_right _ _

theorem parseLinkToken_good {cfg : MdCfg} (R : Rec) (hR : RecOk cfg R) (isImage : Bool) (text : Str) (attrs : Json)
    (st : InlineState) (hab : AbbrOk cfg st.env) :
    Good (fun res => Fr st res.2) (parseLinkToken R isImage text attrs st) := by
  unfold parseLinkToken
  extract_lets newState
  split
  · refine Good.bind (renderIn_good R hR _ st rfl (mkCtx_n_le _ _) hab) ?_
    rintro ⟨children, st1⟩ h
    exact Good.pure h
  · refine Good.bind (renderIn_good R hR _ st rfl (mkCtx_n_le _ _) hab) ?_
    rintro ⟨children, st1⟩ h
    exact Good.pure h

theorem parseLinkRef_good {cfg : MdCfg} (R : Rec) (hR : RecOk cfg R) (isImage : Bool) (text : Str) (label : Option Str)
    (endPos : Nat) (st : InlineState) (hab : AbbrOk cfg st.env) :
    Good (fun res => Fr st res.2 ∧ ∀ p, res.1 = some p → p = endPos) (parseLinkRef R isImage text label endPos st) := by
  have hnone : Good (fun res => Fr st res.2 ∧ ∀ p, res.1 = some p → p = endPos)
      (.ok (none, st) : HRes) := Good.ok ⟨Fr.refl, fun p h => by cases h⟩
  unfold parseLinkRef
  split
  · exact hnone
  · split
    · exact hnone
    · split
      · exact hnone
      · extract_lets key
        split
        · exact hnone
        · split
          · exact hnone
          · extract_lets +onlyGivenNames title jp
            have hjp : ∀ url, Good (fun res => Fr st res.2 ∧ ∀ p, res.1 = some p → p = endPos) (jp url) := by
              intro url
              refine Good.bind (parseLinkToken_good R hR isImage text _ st hab) ?_
              rintro ⟨token, st1⟩ h
              exact Good.pure ⟨h.trans ⟨rfl, rfl⟩, fun p hp => by cases hp; rfl⟩
            clear_value jp
            split
            · simp only [pure_bind]; exact hjp _
            · exact (by decide : PyErr.keyError ≠ PyErr.noProgress)

theorem foldl_append_frame (l : List Json) : ∀ st : InlineState,
    Fr st (l.foldl (fun s t => s.appendToken t) st) := by
  induction l with
  | nil => intro st; exact Fr.refl
  | cons a l ih => intro st; exact Fr.trans ⟨rfl, rfl⟩ (ih _)

theorem icompileSc_good (cfg : MdCfg) (rules : List String) :
    Good (fun sc => ∀ p ∈ sc, p ∈ cfg.inlineSpec) (compileSc cfg rules) := by
  unfold compileSc
  induction rules with
  | nil => simp only [List.mapM_nil]; exact Good.pure (fun p h => by cases h)
  | cons a l ih =>
    simp only [List.mapM_cons]
    refine Good.bind (Q := fun p => p ∈ cfg.inlineSpec) ?_ (fun b hb => ?_)
    · split
      · rename_i r hr
        exact Good.ok (lookup_mem _ _ _ hr)
      · exact Good.err (by decide)
    · refine Good.bind ih (fun bs hbs => ?_)
      refine Good.pure (fun p hmem => ?_)
      rcases List.mem_cons.1 hmem with h | h
      · subst h; exact hb
      · exact hbs p h

theorem precedenceScan_good (cfg : MdCfg) (R : Rec) (hR : RecOk cfg R) (m : RxMatch) (st : InlineState)
    (endPos : Nat) (rules : List String) (hn : st.x.n ≤ st.x.s.size) (hab : AbbrOk cfg st.env) :
    Good (fun res => Fr st res.2 ∧ ∀ p, res.1 = some p → p ≠ 0 → endPos ≤ p)
      (precedenceScan cfg R m st endPos rules) := by
  have hnone : ∀ st', Fr st st' → Good (fun res => Fr st res.2 ∧ ∀ p, res.1 = some p → p ≠ 0 → endPos ≤ p)
      (pure (none, st') : HRes) := fun st' h => Good.pure ⟨h, fun p hp => by cases hp⟩
  unfold precedenceScan
  extract_lets markPos src0 newState
  refine Good.bind (icompileSc_good cfg rules) (fun sc _ => ?_)
  split
  · exact hnone _ Fr.refl
  · rename_i lastgroup m1 hm1
    obtain ⟨s1, s2, s3, _, _⟩ := scan_sound _ _ _ _ _ hm1
    extract_lets ruleName
    refine Good.bind (icompileSc_good cfg _) (fun sc2 _ => ?_)
    split
    · exact hnone _ Fr.refl
    · rename_i nm m2 hm2
      obtain ⟨r, _, hm2'⟩ := scanAt_sound _ _ _ _ _ hm2
      obtain ⟨e1, e2⟩ := matchAt_sound _ _ _ _ hm2'
      have hb := spec_bounds _ _ _ _ _ _ e2 (by
        have : m1.start ≤ min endPos st.x.n := by simp only at s2 s3; omega
        omega)
      refine Good.bind (hR.call ruleName m2 newState hb.2 hn hab) ?_
      rintro ⟨m2Pos, ns⟩ henv
      dsimp only at henv ⊢
      have h1 : Fr st { st with env := ns.env } := ⟨rfl, henv⟩
      split
      · exact hnone _ h1
      · split
        · exact hnone _ h1
        · rename_i p hp
          refine Good.pure ⟨?_, fun q hq _ => ?_⟩
          · exact h1.trans (Fr.trans ⟨rfl, rfl⟩ (by rw [← Array.foldl_toList]; exact foldl_append_frame _ _))
          · cases hq
            simp only [Bool.or_eq_true, beq_iff_eq, decide_eq_true_eq, not_or, Nat.not_lt] at hp
            exact hp.2


theorem parseEmphasis_good (cfg : MdCfg) (R : Rec) (hR : RecOk cfg R) (m : RxMatch) (st : InlineState)
    (hn : st.x.n ≤ st.x.s.size) (hab : AbbrOk cfg st.env) : Good (IPost m st) (parseEmphasis cfg R m st) := by
  unfold parseEmphasis
  extract_lets +onlyGivenNames pos marker mlen jp
  have hjp : ∀ endRe, Good (IPost m st) (jp endRe) := by
    intro endRe
    show Good _ (match endRe.search st.x pos with | none => _ | some m1 => _)
    split
    · exact Good.pure (IPost.stop ⟨rfl, rfl⟩ (Nat.le_refl _))
    rename_i m1 hm1
    obtain ⟨a1, a2, _⟩ := search_sound _ _ _ _ hm1
    extract_lets +onlyGivenNames endPos text
    have hend : m.stop ≤ endPos := by show m.stop ≤ m1.stop; have : pos = m.stop := rfl; omega
    clear_value endPos
    refine Good.bind (precedenceScan_good cfg R hR m st endPos _ hn hab) ?_
    rintro ⟨precPos, st1⟩ ⟨f1, f2⟩
    dsimp only at f1 f2 ⊢
    have hab1 : AbbrOk cfg st1.env := hab.of_same f1.2
    have hfin : ∀ (res : Array Json × InlineState) (t : Json), Fr st1 res.2 →
        Good (IPost m st) (pure (some endPos, res.2.appendToken t) : HRes) :=
      fun res t h => Good.pure (IPost.stop (f1.trans (h.trans ⟨rfl, rfl⟩)) hend)
    split
    · rename_i htr
      refine Good.pure ⟨f1, fun p hp hp0 => ?_⟩
      have := f2 p hp hp0
      omega
    · split
      · refine Good.bind (renderIn_good R hR _ st1 rfl (mkCtx_n_le _ _) hab1) ?_
        rintro ⟨children, st2⟩ h
        exact hfin (children, st2) _ h
      · split
        · refine Good.bind (renderIn_good R hR _ st1 rfl (mkCtx_n_le _ _) hab1) ?_
          rintro ⟨children, st2⟩ h
          exact hfin (children, st2) _ h
        · refine Good.bind (renderIn_good R hR _ st1 rfl (mkCtx_n_le _ _) hab1) ?_
          rintro ⟨children, st2⟩ h
          exact hfin (children, st2) _ h
  clear_value jp
  split
  · exact Good.pure (IPost.stop ⟨rfl, rfl⟩ (Nat.le_refl _))
  split
  · exact Good.pure (IPost.stop ⟨rfl, rfl⟩ (Nat.le_refl _))
  split
  · simp only [pure_bind]; exact hjp _
  · exact (by decide : PyErr.keyError ≠ PyErr.noProgress)


theorem parseLink_good (cfg : MdCfg) (hbr : 1 ≤ (cfg.rx "mistune.helpers._INLINE_SQUARE_BRACKET_RE").minLen)
    (R : Rec) (hR : RecOk cfg R) (m : RxMatch) (st : InlineState)
    (hstop : m.stop ≤ st.x.n) (hn : st.x.n ≤ st.x.s.size) (hab : AbbrOk cfg st.env) :
    Good (IPost m st) (parseLink cfg R m st) := by
  unfold parseLink
  extract_lets +onlyGivenNames pos marker lab label jp0
  have hRef : ∀ (isImage : Bool) (text : Str) (label : Option Str) (e : Nat) (st1 : InlineState), Fr st st1 →
      m.stop ≤ e → Good (IPost m st) (parseLinkRef R isImage text label e st1) := by
    intro isImage text label e st1 h1 he
    refine (parseLinkRef_good R hR isImage text label e st1 (hab.of_same h1.2)).mono ?_
    rintro ⟨r, st2⟩ ⟨g1, g2⟩
    exact ⟨h1.trans g1, fun p hp _ => by have := g2 p hp; omega⟩
  have hjp0 : ∀ c0, Good (IPost m st) (jp0 c0) := by
    intro c0
    show Good (IPost m st) (have isImage := c0 == '!'; _)
    extract_lets +onlyGivenNames isImage
    split
    · exact Good.pure (IPost.stop ⟨rfl, rfl⟩ (Nat.le_refl _))
    split
    · exact Good.pure (IPost.stop ⟨rfl, rfl⟩ (Nat.le_refl _))
    extract_lets +onlyGivenNames jp1
    have hjp1 : ∀ te : Option (Str × Nat), (∀ t e, te = some (t, e) → m.stop ≤ e) →
        Good (IPost m st) (jp1 te) := by
      intro te hte
      show Good _ (match te with | none => _ | some (text, endPos) => _)
      split
      · exact Good.pure (IPost.none Fr.refl)
      rename_i text endPos
      have he := hte _ _ rfl
      split
      · exact Good.pure (IPost.none Fr.refl)
      refine Good.bind (precedenceScan_good cfg R hR m st endPos _ hn hab) ?_
      rintro ⟨precPos, st1⟩ ⟨f1, f2⟩
      dsimp only at f1 f2 ⊢
      have hab1 : AbbrOk cfg st1.env := hab.of_same f1.2
      split
      · refine Good.pure ⟨f1, fun p hp hp0 => ?_⟩
        have := f2 p hp hp0
        omega
      have hR0 := hRef isImage text label endPos st1 f1 he
      split
      · split
        · refine Good.bind (parseLinkH_good cfg st1.x (endPos + 1)) (fun r hr => ?_)
          split
          · rename_i attrs pos2
            have h2 := hr _ _ rfl
            split
            · refine Good.bind (parseLinkToken_good R hR isImage text attrs st1 hab1) ?_
              rintro ⟨token, st2⟩ h
              exact Good.pure (IPost.stop (f1.trans (Fr.trans h ⟨rfl, rfl⟩)) (by omega))
            · exact hR0
          · exact hR0
        · split
          · split
            · rename_i label2 pos2 hl2
              have := parseLinkLabel_bound _ _ _ _ _ hl2
              split
              · exact hRef _ _ _ _ st1 f1 (by omega)
              · exact hR0
            · exact hR0
          · exact hR0
      · exact hR0
    clear_value jp1
    have hp : pos = m.stop := rfl
    show Good _ (match parseLinkLabel cfg st.x pos with | some (l, e) => _ | none => _)
    split
    · rename_i l e hlab
      simp only [pure_bind]
      refine hjp1 _ (fun t e' h => ?_)
      cases h
      have := parseLinkLabel_bound _ _ _ _ _ hlab
      omega
    · refine Good.bind (parseLinkText_good cfg st.x hbr pos (by omega)) (fun te hte => ?_)
      exact hjp1 te (fun t e h => by have := hte t e h; omega)
  clear_value jp0
  show Good _ (match group0 st m with | c :: _ => _ | [] => _)
  split
  · simp only [pure_bind]; exact hjp0 _
  · exact (by decide : PyErr.indexError ≠ PyErr.noProgress)


/-! ### handlers of the plugins formatting, url, math, speedup, spoiler, ruby (`Mistune.Model.InlinePlugins`) -/

theorem renderChildren_good {cfg : MdCfg} (R : Rec) (hR : RecOk cfg R) (child st : InlineState) (henv : child.env = st.env)
    (hn : child.x.n ≤ child.x.s.size) (hab : AbbrOk cfg st.env) :
    Good (fun res => Fr st res.2) (renderChildren R child st) := renderIn_good R hR child st henv hn hab

theorem parseToEnd_good {cfg : MdCfg} (R : Rec) (hR : RecOk cfg R) (ty : String) (re : Rx) (m : RxMatch)
    (st : InlineState) (hab : AbbrOk cfg st.env) : Good (IPost m st) (parseToEnd R ty re m st) := by
  unfold parseToEnd
  extract_lets pos
  split
  · exact Good.pure (IPost.none Fr.refl)
  · rename_i m1 hm1
    have hs := search_sound st.x re m.stop m1 hm1
    extract_lets endPos text newState
    refine Good.bind (renderChildren_good R hR newState st rfl (mkCtx_n_le _ _) hab) ?_
    rintro ⟨children, st1⟩ h
    exact Good.pure (IPost.stop (Fr.trans h ⟨rfl, rfl⟩) (by show m.stop ≤ m1.stop; omega))

theorem parseScript_good {cfg : MdCfg} (R : Rec) (hR : RecOk cfg R) (ty : String) (m : RxMatch)
    (st : InlineState) (hab : AbbrOk cfg st.env) : Good (IPost m st) (parseScript R ty m st) := by
  unfold parseScript
  extract_lets text newState
  refine Good.bind (renderChildren_good R hR newState st rfl (mkCtx_n_le _ _) hab) ?_
  rintro ⟨children, st1⟩ h
  exact Good.pure (IPost.stop (Fr.trans h ⟨rfl, rfl⟩) (Nat.le_refl _))

theorem parseInlineSpoiler_good (cfg : MdCfg) (R : Rec) (hR : RecOk cfg R) (m : RxMatch)
    (st : InlineState) (hab : AbbrOk cfg st.env) : Good (IPost m st) (parseInlineSpoiler cfg R m st) := by
  unfold parseInlineSpoiler
  extract_lets text newState
  refine Good.bind (renderChildren_good R hR newState st rfl (mkCtx_n_le _ _) hab) ?_
  rintro ⟨children, st1⟩ h
  exact Good.pure (IPost.stop (Fr.trans h ⟨rfl, rfl⟩) (Nat.le_refl _))

theorem parseUrlLink_good (cfg : MdCfg) (m : RxMatch) (st : InlineState) (hab : AbbrOk cfg st.env) :
    Good (IPost m st) (parseUrlLink cfg m st) := by
  unfold parseUrlLink
  extract_lets text pos
  split
  · refine Good.bind (processTextC_good cfg text st hab) (fun st' h => ?_)
    exact Good.pure (IPost.stop h (Nat.le_refl _))
  · refine Good.bind (escapeUrl_good cfg _) (fun u _ => ?_)
    exact Good.pure (IPost.stop ⟨rfl, rfl⟩ (Nat.le_refl _))

theorem parseInlineMath_good (cfg : MdCfg) (m : RxMatch) (st : InlineState) :
    Good (IPost m st) (parseInlineMath cfg m st) := Good.ok (IPost.stop ⟨rfl, rfl⟩ (Nat.le_refl _))

theorem parseText_good (cfg : MdCfg) (m : RxMatch) (st : InlineState) (hab : AbbrOk cfg st.env) :
    Good (IPost m st) (parseText cfg m st) := by
  unfold parseText
  extract_lets text text2
  refine Good.bind (processTextC_good cfg text2 st hab) (fun st' h => ?_)
  exact Good.pure (IPost.stop h (Nat.le_refl _))

theorem rubyTokens_good (g0 : Str) : Good (fun _ => True) (rubyTokens g0) := by
  unfold rubyTokens
  extract_lets text
  generalize Py.splitOn [')'] text = items
  induction items with
  | nil => exact Good.ok trivial
  | cons a l ih =>
    rw [List.mapM_cons]
    refine Good.bind (Q := fun _ => True) ?_ (fun t _ => Good.bind ih (fun ts _ => Good.pure trivial))
    split
    · exact Good.ok trivial
    · exact Good.err (by decide)

/-- the `while True` loop of `parse_ruby` ends: every further group consumes a character (`hre`), or there is no
pattern at all and the loop ends at once -/
theorem rubyLoop_good (cfg : MdCfg) (hre : rubyRe cfg = .fail ∨ 1 ≤ (rubyRe cfg).minLen) :
    ∀ (fuel : Nat) (m : RxMatch) (st : InlineState), m.stop ≤ st.x.n → st.x.n - m.stop < fuel →
      Good (fun res => Fr st res.2.2 ∧ m.stop ≤ res.2.1) (rubyLoop cfg fuel m st) := by
  intro fuel
  induction fuel with
  | zero => intro m st _ h; omega
  | succ fuel ih =>
    intro m st hstop hfu
    unfold rubyLoop
    refine Good.bind (rubyTokens_good _) (fun tokens _ => ?_)
    extract_lets endPos
    split
    · exact Good.pure ⟨Fr.refl, Nat.le_refl _⟩
    · rename_i next hnext
      have hmin : 1 ≤ (rubyRe cfg).minLen := by
        rcases hre with hf | hm
        · rw [hf] at hnext; simp [Rx.matchAt, Rx.m] at hnext
        · exact hm
      obtain ⟨h1, h2⟩ := matchAt_sound _ _ _ _ hnext
      have h3 := minLen_sound _ _ _ _ _ _ h2
      have h4 := (spec_bounds _ _ _ _ _ _ h2 hstop).2
      have hfr := foldl_append_frame tokens st
      have := ih next (tokens.foldl (fun s t => s.appendToken t) st) (by rw [hfr.1]; exact h4)
        (by rw [hfr.1]; show st.x.n - next.stop < fuel; omega)
      refine this.mono (fun res h => ⟨Fr.trans hfr h.1, ?_⟩)
      have := h.2
      show m.stop ≤ res.2.1
      omega

theorem parseRubyLink_good (cfg : MdCfg) (st : InlineState) (pos : Nat) (tokens : List Json) :
    Good (fun res => Fr st res.2 ∧ ∀ p, res.1 = some p → pos ≤ p) (parseRubyLink cfg st pos tokens) := by
  have hnone : Good (fun res => Fr st res.2 ∧ ∀ p, res.1 = some p → pos ≤ p) (pure (none, st) : HRes) :=
    Good.pure ⟨Fr.refl, fun p h => by cases h⟩
  unfold parseRubyLink
  refine Good.bind (Q := fun _ => True) ?_ (fun c _ => ?_)
  · unfold pyGetItem
    extract_lets j
    split
    · exact Good.err (by decide)
    · split
      · exact Good.ok trivial
      · exact Good.err (by decide)
  · split
    · refine Good.bind (parseLinkH_good cfg st.x (pos + 1)) (fun r hr => ?_)
      split
      · rename_i attrs linkPos
        have := hr _ _ rfl
        split
        · exact Good.pure ⟨⟨rfl, rfl⟩, fun p h => by cases h; omega⟩
        · exact hnone
      · exact hnone
    · split
      · split
        · rename_i label linkPos hl
          have hlp : pos ≤ linkPos := by
            unfold parseLinkLabel at hl
            split at hl
            · rename_i mm hmm
              have := matchAt_stop_ge _ _ _ _ hmm
              cases hl; omega
            · cases hl
          split
          · extract_lets key env?
            have hpost1 : ∀ t : Json, (Fr st (st.appendToken t)) := fun t => ⟨rfl, rfl⟩
            have hpost2 : ∀ t : Json, Fr st ((tokens.foldl (fun s t => s.appendToken t) st).appendToken t) :=
              fun t => Fr.trans (foldl_append_frame tokens st) ⟨rfl, rfl⟩
            clear_value env? key
            split
            · split
              · extract_lets +onlyGivenNames title jp
                have hjp : ∀ url, Good (fun (res : Option Nat × InlineState) => Fr st res.2 ∧ ∀ p, res.1 = some p → pos ≤ p) (jp url) :=
                  fun url => Good.pure ⟨hpost1 _, fun p h => by cases h; exact hlp⟩
                clear_value jp
                split
                · simp only [pure_bind]; exact hjp _
                · exact (by decide : PyErr.keyError ≠ PyErr.noProgress)
              · exact Good.pure ⟨hpost2 _, fun p h => by cases h; exact hlp⟩
            · exact Good.pure ⟨hpost2 _, fun p h => by cases h; exact hlp⟩
          · exact hnone
        · exact hnone
      · exact hnone

theorem parseRuby_good (cfg : MdCfg) (hre : rubyRe cfg = .fail ∨ 1 ≤ (rubyRe cfg).minLen) (m : RxMatch)
    (st : InlineState) (hstop : m.stop ≤ st.x.n) (hn : st.x.n ≤ st.x.s.size) :
    Good (IPost m st) (parseRuby cfg m st) := by
  unfold parseRuby
  refine Good.bind (rubyLoop_good cfg hre _ m st hstop (by show st.x.n - m.stop < st.x.s.size + 1; omega)) ?_
  rintro ⟨tokens, endPos, st1⟩ ⟨h1, h2⟩
  dsimp only at h1 h2 ⊢
  have key : ∀ (e : HRes), Good (fun (res : Option Nat × InlineState) => Fr st1 res.2 ∧ ∀ p, res.1 = some p → endPos ≤ p) e →
      Good (IPost m st) (e >>= fun x => if posTruthy x.fst = true then pure (x.fst, x.snd)
        else pure (some endPos, List.foldl (fun s t => s.appendToken t) x.snd tokens)) := by
    intro e he
    refine Good.bind he ?_
    rintro ⟨linkPos, st2⟩ ⟨h3, h4⟩
    dsimp only at h3 h4 ⊢
    split
    · exact Good.pure ⟨Fr.trans h1 h3, fun p hp _ => by have := h4 p hp; omega⟩
    · exact Good.pure (IPost.stop (Fr.trans h1 (Fr.trans h3 (foldl_append_frame tokens st2))) h2)
  split
  · exact key _ (parseRubyLink_good cfg st1 endPos tokens)
  · exact key _ (Good.pure ⟨Fr.refl, fun p h => by cases h⟩)


/-! ### dispatch, the scanner loop, induction on the nesting budget -/

/-- **the decidable obligation on a configuration (inline side)**: every rule of `inline.specification` consumes at
least one character, and so do `_INLINE_SQUARE_BRACKET_RE` (the loop of `parse_link_text`) and `_ruby_re` (the loop
over adjacent groups of `parse_ruby`; `.fail` when the tree has no such pattern) -/
def ICfgOk (cfg : MdCfg) : Bool :=
  rulesConsume cfg.inlineSpec && decide (1 ≤ (cfg.rx "mistune.helpers._INLINE_SQUARE_BRACKET_RE").minLen) &&
    (decide (rubyRe cfg = .fail) || decide (1 ≤ (rubyRe cfg).minLen))

structure IFacts (cfg : MdCfg) : Prop where
  spec : ∀ n r, (n, r) ∈ cfg.inlineSpec → 1 ≤ r.minLen
  bracket : 1 ≤ (cfg.rx "mistune.helpers._INLINE_SQUARE_BRACKET_RE").minLen
  /-- `_ruby_re` (the loop over adjacent groups in `parse_ruby`) consumes a character, or there is no such pattern -/
  ruby : rubyRe cfg = .fail ∨ 1 ≤ (rubyRe cfg).minLen

theorem iFacts_of_ok {cfg : MdCfg} (h : ICfgOk cfg = true) : IFacts cfg := by
  unfold ICfgOk rulesConsume at h
  simp only [Bool.and_eq_true, Bool.or_eq_true, decide_eq_true_eq, List.all_eq_true] at h
  exact ⟨fun n r hm => h.1.1 _ hm, h.1.2, h.2⟩

/-- every handler bound by `parseMethod` satisfies the contract -/
theorem parseMethod_good (cfg : MdCfg) (hf : IFacts cfg) (R : Rec) (hR : RecOk cfg R) (name : String) (m : RxMatch)
    (st : InlineState) (hstop : m.stop ≤ st.x.n) (hn : st.x.n ≤ st.x.s.size) (hab : AbbrOk cfg st.env) :
    Good (IPost m st) (parseMethod cfg R name m st) := by
  unfold parseMethod
  split
  · exact Good.err (by decide)
  -- one goal per case of the dispatcher; ADDING A HANDLER = adding one `| exact …_good …` line
  split
  all_goals first
    | exact Good.err (by decide)
    | exact parseEscape_good cfg m st
    | exact parseCodespan_good m st
    | exact parseEmphasis_good cfg R hR m st hn hab
    | exact parseLink_good cfg hf.bracket R hR m st hstop hn hab
    | exact parseAutoLink_good cfg m st hab
    | exact parseAutoEmail_good cfg m st hab
    | exact parseInlineHtml_good m st
    | exact parseLinebreak_good m st
    | exact parseSoftbreak_good m st
    | exact parseInlineFootnote_good cfg m st
    | exact parseToEnd_good R hR _ _ m st hab                                  -- strikethrough, mark, insert
    | exact parseScript_good R hR _ m st hab                                   -- superscript, subscript
    | exact parseUrlLink_good cfg m st hab
    | exact parseInlineMath_good cfg m st
    | exact parseText_good cfg m st hab
    | exact parseRuby_good cfg hf.ruby m st hstop hn
    | exact parseInlineSpoiler_good cfg R hR m st hab

theorem parseLoop_good (cfg : MdCfg) (hf : IFacts cfg) (R : Rec) (hR : RecOk cfg R) (sc : List (String × Rx))
    (hsc : ∀ p ∈ sc, p ∈ cfg.inlineSpec) :
    ∀ (fuel pos : Nat) (st : InlineState), st.len - pos < fuel → st.x.n ≤ st.x.s.size → AbbrOk cfg st.env →
      Good (fun res => Fr st res.2) (parseLoop cfg R sc fuel pos st) := by
  intro fuel
  induction fuel with
  | zero => intro pos st h; omega
  | succ fuel ih =>
    intro pos st hfu hn hab
    unfold parseLoop
    split
    · rename_i hlt
      split
      · exact Good.ok Fr.refl
      · rename_i name m hscan
        obtain ⟨s1, s2, s3, ⟨r, hmem, hspec⟩, _⟩ := scan_sound _ _ _ _ _ hscan
        have hne := nonempty_of_minLen _ _ _ _ _ _ hspec (hf.spec _ _ (hsc _ hmem))
        extract_lets +onlyGivenNames endPos
        have he : endPos = m.start := rfl
        extract_lets +onlyGivenNames pos1 jp
        have hjp : ∀ st1, Fr st st1 → Good (fun res => Fr st res.2) (jp st1) := by
          intro st1 h1
          have hab1 := hab.of_same h1.2
          refine Good.bind (parseMethod_good cfg hf R hR name m st1 (by rw [h1.1]; exact s3) (by rw [h1.1]; exact hn)
            hab1) ?_
          rintro ⟨newPos, st2⟩ ⟨g1, g2⟩
          dsimp only at g1 g2 ⊢
          have h2 := h1.trans g1
          have hab2 := hab.of_same h2.2
          have hrec : ∀ (p : Nat) (st3 : InlineState), pos < p → Fr st2 st3 →
              Good (fun res => Fr st res.2) (parseLoop cfg R sc fuel p st3) := by
            intro p st3 hp h3
            have h03 := h2.trans h3
            have hlen3 : st3.len = st.len := by unfold InlineState.len; rw [h03.1]
            exact (ih p st3 (by omega) (by rw [h03.1]; exact hn) (hab.of_same h03.2)).mono
              (fun res hres => h03.trans hres)
          have hdecl : Good (fun res => Fr st res.2)
              (do let st3 ← processTextC cfg (st2.slice endPos (endPos + 1)) st2
                  parseLoop cfg R sc fuel (endPos + 1) st3) :=
            Good.bind (processTextC_good cfg _ st2 hab2) (fun st3 h3 => hrec _ st3 (by omega) h3)
          split
          · rename_i p
            split
            · rename_i hp0
              have := g2 p rfl (by simpa using hp0)
              rw [if_neg (by omega)]
              exact hrec p st2 (by omega) Fr.refl
            · exact hdecl
          · exact hdecl
        clear_value jp
        split
        · exact Good.bind (processTextC_good cfg _ st hab) (fun st1 h1 => hjp st1 h1)
        · simp only [pure_bind]; exact hjp st Fr.refl
    · exact Good.ok Fr.refl

theorem parse_good (cfg : MdCfg) (hf : IFacts cfg) (R : Rec) (hR : RecOk cfg R) (st : InlineState)
    (hn : st.x.n ≤ st.x.s.size) (hab : AbbrOk cfg st.env) : Good (fun st' => Fr st st') (parse cfg R st) := by
  unfold parse
  refine Good.bind (icompileSc_good cfg _) (fun sc hsc => ?_)
  refine Good.bind (parseLoop_good cfg hf R hR sc hsc (st.len + 1) 0 st (by omega) hn hab) ?_
  rintro ⟨pos, st1⟩ h1
  dsimp only at h1 ⊢
  have hab1 := hab.of_same h1.2
  split
  · exact (processTextC_good cfg _ st1 hab1).mono (fun st' h => h1.trans h)
  · split
    · exact (processTextC_good cfg _ st1 hab1).mono (fun st' h => h1.trans h)
    · exact Good.pure h1

/-- **every instance of the recursive entry points satisfies its contract** (induction on the nesting budget) -/
theorem recAt_ok (cfg : MdCfg) (hf : IFacts cfg) : ∀ fuel, RecOk cfg (recAt cfg fuel) := by
  intro fuel
  induction fuel with
  | zero => exact ⟨fun st _ _ => Good.err (by decide), fun name m st _ _ _ => Good.err (by decide)⟩
  | succ fuel ih =>
    refine ⟨fun st hn hab => ?_, fun name m st hstop hn hab => ?_⟩
    · exact (parse_good cfg hf _ ih st hn hab).mono (fun st' h => h.2)
    · exact (parseMethod_good cfg hf _ ih name m st hstop hn hab).mono (fun res h => h.1.2)

/-- **C01, progress of the concrete inline parser.**  For a configuration whose regenerated tables pass `ICfgOk`,
every source string and every `env` without an empty abbreviation key, no loop of the inline model returns
`.noProgress`. -/
theorem inlineParseEnv_no_noProgress (cfg : MdCfg) (hok : ICfgOk cfg = true) (env : Json) (hab : AbbrOk cfg env)
    (src : Str) : Inl.inlineParseEnv cfg env src ≠ .error .noProgress := by
  have hf := iFacts_of_ok hok
  have : Good (fun _ => True) (Inl.inlineParseEnv cfg env src) := by
    unfold Inl.inlineParseEnv
    split
    · exact Good.throw (by decide)
    · have hR := recAt_ok cfg hf inlineFuel
      refine Good.bind (Q := fun _ => True) ?_ (fun st _ => Good.pure trivial)
      unfold renderSt
      exact (parse_good cfg hf _ hR ((InlineState.new env).setSrc src) (mkCtx_n_le _ _) hab).mono (fun _ _ => trivial)
  exact this.noProgress

theorem inlineParse_no_noProgress (cfg : MdCfg) (hok : ICfgOk cfg = true) (env : Json) (hab : AbbrOk cfg env)
    (src : Str) : Inl.inlineParse cfg env src ≠ .error .noProgress := by
  have h := inlineParseEnv_no_noProgress cfg hok env hab src
  unfold Inl.inlineParse
  cases hr : Inl.inlineParseEnv cfg env src with
  | ok a => intro h2; cases h2
  | error e =>
    intro h2
    rw [hr] at h
    cases h2
    exact h rfl

end Inl
end Model
end Mistune

namespace Mistune
open Mistune.Model Mistune.Model.Inl Mistune.Generated

theorem Model.inlineParse_no_noProgress (cfg : MdCfg) (hok : ICfgOk cfg = true) (env : Json) (hab : AbbrOk cfg env)
    (src : Str) : Model.inlineParse cfg env src ≠ .error .noProgress :=
  Inl.inlineParse_no_noProgress cfg hok env hab src

theorem Model.inlineParseEnv_no_noProgress (cfg : MdCfg) (hok : ICfgOk cfg = true) (env : Json) (hab : AbbrOk cfg env)
    (src : Str) : Model.inlineParseEnv cfg env src ≠ .error .noProgress :=
  Inl.inlineParseEnv_no_noProgress cfg hok env hab src

/-- **Obligation (C01, concrete inline parser):** every regenerated configuration passes `ICfgOk`. -/
theorem allCfgs_iCfgOk : allCfgs.all (fun c => ICfgOk (ofRuleCfg c)) = true := by decide +kernel

/-- an `env` without abbreviation table (every configuration without the `abbr` plugin) satisfies `AbbrOk` -/
theorem abbrOk_of_none (cfg : MdCfg) (env : Json) (h : env.get? "ref_abbrs" = none) : AbbrOk cfg env := by
  intro _ kv hkv; rw [h] at hkv; cases hkv

/-- a configuration without the `abbr` plugin needs nothing of `env` -/
theorem abbrOk_of_unregistered (cfg : MdCfg) (env : Json) (h : (cfg.blockSpec.lookup "ref_abbr").isSome = false) :
    AbbrOk cfg env := by
  intro hreg; rw [h] at hreg; cases hreg

/-- for a configuration without the `abbr` plugin: no hypothesis on `env` at all -/
theorem Model.inlineParse_no_noProgress_noabbr (cfg : MdCfg) (hok : ICfgOk cfg = true)
    (hno : (cfg.blockSpec.lookup "ref_abbr").isSome = false) (env : Json) (src : Str) :
    Model.inlineParse cfg env src ≠ .error .noProgress :=
  Model.inlineParse_no_noProgress cfg hok env (abbrOk_of_unregistered cfg env hno) src

/-- the headline theorem for every regenerated configuration -/
theorem allCfgs_inlineParse_no_noProgress (c : RuleCfg) (hc : c ∈ allCfgs) (env : Json) (hab : AbbrOk (ofRuleCfg c) env)
    (src : Str) : Model.inlineParse (ofRuleCfg c) env src ≠ .error .noProgress :=
  Model.inlineParse_no_noProgress _ (List.all_eq_true.1 allCfgs_iCfgOk c hc) env hab src

-- non-vacuity
example : ICfgOk (ofRuleCfg cfg_core) = true := by decide +kernel
example : AbbrOk (ofRuleCfg cfg_only_abbr) (.obj [("ref_links", .obj [])]) := abbrOk_of_none _ _ rfl
example : ((ofRuleCfg cfg_core).blockSpec.lookup "ref_abbr").isSome = false := by decide +kernel
example : AbbrOk (ofRuleCfg cfg_only_abbr) (.obj [("ref_abbrs", .obj [("HTML", .str "x".toList)])]) := by
  intro _ kv hkv p hp
  simp [Json.get?, List.lookup] at hkv
  subst hkv
  simp at hp
  subst hp
  decide
example : isOkRes (Model.inlineParse (ofRuleCfg cfg_core) (.obj [("ref_links", .obj [])])
    "a *b* [c](d) `e` <f@g.h>".toList) = true := by decide +kernel

-- the `abbr` plugin's `process_text` loop runs (configuration with the plugin, an `env` with an abbreviation)
example : isOkRes (Model.inlineParse (ofRuleCfg cfg_only_abbr)
    (.obj [("ref_links", .obj []), ("ref_abbrs", .obj [("HTML", .str "x".toList)])])
    "the HTML spec".toList) = true := by decide +kernel

/-- the hypothesis `AbbrOk` is necessary: with an empty abbreviation key the model does reach `.noProgress` (the
compiled alternation would match the empty string at every position) -/
example : isNoProgress (Model.inlineParse (ofRuleCfg cfg_only_abbr)
    (.obj [("ref_links", .obj []), ("ref_abbrs", .obj [("", .str "x".toList)])]) "ab".toList) = true := by
  decide +kernel

end Mistune
