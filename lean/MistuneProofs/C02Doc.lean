/-
C02 end to end for the concrete parser model: every token tree `Model.parseDoc` returns for a plugin-free
configuration satisfies the hypothesis `refinedOk` of `render_safe` (C02Tmpl), hence renders — with the HTML templates
regenerated from the working tree, escaping on — to a tagged string in which no character that comes from the
document is `<`, `>` or `"`.

Route: the grammar proof (C05Grammar*) carries, next to `wfSeq`, the attribute shape `shp` of the tokens: only core
token types, and every value in `attrs` is a number / boolean / `None`, except `url`, `title` of links and images and
`info` of code blocks.  `shp_refined`: for a template table that lists exactly these as data arguments, lists
`$text` as data for the raw types and exempts no core type (`tblCoreB`, kernel-decided for `Generated.templates`),
`shp` implies `refinedOk`.
-/
import MistuneProofs.C02Tmpl
import MistuneProofs.C05GrammarAtx
namespace Mistune
open Mistune.Generated

/-- **decidable obligation on the template table**: no core token type is exempt, the raw core types take their
`raw` as a data argument, `url` / `title` of links and images and `info` of code blocks are data arguments -/
def tblCoreB (tbl : TmplTable) : Bool :=
  coreTys.all (fun ty => !tbl.exempt.contains ty &&
    (!tbl.rawTypes.contains ty || (tbl.dataArgsOf ty).contains "$text")) &&
  (tbl.dataArgsOf "link").contains "url" && (tbl.dataArgsOf "link").contains "title" &&
  (tbl.dataArgsOf "image").contains "url" && (tbl.dataArgsOf "image").contains "title" &&
  (tbl.dataArgsOf "block_code").contains "info"

theorem plainJ_safe (v : Json) (h : plainJ v = true) : (valOfJson v).safeB = true := by
  cases v <;> simp [plainJ] at h <;> rfl

/-- the attribute shape implies the refinement hypothesis of the render theorem -/
theorem shp_refined (tbl : TmplTable) (htbl : tblCoreB tbl = true) :
    ∀ (k : Nat) (t : Json), shp k t = true → refinedOk tbl k t = true := by
  simp only [tblCoreB, Bool.and_eq_true, List.all_eq_true, Bool.not_eq_true', Bool.or_eq_true] at htbl
  obtain ⟨⟨⟨⟨⟨hcore, l1⟩, l2⟩, i1⟩, i2⟩, c1⟩ := htbl
  intro k
  induction k with
  | zero => intro t h; simp [shp] at h
  | succ k ih =>
    intro t h
    rw [shp] at h
    simp only [Bool.and_eq_true] at h
    obtain ⟨⟨hty, hattrs⟩, hch⟩ := h
    have hty' : t.type ∈ coreTys := by simpa using hty
    obtain ⟨hex, hraw⟩ := hcore _ hty'
    rw [refinedOk]
    simp only [Bool.and_eq_true, Bool.not_eq_true', Bool.or_eq_true]
    refine ⟨⟨⟨hex, ?_⟩, ?_⟩, ?_⟩
    · rcases hraw with hr | hr
      · exact Or.inl (Or.inl hr)
      · exact Or.inl (Or.inr hr)
    · -- the keyword arguments
      cases ha : t.get? "attrs" with
      | none => simp [attrVals]
      | some a =>
        rw [ha] at hattrs
        cases a with
        | obj kv =>
          simp only [Option.getD_some, attrVals, List.all_map, List.all_eq_true]
          simp only [attrsShape, List.all_eq_true] at hattrs
          intro p hp
          have := hattrs p hp
          simp only [Bool.or_eq_true, Bool.and_eq_true, beq_iff_eq] at this
          simp only [Function.comp, Bool.or_eq_true]
          rcases this with (hpl | ⟨hlk, hkey⟩) | ⟨hbc, hkey⟩
          · exact Or.inr (plainJ_safe _ hpl)
          · left
            rcases hlk with e | e <;> rcases hkey with f | f <;> rw [e, f] <;> assumption
          · left; rw [hbc, hkey]; exact c1
        | _ => simp [attrVals]
    · split
      · rename_i cs hcs
        rw [hcs] at hch
        simp only [List.all_eq_true] at hch ⊢
        exact fun c hc => ih c (hch c hc)
      · rfl

/-- kernel-decided obligation on the regenerated template table -/
theorem templates_core : tblCoreB templates = true := by decide +kernel

namespace Model
open Blk Blk.G

/-- **the parser's output satisfies the refinement hypothesis of the render theorem** -/
theorem parseDoc_refinedOk (cfg : MdCfg) (hcore : coreCfgB cfg = true) (hatx : atxOkB cfg = true) (s : Str)
    (toks : List Json) (h : parseDoc cfg s = .ok toks) : toks.all (refinedOk templates (wfFuel cfg)) = true := by
  have := parseDoc_shp cfg hcore (cfgAtx_of_B cfg hatx) s toks h
  unfold shpAll at this
  rw [List.all_eq_true] at this ⊢
  exact fun t ht => shp_refined templates templates_core _ t (this t ht)

/-- **C02 end to end for the concrete model**: the HTML rendering (escaping on) of every token tree the parser
returns contains no document character `<`, `>`, `"` -/
theorem parseDoc_render_safe (cfg : MdCfg) (hcore : coreCfgB cfg = true) (hatx : atxOkB cfg = true) (s : Str)
    (toks : List Json) (h : parseDoc cfg s = .ok toks) :
    (renderToks templates (fun a => mkTEnv a true) (wfFuel cfg) toks).Safe :=
  render_safe (wfFuel cfg) toks (parseDoc_refinedOk cfg hcore hatx s toks h)

/-- the same for every larger fuel of the renderer (`wfFuel cfg` already exceeds the depth of the tree: `parseDoc_wf`) -/
theorem parseDoc_render_safe_ge (cfg : MdCfg) (hcore : coreCfgB cfg = true) (hatx : atxOkB cfg = true) (s : Str)
    (toks : List Json) (h : parseDoc cfg s = .ok toks) (F : Nat) (hF : wfFuel cfg ≤ F) :
    (renderToks templates (fun a => mkTEnv a true) F toks).Safe := by
  apply render_safe
  have := shpAll_mono_le hF _ (parseDoc_shp cfg hcore (cfgAtx_of_B cfg hatx) s toks h)
  unfold shpAll at this
  rw [List.all_eq_true] at this ⊢
  exact fun t ht => shp_refined templates templates_core _ t (this t ht)

/-- the configurations of `coreNames`: no hypothesis but the result of the parse -/
theorem parseDoc_refinedOk_core (n : String) (hn : n ∈ coreNames) (cfg : MdCfg) (hc : findCfg n = some cfg) (s : Str)
    (toks : List Json) (h : parseDoc cfg s = .ok toks) : toks.all (refinedOk templates (wfFuel cfg)) = true := by
  have h1 := coreCfgs_ok n hn
  have h2 := coreCfgs_atx n hn
  rw [hc] at h1 h2
  exact parseDoc_refinedOk cfg (by simpa using h1) (by simpa using h2) s toks h

theorem parseDoc_render_safe_core (n : String) (hn : n ∈ coreNames) (cfg : MdCfg) (hc : findCfg n = some cfg) (s : Str)
    (toks : List Json) (h : parseDoc cfg s = .ok toks) :
    (renderToks templates (fun a => mkTEnv a true) (wfFuel cfg) toks).Safe :=
  render_safe (wfFuel cfg) toks (parseDoc_refinedOk_core n hn cfg hc s toks h)

/-- non-vacuity: a heading, a link whose url and title contain `<` and `"`, a fenced block whose info contains `<`:
the model parses it and the result satisfies `refinedOk` (kernel-checked) -/
example : ((findCfg "core").map (fun cfg =>
    match parseDoc cfg "# a\n\n[x](<u\"b> 't<')\n\n```a<b\nc\n```\n".toList with
    | .ok toks => toks.length == 5 && toks.all (refinedOk templates (wfFuel cfg))
    | .error _ => false)) = some true := by decide +kernel

/-- some token of the tree (up to depth 5) has type `ty` -/
def hasType (ty : String) : Nat → Json → Bool
  | 0, _ => false
  | k + 1, t => t.type == ty || (t.getArr "children").any (hasType ty k)

/-- non-vacuity for configurations with plugins: the plugin handler fires, the tree is in the grammar and satisfies
`refinedOk` (kernel-checked) -/
example : ((findCfg "only-strikethrough").map (fun cfg =>
    match parseDoc cfg "~~a *b*~~ x\n".toList with
    | .ok toks => toks.any (hasType "strikethrough" 5) && wfTokens toks cfg.maxNested &&
        toks.all (refinedOk templates (wfFuel cfg))
    | .error _ => false)) = some true := by decide +kernel

example : ((findCfg "only-math").map (fun cfg =>
    match parseDoc cfg "$$\nx<y\n$$\n\n$a<b$\n".toList with
    | .ok toks => toks.any (hasType "block_math" 5) && toks.any (hasType "inline_math" 5) &&
        wfTokens toks cfg.maxNested && toks.all (refinedOk templates (wfFuel cfg))
    | .error _ => false)) = some true := by decide +kernel

end Model
end Mistune

#print axioms Mistune.Model.parseDoc_refinedOk
#print axioms Mistune.Model.parseDoc_render_safe
#print axioms Mistune.Model.parseDoc_render_safe_core
