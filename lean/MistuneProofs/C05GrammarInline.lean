/-
C05 for the concrete model, inline pass: every token list the inline parser returns is a list of inline tokens of the
grammar `wfSeq` (types, `raw` / `children`, `url` of links and images, children again inline tokens), by induction on
the nesting budget of `recAt`.  Handlers working with the entry points of budget `f` produce tokens of depth at most
`2 f + 3`.
-/
import MistuneProofs.C05GrammarBridge
import Mistune.Model.Inline
namespace Mistune
namespace Model
namespace Inl
namespace G

/-! ### token facts -/

theorem wfSeq_set_other (n : Nat) (kv : List (String × Json)) (k : String) (v : Json) (ctx : TokCtx) (d mx : Nat)
    (hk : k ≠ "type" ∧ k ≠ "attrs" ∧ k ≠ "raw" ∧ k ≠ "children" ∧ k ≠ "text") :
    wfSeq (n + 1) [(Json.obj kv).set k v] ctx d mx = wfSeq (n + 1) [.obj kv] ctx d mx := by
  obtain ⟨a1, a2, a3, a4, a5⟩ := hk
  obtain ⟨kv', hkv'⟩ := set_obj kv k v
  have g := wfSeq_single_view n kv' ctx d mx
  rw [← hkv'] at g
  rw [g, wfSeq_single_view, get?_set_ne _ _ "type" _ (Ne.symm a1), get?_set_ne _ _ "attrs" _ (Ne.symm a2),
    get?_set_ne _ _ "raw" _ (Ne.symm a3), get?_set_ne _ _ "children" _ (Ne.symm a4), get?_set_ne _ _ "text" _ (Ne.symm a5)]

macro "inl_lit" : tactic =>
  `(tactic| simp [wfSeq, textTok, tok, Json.get?, Json.has, Json.s, Json.getArr, Json.getInt?, List.lookup, inlineTypes,
      inlineLeafRaw, blockLeafRaw, inlineEmpty, blockEmpty, countedContainers, *])

theorem wf_text (k : Nat) (raw : Str) (d mx : Nat) (hd : d ≤ mx) : wfSeq (k + 1) [textTok raw] .inline d mx = true := by
  inl_lit

theorem wf_codespan (k : Nat) (raw : Str) (d mx : Nat) (hd : d ≤ mx) :
    wfSeq (k + 1) [tok "codespan" [("raw", .str raw)]] .inline d mx = true := by inl_lit

theorem wf_html (k : Nat) (raw : Str) (d mx : Nat) (hd : d ≤ mx) :
    wfSeq (k + 1) [tok "inline_html" [("raw", .str raw)]] .inline d mx = true := by inl_lit

theorem wf_linebreak (k : Nat) (d mx : Nat) (hd : d ≤ mx) : wfSeq (k + 1) [tok "linebreak" []] .inline d mx = true := by
  inl_lit

theorem wf_softbreak (k : Nat) (d mx : Nat) (hd : d ≤ mx) : wfSeq (k + 1) [tok "softbreak" []] .inline d mx = true := by
  inl_lit

theorem wf_footnote (k : Nat) (raw : Str) (i : Nat) (d mx : Nat) (hd : d ≤ mx) :
    wfSeq (k + 1) [tok "footnote_ref" [("raw", .str raw), ("attrs", .obj [("index", .num ((i + 1 : Nat) : Int))])]]
      .inline d mx = true := by
  inl_lit
  omega

theorem wfTy_emph (rec : List Json → TokCtx → Nat → Bool) (ty : String) (hty : ty = "emphasis" ∨ ty = "strong")
    (cs : List Json) (d mx : Nat) (hd : d ≤ mx) (hrec : rec cs .inline d = true) :
    wfTy rec ty none (none : Option Json) (some (.arr cs)) none .inline d mx = true := by
  have h0 : attrsOkB none = true := rfl
  rcases hty with e | e <;> subst e <;> wf_simp

theorem wfTy_link (rec : List Json → TokCtx → Nat → Bool) (ty : String) (hty : ty = "link" ∨ ty = "image")
    (kv : List (String × Json)) (u : Str) (hu : (Json.obj kv).get? "url" = some (.str u))
    (cs : List Json) (d mx : Nat) (hd : d ≤ mx) (hrec : rec cs .inline d = true) :
    wfTy rec ty (some (.obj kv)) (none : Option Json) (some (.arr cs)) none .inline d mx = true := by
  have h0 : attrsOkB (some (.obj kv)) = true := rfl
  rcases hty with e | e <;> subst e <;> wf_simp

theorem wf_emphasis (k : Nat) (cs : List Json) (d mx : Nat) (hd : d ≤ mx) (h : wfSeq (k + 1) cs .inline d mx = true) :
    wfSeq (k + 2) [tok "emphasis" [("children", .arr cs)]] .inline d mx = true := by
  rw [tok, wfSeq_single_view]
  simp only [Json.get?, List.lookup, Json.s, wfView, String.ofList_toList]
  exact wfTy_emph _ _ (Or.inl rfl) cs d mx hd h

theorem wf_strong (k : Nat) (cs : List Json) (d mx : Nat) (hd : d ≤ mx) (h : wfSeq (k + 1) cs .inline d mx = true) :
    wfSeq (k + 2) [tok "strong" [("children", .arr cs)]] .inline d mx = true := by
  rw [tok, wfSeq_single_view]
  simp only [Json.get?, List.lookup, Json.s, wfView, String.ofList_toList]
  exact wfTy_emph _ _ (Or.inr rfl) cs d mx hd h

/-- the keys of link attributes are `url` and `title` -/
def linkKeys : Json → Bool
  | .obj kv => kv.all (fun p => p.1 == "url" || p.1 == "title")
  | _ => false

theorem linkKeys_set_title (kv : List (String × Json)) (v : Json) (h : linkKeys (.obj kv) = true) :
    linkKeys ((Json.obj kv).set "title" v) = true := by
  simp only [linkKeys, List.all_eq_true] at h
  simp only [Json.set]
  split
  · simp only [linkKeys, List.all_eq_true, List.mem_map]
    rintro q ⟨p, hp, rfl⟩
    have := h p hp
    split
    · simp
    · exact this
  · simp only [linkKeys, List.all_eq_true, List.mem_append, List.mem_singleton]
    rintro q (hq | rfl)
    · exact h q hq
    · simp

theorem attrsShape_link (ty : String) (hty : ty = "link" ∨ ty = "image") (kv : List (String × Json))
    (h : linkKeys (.obj kv) = true) : attrsShape ty (some (.obj kv)) = true := by
  simp only [linkKeys, List.all_eq_true] at h
  simp only [attrsShape, List.all_eq_true]
  intro p hp
  have := h p hp
  rcases hty with e | e <;> subst e <;> simp_all

/-- attributes of a link / image token: an object with a string `url`, keys `url` / `title` only -/
def LinkAttrs (a : Json) : Prop := (∃ kv, a = .obj kv) ∧ (∃ u, a.get? "url" = some (.str u)) ∧ linkKeys a = true

theorem wf_link (k : Nat) (cs : List Json) (attrs : Json) (d mx : Nat) (hd : d ≤ mx) (ha : LinkAttrs attrs)
    (h : wfSeq (k + 1) cs .inline d mx = true) :
    wfSeq (k + 2) [tok "link" [("children", .arr cs), ("attrs", attrs)]] .inline d mx = true := by
  obtain ⟨⟨kv, rfl⟩, ⟨u, hu⟩, hk⟩ := ha
  rw [tok, wfSeq_single_view]
  simp only [Json.get?, List.lookup, Json.s, wfView, String.ofList_toList]
  exact wfTy_link _ _ (Or.inl rfl) kv u hu cs d mx hd h

theorem wf_image (k : Nat) (cs : List Json) (attrs : Json) (d mx : Nat) (hd : d ≤ mx) (ha : LinkAttrs attrs)
    (h : wfSeq (k + 1) cs .inline d mx = true) :
    wfSeq (k + 2) [tok "image" [("children", .arr cs), ("attrs", attrs)]] .inline d mx = true := by
  obtain ⟨⟨kv, rfl⟩, ⟨u, hu⟩, hk⟩ := ha
  rw [tok, wfSeq_single_view]
  simp only [Json.get?, List.lookup, Json.s, wfView, String.ofList_toList]
  exact wfTy_link _ _ (Or.inr rfl) kv u hu cs d mx hd h

/-! ### the grammar together with the attribute shape (`shp`, for C02) -/

/-- inline token list of the grammar whose tokens have core types and `attrs` of the shape `attrsShape` -/
def ixSeq (k : Nat) (toks : List Json) (d mx : Nat) : Bool := wfSeq k toks .inline d mx && shpAll k toks

theorem ixSeq_nil (k d mx : Nat) : ixSeq (k + 1) [] d mx = true := by simp [ixSeq, wfSeq_nil, shpAll]

theorem ixSeq_append_iff (k : Nat) (a b : List Json) (d mx : Nat) :
    ixSeq (k + 1) (a ++ b) d mx = true ↔ ixSeq (k + 1) a d mx = true ∧ ixSeq (k + 1) b d mx = true := by
  simp only [ixSeq, wfSeq_append, shpAll_append, Bool.and_eq_true]
  constructor
  · rintro ⟨⟨a1, a2⟩, a3, a4⟩; exact ⟨⟨a1, a3⟩, a2, a4⟩
  · rintro ⟨⟨a1, a3⟩, a2, a4⟩; exact ⟨⟨a1, a2⟩, a3, a4⟩

theorem ixSeq_mono_le {n m : Nat} (h : n ≤ m) (toks : List Json) (d mx : Nat) (hw : ixSeq n toks d mx = true) :
    ixSeq m toks d mx = true := by
  simp only [ixSeq, Bool.and_eq_true] at hw ⊢
  exact ⟨wfSeq_mono_le h _ _ _ _ hw.1, shpAll_mono_le h _ hw.2⟩

theorem ixSeq_mono (n : Nat) (toks : List Json) (d mx : Nat) (hw : ixSeq n toks d mx = true) :
    ixSeq (n + 1) toks d mx = true := ixSeq_mono_le (Nat.le_succ n) toks d mx hw

theorem ixSeq_set_other (n : Nat) (kv : List (String × Json)) (k : String) (v : Json) (d mx : Nat)
    (hk : k ≠ "type" ∧ k ≠ "attrs" ∧ k ≠ "raw" ∧ k ≠ "children" ∧ k ≠ "text") :
    ixSeq (n + 1) [(Json.obj kv).set k v] d mx = ixSeq (n + 1) [.obj kv] d mx := by
  simp only [ixSeq, shpAll, List.all_cons, List.all_nil, Bool.and_true]
  rw [wfSeq_set_other _ _ _ _ _ _ _ hk, shp_congr n (.obj kv) _ (get?_set_ne _ _ "type" _ (Ne.symm hk.1))
    (get?_set_ne _ _ "attrs" _ (Ne.symm hk.2.1)) (get?_set_ne _ _ "children" _ (Ne.symm hk.2.2.2.1))]

macro "shp_lit" : tactic =>
  `(tactic| simp [shpAll, shp, coreTys, attrsShape, plainJ, textTok, tok, Json.type, Json.getStr, Json.get?, List.lookup,
      Json.s, *])

theorem ix_text (k : Nat) (raw : Str) (d mx : Nat) (hd : d ≤ mx) : ixSeq (k + 1) [textTok raw] d mx = true := by
  simp only [ixSeq, wf_text _ _ _ _ hd, Bool.true_and]; shp_lit
theorem ix_codespan (k : Nat) (raw : Str) (d mx : Nat) (hd : d ≤ mx) :
    ixSeq (k + 1) [tok "codespan" [("raw", .str raw)]] d mx = true := by
  simp only [ixSeq, wf_codespan _ _ _ _ hd, Bool.true_and]; shp_lit
theorem ix_html (k : Nat) (raw : Str) (d mx : Nat) (hd : d ≤ mx) :
    ixSeq (k + 1) [tok "inline_html" [("raw", .str raw)]] d mx = true := by
  simp only [ixSeq, wf_html _ _ _ _ hd, Bool.true_and]; shp_lit
theorem ix_linebreak (k : Nat) (d mx : Nat) (hd : d ≤ mx) : ixSeq (k + 1) [tok "linebreak" []] d mx = true := by
  simp only [ixSeq, wf_linebreak _ _ _ hd, Bool.true_and]; shp_lit
theorem ix_softbreak (k : Nat) (d mx : Nat) (hd : d ≤ mx) : ixSeq (k + 1) [tok "softbreak" []] d mx = true := by
  simp only [ixSeq, wf_softbreak _ _ _ hd, Bool.true_and]; shp_lit
theorem ix_footnote (k : Nat) (raw : Str) (i : Nat) (d mx : Nat) (hd : d ≤ mx) :
    ixSeq (k + 1) [tok "footnote_ref" [("raw", .str raw), ("attrs", .obj [("index", .num ((i + 1 : Nat) : Int))])]]
      d mx = true := by
  simp only [ixSeq, wf_footnote _ _ _ _ _ hd, Bool.true_and]; shp_lit

theorem tok_type (ty : String) (fields : List (String × Json)) : (tok ty fields).type = ty := by
  simp [tok, Json.type, Json.getStr, Json.get?, List.lookup, Json.s]

theorem shp_tok_children (k : Nat) (ty : String) (cs : List Json) (hty : coreTys.contains ty = true)
    (hs : shpAll (k + 1) cs = true) : shp (k + 2) (tok ty [("children", .arr cs)]) = true := by
  rw [shp, tok_type]
  have e2 : (tok ty [("children", Json.arr cs)]).get? "attrs" = none := by simp [tok, Json.get?, List.lookup]
  have e3 : (tok ty [("children", Json.arr cs)]).get? "children" = some (.arr cs) := by simp [tok, Json.get?, List.lookup]
  rw [e2, e3]
  simp only [hty, attrsShape, Bool.true_and]
  exact hs

theorem shp_tok_children_attrs (k : Nat) (ty : String) (cs : List Json) (a : Json) (hty : coreTys.contains ty = true)
    (ha : attrsShape ty (some a) = true) (hs : shpAll (k + 1) cs = true) :
    shp (k + 2) (tok ty [("children", .arr cs), ("attrs", a)]) = true := by
  rw [shp, tok_type]
  have e2 : (tok ty [("children", Json.arr cs), ("attrs", a)]).get? "attrs" = some a := by
    simp [tok, Json.get?, List.lookup]
  have e3 : (tok ty [("children", Json.arr cs), ("attrs", a)]).get? "children" = some (.arr cs) := by
    simp [tok, Json.get?, List.lookup]
  rw [e2, e3]
  simp only [hty, ha, Bool.true_and]
  exact hs

theorem ix_emphasis (k : Nat) (cs : List Json) (d mx : Nat) (hd : d ≤ mx) (h : ixSeq (k + 1) cs d mx = true) :
    ixSeq (k + 2) [tok "emphasis" [("children", .arr cs)]] d mx = true := by
  simp only [ixSeq, Bool.and_eq_true] at h
  simp only [ixSeq, wf_emphasis _ _ _ _ hd h.1, Bool.true_and, shpAll, List.all_cons, List.all_nil, Bool.and_true]
  exact shp_tok_children k _ cs (by decide) h.2
theorem ix_strong (k : Nat) (cs : List Json) (d mx : Nat) (hd : d ≤ mx) (h : ixSeq (k + 1) cs d mx = true) :
    ixSeq (k + 2) [tok "strong" [("children", .arr cs)]] d mx = true := by
  simp only [ixSeq, Bool.and_eq_true] at h
  simp only [ixSeq, wf_strong _ _ _ _ hd h.1, Bool.true_and, shpAll, List.all_cons, List.all_nil, Bool.and_true]
  exact shp_tok_children k _ cs (by decide) h.2
theorem ix_link (k : Nat) (cs : List Json) (attrs : Json) (d mx : Nat) (hd : d ≤ mx) (ha : LinkAttrs attrs)
    (h : ixSeq (k + 1) cs d mx = true) :
    ixSeq (k + 2) [tok "link" [("children", .arr cs), ("attrs", attrs)]] d mx = true := by
  simp only [ixSeq, Bool.and_eq_true] at h
  have hw := wf_link k cs attrs d mx hd ha h.1
  obtain ⟨⟨kv, rfl⟩, _, hk⟩ := ha
  simp only [ixSeq, hw, Bool.true_and, shpAll, List.all_cons, List.all_nil, Bool.and_true]
  exact shp_tok_children_attrs k _ cs _ (by decide) (attrsShape_link "link" (Or.inl rfl) kv hk) h.2
theorem ix_image (k : Nat) (cs : List Json) (attrs : Json) (d mx : Nat) (hd : d ≤ mx) (ha : LinkAttrs attrs)
    (h : ixSeq (k + 1) cs d mx = true) :
    ixSeq (k + 2) [tok "image" [("children", .arr cs), ("attrs", attrs)]] d mx = true := by
  simp only [ixSeq, Bool.and_eq_true] at h
  have hw := wf_image k cs attrs d mx hd ha h.1
  obtain ⟨⟨kv, rfl⟩, _, hk⟩ := ha
  simp only [ixSeq, hw, Bool.true_and, shpAll, List.all_cons, List.all_nil, Bool.and_true]
  exact shp_tok_children_attrs k _ cs _ (by decide) (attrsShape_link "image" (Or.inr rfl) kv hk) h.2

/-! ### the state invariant and the contract of the recursive entry points -/

/-- the tokens of the state are inline tokens of depth at most `n + 1`; `env` holds well-formed link definitions -/
def IOk (n d mx : Nat) (st : InlineState) : Prop :=
  ixSeq (n + 1) st.tokens.toList d mx = true ∧ EnvOk st.env

/-- the entry points return / keep token lists of depth at most `n + 1` -/
def RecOk (n d mx : Nat) (R : Rec) : Prop :=
  (∀ st, IOk n d mx st → Sat (IOk n d mx) (R.renderSt st)) ∧
  (∀ name m st, IOk n d mx st → Sat (fun r => IOk n d mx r.2) (R.call name m st))

theorem IOk.mono {n d mx : Nat} {st : InlineState} (h : IOk n d mx st) (j : Nat) : IOk (n + j) d mx st :=
  ⟨ixSeq_mono_le (by omega) _ _ _ h.1, h.2⟩

theorem IOk.append {n d mx : Nat} {st : InlineState} {t : Json} (h : IOk n d mx st)
    (ht : ixSeq (n + 1) [t] d mx = true) : IOk n d mx (st.appendToken t) := by
  refine ⟨?_, h.2⟩
  show ixSeq (n + 1) (st.tokens.push t).toList d mx = true
  rw [Array.toList_push]; exact (ixSeq_append_iff _ _ _ _ _).2 ⟨h.1, ht⟩

theorem IOk.text {n d mx : Nat} {st : InlineState} (h : IOk n d mx st) (hd : d ≤ mx) (raw : Str) :
    IOk n d mx (st.appendToken (textTok raw)) := h.append (ix_text _ _ _ _ hd)

theorem iok_empty (n d mx : Nat) (st : InlineState) (ht : st.tokens = #[]) (he : EnvOk st.env) : IOk n d mx st := by
  refine ⟨?_, he⟩
  rw [ht]; exact ixSeq_nil _ _ _

theorem processTextC_ok (cfg : MdCfg) (hna : (cfg.blockSpec.lookup "ref_abbr").isSome = false) (n d mx : Nat)
    (hd : d ≤ mx) (text : Str) (st : InlineState) (h : IOk n d mx st) :
    Sat (IOk n d mx) (processTextC cfg text st) := by
  unfold processTextC
  rw [hna]
  exact Sat.ok (h.text hd _)

/-- what a handler guarantees about its final state -/
abbrev HPost (n d mx : Nat) (res : Option Nat × InlineState) : Prop := IOk n d mx res.2

theorem renderIn_ok {n d mx : Nat} (R : Rec) (hR : RecOk n d mx R) (child st : InlineState) (hc : child.tokens = #[])
    (henv : child.env = st.env) (h : IOk (n + 2) d mx st) :
    Sat (fun res => ixSeq (n + 1) res.1.toList d mx = true ∧ IOk (n + 2) d mx res.2) (R.renderIn child st) := by
  unfold Rec.renderIn
  refine Sat.bind (hR.1 child (iok_empty _ _ _ _ hc (by rw [henv]; exact h.2))) (fun c hcok => ?_)
  exact Sat.pure ⟨hcok.1, h.1, hcok.2⟩

/-! ### the handlers that do not recurse -/

theorem parseEscape_ok (cfg : MdCfg) (n d mx : Nat) (hd : d ≤ mx) (m : RxMatch) (st : InlineState) (h : IOk n d mx st) :
    Sat (HPost n d mx) (parseEscape cfg m st) := Sat.ok (h.text hd _)

theorem parseLinebreak_ok (n d mx : Nat) (hd : d ≤ mx) (m : RxMatch) (st : InlineState) (h : IOk n d mx st) :
    Sat (HPost n d mx) (parseLinebreak m st) := Sat.ok (h.append (ix_linebreak _ _ _ hd))

theorem parseSoftbreak_ok (n d mx : Nat) (hd : d ≤ mx) (m : RxMatch) (st : InlineState) (h : IOk n d mx st) :
    Sat (HPost n d mx) (parseSoftbreak m st) := Sat.ok (h.append (ix_softbreak _ _ _ hd))

theorem parseCodespan_ok (n d mx : Nat) (hd : d ≤ mx) (m : RxMatch) (st : InlineState) (h : IOk n d mx st) :
    Sat (HPost n d mx) (parseCodespan m st) := by
  unfold parseCodespan
  extract_lets marker pos
  split
  · exact Sat.ok (h.append (ix_codespan _ _ _ _ hd))
  · exact Sat.ok (h.text hd _)

theorem parseInlineHtml_ok (n d mx : Nat) (hd : d ≤ mx) (m : RxMatch) (st : InlineState) (h : IOk n d mx st) :
    Sat (HPost n d mx) (parseInlineHtml m st) := by
  unfold parseInlineHtml
  extract_lets endPos html st1 st2
  have h1 : IOk n d mx st1 := h.append (ix_html _ _ _ _ hd)
  refine Sat.ok ?_
  show IOk n d mx st2
  unfold st2
  split
  · exact h1
  · split
    · exact h1
    · exact h1

theorem envOk_set_other (env : Json) (k : String) (v : Json) (hk : k ≠ "ref_links") (h : EnvOk env) :
    EnvOk (env.set k v) := by
  intro refLinks hr
  rw [get?_set_ne _ _ "ref_links" _ (Ne.symm hk)] at hr
  exact h refLinks hr

theorem parseInlineFootnote_ok (cfg : MdCfg) (n d mx : Nat) (hd : d ≤ mx) (m : RxMatch) (st : InlineState)
    (h : IOk n d mx st) : Sat (HPost n d mx) (parseInlineFootnote cfg m st) := by
  unfold parseInlineFootnote
  extract_lets key ref
  split
  · split
    rename_i notes2 st2 heq
    refine Sat.ok ?_
    have h2 : IOk n d mx st2 := by
      split at heq
      · simp only [Prod.mk.injEq] at heq
        rw [← heq.2]
        exact ⟨h.1, envOk_set_other _ _ _ (by decide) h.2⟩
      · simp only [Prod.mk.injEq] at heq
        rw [← heq.2]; exact h
    exact h2.append (ix_footnote _ _ _ _ _ hd)
  · exact Sat.ok (h.text hd _)

theorem escapeUrl_any (cfg : MdCfg) (link : Str) : Sat (fun _ => True) (escapeUrl cfg link) := Sat.triv _

theorem addAutoLink_ok (cfg : MdCfg) (n d mx : Nat) (hd : d ≤ mx) (url text : Str) (st : InlineState)
    (h : IOk (n + 1) d mx st) : Sat (IOk (n + 1) d mx) (addAutoLink cfg url text st) := by
  unfold addAutoLink
  refine Sat.bind (Sat.triv _) (fun u _ => ?_)
  refine Sat.pure (h.append ?_)
  exact ix_link n [textTok text] _ d mx hd ⟨⟨_, rfl⟩, ⟨u, by simp [Json.get?, List.lookup]⟩, by simp [linkKeys]⟩ (ix_text _ _ _ _ hd)

theorem parseAutoLink_ok (cfg : MdCfg) (hna : (cfg.blockSpec.lookup "ref_abbr").isSome = false) (n d mx : Nat)
    (hd : d ≤ mx) (m : RxMatch) (st : InlineState) (h : IOk (n + 1) d mx st) :
    Sat (HPost (n + 1) d mx) (parseAutoLink cfg m st) := by
  unfold parseAutoLink
  extract_lets text pos
  split
  · refine Sat.bind (processTextC_ok cfg hna _ _ _ hd _ _ h) (fun a ha => ?_)
    exact Sat.pure ha
  · refine Sat.bind (addAutoLink_ok cfg n d mx hd _ _ st h) (fun a ha => ?_)
    exact Sat.pure ha

theorem parseAutoEmail_ok (cfg : MdCfg) (hna : (cfg.blockSpec.lookup "ref_abbr").isSome = false) (n d mx : Nat)
    (hd : d ≤ mx) (m : RxMatch) (st : InlineState) (h : IOk (n + 1) d mx st) :
    Sat (HPost (n + 1) d mx) (parseAutoEmail cfg m st) := by
  unfold parseAutoEmail
  extract_lets text pos
  split
  · refine Sat.bind (processTextC_ok cfg hna _ _ _ hd _ _ h) (fun a ha => ?_)
    exact Sat.pure ha
  · refine Sat.bind (addAutoLink_ok cfg n d mx hd _ _ st h) (fun a ha => ?_)
    exact Sat.pure ha

/-! ### links -/

theorem parseLinkH_spec (cfg : MdCfg) (x : RxCtx) (pos : Nat) :
    Sat (fun r => ∀ attrs p, r = some (attrs, p) → LinkAttrs attrs) (parseLinkH cfg x pos) := by
  unfold parseLinkH
  refine Sat.bind (Sat.triv _) (fun r _ => ?_)
  split
  · exact Sat.pure (fun a p h => by cases h)
  · extract_lets t nextPos
    split
    · exact Sat.pure (fun a p h => by cases h)
    · refine Sat.bind (Sat.triv _) (fun url _ => ?_)
      extract_lets attrs attrs2
      refine Sat.pure (fun a p h => ?_)
      cases h
      show LinkAttrs (match t with | some (title, _) => _ | none => _)
      clear attrs2
      clear_value nextPos
      clear_value t
      split
      · split
        · exact ⟨⟨_, rfl⟩, ⟨url, by simp [attrs, Json.get?, List.lookup]⟩, by simp [attrs, linkKeys]⟩
        · refine ⟨set_obj _ _ _, ⟨url, ?_⟩, linkKeys_set_title _ _ (by simp [linkKeys])⟩
          rw [get?_set_ne _ _ "url" _ (by decide)]
          simp [attrs, Json.get?, List.lookup]
      · exact ⟨⟨_, rfl⟩, ⟨url, by simp [attrs, Json.get?, List.lookup]⟩, by simp [attrs, linkKeys]⟩

theorem parseLinkToken_ok {n d mx : Nat} (hd : d ≤ mx) (R : Rec) (hR : RecOk n d mx R) (isImage : Bool) (text : Str)
    (attrs : Json) (ha : LinkAttrs attrs) (st : InlineState) (h : IOk (n + 2) d mx st) :
    Sat (fun res => (∃ kv, res.1 = .obj kv) ∧ ixSeq (n + 3) [res.1] d mx = true ∧ IOk (n + 2) d mx res.2)
      (parseLinkToken R isImage text attrs st) := by
  unfold parseLinkToken
  extract_lets newState
  split
  · refine Sat.bind (renderIn_ok R hR _ st rfl rfl h) ?_
    rintro ⟨children, st1⟩ ⟨h1, h2⟩
    exact Sat.pure ⟨⟨_, rfl⟩, ixSeq_mono _ _ _ _ (ix_image n _ attrs d mx hd ha h1), h2⟩
  · refine Sat.bind (renderIn_ok R hR _ st rfl rfl h) ?_
    rintro ⟨children, st1⟩ ⟨h1, h2⟩
    exact Sat.pure ⟨⟨_, rfl⟩, ixSeq_mono _ _ _ _ (ix_link n _ attrs d mx hd ha h1), h2⟩

theorem parseLinkRef_ok {n d mx : Nat} (hd : d ≤ mx) (R : Rec) (hR : RecOk n d mx R) (isImage : Bool) (text : Str)
    (label : Option Str) (endPos : Nat) (st : InlineState) (h : IOk (n + 2) d mx st) :
    Sat (HPost (n + 2) d mx) (parseLinkRef R isImage text label endPos st) := by
  have hnone : Sat (HPost (n + 2) d mx) (.ok (none, st) : HRes) := Sat.ok h
  unfold parseLinkRef
  split
  · exact hnone
  · split
    · exact hnone
    · rename_i refLinks hrl
      split
      · exact hnone
      · extract_lets key
        split
        · exact hnone
        · rename_i env henv
          split
          · exact hnone
          · extract_lets +onlyGivenNames title jp
            have hjp : ∀ url, env.get? "url" = some url → Sat (HPost (n + 2) d mx) (jp url) := by
              intro url hurl
              obtain ⟨u, hu⟩ := h.2 refLinks hrl _ env henv url hurl
              subst hu
              refine Sat.bind (parseLinkToken_ok hd R hR isImage text _
                ⟨⟨_, rfl⟩, ⟨u, by simp [Json.get?, List.lookup]⟩, by simp [linkKeys]⟩ st h) ?_
              rintro ⟨token, st1⟩ ⟨⟨kv, hkv⟩, h1, h2⟩
              refine Sat.pure (IOk.append h2 ?_)
              dsimp only at hkv h1
              subst hkv
              obtain ⟨kv1, hkv1⟩ := set_obj kv "ref" (.str key)
              rw [hkv1, ixSeq_set_other _ _ _ _ _ _ (by decide), ← hkv1, ixSeq_set_other _ _ _ _ _ _ (by decide)]
              exact h1
            clear_value jp
            split
            · rename_i u hu
              simp only [pure_bind]; exact hjp _ hu
            · exact Sat.err

theorem foldl_tokens {k d mx : Nat} (l : List Json) : ∀ st : InlineState, IOk k d mx st →
    ixSeq (k + 1) l d mx = true → IOk k d mx (l.foldl (fun s t => s.appendToken t) st) := by
  induction l with
  | nil => intro st h _; exact h
  | cons a l ih =>
    intro st h hl
    have : ixSeq (k + 1) ([a] ++ l) d mx = true := hl
    rw [ixSeq_append_iff] at this
    exact ih _ (h.append this.1) this.2

theorem precedenceScan_ok (cfg : MdCfg) {n d mx : Nat} (hd : d ≤ mx) (R : Rec) (hR : RecOk n d mx R) (m : RxMatch)
    (st : InlineState) (endPos : Nat) (rules : List String) (h : IOk (n + 2) d mx st) :
    Sat (HPost (n + 2) d mx) (precedenceScan cfg R m st endPos rules) := by
  unfold precedenceScan
  extract_lets markPos src0 newState
  refine Sat.bind (Sat.triv _) (fun sc _ => ?_)
  split
  · exact Sat.pure h
  · extract_lets ruleName
    refine Sat.bind (Sat.triv _) (fun sc2 _ => ?_)
    split
    · exact Sat.pure h
    · rename_i nm m2 hm2
      refine Sat.bind (hR.2 ruleName m2 newState (iok_empty _ _ _ _ rfl h.2)) ?_
      rintro ⟨m2Pos, ns⟩ hns
      dsimp only at hns ⊢
      have h1 : IOk (n + 2) d mx { st with env := ns.env } := ⟨h.1, hns.2⟩
      split
      · exact Sat.pure h1
      · split
        · exact Sat.pure h1
        · refine Sat.pure ?_
          show IOk (n + 2) d mx _
          rw [← Array.foldl_toList]
          exact foldl_tokens _ _ (h1.text hd _) (hns.mono 2).1

/-! ### emphasis, links -/

theorem parseEmphasis_ok (cfg : MdCfg) {n d mx : Nat} (hd : d ≤ mx) (R : Rec) (hR : RecOk n d mx R) (m : RxMatch)
    (st : InlineState) (h : IOk (n + 2) d mx st) : Sat (HPost (n + 2) d mx) (parseEmphasis cfg R m st) := by
  unfold parseEmphasis
  extract_lets +onlyGivenNames pos marker mlen jp
  have hjp : ∀ endRe, Sat (HPost (n + 2) d mx) (jp endRe) := by
    intro endRe
    show Sat _ (match endRe.search st.x pos with | none => _ | some m1 => _)
    split
    · exact Sat.pure (h.text hd _)
    extract_lets +onlyGivenNames endPos text
    refine Sat.bind (precedenceScan_ok cfg hd R hR m st endPos _ h) ?_
    rintro ⟨precPos, st1⟩ f1
    dsimp only at f1 ⊢
    split
    · exact Sat.pure f1
    · split
      · refine Sat.bind (renderIn_ok R hR _ st1 rfl rfl f1) ?_
        rintro ⟨children, st2⟩ ⟨h1, h2⟩
        exact Sat.pure (h2.append (ixSeq_mono _ _ _ _ (ix_emphasis n _ d mx hd h1)))
      · split
        · refine Sat.bind (renderIn_ok R hR _ st1 rfl rfl f1) ?_
          rintro ⟨children, st2⟩ ⟨h1, h2⟩
          exact Sat.pure (h2.append (ixSeq_mono _ _ _ _ (ix_strong n _ d mx hd h1)))
        · refine Sat.bind (renderIn_ok R hR _ st1 rfl rfl f1) ?_
          rintro ⟨inner, st2⟩ ⟨h1, h2⟩
          exact Sat.pure (h2.append (ix_emphasis (n + 1) _ d mx hd (ix_strong n _ d mx hd h1)))
  clear_value jp
  split
  · exact Sat.pure (h.text hd _)
  split
  · exact Sat.pure (h.text hd _)
  split
  · simp only [pure_bind]; exact hjp _
  · exact Sat.err

theorem parseLink_ok (cfg : MdCfg) {n d mx : Nat} (hd : d ≤ mx) (R : Rec) (hR : RecOk n d mx R) (m : RxMatch)
    (st : InlineState) (h : IOk (n + 2) d mx st) : Sat (HPost (n + 2) d mx) (parseLink cfg R m st) := by
  unfold parseLink
  extract_lets +onlyGivenNames pos marker lab label jp0
  have hjp0 : ∀ c0, Sat (HPost (n + 2) d mx) (jp0 c0) := by
    intro c0
    show Sat _ (have isImage := c0 == '!'; _)
    extract_lets +onlyGivenNames isImage
    split
    · exact Sat.pure (h.text hd _)
    split
    · exact Sat.pure (h.text hd _)
    extract_lets +onlyGivenNames jp1
    have hjp1 : ∀ te : Option (Str × Nat), Sat (HPost (n + 2) d mx) (jp1 te) := by
      intro te
      show Sat _ (match te with | none => _ | some (text, endPos) => _)
      split
      · exact Sat.pure h
      rename_i text endPos
      split
      · exact Sat.pure h
      refine Sat.bind (precedenceScan_ok cfg hd R hR m st endPos _ h) ?_
      rintro ⟨precPos, st1⟩ f1
      dsimp only at f1 ⊢
      split
      · exact Sat.pure f1
      have hRef : ∀ (label : Option Str) (e : Nat), Sat (HPost (n + 2) d mx) (parseLinkRef R isImage text label e st1) :=
        fun label e => parseLinkRef_ok hd R hR isImage text label e st1 f1
      split
      · split
        · refine Sat.bind (parseLinkH_spec cfg st1.x (endPos + 1)) (fun r hr => ?_)
          split
          · rename_i attrs pos2
            split
            · refine Sat.bind (parseLinkToken_ok hd R hR isImage text attrs (hr _ _ rfl) st1 f1) ?_
              rintro ⟨token, st2⟩ ⟨_, h1, h2⟩
              exact Sat.pure (h2.append h1)
            · exact hRef _ _
          · exact hRef _ _
        · split
          · split
            · split
              · exact hRef _ _
              · exact hRef _ _
            · exact hRef _ _
          · exact hRef _ _
      · exact hRef _ _
    clear_value jp1
    show Sat _ (match parseLinkLabel cfg st.x pos with | some (l, e) => _ | none => _)
    split
    · simp only [pure_bind]
      exact hjp1 _
    · exact Sat.bind (Sat.triv _) (fun te _ => hjp1 te)
  clear_value jp0
  show Sat _ (match group0 st m with | c :: _ => _ | [] => _)
  split
  · simp only [pure_bind]; exact hjp0 _
  · exact Sat.err

/-! ### dispatch, the scanner loop, induction on the nesting budget -/

/-! ### plugin handlers: formatting, url, math, speedup -/

def fmtTys : List String := ["strikethrough", "mark", "insert", "superscript", "subscript", "inline_spoiler"]

theorem wfTy_fmt (rec : List Json → TokCtx → Nat → Bool) (ty : String) (hty : ty ∈ fmtTys)
    (cs : List Json) (d mx : Nat) (hd : d ≤ mx) (hrec : rec cs .inline d = true) :
    wfTy rec ty none (none : Option Json) (some (.arr cs)) none .inline d mx = true := by
  have h0 : attrsOkB none = true := rfl
  simp only [fmtTys, List.mem_cons, List.not_mem_nil, or_false] at hty
  rcases hty with e | e | e | e | e | e <;> subst e <;> wf_simp

theorem ix_fmt (k : Nat) (ty : String) (hty : ty ∈ fmtTys) (cs : List Json) (d mx : Nat) (hd : d ≤ mx)
    (h : ixSeq (k + 1) cs d mx = true) : ixSeq (k + 2) [tok ty [("children", .arr cs)]] d mx = true := by
  simp only [ixSeq, Bool.and_eq_true] at h
  have hw : wfSeq (k + 2) [tok ty [("children", .arr cs)]] .inline d mx = true := by
    rw [tok, wfSeq_single_view]
    simp [Json.get?, List.lookup, Json.s, wfView]
    exact wfTy_fmt (fun cs c d' => wfSeq (k + 1) cs c d' mx) _ hty cs d mx hd h.1
  have hc : coreTys.contains ty = true := by
    simp only [fmtTys, List.mem_cons, List.not_mem_nil, or_false] at hty
    rcases hty with e | e | e | e | e | e <;> subst e <;> decide
  simp only [ixSeq, hw, Bool.true_and, shpAll, List.all_cons, List.all_nil, Bool.and_true]
  exact shp_tok_children k _ cs hc h.2

theorem parseToEnd_ok {n d mx : Nat} (hd : d ≤ mx) (R : Rec) (hR : RecOk n d mx R) (ty : String) (hty : ty ∈ fmtTys)
    (endPattern : Rx) (m : RxMatch) (st : InlineState) (h : IOk (n + 2) d mx st) :
    Sat (HPost (n + 2) d mx) (parseToEnd R ty endPattern m st) := by
  unfold parseToEnd
  extract_lets pos
  split
  · exact Sat.pure h
  · extract_lets endPos text newState
    unfold renderChildren
    refine Sat.bind (renderIn_ok R hR _ st rfl rfl h) ?_
    rintro ⟨children, st2⟩ ⟨h1, h2⟩
    exact Sat.pure (h2.append (ixSeq_mono _ _ _ _ (ix_fmt n ty hty _ d mx hd h1)))

theorem parseScript_ok {n d mx : Nat} (hd : d ≤ mx) (R : Rec) (hR : RecOk n d mx R) (ty : String) (hty : ty ∈ fmtTys)
    (m : RxMatch) (st : InlineState) (h : IOk (n + 2) d mx st) :
    Sat (HPost (n + 2) d mx) (parseScript R ty m st) := by
  unfold parseScript
  extract_lets text newState
  unfold renderChildren
  refine Sat.bind (renderIn_ok R hR _ st rfl rfl h) ?_
  rintro ⟨children, st2⟩ ⟨h1, h2⟩
  exact Sat.pure (h2.append (ixSeq_mono _ _ _ _ (ix_fmt n ty hty _ d mx hd h1)))

theorem parseInlineSpoiler_ok (cfg : MdCfg) {n d mx : Nat} (hd : d ≤ mx) (R : Rec) (hR : RecOk n d mx R)
    (m : RxMatch) (st : InlineState) (h : IOk (n + 2) d mx st) :
    Sat (HPost (n + 2) d mx) (parseInlineSpoiler cfg R m st) := by
  unfold parseInlineSpoiler
  extract_lets text newState
  unfold renderChildren
  refine Sat.bind (renderIn_ok R hR _ st rfl rfl h) ?_
  rintro ⟨children, st2⟩ ⟨h1, h2⟩
  exact Sat.pure (h2.append (ixSeq_mono _ _ _ _ (ix_fmt n _ (by decide) _ d mx hd h1)))

theorem parseUrlLink_ok (cfg : MdCfg) (hna : (cfg.blockSpec.lookup "ref_abbr").isSome = false) (n d mx : Nat)
    (hd : d ≤ mx) (m : RxMatch) (st : InlineState) (h : IOk (n + 1) d mx st) :
    Sat (HPost (n + 1) d mx) (parseUrlLink cfg m st) := by
  unfold parseUrlLink
  extract_lets text pos
  split
  · refine Sat.bind (processTextC_ok cfg hna _ _ _ hd _ _ h) (fun a ha => ?_)
    exact Sat.pure ha
  · refine Sat.bind (Sat.triv _) (fun u _ => ?_)
    refine Sat.pure (h.append ?_)
    exact ix_link n [textTok text] _ d mx hd ⟨⟨_, rfl⟩, ⟨u, by simp [Json.get?, List.lookup]⟩, by simp [linkKeys]⟩
      (ix_text _ _ _ _ hd)

theorem ix_inline_math (k : Nat) (raw : Str) (d mx : Nat) (hd : d ≤ mx) :
    ixSeq (k + 1) [tok "inline_math" [("raw", .str raw)]] d mx = true := by
  have hw : wfSeq (k + 1) [tok "inline_math" [("raw", .str raw)]] .inline d mx = true := by inl_lit
  simp only [ixSeq, hw, Bool.true_and]; shp_lit

theorem parseInlineMath_ok (cfg : MdCfg) (n d mx : Nat) (hd : d ≤ mx) (m : RxMatch) (st : InlineState)
    (h : IOk n d mx st) : Sat (HPost n d mx) (parseInlineMath cfg m st) :=
  Sat.ok (h.append (ix_inline_math _ _ _ _ hd))

theorem parseText_ok (cfg : MdCfg) (hna : (cfg.blockSpec.lookup "ref_abbr").isSome = false) (n d mx : Nat)
    (hd : d ≤ mx) (m : RxMatch) (st : InlineState) (h : IOk n d mx st) :
    Sat (HPost n d mx) (parseText cfg m st) := by
  unfold parseText
  extract_lets text text2
  refine Sat.bind (processTextC_ok cfg hna _ _ _ hd _ _ h) (fun a ha => ?_)
  exact Sat.pure ha

/-- the inline plugin rules whose handlers are NOT covered (`ruby`) -/
def pluginInlineNames : List String := ["ruby"]

/-- no uncovered plugin inline rule is registered (decidable).  Covered plugin rules: `strikethrough`, `mark`,
`insert`, `superscript`, `subscript`, `url_link`, `inline_math`, `text` (speedup), `inline_spoiler`. -/
def noInlinePlugins (cfg : MdCfg) : Bool := pluginInlineNames.all (fun n => !cfg.inlineRules.contains n)

theorem dead_rule (cfg : MdCfg) (hpl : noInlinePlugins cfg = true) (n : String) (hn : n ∈ pluginInlineNames)
    (hc : ¬ (!cfg.inlineRules.contains n) = true) : False := by
  unfold noInlinePlugins at hpl
  rw [List.all_eq_true] at hpl
  exact hc (hpl n hn)

theorem parseMethod_ok (cfg : MdCfg) (hna : (cfg.blockSpec.lookup "ref_abbr").isSome = false)
    (hpl : noInlinePlugins cfg = true) {n d mx : Nat}
    (hd : d ≤ mx) (R : Rec) (hR : RecOk n d mx R) (name : String) (m : RxMatch) (st : InlineState)
    (h : IOk (n + 2) d mx st) : Sat (HPost (n + 2) d mx) (parseMethod cfg R name m st) := by
  unfold parseMethod
  split
  · exact Sat.err
  · split
    · exact parseEscape_ok cfg _ _ _ hd m st h
    · exact parseCodespan_ok _ _ _ hd m st h
    · exact parseEmphasis_ok cfg hd R hR m st h
    · exact parseLink_ok cfg hd R hR m st h
    · exact parseAutoLink_ok cfg hna _ _ _ hd m st h
    · exact parseAutoEmail_ok cfg hna _ _ _ hd m st h
    · exact parseInlineHtml_ok _ _ _ hd m st h
    · exact parseLinebreak_ok _ _ _ hd m st h
    · exact parseSoftbreak_ok _ _ _ hd m st h
    · exact parseInlineFootnote_ok cfg _ _ _ hd m st h
    · exact parseToEnd_ok hd R hR _ (by decide) _ m st h
    · exact parseToEnd_ok hd R hR _ (by decide) _ m st h
    · exact parseToEnd_ok hd R hR _ (by decide) _ m st h
    · exact parseScript_ok hd R hR _ (by decide) m st h
    · exact parseScript_ok hd R hR _ (by decide) m st h
    · exact parseUrlLink_ok cfg hna _ _ _ hd m st h
    · exact parseInlineMath_ok cfg _ _ _ hd m st h
    · exact parseText_ok cfg hna _ _ _ hd m st h
    · rename_i hc; exact (dead_rule cfg hpl _ (by decide) hc).elim
    · exact parseInlineSpoiler_ok cfg hd R hR m st h
    all_goals first
      | exact Sat.err
      | (rename_i hc; exact (dead_rule cfg hpl _ (by decide) hc).elim)

theorem parseLoop_ok (cfg : MdCfg) (hna : (cfg.blockSpec.lookup "ref_abbr").isSome = false)
    (hpl : noInlinePlugins cfg = true) {n d mx : Nat}
    (hd : d ≤ mx) (R : Rec) (hR : RecOk n d mx R) (sc : List (String × Rx)) :
    ∀ (fuel pos : Nat) (st : InlineState), IOk (n + 2) d mx st →
      Sat (fun res => IOk (n + 2) d mx res.2) (parseLoop cfg R sc fuel pos st) := by
  intro fuel
  induction fuel with
  | zero => intro pos st _; unfold parseLoop; exact Sat.err
  | succ fuel ih =>
    intro pos st h
    unfold parseLoop
    split
    · split
      · exact Sat.ok h
      · rename_i name m hscan
        extract_lets endPos pos2 jp
        have hjp : ∀ st1, IOk (n + 2) d mx st1 → Sat (fun res => IOk (n + 2) d mx res.2) (jp st1) := by
          intro st1 h1
          show Sat _ (parseMethod cfg R name m st1 >>= _)
          refine Sat.bind (parseMethod_ok cfg hna hpl hd R hR name m st1 h1) ?_
          rintro ⟨newPos, st2⟩ h2
          dsimp only at h2 ⊢
          split
          · split
            · split
              · exact Sat.err
              · exact ih _ _ h2
            · exact Sat.bind (processTextC_ok cfg hna _ _ _ hd _ _ h2) (fun st3 h3 => ih _ _ h3)
          · exact Sat.bind (processTextC_ok cfg hna _ _ _ hd _ _ h2) (fun st3 h3 => ih _ _ h3)
        clear_value jp
        split
        · exact Sat.bind (processTextC_ok cfg hna _ _ _ hd _ _ h) (fun st1 h1 => hjp st1 h1)
        · simp only [pure_bind]
          exact hjp _ h
    · exact Sat.ok h

theorem parse_ok (cfg : MdCfg) (hna : (cfg.blockSpec.lookup "ref_abbr").isSome = false)
    (hpl : noInlinePlugins cfg = true) {n d mx : Nat}
    (hd : d ≤ mx) (R : Rec) (hR : RecOk n d mx R) (st : InlineState) (h : IOk (n + 2) d mx st) :
    Sat (IOk (n + 2) d mx) (parse cfg R st) := by
  unfold parse
  refine Sat.bind (Sat.triv _) (fun sc _ => ?_)
  refine Sat.bind (parseLoop_ok cfg hna hpl hd R hR sc _ _ st h) ?_
  rintro ⟨pos, st1⟩ h1
  dsimp only at h1 ⊢
  split
  · exact processTextC_ok cfg hna _ _ _ hd _ _ h1
  · split
    · exact processTextC_ok cfg hna _ _ _ hd _ _ h1
    · exact Sat.pure h1

/-- **the entry points of budget `f` return token lists of depth at most `2 f + 1`** -/
theorem recAt_ok (cfg : MdCfg) (hna : (cfg.blockSpec.lookup "ref_abbr").isSome = false)
    (hpl : noInlinePlugins cfg = true) (d mx : Nat) (hd : d ≤ mx) :
    ∀ f, RecOk (2 * f) d mx (recAt cfg f) := by
  intro f
  induction f with
  | zero => exact ⟨fun st _ => Sat.err, fun name m st _ => Sat.err⟩
  | succ f ih =>
    have e : 2 * (f + 1) = 2 * f + 2 := by omega
    rw [e]
    exact ⟨fun st h => parse_ok cfg hna hpl hd _ ih st h, fun name m st h => parseMethod_ok cfg hna hpl hd _ ih name m st h⟩

/-- **the inline parser returns inline tokens of the grammar** (for every nesting depth `d ≤ mx` of the enclosing
block), given an `env` whose link definitions have string urls -/
theorem inlineParse_ix (cfg : MdCfg) (hna : (cfg.blockSpec.lookup "ref_abbr").isSome = false)
    (hpl : noInlinePlugins cfg = true) (env : Json)
    (henv : EnvOk env) (src : Str) (out : List Json) (d mx : Nat) (hd : d ≤ mx)
    (h : Model.inlineParse cfg env src = .ok out) : ixSeq (2 * inlineFuel + 2 + 1) out d mx = true := by
  unfold Model.inlineParse Inl.inlineParse inlineParseEnv at h
  have hst : IOk (2 * inlineFuel + 2) d mx ((InlineState.new env).setSrc src) := iok_empty _ _ _ _ rfl henv
  have := parse_ok cfg hna hpl hd _ (recAt_ok cfg hna hpl d mx hd inlineFuel) _ hst
  split at h
  · cases h
  · simp only [pure_bind] at h
    unfold renderSt at h
    cases hp : parse cfg (recAt cfg inlineFuel) ((InlineState.new env).setSrc src) with
    | error e => rw [hp] at h; cases h
    | ok st =>
      rw [hp] at h
      have e : st.tokens.toList = out := by
        simpa [bind, Except.bind, pure, Except.pure] using h
      rw [← e]
      exact (this st hp).1

theorem inlineParse_wf (cfg : MdCfg) (hna : (cfg.blockSpec.lookup "ref_abbr").isSome = false)
    (hpl : noInlinePlugins cfg = true) (env : Json)
    (henv : EnvOk env) (src : Str) (out : List Json) (d mx : Nat) (hd : d ≤ mx)
    (h : Model.inlineParse cfg env src = .ok out) : wfSeq (2 * inlineFuel + 2 + 1) out .inline d mx = true := by
  have := inlineParse_ix cfg hna hpl env henv src out d mx hd h
  simp only [ixSeq, Bool.and_eq_true] at this
  exact this.1

/-- the inline parser returns tokens of core types with `attrs` of the shape `attrsShape` -/
theorem inlineParse_shp (cfg : MdCfg) (hna : (cfg.blockSpec.lookup "ref_abbr").isSome = false)
    (hpl : noInlinePlugins cfg = true) (env : Json)
    (henv : EnvOk env) (src : Str) (out : List Json)
    (h : Model.inlineParse cfg env src = .ok out) : shpAll (2 * inlineFuel + 2 + 1) out = true := by
  have := inlineParse_ix cfg hna hpl env henv src out 0 0 (Nat.le_refl _) h
  simp only [ixSeq, Bool.and_eq_true] at this
  exact this.2

end G
end Inl
end Model
end Mistune

#print axioms Mistune.Model.Inl.G.inlineParse_wf
