/-
C15 — the rendered table of contents is a well-formed nested list for EVERY sequence of heading levels,
lists every entry exactly once in order, and nests each entry under the closest preceding entry of
strictly smaller level (`ancSpec`).
-/
import Mistune.Toc
namespace Mistune

/-! ### Helper definitions and lemmas -/

/-- levels strictly decreasing from the top of the stack -/
abbrev StackSorted (s : List Entry) : Prop := (s.map Prod.fst).Pairwise (· > ·)

/-- Non-accumulating version of `tocLoop`. -/
def loopOut : List Entry → List Entry → List Entry × List Ev
  | [], stack => (stack, [])
  | (level, i) :: rest, stack =>
    let r := tocStep stack level i
    let r' := loopOut rest r.1
    (r'.1, r.2 ++ r'.2)

theorem tocLoop_eq (items stack : List Entry) (out : List Ev) :
    tocLoop items stack out = ((loopOut items stack).1, out ++ (loopOut items stack).2) := by
  induction items generalizing stack out with
  | nil => simp [tocLoop, loopOut]
  | cons e rest ih =>
    obtain ⟨l, i⟩ := e
    simp [tocLoop, loopOut, ih, List.append_assoc]

/-! #### sortedness -/

theorem popLoop_sorted (l i : Nat) (S : List Entry) (h : StackSorted S) :
    StackSorted (popLoop l i S).1 := by
  induction S with
  | nil => simp [popLoop, StackSorted]
  | cons e rest ih =>
    obtain ⟨last, j⟩ := e
    simp only [popLoop]
    simp only [StackSorted, List.map_cons, List.pairwise_cons] at h
    split
    · subst l
      simpa [StackSorted] using h
    · split
      · simp only [StackSorted, List.map_cons, List.pairwise_cons]
        refine ⟨?_, h⟩
        intro a ha
        rcases List.mem_cons.1 ha with rfl | ha
        · assumption
        · have := h.1 a ha; omega
      · exact ih h.2

theorem tocStep_sorted (l i : Nat) (S : List Entry) (h : StackSorted S) :
    StackSorted (tocStep S l i).1 := by
  unfold tocStep
  split
  · simp [StackSorted]
  · rename_i top j rest
    simp only [StackSorted, List.map_cons, List.pairwise_cons] at h
    split
    · subst l
      simpa [StackSorted] using h
    · split
      · simp only [StackSorted, List.map_cons, List.pairwise_cons]
        refine ⟨?_, h⟩
        intro a ha
        rcases List.mem_cons.1 ha with rfl | ha
        · assumption
        · have := h.1 a ha; omega
      · exact popLoop_sorted l i rest h.2

/-! #### head of the new stack -/

theorem popLoop_head (l i : Nat) (S : List Entry) :
    (popLoop l i S).1 = (l, i) :: (popLoop l i S).1.tail := by
  induction S with
  | nil => simp [popLoop]
  | cons e rest ih =>
    obtain ⟨last, j⟩ := e
    simp only [popLoop]
    split
    · simp
    · split
      · simp
      · exact ih

theorem tocStep_head (l i : Nat) (S : List Entry) :
    (tocStep S l i).1 = (l, i) :: (tocStep S l i).1.tail := by
  unfold tocStep
  split
  · simp
  · split
    · simp
    · split
      · simp
      · exact popLoop_head l i _

/-! #### ancestors -/

theorem popLoop_anc (l i : Nat) (S : List Entry) (q : Nat) (hq : q ≤ l) :
    ancOf (popLoop l i S).1.tail q = ancOf S q := by
  induction S with
  | nil => simp [popLoop]
  | cons e rest ih =>
    obtain ⟨last, j⟩ := e
    simp only [popLoop]
    split
    · subst l
      have : ¬ last < q := by omega
      simp [ancOf, this]
    · split
      · simp
      · have : ¬ last < q := by omega
        simp [ancOf, this, ih]

theorem tocStep_anc (l i : Nat) (S : List Entry) (q : Nat) (hq : q ≤ l) :
    ancOf (tocStep S l i).1.tail q = ancOf S q := by
  unfold tocStep
  split
  · simp
  · rename_i top j rest
    split
    · subst l
      have : ¬ top < q := by omega
      simp [ancOf, this]
    · split
      · simp
      · have : ¬ top < q := by omega
        simp [ancOf, this, popLoop_anc l i rest q hq]

theorem ancOf_sorted (S : List Entry) (q : Nat) (h : StackSorted S) (hq : ∀ e ∈ S, e.1 < q) :
    ancOf S q = S.map Prod.snd := by
  induction S generalizing q with
  | nil => simp [ancOf]
  | cons e rest ih =>
    obtain ⟨l, j⟩ := e
    simp only [StackSorted, List.map_cons, List.pairwise_cons] at h
    have hl : l < q := hq (l, j) (by simp)
    simp only [ancOf, hl, if_true, List.map_cons]
    congr 1
    apply ih l h.2
    intro e he
    exact h.1 e.1 (List.mem_map.2 ⟨e, he, rfl⟩)

theorem tocStep_tail_anc (l i : Nat) (S : List Entry) (h : StackSorted S) :
    (tocStep S l i).1.tail.map Prod.snd = ancOf S l := by
  have hs := tocStep_sorted l i S h
  rw [tocStep_head] at hs
  simp only [StackSorted, List.map_cons, List.pairwise_cons] at hs
  rw [← tocStep_anc l i S l (Nat.le_refl _)]
  symm
  apply ancOf_sorted _ _ hs.2
  intro e he
  exact hs.1 e.1 (List.mem_map.2 ⟨e, he, rfl⟩)

/-! #### checker -/

/-- checker stack corresponding to a model stack -/
def opens : List Entry → List Open
  | [] => []
  | (_, i) :: rest => .li (some i) :: .ul :: opens rest

theorem filterMap_opens (f : Open → Option Nat) (h1 : ∀ j, f (.li (some j)) = some j)
    (h2 : f .ul = none) (S : List Entry) :
    (opens S).filterMap f = S.map Prod.snd := by
  induction S with
  | nil => simp [opens]
  | cons e rest ih =>
    obtain ⟨l, j⟩ := e
    simp [opens, ih, h1, h2]

theorem popLoop_check (l i : Nat) (S : List Entry) (j : Nat) (k : List Ev)
    (acc : List (Nat × List Nat)) :
    checkEvs ((popLoop l i S).2 ++ k) (.li (some j) :: .ul :: opens S) acc
      = checkEvs k (opens (popLoop l i S).1)
          (acc ++ [(i, (popLoop l i S).1.tail.map Prod.snd)]) := by
  induction S generalizing j with
  | nil => simp [popLoop, checkEvs, opens]
  | cons e rest ih =>
    obtain ⟨last, j'⟩ := e
    simp only [popLoop]
    split
    · simp [checkEvs, opens, filterMap_opens]
    · split
      · simp [checkEvs, opens, filterMap_opens]
      · simp only [List.cons_append, List.nil_append, checkEvs, opens]
        exact ih j'

theorem tocStep_check (l i : Nat) (S : List Entry) (hS : S ≠ []) (k : List Ev)
    (acc : List (Nat × List Nat)) :
    checkEvs ((tocStep S l i).2 ++ k) (opens S) acc
      = checkEvs k (opens (tocStep S l i).1)
          (acc ++ [(i, (tocStep S l i).1.tail.map Prod.snd)]) := by
  unfold tocStep
  split
  · exact absurd rfl hS
  · rename_i top j rest
    split
    · simp [checkEvs, opens, filterMap_opens]
    · split
      · simp [checkEvs, opens, filterMap_opens]
      · simp only [opens]
        exact popLoop_check l i rest j k acc

theorem tocStep_ne_nil (l i : Nat) (S : List Entry) : (tocStep S l i).1 ≠ [] := by
  rw [tocStep_head]; simp

theorem closeAll_check (S : List Entry) (hS : S ≠ []) (acc : List (Nat × List Nat)) :
    checkEvs (closeAll S ++ [.liClose, .nl, .ulClose, .nl]) (opens S) acc = some ([], acc) := by
  induction S with
  | nil => exact absurd rfl hS
  | cons e rest ih =>
    obtain ⟨l, j⟩ := e
    cases rest with
    | nil => simp [closeAll, checkEvs, opens]
    | cons e' rest' =>
      have := ih (by simp)
      simpa [closeAll, checkEvs, opens] using this

theorem loopOut_ne_nil (items S : List Entry) (hS : S ≠ []) : (loopOut items S).1 ≠ [] := by
  induction items generalizing S with
  | nil => simpa [loopOut] using hS
  | cons e rest ih =>
    obtain ⟨l, i⟩ := e
    simp only [loopOut]
    exact ih _ (tocStep_ne_nil l i S)

theorem loopOut_check (items S rp : List Entry) (hS : S ≠ []) (hs : StackSorted S)
    (J : ∀ q, ancOf rp q = ancOf S q) (k : List Ev) (acc : List (Nat × List Nat)) :
    checkEvs ((loopOut items S).2 ++ k) (opens S) acc
      = checkEvs k (opens (loopOut items S).1) (acc ++ ancSpec.go items rp) := by
  induction items generalizing S rp acc with
  | nil => simp [loopOut, ancSpec.go]
  | cons e rest ih =>
    obtain ⟨l, i⟩ := e
    simp only [loopOut, ancSpec.go, List.append_assoc]
    rw [tocStep_check l i S hS]
    rw [ih (tocStep S l i).1 ((l, i) :: rp) (tocStep_ne_nil l i S) (tocStep_sorted l i S hs)]
    · rw [tocStep_tail_anc l i S hs, ← J l]
      simp [List.append_assoc]
    · intro q
      rw [tocStep_head]
      simp only [ancOf]
      split
      · rw [tocStep_anc l i S l (Nat.le_refl _), J l]
      · rw [tocStep_anc l i S q (by omega), J q]

/-! #### shape of the rendered stream -/

theorem renderToc_cons (l0 : Nat) (ls : List Nat) :
    renderToc (l0 :: ls) =
      [.ulOpen, .nl, .liOpen, .item 0] ++
        ((loopOut (ls.zipIdx 1) [(l0, 0)]).2 ++
          (closeAll (loopOut (ls.zipIdx 1) [(l0, 0)]).1 ++ [.liClose, .nl, .ulClose, .nl])) := by
  simp [renderToc, List.zipIdx_cons, tocLoop_eq, loopOut, tocStep]

/-! #### items -/

def itemF : Ev → Option Nat
  | .item i => some i
  | _ => none

@[simp] theorem itemF_item (i : Nat) : itemF (.item i) = some i := rfl
@[simp] theorem itemF_ulOpen : itemF .ulOpen = none := rfl
@[simp] theorem itemF_ulClose : itemF .ulClose = none := rfl
@[simp] theorem itemF_liOpen : itemF .liOpen = none := rfl
@[simp] theorem itemF_liClose : itemF .liClose = none := rfl
@[simp] theorem itemF_nl : itemF .nl = none := rfl

theorem popLoop_items (l i : Nat) (S : List Entry) : (popLoop l i S).2.filterMap itemF = [i] := by
  induction S with
  | nil => simp [popLoop, List.filterMap_cons]
  | cons e rest ih =>
    obtain ⟨last, j⟩ := e
    simp only [popLoop]
    split
    · simp [List.filterMap_cons]
    · split
      · simp [List.filterMap_cons]
      · simpa [List.filterMap_cons] using ih

theorem tocStep_items (l i : Nat) (S : List Entry) : (tocStep S l i).2.filterMap itemF = [i] := by
  unfold tocStep
  split
  · simp [List.filterMap_cons]
  · split
    · simp [List.filterMap_cons]
    · split
      · simp [List.filterMap_cons]
      · exact popLoop_items l i _

theorem loopOut_items (items S : List Entry) :
    (loopOut items S).2.filterMap itemF = items.map Prod.snd := by
  induction items generalizing S with
  | nil => simp [loopOut]
  | cons e rest ih =>
    obtain ⟨l, i⟩ := e
    simp [loopOut, tocStep_items, ih]

theorem closeAll_items (S : List Entry) : (closeAll S).filterMap itemF = [] := by
  induction S with
  | nil => simp [closeAll]
  | cons e rest ih =>
    cases rest with
    | nil => simp [closeAll]
    | cons e' rest' => simpa [closeAll, List.filterMap_cons] using ih

/-! ### The theorems -/

/-- **C15 (well-formed, complete, correctly nested).** For every list of levels (arbitrary naturals, any
length, any jumps) the event stream of `render_toc_ul` passes the content-model checker with nothing left
open, and the enclosing entries recorded for each item are exactly the specified ancestor chain. -/
theorem toc_wf (levels : List Nat) : checkEvs (renderToc levels) [] [] = some ([], ancSpec levels) := by
  cases levels with
  | nil => simp [renderToc, checkEvs, ancSpec, ancSpec.go]
  | cons l0 ls =>
    rw [renderToc_cons]
    simp only [List.cons_append, List.nil_append, checkEvs, List.filterMap_cons, List.filterMap_nil]
    show checkEvs _ (opens [(l0, 0)]) _ = _
    rw [loopOut_check (ls.zipIdx 1) [(l0, 0)] [(l0, 0)] (by simp) (by simp [StackSorted])
      (fun _ => rfl)]
    rw [closeAll_check _ (loopOut_ne_nil _ _ (by simp))]
    simp [ancSpec, ancSpec.go, List.zipIdx_cons, ancOf]

/-- **C15 (entries).** The items emitted are exactly the entries `0 … n-1`, once each, in order. -/
theorem toc_items (levels : List Nat) :
    (renderToc levels).filterMap (fun e => match e with | .item i => some i | _ => none)
      = List.range levels.length := by
  have hf : (fun e : Ev => match e with | .item i => some i | _ => none) = itemF := by
    funext e; cases e <;> rfl
  rw [hf]
  cases levels with
  | nil => simp [renderToc]
  | cons l0 ls =>
    rw [renderToc_cons]
    simp only [List.filterMap_append, loopOut_items, closeAll_items, List.zipIdx_map_snd]
    simp [List.filterMap_cons, List.range_eq_range', List.range'_succ]

/-- The stack of open levels is strictly increasing from bottom to top after every prefix of the input. -/
theorem toc_stack_sorted (items : List Entry) (stack : List Entry) (out : List Ev)
    (h : (stack.map Prod.fst).Pairwise (· > ·)) :
    ((tocLoop items stack out).1.map Prod.fst).Pairwise (· > ·) := by
  induction items generalizing stack out with
  | nil => simpa [tocLoop] using h
  | cons e rest ih =>
    obtain ⟨l, i⟩ := e
    simp only [tocLoop]
    exact ih _ _ (tocStep_sorted l i stack h)

end Mistune
