/-
Block plugins (table, footnotes, task_lists, def_list, abbr) in the concrete model: small facts that tie the new
handlers to the regenerated data and to the existing core pipeline.

* `fnIndentRx_generated`: the run-time regex of `parse_footnote_item` as built by the model is, for the instances the
  extractor regenerates from the Python expression (`rt:fn_indent[k]`), the regenerated term.
* `parseMethod_table_unregistered` …: a plugin handler is bound only when the configuration registered its rule
  (otherwise `KeyError`, as `self._methods[name]` in Python).
* `parseDoc_noHooks`: for a configuration without hooks and without the inline rule `footnote` (e.g. core),
  `parseDoc` is the two-pass pipeline `blockParse` ; `iterRender` that the existing theorems are about.
* `processRow_cells` / `processThead_cells` / `tableRows_cells`: every row of an accepted table has exactly as many
  cells as there are alignments (= header cells).
-/
import Mistune.Model.Doc
namespace Mistune
open Model Model.Blk Generated

/-- the hand-written constructor of `re.compile(r"^ {" + str(spaces) + r",}", re.M)` agrees with the instances
regenerated from the Python expression -/
theorem fnIndentRx_generated :
    namedRx.lookup "rt:fn_indent[0]" = some (Hooks.fnIndentRx 0) ∧
    namedRx.lookup "rt:fn_indent[1]" = some (Hooks.fnIndentRx 1) ∧
    namedRx.lookup "rt:fn_indent[3]" = some (Hooks.fnIndentRx 3) := by decide +kernel

/-- a plugin rule that the configuration did not register has no handler: `self._methods[name]` raises KeyError -/
theorem parseMethod_unregistered (cfg : MdCfg) (fuel : Nat) (name : String) (mt : RxMatch) (st : BlockState)
    (hname : name ∈ ["table", "nptable", "ref_footnote", "def_list", "ref_abbr"])
    (h : registered cfg name = false) :
    parseMethod cfg (fuel + 1) name mt st = .error .keyError := by
  simp only [List.mem_cons, List.mem_nil_iff, or_false] at hname
  rcases hname with rfl | rfl | rfl | rfl | rfl <;> simp [parseMethod, h]

/-- non-vacuity: the core configuration registers none of them -/
example : ["table", "nptable", "ref_footnote", "def_list", "ref_abbr"].all
    (fun n => registered (ofRuleCfg cfg_core) n == false) = true := by decide +kernel

/-- Without hooks and without the `footnote` inline rule, `md(s)` is the block pass followed by the second pass
`iterRender` (the instance of `iterRenderG` that `iterRender_shape` / `iterRender_length` are about). -/
theorem parseDoc_noHooks (cfg : MdCfg) (s : Str)
    (h1 : cfg.beforeParseHooks = []) (h2 : cfg.beforeRenderHooks = []) (h3 : cfg.afterRenderHooks = [])
    (h4 : cfg.inlineRules.contains "footnote" = false) :
    parseDoc cfg s = (do
      let (toks, env) ← Model.blockParse cfg (norm s)
      iterRender cfg env 64 toks) := by
  unfold parseDoc
  simp only [h1, h2, h3, h4, List.isEmpty_nil, Bool.not_true, Bool.false_eq_true, ↓reduceIte, Hooks.beforeRender,
    Hooks.afterRender]
  generalize Model.blockParse cfg (norm s) = r
  cases r with
  | error e => rfl
  | ok p =>
    obtain ⟨toks, env⟩ := p
    simp only [bind, Except.bind, pure, Except.pure]
    cases iterRender cfg env 64 toks <;> rfl

/-- non-vacuity: the core configuration satisfies the hypotheses -/
example : let cfg := ofRuleCfg cfg_core
    cfg.beforeParseHooks = [] ∧ cfg.beforeRenderHooks = [] ∧ cfg.afterRenderHooks = [] ∧
    cfg.inlineRules.contains "footnote" = false := by decide +kernel

/-! ### tables: every accepted row has the width of the header -/

theorem tableCells_length (cells : List Str) (aligns : List Json) (head : Bool) (h : cells.length = aligns.length) :
    (tableCells cells aligns head).length = aligns.length := by
  simp [tableCells, List.length_zip, h]

/-- `_process_row` accepts a row only with exactly `len(aligns)` cells -/
theorem processRow_cells (cfg : MdCfg) (text : Str) (aligns : List Json) (row : Json)
    (h : processRow cfg text aligns = some row) :
    ∃ cells, row = tok "table_row" [("children", .arr cells)] ∧ cells.length = aligns.length := by
  unfold processRow at h
  simp only [bne_iff_ne, ne_eq, ite_not] at h
  split at h
  · next heq =>
    simp only [Option.some.injEq] at h
    exact ⟨_, h.symm, tableCells_length _ _ _ heq⟩
  · simp at h

/-- `_process_thead`: the header row and the alignment list have the same length -/
theorem processThead_cells (cfg : MdCfg) (header align : Str) (thead : Json) (aligns : List Json)
    (h : processThead cfg header align = some (thead, aligns)) :
    ∃ cells, thead = tok "table_head" [("children", .arr cells)] ∧ cells.length = aligns.length := by
  unfold processThead at h
  simp only [bne_iff_ne, ne_eq, ite_not] at h
  split at h
  · next heq =>
    simp only [Option.some.injEq, Prod.mk.injEq] at h
    obtain ⟨h1, h2⟩ := h
    refine ⟨_, h1.symm, ?_⟩
    rw [← h2]
    exact tableCells_length _ _ _ (by simp [heq])
  · simp at h

/-- the body loop of `parse_table` returns rows that all have `len(aligns)` cells -/
theorem tableRows_cells (cfg : MdCfg) (aligns : List Json) (lines : List Str) (rows : List Json)
    (h : tableRows cfg aligns lines = some rows) :
    ∀ row ∈ rows, ∃ cells, row = tok "table_row" [("children", .arr cells)] ∧ cells.length = aligns.length := by
  induction lines generalizing rows with
  | nil => simp [tableRows] at h; subst h; simp
  | cons text rest ih =>
    unfold tableRows at h
    split at h
    · simp at h
    · split at h
      · simp at h
      · next row hrow =>
        cases hr : tableRows cfg aligns rest with
        | none => simp [hr] at h
        | some rs =>
          simp only [hr, Option.map_some, Option.some.injEq] at h
          subst h
          intro r hr'
          rcases List.mem_cons.mp hr' with rfl | hmem
          · exact processRow_cells cfg _ aligns _ hrow
          · exact ih rs hr r hmem

/-- the same for `parse_nptable` -/
theorem nptableRows_cells (cfg : MdCfg) (aligns : List Json) (lines : List Str) (rows : List Json)
    (h : nptableRows cfg aligns lines = some rows) :
    ∀ row ∈ rows, ∃ cells, row = tok "table_row" [("children", .arr cells)] ∧ cells.length = aligns.length := by
  induction lines generalizing rows with
  | nil => simp [nptableRows] at h; subst h; simp
  | cons text rest ih =>
    unfold nptableRows at h
    split at h
    · simp at h
    · next row hrow =>
      cases hr : nptableRows cfg aligns rest with
      | none => simp [hr] at h
      | some rs =>
        simp only [hr, Option.map_some, Option.some.injEq] at h
        subst h
        intro r hr'
        rcases List.mem_cons.mp hr' with rfl | hmem
        · exact processRow_cells cfg _ aligns _ hrow
        · exact ih rs hr r hmem

/-- non-vacuity (and a worked instance on the regenerated regexes): a two-column row with an escaped pipe -/
example : (processRow (ofRuleCfg cfg_only_table) "a \\| b | c".toList [.null, Json.s "left"]).isSome = true := by
  decide +kernel

end Mistune
