/-
C06 (c) — every text / code / raw-HTML leaf of the token tree appears in the HTML, escaped, in document order:
proved for the template model, for every token tree and every depth, with no hypothesis on the tree.
Which token types hand their children's text through and what each leaf type does to its raw text is COMPUTED
from the regenerated templates (`passOkT`, `leafOpsT`); the kernel-decided obligations at the end pin those
computed facts for the templates of the working tree.
-/
import Mistune.TmplLeaf
import Mistune.Generated.Templates
import MistuneProofs.C18
namespace Mistune
open Mistune.Generated

theorem InOrder.padRight (v : TStr) {bs : List TStr} {out : TStr} (h : InOrder bs out) : InOrder bs (out ++ v) := by
  induction h with
  | nil w => exact InOrder.nil _
  | cons w b rest out _ ih =>
    have e : w ++ b ++ out ++ v = w ++ b ++ (out ++ v) := by simp only [List.append_assoc]
    rw [e]
    exact InOrder.cons w b rest _ ih

theorem InOrder.padLeft (w : TStr) {bs : List TStr} {out : TStr} (h : InOrder bs out) : InOrder bs (w ++ out) := by
  cases h with
  | nil _ => exact InOrder.nil _
  | cons w' b rest out' h' =>
    have e : w ++ (w' ++ b ++ out') = (w ++ w') ++ b ++ out' := by simp only [List.append_assoc]
    rw [e]
    exact InOrder.cons _ b rest _ h'

theorem InOrder.pad (w v : TStr) {bs : List TStr} {out : TStr} (h : InOrder bs out) : InOrder bs (w ++ out ++ v) :=
  InOrder.padRight v (InOrder.padLeft w h)

theorem InOrder.append {as bs : List TStr} {x y : TStr} (ha : InOrder as x) (hb : InOrder bs y) : InOrder (as ++ bs) (x ++ y) := by
  induction ha with
  | nil w => exact InOrder.padLeft w hb
  | cons w b rest out _ ih =>
    have e : w ++ b ++ out ++ y = w ++ b ++ (out ++ y) := by simp only [List.append_assoc]
    rw [e]
    exact InOrder.cons w b _ _ ih

theorem InOrder.flatMap {α : Type} (l : List α) (f : α → List TStr) (g : α → TStr) (h : ∀ a ∈ l, InOrder (f a) (g a)) :
    InOrder (l.flatMap f) (l.flatMap g) := by
  induction l with
  | nil => exact InOrder.nil _
  | cons a l ih =>
    simp only [List.flatMap_cons]
    exact InOrder.append (h a List.mem_cons_self) (ih (fun c hc => h c (List.mem_cons_of_mem _ hc)))

theorem applyOps_nil (env : TEnv) (t : TStr) : applyOps env [] t = t := by simp [applyOps]

theorem evalPieces_pass (env : TEnv) (e : List TPiece) (h : piecesPassText e = true) :
    ∃ pre post, evalPieces env e = pre ++ (env.get "$text").toTStr ++ post := by
  fun_induction piecesPassText e with
  | case1 => simp at h
  | case2 rest =>
    refine ⟨[], evalPieces env rest, ?_⟩
    simp [evalPieces, evalPiece, applyOps_nil]
  | case3 p rest _ ih =>
    obtain ⟨pre, post, hp⟩ := ih h
    refine ⟨evalPiece env p ++ pre, post, ?_⟩
    simp only [evalPieces, hp, List.append_assoc]

theorem evalPieces_leaf (env : TEnv) (e : List TPiece) (ops : List TOp) (h : piecesTextOps e = some ops) :
    ∃ pre post, evalPieces env e = pre ++ applyOps env ops (env.get "$text").toTStr ++ post := by
  fun_induction piecesTextOps e with
  | case1 => simp at h
  | case2 ops' rest =>
    simp only [Option.some.injEq] at h
    subst h
    refine ⟨[], evalPieces env rest, ?_⟩
    simp [evalPieces, evalPiece]
  | case3 p rest _ ih =>
    obtain ⟨pre, post, hp⟩ := ih h
    refine ⟨evalPiece env p ++ pre, post, ?_⟩
    simp only [evalPieces, hp, List.append_assoc]

/-- a template that passes the static test puts its first argument, untouched, into its result -/
theorem evalTmpl_pass (env : TEnv) (T : Tmpl) (hesc : env.escapeFlag = true) (h : passOkT T = true) :
    ∃ pre post, evalTmpl env T = some (pre ++ (env.get "$text").toTStr ++ post) := by
  fun_induction passOkT T with
  | case1 e =>
    obtain ⟨pre, post, hp⟩ := evalPieces_pass env e h
    exact ⟨pre, post, by simp only [evalTmpl, hp]⟩
  | case2 t e ih =>
    have hc : evalCond env .flagEscape = true := by simp only [evalCond, hesc]
    simp only [evalTmpl]
    rw [if_pos hc]
    exact ih h
  | case3 t e ih =>
    have hc : ¬ evalCond env (.not .flagEscape) = true := by simp [evalCond, hesc]
    simp only [evalTmpl]
    rw [if_neg hc]
    exact ih h
  | case4 c t e _ _ ih1 ih2 =>
    simp only [Bool.and_eq_true] at h
    simp only [evalTmpl]
    split
    · exact ih1 h.1
    · exact ih2 h.2
  | case5 => simp at h

/-- a leaf template puts `ops(first argument)` into its result -/
theorem evalTmpl_leaf (env : TEnv) (T : Tmpl) (ops : List TOp) (hesc : env.escapeFlag = true) (h : leafOpsT T = some ops) :
    ∃ pre post, evalTmpl env T = some (pre ++ applyOps env ops (env.get "$text").toTStr ++ post) := by
  fun_induction leafOpsT T generalizing ops with
  | case1 e =>
    obtain ⟨pre, post, hp⟩ := evalPieces_leaf env e ops h
    exact ⟨pre, post, by simp only [evalTmpl, hp]⟩
  | case2 t e ih =>
    have hc : evalCond env .flagEscape = true := by simp only [evalCond, hesc]
    simp only [evalTmpl]
    rw [if_pos hc]
    exact ih ops h
  | case3 t e ih =>
    have hc : ¬ evalCond env (.not .flagEscape) = true := by simp [evalCond, hesc]
    simp only [evalTmpl]
    rw [if_neg hc]
    exact ih ops h
  | case4 c t e _ _ a b h2 h1 hab ih1 ih2 =>
    simp only [Option.some.injEq] at h
    subst h
    have hb : b = a := (eq_of_beq hab).symm
    subst hb
    simp only [evalTmpl]
    split
    · exact ih1 _ h1
    · exact ih2 _ h2
  | case5 => simp at h
  | case6 => simp at h
  | case7 => simp at h

/-- **Leaves in document order**, for every template table, token and depth. -/
theorem leaves_in_order (tbl : TmplTable) (mk : List (String × TVal) → TEnv)
    (hmk : ∀ args, (mk args).escapeFlag = true ∧ (mk args).args = args) :
    ∀ fuel t, InOrder (leafBlocks tbl mk fuel t) (renderTok tbl mk fuel t) := by
  intro fuel
  induction fuel with
  | zero => intro t; simp only [leafBlocks]; exact InOrder.nil _
  | succ fuel ih =>
    intro t
    unfold renderTok leafBlocks
    simp only
    cases hT : tbl.tmpls.lookup t.type with
    | none => exact InOrder.nil _
    | some T =>
      simp only
      by_cases hr : tbl.rawTypes.contains t.type = true
      · simp only [hr, if_true]
        cases hraw : t.getStr? "raw" with
        | none => exact InOrder.nil _
        | some raw =>
          cases hops : leafOpsT T with
          | none => exact InOrder.nil _
          | some ops =>
            simp only [Option.map_some]
            obtain ⟨pre, post, hp⟩ := evalTmpl_leaf (mk (("$text", TVal.str (TStr.ofData raw)) ::
              attrVals ((t.get? "attrs").getD (.obj [])))) T ops (hmk _).1 hops
            rw [hp]
            have hg : (mk (("$text", TVal.str (TStr.ofData raw)) ::
              attrVals ((t.get? "attrs").getD (.obj [])))).get "$text" = TVal.str (TStr.ofData raw) := by
              unfold TEnv.get
              rw [(hmk _).2]
              simp
            rw [hg]
            simp only [Option.getD_some, TVal.toTStr]
            exact InOrder.cons _ _ _ _ (InOrder.nil _)
      · simp only [hr, Bool.false_eq_true, if_false]
        by_cases hpass : passOkT T = true
        · simp only [hpass, if_true]
          cases hch : t.get? "children" with
          | none => exact InOrder.nil _
          | some j =>
            cases j with
            | arr cs =>
              simp only
              obtain ⟨pre, post, hp⟩ := evalTmpl_pass (mk (("$text", TVal.str (cs.flatMap (renderTok tbl mk fuel))) ::
                attrVals ((t.get? "attrs").getD (.obj [])))) T (hmk _).1 hpass
              rw [hp]
              have hg : (mk (("$text", TVal.str (cs.flatMap (renderTok tbl mk fuel))) ::
                attrVals ((t.get? "attrs").getD (.obj [])))).get "$text" = TVal.str (cs.flatMap (renderTok tbl mk fuel)) := by
                unfold TEnv.get
                rw [(hmk _).2]
                simp
              rw [hg]
              simp only [Option.getD_some, TVal.toTStr]
              exact InOrder.pad _ _ (InOrder.flatMap cs _ _ (fun c _ => ih c))
            | _ => exact InOrder.nil _
        · simp only [hpass, Bool.false_eq_true, if_false]
          exact InOrder.nil _

theorem leaves_in_order_doc (tbl : TmplTable) (mk : List (String × TVal) → TEnv)
    (hmk : ∀ args, (mk args).escapeFlag = true ∧ (mk args).args = args) (fuel : Nat) (toks : List Json) :
    InOrder (toks.flatMap (leafBlocks tbl mk fuel)) (renderToks tbl mk fuel toks) := by
  unfold renderToks
  exact InOrder.flatMap toks _ _ (fun t _ => leaves_in_order tbl mk hmk fuel t)

/-- what `InOrder` gives on the erased strings: each block is found after the end of the previous one -/
theorem InOrder.erase_split {bs : List TStr} {out : TStr} (h : InOrder bs out) :
    ∀ b ∈ bs, ∃ u v, out.erase = u ++ b.erase ++ v := by
  induction h with
  | nil w => intro b hb; cases hb
  | cons w b0 rest out _ ih =>
    intro b hb
    rcases List.mem_cons.1 hb with hb | hb
    · subst hb
      exact ⟨w.erase, out.erase, by simp [TStr.erase]⟩
    · obtain ⟨u, v, huv⟩ := ih b hb
      refine ⟨w.erase ++ b0.erase ++ u, v, ?_⟩
      simp only [TStr.erase, List.map_append, List.append_assoc] at huv ⊢
      rw [huv]

/-- the image of an escaped leaf is `escape(raw)` -/
theorem leaf_image_escape (env : TEnv) (raw : Str) : (applyOps env [.escape] (TStr.ofData raw)).erase = escape true raw := by
  rw [escape_eq_flatMap]
  simp only [applyOps, List.foldl_cons, List.foldl_nil, applyOp, tEscape, TStr.ofData, TStr.erase]
  induction raw with
  | nil => rfl
  | cons c r ih =>
    simp only [List.map_cons, List.flatMap_cons, List.map_append, ih, List.map_map]
    congr 1
    simp [Function.comp_def]

/-! ### obligations on the templates of the working tree (kernel-decided) -/

/-- the container types that must hand their children's text through (every type with children except those whose
template transforms the text: image → alt attribute, footnote_item / task_list_item → string surgery, toc) -/
def expectedPass : List String :=
  ["abbr", "admonition", "admonition_content", "admonition_title", "block_quote", "block_spoiler", "block_text", "def_list",
   "def_list_head", "def_list_item", "emphasis", "figcaption", "figure", "footnotes", "heading", "inline_spoiler", "insert",
   "legend", "link", "list", "list_item", "mark", "paragraph", "strikethrough", "strong", "subscript", "superscript",
   "table", "table_body", "table_cell", "table_head", "table_row"]

theorem templates_passTypes : expectedPass.all (fun ty => templates.passTypes.contains ty) = true := by decide +kernel

theorem templates_leafOps :
    templates.leafOps = [("block_code", [.escape]), ("block_error", []), ("block_html", [.strip, .escape]), ("block_math", [.escape]),
      ("codespan", [.escape]), ("include", [.escape]), ("inline_html", [.escape]), ("inline_math", [.escape]), ("ruby", []), ("text", [.escape])] := by
  decide +kernel

/-- non-vacuity: the blocks of a small tree and its rendering -/
example :
    let tok := Json.obj [("type", .str "paragraph".toList), ("children", .arr [
      Json.obj [("type", .str "text".toList), ("raw", .str "a<b".toList)],
      Json.obj [("type", .str "emphasis".toList), ("children", .arr [Json.obj [("type", .str "codespan".toList), ("raw", .str "x&y".toList)]])]])]
    (leafBlocks templates (fun a => mkTEnv a true) 5 tok).map TStr.erase = ["a&lt;b".toList, "x&amp;y".toList] ∧
    (renderTok templates (fun a => mkTEnv a true) 5 tok).erase = "<p>a&lt;b<em><code>x&amp;y</code></em></p>\n".toList := by
  decide +kernel


end Mistune
