/-
C04 / C13 (ATX headings, thematic breaks): **rule firing**.  `MistuneProofs.C04Atx` proves what the handler
`parse_atx_heading` does with a match; this file proves WHEN the rule regexes of `block.specification` match and what
the match is (sound and complete evaluation on the engine), composes the two, and proves the round trip through
`MarkdownRenderer.heading` / `MarkdownRenderer.thematic_break` (`Mistune.MdBlocks`).

```python
ATX_HEADING    = r"^ {0,3}(?P<atx_1>#{1,6})(?!#+)(?P<atx_2>[ \t]*|[ \t]+.*?)$"          (re.M)
THEMATIC_BREAK = r"^ {0,3}((?:-[ \t]*){3,}|(?:_[ \t]*){3,}|(?:\*[ \t]*){3,})$"          (re.M)
```

How CPython's priority order resolves `atx_2`: after the (greedy, maximal) run of `#`, the first alternative `[ \t]*`
takes the maximal run of blanks/tabs and `$` is tested; when the rest of the line is blank this succeeds (`atx_2` is the
whole blank rest).  Otherwise every shorter run is followed by a blank, `$` fails, and the second alternative takes the
maximal run of blanks (non-empty) and the lazy `.*?` is extended one character at a time until `$` holds, which (no
`'\n'` inside a line) happens at the end of the line first.  In both cases `atx_2` is the whole rest of the line.
The look-ahead `(?!#+)` is redundant: what follows the run of `#` must be a blank, a tab or the end of the line anyway.
-/
import Mistune
import MistuneProofs.C04Atx
import Mistune.MdBlocks
namespace Mistune
open Mistune.Model Mistune.Model.Blk Mistune.Generated

/-! ### the two rule regexes, as expected; kernel-decided against the regenerated tables -/

/-- `^ {0,3}(?P<atx_1>#{1,6})(?!#+)(?P<atx_2>[ \t]*|[ \t]+.*?)$` with `re.M` -/
def atxRuleRx : Rx :=
  .seq .bol (.seq (.rep (.cls false [.chr 32]) 0 (some 3) true)
    (.seq (.grp 1 (.rep (.cls false [.chr 35]) 1 (some 6) true))
      (.seq (.look true true 0 (.rep (.cls false [.chr 35]) 1 none true))
        (.seq (.grp 2 (.alt (.rep (.cls false [.chr 32, .chr 9]) 0 none true)
            (.seq (.rep (.cls false [.chr 32, .chr 9]) 1 none true) (.rep (.any false) 0 none false))))
          .eol))))

/-- one family of `THEMATIC_BREAK`: `(?:c[ \t]*){3,}` -/
def breakFamily (c : Nat) : Rx :=
  .rep (.seq (.cls false [.chr c]) (.rep (.cls false [.chr 32, .chr 9]) 0 none true)) 3 none true

/-- `^ {0,3}((?:-[ \t]*){3,}|(?:_[ \t]*){3,}|(?:\*[ \t]*){3,})$` with `re.M` -/
def thematicRuleRx : Rx :=
  .seq .bol (.seq (.rep (.cls false [.chr 32]) 0 (some 3) true)
    (.seq (.grp 1 (.alt (breakFamily 45) (.alt (breakFamily 95) (breakFamily 42)))) .eol))

/-- **Obligation:** in every regenerated configuration `block.specification["atx_heading"]` is the expected term. -/
theorem atxRule_lookup : ∀ c ∈ allCfgs, c.blockSpec.lookup "atx_heading" = some atxRuleRx := by
  decide +kernel

/-- **Obligation:** in every regenerated configuration `block.specification["thematic_break"]` is the expected term. -/
theorem thematicRule_lookup : ∀ c ∈ allCfgs, c.blockSpec.lookup "thematic_break" = some thematicRuleRx := by
  decide +kernel

/-- **Obligation:** the named groups `atx_1`, `atx_2` are groups 1 and 2. -/
theorem atxGroups_lookup : groupIndex.lookup "atx_1" = some 1 ∧ groupIndex.lookup "atx_2" = some 2 := by
  decide +kernel

theorem allCfgs_length : allCfgs.length = 30 := rfl

/-! ### engine lemmas: the lazy `.*?` (no DOTALL), `#+` failing, the end of a line -/

/-- **`.*?` (without DOTALL) tries the end positions in increasing order**: if the continuation fails at the first `m`
positions, none of which holds a newline, and succeeds after them, that is the result. -/
theorem lazyAnyNl_loop {R : Type} (x : RxCtx) (K : Nat → Caps → Option R) (c : Caps) (r : R) :
    ∀ (m fuel cnt : Nat) (pa : Bool) (i : Nat),
      (∀ t, t < m → i + t < x.n ∧ x.chr (i + t) ≠ 10 ∧ K (i + t) c = none) →
      K (i + m) c = some r → m + 1 ≤ fuel → (pa || cnt == 0) = true →
      repLoop (fun i c k => (Rx.any false).m x i c k) 0 none false K fuel cnt pa i c = some r := by
  intro m
  induction m with
  | zero =>
    intro fuel cnt pa i _ hK hf _
    obtain ⟨fuel, rfl⟩ : ∃ f, fuel = f + 1 := ⟨fuel - 1, by omega⟩
    simp only [Nat.add_zero] at hK
    simp [repLoop, hK]
  | succ m ih =>
    intro fuel cnt pa i hrun hK hf hpa
    obtain ⟨fuel, rfl⟩ : ∃ f, fuel = f + 1 := ⟨fuel - 1, by omega⟩
    obtain ⟨h1, h2, h3⟩ := hrun 0 (by omega)
    simp only [Nat.add_zero] at h1 h2 h3
    have := ih fuel (cnt + 1) (i + 1 != i) (i + 1)
      (fun t ht => by have := hrun (t + 1) (by omega); rwa [show i + 1 + t = i + (t + 1) by omega])
      (by rw [show i + 1 + m = i + (m + 1) by omega]; exact hK) (by omega) (by simp)
    simp [Rx.m] at this
    simp only [repLoop, Rx.m, h3]
    simp [h1, h2, hpa, this]

theorem lazyAnyNl_m {R : Type} (x : RxCtx) (K : Nat → Caps → Option R) (c : Caps) (r : R) (i m : Nat)
    (hrun : ∀ t, t < m → i + t < x.n ∧ x.chr (i + t) ≠ 10 ∧ K (i + t) c = none)
    (hK : K (i + m) c = some r) (hle : i + m ≤ x.n) :
    (Rx.rep (.any false) 0 none false).m x i c K = some r := by
  simp only [Rx.m]
  exact lazyAnyNl_loop x K c r m _ 0 false i hrun hK (by omega) (by simp)

/-- a repeat with a positive minimum fails where its class does not match -/
theorem rep_cls_none {R : Type} (x : RxCtx) (items : List ClsItem) (lo : Nat) (hi : Option Nat) (g : Bool) (i : Nat)
    (c : Caps) (k : Nat → Caps → Option R)
    (h : ¬ (i < x.n ∧ clsTest x.t false items (x.chr i) = true)) :
    (Rx.rep (.cls false items) (lo + 1) hi g).m x i c k = none := by
  cases hm : (Rx.rep (.cls false items) (lo + 1) hi g).m x i c k with
  | none => rfl
  | some r =>
    exfalso
    obtain ⟨j, c', hs, _⟩ := m_sound _ _ _ _ _ _ hm
    obtain ⟨cnt, hc, _, hit⟩ := spec_rep.mp hs
    obtain ⟨_, _, hr⟩ := iter_cls hit
    have := hr 0 (by omega)
    rw [Nat.add_zero] at this
    exact h this

theorem m_look_neg {R : Type} (x : RxCtx) (w : Nat) (r : Rx) (i : Nat) (c : Caps) (k : Nat → Caps → Option R)
    (h : r.m x i c (fun _ _ => some ()) = none) : (Rx.look true true w r).m x i c k = k i c := by
  simp only [Rx.m, h]

theorem m_eol {R : Type} (s : Str) (i : Nat) (c : Caps) (k : Nat → Caps → Option R) :
    Rx.eol.m (Py.ctxOf s) i c k = if i = s.length ∨ s[i]? = some '\n' then k i c else none := by
  simp only [Rx.m, ctxOf_n, ctxOf_chr]
  by_cases h1 : i = s.length
  · simp [h1]
  · by_cases h2 : i < s.length
    · rw [List.getElem?_eq_getElem h2, Option.getD_some]
      by_cases h3 : s[i] = '\n'
      · simp [h2, h3]
      · have : (s[i].toNat == 10) = false := by
          rw [beq_eq_false_iff_ne]
          exact fun h => h3 (Char.toNat_inj.mp h)
        simp [h1, h2, h3, this]
    · have : s[i]? = none := List.getElem?_eq_none (by omega)
      simp [h1, h2]

theorem m_alt_left {R : Type} {x : RxCtx} {a b : Rx} {i : Nat} {c : Caps} {k : Nat → Caps → Option R} {r : R}
    (h : a.m x i c k = some r) : (Rx.alt a b).m x i c k = some r := by
  simp only [Rx.m, h]

theorem m_alt_right {R : Type} {x : RxCtx} {a b : Rx} {i : Nat} {c : Caps} {k : Nat → Caps → Option R}
    (h : a.m x i c k = none) : (Rx.alt a b).m x i c k = b.m x i c k := by
  simp only [Rx.m, h]

theorem isBlank_ne_nl {ch : Char} (h : isBlank ch = true) : ch ≠ '\n' := by
  intro e; subst e; revert h; decide

theorem isBlank_ne_hash {ch : Char} (h : isBlank ch = true) : ch ≠ '#' := by
  intro e; subst e; revert h; decide

/-! ### `(?P<atx_2>[ \t]*|[ \t]+.*?)$` on the rest of a heading line -/

/-- the rest of the line after the run of `#` -/
structure AtxTail (tail rest : Str) : Prop where
  /-- empty, or it starts with a blank or a tab -/
  head : tail = [] ∨ ∃ b t', tail = b :: t' ∧ isBlank b = true
  /-- it lies within one line -/
  no_nl : '\n' ∉ tail
  /-- and reaches to the end of that line -/
  rest : rest = [] ∨ ∃ r', rest = '\n' :: r'

theorem getElem?_in_tail (a tail rest : Str) (t : Nat) (h : t < tail.length) :
    (a ++ tail ++ rest)[a.length + t]? = some tail[t] := getElem?_mid a tail rest t h

/-- `$` right after the tail holds -/
theorem eol_after_tail {R : Type} (a tail rest : Str) (hrest : rest = [] ∨ ∃ r', rest = '\n' :: r') (c : Caps)
    (k : Nat → Caps → Option R) :
    Rx.eol.m (Py.ctxOf (a ++ tail ++ rest)) (a.length + tail.length) c k = k (a.length + tail.length) c := by
  rw [m_eol, if_pos]
  rcases hrest with rfl | ⟨r', rfl⟩
  · left; simp
  · right
    rw [show a.length + tail.length = (a ++ tail).length by simp, List.getElem?_append_right (by simp)]
    simp

/-- `$` inside the tail does not hold -/
theorem eol_in_tail {R : Type} (a tail rest : Str) (hnl : '\n' ∉ tail) (t : Nat) (ht : t < tail.length) (c : Caps)
    (k : Nat → Caps → Option R) :
    Rx.eol.m (Py.ctxOf (a ++ tail ++ rest)) (a.length + t) c k = none := by
  rw [m_eol, if_neg]
  rintro (h | h)
  · simp at h; omega
  · rw [getElem?_in_tail a tail rest t ht, Option.some.injEq] at h
    exact hnl (h ▸ List.getElem_mem ht)

/-- **group `atx_2` and `$`**: started right after the run of `#`, `(?P<atx_2>[ \t]*|[ \t]+.*?)$` records the whole rest
of the line as group 2 and continues at the end of the line. -/
theorem atxTail_grp_m {R : Type} (a tail rest : Str) (h : AtxTail tail rest) (c : Caps) (K : Nat → Caps → Option R)
    (r : R) (hK : K (a.length + tail.length) ((2, (a.length, a.length + tail.length)) :: c) = some r) :
    (Rx.seq (.grp 2 (.alt (.rep (.cls false [.chr 32, .chr 9]) 0 none true)
        (.seq (.rep (.cls false [.chr 32, .chr 9]) 1 none true) (.rep (.any false) 0 none false)))) .eol).m
      (Py.ctxOf (a ++ tail ++ rest)) a.length c K = some r := by
  obtain ⟨hhead, hnl, hrest⟩ := h
  rw [m_seq, m_grp]
  -- the continuation of the group body: record group 2, test `$`
  generalize hk2 : (fun (j : Nat) (c' : Caps) =>
    Rx.eol.m (Py.ctxOf (a ++ tail ++ rest)) j ((2, (a.length, j)) :: c') K) = k2
  have hend : ∀ c', k2 (a.length + tail.length) c' =
      K (a.length + tail.length) ((2, (a.length, a.length + tail.length)) :: c') := by
    intro c'; rw [← hk2]; exact eol_after_tail a tail rest hrest _ K
  have hin : ∀ t c', t < tail.length → k2 (a.length + t) c' = none := by
    intro t c' ht; rw [← hk2]; exact eol_in_tail a tail rest hnl t ht _ K
  -- split the tail into its leading blanks and the body
  have hsplit : tail.takeWhile isBlank ++ tail.dropWhile isBlank = tail := List.takeWhile_append_dropWhile
  generalize hbl : tail.takeWhile isBlank = bl at hsplit
  generalize hbody : tail.dropWhile isBlank = body at hsplit
  have hblank : ∀ ch ∈ bl, isBlank ch = true := by
    intro ch hch; rw [← hbl] at hch; exact mem_takeWhile_pos hch
  have hbody0 : ∀ b body', body = b :: body' → isBlank b = false := by
    intro b body' e
    have := head?_dropWhile_ne isBlank tail b (by rw [hbody, e]; rfl)
    exact this
  have hS : a ++ tail ++ rest = a ++ bl ++ (body ++ rest) := by rw [← hsplit]; simp
  have hlen : tail.length = bl.length + body.length := by rw [← hsplit]; simp
  cases body with
  | nil =>
    -- a blank rest: the first alternative, `[ \t]*` takes it all
    apply m_alt_left
    rw [List.append_nil] at hsplit
    subst hsplit
    refine rep_greedy_list a bl rest [.chr 32, .chr 9] isBlank (fun ch => clsTest_chr2 pyCats ' ' '\t' ch)
      0 none k2 c r hblank ?_ (by simp) (by omega) (by rw [hend]; exact hK)
    right
    rcases hrest with rfl | ⟨r', rfl⟩
    · exact Or.inl rfl
    · exact Or.inr ⟨'\n', r', rfl, by decide⟩
  | cons b body' =>
    have hb : isBlank b = false := hbody0 b body' rfl
    have hblne : bl ≠ [] := by
      intro e
      rw [e, List.nil_append] at hsplit
      rcases hhead with h | ⟨b1, t', h, hb1⟩
      · rw [h] at hsplit; cases hsplit
      · rw [h] at hsplit
        injection hsplit with e1 _
        rw [e1, hb1] at hb; cases hb
    -- the first alternative fails: `$` does not hold after any run of blanks
    have hA : (Rx.rep (.cls false [.chr 32, .chr 9]) 0 none true).m (Py.ctxOf (a ++ tail ++ rest)) a.length c k2 =
        none := by
      cases hm : (Rx.rep (.cls false [.chr 32, .chr 9]) 0 none true).m (Py.ctxOf (a ++ tail ++ rest)) a.length c k2 with
      | none => rfl
      | some r0 =>
        exfalso
        obtain ⟨j, c', hs, hk⟩ := m_sound _ _ _ _ _ _ hm
        obtain ⟨cnt, _, _, hit⟩ := spec_rep.mp hs
        obtain ⟨rfl, _, hr⟩ := iter_cls hit
        have hcnt : cnt ≤ bl.length := by
          rcases Nat.lt_or_ge bl.length cnt with hlt | hge
          · exfalso
            obtain ⟨ch, hch, hp⟩ := cls_at _ _ isBlank (fun ch => clsTest_chr2 pyCats ' ' '\t' ch) _ (hr bl.length hlt)
            rw [hS, getElem?_after] at hch
            simp only [List.cons_append, List.head?_cons, Option.some.injEq] at hch
            rw [← hch, hb] at hp; cases hp
          · exact hge
        rw [hin cnt c' (by rw [hlen]; simp; omega)] at hk
        cases hk
    rw [m_alt_right hA, m_seq]
    -- the second alternative: the maximal run of blanks, then `.*?` up to the end of the line
    have h2 := rep_greedy_list a bl (b :: body' ++ rest) [.chr 32, .chr 9] isBlank
      (fun ch => clsTest_chr2 pyCats ' ' '\t' ch) 1 none
      (fun j c' => (Rx.rep (.any false) 0 none false).m (Py.ctxOf (a ++ tail ++ rest)) j c' k2) c r hblank
      (Or.inr (Or.inr ⟨b, body' ++ rest, rfl, hb⟩)) (by simp)
      (by cases bl with
          | nil => exact absurd rfl hblne
          | cons _ _ => simp)
      (by
        apply lazyAnyNl_m _ k2 c r (a.length + bl.length) (b :: body').length
        · intro t ht
          have htl : bl.length + t < tail.length := by rw [hlen]; omega
          have hget := getElem?_in_tail a tail rest (bl.length + t) htl
          rw [← Nat.add_assoc] at hget
          refine ⟨by rw [ctxOf_n]; simp; omega, ?_, by rw [Nat.add_assoc]; exact hin _ c htl⟩
          rw [ctxOf_chr, hget, Option.getD_some]
          intro e
          have : tail[bl.length + t] = '\n' := Char.toNat_inj.mp e
          exact hnl (this ▸ List.getElem_mem htl)
        · rw [Nat.add_assoc, ← hlen, hend]; exact hK
        · rw [ctxOf_n, Nat.add_assoc, ← hlen]; simp)
    rw [← hS] at h2
    exact h2

/-! ### the ATX rule: success on a heading line -/

/-- a heading line: `ind ++ hashes ++ tail`, followed by `rest` -/
structure AtxLine (ind hashes tail rest : Str) : Prop where
  /-- at most three blanks -/
  ind_blank : ∀ ch ∈ ind, ch = ' '
  ind_le : ind.length ≤ 3
  /-- one to six `#` -/
  hashes_hash : ∀ ch ∈ hashes, ch = '#'
  hashes_pos : 1 ≤ hashes.length
  hashes_le : hashes.length ≤ 6
  /-- then the end of the line, or a blank / a tab and anything up to the end of the line -/
  tail : AtxTail tail rest

/-- the match of the ATX rule on a heading line that starts at `p` -/
def atxMatch (p : Nat) (ind hashes tail : Str) : RxMatch :=
  { start := p, stop := p + ind.length + hashes.length + tail.length,
    caps := [(2, (p + ind.length + hashes.length, p + ind.length + hashes.length + tail.length)),
             (1, (p + ind.length, p + ind.length + hashes.length))] }

/-- what follows the run of `#` is not a `#` -/
theorem AtxTail.head_not_hash {tail rest : Str} (h : AtxTail tail rest) :
    tail ++ rest = [] ∨ ∃ ch r', tail ++ rest = ch :: r' ∧ (ch == '#') = false := by
  rcases h.head with rfl | ⟨b, t', rfl, hb⟩
  · rcases h.rest with rfl | ⟨r', rfl⟩
    · exact Or.inl rfl
    · exact Or.inr ⟨'\n', r', rfl, by decide⟩
  · exact Or.inr ⟨b, t' ++ rest, rfl, by simpa using isBlank_ne_hash hb⟩

/-- **The ATX rule fires on every heading line** (soundness of the description: the match is computed exactly).
At a line start, on `ind ++ hashes ++ tail` followed by the end of the subject or a newline, `ATX_HEADING.match` succeeds,
ends at the end of the line, `atx_1` is the run of `#` and `atx_2` the whole rest of the line. -/
theorem atxRule_matchAt_hit (pre ind hashes tail rest : Str) (hbol : pre = [] ∨ pre.getLast? = some '\n')
    (h : AtxLine ind hashes tail rest) :
    atxRuleRx.matchAt (Py.ctxOf (pre ++ ind ++ hashes ++ tail ++ rest)) pre.length =
      some (atxMatch pre.length ind hashes tail) := by
  obtain ⟨hind, hind3, hhs, hh1, hh6, htail⟩ := h
  generalize hS : pre ++ ind ++ hashes ++ tail ++ rest = S
  have hS1 : pre ++ ind ++ (hashes ++ tail ++ rest) = S := by rw [← hS]; simp
  have hS2 : (pre ++ ind) ++ hashes ++ (tail ++ rest) = S := by rw [← hS]; simp
  have hS3 : (pre ++ ind ++ hashes) ++ tail ++ rest = S := hS
  have hl2 : (pre ++ ind).length = pre.length + ind.length := by simp
  have hl3 : (pre ++ ind ++ hashes).length = pre.length + ind.length + hashes.length := by simp; omega
  unfold Rx.matchAt atxRuleRx
  rw [m_seq, m_bol, if_pos (by rw [← hS1, List.append_assoc]; exact (bolAt_append_length _ _).mpr hbol)]
  -- group 2 and `$`
  have h4 := atxTail_grp_m (pre ++ ind ++ hashes) tail rest htail [(1, (pre.length + ind.length,
      pre.length + ind.length + hashes.length))]
    (fun j c => some ({ start := pre.length, stop := j, caps := c } : RxMatch))
    (atxMatch pre.length ind hashes tail) (by simp only [hl3]; rfl)
  rw [hS3, hl3] at h4
  -- `(?!#+)`
  have h3 : ∀ c : Caps, (Rx.rep (.cls false [.chr 35]) 1 none true).m (Py.ctxOf S)
      (pre.length + ind.length + hashes.length) c (fun _ _ => some ()) = none := by
    intro c
    apply rep_cls_none
    rintro ⟨h1, h2⟩
    obtain ⟨ch, hch, hp⟩ := cls_at S _ isHash clsTest_hash _ ⟨h1, h2⟩
    rw [← hS2, ← hl3, show (pre ++ ind ++ hashes).length = (pre ++ ind).length + hashes.length by simp; omega,
      getElem?_after] at hch
    rcases htail.head_not_hash with h | ⟨ch', r', h, hne⟩
    · rw [h] at hch; cases hch
    · rw [h] at hch
      simp only [List.head?_cons, Option.some.injEq] at hch
      rw [hch] at hne
      simp only [isHash] at hp
      rw [hp] at hne; cases hne
  -- `#{1,6}` inside group 1
  have h2 := rep_greedy_list (pre ++ ind) hashes (tail ++ rest) [.chr 35] isHash clsTest_hash 1 (some 6)
    (fun j c' => (Rx.seq (.look true true 0 (.rep (.cls false [.chr 35]) 1 none true))
      (.seq (.grp 2 (.alt (.rep (.cls false [.chr 32, .chr 9]) 0 none true)
        (.seq (.rep (.cls false [.chr 32, .chr 9]) 1 none true) (.rep (.any false) 0 none false)))) .eol)).m (Py.ctxOf S)
      j ((1, (pre.length + ind.length, j)) :: c')
      (fun j c => some ({ start := pre.length, stop := j, caps := c } : RxMatch))) [] _
    (fun ch hch => by simp [isHash, hhs ch hch])
    (by
      right
      rcases htail.head_not_hash with h | ⟨ch', r', h, hne⟩
      · exact Or.inl h
      · exact Or.inr ⟨ch', r', h, hne⟩)
    (by intro m hm; cases hm; exact hh6) hh1
    (by rw [hl2, m_seq, m_look_neg _ _ _ _ _ _ (h3 _)]; exact h4)
  rw [hS2, hl2] at h2
  -- ` {0,3}`
  have h1 := rep_greedy_list pre ind (hashes ++ tail ++ rest) [.chr 32] (· == ' ')
    (fun ch => clsTest_chr1 pyCats ' ' ch) 0 (some 3)
    (fun j c' => (Rx.seq (.grp 1 (.rep (.cls false [.chr 35]) 1 (some 6) true))
      (.seq (.look true true 0 (.rep (.cls false [.chr 35]) 1 none true))
        (.seq (.grp 2 (.alt (.rep (.cls false [.chr 32, .chr 9]) 0 none true)
          (.seq (.rep (.cls false [.chr 32, .chr 9]) 1 none true) (.rep (.any false) 0 none false)))) .eol))).m
      (Py.ctxOf S) j c' (fun j c => some ({ start := pre.length, stop := j, caps := c } : RxMatch))) [] _
    (fun ch hch => by simp [hind ch hch])
    (by
      right; right
      cases hashes with
      | nil => simp at hh1
      | cons x hs' => exact ⟨x, hs' ++ tail ++ rest, rfl, by rw [hhs x (by simp)]; decide⟩)
    (by intro m hm; cases hm; exact hind3) (by omega)
    (by rw [m_seq, m_grp]; exact h2)
  rw [hS1] at h1
  rw [m_seq]
  exact h1

/-! ### the ATX rule: what a match looks like (completeness of the description) -/

theorem iter_anyNl {x : RxCtx} {cnt i : Nat} {c : Caps} {j : Nat} {c' : Caps}
    (h : Iter (Spec x (.any false)) cnt i c j c') :
    j = i + cnt ∧ c' = c ∧ ∀ t, t < cnt → i + t < x.n ∧ x.chr (i + t) ≠ 10 := by
  induction h with
  | zero i c => exact ⟨rfl, rfl, fun t ht => by omega⟩
  | @succ n i0 j0 k0 c0 c1 c2 hs _ ih =>
    simp only [Spec] at hs
    obtain ⟨h1, h2, rfl, rfl⟩ := hs
    obtain ⟨rfl, rfl, h3⟩ := ih
    refine ⟨by omega, rfl, ?_⟩
    intro t ht
    cases t with
    | zero => exact ⟨h1, by simpa using h2⟩
    | succ t => have := h3 t (by omega); rwa [show i0 + 1 + t = i0 + (t + 1) by omega] at this

def notNl (ch : Char) : Bool := ch != '\n'

theorem anyNl_at (s : Str) (i : Nat) (h : i < (Py.ctxOf s).n ∧ (Py.ctxOf s).chr i ≠ 10) :
    ∃ ch, s[i]? = some ch ∧ notNl ch = true := by
  obtain ⟨h1, h2⟩ := h
  rw [ctxOf_n] at h1
  rw [ctxOf_chr, List.getElem?_eq_getElem h1, Option.getD_some] at h2
  refine ⟨s[i], List.getElem?_eq_getElem h1, ?_⟩
  simp only [notNl, bne_iff_ne]
  intro e; rw [e] at h2; exact h2 rfl

/-- what `$` (with `re.M`) says about the rest of the subject -/
theorem spec_eol_drop {s : Str} {i : Nat} {c : Caps} {j : Nat} {c' : Caps} (h : Spec (Py.ctxOf s) .eol i c j c') :
    (s.drop i = [] ∨ ∃ r', s.drop i = '\n' :: r') ∧ j = i ∧ c' = c := by
  simp only [Spec] at h
  obtain ⟨h1, rfl, rfl⟩ := h
  refine ⟨?_, rfl, rfl⟩
  rw [ctxOf_n] at h1
  rcases h1 with h1 | ⟨h1, h2⟩
  · left; rw [h1]; simp
  · right
    rw [ctxOf_chr, List.getElem?_eq_getElem h1, Option.getD_some] at h2
    exact ⟨_, by rw [List.drop_eq_getElem_cons h1, show s[j] = '\n' from Char.toNat_inj.mp h2]⟩

/-- **Only heading lines fire the ATX rule**: a match of `ATX_HEADING` at `q` starts at a line start, and the subject
from `q` on is a heading line (at most three blanks, one to six `#`, then the end of the line or a blank / tab and
anything up to the end of the line). -/
theorem atxRule_matchAt_sound (s : Str) (q : Nat) (mt : RxMatch)
    (h : atxRuleRx.matchAt (Py.ctxOf s) q = some mt) :
    bolAt s q ∧ ∃ ind hashes tail rest, s.drop q = ind ++ hashes ++ tail ++ rest ∧ AtxLine ind hashes tail rest := by
  obtain ⟨_, hs⟩ := matchAt_sound _ _ _ _ h
  unfold atxRuleRx at hs
  obtain ⟨i0, c0, hbol, hs⟩ := spec_seq.mp hs
  obtain ⟨hb, rfl, rfl⟩ := spec_bol hbol
  obtain ⟨i1, c1, h1, hs⟩ := spec_seq.mp hs
  obtain ⟨i2, c2, hg1, hs⟩ := spec_seq.mp hs
  obtain ⟨i3, c3, hlook, hs⟩ := spec_seq.mp hs
  obtain ⟨i4, c4, hg2, heol⟩ := spec_seq.mp hs
  obtain ⟨n1, _, hn1, hit1⟩ := spec_rep.mp h1
  obtain ⟨rfl, rfl, hr1⟩ := iter_cls hit1
  obtain ⟨c1', h2, _⟩ := spec_grp.mp hg1
  obtain ⟨n2, hn2lo, hn2hi, hit2⟩ := spec_rep.mp h2
  obtain ⟨rfl, _, hr2⟩ := iter_cls hit2
  simp only [Spec] at hlook
  obtain ⟨rfl, _⟩ := hlook
  obtain ⟨c2', halt, _⟩ := spec_grp.mp hg2
  obtain ⟨hrest, _, _⟩ := spec_eol_drop heol
  have hn1' : n1 ≤ 3 := hn1 3 rfl
  have hn2' : n2 ≤ 6 := hn2hi 6 rfl
  refine ⟨hb, ?_⟩
  -- both alternatives: a run of blanks, then (only after a non-empty run) characters other than newlines
  have key : ∃ n3 n4, i4 = i0 + n1 + n2 + n3 + n4 ∧ (n3 = 0 → n4 = 0) ∧
      (∀ t, t < n3 → ∃ ch, s[i0 + n1 + n2 + t]? = some ch ∧ isBlank ch = true) ∧
      (∀ t, t < n4 → ∃ ch, s[i0 + n1 + n2 + n3 + t]? = some ch ∧ notNl ch = true) := by
    rcases spec_alt.mp halt with hA | hB
    · obtain ⟨n3, _, _, hit3⟩ := spec_rep.mp hA
      obtain ⟨rfl, _, hr3⟩ := iter_cls hit3
      exact ⟨n3, 0, rfl, fun _ => rfl,
        fun t ht => cls_at s _ _ (fun ch => clsTest_chr2 pyCats ' ' '\t' ch) _ (hr3 t ht), fun t ht => by omega⟩
    · obtain ⟨i5, c5, hB1, hB2⟩ := spec_seq.mp hB
      obtain ⟨n3, hn3, _, hit3⟩ := spec_rep.mp hB1
      obtain ⟨rfl, _, hr3⟩ := iter_cls hit3
      obtain ⟨n4, _, _, hit4⟩ := spec_rep.mp hB2
      obtain ⟨rfl, _, hr4⟩ := iter_anyNl hit4
      exact ⟨n3, n4, rfl, fun h0 => by omega,
        fun t ht => cls_at s _ _ (fun ch => clsTest_chr2 pyCats ' ' '\t' ch) _ (hr3 t ht),
        fun t ht => anyNl_at s _ (hr4 t ht)⟩
  obtain ⟨n3, n4, rfl, h34, hr3, hr4⟩ := key
  obtain ⟨ind, hind1, hind2, hd1⟩ := run_of_forall (· == ' ') n1 s i0
    (fun t ht => cls_at s _ _ (fun ch => clsTest_chr1 pyCats ' ' ch) _ (hr1 t ht))
  obtain ⟨hashes, hhs1, hhs2, hd2⟩ := run_of_forall isHash n2 s (i0 + n1)
    (fun t ht => cls_at s _ _ clsTest_hash _ (hr2 t ht))
  obtain ⟨bl, hbl1, hbl2, hd3⟩ := run_of_forall isBlank n3 s (i0 + n1 + n2) hr3
  obtain ⟨u, hu1, hu2, hd4⟩ := run_of_forall notNl n4 s (i0 + n1 + n2 + n3) hr4
  refine ⟨ind, hashes, bl ++ u, s.drop (i0 + n1 + n2 + n3 + n4), by rw [hd1, hd2, hd3, hd4]; simp, ?_⟩
  refine ⟨fun ch hch => by simpa using hind2 ch hch, by omega, fun ch hch => by simpa [isHash] using hhs2 ch hch,
    by omega, by omega, ?_, ?_, hrest⟩
  · cases bl with
    | nil =>
      have : n4 = 0 := h34 (by simpa using hbl1.symm)
      left
      rw [this] at hu1
      rw [List.eq_nil_of_length_eq_zero hu1]; rfl
    | cons b bl' => exact Or.inr ⟨b, bl' ++ u, rfl, hbl2 b (by simp)⟩
  · intro hmem
    rcases List.mem_append.mp hmem with hm | hm
    · exact isBlank_ne_nl (hbl2 _ hm) rfl
    · have := hu2 _ hm
      simp [notNl] at this

/-! ### rule firing composed with the handler -/

theorem slice_mid (a m r : Str) (i j : Nat) (hi : i = a.length) (hj : j = a.length + m.length) :
    Py.slice (Py.ctxOf (a ++ m ++ r)).s i j = m := by
  subst hi hj
  rw [ctxOf_s, slice_toArray, List.append_assoc, List.drop_left, Nat.add_sub_cancel_left, List.take_left]

theorem pyMatchAt_eq (r : Rx) (s : Str) (pos : Nat) (h : pos ≤ s.length) :
    Py.matchAt r (Py.ctxOf s) pos = r.matchAt (Py.ctxOf s) pos := by
  unfold Py.matchAt
  rw [ctxOf_n, Nat.min_eq_left h]

/-- the groups of the match, as texts -/
theorem atxMatch_groups (cfg : MdCfg) (hgroups : cfg.groups = groupIndex) (st : BlockState)
    (pre ind hashes tail rest : Str) (hx : st.x = Py.ctxOf (pre ++ ind ++ hashes ++ tail ++ rest)) :
    grp cfg st (atxMatch pre.length ind hashes tail) "atx_1" = hashes ∧
    grp cfg st (atxMatch pre.length ind hashes tail) "atx_2" = tail := by
  unfold grp groupNamed
  rw [hgroups, atxGroups_lookup.1, atxGroups_lookup.2, hx]
  constructor
  · show (some (Py.slice _ (pre.length + ind.length) (pre.length + ind.length + hashes.length))).getD [] = hashes
    rw [Option.getD_some, show pre ++ ind ++ hashes ++ tail ++ rest = (pre ++ ind) ++ hashes ++ (tail ++ rest) by simp]
    exact slice_mid _ _ _ _ _ (by simp) (by simp)
  · show (some (Py.slice _ (pre.length + ind.length + hashes.length)
      (pre.length + ind.length + hashes.length + tail.length))).getD [] = tail
    rw [Option.getD_some]
    exact slice_mid _ _ _ _ _ (by simp; omega) (by simp; omega)

/-- **An ATX heading line produces its heading token.**  With the subject `pre ++ line ++ rest`, `pre` empty or ending
with a newline, `line = ind ++ hashes ++ tail` a heading line and `rest` empty or starting with a newline: the rule
regex of `block.specification` matches at the start of the line, and `parse_atx_heading` on that match appends one
`heading` token with `level = len(hashes)` and `text = atxSpec tail` (strip, then remove a closing sequence), and returns
the position after the line's newline (`m.end() + 1`, also when the subject ends without newline). -/
theorem atx_line_token (cfg : MdCfg) (hnamed : cfg.named = namedRx) (hgroups : cfg.groups = groupIndex)
    (st : BlockState) (pre ind hashes tail rest : Str)
    (hx : st.x = Py.ctxOf (pre ++ ind ++ hashes ++ tail ++ rest))
    (hbol : pre = [] ∨ pre.getLast? = some '\n') (h : AtxLine ind hashes tail rest) :
    Py.matchAt atxRuleRx st.x pre.length = some (atxMatch pre.length ind hashes tail) ∧
    parseAtxHeading cfg (atxMatch pre.length ind hashes tail) st =
      .ok (some (pre.length + ind.length + hashes.length + tail.length + 1),
        st.appendToken (atxToken (atxSpec tail) hashes.length)) := by
  constructor
  · rw [hx, pyMatchAt_eq _ _ _ (by simp only [List.length_append]; omega)]
    exact atxRule_matchAt_hit pre ind hashes tail rest hbol h
  · obtain ⟨h1, h2⟩ := atxMatch_groups cfg hgroups st pre ind hashes tail rest hx
    rw [parseAtxHeading_spec cfg hnamed, h1, h2]
    rfl

/-- the same through the dispatcher `Parser.parse_method`, for every regenerated configuration: the rule name is
`atx_heading`, its regex is looked up in `block.specification` -/
theorem atx_line_token_cfg (c : RuleCfg) (hc : c ∈ allCfgs) (fuel : Nat) (st : BlockState)
    (pre ind hashes tail rest : Str) (hx : st.x = Py.ctxOf (pre ++ ind ++ hashes ++ tail ++ rest))
    (hbol : pre = [] ∨ pre.getLast? = some '\n') (h : AtxLine ind hashes tail rest) :
    ∃ rx mt, (ofRuleCfg c).blockSpec.lookup "atx_heading" = some rx ∧
      scMatch st.x [("atx_heading", rx)] pre.length = some ("atx_heading", mt) ∧
      mt.start = pre.length ∧ mt.stop = pre.length + ind.length + hashes.length + tail.length ∧
      parseMethod (ofRuleCfg c) (fuel + 1) "atx_heading" mt st =
        .ok (some (mt.stop + 1), st.appendToken (atxToken (atxSpec tail) hashes.length)) := by
  obtain ⟨h1, h2⟩ := atx_line_token (ofRuleCfg c) rfl rfl st pre ind hashes tail rest hx hbol h
  refine ⟨atxRuleRx, atxMatch pre.length ind hashes tail, atxRule_lookup c hc, ?_, rfl, rfl, h2⟩
  unfold scMatch scanAt
  unfold Py.matchAt at h1
  rw [h1]

/-! ### the thematic-break rule: success on every line of the three families -/

/-- the characters of a break line after the indentation: `c`, blanks/tabs, `c`, blanks/tabs, … (`units` are the runs of
blanks/tabs after each `c`) -/
def breakBody (c : Char) (units : List Str) : Str := (units.map (fun bl => c :: bl)).flatten

theorem breakBody_cons (c : Char) (bl : Str) (us : List Str) :
    breakBody c (bl :: us) = c :: bl ++ breakBody c us := rfl

/-- a thematic-break line: `ind ++ breakBody c units`, followed by `rest` -/
structure BreakLine (ind : Str) (units : List Str) (rest : Str) : Prop where
  ind_blank : ∀ ch ∈ ind, ch = ' '
  ind_le : ind.length ≤ 3
  units_blank : ∀ bl ∈ units, ∀ ch ∈ bl, isBlank ch = true
  three : 3 ≤ units.length
  rest : rest = [] ∨ ∃ r', rest = '\n' :: r'

/-- a repeat (positive minimum) of a sequence that starts with a class fails where the class does not match -/
theorem rep_seq_cls_none {R : Type} (x : RxCtx) (items : List ClsItem) (X : Rx) (lo : Nat) (hi : Option Nat) (g : Bool)
    (i : Nat) (c : Caps) (k : Nat → Caps → Option R)
    (h : ¬ (i < x.n ∧ clsTest x.t false items (x.chr i) = true)) :
    (Rx.rep (.seq (.cls false items) X) (lo + 1) hi g).m x i c k = none := by
  cases hm : (Rx.rep (.seq (.cls false items) X) (lo + 1) hi g).m x i c k with
  | none => rfl
  | some r =>
    exfalso
    obtain ⟨j, c', hs, _⟩ := m_sound _ _ _ _ _ _ hm
    obtain ⟨cnt, hc, _, hit⟩ := spec_rep.mp hs
    obtain ⟨n, rfl⟩ : ∃ n, cnt = n + 1 := ⟨cnt - 1, by omega⟩
    cases hit with
    | succ hs1 _ =>
      obtain ⟨_, _, h1, _⟩ := spec_seq.mp hs1
      simp only [Spec] at h1
      exact h ⟨h1.1, h1.2.1⟩

/-- **the greedy path of `(?:c[ \t]*){3,}`**: every iteration takes one `c` and the maximal run of blanks/tabs after it;
after the last unit the class fails and the loop is left (no backtracking). -/
theorem breakFamily_loop {R : Type} (c : Char) (S rest : Str) (hrest : rest = [] ∨ ∃ r', rest = '\n' :: r')
    (hc1 : isBlank c = false) (hc2 : c ≠ '\n') (K : Nat → Caps → Option R) (caps : Caps) (r : R) :
    ∀ (units : List Str) (a : Str) (fuel cnt : Nat) (pa : Bool),
      S = a ++ breakBody c units ++ rest → (∀ bl ∈ units, ∀ ch ∈ bl, isBlank ch = true) →
      3 ≤ cnt + units.length → units.length < fuel → (pa = true ∨ cnt = 0) →
      K (a.length + (breakBody c units).length) caps = some r →
      repLoop (fun i c' k => (Rx.seq (.cls false [.chr c.toNat]) (.rep (.cls false [.chr 32, .chr 9]) 0 none true)).m
        (Py.ctxOf S) i c' k) 3 none true K fuel cnt pa a.length caps = some r := by
  intro units
  induction units with
  | nil =>
    intro a fuel cnt pa hS _ hcnt hf _ hK
    obtain ⟨f, rfl⟩ : ∃ f, fuel = f + 1 := ⟨fuel - 1, by omega⟩
    simp only [breakBody, List.map_nil, List.flatten_nil, List.length_nil, Nat.add_zero, List.append_nil] at hS hK hcnt
    rw [repLoop_succ_greedy]
    have hno : (Rx.seq (.cls false [.chr c.toNat]) (.rep (.cls false [.chr 32, .chr 9]) 0 none true)).m (Py.ctxOf S)
        a.length caps (fun j c' => repLoop (fun i c' k => (Rx.seq (.cls false [.chr c.toNat])
          (.rep (.cls false [.chr 32, .chr 9]) 0 none true)).m (Py.ctxOf S) i c' k) 3 none true K f (cnt + 1)
            (j != a.length) j c') = none := by
      rw [m_seq]
      simp only [Rx.m]
      rw [if_neg]
      intro h
      simp only [Bool.and_eq_true, decide_eq_true_eq] at h
      obtain ⟨ch, hch, hp⟩ := cls_at S _ (· == c) (fun ch => clsTest_chr1 pyCats c ch) _ h
      rw [hS] at hch
      rcases hrest with rfl | ⟨r', rfl⟩
      · simp at hch
      · simp only [List.getElem?_append_right (Nat.le_refl _), Nat.sub_self, List.getElem?_cons_zero,
          Option.some.injEq] at hch
        rw [← hch] at hp
        have e : '\n' = c := by simpa using hp
        exact hc2 e.symm
    simp only [hno, ite_self]
    rw [if_pos hcnt]
    exact hK
  | cons bl us ih =>
    intro a fuel cnt pa hS hbl hcnt hf hpa hK
    obtain ⟨f, rfl⟩ : ∃ f, fuel = f + 1 := ⟨fuel - 1, by simp at hf; omega⟩
    rw [repLoop_succ_greedy, canMoreB_true (by intro m hm; cases hm) hpa]
    have hS' : S = (a ++ [c]) ++ bl ++ (breakBody c us ++ rest) := by rw [hS, breakBody_cons]; simp
    have hS'' : S = (a ++ c :: bl) ++ breakBody c us ++ rest := by rw [hS, breakBody_cons]; simp
    have hrec := ih (a ++ c :: bl) f (cnt + 1) true hS'' (fun b hb => hbl b (by simp [hb]))
      (by simp only [List.length_cons] at hcnt; omega) (by simp only [List.length_cons] at hf; omega) (Or.inl rfl)
      (by rw [breakBody_cons] at hK; rw [← hK]; congr 1; simp; omega)
    have hstep : (Rx.seq (.cls false [.chr c.toNat]) (.rep (.cls false [.chr 32, .chr 9]) 0 none true)).m (Py.ctxOf S)
        a.length caps (fun j c' => repLoop (fun i c' k => (Rx.seq (.cls false [.chr c.toNat])
          (.rep (.cls false [.chr 32, .chr 9]) 0 none true)).m (Py.ctxOf S) i c' k) 3 none true K f (cnt + 1)
            (j != a.length) j c') = some r := by
      rw [m_seq]
      have hcls : a.length < (Py.ctxOf S).n ∧
          clsTest (Py.ctxOf S).t false [.chr c.toNat] ((Py.ctxOf S).chr a.length) = true := by
        refine ⟨by rw [ctxOf_n, hS]; simp [breakBody_cons], ?_⟩
        rw [ctxOf_chr, ctxOf_t, hS, breakBody_cons]
        simp [clsTest_chr1]
      simp only [Rx.m]
      rw [if_pos (by simp [hcls.1, hcls.2])]
      have := rep_greedy_list (a ++ [c]) bl (breakBody c us ++ rest) [.chr 32, .chr 9] isBlank
        (fun ch => clsTest_chr2 pyCats ' ' '\t' ch) 0 none
        (fun j c' => repLoop (fun i c' k => (Rx.seq (.cls false [.chr c.toNat])
          (.rep (.cls false [.chr 32, .chr 9]) 0 none true)).m (Py.ctxOf S) i c' k) 3 none true K f (cnt + 1)
            (j != a.length) j c') caps r (hbl bl (by simp))
        (by
          right
          cases us with
          | nil =>
            rcases hrest with rfl | ⟨r', rfl⟩
            · exact Or.inl rfl
            · exact Or.inr ⟨'\n', r', rfl, by decide⟩
          | cons b us' => exact Or.inr ⟨c, b ++ breakBody c us' ++ rest, by simp [breakBody_cons], hc1⟩)
        (by simp) (by omega)
        (by
          have e1 : (a ++ [c]).length + bl.length = (a ++ c :: bl).length := by simp; omega
          have e2 : ((a ++ c :: bl).length != a.length) = true := by simp
          rw [e1, e2]
          exact hrec)
      rw [← hS'] at this
      simp only [Rx.m, List.length_append, List.length_singleton] at this
      exact this
    simp only [hstep, if_true]

theorem breakBody_length_ge (c : Char) (units : List Str) : units.length ≤ (breakBody c units).length := by
  induction units with
  | nil => simp [breakBody]
  | cons bl us ih => rw [breakBody_cons]; simp; omega

/-- the match of the thematic-break rule on a break line that starts at `p` -/
def breakMatch (p : Nat) (ind body : Str) : RxMatch :=
  { start := p, stop := p + ind.length + body.length,
    caps := [(1, (p + ind.length, p + ind.length + body.length))] }

/-- one family at the start of the body of a break line of that family -/
theorem breakFamily_m (c : Char) (hc1 : isBlank c = false) (hc2 : c ≠ '\n') (pre ind : Str) (units : List Str)
    (rest : Str) (h : BreakLine ind units rest) :
    (breakFamily c.toNat).m (Py.ctxOf (pre ++ ind ++ breakBody c units ++ rest)) (pre.length + ind.length) []
      (fun j c' => Rx.eol.m (Py.ctxOf (pre ++ ind ++ breakBody c units ++ rest)) j
        ((1, (pre.length + ind.length, j)) :: c')
        (fun j c => some ({ start := pre.length, stop := j, caps := c } : RxMatch))) =
      some (breakMatch pre.length ind (breakBody c units)) := by
  unfold breakFamily
  simp only [Rx.m]
  have hl : (pre ++ ind).length = pre.length + ind.length := by simp
  have := breakFamily_loop c (pre ++ ind ++ breakBody c units ++ rest) rest h.rest hc1 hc2
    (fun j c' => Rx.eol.m (Py.ctxOf (pre ++ ind ++ breakBody c units ++ rest)) j
        ((1, (pre.length + ind.length, j)) :: c')
        (fun j c => some ({ start := pre.length, stop := j, caps := c } : RxMatch))) []
    (breakMatch pre.length ind (breakBody c units)) units (pre ++ ind)
    ((Py.ctxOf (pre ++ ind ++ breakBody c units ++ rest)).n + 3 + 2 - (pre.length + ind.length)) 0 false rfl
    h.units_blank (by have := h.three; omega)
    (by
      have := breakBody_length_ge c units
      rw [ctxOf_n]
      simp only [List.length_append]
      omega)
    (Or.inr rfl)
    (by
      rw [eol_after_tail (pre ++ ind) (breakBody c units) rest h.rest, hl]
      rfl)
  rw [hl] at this
  exact this

/-- another family fails at the start of the body -/
theorem breakFamily_other (c : Char) (d : Nat) (hd : c.toNat ≠ d) (pre ind : Str) (units : List Str) (rest : Str)
    (h3 : 3 ≤ units.length) {R : Type} (caps : Caps) (k : Nat → Caps → Option R) :
    (breakFamily d).m (Py.ctxOf (pre ++ ind ++ breakBody c units ++ rest)) (pre.length + ind.length) caps k = none := by
  unfold breakFamily
  apply rep_seq_cls_none
  rintro ⟨h1, h2⟩
  obtain ⟨b, us, rfl⟩ : ∃ b us, units = b :: us := by
    cases units with
    | nil => simp at h3
    | cons b us => exact ⟨b, us, rfl⟩
  rw [ctxOf_chr, breakBody_cons, show pre ++ ind ++ (c :: b ++ breakBody c us) ++ rest =
      (pre ++ ind) ++ [c] ++ (b ++ breakBody c us ++ rest) by simp,
    show pre.length + ind.length = (pre ++ ind).length + 0 by simp,
    getElem?_mid _ [c] _ 0 (by simp)] at h2
  simp only [List.getElem_cons_zero, Option.getD_some, clsTest, List.any_cons, List.any_nil, ClsItem.test,
    Bool.or_false, Bool.bne_false, beq_iff_eq] at h2
  exact hd h2.symm

/-- **The thematic-break rule fires on every break line** of the three families: at a line start, at most three
blanks, then at least three times the same character `-`, `_` or `*`, each followed by any number of blanks/tabs, then
the end of the line.  The match ends at the end of the line. -/
theorem thematicRule_matchAt_hit (c : Char) (hc : c = '-' ∨ c = '_' ∨ c = '*') (pre ind : Str) (units : List Str)
    (rest : Str) (hbol : pre = [] ∨ pre.getLast? = some '\n') (h : BreakLine ind units rest) :
    thematicRuleRx.matchAt (Py.ctxOf (pre ++ ind ++ breakBody c units ++ rest)) pre.length =
      some (breakMatch pre.length ind (breakBody c units)) := by
  have hc1 : isBlank c = false := by rcases hc with rfl | rfl | rfl <;> decide
  have hc2 : c ≠ '\n' := by rcases hc with rfl | rfl | rfl <;> decide
  have hc3 : c ≠ ' ' := by rcases hc with rfl | rfl | rfl <;> decide
  have hfam := breakFamily_m c hc1 hc2 pre ind units rest h
  generalize hS : pre ++ ind ++ breakBody c units ++ rest = S at hfam
  have hS1 : pre ++ ind ++ (breakBody c units ++ rest) = S := by rw [← hS]; simp
  unfold Rx.matchAt thematicRuleRx
  rw [m_seq, m_bol, if_pos (by rw [← hS1, List.append_assoc]; exact (bolAt_append_length _ _).mpr hbol)]
  -- group 1: the alternative of the line's family
  have hg : (Rx.seq (.grp 1 (.alt (breakFamily 45) (.alt (breakFamily 95) (breakFamily 42)))) .eol).m (Py.ctxOf S)
      (pre.length + ind.length) [] (fun j c => some ({ start := pre.length, stop := j, caps := c } : RxMatch)) =
      some (breakMatch pre.length ind (breakBody c units)) := by
    rw [m_seq, m_grp]
    rcases hc with rfl | rfl | rfl
    · exact m_alt_left hfam
    · rw [m_alt_right (by rw [← hS]; exact breakFamily_other '_' 45 (by decide) pre ind units rest h.three _ _)]
      exact m_alt_left hfam
    · rw [m_alt_right (by rw [← hS]; exact breakFamily_other '*' 45 (by decide) pre ind units rest h.three _ _),
        m_alt_right (by rw [← hS]; exact breakFamily_other '*' 95 (by decide) pre ind units rest h.three _ _)]
      exact hfam
  -- ` {0,3}`
  have h1 := rep_greedy_list pre ind (breakBody c units ++ rest) [.chr 32] (· == ' ')
    (fun ch => clsTest_chr1 pyCats ' ' ch) 0 (some 3)
    (fun j c' => (Rx.seq (.grp 1 (.alt (breakFamily 45) (.alt (breakFamily 95) (breakFamily 42)))) .eol).m (Py.ctxOf S)
      j c' (fun j c => some ({ start := pre.length, stop := j, caps := c } : RxMatch))) [] _
    (fun ch hch => by simp [h.ind_blank ch hch])
    (by
      right; right
      have h3 := h.three
      cases units with
      | nil => simp at h3
      | cons b us => exact ⟨c, b ++ breakBody c us ++ rest, by simp [breakBody_cons], by simpa using hc3⟩)
    (by intro m hm; cases hm; exact h.ind_le) (by omega) hg
  rw [hS1] at h1
  rw [m_seq]
  exact h1

/-- `parse_thematic_break` on that match: one `thematic_break` token; the cursor goes after the line's newline -/
theorem break_line_token (c : Char) (hc : c = '-' ∨ c = '_' ∨ c = '*') (st : BlockState) (pre ind : Str)
    (units : List Str) (rest : Str) (hx : st.x = Py.ctxOf (pre ++ ind ++ breakBody c units ++ rest))
    (hbol : pre = [] ∨ pre.getLast? = some '\n') (h : BreakLine ind units rest) :
    Py.matchAt thematicRuleRx st.x pre.length = some (breakMatch pre.length ind (breakBody c units)) ∧
    parseThematicBreak (breakMatch pre.length ind (breakBody c units)) st =
      .ok (some (pre.length + ind.length + (breakBody c units).length + 1),
        st.appendToken (tok "thematic_break" [])) := by
  refine ⟨?_, rfl⟩
  rw [hx, pyMatchAt_eq _ _ _ (by simp only [List.length_append]; omega)]
  exact thematicRule_matchAt_hit c hc pre ind units rest hbol h

/-! ### the thematic-break rule: what a match looks like (completeness of the description) -/

/-- the iterations of `(?:c[ \t]*)` cut the text into units -/
theorem iter_break (s : Str) (c : Char) {cnt i : Nat} {caps : Caps} {j : Nat} {caps' : Caps}
    (h : Iter (Spec (Py.ctxOf s) (.seq (.cls false [.chr c.toNat]) (.rep (.cls false [.chr 32, .chr 9]) 0 none true)))
      cnt i caps j caps') :
    ∃ units : List Str, units.length = cnt ∧ (∀ bl ∈ units, ∀ ch ∈ bl, isBlank ch = true) ∧
      s.drop i = breakBody c units ++ s.drop j := by
  induction h with
  | zero i c0 => exact ⟨[], rfl, by simp, by simp [breakBody]⟩
  | @succ n i0 j0 k0 c0 c1 c2 hs _ ih =>
    obtain ⟨units, hu1, hu2, hu3⟩ := ih
    obtain ⟨i1, c1', hcls, hrep⟩ := spec_seq.mp hs
    simp only [Spec] at hcls
    obtain ⟨h1, h2, rfl, rfl⟩ := hcls
    obtain ⟨ch, hch, hp⟩ := cls_at s _ (· == c) (fun ch => clsTest_chr1 pyCats c ch) _ ⟨h1, h2⟩
    obtain ⟨m, _, _, hit⟩ := spec_rep.mp hrep
    obtain ⟨rfl, _, hr⟩ := iter_cls hit
    obtain ⟨bl, _, hbl2, hd⟩ := run_of_forall isBlank m s (i0 + 1)
      (fun t ht => cls_at s _ _ (fun ch => clsTest_chr2 pyCats ' ' '\t' ch) _ (hr t ht))
    have hi : i0 < s.length := by rwa [ctxOf_n] at h1
    rw [List.getElem?_eq_getElem hi, Option.some.injEq] at hch
    have hc : s[i0] = c := by rw [hch]; simpa using hp
    refine ⟨bl :: units, by simp [hu1], ?_, ?_⟩
    · intro b hb
      rcases List.mem_cons.mp hb with rfl | hb
      · exact hbl2
      · exact hu2 b hb
    · rw [List.drop_eq_getElem_cons hi, hc, hd, hu3, breakBody_cons]
      simp

/-- **Only break lines fire the thematic-break rule.** -/
theorem thematicRule_matchAt_sound (s : Str) (q : Nat) (mt : RxMatch)
    (h : thematicRuleRx.matchAt (Py.ctxOf s) q = some mt) :
    bolAt s q ∧ ∃ c ind units rest, (c = '-' ∨ c = '_' ∨ c = '*') ∧ s.drop q = ind ++ breakBody c units ++ rest ∧
      BreakLine ind units rest := by
  obtain ⟨_, hs⟩ := matchAt_sound _ _ _ _ h
  unfold thematicRuleRx at hs
  obtain ⟨i0, c0, hbol, hs⟩ := spec_seq.mp hs
  obtain ⟨hb, rfl, rfl⟩ := spec_bol hbol
  obtain ⟨i1, c1, h1, hs⟩ := spec_seq.mp hs
  obtain ⟨i2, c2, hg, heol⟩ := spec_seq.mp hs
  obtain ⟨n1, _, hn1, hit1⟩ := spec_rep.mp h1
  obtain ⟨rfl, rfl, hr1⟩ := iter_cls hit1
  obtain ⟨c1', halt, _⟩ := spec_grp.mp hg
  obtain ⟨hrest, _, _⟩ := spec_eol_drop heol
  obtain ⟨ind, hind1, hind2, hd1⟩ := run_of_forall (· == ' ') n1 s i0
    (fun t ht => cls_at s _ _ (fun ch => clsTest_chr1 pyCats ' ' ch) _ (hr1 t ht))
  refine ⟨hb, ?_⟩
  have fam : ∀ (c : Char) (ca cb : Caps), Spec (Py.ctxOf s) (breakFamily c.toNat) (i0 + n1) ca i2 cb →
      ∃ units, s.drop i0 = ind ++ breakBody c units ++ s.drop i2 ∧ BreakLine ind units (s.drop i2) := by
    intro c ca cb hf
    unfold breakFamily at hf
    obtain ⟨cnt, hcnt, _, hit⟩ := spec_rep.mp hf
    obtain ⟨units, hu1, hu2, hu3⟩ := iter_break s c hit
    exact ⟨units, by rw [hd1, hu3, List.append_assoc],
      ⟨fun ch hch => by simpa using hind2 ch hch, by have := hn1 3 rfl; omega, hu2, by omega, hrest⟩⟩
  rcases spec_alt.mp halt with h45 | h2
  · obtain ⟨units, e, hl⟩ := fam '-' _ _ h45
    exact ⟨'-', ind, units, _, Or.inl rfl, e, hl⟩
  · rcases spec_alt.mp h2 with h95 | h42
    · obtain ⟨units, e, hl⟩ := fam '_' _ _ h95
      exact ⟨'_', ind, units, _, Or.inr (Or.inl rfl), e, hl⟩
    · obtain ⟨units, e, hl⟩ := fam '*' _ _ h42
      exact ⟨'*', ind, units, _, Or.inr (Or.inr rfl), e, hl⟩

/-- **The thematic-break rule, sound and complete**: `THEMATIC_BREAK.match(s, q)` succeeds iff `q` is a line start and
the text from `q` on starts with a break line of one of the three families. -/
theorem thematicRule_matchAt_iff (s : Str) (q : Nat) :
    (∃ mt, thematicRuleRx.matchAt (Py.ctxOf s) q = some mt) ↔
      bolAt s q ∧ ∃ c ind units rest, (c = '-' ∨ c = '_' ∨ c = '*') ∧ s.drop q = ind ++ breakBody c units ++ rest ∧
        BreakLine ind units rest := by
  constructor
  · rintro ⟨mt, h⟩
    exact thematicRule_matchAt_sound s q mt h
  · rintro ⟨hb, c, ind, units, rest, hc, hd, hl⟩
    have hq : q ≤ s.length := by
      rcases Nat.lt_or_ge s.length q with hlt | hge
      · exfalso
        rw [List.drop_eq_nil_of_le (by omega)] at hd
        have h3 := hl.three
        have := breakBody_length_ge c units
        have e := congrArg List.length hd
        simp only [List.length_nil, List.length_append] at e
        omega
      · exact hge
    have hs : s = s.take q ++ ind ++ breakBody c units ++ rest := by
      conv => lhs; rw [← List.take_append_drop q s, hd]
      simp
    have hlen : (s.take q).length = q := by simp [hq]
    have := thematicRule_matchAt_hit c hc (s.take q) ind units rest (by
      have hb' : bolAt (s.take q ++ s.drop q) (s.take q).length := by
        rw [List.take_append_drop, hlen]; exact hb
      exact (bolAt_append_length _ _).mp hb') hl
    rw [← hs, hlen] at this
    exact ⟨_, this⟩

/-! ### C13: the round trip through `MarkdownRenderer.heading` / `thematic_break` -/

/-- the heading texts that survive `# text`: not a run of `#` only, and a final run of `#` is glued to the text (no white
space before it).  (`b` is the text without its final run of `#`.) -/
def headingTextOk (text : Str) : Bool :=
  let b := rdropWhile isHash text
  !b.isEmpty && !(decide (b.length < text.length) && decide ((rdropWhile isSpace b).length < b.length))

/-- **characterisation**: `_ATX_HEADING_TRIM.sub("", t)` leaves a non-empty `t` alone exactly when `headingTextOk t` -/
theorem atxCore_fixed_iff (t : Str) (hne : t ≠ []) : atxCore t = t ↔ headingTextOk t = true := by
  unfold atxCore headingTextOk
  simp only
  by_cases hb : (rdropWhile isHash t).isEmpty = true
  · rw [if_pos hb, hb]
    simp only [Bool.not_true, Bool.false_and]
    exact ⟨fun h => absurd h.symm hne, fun h => by cases h⟩
  · rw [if_neg hb]
    simp only [Bool.not_eq_true] at hb
    rw [hb]
    simp only [Bool.not_false, Bool.true_and]
    by_cases hc : (decide ((rdropWhile isHash t).length < t.length) &&
        decide ((rdropWhile isSpace (rdropWhile isHash t)).length < (rdropWhile isHash t).length)) = true
    · rw [if_pos hc, hc]
      simp only [Bool.not_true]
      refine ⟨fun h => ?_, fun h => by cases h⟩
      exfalso
      simp only [Bool.and_eq_true, decide_eq_true_eq] at hc
      have := congrArg List.length h
      omega
    · rw [if_neg hc]
      simp only [Bool.not_eq_true] at hc
      rw [hc]
      simp

/-- a text without white space at its ends, written after `"# "`: the handler's text computation is `atxCore text` -/
theorem atxSpec_blank (text : Str) (hstrip : Py.strip text = text) : atxSpec (' ' :: text) = atxCore text := by
  obtain ⟨hh, hl⟩ := (strip_eq_self_iff text).mp hstrip
  have := strip_pad [' '] text [] (by decide) (by simp) hh hl
  rw [atxSpec_eq_core]
  simp only [List.append_nil, List.singleton_append] at this
  rw [this]

/-- **which heading texts come back**: for a non-empty text without white space at its ends (`text.strip() == text`,
Unicode white space), `parse_atx_heading` recovers `text` from `"# " + text` iff `headingTextOk text` -/
theorem atxSpec_blank_fixed_iff (text : Str) (hne : text ≠ []) (hstrip : Py.strip text = text) :
    atxSpec (' ' :: text) = text ↔ headingTextOk text = true := by
  rw [atxSpec_blank text hstrip]
  exact atxCore_fixed_iff text hne

/-- in particular every such text that does not end with `#` -/
theorem headingTextOk_of_last (text : Str) (hne : text ≠ []) (hstrip : Py.strip text = text)
    (hlast : text.getLast? ≠ some '#') : headingTextOk text = true := by
  rw [← atxSpec_blank_fixed_iff text hne hstrip, ← atxText_eq atxCfg rfl]
  have := atx_plain_verbatim atxCfg rfl [' '] text [] hne hstrip hlast (by decide) (by simp)
  simpa using this

theorem mdHeading_eq (level : Nat) (text : Str) :
    mdHeading level text = [] ++ List.replicate level '#' ++ (' ' :: text) ++ '\n' :: ['\n'] := by
  simp [mdHeading]

/-- what `MarkdownRenderer.heading` writes is a heading line -/
theorem mdHeading_line (level : Nat) (text post : Str) (h1 : 1 ≤ level) (h6 : level ≤ 6) (hnl : '\n' ∉ text) :
    AtxLine [] (List.replicate level '#') (' ' :: text) ('\n' :: '\n' :: post) where
  ind_blank := by simp
  ind_le := by simp
  hashes_hash := fun ch hch => List.eq_of_mem_replicate hch
  hashes_pos := by simpa using h1
  hashes_le := by simpa using h6
  tail := ⟨Or.inr ⟨' ', text, rfl, rfl⟩, by
    intro h
    rcases List.mem_cons.mp h with h | h
    · cases h
    · exact hnl h, Or.inr ⟨_, rfl⟩⟩

/-- **Round trip of a heading.**  For every level `1..6` and every text that is non-empty, lies within one line, has no
(Unicode) white space at its ends and satisfies `headingTextOk` (see `atxSpec_blank_fixed_iff`: this is necessary): in a
subject in which the text written by `MarkdownRenderer.heading` starts at a line start, the ATX rule matches at its start,
`parse_atx_heading` appends a `heading` token with exactly that level and that text, and the returned cursor is the
start of the blank line the renderer wrote (whatever follows). -/
theorem md_heading_roundtrip (cfg : MdCfg) (hnamed : cfg.named = namedRx) (hgroups : cfg.groups = groupIndex)
    (st : BlockState) (pre post text : Str) (level : Nat)
    (hx : st.x = Py.ctxOf (pre ++ mdHeading level text ++ post))
    (hbol : pre = [] ∨ pre.getLast? = some '\n') (h1 : 1 ≤ level) (h6 : level ≤ 6)
    (hne : text ≠ []) (hnl : '\n' ∉ text) (hstrip : Py.strip text = text) (hok : headingTextOk text = true) :
    ∃ mt cursor, Py.matchAt atxRuleRx st.x pre.length = some mt ∧
      parseAtxHeading cfg mt st = .ok (some cursor, st.appendToken (atxToken text level)) ∧
      cursor = pre.length + level + 1 + text.length + 1 ∧
      (pre ++ mdHeading level text ++ post).drop cursor = '\n' :: post ∧
      bolAt (pre ++ mdHeading level text ++ post) cursor := by
  have hS : pre ++ mdHeading level text ++ post =
      pre ++ [] ++ List.replicate level '#' ++ (' ' :: text) ++ ('\n' :: '\n' :: post) := by
    rw [mdHeading_eq]; simp
  obtain ⟨hm, hp⟩ := atx_line_token cfg hnamed hgroups st pre [] (List.replicate level '#') (' ' :: text)
    ('\n' :: '\n' :: post) (by rw [hx, hS]) hbol (mdHeading_line level text post h1 h6 hnl)
  rw [(atxSpec_blank_fixed_iff text hne hstrip).mpr hok] at hp
  simp only [List.length_nil, List.length_replicate, List.length_cons, Nat.add_zero] at hp
  refine ⟨_, _, hm, hp, by omega, ?_, ?_⟩
  · have e : pre ++ mdHeading level text ++ post =
        (pre ++ List.replicate level '#' ++ ' ' :: text ++ ['\n']) ++ '\n' :: post := by rw [hS]; simp
    rw [e]
    have hl : (pre ++ List.replicate level '#' ++ ' ' :: text ++ ['\n']).length =
        pre.length + level + (text.length + 1) + 1 := by simp; omega
    rw [← hl, List.drop_left]
  · have e : pre ++ mdHeading level text ++ post =
        (pre ++ List.replicate level '#' ++ ' ' :: text ++ ['\n']) ++ '\n' :: post := by rw [hS]; simp
    have hl : (pre ++ List.replicate level '#' ++ ' ' :: text ++ ['\n']).length =
        pre.length + level + (text.length + 1) + 1 := by simp; omega
    rw [e, ← hl]
    exact (bolAt_append_length _ _).mpr (Or.inr (by
      generalize pre ++ List.replicate level '#' ++ ' ' :: text = A
      simp))

theorem mdThematicBreak_eq : mdThematicBreak = [] ++ breakBody '*' [[], [], []] ++ '\n' :: ['\n'] := rfl

/-- **Round trip of a thematic break.**  In a subject in which the text written by `MarkdownRenderer.thematic_break`
starts at a line start, the thematic-break rule matches at its start, `parse_thematic_break` appends a `thematic_break`
token, and the returned cursor is the start of the blank line the renderer wrote. -/
theorem md_thematic_break_roundtrip (st : BlockState) (pre post : Str)
    (hx : st.x = Py.ctxOf (pre ++ mdThematicBreak ++ post)) (hbol : pre = [] ∨ pre.getLast? = some '\n') :
    ∃ mt cursor, Py.matchAt thematicRuleRx st.x pre.length = some mt ∧
      parseThematicBreak mt st = .ok (some cursor, st.appendToken (tok "thematic_break" [])) ∧
      cursor = pre.length + 4 ∧
      (pre ++ mdThematicBreak ++ post).drop cursor = '\n' :: post ∧ bolAt (pre ++ mdThematicBreak ++ post) cursor := by
  have hS : pre ++ mdThematicBreak ++ post = pre ++ [] ++ breakBody '*' [[], [], []] ++ ('\n' :: '\n' :: post) := by
    rw [mdThematicBreak_eq]; simp
  obtain ⟨hm, hp⟩ := break_line_token '*' (Or.inr (Or.inr rfl)) st pre [] [[], [], []] ('\n' :: '\n' :: post)
    (by rw [hx, hS]) hbol ⟨by simp, by simp, by simp, by simp, Or.inr ⟨_, rfl⟩⟩
  have e : pre ++ mdThematicBreak ++ post = (pre ++ ['*', '*', '*', '\n']) ++ '\n' :: post := by
    simp [mdThematicBreak]
  have hl : (pre ++ ['*', '*', '*', '\n']).length = pre.length + 4 := by simp
  refine ⟨_, _, hm, hp, rfl, ?_, ?_⟩
  · show List.drop (pre.length + 4) _ = _
    rw [e, ← hl, List.drop_left]
  · show bolAt _ (pre.length + 4)
    rw [e, ← hl]
    exact (bolAt_append_length _ _).mpr (Or.inr (by simp))

/-! ### the ATX rule, decided: a match exists iff the line passes `atxLineOk` -/

/-- the shape test on the text from the line start on: the maximal run of blanks has at most three characters, the
maximal run of `#` after it one to six, and what follows is the end of the text, a newline, a blank or a tab -/
def atxTailOk : Str → Bool
  | [] => true
  | ch :: _ => isBlank ch || ch == '\n'

def atxLineOk (l : Str) : Bool :=
  let ind := l.takeWhile (· == ' ')
  let r1 := l.dropWhile (· == ' ')
  let hs := r1.takeWhile isHash
  let r2 := r1.dropWhile isHash
  decide (ind.length ≤ 3) && decide (1 ≤ hs.length) && decide (hs.length ≤ 6) && atxTailOk r2

/-- the runs computed by `atxLineOk` on `ind ++ hashes ++ more`, when `more` does not start with `#` -/
theorem atxLineOk_runs (ind hashes more : Str) (hind : ∀ ch ∈ ind, ch = ' ') (hhs : ∀ ch ∈ hashes, ch = '#')
    (hmore : ∀ ch r, more = ch :: r → isHash ch = false) (hsp : hashes = [] → ∀ ch r, more = ch :: r → ch ≠ ' ') :
    atxLineOk (ind ++ hashes ++ more) =
      (decide (ind.length ≤ 3) && decide (1 ≤ hashes.length) && decide (hashes.length ≤ 6) && atxTailOk more) := by
  have hind' : ∀ ch ∈ ind, (ch == ' ') = true := fun ch hch => by simp [hind ch hch]
  have hhs' : ∀ ch ∈ hashes, isHash ch = true := fun ch hch => by simp [isHash, hhs ch hch]
  have hnext : ∀ ch r, hashes ++ more = ch :: r → (ch == ' ') = false := by
    intro ch r e
    cases hashes with
    | nil => simpa using hsp rfl ch r e
    | cons x hs' =>
      simp only [List.cons_append, List.cons.injEq] at e
      rw [← e.1, hhs x (by simp)]; decide
  have h1 : (ind ++ hashes ++ more).takeWhile (· == ' ') = ind := by
    rw [List.append_assoc, List.takeWhile_append_of_pos hind', takeWhile_nil_of_head hnext, List.append_nil]
  have h2 : (ind ++ hashes ++ more).dropWhile (· == ' ') = hashes ++ more := by
    rw [List.append_assoc, List.dropWhile_append_of_pos hind', dropWhile_id_of_head hnext]
  have h3 : (hashes ++ more).takeWhile isHash = hashes := by
    rw [List.takeWhile_append_of_pos hhs', takeWhile_nil_of_head hmore, List.append_nil]
  have h4 : (hashes ++ more).dropWhile isHash = more := by
    rw [List.dropWhile_append_of_pos hhs', dropWhile_id_of_head hmore]
  simp only [atxLineOk, h1, h2, h3, h4]

theorem atxLineOk_of_line (ind hashes tail rest : Str) (h : AtxLine ind hashes tail rest) :
    atxLineOk (ind ++ hashes ++ tail ++ rest) = true := by
  have hne : hashes ≠ [] := by
    intro e; have := h.hashes_pos; rw [e] at this; simp at this
  rw [List.append_assoc, atxLineOk_runs ind hashes (tail ++ rest) h.ind_blank h.hashes_hash (by
    intro ch r e
    rcases h.tail.head_not_hash with h0 | ⟨ch', r', h0, hne'⟩
    · rw [h0] at e; cases e
    · rw [h0] at e
      injection e with e1 _
      rw [← e1]; exact hne') (fun e => absurd e hne)]
  simp only [h.ind_le, h.hashes_pos, h.hashes_le, decide_true, Bool.true_and]
  rcases h.tail.head with rfl | ⟨b, t', rfl, hb⟩
  · rcases h.tail.rest with rfl | ⟨r', rfl⟩
    · rfl
    · rfl
  · simp [atxTailOk, hb]

theorem line_of_atxLineOk (l : Str) (h : atxLineOk l = true) :
    ∃ ind hashes tail rest, l = ind ++ hashes ++ tail ++ rest ∧ AtxLine ind hashes tail rest := by
  simp only [atxLineOk, Bool.and_eq_true, decide_eq_true_eq] at h
  obtain ⟨⟨⟨h1, h2⟩, h3⟩, h4⟩ := h
  obtain ⟨tl, htl, htl'⟩ := firstLine_spec ((l.dropWhile (· == ' ')).dropWhile isHash)
  refine ⟨l.takeWhile (· == ' '), (l.dropWhile (· == ' ')).takeWhile isHash,
    firstLine ((l.dropWhile (· == ' ')).dropWhile isHash), tl, ?_, ?_⟩
  · rw [List.append_assoc, ← htl, List.append_assoc, List.takeWhile_append_dropWhile,
      List.takeWhile_append_dropWhile]
  · refine ⟨fun ch hch => by simpa using mem_takeWhile_pos hch, h1,
      fun ch hch => by simpa [isHash] using mem_takeWhile_pos hch, h2, h3, ?_, firstLine_no_nl _, htl'⟩
    generalize (l.dropWhile (· == ' ')).dropWhile isHash = r2 at h4
    cases r2 with
    | nil => left; rfl
    | cons ch r' =>
      simp only [atxTailOk, Bool.or_eq_true, beq_iff_eq] at h4
      rcases h4 with h4 | h4
      · right
        exact ⟨ch, firstLine r', firstLine_cons ch r' (isBlank_ne_nl h4), h4⟩
      · left; rw [h4]; exact firstLine_nl r'

/-- **The ATX rule, sound and complete**: `ATX_HEADING.match(s, q)` succeeds iff `q` is a line start and the text from
`q` on passes the shape test (what the match is: `atxRule_matchAt_hit`). -/
theorem atxRule_matchAt_iff (s : Str) (q : Nat) :
    (∃ mt, atxRuleRx.matchAt (Py.ctxOf s) q = some mt) ↔ bolAt s q ∧ atxLineOk (s.drop q) = true := by
  constructor
  · rintro ⟨mt, h⟩
    obtain ⟨hb, ind, hashes, tail, rest, hd, hl⟩ := atxRule_matchAt_sound s q mt h
    exact ⟨hb, by rw [hd]; exact atxLineOk_of_line ind hashes tail rest hl⟩
  · rintro ⟨hb, hok⟩
    obtain ⟨ind, hashes, tail, rest, hd, hl⟩ := line_of_atxLineOk _ hok
    have hq : q ≤ s.length := by
      rcases Nat.lt_or_ge s.length q with hlt | hge
      · exfalso
        rw [List.drop_eq_nil_of_le (by omega)] at hd
        have := hl.hashes_pos
        have e := congrArg List.length hd
        simp only [List.length_nil, List.length_append] at e
        omega
      · exact hge
    have hs : s = s.take q ++ ind ++ hashes ++ tail ++ rest := by
      conv => lhs; rw [← List.take_append_drop q s, hd]
      simp
    have hlen : (s.take q).length = q := by simp [hq]
    have := atxRule_matchAt_hit (s.take q) ind hashes tail rest (by
      have hb' : bolAt (s.take q ++ s.drop q) (s.take q).length := by
        rw [List.take_append_drop, hlen]; exact hb
      exact (bolAt_append_length _ _).mp hb') hl
    rw [← hs, hlen] at this
    exact ⟨_, this⟩

theorem atxRule_matchAt_none (s : Str) (q : Nat) (h : ¬ bolAt s q ∨ atxLineOk (s.drop q) = false) :
    atxRuleRx.matchAt (Py.ctxOf s) q = none := by
  cases hm : atxRuleRx.matchAt (Py.ctxOf s) q with
  | none => rfl
  | some mt =>
    exfalso
    obtain ⟨hb, hok⟩ := (atxRule_matchAt_iff s q).mp ⟨mt, hm⟩
    rcases h with h | h
    · exact h hb
    · rw [hok] at h; cases h

/-- **no heading with seven or more `#`** (whatever follows) -/
theorem atxRule_none_seven (pre ind hashes more : Str) (hind : ∀ ch ∈ ind, ch = ' ') (hhs : ∀ ch ∈ hashes, ch = '#')
    (h7 : 7 ≤ hashes.length) : atxRuleRx.matchAt (Py.ctxOf (pre ++ ind ++ hashes ++ more)) pre.length = none := by
  apply atxRule_matchAt_none
  right
  rw [List.append_assoc, List.append_assoc, List.drop_left]
  -- move the `#`s at the start of `more` into the run
  have hsplit : more.takeWhile isHash ++ more.dropWhile isHash = more := List.takeWhile_append_dropWhile
  rw [← hsplit, ← List.append_assoc hashes, ← List.append_assoc ind,
    atxLineOk_runs ind (hashes ++ more.takeWhile isHash) (more.dropWhile isHash) hind
      (by
        intro ch hch
        rcases List.mem_append.mp hch with h | h
        · exact hhs ch h
        · simpa [isHash] using mem_takeWhile_pos h)
      (fun ch r e => head?_dropWhile_ne isHash more ch (by rw [e]; rfl))
      (by
        intro e
        have := congrArg List.length e
        simp only [List.length_append, List.length_nil] at this
        omega)]
  have : ¬ (hashes ++ more.takeWhile isHash).length ≤ 6 := by simp only [List.length_append]; omega
  rw [decide_eq_false this]
  simp

/-- **no heading when the run of `#` is glued to the text**: the character after the `#`s is neither a blank, a tab, a
newline (nor a further `#`) -/
theorem atxRule_none_glued (pre ind hashes : Str) (ch : Char) (more : Str) (hind : ∀ ch ∈ ind, ch = ' ')
    (hhs : ∀ ch ∈ hashes, ch = '#') (h1 : isBlank ch = false) (h2 : ch ≠ '\n') (h3 : ch ≠ '#') :
    atxRuleRx.matchAt (Py.ctxOf (pre ++ ind ++ hashes ++ ch :: more)) pre.length = none := by
  apply atxRule_matchAt_none
  right
  rw [List.append_assoc, List.append_assoc, List.drop_left, ← List.append_assoc,
    atxLineOk_runs ind hashes (ch :: more) hind hhs
      (by intro c r e; injection e with e1 _; rw [← e1]; simpa [isHash] using h3)
      (by
        intro _ c r e; injection e with e1 _; rw [← e1]
        intro e2; rw [e2] at h1; revert h1; decide)]
  have : (ch == '\n') = false := by simpa using h2
  simp [atxTailOk, h1, this]

example : atxRuleRx.matchAt (Py.ctxOf ("a\n".toList ++ " ".toList ++ "#######".toList ++ " x".toList)) 2 = none :=
  atxRule_none_seven "a\n".toList " ".toList "#######".toList " x".toList (by decide) (by decide) (by decide)

example : atxRuleRx.matchAt (Py.ctxOf ("a\n".toList ++ [] ++ "##".toList ++ 'x' :: " y".toList)) 2 = none :=
  atxRule_none_glued "a\n".toList [] "##".toList 'x' " y".toList (by decide) (by decide) (by decide) (by decide)
    (by decide)

example : atxLineOk "## foo\nbar".toList = true ∧ atxLineOk "#foo".toList = false ∧ atxLineOk "    # foo".toList = false ∧
    atxLineOk "####### foo".toList = false ∧ atxLineOk "#".toList = true ∧ atxLineOk "#\t".toList = true := by decide

/-! ### one iteration of `BlockParser.parse` on a heading line / a break line

The rules tried before `atx_heading` (`fenced_code`, `indent_code`) and before `thematic_break` (those, `atx_heading`,
`setex_heading`) do not match at the start of such a line, so the combined scanner reports the rule at the cursor and
the loop of `BlockParser.parse` calls the handler and moves the cursor behind the line. -/

/-- `^( {0,3})(`{3,}|~{3,})[ \t]*(.*?)$` with `re.M` (named groups `fenced_1..3`) -/
def fencedRuleRx : Rx :=
  .seq .bol (.seq (.grp 1 (.rep (.cls false [.chr 32]) 0 (some 3) true))
    (.seq (.grp 2 (.alt (.rep (.cls false [.chr 96]) 3 none true) (.rep (.cls false [.chr 126]) 3 none true)))
      (.seq (.rep (.cls false [.chr 32, .chr 9]) 0 none true) (.seq (.grp 3 (.rep (.any false) 0 none false)) .eol))))

/-- the start of `INDENT_CODE`: `^(?: {4}| *\t)`; the rest of the pattern is irrelevant here -/
def indentRuleHead : Rx :=
  .alt (.rep (.cls false [.chr 32]) 4 (some 4) true) (.seq (.rep (.cls false [.chr 32]) 0 none true) (.cls false [.chr 9]))

/-- `^ {0,3}(=|-)+[ \t]*$` with `re.M` -/
def setexRuleRx : Rx :=
  .seq .bol (.seq (.rep (.cls false [.chr 32]) 0 (some 3) true)
    (.seq (.rep (.grp 1 (.cls false [.chr 61, .chr 45])) 1 none true)
      (.seq (.rep (.cls false [.chr 32, .chr 9]) 0 none true) .eol)))

/-- `re.compile` output for `INDENT_CODE` begins with `^` and the head above -/
def indentRuleOk (r : Rx) : Bool :=
  match r with
  | .seq .bol (.seq h _) => h == indentRuleHead
  | _ => false

/-- **Obligations** on the regenerated `block.specification` of every configuration. -/
theorem fencedRule_lookup : ∀ c ∈ allCfgs, c.blockSpec.lookup "fenced_code" = some fencedRuleRx := by decide +kernel

theorem setexRule_lookup : ∀ c ∈ allCfgs, c.blockSpec.lookup "setex_heading" = some setexRuleRx := by decide +kernel

theorem indentRule_lookup : ∀ c ∈ allCfgs, (c.blockSpec.lookup "indent_code").any indentRuleOk = true := by
  decide +kernel

/-- on `pre ++ ind ++ g :: more` (`ind` blanks, `g` not a blank): a run of `n` blanks from the line start stays within
`ind`, and the character after it is a blank or `g` -/
theorem blanks_then (pre ind : Str) (g : Char) (more : Str) (hind : ∀ ch ∈ ind, ch = ' ') (hg : g ≠ ' ') (n : Nat)
    (hrun : ∀ t, t < n → pre.length + t < (Py.ctxOf (pre ++ ind ++ g :: more)).n ∧
      clsTest (Py.ctxOf (pre ++ ind ++ g :: more)).t false [.chr 32] ((Py.ctxOf (pre ++ ind ++ g :: more)).chr (pre.length + t)) = true) :
    n ≤ ind.length ∧ ((pre ++ ind ++ g :: more)[pre.length + n]? = some ' ' ∨
      (pre ++ ind ++ g :: more)[pre.length + n]? = some g) := by
  have hle : n ≤ ind.length := by
    rcases Nat.lt_or_ge ind.length n with hlt | hge
    · exfalso
      obtain ⟨ch, hch, hp⟩ := cls_at _ _ (· == ' ') (fun ch => clsTest_chr1 pyCats ' ' ch) _ (hrun ind.length hlt)
      rw [getElem?_after] at hch
      simp only [List.head?_cons, Option.some.injEq] at hch
      rw [← hch] at hp
      exact hg (by simpa using hp)
    · exact hge
  refine ⟨hle, ?_⟩
  rcases Nat.lt_or_ge n ind.length with hlt | hge
  · left
    rw [getElem?_mid _ _ _ _ hlt, hind _ (List.getElem_mem hlt)]
  · right
    rw [show n = ind.length by omega, getElem?_after]; rfl

theorem cls1_at_char (S : Str) (i : Nat) (d : Char) (a : Char)
    (h : i < (Py.ctxOf S).n ∧ clsTest (Py.ctxOf S).t false [.chr d.toNat] ((Py.ctxOf S).chr i) = true)
    (ha : S[i]? = some a) : a = d := by
  obtain ⟨ch, hch, hp⟩ := cls_at S _ (· == d) (fun ch => clsTest_chr1 pyCats d ch) _ h
  rw [ha, Option.some.injEq] at hch
  rw [hch]; simpa using hp

/-- `fenced_code` does not match where the first non-blank character is neither a back-tick nor a tilde -/
theorem fencedRule_none (pre ind : Str) (g : Char) (more : Str) (hind : ∀ ch ∈ ind, ch = ' ')
    (hg : g ≠ ' ') (hg1 : g ≠ '`') (hg2 : g ≠ '~') :
    fencedRuleRx.matchAt (Py.ctxOf (pre ++ ind ++ g :: more)) pre.length = none := by
  cases hm : fencedRuleRx.matchAt (Py.ctxOf (pre ++ ind ++ g :: more)) pre.length with
  | none => rfl
  | some mt =>
    exfalso
    obtain ⟨_, hs⟩ := matchAt_sound _ _ _ _ hm
    unfold fencedRuleRx at hs
    obtain ⟨i0, c0, hbol, hs⟩ := spec_seq.mp hs
    obtain ⟨_, rfl, rfl⟩ := spec_bol hbol
    obtain ⟨i1, c1, hg1', hs⟩ := spec_seq.mp hs
    obtain ⟨i2, c2, hg2', _⟩ := spec_seq.mp hs
    obtain ⟨_, h1, _⟩ := spec_grp.mp hg1'
    obtain ⟨n1, _, _, hit1⟩ := spec_rep.mp h1
    obtain ⟨rfl, _, hr1⟩ := iter_cls hit1
    obtain ⟨hn, hnext⟩ := blanks_then pre ind g more hind hg n1 hr1
    obtain ⟨_, halt, _⟩ := spec_grp.mp hg2'
    have key : ∀ d : Char, d ≠ ' ' → d ≠ g → ∀ (ca : Caps) (j : Nat) (cb : Caps),
        Spec (Py.ctxOf (pre ++ ind ++ g :: more)) (.rep (.cls false [.chr d.toNat]) 3 none true) (pre.length + n1) ca j cb →
        False := by
      intro d hd1 hd2 ca j cb hsp
      obtain ⟨cnt, hcnt, _, hit⟩ := spec_rep.mp hsp
      obtain ⟨_, _, hr⟩ := iter_cls hit
      have h0 := hr 0 (by omega)
      rw [Nat.add_zero] at h0
      rcases hnext with e | e
      · exact hd1 (cls1_at_char _ _ d ' ' h0 e).symm
      · exact hd2 (cls1_at_char _ _ d g h0 e).symm
    rcases spec_alt.mp halt with h | h
    · exact key '`' (by decide) hg1.symm _ _ _ h
    · exact key '~' (by decide) hg2.symm _ _ _ h

/-- `indent_code` does not match at a line with at most three blanks before a character that is neither blank nor tab -/
theorem indentRule_none (r : Rx) (hr : indentRuleOk r = true) (pre ind : Str) (g : Char) (more : Str)
    (hind : ∀ ch ∈ ind, ch = ' ') (hind3 : ind.length ≤ 3) (hg : g ≠ ' ') (hg1 : g ≠ '\t') :
    r.matchAt (Py.ctxOf (pre ++ ind ++ g :: more)) pre.length = none := by
  cases hm : r.matchAt (Py.ctxOf (pre ++ ind ++ g :: more)) pre.length with
  | none => rfl
  | some mt =>
    exfalso
    obtain ⟨_, hs⟩ := matchAt_sound _ _ _ _ hm
    obtain ⟨hd, tl, rfl, hhd⟩ : ∃ hd tl, r = .seq .bol (.seq hd tl) ∧ hd = indentRuleHead := by
      unfold indentRuleOk at hr
      split at hr
      · exact ⟨_, _, rfl, by simpa using hr⟩
      · cases hr
    subst hhd
    obtain ⟨i0, c0, hbol, hs⟩ := spec_seq.mp hs
    obtain ⟨_, rfl, rfl⟩ := spec_bol hbol
    obtain ⟨i1, c1, hh, _⟩ := spec_seq.mp hs
    unfold indentRuleHead at hh
    rcases spec_alt.mp hh with hA | hB
    · obtain ⟨cnt, hcnt, _, hit⟩ := spec_rep.mp hA
      obtain ⟨_, _, hr4⟩ := iter_cls hit
      have := (blanks_then pre ind g more hind hg 4 (fun t ht => hr4 t (by omega))).1
      omega
    · obtain ⟨i2, c2, hB1, hB2⟩ := spec_seq.mp hB
      obtain ⟨n, _, _, hit⟩ := spec_rep.mp hB1
      obtain ⟨rfl, _, hrn⟩ := iter_cls hit
      obtain ⟨_, hnext⟩ := blanks_then pre ind g more hind hg n hrn
      simp only [Spec] at hB2
      rcases hnext with e | e
      · exact absurd (cls1_at_char _ _ '\t' ' ' ⟨hB2.1, hB2.2.1⟩ e) (by decide)
      · exact hg1 (cls1_at_char _ _ '\t' g ⟨hB2.1, hB2.2.1⟩ e)

/-- `setex_heading` does not match where the first non-blank character is neither `=` nor `-` -/
theorem setexRule_none (pre ind : Str) (g : Char) (more : Str) (hind : ∀ ch ∈ ind, ch = ' ')
    (hg : g ≠ ' ') (hg1 : g ≠ '=') (hg2 : g ≠ '-') :
    setexRuleRx.matchAt (Py.ctxOf (pre ++ ind ++ g :: more)) pre.length = none := by
  cases hm : setexRuleRx.matchAt (Py.ctxOf (pre ++ ind ++ g :: more)) pre.length with
  | none => rfl
  | some mt =>
    exfalso
    obtain ⟨_, hs⟩ := matchAt_sound _ _ _ _ hm
    unfold setexRuleRx at hs
    obtain ⟨i0, c0, hbol, hs⟩ := spec_seq.mp hs
    obtain ⟨_, rfl, rfl⟩ := spec_bol hbol
    obtain ⟨i1, c1, h1, hs⟩ := spec_seq.mp hs
    obtain ⟨i2, c2, h2, _⟩ := spec_seq.mp hs
    obtain ⟨n1, _, _, hit1⟩ := spec_rep.mp h1
    obtain ⟨rfl, _, hr1⟩ := iter_cls hit1
    obtain ⟨_, hnext⟩ := blanks_then pre ind g more hind hg n1 hr1
    obtain ⟨cnt, hcnt, _, hit⟩ := spec_rep.mp h2
    obtain ⟨n, rfl⟩ : ∃ n, cnt = n + 1 := ⟨cnt - 1, by omega⟩
    cases hit with
    | succ hs1 _ =>
      obtain ⟨_, hcls, _⟩ := spec_grp.mp hs1
      simp only [Spec] at hcls
      obtain ⟨ch, hch, hp⟩ := cls_at _ _ (fun ch => ch == '=' || ch == '-') (fun ch => clsTest_chr2 pyCats '=' '-' ch) _
        ⟨hcls.1, hcls.2.1⟩
      simp only [Bool.or_eq_true, beq_iff_eq] at hp
      rcases hnext with e | e
      · rw [e, Option.some.injEq] at hch
        rw [← hch] at hp
        revert hp; decide
      · rw [e, Option.some.injEq] at hch
        rw [← hch] at hp
        rcases hp with hp | hp
        · exact hg1 hp
        · exact hg2 hp

theorem scan_of_scanAt (x : RxCtx) (rules : List (String × Rx)) (pos : Nat) (r : String × RxMatch) (hp : pos ≤ x.n)
    (h : scanAt x rules pos = some r) : scan x rules pos = some r := by
  unfold scan
  obtain ⟨k, hk⟩ : ∃ k, x.n + 2 - pos = k + 1 := ⟨x.n + 1 - pos, by omega⟩
  rw [hk, scanFrom, if_neg (by omega), h]

/-- one iteration of the `while` loop of `BlockParser.parse` in which the scanner reports a rule AT the cursor and the
handler returns a non-zero position -/
theorem parseLoop_step (cfg : MdCfg) (pm : ParseMethod) (sc : List (String × Rx)) (fuel : Nat) (st : BlockState)
    (name : String) (m : RxMatch) (e : Nat) (st' : BlockState)
    (hcur : st.cursor < st.cursorMax) (hscan : scan st.x sc st.cursor = some (name, m)) (hstart : m.start = st.cursor)
    (hpm : pm name m st = .ok (some (e + 1), st')) :
    parseLoop cfg pm sc (fuel + 1) st = parseLoop cfg pm sc fuel { st' with cursor := e + 1 } := by
  rw [parseLoop, if_pos hcur, hscan]
  simp only [hstart, Nat.lt_irrefl, if_false]
  simp [hpm, truthyPos, bind, Except.bind, pure, Except.pure]

/-- the rules tried before `atx_heading` -/
def IsAtxPrefix (sc : List (String × Rx)) : Prop :=
  ∃ rIndent more, indentRuleOk rIndent = true ∧
    sc = ("fenced_code", fencedRuleRx) :: ("indent_code", rIndent) :: ("atx_heading", atxRuleRx) :: more

/-- the rules tried before `thematic_break` -/
def IsBreakPrefix (sc : List (String × Rx)) : Prop :=
  ∃ rIndent more, indentRuleOk rIndent = true ∧
    sc = ("fenced_code", fencedRuleRx) :: ("indent_code", rIndent) :: ("atx_heading", atxRuleRx) ::
      ("setex_heading", setexRuleRx) :: ("thematic_break", thematicRuleRx) :: more

/-- the compiled rule list of `BlockParser.parse(state)` (`rules = None`) starts with these five rules -/
def scPrefixOk (c : RuleCfg) : Bool :=
  match compileSc (ofRuleCfg c) (ofRuleCfg c).blockRules with
  | .ok (("fenced_code", r1) :: ("indent_code", r2) :: ("atx_heading", r3) :: ("setex_heading", r4) ::
      ("thematic_break", r5) :: _) =>
    r1 == fencedRuleRx && indentRuleOk r2 && r3 == atxRuleRx && r4 == setexRuleRx && r5 == thematicRuleRx
  | _ => false

/-- **Obligation:** in every regenerated configuration except `all-fenced-colon` (where `fenced_directive` comes first)
the block rules start with `fenced_code, indent_code, atx_heading, setex_heading, thematic_break`. -/
theorem blockRules_prefix : ∀ c ∈ allCfgs, c.name = "all-fenced-colon" ∨ scPrefixOk c = true := by decide +kernel

theorem prefixes_of_ok (c : RuleCfg) (h : scPrefixOk c = true) :
    ∃ sc, compileSc (ofRuleCfg c) (ofRuleCfg c).blockRules = .ok sc ∧ IsAtxPrefix sc ∧ IsBreakPrefix sc := by
  unfold scPrefixOk at h
  split at h
  · rename_i r1 r2 r3 r4 r5 more heq
    simp only [Bool.and_eq_true, beq_iff_eq] at h
    obtain ⟨⟨⟨⟨rfl, h2⟩, rfl⟩, rfl⟩, rfl⟩ := h
    exact ⟨_, heq, ⟨r2, _, h2, rfl⟩, ⟨r2, _, h2, rfl⟩⟩
  · cases h

/-- **`BlockParser.parse` on a heading line.**  With the cursor at the start of a heading line, one iteration of the
loop appends the `heading` token (`level = len(hashes)`, `text = atxSpec tail`) and moves the cursor behind the line's
newline. -/
theorem atx_line_step (cfg : MdCfg) (hnamed : cfg.named = namedRx) (hgroups : cfg.groups = groupIndex)
    (sc : List (String × Rx)) (hsc : IsAtxPrefix sc) (pmFuel fuel : Nat) (st : BlockState)
    (pre ind hashes tail rest : Str) (hx : st.x = Py.ctxOf (pre ++ ind ++ hashes ++ tail ++ rest))
    (hcur : st.cursor = pre.length) (hmax : st.cursorMax = (pre ++ ind ++ hashes ++ tail ++ rest).length)
    (hbol : pre = [] ∨ pre.getLast? = some '\n') (h : AtxLine ind hashes tail rest) :
    parseLoop cfg (parseMethod cfg (pmFuel + 1)) sc (fuel + 1) st =
      parseLoop cfg (parseMethod cfg (pmFuel + 1)) sc fuel
        { st.appendToken (atxToken (atxSpec tail) hashes.length) with
          cursor := pre.length + ind.length + hashes.length + tail.length + 1 } := by
  obtain ⟨rIndent, more, hri, rfl⟩ := hsc
  obtain ⟨hm, hp⟩ := atx_line_token cfg hnamed hgroups st pre ind hashes tail rest hx hbol h
  obtain ⟨x, hs', hxs⟩ : ∃ x hs', hashes = x :: hs' := by
    cases hashes with
    | nil => have := h.hashes_pos; simp at this
    | cons x hs' => exact ⟨x, hs', rfl⟩
  have hxh : x = '#' := h.hashes_hash x (by rw [hxs]; simp)
  have hS : pre ++ ind ++ hashes ++ tail ++ rest = pre ++ ind ++ '#' :: (hs' ++ tail ++ rest) := by
    rw [hxs, hxh]; simp
  have hlen : pre.length < (pre ++ ind ++ hashes ++ tail ++ rest).length := by
    rw [hxs]; simp only [List.length_append, List.length_cons]; omega
  apply parseLoop_step cfg _ _ fuel st "atx_heading" (atxMatch pre.length ind hashes tail)
  · rw [hcur, hmax]; exact hlen
  · rw [hcur]
    apply scan_of_scanAt _ _ _ _ (by rw [hx, ctxOf_n]; omega)
    have h1 : fencedRuleRx.matchAt st.x pre.length = none := by
      rw [hx, hS]; exact fencedRule_none pre ind '#' _ h.ind_blank (by decide) (by decide) (by decide)
    have h2 : rIndent.matchAt st.x pre.length = none := by
      rw [hx, hS]; exact indentRule_none rIndent hri pre ind '#' _ h.ind_blank h.ind_le (by decide) (by decide)
    have h3 : atxRuleRx.matchAt st.x pre.length = some (atxMatch pre.length ind hashes tail) := by
      rw [hx]; exact atxRule_matchAt_hit pre ind hashes tail rest hbol h
    simp only [scanAt, h1, h2, h3]
  · rw [hcur]; rfl
  · exact hp

/-- **`BlockParser.parse` on a break line of `*` or `_`.**  (A line of `-` is first claimed by `setex_heading`, whose
handler decides between a heading underline and a thematic break: not covered here.) -/
theorem break_line_step (cfg : MdCfg) (c : Char) (hc : c = '_' ∨ c = '*')
    (sc : List (String × Rx)) (hsc : IsBreakPrefix sc) (pmFuel fuel : Nat) (st : BlockState)
    (pre ind : Str) (units : List Str) (rest : Str)
    (hx : st.x = Py.ctxOf (pre ++ ind ++ breakBody c units ++ rest))
    (hcur : st.cursor = pre.length) (hmax : st.cursorMax = (pre ++ ind ++ breakBody c units ++ rest).length)
    (hbol : pre = [] ∨ pre.getLast? = some '\n') (h : BreakLine ind units rest) :
    parseLoop cfg (parseMethod cfg (pmFuel + 1)) sc (fuel + 1) st =
      parseLoop cfg (parseMethod cfg (pmFuel + 1)) sc fuel
        { st.appendToken (tok "thematic_break" []) with
          cursor := pre.length + ind.length + (breakBody c units).length + 1 } := by
  obtain ⟨rIndent, more, hri, rfl⟩ := hsc
  have hc' : c = '-' ∨ c = '_' ∨ c = '*' := Or.inr hc
  obtain ⟨hm, hp⟩ := break_line_token c hc' st pre ind units rest hx hbol h
  obtain ⟨b, us, hus⟩ : ∃ b us, units = b :: us := by
    cases units with
    | nil => have := h.three; simp at this
    | cons b us => exact ⟨b, us, rfl⟩
  have hS : pre ++ ind ++ breakBody c units ++ rest = pre ++ ind ++ c :: (b ++ breakBody c us ++ rest) := by
    rw [hus, breakBody_cons]; simp
  have hlen : pre.length < (pre ++ ind ++ breakBody c units ++ rest).length := by
    rw [hS]; simp only [List.length_append, List.length_cons]; omega
  have hne : c ≠ ' ' ∧ c ≠ '`' ∧ c ≠ '~' ∧ c ≠ '\t' ∧ c ≠ '=' ∧ c ≠ '-' ∧ c ≠ '#' := by
    rcases hc with rfl | rfl <;> decide
  apply parseLoop_step cfg _ _ fuel st "thematic_break" (breakMatch pre.length ind (breakBody c units))
  · rw [hcur, hmax]; exact hlen
  · rw [hcur]
    apply scan_of_scanAt _ _ _ _ (by rw [hx, ctxOf_n]; omega)
    have h1 : fencedRuleRx.matchAt st.x pre.length = none := by
      rw [hx, hS]; exact fencedRule_none pre ind c _ h.ind_blank hne.1 hne.2.1 hne.2.2.1
    have h2 : rIndent.matchAt st.x pre.length = none := by
      rw [hx, hS]; exact indentRule_none rIndent hri pre ind c _ h.ind_blank h.ind_le hne.1 hne.2.2.2.1
    have h3 : atxRuleRx.matchAt st.x pre.length = none := by
      rw [hx, hS]
      apply atxRule_matchAt_none
      right
      rw [List.append_assoc, List.drop_left]
      have := atxLineOk_runs ind [] (c :: (b ++ breakBody c us ++ rest)) h.ind_blank (by simp)
        (by intro ch r e; injection e with e1 _; rw [← e1]; simpa [isHash] using hne.2.2.2.2.2.2)
        (by intro _ ch r e; injection e with e1 _; rw [← e1]; exact hne.1)
      rw [List.append_nil] at this
      rw [this]
      simp
    have h4 : setexRuleRx.matchAt st.x pre.length = none := by
      rw [hx, hS]; exact setexRule_none pre ind c _ h.ind_blank hne.1 hne.2.2.2.2.1 hne.2.2.2.2.2.1
    have h5 : thematicRuleRx.matchAt st.x pre.length = some (breakMatch pre.length ind (breakBody c units)) := by
      rw [hx]; exact thematicRule_matchAt_hit c hc' pre ind units rest hbol h
    simp only [scanAt, h1, h2, h3, h4, h5]
  · rw [hcur]; rfl
  · exact hp

/-- **C13, one loop iteration on a written heading**: with the cursor at the start of what `MarkdownRenderer.heading`
wrote (at a line start), `BlockParser.parse` appends the `heading` token with that level and exactly that text and goes
on with the cursor at the start of the blank line the renderer wrote. -/
theorem md_heading_step (cfg : MdCfg) (hnamed : cfg.named = namedRx) (hgroups : cfg.groups = groupIndex)
    (sc : List (String × Rx)) (hsc : IsAtxPrefix sc) (pmFuel fuel : Nat) (st : BlockState) (pre post text : Str)
    (level : Nat) (hx : st.x = Py.ctxOf (pre ++ mdHeading level text ++ post)) (hcur : st.cursor = pre.length)
    (hmax : st.cursorMax = (pre ++ mdHeading level text ++ post).length)
    (hbol : pre = [] ∨ pre.getLast? = some '\n') (h1 : 1 ≤ level) (h6 : level ≤ 6)
    (hne : text ≠ []) (hnl : '\n' ∉ text) (hstrip : Py.strip text = text) (hok : headingTextOk text = true) :
    parseLoop cfg (parseMethod cfg (pmFuel + 1)) sc (fuel + 1) st =
      parseLoop cfg (parseMethod cfg (pmFuel + 1)) sc fuel
        { st.appendToken (atxToken text level) with cursor := pre.length + level + 1 + text.length + 1 } := by
  have hS : pre ++ mdHeading level text ++ post =
      pre ++ [] ++ List.replicate level '#' ++ (' ' :: text) ++ ('\n' :: '\n' :: post) := by
    rw [mdHeading_eq]; simp
  have := atx_line_step cfg hnamed hgroups sc hsc pmFuel fuel st pre [] (List.replicate level '#') (' ' :: text)
    ('\n' :: '\n' :: post) (by rw [hx, hS]) hcur (by rw [hmax, hS]) hbol (mdHeading_line level text post h1 h6 hnl)
  rw [(atxSpec_blank_fixed_iff text hne hstrip).mpr hok] at this
  simp only [List.length_nil, List.length_replicate, List.length_cons, Nat.add_zero] at this
  rw [this]
  congr 2
  omega

/-- **C13, one loop iteration on a written thematic break** -/
theorem md_thematic_break_step (cfg : MdCfg) (sc : List (String × Rx)) (hsc : IsBreakPrefix sc) (pmFuel fuel : Nat)
    (st : BlockState) (pre post : Str) (hx : st.x = Py.ctxOf (pre ++ mdThematicBreak ++ post))
    (hcur : st.cursor = pre.length) (hmax : st.cursorMax = (pre ++ mdThematicBreak ++ post).length)
    (hbol : pre = [] ∨ pre.getLast? = some '\n') :
    parseLoop cfg (parseMethod cfg (pmFuel + 1)) sc (fuel + 1) st =
      parseLoop cfg (parseMethod cfg (pmFuel + 1)) sc fuel
        { st.appendToken (tok "thematic_break" []) with cursor := pre.length + 4 } := by
  have hS : pre ++ mdThematicBreak ++ post = pre ++ [] ++ breakBody '*' [[], [], []] ++ ('\n' :: '\n' :: post) := by
    rw [mdThematicBreak_eq]; simp
  have := break_line_step cfg '*' (Or.inr rfl) sc hsc pmFuel fuel st pre [] [[], [], []] ('\n' :: '\n' :: post)
    (by rw [hx, hS]) hcur (by rw [hmax, hS]) hbol ⟨by simp, by simp, by simp, by simp, Or.inr ⟨_, rfl⟩⟩
  exact this

/-- the rule lists of the regenerated configurations qualify (closed: the obligation is kernel-decided above) -/
theorem blockRules_prefixes (c : RuleCfg) (hc : c ∈ allCfgs) (hn : c.name ≠ "all-fenced-colon") :
    ∃ sc, compileSc (ofRuleCfg c) (ofRuleCfg c).blockRules = .ok sc ∧ IsAtxPrefix sc ∧ IsBreakPrefix sc := by
  rcases blockRules_prefix c hc with h | h
  · exact absurd h hn
  · exact prefixes_of_ok c h

/-! ### instances (non-vacuity) and kernel-checked counterexamples -/

section FireExamples

deriving instance DecidableEq for RxMatch

/-- the engine on a heading line, directly … -/
example : atxRuleRx.matchAt (Py.ctxOf "## foo bar\nx".toList) 0 =
    some { start := 0, stop := 10, caps := [(2, (2, 10)), (1, (0, 2))] } := by decide

/-- … and through the theorem (`pre = "p\n"`, `ind = " "`, `hashes = "##"`, `tail = " foo bar"`, `rest = "\nx"`) -/
example : atxRuleRx.matchAt (Py.ctxOf ("p\n".toList ++ " ".toList ++ "##".toList ++ " foo bar".toList ++ "\nx".toList)) 2 =
    some (atxMatch 2 " ".toList "##".toList " foo bar".toList) :=
  atxRule_matchAt_hit "p\n".toList " ".toList "##".toList " foo bar".toList "\nx".toList (Or.inr (by decide))
    ⟨by decide, by decide, by decide, by decide, by decide, Or.inr ⟨' ', _, rfl, rfl⟩, by decide, Or.inr ⟨_, rfl⟩⟩

/-- a blank rest of the line: the FIRST alternative `[ \t]*` matches and `atx_2` is the blank rest (`"# \t"`: `[1, 3)`) -/
example : atxRuleRx.matchAt (Py.ctxOf "# \t\nx".toList) 0 =
    some { start := 0, stop := 3, caps := [(2, (1, 3)), (1, (0, 1))] } := by decide

/-- no rest at all, at the end of the subject -/
example : atxRuleRx.matchAt (Py.ctxOf "###".toList) 0 =
    some { start := 0, stop := 3, caps := [(2, (3, 3)), (1, (0, 3))] } := by decide

/-- the closing sequence is part of `atx_2` (the handler removes it) -/
example : atxRuleRx.matchAt (Py.ctxOf "# foo ##\n".toList) 0 = some exMt := by decide

/-- the rule does not fire: seven `#`; a glued text; four blanks of indentation; not at a line start -/
example : atxRuleRx.matchAt (Py.ctxOf "####### x\n".toList) 0 = none := by decide
example : atxRuleRx.matchAt (Py.ctxOf "#foo\n".toList) 0 = none := by decide
example : atxRuleRx.matchAt (Py.ctxOf "    # foo\n".toList) 0 = none := by decide
example : atxRuleRx.matchAt (Py.ctxOf "a# foo\n".toList) 1 = none := by decide

/-- the handler on a heading line (`atx_line_token` instantiated): level 2, text `foo bar`, cursor after the newline -/
example : parseAtxHeading atxCfg (atxMatch 0 [] "##".toList " foo bar ##".toList) (BlockState.root "## foo bar ##\nx".toList) =
    .ok (some 14, (BlockState.root "## foo bar ##\nx".toList).appendToken (atxToken (atxSpec " foo bar ##".toList) 2)) :=
  (atx_line_token atxCfg rfl rfl (BlockState.root "## foo bar ##\nx".toList) [] [] "##".toList " foo bar ##".toList
    "\nx".toList rfl (Or.inl rfl)
    ⟨by decide, by decide, by decide, by decide, by decide, Or.inr ⟨' ', _, rfl, rfl⟩, by decide, Or.inr ⟨_, rfl⟩⟩).2

example : atxSpec " foo bar ##".toList = "foo bar".toList := by decide

/-- every family of the thematic-break rule, directly and through the theorem -/
example : thematicRuleRx.matchAt (Py.ctxOf "***\n\n".toList) 0 = some { start := 0, stop := 3, caps := [(1, (0, 3))] } := by
  decide
example : thematicRuleRx.matchAt (Py.ctxOf " - -\t-  \nx".toList) 0 =
    some { start := 0, stop := 8, caps := [(1, (1, 8))] } := by decide
example : thematicRuleRx.matchAt (Py.ctxOf (([] : Str) ++ " ".toList ++ breakBody '-' [" ".toList, "\t".toList, "  ".toList] ++ "\nx".toList)) 0 =
    some (breakMatch 0 " ".toList (breakBody '-' [" ".toList, "\t".toList, "  ".toList])) :=
  thematicRule_matchAt_hit '-' (Or.inl rfl) [] " ".toList [" ".toList, "\t".toList, "  ".toList] "\nx".toList (Or.inl rfl)
    ⟨by decide, by decide, by decide, by decide, Or.inr ⟨_, rfl⟩⟩
example : thematicRuleRx.matchAt (Py.ctxOf "___".toList) 0 = some { start := 0, stop := 3, caps := [(1, (0, 3))] } := by
  decide
/-- two characters only; mixed families -/
example : thematicRuleRx.matchAt (Py.ctxOf "**\n".toList) 0 = none := by decide
example : thematicRuleRx.matchAt (Py.ctxOf "*-*\n".toList) 0 = none := by decide

/-- the round trip, instantiated: level 2, text `foo bar`; text `a #b` (a `#` inside a word is harmless) -/
example : ∃ mt cursor, Py.matchAt atxRuleRx (BlockState.root (mdHeading 2 "foo bar".toList ++ "next\n".toList)).x 0 = some mt ∧
    parseAtxHeading atxCfg mt (BlockState.root (mdHeading 2 "foo bar".toList ++ "next\n".toList)) =
      .ok (some cursor, (BlockState.root (mdHeading 2 "foo bar".toList ++ "next\n".toList)).appendToken
        (atxToken "foo bar".toList 2)) ∧ cursor = 11 ∧
    (mdHeading 2 "foo bar".toList ++ "next\n".toList).drop cursor = '\n' :: "next\n".toList := by
  obtain ⟨mt, cursor, h1, h2, h3, h4, _⟩ := md_heading_roundtrip atxCfg rfl rfl
    (BlockState.root (mdHeading 2 "foo bar".toList ++ "next\n".toList)) [] "next\n".toList "foo bar".toList 2 rfl
    (Or.inl rfl) (by decide) (by decide) (by decide) (by decide) (by decide) (by decide)
  exact ⟨mt, cursor, h1, h2, h3, h4⟩

example : headingTextOk "a #b".toList = true ∧ Py.strip "a #b".toList = "a #b".toList ∧ '\n' ∉ "a #b".toList := by decide
example : headingTextOk "foo#".toList = true ∧ headingTextOk "C#".toList = true := by decide

/-- **the hypothesis `headingTextOk` is necessary** (and `MarkdownRenderer.heading` does not establish it): a text that
ends with white space and `#` loses them, a text of `#`s only becomes empty.  `# foo \#` has the text `foo #`; the
renderer writes `# foo #`, which is the heading `foo`. -/
example : headingTextOk "foo #".toList = false ∧ atxSpec (' ' :: "foo #".toList) = "foo".toList := by decide
example : headingTextOk "##".toList = false ∧ atxSpec (' ' :: "##".toList) = [] := by decide
example : headingTextOk "foo #".toList = false ∧ atxSpec (' ' :: "foo #".toList) = "foo".toList := by decide
example : atxRuleRx.matchAt (Py.ctxOf (mdHeading 1 "foo #".toList)) 0 = some (atxMatch 0 [] "#".toList " foo #".toList) ∧
    atxText atxCfg (grp atxCfg (BlockState.root (mdHeading 1 "foo #".toList)) (atxMatch 0 [] "#".toList " foo #".toList)
      "atx_2") = "foo".toList := by decide

/-- … and so is `level ≤ 6`: what the renderer writes for level 7 is not a heading -/
example : atxRuleRx.matchAt (Py.ctxOf (mdHeading 7 "x".toList)) 0 = none := by decide

/-- … and `text.strip() == text`: inner white space at the end is not recovered -/
example : atxSpec (' ' :: "foo ".toList) = "foo".toList := by decide

example : ∃ mt cursor, Py.matchAt thematicRuleRx (BlockState.root ("a\n".toList ++ mdThematicBreak ++ "b".toList)).x 2 = some mt ∧
    parseThematicBreak mt (BlockState.root ("a\n".toList ++ mdThematicBreak ++ "b".toList)) =
      .ok (some cursor, (BlockState.root ("a\n".toList ++ mdThematicBreak ++ "b".toList)).appendToken
        (tok "thematic_break" [])) ∧ cursor = 6 := by
  obtain ⟨mt, cursor, h1, h2, h3, _⟩ := md_thematic_break_roundtrip
    (BlockState.root ("a\n".toList ++ mdThematicBreak ++ "b".toList)) "a\n".toList "b".toList rfl (Or.inr (by decide))
  exact ⟨mt, cursor, h1, h2, h3⟩

/-- the rule list of the core configuration qualifies for the step theorems -/
example : ∃ sc, compileSc atxCfg atxCfg.blockRules = .ok sc ∧ IsAtxPrefix sc ∧ IsBreakPrefix sc :=
  blockRules_prefixes cfg_core (List.Mem.head _) (by decide)

/-- `atx_line_step` instantiated: the second line of `"p\n ## foo ##\nx"` -/
example (sc : List (String × Rx)) (hsc : IsAtxPrefix sc) (st : BlockState)
    (hx : st.x = Py.ctxOf ("p\n".toList ++ " ".toList ++ "##".toList ++ " foo ##".toList ++ "\nx".toList))
    (hcur : st.cursor = 2) (hmax : st.cursorMax = 14) :
    parseLoop atxCfg (parseMethod atxCfg 1) sc 3 st = parseLoop atxCfg (parseMethod atxCfg 1) sc 2
      { st.appendToken (atxToken (atxSpec " foo ##".toList) 2) with cursor := 13 } :=
  atx_line_step atxCfg rfl rfl sc hsc 0 2 st "p\n".toList " ".toList "##".toList " foo ##".toList "\nx".toList hx hcur hmax
    (Or.inr (by decide))
    ⟨by decide, by decide, by decide, by decide, by decide, Or.inr ⟨' ', _, rfl, rfl⟩, by decide, Or.inr ⟨_, rfl⟩⟩

end FireExamples

end Mistune
