/-
C02 — the script-URL clause: no link / image destination that mistune emits is a script-capable URL *as a
browser reads it*.

mistune escapes every destination at PARSE time (`escape_url = quote(unescape(link), safe=…)`, model `escapeUrl`) and
checks the scheme at RENDER time (`HTMLRenderer.safe_url`, model `safeUrlStr`) with a plain
`url.lower().startswith(…)`.  A browser (WHATWG URL parser) is more generous than `startswith`: it removes leading
and trailing C0-control-or-space characters (code points ≤ 0x20) and ALL tab / LF / CR characters of the attribute
value before it looks for the scheme, and it compares the scheme ASCII-case-insensitively.  `browserNorm` /
`asciiLower` / `scriptCapable` below are that reading.

The theorems show that the two readings coincide on everything `escape_url` can return (its alphabet is 33..126, so
the browser has nothing to remove and `str.lower()` is ASCII lower-casing), hence `safe_url` never lets a
script-capable URL through; and that they do NOT coincide on raw strings (`necessity_*`), i.e. the parse-time
escaping is what makes the render-time check sound.
-/
import MistuneProofs.C18
import MistuneProofs.C18Quote
import Mistune.TmplWire
namespace Mistune
open Mistune.Generated

/-! ## 1. the browser's reading of an attribute value as a URL -/

/-- "C0 control or space" of the WHATWG URL standard: code point ≤ 0x20. -/
def isC0Space (c : Char) : Bool := decide (c.toNat ≤ 32)

/-- "ASCII tab or newline" of the WHATWG URL standard. -/
def isTabNl (c : Char) : Bool := c == '\t' || c == '\n' || c == '\r'

/-- Steps 1–3 of the WHATWG basic URL parser: strip leading and trailing C0-control-or-space, then remove every
tab / LF / CR. -/
def browserNorm (s : Str) : Str :=
  (((s.dropWhile isC0Space).reverse.dropWhile isC0Space).reverse).filter (fun c => !isTabNl c)

/-- ASCII lower-casing of one character (`A`..`Z` ↦ `a`..`z`, everything else fixed). -/
def asciiLowerChar (c : Char) : Char :=
  if 65 ≤ c.toNat ∧ c.toNat ≤ 90 then Char.ofNat (c.toNat + 32) else c

def asciiLower (s : Str) : Str := s.map asciiLowerChar

/-- The browser would treat `s` as a URL of one of the `harmful` schemes and not of a `good` `data:` prefix:
some harmful prefix is a prefix of `asciiLower (browserNorm s)` and no good-data prefix is. -/
def scriptCapable (harmful good : List Str) (s : Str) : Bool :=
  let l := asciiLower (browserNorm s)
  harmful.any (fun p => Py.startsWith l p) && !(good.any (fun p => Py.startsWith l p))

/-- The same with the comparison case-insensitive on BOTH sides (what "compare schemes ASCII-case-insensitively"
literally says); equal to `scriptCapable` for lower-case prefix lists (`scriptCapableCI_eq`). -/
def scriptCapableCI (harmful good : List Str) (s : Str) : Bool :=
  let l := asciiLower (browserNorm s)
  harmful.any (fun p => Py.startsWith l (asciiLower p)) && !(good.any (fun p => Py.startsWith l (asciiLower p)))

/-- the lists of the default environment (`mkTEnv`), from the regenerated constants -/
def defaultHarmful : List Str := strsOf harmfulProtocols
def defaultGoodData : List Str := strsOf goodDataProtocols

theorem mkTEnv_harmful (args : List (String × TVal)) (esc : Bool) : (mkTEnv args esc).harmful = defaultHarmful := rfl
theorem mkTEnv_goodData (args : List (String × TVal)) (esc : Bool) : (mkTEnv args esc).goodData = defaultGoodData := rfl

/-! ## 2. on the alphabet of `escape_url` the browser removes nothing and `lower()` is ASCII lower-casing -/

theorem dropWhile_eq_self_of_all_false {α : Type} (p : α → Bool) :
    ∀ (l : List α), (∀ x ∈ l, p x = false) → l.dropWhile p = l
  | [], _ => rfl
  | x :: l, h => by
    have hx := h x (by simp)
    simp [hx]

/-- A string without characters ≤ 0x20 is a fixed point of the browser's normalisation. -/
theorem browserNorm_fixed (s : Str) (h : ∀ c ∈ s, 33 ≤ c.toNat) : browserNorm s = s := by
  have h1 : ∀ c ∈ s, isC0Space c = false := by
    intro c hc; have := h c hc; simp [isC0Space]; omega
  have h2 : ∀ c ∈ s, (!isTabNl c) = true := by
    intro c hc
    have := h c hc
    have e : isTabNl c = false := by
      unfold isTabNl
      have a : c ≠ '\t' := by intro e; subst e; revert this; decide
      have b : c ≠ '\n' := by intro e; subst e; revert this; decide
      have d : c ≠ '\r' := by intro e; subst e; revert this; decide
      simp [a, b, d]
    simp [e]
  unfold browserNorm
  rw [dropWhile_eq_self_of_all_false _ s h1,
    dropWhile_eq_self_of_all_false _ s.reverse (by intro x hx; exact h1 x (List.mem_reverse.1 hx)),
    List.reverse_reverse]
  exact List.filter_eq_self.2 h2

/-- **C02 (script URL), step 2a.** Whatever `unescape` returns, a browser's URL pre-processing leaves the result of
`escape_url` as it is. -/
theorem escapeUrl_browser_fixed (unescape : Str → Str) (s : Str) :
    browserNorm (escapeUrl unescape s) = escapeUrl unescape s :=
  browserNorm_fixed _ (fun c hc => (escapeUrl_attr_safe unescape s c hc).1)

/-- Obligation on the regenerated `str.lower()` table: on the 128 ASCII code points it maps exactly `A`..`Z`, to
the code point 32 above (kernel-decided). -/
theorem lowerTree_ascii : ∀ n, n < 128 →
    lowerTree.lookup n = (if 65 ≤ n ∧ n ≤ 90 then some (n + 32) else none) := by decide +kernel

/-- the model's `str.lower()` (per code point, `Generated.lowerTree`) is ASCII lower-casing on ASCII -/
theorem lowerChar_ascii (c : Char) (h : c.toNat < 128) : lowerChar c = asciiLowerChar c := by
  unfold lowerChar variantOf asciiLowerChar
  rw [lowerTree_ascii c.toNat h]
  by_cases hc : 65 ≤ c.toNat ∧ c.toNat ≤ 90
  · simp only [hc, and_self, if_true]
  · simp only [hc, if_false]

theorem map_lowerChar_ascii (s : Str) (h : ∀ c ∈ s, c.toNat < 128) : s.map lowerChar = asciiLower s := by
  unfold asciiLower
  exact List.map_congr_left (fun c hc => lowerChar_ascii c (h c hc))

/-- **C02 (script URL), step 2b.** On the result of `escape_url` the lower-casing `safe_url` uses is ASCII
lower-casing. -/
theorem escapeUrl_lower_ascii (unescape : Str → Str) (s : Str) :
    (escapeUrl unescape s).map lowerChar = asciiLower (escapeUrl unescape s) :=
  map_lowerChar_ascii _ (fun c hc => by have := (escapeUrl_attr_safe unescape s c hc).2.1; omega)

/-! ## 3. `safe_url` on an escaped destination -/

/-- The test of `safe_url` IS the browser's test on strings of the `escape_url` alphabet — for ANY prefix lists. -/
theorem safeUrl_test_eq_scriptCapable (H G : List Str) (url : Str) (h : ∀ c ∈ url, 33 ≤ c.toNat ∧ c.toNat < 128) :
    (H.any (fun p => Py.startsWith (url.map lowerChar) p) && !(G.any (fun p => Py.startsWith (url.map lowerChar) p)))
      = scriptCapable H G url := by
  unfold scriptCapable
  rw [browserNorm_fixed url (fun c hc => (h c hc).1), map_lowerChar_ascii url (fun c hc => (h c hc).2)]

/-- `safe_url` on a string of the `escape_url` alphabet, for ANY prefix lists: either the fixed replacement, or the
escaped text of a URL that is not script-capable. -/
theorem safeUrlStr_cases (H G : List Str) (url : Str) (h : ∀ c ∈ url, 33 ≤ c.toNat ∧ c.toNat < 128) :
    safeUrlStr H G url = "#harmful-link".toList ∨
      (safeUrlStr H G url = escape true url ∧ scriptCapable H G url = false) := by
  have e := safeUrl_test_eq_scriptCapable H G url h
  unfold safeUrlStr
  simp only
  cases hc : scriptCapable H G url
  · right
    rw [hc] at e
    rw [e]; simp
  · left
    rw [hc] at e
    rw [e]; simp

theorem escapeUrl_alphabet (unescape : Str → Str) (s : Str) :
    ∀ c ∈ escapeUrl unescape s, 33 ≤ c.toNat ∧ c.toNat < 128 := by
  intro c hc
  have := escapeUrl_attr_safe unescape s c hc
  omega

/-- Obligations on the regenerated prefix lists (kernel-decided): every prefix is non-empty, ASCII and lower-case
(so that mistune's `lower().startswith(p)` is the case-insensitive comparison a browser makes), and the replacement
text is itself not script-capable. -/
theorem harmful_lower_ascii :
    ∀ p ∈ defaultHarmful, p ≠ [] ∧ ∀ c ∈ p, c.toNat < 128 ∧ asciiLowerChar c = c := by decide

theorem goodData_lower_ascii :
    ∀ p ∈ defaultGoodData, p ≠ [] ∧ ∀ c ∈ p, c.toNat < 128 ∧ asciiLowerChar c = c := by decide

/-- every good-data prefix extends a harmful prefix (the exemption only ever re-admits `data:` URLs) -/
theorem goodData_extends_harmful :
    ∀ g ∈ defaultGoodData, defaultHarmful.any (fun p => Py.startsWith g p) = true := by decide

theorem harmfulLink_not_script : scriptCapable defaultHarmful defaultGoodData "#harmful-link".toList = false := by
  decide

theorem asciiLower_fixed (p : Str) (h : ∀ c ∈ p, asciiLowerChar c = c) : asciiLower p = p := by
  unfold asciiLower
  conv => rhs; rw [← List.map_id p]
  exact List.map_congr_left (fun c hc => h c hc)

theorem any_congr_mem {α : Type} (f g : α → Bool) :
    ∀ (l : List α), (∀ x ∈ l, f x = g x) → l.any f = l.any g
  | [], _ => rfl
  | x :: l, h => by
    rw [List.any_cons, List.any_cons, h x (by simp), any_congr_mem f g l (fun y hy => h y (by simp [hy]))]

/-- for lower-case prefix lists the two-sided case-insensitive reading is `scriptCapable` -/
theorem scriptCapableCI_eq (H G : List Str) (hH : ∀ p ∈ H, ∀ c ∈ p, asciiLowerChar c = c)
    (hG : ∀ p ∈ G, ∀ c ∈ p, asciiLowerChar c = c) (s : Str) : scriptCapableCI H G s = scriptCapable H G s := by
  unfold scriptCapableCI scriptCapable
  simp only
  have e1 : ∀ l : Str, H.any (fun p => Py.startsWith l (asciiLower p)) = H.any (fun p => Py.startsWith l p) := by
    intro l
    apply any_congr_mem
    intro p hp
    rw [asciiLower_fixed p (hH p hp)]
  have e2 : ∀ l : Str, G.any (fun p => Py.startsWith l (asciiLower p)) = G.any (fun p => Py.startsWith l p) := by
    intro l
    apply any_congr_mem
    intro p hp
    rw [asciiLower_fixed p (hG p hp)]
  rw [e1, e2]

theorem scriptCapableCI_default (s : Str) :
    scriptCapableCI defaultHarmful defaultGoodData s = scriptCapable defaultHarmful defaultGoodData s :=
  scriptCapableCI_eq _ _ (fun p hp => fun c hc => ((harmful_lower_ascii p hp).2 c hc).2)
    (fun p hp => fun c hc => ((goodData_lower_ascii p hp).2 c hc).2) s

/-- **C02 (script URL), emitted text.** For every `unescape` and every source string `s`, `safe_url` applied to the
parse-time escaped destination returns either the fixed text `#harmful-link`, or the escaped text of a URL that a
browser does not read as script-capable. -/
theorem href_not_script (unescape : Str → Str) (s : Str) :
    let url := escapeUrl unescape s
    safeUrlStr defaultHarmful defaultGoodData url = "#harmful-link".toList ∨
      (safeUrlStr defaultHarmful defaultGoodData url = escape true url ∧
        scriptCapable defaultHarmful defaultGoodData url = false) :=
  safeUrlStr_cases _ _ _ (escapeUrl_alphabet unescape s)

theorem decodeBasic_harmfulLink : decodeBasic "#harmful-link".toList = "#harmful-link".toList := by decide

/-- **C02 (script URL), attribute value.** The attribute VALUE a browser sees is the HTML-decoding of the emitted
text (`decodeBasic`: the decoder of exactly the entities `escape` produces, `escape_roundtrip`).  It is either
`#harmful-link` or the escaped destination itself, and in both cases not script-capable. -/
theorem rendered_url_not_script (unescape : Str → Str) (s : Str) :
    let url := escapeUrl unescape s
    let value := decodeBasic (safeUrlStr defaultHarmful defaultGoodData url)
    (value = "#harmful-link".toList ∨ value = url) ∧
      scriptCapable defaultHarmful defaultGoodData value = false := by
  intro url value
  rcases href_not_script unescape s with h | ⟨h, hs⟩
  · have e : value = "#harmful-link".toList := by
      show decodeBasic (safeUrlStr defaultHarmful defaultGoodData (escapeUrl unescape s)) = _
      rw [h]; exact decodeBasic_harmfulLink
    exact ⟨Or.inl e, by rw [e]; exact harmfulLink_not_script⟩
  · have e : value = url := by
      show decodeBasic (safeUrlStr defaultHarmful defaultGoodData (escapeUrl unescape s)) = _
      rw [h]; exact escape_roundtrip true _
    exact ⟨Or.inr e, by rw [e]; exact hs⟩

/-- the same in the two-sided case-insensitive reading -/
theorem rendered_url_not_scriptCI (unescape : Str → Str) (s : Str) :
    scriptCapableCI defaultHarmful defaultGoodData
      (decodeBasic (safeUrlStr defaultHarmful defaultGoodData (escapeUrl unescape s))) = false := by
  rw [scriptCapableCI_default]; exact (rendered_url_not_script unescape s).2

theorem erase_ofData (s : Str) : (TStr.ofData s).erase = s := by
  simp [TStr.erase, TStr.ofData, List.map_map, Function.comp_def]

/-- **C02 (script URL), in the environment of the render theorems.** The `safe_url` operation of the template
interpreter, in `mkTEnv`, on an escaped destination (whatever flags its characters carry). -/
theorem applyOp_safeUrl_not_script (args : List (String × TVal)) (esc : Bool) (unescape : Str → Str) (s : Str)
    (t : TStr) (ht : t.erase = escapeUrl unescape s) :
    let value := decodeBasic (applyOp (mkTEnv args esc) .safeUrl t).erase
    (value = "#harmful-link".toList ∨ value = escapeUrl unescape s) ∧
      scriptCapable (mkTEnv args esc).harmful (mkTEnv args esc).goodData value = false := by
  have e : (applyOp (mkTEnv args esc) .safeUrl t).erase
      = safeUrlStr defaultHarmful defaultGoodData (escapeUrl unescape s) := by
    show (TStr.ofData (safeUrlStr defaultHarmful defaultGoodData t.erase)).erase = _
    rw [ht]; exact erase_ofData _
  simp only [e, mkTEnv_harmful, mkTEnv_goodData]
  exact rendered_url_not_script unescape s

/-! ## 4. necessity of the parse-time escaping

`safe_url` alone is NOT sound against the browser's reading: on a raw string with an embedded tab, a leading space
or a leading control character it answers "fine" and the browser runs the script.  (These strings cannot reach
`safe_url` through the parser, by `escapeUrl_attr_safe`; a renderer fed by a different front end has no such
guarantee.) -/

theorem necessity_tab :
    safeUrlStr defaultHarmful defaultGoodData "java\tscript:alert(1)".toList = "java\tscript:alert(1)".toList ∧
    scriptCapable defaultHarmful defaultGoodData "java\tscript:alert(1)".toList = true := by
  decide

theorem necessity_leading_space :
    safeUrlStr defaultHarmful defaultGoodData " javascript:alert(1)".toList = " javascript:alert(1)".toList ∧
    scriptCapable defaultHarmful defaultGoodData " javascript:alert(1)".toList = true := by
  decide

theorem necessity_leading_control :
    safeUrlStr defaultHarmful defaultGoodData "\x01javascript:alert(1)".toList = "\x01javascript:alert(1)".toList ∧
    scriptCapable defaultHarmful defaultGoodData "\x01javascript:alert(1)".toList = true := by
  decide

theorem necessity_newline_in_scheme :
    safeUrlStr defaultHarmful defaultGoodData "javascript\n:alert(1)".toList = "javascript\n:alert(1)".toList ∧
    scriptCapable defaultHarmful defaultGoodData "javascript\n:alert(1)".toList = true := by
  decide

/-! ## 5. concrete inputs -/

/-- a toy `unescape`: decodes the one reference `&#9;` -/
def toyUnescape : Str → Str
  | '&' :: '#' :: '9' :: ';' :: r => '\t' :: toyUnescape r
  | c :: r => c :: toyUnescape r
  | [] => []

-- mixed case is caught by `lower()`
example : safeUrlStr defaultHarmful defaultGoodData (escapeUrl id "JaVaScRiPt:alert(1)".toList)
    = "#harmful-link".toList := by decide

-- a character reference for TAB is decoded and then percent-encoded at parse time: the browser sees `%09`, which
-- it does not remove, and the scheme is not `javascript`
example : escapeUrl toyUnescape "java&#9;script:x".toList = "java%09script:x".toList := by decide
example : safeUrlStr defaultHarmful defaultGoodData (escapeUrl toyUnescape "java&#9;script:x".toList)
    = "java%09script:x".toList := by decide
example : scriptCapable defaultHarmful defaultGoodData (escapeUrl toyUnescape "java&#9;script:x".toList)
    = false := by decide
-- … whereas the decoded string itself (what `safe_url` would see without `quote`) is script-capable and passes
example : safeUrlStr defaultHarmful defaultGoodData (toyUnescape "java&#9;script:x".toList)
      = "java\tscript:x".toList ∧
    scriptCapable defaultHarmful defaultGoodData (toyUnescape "java&#9;script:x".toList) = true := by decide

-- a good `data:image/…;` prefix is let through, and is not script-capable by definition
example : safeUrlStr defaultHarmful defaultGoodData (escapeUrl id "data:image/png;base64,AA".toList)
      = "data:image/png;base64,AA".toList ∧
    scriptCapable defaultHarmful defaultGoodData "data:image/png;base64,AA".toList = false := by decide

-- any other `data:` URL is replaced
example : safeUrlStr defaultHarmful defaultGoodData (escapeUrl id "data:text/html,x".toList)
    = "#harmful-link".toList := by decide

-- the emitted text keeps `&` escaped, so that a reference surviving in the URL is not decoded by the browser
example : safeUrlStr defaultHarmful defaultGoodData (escapeUrl id "java&#9;script:x".toList)
      = "java&amp;#9;script:x".toList ∧
    decodeBasic "java&amp;#9;script:x".toList = "java&#9;script:x".toList ∧
    scriptCapable defaultHarmful defaultGoodData "java&#9;script:x".toList = false := by decide


end Mistune
