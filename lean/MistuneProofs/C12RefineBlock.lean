/-
C12 — refinement, whole block pass: the final `env["ref_links"]` of `Model.blockParse` is `refBuild` over the log of
the definitions that `parse_ref_link` accepted, in handler-call order.

`EnvRel` (`MistuneProofs.EnvRel`) shows that only `parse_ref_link`, `parse_ref_footnote`, `parse_ref_abbr` write
`env` and that every other handler of `Blk.parseMethod` (core and plugins, including the containers that thread
`child.env`) respects any reflexive-transitive relation the three writers respect.  Here the relation is
"there is a `RefTrace`": a decomposition of the `env` evolution into steps each of which is either table-preserving
or ONE accepted call of the concrete `parseRefLink` issued at exactly the `env` reached so far.
-/
import MistuneProofs.C12Refine
import MistuneProofs.EnvRel
namespace Mistune
namespace Model
open Blk

/-- the evolution of `env` during a block pass, with the log of accepted link reference definitions:
`same` — a step that does not touch `env["ref_links"]`;
`define` — one call of the concrete handler `parseRefLink` on a state whose `env` is the current one, which accepted
  the definition `(unikey label, data)` (truthy position, non-empty key) and performed the `refAdd` step;
`trans` — sequencing (the logs are concatenated in call order). -/
inductive RefTrace (cfg : MdCfg) : Json → List (Str × Json) → Json → Prop
  | same {e e' : Json} (h : e'.get? "ref_links" = e.get? "ref_links") : RefTrace cfg e [] e'
  | define {mt : RxMatch} {st : BlockState} {r : Option Nat} {st' : BlockState} {href : Str} {title : Option Str}
      (hcall : parseRefLink cfg mt st = .ok (r, st')) (hwf : RefsWf st.env) (htr : truthyPos r = true)
      (hkey : unikeyPy (grp cfg st mt "reflink_1") ≠ [])
      (hstep : absRefs st'.env = refAdd (absRefs st.env) (unikeyPy (grp cfg st mt "reflink_1"))
        (refLinkData cfg (grp cfg st mt "reflink_1") href title)) :
      RefTrace cfg st.env [(unikeyPy (grp cfg st mt "reflink_1"), refLinkData cfg (grp cfg st mt "reflink_1") href title)]
        st'.env
  | trans {a b c : Json} {l1 l2 : List (Str × Json)} (h1 : RefTrace cfg a l1 b) (h2 : RefTrace cfg b l2 c) :
      RefTrace cfg a (l1 ++ l2) c

theorem absRefs_congr {e e' : Json} (h : e'.get? "ref_links" = e.get? "ref_links") : absRefs e' = absRefs e := by
  unfold absRefs; rw [h]

theorem RefsWf_congr {e e' : Json} (h : e'.get? "ref_links" = e.get? "ref_links") (hw : RefsWf e) : RefsWf e' := by
  obtain ⟨kv, hkv⟩ := hw; exact ⟨kv, by rw [h, hkv]⟩

/-- a trace keeps `env["ref_links"]` a dict -/
theorem RefTrace.wf {cfg : MdCfg} {e e' : Json} {log : List (Str × Json)} (h : RefTrace cfg e log e') :
    RefsWf e → RefsWf e' := by
  induction h with
  | same h => exact RefsWf_congr h
  | define hcall hwf _ _ _ => intro _; exact (parseRefLink_env cfg _ _ _ _ hcall hwf).1
  | trans _ _ ih1 ih2 => exact fun hw => ih2 (ih1 hw)

/-- **soundness of the log**: the table after a trace is `refBuild` of the table before over the log -/
theorem RefTrace.sound {cfg : MdCfg} {e e' : Json} {log : List (Str × Json)} (h : RefTrace cfg e log e') :
    absRefs e' = refBuild (absRefs e) log := by
  induction h with
  | same h => exact absRefs_congr h
  | define _ _ _ _ hstep => exact hstep
  | trans _ _ ih1 ih2 => rw [refBuild_append_aux, ← ih1, ih2]

/-- the relation handed to `EnvRel` -/
def RefRel (cfg : MdCfg) (e e' : Json) : Prop := RefsWf e → ∃ log, RefTrace cfg e log e'

theorem set_keeps_refLinks (env : Json) (k : String) (v : Json) (hk : k ≠ "ref_links") :
    (env.set k v).get? "ref_links" = env.get? "ref_links" :=
  JsonL.get?_set_other _ _ _ _ (fun h => hk h.symm)

theorem refRel_envRel (cfg : MdCfg) : EnvRel cfg (RefRel cfg) where
  refl := fun e _ => ⟨[], RefTrace.same rfl⟩
  trans := by
    intro a b c h1 h2 hw
    obtain ⟨l1, t1⟩ := h1 hw
    obtain ⟨l2, t2⟩ := h2 (t1.wf hw)
    exact ⟨l1 ++ l2, RefTrace.trans t1 t2⟩
  refLink := by
    intro mt st r st' h hw
    obtain ⟨_, _, hcases⟩ := parseRefLink_env cfg mt st r st' h hw
    rcases parseRefLink_raw cfg mt st _ h with he | _
    · dsimp only at he
      exact ⟨[], RefTrace.same (by rw [he])⟩
    · rcases hcases with hsame | ⟨href, title, htr, hkey, hstep⟩
      · -- table unchanged although `env` was written: impossible, but harmless — use the `define` step anyway
        rename_i hx
        obtain ⟨refs, href, title, hrefs, hhas, htr, hkey, henv⟩ := hx
        dsimp only at htr henv
        obtain ⟨_, _, hc2⟩ := parseRefLink_env cfg mt st r st' h hw
        obtain ⟨kv, hkv⟩ := hw
        have hr : refs = .obj kv := by rw [hrefs] at hkv; cases hkv; rfl
        subst hr
        obtain ⟨ekv, hekv⟩ := get?_some_obj _ _ _ hrefs
        have hget : st'.env.get? "ref_links" = some ((Json.obj kv).set (String.ofList (unikeyPy (grp cfg st mt "reflink_1")))
            (refLinkData cfg (grp cfg st mt "reflink_1") href title)) := by
          rw [henv, hekv]; exact JsonL.get?_set_same _ _ _
        have hstep : absRefs st'.env = refAdd (absRefs st.env) (unikeyPy (grp cfg st mt "reflink_1"))
            (refLinkData cfg (grp cfg st mt "reflink_1") href title) := by
          rw [absRefs_of_get _ _ hget, absRefs_of_get _ _ hrefs, ← absTable_step, hhas]; rfl
        exact ⟨_, RefTrace.define h ⟨kv, hkv⟩ htr hkey hstep⟩
      · exact ⟨_, RefTrace.define h hw htr hkey hstep⟩
  refFootnote := by
    intro mt st r st' h _
    unfold parseRefFootnote at h
    simp only [Except.ok.injEq, Prod.mk.injEq] at h
    obtain ⟨_, hst⟩ := h
    subst hst
    refine ⟨[], RefTrace.same ?_⟩
    split
    · exact set_keeps_refLinks _ _ _ (by decide)
    · rfl
  refAbbr := by
    intro mt st r st' h _
    unfold parseRefAbbr at h
    simp only [Except.ok.injEq, Prod.mk.injEq] at h
    obtain ⟨_, hst⟩ := h
    subst hst
    exact ⟨[], RefTrace.same (set_keeps_refLinks _ _ _ (by decide))⟩

/-- every entry of a log is a definition accepted by a call of the concrete handler -/
theorem RefTrace.mem {cfg : MdCfg} {e e' : Json} {log : List (Str × Json)} (h : RefTrace cfg e log e') :
    ∀ d ∈ log, ∃ mt st r st' href title, parseRefLink cfg mt st = .ok (r, st') ∧ truthyPos r = true ∧
      d.1 = unikeyPy (grp cfg st mt "reflink_1") ∧ d.1 ≠ [] ∧
      d.2 = refLinkData cfg (grp cfg st mt "reflink_1") href title := by
  induction h with
  | same _ => intro d hd; cases hd
  | @define mt st r st' href title hcall _ htr hkey _ =>
    intro d hd
    simp only [List.mem_singleton] at hd
    subst hd
    exact ⟨mt, st, r, st', href, title, hcall, htr, rfl, hkey, rfl⟩
  | trans _ _ ih1 ih2 =>
    intro d hd
    rcases List.mem_append.1 hd with h | h
    · exact ih1 d h
    · exact ih2 d h

/-- the `env` of the root state -/
def rootEnv : Json := .obj [("ref_links", .obj [])]

theorem rootEnv_wf : RefsWf rootEnv := ⟨[], rfl⟩
theorem rootEnv_abs : absRefs rootEnv = [] := rfl

/-- every parse method of the concrete dispatcher (any nesting budget, core and plugin rules) extends the trace -/
theorem parseMethod_refs (cfg : MdCfg) (fuel : Nat) (name : String) (mt : RxMatch) (st : BlockState)
    (r : Option Nat) (st' : BlockState) (h : parseMethod cfg fuel name mt st = .ok (r, st')) (hw : RefsWf st.env) :
    ∃ log, RefTrace cfg st.env log st'.env ∧ absRefs st'.env = refBuild (absRefs st.env) log := by
  obtain ⟨log, t⟩ := parseMethod_rel cfg (RefRel cfg) (refRel_envRel cfg) fuel name mt st _ h hw
  exact ⟨log, t, t.sound⟩

/-- **C12 (b): the table of the block pass is `refBuild` over the accepted definitions.**  For every configuration and
every source string on which `Model.blockParse` returns, the final `env["ref_links"]` is a dict and there is a log —
a `RefTrace` from the root `env`, i.e. the accepted `parse_ref_link` calls in handler-call order, each issued at the
`env` its predecessors produced — such that the abstract table is `refBuild [] log`. -/
theorem blockParse_refs (cfg : MdCfg) (src : Str) (toks : List Json) (env : Json)
    (h : Model.blockParse cfg src = .ok (toks, env)) :
    RefsWf env ∧ ∃ log, RefTrace cfg rootEnv log env ∧ absRefs env = refBuild [] log := by
  obtain ⟨log, t⟩ := blockParse_rel cfg (RefRel cfg) (refRel_envRel cfg) src toks env h rootEnv_wf
  exact ⟨t.wf rootEnv_wf, log, t, t.sound⟩

/-- **C12 (first definition wins, concrete model).**  What a normalised key resolves to in the final table of the block
pass is the data of the FIRST accepted definition with that key (`refBuild_first`); a key no accepted definition has
resolves to nothing. -/
theorem blockParse_first (cfg : MdCfg) (src : Str) (toks : List Json) (env : Json)
    (h : Model.blockParse cfg src = .ok (toks, env)) :
    ∃ log, RefTrace cfg rootEnv log env ∧ ∀ key, refLookup (absRefs env) key = firstDef log key := by
  obtain ⟨_, log, t, hb⟩ := blockParse_refs cfg src toks env h
  exact ⟨log, t, fun key => by rw [hb, refBuild_first]⟩

/-- once a key resolves during the block pass, it resolves to the same data ever after (`refBuild_append_stable`
generalised to a non-empty starting table) -/
theorem RefTrace.stable {cfg : MdCfg} {e e' : Json} {log : List (Str × Json)} (h : RefTrace cfg e log e')
    (key : Str) (d : Json) (hk : refLookup (absRefs e) key = some d) : refLookup (absRefs e') key = some d := by
  rw [h.sound, refBuild_lookup_gen, hk]; rfl

/-- with the use site (`parseLinkRef_lookup`): a reference `[text][label]` processed with the final `env` of the
block pass resolves by `firstDef log (unikey label)` -/
theorem blockParse_use (cfg : MdCfg) (src : Str) (toks : List Json) (env : Json)
    (h : Model.blockParse cfg src = .ok (toks, env)) :
    ∃ log, RefTrace cfg rootEnv log env ∧
      ∀ (R : Inl.Rec) (isImage : Bool) (text label : Str) (endPos : Nat) (st : Inl.InlineState), st.env = env →
        Inl.parseLinkRef R isImage text (some label) endPos st =
          linkRefResolve R isImage text label endPos st (firstDef log (unikeyPy label)) := by
  obtain ⟨hw, log, t, hb⟩ := blockParse_refs cfg src toks env h
  refine ⟨log, t, fun R isImage text label endPos st he => ?_⟩
  rw [parseLinkRef_lookup R isImage text label endPos st (by rw [he]; exact hw), he, hb, refBuild_first]

/-! ### non-vacuity -/

section Examples
open Mistune.Generated

def isOk {α : Type} (r : Except PyErr α) : Bool := match r with | .ok _ => true | .error _ => false

/-- the hypothesis of `blockParse_refs` holds on documents with duplicate definitions, in containers, with plugins -/
example : isOk (Model.blockParse (ofRuleCfg cfg_core) "[Foo]: /a\n[fOO]: /b\n\n> [foo]: /c\n\n- [bar]: /d\n".toList) = true := by
  decide +kernel

example : refsOfRun (Model.blockParse (ofRuleCfg cfg_core) "[Foo]: /a\n[fOO]: /b\n\n> [foo]: /c\n\n- [bar]: /d\n".toList)
    = some [("FOO".toList, "/a".toList), ("BAR".toList, "/d".toList)] := by decide +kernel

/-- the abstract machine on the corresponding log -/
example : (refBuild [] [("FOO".toList, 1), ("FOO".toList, 2), ("FOO".toList, 3), ("BAR".toList, 4)] : List (Str × Nat))
    = [("FOO".toList, 1), ("BAR".toList, 4)] := by decide

/-- `url` of every `link` among the children of the top-level tokens -/
def linkUrls (r : Except PyErr (List Json)) : Option (List Str) :=
  match r with
  | .ok toks => some (toks.flatMap (fun t => (t.getArr "children").filterMap (fun c =>
      if c.type == "link" then (c.get? "attrs").map (·.getStr "url") else none)))
  | .error _ => none

/-- use site: case and white-space variants of the label resolve to the FIRST definition; an undefined label stays text -/
example : linkUrls (Model.parseDoc (ofRuleCfg cfg_core) "[Foo  Bar]: /a\n[fOO bar]: /b\n\n[foo bar] [FOO\tBAR] [x][Foo BAR] [nope]\n".toList)
    = some ["/a".toList, "/a".toList, "/a".toList] := by decide +kernel

end Examples

end Model
end Mistune
