/-
Every inline handler bound by `Inl.parseMethod` returns a state with the SAME matching context (`st.x`): handlers only
append tokens, write `env` or flip `in_link`; children and speculative calls run on their own states.  No hypothesis on
the configuration, on `env` or on the recursive entry points (in particular none on the `abbr` plugin).
-/
import Mistune.Model.Inline
import MistuneProofs.C01Plugins
namespace Mistune
namespace Model
namespace Inl

/-- the result state (if any) has the matching context of `st` -/
def XS (st : InlineState) : HRes → Prop
  | .ok (_, st') => st'.x = st.x
  | .error _ => True

theorem XS.bind {α : Type} {st : InlineState} {e : Except PyErr α} {f : α → HRes}
    (h : ∀ a, e = .ok a → XS st (f a)) : XS st (e >>= f) := by
  cases e with
  | error err => exact True.intro
  | ok a => exact h a rfl

theorem XS.of {st : InlineState} {e : HRes} (h : XS st e) (r : Option Nat) (st' : InlineState)
    (he : e = .ok (r, st')) : st'.x = st.x := by
  subst he; exact h

theorem foldl_appendToken_x (l : List Json) : ∀ st : InlineState,
    (l.foldl (fun s t => s.appendToken t) st).x = st.x := by
  induction l with
  | nil => intro st; rfl
  | cons a l ih => intro st; exact (ih _).trans rfl

theorem renderIn_x (R : Rec) (child st : InlineState) (c : Array Json) (st' : InlineState)
    (h : R.renderIn child st = .ok (c, st')) : st'.x = st.x := by
  unfold Rec.renderIn at h
  cases hr : R.renderSt child with
  | error e => rw [hr] at h; cases h
  | ok cs => rw [hr] at h; cases h; rfl

theorem precedenceScan_x (cfg : MdCfg) (R : Rec) (m : RxMatch) (st : InlineState) (endPos : Nat)
    (rules : List String) : XS st (precedenceScan cfg R m st endPos rules) := by
  unfold precedenceScan
  dsimp only
  refine XS.bind (fun sc _ => ?_)
  cases scan { st.x with n := min endPos st.x.n } sc m.stop with
  | none => exact rfl
  | some p =>
    obtain ⟨lg, m1⟩ := p
    dsimp only
    refine XS.bind (fun sc2 _ => ?_)
    cases scanAt st.x sc2 m1.start with
    | none => exact rfl
    | some q =>
      obtain ⟨_, m2⟩ := q
      dsimp only
      refine XS.bind (fun res _ => ?_)
      obtain ⟨m2Pos, ns⟩ := res
      dsimp only
      cases m2Pos with
      | none => exact rfl
      | some p =>
        dsimp only
        split
        · exact rfl
        · show InlineState.x (Array.foldl _ _ _) = _
          rw [← Array.foldl_toList]
          exact (foldl_appendToken_x _ _).trans rfl

theorem parseLinkToken_x (R : Rec) (isImage : Bool) (text : Str) (attrs : Json) (st : InlineState) (t : Json)
    (st' : InlineState) (h : parseLinkToken R isImage text attrs st = .ok (t, st')) : st'.x = st.x := by
  unfold parseLinkToken at h
  dsimp only at h
  split at h
  · cases hr : R.renderIn _ st with
    | error e => rw [hr] at h; cases h
    | ok cs => rw [hr] at h; obtain ⟨c, s⟩ := cs; cases h; exact renderIn_x _ _ _ _ _ hr
  · cases hr : R.renderIn _ st with
    | error e => rw [hr] at h; cases h
    | ok cs => rw [hr] at h; obtain ⟨c, s⟩ := cs; cases h; exact renderIn_x _ _ _ _ _ hr

theorem XS.trans {st st1 : InlineState} {e : HRes} (h1 : st1.x = st.x) (h : XS st1 e) : XS st e := by
  cases e with
  | error err => exact True.intro
  | ok a => obtain ⟨r, s⟩ := a; exact (show s.x = st1.x from h).trans h1

theorem XS.linkTok {R : Rec} {i : Bool} {text : Str} {attrs : Json} {st : InlineState}
    {k : Json × InlineState → HRes} (hk : ∀ t s, s.x = st.x → XS st (k (t, s))) :
    XS st (parseLinkToken R i text attrs st >>= k) :=
  XS.bind (fun a ha => by obtain ⟨t, s⟩ := a; exact hk t s (parseLinkToken_x _ _ _ _ _ _ _ ha))

theorem XS.renderIn {R : Rec} {child st : InlineState} {k : Array Json × InlineState → HRes}
    (hk : ∀ c s, s.x = st.x → XS st (k (c, s))) : XS st (R.renderIn child st >>= k) :=
  XS.bind (fun a ha => by obtain ⟨c, s⟩ := a; exact hk c s (renderIn_x _ _ _ _ _ ha))

theorem XS.ptc {cfg : MdCfg} {t : Str} {st : InlineState} {k : InlineState → HRes}
    (hk : ∀ s, s.x = st.x → XS st (k s)) : XS st (processTextC cfg t st >>= k) :=
  XS.bind (fun s hs => hk s (processTextC_frame cfg t st s hs).x)

theorem XS.prec {cfg : MdCfg} {R : Rec} {m : RxMatch} {st : InlineState} {endPos : Nat} {rules : List String}
    {k : Option Nat × InlineState → HRes} (hk : ∀ p s, s.x = st.x → XS s (k (p, s))) :
    XS st (precedenceScan cfg R m st endPos rules >>= k) :=
  XS.bind (fun a ha => by
    obtain ⟨p, s⟩ := a
    have h1 : s.x = st.x := (precedenceScan_x _ _ _ _ _ _).of _ _ ha
    exact XS.trans h1 (hk p s h1))

theorem parseLinkRef_x (R : Rec) (isImage : Bool) (text : Str) (label : Option Str) (endPos : Nat)
    (st : InlineState) : XS st (parseLinkRef R isImage text label endPos st) := by
  unfold parseLinkRef
  cases label with
  | none => exact rfl
  | some label =>
    try dsimp only
    cases st.env.get? "ref_links" with
    | none => exact rfl
    | some refLinks =>
      try dsimp only
      split
      · exact rfl
      try dsimp only
      cases refLinks.get? (String.ofList (unikeyPy label)) with
      | none => exact rfl
      | some env =>
        try dsimp only
        split
        · exact rfl
        cases env.get? "url" with
        | none => exact True.intro
        | some u =>
          try dsimp only
          refine XS.bind (fun url _ => ?_)
          try dsimp only
          refine XS.linkTok (fun t s hs => ?_)
          exact hs

theorem parseLink_tail_x (cfg : MdCfg) (R : Rec) (m : RxMatch) (st : InlineState) (isImage : Bool) (text : Str)
    (endPos : Nat) (label : Option Str) (rules : List String) :
    XS st (do
      let (precPos, st) ← precedenceScan cfg R m st endPos rules
      if posTruthy precPos then pure (precPos, st) else
      if endPos < st.len then
        let c := st.x.s.getD endPos ' '
        if c == '(' then
          match ← parseLinkH cfg st.x (endPos + 1) with
          | some (attrs, pos2) =>
            if pos2 != 0 then
              let (token, st) ← parseLinkToken R isImage text attrs st
              pure (some pos2, st.appendToken token)
            else parseLinkRef R isImage text label endPos st
          | none => parseLinkRef R isImage text label endPos st
        else if c == '[' then
          match parseLinkLabel cfg st.x (endPos + 1) with
          | some (label2, pos2) =>
            if pos2 != 0 then
              parseLinkRef R isImage text (if label2.isEmpty then label else some label2) pos2 st
            else parseLinkRef R isImage text label endPos st
          | none => parseLinkRef R isImage text label endPos st
        else parseLinkRef R isImage text label endPos st
      else parseLinkRef R isImage text label endPos st) := by
  refine XS.prec (fun p s hs => ?_)
  try dsimp only
  split
  · exact rfl
  split
  · try dsimp only
    split
    · refine XS.bind (fun o _ => ?_)
      cases o with
      | none => exact parseLinkRef_x _ _ _ _ _ _
      | some q =>
        obtain ⟨attrs, pos2⟩ := q
        try dsimp only
        split
        · refine XS.linkTok (fun t s' hs' => ?_)
          exact hs'
        · exact parseLinkRef_x _ _ _ _ _ _
    · split
      · cases parseLinkLabel cfg s.x (endPos + 1) with
        | none => exact parseLinkRef_x _ _ _ _ _ _
        | some q =>
          obtain ⟨label2, pos2⟩ := q
          try dsimp only
          split
          · exact parseLinkRef_x _ _ _ _ _ _
          · exact parseLinkRef_x _ _ _ _ _ _
      · exact parseLinkRef_x _ _ _ _ _ _
  · exact parseLinkRef_x _ _ _ _ _ _

theorem parseLink_x (cfg : MdCfg) (R : Rec) (m : RxMatch) (st : InlineState) : XS st (parseLink cfg R m st) := by
  unfold parseLink
  try dsimp only
  cases hg : group0 st m with
  | nil => exact True.intro
  | cons c tl =>
    try dsimp only
    refine XS.bind (fun c0 _ => ?_)
    by_cases h1 : (c0 == '!' && st.inImage) = true
    · rw [if_pos h1]; exact rfl
    rw [if_neg h1]
    by_cases h2 : (!c0 == '!' && st.inLink) = true
    · rw [if_pos h2]; exact rfl
    rw [if_neg h2]
    cases hlab : parseLinkLabel cfg st.x m.stop with
    | some le =>
      obtain ⟨l, e⟩ := le
      try dsimp only
      refine XS.bind (fun te hte => ?_)
      simp only [pure, Except.pure, Except.ok.injEq] at hte
      subst hte
      try dsimp only
      split
      · exact rfl
      exact parseLink_tail_x cfg R m st _ _ _ _ _
    | none =>
      try dsimp only
      refine XS.bind (fun te _ => ?_)
      cases te with
      | none => exact rfl
      | some p =>
        obtain ⟨text, endPos⟩ := p
        try dsimp only
        split
        · exact rfl
        exact parseLink_tail_x cfg R m st _ _ _ _ _

theorem parseEmphasis_x (cfg : MdCfg) (R : Rec) (m : RxMatch) (st : InlineState) :
    XS st (parseEmphasis cfg R m st) := by
  unfold parseEmphasis
  try dsimp only
  by_cases h1 : ((group0 st m).length == 1 && st.inEmphasis) = true
  · rw [if_pos h1]; exact rfl
  rw [if_neg h1]
  by_cases h2 : ((group0 st m).length == 2 && st.inStrong) = true
  · rw [if_pos h2]; exact rfl
  rw [if_neg h2]
  split
  case h_2 => exact True.intro
  refine XS.bind (fun endRe _ => ?_)
  cases endRe.search st.x m.stop with
  | none => exact rfl
  | some m1 =>
    try dsimp only
    refine XS.prec (fun p s hs => ?_)
    try dsimp only
    split
    · exact rfl
    split
    · refine XS.renderIn (fun c s' hs' => ?_)
      exact hs'
    · split
      · refine XS.renderIn (fun c s' hs' => ?_)
        exact hs'
      · refine XS.renderIn (fun c s' hs' => ?_)
        exact hs'

theorem addAutoLink_x (cfg : MdCfg) (url text : Str) (st st' : InlineState)
    (h : addAutoLink cfg url text st = .ok st') : st'.x = st.x := by
  unfold addAutoLink at h
  cases hu : escapeUrl cfg url with
  | error e => rw [hu] at h; cases h
  | ok u => rw [hu] at h; cases h; rfl

theorem parseAutoLink_x (cfg : MdCfg) (m : RxMatch) (st : InlineState) : XS st (parseAutoLink cfg m st) := by
  unfold parseAutoLink
  dsimp only
  split
  · exact XS.ptc (fun s hs => hs)
  · exact XS.bind (fun s hs => addAutoLink_x _ _ _ _ _ hs)

theorem parseAutoEmail_x (cfg : MdCfg) (m : RxMatch) (st : InlineState) : XS st (parseAutoEmail cfg m st) := by
  unfold parseAutoEmail
  dsimp only
  split
  · exact XS.ptc (fun s hs => hs)
  · exact XS.bind (fun s hs => addAutoLink_x _ _ _ _ _ hs)

theorem parseCodespan_x (m : RxMatch) (st : InlineState) : XS st (parseCodespan m st) := by
  unfold parseCodespan
  dsimp only
  split <;> exact rfl

theorem parseInlineHtml_x (m : RxMatch) (st : InlineState) : XS st (parseInlineHtml m st) := by
  unfold parseInlineHtml
  dsimp only
  show InlineState.x (if _ then _ else _) = _
  split
  · rfl
  · split <;> rfl

theorem parseInlineFootnote_x (cfg : MdCfg) (m : RxMatch) (st : InlineState) :
    XS st (parseInlineFootnote cfg m st) := by
  unfold parseInlineFootnote
  dsimp only
  split
  · split
    · show InlineState.x (InlineState.appendToken (Prod.snd (if _ then _ else _)) _) = _
      split <;> rfl
    · show InlineState.x (InlineState.appendToken (Prod.snd (if _ then _ else _)) _) = _
      split <;> rfl
  · exact rfl

/-- **every handler keeps the matching context**, whatever the configuration, `env` and recursive entry points -/
theorem parseMethod_x (cfg : MdCfg) (R : Rec) (name : String) (m : RxMatch) (st : InlineState)
    (r : Option Nat) (st' : InlineState) (h : parseMethod cfg R name m st = .ok (r, st')) : st'.x = st.x := by
  by_cases hp : name ∈ provedPluginRules
  · exact (plugin_inline_contract cfg R name m st r st' hp h).2.2.x
  · unfold parseMethod at h
    split at h
    · cases h
    split at h
    · cases h; rfl
    · exact (parseCodespan_x _ _).of _ _ h
    · exact (parseEmphasis_x _ _ _ _).of _ _ h
    · exact (parseLink_x _ _ _ _).of _ _ h
    · exact (parseAutoLink_x _ _ _).of _ _ h
    · exact (parseAutoEmail_x _ _ _).of _ _ h
    · exact (parseInlineHtml_x _ _).of _ _ h
    · cases h; rfl
    · cases h; rfl
    · exact (parseInlineFootnote_x _ _ _).of _ _ h
    all_goals first
      | exact absurd (by decide) hp
      | cases h

end Inl
end Model
end Mistune
