/-
C01 (progress) for the directive handlers of `Mistune.Model.Directives`: `parseRstDirective`,
`parseFencedDirective`, `parseFencedCodeDir` satisfy the progress contract `Post` whenever the smaller-budget
`parse_method` instance does (they parse children with it).  Used by the dispatcher lemma `parseMethod_progress`.
-/
import MistuneProofs.C01Progress
import MistuneProofs.C01ProgressPlugins
import Mistune.Model.Directives
namespace Mistune
namespace Model
namespace Blk

/-- **obligation on regenerated data**: the RST `_directive_re` cannot match the empty string -/
theorem rstDirectiveRx_minLen : 1 ≤ (dirRx .rst).minLen := by decide +kernel

theorem parseTokens_good (cfg : MdCfg) (hf : CfgFacts cfg) (pm : ParseMethod) (hpm : PMProgress pm)
    (syn : DirSyntax) (text : Str) (st : BlockState) : Good (fun _ => True) (parseTokens cfg pm syn text st) := by
  unfold parseTokens
  exact Good.bind (parse_good cfg hf pm hpm _ (inv_childState _ _) _) (fun _ _ => Good.pure trivial)

theorem admonitionParse_good (cfg : MdCfg) (hf : CfgFacts cfg) (pm : ParseMethod) (hpm : PMProgress pm)
    (d : DirMatch) (st : BlockState) : Good (fun _ => True) (admonitionParse cfg pm d st) := by
  unfold admonitionParse
  refine Good.bind (parseTokens_good cfg hf pm hpm _ _ _) ?_
  rintro ⟨toks, env⟩ _
  exact Good.pure trivial

theorem figureContent_good (cfg : MdCfg) (hf : CfgFacts cfg) (pm : ParseMethod) (hpm : PMProgress pm)
    (d : DirMatch) (st : BlockState) : Good (fun _ => True) (figureContent cfg pm d st) := by
  unfold figureContent
  dsimp only
  split
  · exact Good.pure trivial
  · refine Good.bind (parseTokens_good cfg hf pm hpm _ _ _) ?_
    rintro ⟨tokens, env⟩ _
    dsimp only
    split
    · exact Good.pure trivial
    · refine Good.bind (typeOf_good _) (fun a _ => ?_)
      split <;> exact Good.pure trivial

theorem figureParse_good (cfg : MdCfg) (hf : CfgFacts cfg) (pm : ParseMethod) (hpm : PMProgress pm)
    (d : DirMatch) (st : BlockState) : Good (fun _ => True) (figureParse cfg pm d st) := by
  unfold figureParse
  refine Good.bind (figureContent_good cfg hf pm hpm _ _) ?_
  rintro ⟨content, env⟩ _
  exact Good.pure trivial

theorem includeParse_good (st : BlockState) : Good (fun _ => True) (includeParse st) := by
  unfold includeParse
  split
  · split
    · exact Good.err (by decide)
    · exact Good.ok trivial
  · exact Good.ok trivial

theorem tocParse_good (cfg : MdCfg) (d : DirMatch) (st : BlockState) : Good (fun _ => True) (tocParse cfg d st) := by
  unfold tocParse
  dsimp only
  split <;> exact Good.ok trivial

theorem dirTokens_good (cfg : MdCfg) (hf : CfgFacts cfg) (pm : ParseMethod) (hpm : PMProgress pm)
    (d : DirMatch) (st : BlockState) : Good (fun _ => True) (dirTokens cfg pm d st) := by
  unfold dirTokens
  split
  · exact admonitionParse_good cfg hf pm hpm d st
  · exact Good.ok trivial
  · exact figureParse_good cfg hf pm hpm d st
  · exact includeParse_good st
  · exact tocParse_good cfg d st
  · exact Good.err (by decide)
  · exact Good.ok trivial

/-- `BaseDirective.parse_method` appends tokens and continues with the children's `env`: the frame is untouched -/
theorem dirParseMethod_good (cfg : MdCfg) (hf : CfgFacts cfg) (pm : ParseMethod) (hpm : PMProgress pm)
    (d : DirMatch) (st : BlockState) : Good (SameFrame st) (dirParseMethod cfg pm d st) := by
  unfold dirParseMethod
  refine Good.bind (dirTokens_good cfg hf pm hpm d st) ?_
  rintro ⟨toks, env⟩ _
  exact Good.pure ⟨rfl, rfl, rfl⟩

theorem parseRstDirective_good (cfg : MdCfg) (hf : CfgFacts cfg) (pm : ParseMethod) (hpm : PMProgress pm)
    (name : String) (mt : RxMatch) (st : BlockState) (hpre : Pre name mt st) :
    Good (Post st) (parseRstDirective cfg pm mt st) := by
  obtain ⟨hinv, h2, h3, h4, _⟩ := hpre
  unfold parseRstDirective
  split
  · exact Good.ok (Post.of_frame SameFrame.refl PosOk.none)
  · rename_i m2 hm2
    obtain ⟨a1, a2, a3, a4⟩ := pyMatchAt_sound _ _ _ _ hm2
    have hne := nonempty_of_minLen _ _ _ _ _ _ a4 rstDirectiveRx_minLen
    refine Good.bind (dirParseMethod_good cfg hf pm hpm _ st) (fun st' hfr => ?_)
    refine Good.pure (Post.of_frame hfr (PosOk.some ?_))
    have : st.cursor ≤ st.x.n := by omega
    rw [Nat.min_eq_left this] at a1
    omega

theorem processDirective_good (cfg : MdCfg) (hf : CfgFacts cfg) (pm : ParseMethod) (hpm : PMProgress pm)
    (name : String) (mt : RxMatch) (st : BlockState) (hpre : Pre name mt st) (marker : Str) :
    Good (Post st) (processDirective cfg pm marker mt.start st) := by
  obtain ⟨hinv, h2, h3, h4, _⟩ := hpre
  unfold processDirective
  cases marker with
  | nil => exact Good.err (by decide)
  | cons c mrest =>
    simp only [pure_bind]
    have key : st.cursor <
        (match Py.search (fenceEndRx c (c :: mrest).length) st.x (mt.start + (c :: mrest).length) with
          | some m => (Py.slice st.x.s (mt.start + (c :: mrest).length) m.start, m.stop)
          | none => (Py.slice st.x.s (mt.start + (c :: mrest).length) st.x.s.size, st.cursorMax)).2 := by
      split
      · rename_i m hm
        have := pySearch_sound _ _ _ _ hm
        simp only [List.length_cons] at this ⊢
        omega
      · unfold Inv at hinv
        simp only
        omega
    split
    · exact Good.pure (Post.of_frame SameFrame.refl PosOk.none)
    · refine Good.bind (dirParseMethod_good cfg hf pm hpm _ st) (fun st' hfr => ?_)
      exact Good.pure (Post.of_frame hfr (PosOk.some key))

theorem parseFencedDirective_good (cfg : MdCfg) (hf : CfgFacts cfg) (pm : ParseMethod) (hpm : PMProgress pm)
    (name : String) (mt : RxMatch) (st : BlockState) (hpre : Pre name mt st) :
    Good (Post st) (parseFencedDirective cfg pm mt st) := by
  unfold parseFencedDirective
  exact processDirective_good cfg hf pm hpm name mt st hpre _

theorem parseFencedCodeDir_good (cfg : MdCfg) (hf : CfgFacts cfg) (pm : ParseMethod) (hpm : PMProgress pm)
    (name : String) (mt : RxMatch) (st : BlockState) (hpre : Pre name mt st) :
    Good (Post st) (parseFencedCodeDir cfg pm mt st) := by
  unfold parseFencedCodeDir
  dsimp only
  split
  · exact parseFencedCode_good cfg name mt st hpre
  · split
    · exact parseFencedCode_good cfg name mt st hpre
    · exact processDirective_good cfg hf pm hpm name mt st hpre _

end Blk
end Model
end Mistune
