/-
C01, progress at DOCUMENT level: `Model.parseDoc` (hook lists, block pass, second pass `iterRender` /
`Hooks.iterRenderEnv`, `md_footnotes_hook`) never returns `.noProgress`.
-/
import Mistune.Model.Doc
import MistuneProofs.C01ProgressList
import MistuneProofs.C01ProgressInline
namespace Mistune
namespace Model
open Mistune.Model.Blk (Good good_mapM getE_good typeOf_good childrenOf_good)
open Mistune.Model.Inl (AbbrOk AbbrKeys EnvSame IFacts ICfgOk iFacts_of_ok)

/-! ### the inline entry points -/

theorem inlineParseEnv_good (cfg : MdCfg) (hf : IFacts cfg) (env : Json) (hab : AbbrOk cfg env) (src : Str) :
    Good (fun res => EnvSame env res.2) (Model.inlineParseEnv cfg env src) := by
  unfold Model.inlineParseEnv Inl.inlineParseEnv
  split
  · exact Good.throw (by decide)
  · have hR := Inl.recAt_ok cfg hf Inl.inlineFuel
    unfold Inl.renderSt
    refine Good.bind (Inl.parse_good cfg hf _ hR ((Inl.InlineState.new env).setSrc src) (Inl.mkCtx_n_le _ _) hab)
      (fun st h => ?_)
    exact Good.pure h.2

theorem inlineParse_good (cfg : MdCfg) (hf : IFacts cfg) (env : Json) (hab : AbbrOk cfg env) (src : Str) :
    Good (fun _ => True) (Model.inlineParse cfg env src) := by
  unfold Model.inlineParse Inl.inlineParse
  refine Good.bind (inlineParseEnv_good cfg hf env hab src) ?_
  rintro ⟨toks, e⟩ _
  exact Good.pure trivial

/-! ### the second pass -/

theorem iterRenderG_good (inl : Str → Except PyErr (List Json)) (hinl : ∀ s, Good (fun _ => True) (inl s)) :
    ∀ (fuel : Nat) (toks : List Json), Good (fun _ => True) (iterRenderG inl fuel toks) := by
  intro fuel
  induction fuel with
  | zero => intro toks; exact Good.err (by decide)
  | succ fuel ih =>
    intro toks
    unfold iterRenderG
    refine good_mapM _ (fun t => ?_) toks
    split
    · exact Good.bind (ih _) (fun _ _ => Good.pure trivial)
    · split
      · exact Good.bind (hinl _) (fun _ _ => Good.pure trivial)
      · exact Good.pure trivial

theorem good_foldlM {α β : Type} (I : β → Prop) (f : β → α → Except PyErr β)
    (hf : ∀ b a, I b → Good I (f b a)) : ∀ (l : List α) (b : β), I b → Good I (l.foldlM f b) := by
  intro l
  induction l with
  | nil => intro b hb; rw [List.foldlM_nil]; exact Good.pure hb
  | cons a l ih =>
    intro b hb
    rw [List.foldlM_cons]
    exact Good.bind (hf b a hb) (fun b' hb' => ih b' hb')

theorem iterRenderEnv_good (cfg : MdCfg) (hf : IFacts cfg) :
    ∀ (fuel : Nat) (env : Json) (toks : List Json), AbbrOk cfg env →
      Good (fun res => AbbrOk cfg res.2) (Hooks.iterRenderEnv cfg fuel env toks) := by
  intro fuel
  induction fuel with
  | zero => intro env toks _; exact Good.err (by decide)
  | succ fuel ih =>
    intro env toks hab
    unfold Hooks.iterRenderEnv
    refine good_foldlM (fun (acc : List Json × Json) => AbbrOk cfg acc.2) _ ?_ toks ([], env) hab
    rintro ⟨out, env1⟩ t hab1
    dsimp only at hab1 ⊢
    split
    · refine Good.bind (ih _ _ hab1) ?_
      rintro ⟨cs, env2⟩ h2
      exact Good.pure h2
    · split
      · refine Good.bind (inlineParseEnv_good cfg hf env1 hab1 _) ?_
        rintro ⟨cs, env2⟩ h2
        exact Good.pure (hab1.of_same h2)
      · exact Good.pure hab1


/-! ### the hooks -/

/-- one step of the routine proof that a computation without loops never reports `.noProgress` -/
macro "good_step" : tactic => `(tactic| first
  | apply_assumption
  | exact Good.pure trivial
  | exact Good.ok trivial
  | exact Good.err (by decide)
  | exact Good.throw (by decide)
  | exact getE_good _ _
  | exact typeOf_good _
  | exact childrenOf_good _
  | refine Good.bind (Q := fun _ => True) ?_ (fun _ _ => ?_)
  | split)

theorem rewriteListItem_good (cfg : MdCfg) (t : Json) : Good (fun _ => True) (Hooks.rewriteListItem cfg t) := by
  unfold Hooks.rewriteListItem
  dsimp only
  repeat good_step

theorem rewriteAllListItems_good (cfg : MdCfg) :
    ∀ (fuel : Nat) (toks : List Json), Good (fun _ => True) (Hooks.rewriteAllListItems cfg fuel toks) := by
  intro fuel
  induction fuel with
  | zero => intro toks; exact Good.err (by decide)
  | succ fuel ih =>
    intro toks
    unfold Hooks.rewriteAllListItems
    refine good_mapM _ (fun t => ?_) toks
    refine Good.bind (typeOf_good _) (fun ty _ => ?_)
    extract_lets +onlyGivenNames jp
    have hjp : ∀ t', Good (fun _ => True) (jp t') := by
      intro t'
      show Good _ (match t'.get? "children" with | some (Json.arr cs) => _ | some _ => _ | none => _)
      split
      · exact Good.bind (ih _) (fun _ _ => Good.pure trivial)
      · exact Good.throw (by decide)
      · exact Good.pure trivial
    clear_value jp
    split
    · exact Good.bind (rewriteListItem_good cfg t) (fun t' _ => hjp t')
    · simp only [pure_bind]; exact hjp _

theorem beforeRender_good (cfg : MdCfg) : ∀ (hooks : List String) (toks : List Json),
    Good (fun _ => True) (Hooks.beforeRender cfg hooks toks) := by
  intro hooks
  induction hooks with
  | nil => intro toks; exact Good.ok trivial
  | cons h rest ih =>
    intro toks
    unfold Hooks.beforeRender
    have h1 : ∀ t, Good (fun _ => True) (Hooks.taskListsHook cfg t) := fun t => rewriteAllListItems_good cfg _ _
    extract_lets +onlyGivenNames jp
    have hjp : ∀ t, Good (fun _ => True) (jp t) := fun t => ih t
    clear_value jp
    split
    · exact Good.bind (h1 _) (fun t _ => hjp t)
    · exact (by decide : PyErr.keyError ≠ PyErr.noProgress)

theorem parseFootnoteItem_good (cfg : MdCfg) (key : Str) (index : Nat) (env : Json) :
    Good (fun _ => True) (Hooks.parseFootnoteItem cfg key index env) := by
  unfold Hooks.parseFootnoteItem
  extract_lets +onlyGivenNames ref
  split
  · exact Good.throw (by decide)
  · show Good _ (Blk.getE ref (String.ofList key) >>= _)
    refine Good.bind (getE_good _ _) (fun v _ => ?_)
    split
    · exact Good.pure trivial
    · exact (by decide : PyErr.typeError ≠ PyErr.noProgress)

theorem footnoteItems_good (cfg : MdCfg) (env : Json) : ∀ (l : List Json) (i : Nat),
    Good (fun _ => True) (Hooks.footnoteItems cfg env l i) := by
  intro l
  induction l with
  | nil => intro i; exact Good.ok trivial
  | cons k rest ih =>
    intro i
    unfold Hooks.footnoteItems
    extract_lets +onlyGivenNames jp
    have hjp : ∀ key, Good (fun _ => True) (jp key) := by
      intro key
      refine Good.bind (parseFootnoteItem_good cfg _ _ env) (fun item _ => ?_)
      exact Good.bind (ih _) (fun _ _ => Good.pure trivial)
    clear_value jp
    split
    · simp only [pure_bind]; exact hjp _
    · exact (by decide : PyErr.typeError ≠ PyErr.noProgress)

theorem mdFootnotesHook_good (cfg : MdCfg) (hf : IFacts cfg) (result : List Json) (env : Json) :
    Good (fun _ => True) (Hooks.mdFootnotesHook cfg result env) := by
  unfold Hooks.mdFootnotesHook
  extract_lets +onlyGivenNames notes
  split
  · exact Good.pure trivial
  · have hjp : ∀ l, Good (fun _ => True) (do
        let children ← Hooks.footnoteItems cfg env l 0
        have refLinks : Json := (env.get? "ref_links").getD Json.null
        have env2 : Json :=
          if refLinks.truthy = true then Json.obj [("ref_links", refLinks)] else Json.obj [("ref_links", Json.obj [])]
        let __x ← Hooks.renderState cfg [tok "footnotes" [("children", Json.arr children)]] env2
        match __x with
          | (output, _) => (pure (result ++ output) : Except PyErr (List Json))) := by
      intro l
      refine Good.bind (footnoteItems_good cfg env l 0) (fun children _ => ?_)
      extract_lets +onlyGivenNames refLinks env2
      have hab2 : AbbrOk cfg env2 := by
        apply Mistune.abbrOk_of_none
        show (if refLinks.truthy = true then _ else _ : Json).get? "ref_abbrs" = none
        split <;> rfl
      refine Good.bind (iterRenderEnv_good cfg hf 64 env2 _ hab2) ?_
      rintro ⟨output, e⟩ _
      exact Good.pure trivial
    show Good _ (match (env.get? "footnotes").getD Json.null with | Json.arr l => _ | _ => _)
    split
    · exact hjp _
    · exact (by decide : PyErr.typeError ≠ PyErr.noProgress)


theorem afterRender_good (cfg : MdCfg) (hf : IFacts cfg) (env : Json) : ∀ (hooks : List String) (result : List Json),
    Good (fun _ => True) (Hooks.afterRender cfg env hooks result) := by
  intro hooks
  induction hooks with
  | nil => intro result; exact Good.ok trivial
  | cons h rest ih =>
    intro result
    unfold Hooks.afterRender
    extract_lets +onlyGivenNames jp
    have hjp : ∀ t, Good (fun _ => True) (jp t) := fun t => ih t
    clear_value jp
    split
    · exact Good.bind (mdFootnotesHook_good cfg hf _ env) (fun t _ => hjp t)
    · exact (by decide : PyErr.keyError ≠ PyErr.noProgress)

/-! ### `Markdown.parse` -/

/-- the decidable obligation on a configuration for the whole document pipeline -/
def DocCfgOk (cfg : MdCfg) : Bool := Blk.CfgOk cfg && ICfgOk cfg

/-- the document pipeline never reports `.noProgress`, provided the `env` the block pass returns has no empty
abbreviation key (`AbbrOk`: a condition only for configurations with the `abbr` plugin) -/
theorem parseDoc_good (cfg : MdCfg) (hok : DocCfgOk cfg = true) (s : Str)
    (henv : ∀ toks env, Model.blockParse cfg (norm s) = .ok (toks, env) → AbbrOk cfg env) :
    Good (fun _ => True) (parseDoc cfg s) := by
  unfold DocCfgOk at hok
  simp only [Bool.and_eq_true] at hok
  have hf := iFacts_of_ok hok.2
  have hb : Good (fun res => AbbrOk cfg res.2) (Model.blockParse cfg (norm s)) := by
    have h1 := Model.blockParse_no_noProgress cfg hok.1 (norm s)
    cases hr : Model.blockParse cfg (norm s) with
    | ok a => exact henv a.1 a.2 hr
    | error e => rw [hr] at h1; exact fun he => h1 (by rw [he])
  unfold parseDoc
  have hmain : Good (fun _ => True) (do
      let __x ← blockParse cfg (norm s)
      match __x with
        | (toks, env) => do
          let toks ← Hooks.beforeRender cfg cfg.beforeRenderHooks toks
          have __do_jp : List Json × Json → Except PyErr (List Json) := fun __x =>
            match __x with
            | (result, env) => Hooks.afterRender cfg env cfg.afterRenderHooks result
          if cfg.inlineRules.contains "footnote" = true then do
              let __x ← Hooks.renderState cfg toks env
              __do_jp __x
            else do
              let __do_lift ← iterRender cfg env 64 toks
              let __x ← pure (__do_lift, env)
              __do_jp __x) := by
    refine Good.bind hb ?_
    rintro ⟨toks, env⟩ hab
    dsimp only at hab ⊢
    refine Good.bind (beforeRender_good cfg _ toks) (fun toks2 _ => ?_)
    split
    · refine Good.bind (iterRenderEnv_good cfg hf 64 env toks2 hab) ?_
      rintro ⟨result, env2⟩ _
      exact afterRender_good cfg hf _ _ _
    · refine Good.bind (iterRenderG_good _ (fun src => inlineParse_good cfg hf env hab src) _ _) (fun r _ => ?_)
      exact afterRender_good cfg hf _ _ _
  by_cases hc : (!cfg.beforeParseHooks.isEmpty) = true
  · simp only [hc, if_true]
    exact (by decide : PyErr.keyError ≠ PyErr.noProgress)
  · simp only [hc]
    exact hmain

end Model
end Mistune

namespace Mistune
open Mistune.Model Mistune.Model.Inl Mistune.Generated

/-- **C01, document level (partial).**  `Markdown.parse` (hooks, block pass, inline pass, footnotes hook) never
reaches a stalled loop — for a configuration WITH the `abbr` plugin under the hypothesis that the `env` returned by
the block pass has no empty abbreviation key.  FULL STATEMENT (not yet proved): the same without `henv`; what is
missing is `AbbrKeys env` for the `env` of `Model.blockParse`, i.e. that the group `abbr_key` (`[^\]]+`) of every
match handed to `parse_ref_abbr` is non-empty. -/
theorem Model.parseDoc_no_noProgress_partial (cfg : MdCfg) (hok : DocCfgOk cfg = true) (s : Str)
    (henv : ∀ toks env, Model.blockParse cfg (norm s) = .ok (toks, env) → AbbrOk cfg env) :
    Model.parseDoc cfg s ≠ .error .noProgress :=
  (parseDoc_good cfg hok s henv).noProgress

/-- **C01, document level**, every configuration without the `abbr` plugin: no hypothesis on the source at all -/
theorem Model.parseDoc_no_noProgress (cfg : MdCfg) (hok : DocCfgOk cfg = true)
    (hno : (cfg.blockSpec.lookup "ref_abbr").isSome = false) (s : Str) :
    Model.parseDoc cfg s ≠ .error .noProgress :=
  Model.parseDoc_no_noProgress_partial cfg hok s (fun _ env _ => abbrOk_of_unregistered cfg env hno)

/-- **Obligation:** every regenerated configuration passes the document-level check (configurations whose hooks /
rules the model does not transcribe return `.keyError`, which is not `.noProgress`: no exclusion is needed). -/
theorem allCfgs_docCfgOk : allCfgs.all (fun c => DocCfgOk (ofRuleCfg c)) = true := by decide +kernel

/-- the configurations with the `abbr` plugin (the only ones for which `parseDoc_no_noProgress_partial` keeps its
hypothesis) -/
def abbrCfgs : List String :=
  (allCfgs.filter (fun c => ((ofRuleCfg c).blockSpec.lookup "ref_abbr").isSome)).map (·.name)

theorem allCfgs_parseDoc_no_noProgress (c : RuleCfg) (hc : c ∈ allCfgs)
    (hno : ((ofRuleCfg c).blockSpec.lookup "ref_abbr").isSome = false) (s : Str) :
    Model.parseDoc (ofRuleCfg c) s ≠ .error .noProgress :=
  Model.parseDoc_no_noProgress _ (List.all_eq_true.1 allCfgs_docCfgOk c hc) hno s

-- non-vacuity
example : DocCfgOk (ofRuleCfg cfg_core) = true := by decide +kernel
example : isOkRes (Model.parseDoc (ofRuleCfg cfg_core) "# a *b*\n\n> c\n".toList) = true := by decide +kernel
example : isOkRes (Model.parseDoc (ofRuleCfg cfg_only_footnotes) "a[^1]\n\n[^1]: note\n".toList) = true := by
  decide +kernel

end Mistune
