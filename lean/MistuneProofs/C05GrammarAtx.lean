/-
C05 for the concrete model: the hypothesis `CfgAtx` of `parseDoc_wf` (the ATX rules capture one to six `#` in
group `atx_1`) follows from a structural, decidable check of the regenerated regexes (`capOk`).
-/
import MistuneProofs.C05Grammar
namespace Mistune

/-- `#{1,6}` -/
def Rx.hashRun : Rx → Bool
  | .rep (.cls false [.chr 35]) 1 (some 6) _ => true
  | _ => false

/-- every group 1 of the regex is `(#{1,6})` -/
def Rx.capOk : Rx → Bool
  | .grp idx r => if idx == 1 then r.hashRun else r.capOk
  | .seq a b => a.capOk && b.capOk
  | .alt a b => a.capOk && b.capOk
  | .rep r _ _ _ => r.capOk
  | .look _ _ _ r => r.capOk
  | _ => true

def CapInv (x : RxCtx) (c : Caps) : Prop := ∀ a b, c.get 1 = some (a, b) → a + 1 ≤ b ∧ b ≤ a + 6 ∧ b ≤ x.s.size

theorem iter_hash {x : RxCtx} {cnt i : Nat} {c : Caps} {j : Nat} {c' : Caps}
    (h : Iter (Spec x (.cls false [.chr 35])) cnt i c j c') : j = i + cnt ∧ (0 < cnt → j ≤ x.s.size) ∧ c' = c := by
  induction h with
  | zero i c => exact ⟨rfl, fun h => by omega, rfl⟩
  | @succ n i j k c c' c'' hs _ ih =>
    simp only [Spec] at hs
    obtain ⟨_, h2, h3, h4⟩ := hs
    subst h3 h4
    refine ⟨by omega, fun _ => ?_, ih.2.2⟩
    by_cases hn : 0 < n
    · exact ih.2.1 hn
    · have : n = 0 := by omega
      subst this
      have hk := ih.1
      simp [clsTest, ClsItem.test, RxCtx.chr] at h2
      by_cases hlt : i < x.s.size
      · omega
      · simp [hlt] at h2

theorem capOk_sound (x : RxCtx) (r : Rx) : ∀ (i : Nat) (c : Caps) (j : Nat) (c' : Caps),
    Spec x r i c j c' → r.capOk = true → CapInv x c → CapInv x c' := by
  induction r with
  | grp idx r ih =>
    intro i c j c' h hok hc
    simp only [Spec] at h
    obtain ⟨c0, h1, h2⟩ := h
    subst h2
    simp only [Rx.capOk] at hok
    split at hok
    · rename_i hidx
      have : idx = 1 := by simpa using hidx
      subst this
      unfold Rx.hashRun at hok
      split at hok
      · simp only [Spec] at h1
        obtain ⟨cnt, k1, k2, hit⟩ := h1
        have k3 := k2 6 rfl
        obtain ⟨e1, e2, _⟩ := iter_hash hit
        intro a b hab
        simp [Caps.get, List.lookup] at hab
        obtain ⟨rfl, rfl⟩ := hab
        exact ⟨by omega, by omega, e2 (by omega)⟩
      · cases hok
    · rename_i hidx
      have hne : (1 == idx) = false := by
        have : ¬ idx = 1 := by simpa using hidx
        simpa using (fun e : 1 = idx => this e.symm)
      have := ih _ _ _ _ h1 hok hc
      intro a b hab
      simp only [Caps.get, List.lookup, hne] at hab
      exact this a b hab
  | seq a b iha ihb =>
    intro i c j c' h hok hc
    simp only [Spec] at h
    obtain ⟨m, cm, h1, h2⟩ := h
    simp only [Rx.capOk, Bool.and_eq_true] at hok
    exact ihb _ _ _ _ h2 hok.2 (iha _ _ _ _ h1 hok.1 hc)
  | alt a b iha ihb =>
    intro i c j c' h hok hc
    simp only [Spec] at h
    simp only [Rx.capOk, Bool.and_eq_true] at hok
    rcases h with h | h
    · exact iha _ _ _ _ h hok.1 hc
    · exact ihb _ _ _ _ h hok.2 hc
  | rep r mn mx g ih =>
    intro i c j c' h hok hc
    simp only [Spec] at h
    obtain ⟨cnt, -, -, hit⟩ := h
    simp only [Rx.capOk] at hok
    revert hc
    induction hit with
    | zero => intro hc; exact hc
    | succ hs _ ih2 => intro hc; exact ih2 (ih _ _ _ _ hs hok hc)
  | look ahead neg w r ih =>
    intro i c j c' h hok hc
    simp only [Rx.capOk] at hok
    cases ahead <;> cases neg <;> simp only [Spec] at h
    · exact ih _ _ _ _ h.2.2 hok hc
    · rw [h.2]; exact hc
    · obtain ⟨_, e, he⟩ := h
      exact ih _ _ _ _ he hok hc
    · rw [h.2]; exact hc
  | backref idx =>
    intro i c j c' h _ hc
    simp only [Spec] at h
    obtain ⟨a, b, _, _, _, _, e⟩ := h
    rw [e]; exact hc
  | eps => intro i c j c' h _ hc; simp only [Spec] at h; rw [h.2]; exact hc
  | fail => intro i c j c' h; simp only [Spec] at h
  | cls => intro i c j c' h _ hc; simp only [Spec] at h; rw [h.2.2.2]; exact hc
  | any => intro i c j c' h _ hc; simp only [Spec] at h; rw [h.2.2.2]; exact hc
  | bos => intro i c j c' h _ hc; simp only [Spec] at h; rw [h.2.2]; exact hc
  | bol => intro i c j c' h _ hc; simp only [Spec] at h; rw [h.2.2]; exact hc
  | eos => intro i c j c' h _ hc; simp only [Spec] at h; rw [h.2.2]; exact hc
  | eol => intro i c j c' h _ hc; simp only [Spec] at h; rw [h.2.2]; exact hc
  | eosStrict => intro i c j c' h _ hc; simp only [Spec] at h; rw [h.2.2]; exact hc
  | wordb => intro i c j c' h _ hc; simp only [Spec] at h; rw [h.2.2]; exact hc
  | nwordb => intro i c j c' h _ hc; simp only [Spec] at h; rw [h.2.2]; exact hc

/-- every match of the regex captures group 1 -/
def Rx.mustCap : Rx → Bool
  | .grp idx r => idx == 1 || r.mustCap
  | .seq a b => a.mustCap || b.mustCap
  | .alt a b => a.mustCap && b.mustCap
  | _ => false

def CapSome (c : Caps) : Prop := (c.get 1).isSome = true

theorem capSome_cons (idx : Nat) (p : Nat × Nat) (c : Caps) (h : idx = 1 ∨ CapSome c) : CapSome ((idx, p) :: c) := by
  unfold CapSome Caps.get at *
  by_cases e : idx = 1
  · subst e; simp [List.lookup]
  · have hne : (1 == idx) = false := by simpa using (fun e' : 1 = idx => e e'.symm)
    simp only [List.lookup, hne]
    rcases h with h | h
    · exact absurd h e
    · exact h

theorem capSome_mono (x : RxCtx) (r : Rx) : ∀ (i : Nat) (c : Caps) (j : Nat) (c' : Caps),
    Spec x r i c j c' → CapSome c → CapSome c' := by
  induction r with
  | grp idx r ih =>
    intro i c j c' h hc
    simp only [Spec] at h
    obtain ⟨c0, h1, h2⟩ := h
    subst h2
    exact capSome_cons _ _ _ (Or.inr (ih _ _ _ _ h1 hc))
  | seq a b iha ihb =>
    intro i c j c' h hc
    simp only [Spec] at h
    obtain ⟨m, cm, h1, h2⟩ := h
    exact ihb _ _ _ _ h2 (iha _ _ _ _ h1 hc)
  | alt a b iha ihb =>
    intro i c j c' h hc
    simp only [Spec] at h
    rcases h with h | h
    · exact iha _ _ _ _ h hc
    · exact ihb _ _ _ _ h hc
  | rep r mn mx g ih =>
    intro i c j c' h hc
    simp only [Spec] at h
    obtain ⟨cnt, -, -, hit⟩ := h
    revert hc
    induction hit with
    | zero => intro hc; exact hc
    | succ hs _ ih2 => intro hc; exact ih2 (ih _ _ _ _ hs hc)
  | look ahead neg w r ih =>
    intro i c j c' h hc
    cases ahead <;> cases neg <;> simp only [Spec] at h
    · exact ih _ _ _ _ h.2.2 hc
    · rw [h.2]; exact hc
    · obtain ⟨_, e, he⟩ := h
      exact ih _ _ _ _ he hc
    · rw [h.2]; exact hc
  | backref idx =>
    intro i c j c' h hc
    simp only [Spec] at h
    obtain ⟨a, b, _, _, _, _, e⟩ := h
    rw [e]; exact hc
  | eps => intro i c j c' h hc; simp only [Spec] at h; rw [h.2]; exact hc
  | fail => intro i c j c' h; simp only [Spec] at h
  | cls => intro i c j c' h hc; simp only [Spec] at h; rw [h.2.2.2]; exact hc
  | any => intro i c j c' h hc; simp only [Spec] at h; rw [h.2.2.2]; exact hc
  | bos => intro i c j c' h hc; simp only [Spec] at h; rw [h.2.2]; exact hc
  | bol => intro i c j c' h hc; simp only [Spec] at h; rw [h.2.2]; exact hc
  | eos => intro i c j c' h hc; simp only [Spec] at h; rw [h.2.2]; exact hc
  | eol => intro i c j c' h hc; simp only [Spec] at h; rw [h.2.2]; exact hc
  | eosStrict => intro i c j c' h hc; simp only [Spec] at h; rw [h.2.2]; exact hc
  | wordb => intro i c j c' h hc; simp only [Spec] at h; rw [h.2.2]; exact hc
  | nwordb => intro i c j c' h hc; simp only [Spec] at h; rw [h.2.2]; exact hc

theorem mustCap_sound (x : RxCtx) (r : Rx) : ∀ (i : Nat) (c : Caps) (j : Nat) (c' : Caps),
    Spec x r i c j c' → r.mustCap = true → CapSome c' := by
  induction r with
  | grp idx r ih =>
    intro i c j c' h hm
    simp only [Spec] at h
    obtain ⟨c0, h1, h2⟩ := h
    subst h2
    simp only [Rx.mustCap, Bool.or_eq_true, beq_iff_eq] at hm
    rcases hm with hm | hm
    · exact capSome_cons _ _ _ (Or.inl hm)
    · exact capSome_cons _ _ _ (Or.inr (ih _ _ _ _ h1 hm))
  | seq a b iha ihb =>
    intro i c j c' h hm
    simp only [Spec] at h
    obtain ⟨m, cm, h1, h2⟩ := h
    simp only [Rx.mustCap, Bool.or_eq_true] at hm
    rcases hm with hm | hm
    · exact capSome_mono x b _ _ _ _ h2 (iha _ _ _ _ h1 hm)
    · exact ihb _ _ _ _ h2 hm
  | alt a b iha ihb =>
    intro i c j c' h hm
    simp only [Spec] at h
    simp only [Rx.mustCap, Bool.and_eq_true] at hm
    rcases h with h | h
    · exact iha _ _ _ _ h hm.1
    · exact ihb _ _ _ _ h hm.2
  | _ => intro i c j c' _ hm; simp [Rx.mustCap] at hm

open Model in
/-- a match of a checked regex has one to six characters in group `atx_1` -/
theorem atx_group (cfg : MdCfg) (hg : cfg.groups.lookup "atx_1" = some 1) (x : RxCtx) (r : Rx) (mt : RxMatch)
    (hs : Spec x r mt.start [] mt.stop mt.caps) (h1 : r.capOk = true) (h2 : r.mustCap = true) :
    1 ≤ (groupNamed cfg x.s mt "atx_1").length ∧ (groupNamed cfg x.s mt "atx_1").length ≤ 6 := by
  have hinv := capOk_sound x r _ _ _ _ hs h1 (fun a b h => by simp [Caps.get, List.lookup] at h)
  have hsome := mustCap_sound x r _ _ _ _ hs h2
  unfold CapSome at hsome
  cases hc : mt.caps.get 1 with
  | none => rw [hc] at hsome; cases hsome
  | some p =>
    obtain ⟨a, b⟩ := p
    obtain ⟨k1, k2, k3⟩ := hinv a b hc
    simp [groupNamed, hg, Py.groupStr, RxMatch.group, hc, Py.slice]
    omega

namespace Model
open Blk Blk.G

def atxRxOk (r : Rx) : Bool := r.capOk && r.mustCap

/-- **decidable obligation on the regenerated tables**: `atx_1` is group 1, and every ATX rule (block specification,
the four list-item break variants) has group 1 = `(#{1,6})`, captured by every match -/
def atxOkB (cfg : MdCfg) : Bool :=
  decide (cfg.groups.lookup "atx_1" = some 1) &&
  cfg.blockSpec.all (fun p => p.1 != "atx_heading" || atxRxOk p.2) &&
  [0, 1, 2, 3].all (fun w => atxRxOk (cfg.rx ("rt:listbreak[atx_heading," ++ toString w ++ "]")))

theorem cfgAtx_of_B (cfg : MdCfg) (h : atxOkB cfg = true) : CfgAtx cfg := by
  simp only [atxOkB, Bool.and_eq_true, decide_eq_true_eq, List.all_eq_true] at h
  obtain ⟨⟨hg, hspec⟩, hbr⟩ := h
  refine ⟨fun x r mt hmem hs => ?_, fun bullet lw x r mt hmem hs => ?_⟩
  · have := hspec _ hmem
    simp [atxRxOk] at this
    exact atx_group cfg hg x r mt hs this.1 this.2
  · have hr : r = cfg.rx ("rt:listbreak[atx_heading," ++ toString (min lw 3) ++ "]") := by
      simp [listItemSc] at hmem
      exact hmem
    have hw : min lw 3 ∈ [0, 1, 2, 3] := by
      have : min lw 3 ≤ 3 := Nat.min_le_right _ _
      generalize min lw 3 = w at this
      have : w = 0 ∨ w = 1 ∨ w = 2 ∨ w = 3 := by omega
      simp; omega
    have := hbr _ hw
    rw [← hr] at this
    simp [atxRxOk] at this
    exact atx_group cfg hg x r mt hs this.1 this.2

theorem coreCfgs_atx : ∀ n ∈ coreNames, (findCfg n).any atxOkB = true := by decide +kernel

/-- **C05 for the core configurations of the concrete model, no hypothesis left**: every token tree `parseDoc`
returns for the configurations of `coreNames` (plugin-free, or with covered plugins only) is in the grammar (nesting clause included) -/
theorem parseDoc_wf_core (n : String) (hn : n ∈ coreNames) (cfg : MdCfg) (hc : findCfg n = some cfg) (s : Str)
    (toks : List Json) (h : parseDoc cfg s = .ok toks) : wfSeq (wfFuel cfg) toks .block 0 cfg.maxNested = true := by
  have h1 := coreCfgs_ok n hn
  have h2 := coreCfgs_atx n hn
  rw [hc] at h1 h2
  exact parseDoc_wf cfg (by simpa using h1) (cfgAtx_of_B cfg (by simpa using h2)) s toks h

/-- the same for the predicate `wfTokens` itself -/
theorem parseDoc_wfTokens_core (n : String) (hn : n ∈ coreNames) (cfg : MdCfg) (hc : findCfg n = some cfg) (s : Str)
    (toks : List Json) (h : parseDoc cfg s = .ok toks) : wfTokens toks cfg.maxNested = true := by
  have := parseDoc_wf_core n hn cfg hc s toks h
  rw [wfFuel_eq] at this
  exact this

/-- in general: both side conditions are decidable -/
theorem parseDoc_wf_of_B (cfg : MdCfg) (hcore : coreCfgB cfg = true) (hatx : atxOkB cfg = true) (s : Str)
    (toks : List Json) (h : parseDoc cfg s = .ok toks) : wfSeq (wfFuel cfg) toks .block 0 cfg.maxNested = true :=
  parseDoc_wf cfg hcore (cfgAtx_of_B cfg hatx) s toks h

end Model
end Mistune

#print axioms Mistune.Model.parseDoc_wf_core
#print axioms Mistune.Model.parseDoc_wfTokens_core
#print axioms Mistune.Model.parseDoc_wf_of_B
