/-
C11 (code spans): the pure core of `parse_codespan` (`codespanBody`) reproduces the content of a closed code
span verbatim (up to the two documented normalisations), and returns `none` when there is no closing run.

The engine has no general completeness theorem, and `m_sound` is not needed here: the behaviour of the matcher
on the run-time pattern `(.*?[^`])` + marker + `(?!`)` (re.S) is computed *exactly* (`codespanEndRx_matchAt`): it
equals a first-fit search on the list of characters (`findClose`), which gives soundness and completeness for this
family of patterns at once.
-/
import Mistune.Model.Inline
namespace Mistune
open Model Model.Inl

/-! ### list-level specification -/

/-- the back-tick -/
abbrev bt : Char := '`'

/-- At the head of `l`: a non-back-tick character followed by a maximal run of exactly `n` back-ticks. -/
def closesAt (n : Nat) : Str → Bool
  | [] => false
  | c :: r => c != bt && r.take n == List.replicate n bt && (r.drop n).head? != some bt

/-- "there is a closing run of exactly `n` back-ticks inside `l`": some non-back-tick character of `l` is followed
by a maximal run of exactly `n` back-ticks. -/
def hasClose (n : Nat) : Str → Bool
  | [] => false
  | c :: r => closesAt n (c :: r) || hasClose n r

/-- offset of the first character at which `closesAt` holds -/
def findClose (n : Nat) : Str → Option Nat
  | [] => none
  | c :: r => if closesAt n (c :: r) then some 0 else (findClose n r).map (· + 1)

theorem findClose_none_iff (n : Nat) (l : Str) : findClose n l = none ↔ hasClose n l = false := by
  induction l with
  | nil => simp [findClose, hasClose]
  | cons c r ih =>
    simp only [findClose, hasClose]
    by_cases h : closesAt n (c :: r) = true
    · simp [h]
    · simp [h, ih]

/-! ### the matcher on the end pattern -/

/-- `x` is a matching context of the whole subject `s` (e.g. `Py.ctxOf s`; the category tables are irrelevant) -/
def CtxFor (x : RxCtx) (s : Str) : Prop := x.s = s.toArray ∧ x.n = s.length

theorem ctxFor_ctxOf (s : Str) : CtxFor (Py.ctxOf s) s := by
  simp [CtxFor, Py.ctxOf, mkCtx]

theorem ctx_drop_nil {x : RxCtx} {s : Str} (hx : CtxFor x s) {j : Nat} (h : s.drop j = []) : ¬ j < x.n := by
  have := List.drop_eq_nil_iff.mp h
  have := hx.2
  omega

theorem ctx_drop_cons {x : RxCtx} {s : Str} (hx : CtxFor x s) {j : Nat} {a : Char} {l : Str}
    (h : s.drop j = a :: l) : j < x.n ∧ x.chr j = a.toNat ∧ s.drop (j + 1) = l := by
  obtain ⟨hs, hn⟩ := hx
  have hj : j < s.length := by
    rcases Nat.lt_or_ge j s.length with h1 | h1
    · exact h1
    · rw [List.drop_eq_nil_iff.mpr h1] at h; cases h
  rw [List.drop_eq_getElem_cons hj] at h
  injection h with h1 h2
  refine ⟨by omega, ?_, h2⟩
  simp [RxCtx.chr, hs, Array.getD, hj, h1]

theorem toNat_eq_96 (a : Char) : (96 == a.toNat) = (a == bt) := by
  rw [Bool.eq_iff_iff]
  simp only [beq_iff_eq]
  constructor
  · intro h; apply Char.toNat_inj.mp; rw [← h]; rfl
  · intro h; subst h; rfl

/-- the part of the end pattern after the group: the literal marker, then `(?!`)` -/
def tailRx (n : Nat) : Rx :=
  (List.replicate n bt).foldr (fun c r => Rx.seq (.cls false [.chr c.toNat]) r)
    (.look true true 0 (.cls false [.chr 96]))

theorem codespanEndRx_replicate (n : Nat) :
    codespanEndRx (List.replicate n bt) =
      .seq (.grp 1 (.seq (.rep (.any true) 0 none false) (.cls true [.chr 96]))) (tailRx n) := rfl

theorem tailRx_m {R : Type} {x : RxCtx} {s : Str} (hx : CtxFor x s) (c : Caps) (k : Nat → Caps → Option R) :
    ∀ (n j : Nat) (l : Str), s.drop j = l →
      (tailRx n).m x j c k =
        if l.take n == List.replicate n bt && (l.drop n).head? != some bt then k (j + n) c else none := by
  intro n
  induction n with
  | zero =>
    intro j l hl
    simp only [tailRx, List.replicate_zero, List.foldr_nil, Rx.m]
    cases l with
    | nil =>
      have := ctx_drop_nil hx hl
      simp [this]
    | cons a l' =>
      obtain ⟨h1, h2, _⟩ := ctx_drop_cons hx hl
      simp only [h1, h2, clsTest, List.any_cons, List.any_nil, ClsItem.test, toNat_eq_96]
      by_cases ha : a = bt <;> simp [ha]
  | succ n ih =>
    intro j l hl
    have hf : tailRx (n + 1) = .seq (.cls false [.chr 96]) (tailRx n) := rfl
    rw [hf]
    simp only [Rx.m]
    cases l with
    | nil =>
      have := ctx_drop_nil hx hl
      simp [this, List.replicate_succ]
    | cons a l' =>
      obtain ⟨h1, h2, h3⟩ := ctx_drop_cons hx hl
      simp only [h1, h2, clsTest, List.any_cons, List.any_nil, ClsItem.test, toNat_eq_96]
      by_cases ha : a = bt
      · subst ha
        rw [show j + (n + 1) = j + 1 + n by omega]
        simp [ih (j + 1) l' h3, List.replicate_succ]
      · simp [ha, List.replicate_succ]

/-- try `f i`, `f (i+1)`, …, `f (i+m)` in this order -/
def tryFrom {R : Type} (f : Nat → Option R) : Nat → Nat → Option R
  | i, 0 => f i
  | i, m + 1 => match f i with
    | some r => some r
    | none => tryFrom f (i + 1) m

/-- **The lazy star over `.` (DOTALL) tries the end positions in increasing order**: `.*?` continued by `K` returns
the result of `K` at the first position `e ∈ [i, endpos]` where `K` succeeds. -/
theorem lazyAny_loop {R : Type} (x : RxCtx) (K : Nat → Caps → Option R) (c : Caps) :
    ∀ (m fuel cnt : Nat) (pa : Bool) (i : Nat), i + m = x.n → m + 1 ≤ fuel → (pa || cnt == 0) = true →
      repLoop (fun i c k => (Rx.any true).m x i c k) 0 none false K fuel cnt pa i c =
        tryFrom (fun e => K e c) i m := by
  intro m
  induction m with
  | zero =>
    intro fuel cnt pa i him hf hpa
    obtain ⟨fuel, rfl⟩ : ∃ f, fuel = f + 1 := ⟨fuel - 1, by omega⟩
    have hi : ¬ i < x.n := by omega
    simp only [repLoop, tryFrom, Rx.m]
    cases hk : K i c <;> simp [hi]
  | succ m ih =>
    intro fuel cnt pa i him hf hpa
    obtain ⟨fuel, rfl⟩ : ∃ f, fuel = f + 1 := ⟨fuel - 1, by omega⟩
    have hi : i < x.n := by omega
    simp only [repLoop, tryFrom, Rx.m]
    cases hk : K i c with
    | some r => simp
    | none =>
      have := ih fuel (cnt + 1) (i + 1 != i) (i + 1) (by omega) (by omega) (by simp)
      simp [Rx.m] at this
      simp [hi, hpa, this]

theorem lazyAny_none {R : Type} (x : RxCtx) (K : Nat → Caps → Option R) (c : Caps) :
    ∀ (fuel cnt : Nat) (pa : Bool) (i : Nat), (∀ e, i ≤ e → K e c = none) →
      repLoop (fun i c k => (Rx.any true).m x i c k) 0 none false K fuel cnt pa i c = none := by
  intro fuel
  induction fuel with
  | zero => intros; rfl
  | succ fuel ih =>
    intro cnt pa i hK
    have := ih (cnt + 1) (i + 1 != i) (i + 1) (fun e he => hK e (by omega))
    simp [Rx.m] at this
    simp only [repLoop, Rx.m, hK i (Nat.le_refl i)]
    simp [this]

/-- the continuation of the lazy star: `[^`]`, then the tail, recording group 1 = `(pos, e+1)` -/
theorem afterStar_m {R : Type} {x : RxCtx} {s : Str} (hx : CtxFor x s) (n pos : Nat) (c : Caps)
    (k : Nat → Caps → Option R) (e : Nat) :
    (Rx.cls true [.chr 96]).m x e c (fun j c' => (tailRx n).m x j ((1, (pos, j)) :: c') k) =
      if closesAt n (s.drop e) then k (e + 1 + n) ((1, (pos, e + 1)) :: c) else none := by
  simp only [Rx.m]
  cases hl : s.drop e with
  | nil =>
    have := ctx_drop_nil hx hl
    simp [this, closesAt]
  | cons a l' =>
    obtain ⟨h1, h2, h3⟩ := ctx_drop_cons hx hl
    simp only [h1, h2, clsTest, List.any_cons, List.any_nil, ClsItem.test, toNat_eq_96, closesAt,
      tailRx_m hx _ k n (e + 1) l' h3]
    by_cases ha : a = bt <;> simp [ha]

theorem tryFrom_findClose {R : Type} (s : Str) (n : Nat) (g : Nat → R) :
    ∀ (l : Str) (i : Nat), s.drop i = l →
      tryFrom (fun e => if closesAt n (s.drop e) then some (g e) else none) i l.length =
        (findClose n l).map (fun d => g (i + d)) := by
  intro l
  induction l with
  | nil =>
    intro i hl
    simp [tryFrom, hl, closesAt, findClose]
  | cons a l' ih =>
    intro i hl
    have h3 : s.drop (i + 1) = l' := by
      rw [← List.drop_drop, hl]; rfl
    simp only [List.length_cons, tryFrom, hl, findClose]
    by_cases hc : closesAt n (a :: l') = true
    · simp [hc]
    · simp only [hc, ih (i + 1) h3]
      cases findClose n l' with
      | none => simp
      | some d => simp; congr 1; omega

/-- **The end pattern, computed.**  `pattern.match(s, pos)` for the end pattern of an `n`-back-tick code span is the
first-fit search `findClose` on the characters from `pos` on: group 1 ends right after the first non-back-tick
character that is followed by a maximal run of exactly `n` back-ticks, the match ends after that run. -/
theorem codespanEndRx_matchAt {x : RxCtx} {s : Str} (hx : CtxFor x s) (n pos : Nat) :
    (codespanEndRx (List.replicate n bt)).matchAt x pos =
      (findClose n (s.drop pos)).map (fun d =>
        { start := pos, stop := pos + d + 1 + n, caps := [(1, (pos, pos + d + 1))] }) := by
  have hunf : (codespanEndRx (List.replicate n bt)).matchAt x pos =
      repLoop (fun i c k => (Rx.any true).m x i c k) 0 none false
        (fun e c => (Rx.cls true [.chr 96]).m x e c (fun j c' => (tailRx n).m x j ((1, (pos, j)) :: c')
          (fun j c => some ({ start := pos, stop := j, caps := c } : RxMatch))))
        (x.n + 0 + 2 - pos) 0 false pos [] := rfl
  rw [hunf]
  have hK : ∀ e, (Rx.cls true [.chr 96]).m x e []
        (fun j c' => (tailRx n).m x j ((1, (pos, j)) :: c')
          (fun j c => some ({ start := pos, stop := j, caps := c } : RxMatch))) =
      if closesAt n (s.drop e) then
        some ({ start := pos, stop := e + 1 + n, caps := [(1, (pos, e + 1))] } : RxMatch) else none :=
    fun e => afterStar_m hx n pos [] _ e
  have hn := hx.2
  rcases Nat.lt_or_ge s.length pos with hp | hp
  · rw [lazyAny_none]
    · simp [List.drop_eq_nil_iff.mpr (Nat.le_of_lt hp), findClose]
    · intro e he
      rw [hK e, List.drop_eq_nil_iff.mpr (by omega)]
      simp [closesAt]
  · rw [lazyAny_loop x _ [] (s.length - pos) _ 0 false pos (by omega) (by omega) (by simp)]
    simp only [hK]
    have := tryFrom_findClose s n
      (fun e => ({ start := pos, stop := e + 1 + n, caps := [(1, (pos, e + 1))] } : RxMatch))
      (s.drop pos) pos rfl
    rw [List.length_drop] at this
    rw [this]

/-! ### the normalisation of the code, and `codespanBody` computed -/

/-- Specification of the normalisation `parse_codespan` applies to `m2.group(1)`: every `'\n'` becomes a space; then,
if the result is not all white space (`str.strip()`) and both starts and ends with a space, one space is dropped at
each end. -/
def codespanNorm (c : Str) : Str :=
  let c1 := c.map (fun ch => if ch = '\n' then ' ' else ch)
  if (Py.strip c1).length ≠ 0 ∧ c1.head? = some ' ' ∧ c1.getLast? = some ' ' then (c1.drop 1).dropLast else c1

theorem replaceAll_go_nl : ∀ (c : Str) (fuel : Nat), c.length < fuel →
    Py.replaceAll.go ['\n'] [' '] c fuel = c.map (fun ch => if ch = '\n' then ' ' else ch) := by
  intro c
  induction c with
  | nil => intro fuel _; cases fuel <;> simp [Py.replaceAll.go]
  | cons a r ih =>
    intro fuel hf
    obtain ⟨fuel, rfl⟩ : ∃ f, fuel = f + 1 := ⟨fuel - 1, by omega⟩
    have := ih fuel (by simpa using hf)
    by_cases ha : a = '\n'
    · subst ha
      simp [Py.replaceAll.go, Py.startsWith, this]
    · simp [Py.replaceAll.go, Py.startsWith, this, ha]

theorem replaceAll_nl (c : Str) :
    Py.replaceAll ['\n'] [' '] c = c.map (fun ch => if ch = '\n' then ' ' else ch) := by
  simp [Py.replaceAll, replaceAll_go_nl c (c.length + 1) (by omega)]

theorem startsWith_single (c : Str) (a : Char) : Py.startsWith c [a] = (c.head? == some a) := by
  cases c with
  | nil => simp [Py.startsWith]
  | cons b r => cases r <;> simp [Py.startsWith]

theorem endsWith_single (c : Str) (a : Char) : Py.endsWith c [a] = (c.getLast? == some a) := by
  simp [Py.endsWith, startsWith_single, List.head?_reverse]

/-- the normalisation in the model is `codespanNorm` -/
theorem model_norm_eq (c : Str) :
    (let code := Py.replaceAll ['\n'] [' '] c
     if (Py.strip code).length != 0 then
       if Py.startsWith code [' '] && Py.endsWith code [' '] then (code.drop 1).dropLast else code
     else code) = codespanNorm c := by
  simp only [replaceAll_nl, startsWith_single, endsWith_single, codespanNorm]
  generalize c.map _ = c1
  by_cases h1 : (Py.strip c1).length = 0
  · simp [h1]
  · by_cases h2 : c1.head? = some ' ' <;> by_cases h3 : c1.getLast? = some ' ' <;> simp [h1, h2, h3]

theorem slice_toArray (s : Str) (i j : Nat) : Py.slice s.toArray i j = (s.drop i).take (j - i) := by
  simp [Py.slice]

/-- **`codespanBody`, computed**: first-fit search for the closing run, the code is the text up to and including the
non-back-tick character before the run, normalised. -/
theorem codespanBody_eq {x : RxCtx} {s : Str} (hx : CtxFor x s) (n pos : Nat) :
    codespanBody x (List.replicate n bt) pos =
      (findClose n (s.drop pos)).map (fun d => (codespanNorm ((s.drop pos).take (d + 1)), pos + d + 1 + n)) := by
  unfold codespanBody
  simp only [codespanEndRx_matchAt hx]
  cases findClose n (s.drop pos) with
  | none => rfl
  | some d =>
    simp only [Option.map_some]
    have hg : (Py.groupStr x.s
        { start := pos, stop := pos + d + 1 + n, caps := [(1, (pos, pos + d + 1))] } 1).getD [] =
        (s.drop pos).take (d + 1) := by
      simp [Py.groupStr, RxMatch.group, Caps.get, List.lookup, hx.1, slice_toArray]
      congr 1; omega
    rw [hg]
    have := model_norm_eq ((s.drop pos).take (d + 1))
    simp only at this
    rw [this]

/-! ### list-level facts about the closing run -/

/-- `l` starts with a maximal run of exactly `n` back-ticks -/
def runAt (n : Nat) (l : Str) : Bool := l.take n == List.replicate n bt && (l.drop n).head? != some bt

theorem closesAt_cons (n : Nat) (c : Char) (r : Str) : closesAt n (c :: r) = (c != bt && runAt n r) := by
  simp [closesAt, runAt, Bool.and_assoc]

theorem runAt_succ_cons (n : Nat) (a : Char) (t : Str) : runAt (n + 1) (a :: t) = (a == bt && runAt n t) := by
  simp [runAt, List.replicate_succ, Bool.and_assoc]

/-- a run that starts inside a text whose last character is not a back-tick ends inside that text -/
theorem runAt_append (rest : Str) : ∀ (r : Str) (n : Nat), r ≠ [] → r.getLast? ≠ some bt →
    runAt n (r ++ rest) = runAt n r := by
  intro r
  induction r with
  | nil => intro n h; exact absurd rfl h
  | cons a r' ih =>
    intro n _ hlast
    cases n with
    | zero => simp [runAt]
    | succ n =>
      rw [List.cons_append, runAt_succ_cons, runAt_succ_cons]
      cases r' with
      | nil =>
        have : a ≠ bt := by simpa using hlast
        rw [beq_false_of_ne this]; rfl
      | cons b r'' =>
        rw [ih n (by simp) (by simpa [List.getLast?_cons_cons] using hlast)]

theorem runAt_marker (n : Nat) (post : Str) (hpost : post.head? ≠ some bt) :
    runAt n (List.replicate n bt ++ post) = true := by
  simp [runAt, List.take_left', List.drop_left', hpost]

/-- In `content ++ marker ++ post` the first closing position is the last character of `content`. -/
theorem findClose_content (n : Nat) (post : Str) (hpost : post.head? ≠ some bt) :
    ∀ content : Str, content ≠ [] → content.getLast? ≠ some bt → hasClose n content = false →
      findClose n (content ++ (List.replicate n bt ++ post)) = some (content.length - 1) := by
  intro content
  induction content with
  | nil => intro h; exact absurd rfl h
  | cons c r ih =>
    intro _ hlast hnc
    cases r with
    | nil =>
      have hc : c ≠ bt := by simpa using hlast
      simp [findClose, closesAt_cons, runAt_marker n post hpost, hc]
    | cons b r' =>
      have hlast' : (b :: r').getLast? ≠ some bt := by simpa [List.getLast?_cons_cons] using hlast
      simp only [hasClose, Bool.or_eq_false_iff] at hnc
      have h1 : closesAt n (c :: (b :: r' ++ (List.replicate n bt ++ post))) = false := by
        rw [closesAt_cons, runAt_append _ _ _ (by simp) hlast', ← closesAt_cons]
        exact hnc.1
      have h2 := ih (by simp) hlast' (by simpa [hasClose] using hnc.2)
      rw [List.cons_append, findClose, h1, h2]
      simp

/-! ### the theorems -/

/-- **(a) closed span, verbatim.**  Subject `pre ++ content ++ marker ++ post`, marker = `n` back-ticks, scanning
from the end of `pre` (= right after the opening run): if `content` is non-empty, does not end with a back-tick and
contains no closing run (`hasClose`), and `post` does not start with a back-tick, then the code span closes exactly at
the marker after `content` and its code is `content`, normalised.  (No assumption on `pre` or on `n`.) -/
theorem codespan_closed_verbatim (x : RxCtx) (n : Nat) (pre content post : Str)
    (hx : CtxFor x (pre ++ content ++ List.replicate n bt ++ post))
    (hne : content ≠ []) (hlast : content.getLast? ≠ some bt) (hnc : hasClose n content = false)
    (hpost : post.head? ≠ some bt) :
    codespanBody x (List.replicate n bt) pre.length =
      some (codespanNorm content, pre.length + content.length + n) := by
  have hdrop : (pre ++ content ++ List.replicate n bt ++ post).drop pre.length =
      content ++ (List.replicate n bt ++ post) := by
    simp [List.append_assoc]
  rw [codespanBody_eq hx, hdrop, findClose_content n post hpost content hne hlast hnc]
  have hlen : 0 < content.length := List.length_pos_iff.mpr hne
  simp only [Option.map_some]
  rw [show content.length - 1 + 1 = content.length by omega, List.take_left']
  · congr 2; omega
  · rfl

/-- (a) for the context the model builds (`InlineState.setSrc`) -/
theorem codespan_closed_verbatim_ctxOf (n : Nat) (pre content post : Str)
    (hne : content ≠ []) (hlast : content.getLast? ≠ some bt) (hnc : hasClose n content = false)
    (hpost : post.head? ≠ some bt) :
    codespanBody (Py.ctxOf (pre ++ content ++ List.replicate n bt ++ post)) (List.replicate n bt) pre.length =
      some (codespanNorm content, pre.length + content.length + n) :=
  codespan_closed_verbatim _ n pre content post (ctxFor_ctxOf _) hne hlast hnc hpost

/-- **(b) unclosed.**  If from `pos` on no non-back-tick character is followed by a maximal run of exactly `n`
back-ticks, there is no code span. -/
theorem codespan_unclosed (x : RxCtx) (s : Str) (n pos : Nat) (hx : CtxFor x s)
    (h : hasClose n (s.drop pos) = false) : codespanBody x (List.replicate n bt) pos = none := by
  rw [codespanBody_eq hx, (findClose_none_iff n _).mpr h]
  rfl

/-- (b) is an equivalence: the span is unclosed exactly when there is no closing run. -/
theorem codespan_unclosed_iff (x : RxCtx) (s : Str) (n pos : Nat) (hx : CtxFor x s) :
    codespanBody x (List.replicate n bt) pos = none ↔ hasClose n (s.drop pos) = false := by
  rw [codespanBody_eq hx, Option.map_eq_none_iff, findClose_none_iff]

/-- **(c)** `parseCodespan` is `codespanBody` plus the token bookkeeping. -/
theorem parseCodespan_eq (m : RxMatch) (st : InlineState) :
    parseCodespan m st =
      match codespanBody st.x (group0 st m) m.stop with
      | some (code, endPos) => .ok (some endPos, st.appendToken (tok "codespan" [("raw", .str code)]))
      | none => .ok (some m.stop, st.appendToken (textTok (group0 st m))) := rfl

/-- `parse_codespan` as it was written before `codespanBody` was factored out -/
def parseCodespanOld (m : RxMatch) (st : InlineState) : HRes :=
  let marker := group0 st m
  let pattern := codespanEndRx marker
  let pos := m.stop
  match pattern.matchAt st.x pos with
  | some m2 =>
    let endPos := m2.stop
    let code := (Py.groupStr st.x.s m2 1).getD []
    let code := Py.replaceAll ['\n'] [' '] code
    let code :=
      if (Py.strip code).length != 0 then
        if Py.startsWith code [' '] && Py.endsWith code [' '] then (code.drop 1).dropLast else code
      else code
    .ok (some endPos, st.appendToken (tok "codespan" [("raw", .str code)]))
  | none => .ok (some pos, st.appendToken (textTok marker))

/-- the refactoring preserved the behaviour -/
theorem parseCodespan_refactor (m : RxMatch) (st : InlineState) : parseCodespan m st = parseCodespanOld m st := by
  unfold parseCodespan parseCodespanOld codespanBody
  simp only
  cases (codespanEndRx (group0 st m)).matchAt st.x m.stop <;> rfl

/-- (a) at the level of the handler: a `codespan` token with the normalised content, position after the closing run -/
theorem parseCodespan_closed (m : RxMatch) (st : InlineState) (n : Nat) (pre content post : Str)
    (hx : CtxFor st.x (pre ++ content ++ List.replicate n bt ++ post))
    (hm : group0 st m = List.replicate n bt) (hstop : m.stop = pre.length)
    (hne : content ≠ []) (hlast : content.getLast? ≠ some bt) (hnc : hasClose n content = false)
    (hpost : post.head? ≠ some bt) :
    parseCodespan m st =
      .ok (some (pre.length + content.length + n),
        st.appendToken (tok "codespan" [("raw", .str (codespanNorm content))])) := by
  rw [parseCodespan_eq, hm, hstop, codespan_closed_verbatim st.x n pre content post hx hne hlast hnc hpost]

/-- (b) at the level of the handler: the marker is emitted as text and the scan resumes right after it -/
theorem parseCodespan_unclosed (m : RxMatch) (st : InlineState) (s : Str) (n : Nat)
    (hx : CtxFor st.x s) (hm : group0 st m = List.replicate n bt)
    (h : hasClose n (s.drop m.stop) = false) :
    parseCodespan m st = .ok (some m.stop, st.appendToken (textTok (List.replicate n bt))) := by
  rw [parseCodespan_eq, hm, codespan_unclosed st.x s n m.stop hx h]

/-! ### concrete instances (the statements are not vacuous) -/

/-- (a) on ``x ``a ` b\nc`` y``: content ``a ` b\nc`` (a lone back-tick and a line feed inside), `n = 2` -/
example :
    codespanBody (Py.ctxOf (['x', ' ', '`', '`'] ++ ['a', ' ', '`', ' ', 'b', '\n', 'c'] ++ List.replicate 2 bt ++ [' ', 'y']))
      (List.replicate 2 bt) 4 = some (['a', ' ', '`', ' ', 'b', ' ', 'c'], 13) :=
  codespan_closed_verbatim_ctxOf 2 ['x', ' ', '`', '`'] ['a', ' ', '`', ' ', 'b', '\n', 'c'] [' ', 'y']
    (by decide) (by decide) (by decide) (by decide)

/-- (a) with the space-stripping branch of the normalisation: content `` a ` b\nc `` (padded), a longer run
(` ``` `, 3 ≠ 2 back-ticks) inside, end of input after the closing run -/
example :
    codespanBody (Py.ctxOf (['`', '`'] ++ [' ', 'a', '`', '`', '`', 'b', '\n', 'c', ' '] ++ List.replicate 2 bt ++ []))
      (List.replicate 2 bt) 2 = some (['a', '`', '`', '`', 'b', ' ', 'c'], 13) :=
  codespan_closed_verbatim_ctxOf 2 ['`', '`'] [' ', 'a', '`', '`', '`', 'b', '\n', 'c', ' '] []
    (by decide) (by decide) (by decide) (by decide)

/-- (a): a run of exactly `n` back-ticks at the very start of `content` is not a closing run (`.*?[^`]` needs a
character before it), so it belongs to the code -/
example :
    codespanBody (Py.ctxOf (['x', '`', '`'] ++ ['`', '`', 'a'] ++ List.replicate 2 bt ++ [' ']))
      (List.replicate 2 bt) 3 = some (['`', '`', 'a'], 8) :=
  codespan_closed_verbatim_ctxOf 2 ['x', '`', '`'] ['`', '`', 'a'] [' ']
    (by decide) (by decide) (by decide) (by decide)

/-- the same instance, by running the model (the matcher itself) -/
example :
    codespanBody (Py.ctxOf ['x', ' ', '`', '`', 'a', ' ', '`', ' ', 'b', '\n', 'c', '`', '`', ' ', 'y'])
      ['`', '`'] 4 = some (['a', ' ', '`', ' ', 'b', ' ', 'c'], 13) := by decide

/-- the hypothesis `hasClose n content = false` is needed: with a closing run inside `content` the span ends there -/
example : hasClose 2 ['a', '`', '`', ' ', 'b'] = true := by decide
example :
    codespanBody (Py.ctxOf (['`', '`'] ++ ['a', '`', '`', ' ', 'b'] ++ List.replicate 2 bt ++ []))
      (List.replicate 2 bt) 2 = some (['a'], 5) := by decide

/-- (b) on ``x ``a ` b``` y``: after the opening run there are runs of 1 and of 3 back-ticks only -/
example :
    codespanBody (Py.ctxOf ['x', ' ', '`', '`', 'a', ' ', '`', ' ', 'b', '`', '`', '`', ' ', 'y'])
      (List.replicate 2 bt) 4 = none :=
  codespan_unclosed _ ['x', ' ', '`', '`', 'a', ' ', '`', ' ', 'b', '`', '`', '`', ' ', 'y'] 2 4 (ctxFor_ctxOf _)
    (by decide)

/-- (b): a run of exactly `n` back-ticks directly at `pos` does not close (here the text after the opening run is
just the run) -/
example :
    codespanBody (Py.ctxOf ['`', '`', 'x', '`', '`']) (List.replicate 2 bt) 3 = none :=
  codespan_unclosed _ ['`', '`', 'x', '`', '`'] 2 3 (ctxFor_ctxOf _) (by decide)


end Mistune
