/-
C02 / C06 — `StripAgrees`, PROVED: on every tagged string whose erasure is well tagged, `_striptags_re.sub("", s)`
(the backtracking engine on the regenerated regex, then the `allSpans` / `deleteSpans` loop) is the projection of the
five-state tag scanner on character data (`tsStripT`).  This discharges the hypothesis `hstrip` of `render_tagged`
(C02Tags) and `render_balanced` (C06Balance); the hypothesis-free corollaries are at the end of this file.

The engine has no general completeness theorem; as in C11Fence / C11Codespan the behaviour of the matcher on this one
regex is computed *exactly*:

* at a position that does not hold `<` no alternative matches (both begin with `<`);
* at a `<` of character data the comment alternative `<!--[\s\S]*?-->` is tried first and fails at its second
  character (a well-tagged string has no `<!`);
* every iteration of the greedy star `(?:"[^"]*"|'[^']*'|[^>"'])*` is *deterministic* on the body of a tag
  (`tagItem_*`: the item consumes exactly what the scanner consumes — one plain character, or a quoted value up to the
  FIRST closing quote; the inner greedy `[^"]*` cannot stop earlier because the closing `"` must follow, nor later
  because it cannot cross a `"`), the star stops exactly at the `>` the scanner takes as the end of the tag (no item
  matches at `>`), and at no earlier exit of the star does the final `>` match (`tagLoop`);
* `search` therefore returns the next tag (`strip_search_some` / `strip_search_none`), and the `allSpans` /
  `deleteSpans` loop equals `tsStripT` (`strip_go`).

The regex proved about is the hand-written term `striptagsRxExpected`; that the regenerated table holds exactly this
term under the name `mistune.util._striptags_re` is decided by the kernel (`striptagsRx_is_expected`).

No counterexample was found (exhaustive `#eval` over a 7-letter alphabet up to length 7 before the proof); no hypothesis
had to be added.
-/
import MistuneProofs.C02Tags
import MistuneProofs.C06Balance
import MistuneProofs.C11Fence
import MistuneProofs.C11Codespan
namespace Mistune
open Mistune.Generated

/-! ### the expected regex -/

/-- `(<!--[\s\S]*?-->|<(?:"[^"]*"|'[^']*'|[^>"'])*>)` as the translator emits it (the common first character `<` of the
two alternatives is factored out) -/
def striptagsRxExpected : Rx :=
  .grp 1 (.seq (.cls false [.chr 60])
    (.alt
      (.seq (.cls false [.chr 33]) (.seq (.cls false [.chr 45]) (.seq (.cls false [.chr 45])
        (.seq (.rep (.cls false [.cat false .space, .cat true .space]) 0 none false)
          (.seq (.cls false [.chr 45]) (.seq (.cls false [.chr 45]) (.cls false [.chr 62])))))))
      (.seq
        (.rep
          (.alt (.seq (.cls false [.chr 34]) (.seq (.rep (.cls true [.chr 34]) 0 none true) (.cls false [.chr 34])))
            (.alt (.seq (.cls false [.chr 39]) (.seq (.rep (.cls true [.chr 39]) 0 none true) (.cls false [.chr 39])))
              (.cls true [.chr 62, .chr 34, .chr 39])))
          0 none true)
        (.cls false [.chr 62]))))

/-- **kernel-decided**: the regenerated table holds exactly the expected term -/
theorem striptagsRx_is_expected :
    namedRx.lookup "mistune.util._striptags_re" = some striptagsRxExpected := by decide +kernel

/-- a quoted value: the quote, `[^q]*` (greedy), the quote -/
def quotedRx (q : Char) : Rx :=
  .seq (.cls false [.chr q.toNat]) (.seq (.rep (.cls true [.chr q.toNat]) 0 none true) (.cls false [.chr q.toNat]))

/-- one iteration of the star: `"[^"]*"|'[^']*'|[^>"']` -/
def tagItemRx : Rx :=
  .alt (quotedRx '"') (.alt (quotedRx '\'') (.cls true [.chr ('>').toNat, .chr ('"').toNat, .chr ('\'').toNat]))

/-- the rest of the comment alternative after `<`: `!--[\s\S]*?-->` -/
def commentTailRx : Rx :=
  .seq (.cls false [.chr ('!').toNat]) (.seq (.cls false [.chr 45]) (.seq (.cls false [.chr 45])
    (.seq (.rep (.cls false [.cat false .space, .cat true .space]) 0 none false)
      (.seq (.cls false [.chr 45]) (.seq (.cls false [.chr 45]) (.cls false [.chr 62]))))))

theorem striptagsRxExpected_eq :
    striptagsRxExpected =
      .grp 1 (.seq (.cls false [.chr ('<').toNat])
        (.alt commentTailRx (.seq (.rep tagItemRx 0 none true) (.cls false [.chr ('>').toNat])))) := rfl

/-! ### the engine, one node at a time -/

theorem m_alt' {R : Type} (x : RxCtx) (a b : Rx) (i : Nat) (c : Caps) (k : Nat → Caps → Option R) :
    (Rx.alt a b).m x i c k = (match a.m x i c k with | some r => some r | none => b.m x i c k) := rfl

theorem m_grp' {R : Type} (x : RxCtx) (idx : Nat) (r : Rx) (i : Nat) (c : Caps) (k : Nat → Caps → Option R) :
    (Rx.grp idx r).m x i c k = r.m x i c (fun j c' => k j ((idx, (i, j)) :: c')) := rfl

theorem m_star {R : Type} (x : RxCtx) (r : Rx) (i : Nat) (c : Caps) (k : Nat → Caps → Option R) :
    (Rx.rep r 0 none true).m x i c k =
      repLoop (fun i c k => r.m x i c k) 0 none true k (x.n + 2 - i) 0 false i c := rfl

theorem cls_m_cons {R : Type} {x : RxCtx} {s : Str} (hx : CtxFor x s) {j : Nat} {a : Char} {l : Str}
    (hl : s.drop j = a :: l) (neg : Bool) (items : List ClsItem) (c : Caps) (k : Nat → Caps → Option R) :
    (Rx.cls neg items).m x j c k = if clsTest x.t neg items a.toNat then k (j + 1) c else none := by
  obtain ⟨h1, h2, _⟩ := ctx_drop_cons hx hl
  simp [Rx.m, h1, h2]

theorem cls_m_nil {R : Type} {x : RxCtx} {s : Str} (hx : CtxFor x s) {j : Nat}
    (hl : s.drop j = []) (neg : Bool) (items : List ClsItem) (c : Caps) (k : Nat → Caps → Option R) :
    (Rx.cls neg items).m x j c k = none := by
  have := ctx_drop_nil hx hl
  simp [Rx.m, this]

theorem chr_test (t : CatTables) (q a : Char) : (ClsItem.chr q.toNat).test t a.toNat = (a == q) := by
  simp only [ClsItem.test]
  rw [Bool.eq_iff_iff]
  simp only [beq_iff_eq]
  exact ⟨fun h => (Char.toNat_inj.mp h).symm, fun h => by rw [h]⟩

theorem clsTest_pos1 (t : CatTables) (q a : Char) : clsTest t false [.chr q.toNat] a.toNat = (a == q) := by
  simp only [clsTest, List.any_cons, List.any_nil, chr_test, Bool.or_false, bne]
  cases a == q <;> rfl

theorem clsTest_neg1 (t : CatTables) (q a : Char) : clsTest t true [.chr q.toNat] a.toNat = (a != q) := by
  simp only [clsTest, List.any_cons, List.any_nil, chr_test, Bool.or_false, bne]
  cases a == q <;> rfl

theorem clsTest_neg3 (t : CatTables) (q1 q2 q3 a : Char) :
    clsTest t true [.chr q1.toNat, .chr q2.toNat, .chr q3.toNat] a.toNat = (a != q1 && a != q2 && a != q3) := by
  simp only [clsTest, List.any_cons, List.any_nil, chr_test, Bool.or_false, bne]
  cases a == q1 <;> cases a == q2 <;> cases a == q3 <;> rfl

/-- the literal character `q` at the head of the rest of the subject -/
theorem chr_m_cons {R : Type} {x : RxCtx} {s : Str} (hx : CtxFor x s) {j : Nat} {a : Char} {l : Str}
    (hl : s.drop j = a :: l) (q : Char) (c : Caps) (k : Nat → Caps → Option R) :
    (Rx.cls false [.chr q.toNat]).m x j c k = if a = q then k (j + 1) c else none := by
  rw [cls_m_cons hx hl, clsTest_pos1]
  by_cases h : a = q <;> simp [h]

/-- `[^q]` at the head of the rest of the subject -/
theorem nchr_m_cons {R : Type} {x : RxCtx} {s : Str} (hx : CtxFor x s) {j : Nat} {a : Char} {l : Str}
    (hl : s.drop j = a :: l) (q : Char) (c : Caps) (k : Nat → Caps → Option R) :
    (Rx.cls true [.chr q.toNat]).m x j c k = if a = q then none else k (j + 1) c := by
  rw [cls_m_cons hx hl, clsTest_neg1]
  by_cases h : a = q <;> simp [h]

/-! ### one step of a greedy star whose body is deterministic -/

/-- If the body, started at `i`, consumes exactly `d` characters whatever follows (`hbody`), and the continuation of the
star fails at `i` (`hdone`), then the star just goes on at `i + d`: backtracking into this iteration finds nothing. -/
theorem greedy_step {R : Type} (mr : Nat → Caps → (Nat → Caps → Option R) → Option R)
    (k : Nat → Caps → Option R) (f cnt : Nat) (pa : Bool) (i : Nat) (c : Caps) (d : Nat)
    (hpa : pa = true ∨ cnt = 0) (hbody : ∀ k', mr i c k' = k' (i + d) c) (hdone : k i c = none) :
    repLoop mr 0 none true k (f + 1) cnt pa i c = repLoop mr 0 none true k f (cnt + 1) (i + d != i) (i + d) c := by
  rw [repLoop_succ_greedy, canMoreB_true (by simp) hpa, hbody]
  simp only [if_true, hdone, ite_self]
  cases repLoop mr 0 none true k f (cnt + 1) (i + d != i) (i + d) c <;> rfl

/-- If the body fails at `i`, the star stops there. -/
theorem greedy_stop {R : Type} (mr : Nat → Caps → (Nat → Caps → Option R) → Option R)
    (k : Nat → Caps → Option R) (f cnt : Nat) (pa : Bool) (i : Nat) (c : Caps)
    (hbody : ∀ k', mr i c k' = none) :
    repLoop mr 0 none true k (f + 1) cnt pa i c = k i c := by
  rw [repLoop_succ_greedy, hbody]
  simp

/-! ### quoted values -/

/-- number of characters up to and including the first `q` -/
def qLen (q : Char) : Str → Nat
  | [] => 0
  | a :: l => if a = q then 1 else qLen q l + 1

theorem qLen_le (q : Char) (l : Str) : qLen q l ≤ l.length := by
  induction l with
  | nil => simp [qLen]
  | cons a l ih => simp only [qLen, List.length_cons]; split <;> omega

/-- **`[^q]*` followed by `q`**: the greedy run ends exactly before the first `q` (it cannot cross it, and at every
earlier exit the next character is not `q`). -/
theorem quoteLoop {R : Type} {x : RxCtx} {s : Str} (hx : CtxFor x s) (q : Char) (k' : Nat → Caps → Option R) (c : Caps) :
    ∀ (l : Str) (j fuel cnt : Nat) (pa : Bool), s.drop j = l → q ∈ l → l.length < fuel → (pa = true ∨ cnt = 0) →
      repLoop (fun i c k => (Rx.cls true [.chr q.toNat]).m x i c k) 0 none true
        (fun e c => (Rx.cls false [.chr q.toNat]).m x e c k') fuel cnt pa j c = k' (j + qLen q l) c := by
  intro l
  induction l with
  | nil => intro j fuel cnt pa _ hq; simp at hq
  | cons a l ih =>
    intro j fuel cnt pa hl hq hf hpa
    obtain ⟨f, rfl⟩ : ∃ f, fuel = f + 1 := ⟨fuel - 1, by omega⟩
    have h3 := (ctx_drop_cons hx hl).2.2
    by_cases ha : a = q
    · subst ha
      rw [greedy_stop _ _ _ _ _ _ _ (fun k'' => by rw [nchr_m_cons hx hl]; simp)]
      rw [chr_m_cons hx hl]
      simp [qLen]
    · have hq' : q ∈ l := by
        rcases List.mem_cons.mp hq with h | h
        · exact absurd h.symm ha
        · exact h
      rw [greedy_step _ _ f cnt pa j c 1 hpa (fun k'' => by rw [nchr_m_cons hx hl]; simp [ha])
        (by rw [chr_m_cons hx hl]; simp [ha])]
      rw [ih (j + 1) f (cnt + 1) _ h3 hq' (by simp at hf; omega) (Or.inl (by simp))]
      simp only [qLen, if_neg ha]
      congr 1; omega

/-- a quoted value at the head, closed later: consumed up to the first closing quote, whatever follows -/
theorem quoted_m_ok {R : Type} {x : RxCtx} {s : Str} (hx : CtxFor x s) (q : Char) {j : Nat} {l : Str}
    (hl : s.drop j = q :: l) (hq : q ∈ l) (c : Caps) (k' : Nat → Caps → Option R) :
    (quotedRx q).m x j c k' = k' (j + 1 + qLen q l) c := by
  obtain ⟨_, _, h3⟩ := ctx_drop_cons hx hl
  have hn : x.n = s.length := hx.2
  have hlen : l.length + (j + 1) = s.length := by
    have := congrArg List.length h3
    simp at this; omega
  unfold quotedRx
  rw [m_seq, chr_m_cons hx hl, if_pos rfl]
  simp only [m_seq]
  rw [m_star]
  exact quoteLoop hx q k' c l (j + 1) _ 0 false h3 hq (by omega) (Or.inr rfl)

theorem quoted_m_ne {R : Type} {x : RxCtx} {s : Str} (hx : CtxFor x s) (q : Char) {j : Nat} {a : Char} {l : Str}
    (hl : s.drop j = a :: l) (ha : a ≠ q) (c : Caps) (k' : Nat → Caps → Option R) :
    (quotedRx q).m x j c k' = none := by
  unfold quotedRx
  rw [m_seq, chr_m_cons hx hl, if_neg ha]

/-! ### one iteration of the star, by the character at the head -/

theorem plain3_m {R : Type} {x : RxCtx} {s : Str} (hx : CtxFor x s) {j : Nat} {a : Char} {l : Str}
    (hl : s.drop j = a :: l) (c : Caps) (k' : Nat → Caps → Option R) :
    (Rx.cls true [.chr ('>').toNat, .chr ('"').toNat, .chr ('\'').toNat]).m x j c k' =
      if a ≠ '>' ∧ a ≠ '"' ∧ a ≠ '\'' then k' (j + 1) c else none := by
  rw [cls_m_cons hx hl, clsTest_neg3]
  by_cases h1 : a = '>' <;> by_cases h2 : a = '"' <;> by_cases h3 : a = '\'' <;> simp [h1, h2, h3]

theorem opt_self {R : Type} (o : Option R) : (match o with | some r => some r | none => none) = o := by
  cases o <;> rfl

theorem tagItem_dq {R : Type} {x : RxCtx} {s : Str} (hx : CtxFor x s) {j : Nat} {l : Str}
    (hl : s.drop j = '"' :: l) (hq : '"' ∈ l) (c : Caps) (k' : Nat → Caps → Option R) :
    tagItemRx.m x j c k' = k' (j + 1 + qLen '"' l) c := by
  unfold tagItemRx
  rw [m_alt', quoted_m_ok hx '"' hl hq, m_alt', quoted_m_ne hx '\'' hl (by decide), plain3_m hx hl]
  simp [opt_self]

theorem tagItem_sq {R : Type} {x : RxCtx} {s : Str} (hx : CtxFor x s) {j : Nat} {l : Str}
    (hl : s.drop j = '\'' :: l) (hq : '\'' ∈ l) (c : Caps) (k' : Nat → Caps → Option R) :
    tagItemRx.m x j c k' = k' (j + 1 + qLen '\'' l) c := by
  unfold tagItemRx
  rw [m_alt', quoted_m_ne hx '"' hl (by decide), m_alt', quoted_m_ok hx '\'' hl hq, plain3_m hx hl]
  simp [opt_self]

theorem tagItem_plain {R : Type} {x : RxCtx} {s : Str} (hx : CtxFor x s) {j : Nat} {a : Char} {l : Str}
    (hl : s.drop j = a :: l) (h1 : a ≠ '>') (h2 : a ≠ '"') (h3 : a ≠ '\'') (c : Caps) (k' : Nat → Caps → Option R) :
    tagItemRx.m x j c k' = k' (j + 1) c := by
  unfold tagItemRx
  rw [m_alt', quoted_m_ne hx '"' hl h2, m_alt', quoted_m_ne hx '\'' hl h3, plain3_m hx hl]
  simp [h1, h2, h3]

theorem tagItem_gt {R : Type} {x : RxCtx} {s : Str} (hx : CtxFor x s) {j : Nat} {l : Str}
    (hl : s.drop j = '>' :: l) (c : Caps) (k' : Nat → Caps → Option R) :
    tagItemRx.m x j c k' = none := by
  unfold tagItemRx
  rw [m_alt', quoted_m_ne hx '"' hl (by decide), m_alt', quoted_m_ne hx '\'' hl (by decide), plain3_m hx hl]
  simp

/-! ### the scanner inside a tag -/

/-- number of characters the scanner reads from state `st` until it is back in character data (up to and including the
`>` that ends the tag) -/
def tagLen : TS → Str → Nat
  | _, [] => 0
  | st, a :: l => match tsStep st a with
    | some .text => 1
    | some st' => tagLen st' l + 1
    | none => 0

theorem tsRun_cons (st : TS) (a : Char) (l : Str) :
    tsRun st (a :: l) = (match tsStep st a with | some st' => tsRun st' l | none => none) := rfl

/-- inside a quoted value: the value is closed, by the FIRST quote character, and the scanner is back inside the tag -/
theorem quote_facts (q : Char) (stq : TS) (hq : ∀ a, tsStep stq a = if a = q then some .tag else some stq)
    (hne : stq ≠ .text) :
    ∀ l : Str, tsRun stq l = some .text →
      q ∈ l ∧ tsRun .tag (l.drop (qLen q l)) = some .text ∧
        tagLen stq l = qLen q l + tagLen .tag (l.drop (qLen q l)) := by
  intro l
  induction l with
  | nil => intro h; simp only [tsRun, Option.some.injEq] at h; exact absurd h hne
  | cons a l ih =>
    intro h
    rw [tsRun_cons, hq] at h
    by_cases ha : a = q
    · subst ha
      simp only [if_true] at h
      refine ⟨by simp, by simpa [qLen] using h, ?_⟩
      simp only [tagLen, hq, if_true, qLen, List.drop_one, List.tail_cons]
      omega
    · simp only [if_neg ha] at h
      obtain ⟨h1, h2, h3⟩ := ih h
      refine ⟨List.mem_cons_of_mem _ h1, by simpa [qLen, ha] using h2, ?_⟩
      have : tagLen stq (a :: l) = tagLen stq l + 1 := by
        simp only [tagLen, hq, if_neg ha]
      rw [this, h3]
      simp only [qLen, if_neg ha, List.drop_succ_cons]
      omega

theorem dq_facts (l : Str) (h : tsRun .dq l = some .text) :
    '"' ∈ l ∧ tsRun .tag (l.drop (qLen '"' l)) = some .text ∧
      tagLen .dq l = qLen '"' l + tagLen .tag (l.drop (qLen '"' l)) :=
  quote_facts '"' .dq (fun a => by by_cases ha : a = '"' <;> simp [tsStep, ha]) (by decide) l h

theorem sq_facts (l : Str) (h : tsRun .sq l = some .text) :
    '\'' ∈ l ∧ tsRun .tag (l.drop (qLen '\'' l)) = some .text ∧
      tagLen .sq l = qLen '\'' l + tagLen .tag (l.drop (qLen '\'' l)) :=
  quote_facts '\'' .sq (fun a => by by_cases ha : a = '\'' <;> simp [tsStep, ha]) (by decide) l h

theorem tsStep_tag_plain {a : Char} (h1 : a ≠ '>') (h2 : a ≠ '<') (h3 : a ≠ '"') (h4 : a ≠ '\'') :
    tsStep .tag a = some .tag := by
  simp [tsStep, h1, h2, h3, h4]

/-! ### the star over the body of a tag -/

/-- **The greedy star on the body of a tag.**  From a position where the scanner is inside a tag (`.tag`), the star
followed by `>` ends exactly after the `>` that takes the scanner back to character data: the result is the result of
the outer continuation `K` there, whatever `K` is (so there is nothing to backtrack to: every earlier exit of the star
is followed by a character that is not `>`, and the star cannot run past that `>`). -/
theorem tagLoop {R : Type} {x : RxCtx} {s : Str} (hx : CtxFor x s) (K : Nat → Caps → Option R) (c : Caps) :
    ∀ (n : Nat) (l : Str) (j fuel cnt : Nat) (pa : Bool), l.length ≤ n → s.drop j = l →
      tsRun .tag l = some .text → l.length < fuel → (pa = true ∨ cnt = 0) →
      repLoop (fun i c k => tagItemRx.m x i c k) 0 none true
        (fun e c => (Rx.cls false [.chr ('>').toNat]).m x e c K) fuel cnt pa j c = K (j + tagLen .tag l) c := by
  intro n
  induction n with
  | zero =>
    intro l j fuel cnt pa hn _ hrun
    have : l = [] := List.length_eq_zero_iff.mp (by omega)
    subst this
    simp [tsRun] at hrun
  | succ n ih =>
    intro l j fuel cnt pa hn hl hrun hf hpa
    cases l with
    | nil => simp [tsRun] at hrun
    | cons a l =>
      obtain ⟨f, rfl⟩ : ∃ f, fuel = f + 1 := ⟨fuel - 1, by omega⟩
      have h3 := (ctx_drop_cons hx hl).2.2
      simp only [List.length_cons] at hn hf
      by_cases hgt : a = '>'
      · subst hgt
        rw [greedy_stop _ _ _ _ _ _ _ (fun k' => tagItem_gt hx hl c k'), chr_m_cons hx hl, if_pos rfl]
        simp [tagLen, tsStep]
      by_cases hlt : a = '<'
      · subst hlt
        simp [tsRun, tsStep] at hrun
      have hdone : (Rx.cls false [.chr ('>').toNat]).m x j c K = none := by
        rw [chr_m_cons hx hl, if_neg hgt]
      by_cases hdq : a = '"'
      · subst hdq
        have hrun' : tsRun .dq l = some .text := by simpa [tsRun, tsStep] using hrun
        obtain ⟨hmem, hrest, hlen⟩ := dq_facts l hrun'
        have hle := qLen_le '"' l
        have hd : s.drop (j + (1 + qLen '"' l)) = l.drop (qLen '"' l) := by
          rw [show j + (1 + qLen '"' l) = (j + 1) + qLen '"' l by omega, ← List.drop_drop, h3]
        rw [greedy_step _ _ f cnt pa j c (1 + qLen '"' l) hpa
          (fun k' => by rw [tagItem_dq hx hl hmem]; congr 1; omega) hdone]
        rw [ih _ _ f (cnt + 1) _ (by simp; omega) hd hrest (by simp; omega) (Or.inl (by simp))]
        have : tagLen .tag ('"' :: l) = tagLen .dq l + 1 := by simp [tagLen, tsStep]
        rw [this, hlen]
        congr 1; omega
      by_cases hsq : a = '\''
      · subst hsq
        have hrun' : tsRun .sq l = some .text := by simpa [tsRun, tsStep] using hrun
        obtain ⟨hmem, hrest, hlen⟩ := sq_facts l hrun'
        have hle := qLen_le '\'' l
        have hd : s.drop (j + (1 + qLen '\'' l)) = l.drop (qLen '\'' l) := by
          rw [show j + (1 + qLen '\'' l) = (j + 1) + qLen '\'' l by omega, ← List.drop_drop, h3]
        rw [greedy_step _ _ f cnt pa j c (1 + qLen '\'' l) hpa
          (fun k' => by rw [tagItem_sq hx hl hmem]; congr 1; omega) hdone]
        rw [ih _ _ f (cnt + 1) _ (by simp; omega) hd hrest (by simp; omega) (Or.inl (by simp))]
        have : tagLen .tag ('\'' :: l) = tagLen .sq l + 1 := by simp [tagLen, tsStep]
        rw [this, hlen]
        congr 1; omega
      · have hstep := tsStep_tag_plain hgt hlt hdq hsq
        have hrun' : tsRun .tag l = some .text := by rw [tsRun_cons, hstep] at hrun; exact hrun
        rw [greedy_step _ _ f cnt pa j c 1 hpa (fun k' => tagItem_plain hx hl hgt hdq hsq c k') hdone]
        rw [ih _ _ f (cnt + 1) _ (by omega) h3 hrun' (by omega) (Or.inl (by simp))]
        have : tagLen .tag (a :: l) = tagLen .tag l + 1 := by simp [tagLen, hstep]
        rw [this]
        congr 1; omega

/-! ### `match` at one position -/

/-- just after `<`: the next character exists, is none of `! < > " '`, and the scanner is inside the tag -/
theorem lt_facts (l : Str) (h : tsRun .lt l = some .text) :
    ∃ a l', l = a :: l' ∧ a ≠ '!' ∧ a ≠ '<' ∧ a ≠ '>' ∧ a ≠ '"' ∧ a ≠ '\'' ∧ tsRun .tag l' = some .text ∧
      tsRun .tag l = some .text ∧ tagLen .lt l = tagLen .tag l := by
  cases l with
  | nil => simp [tsRun] at h
  | cons a l' =>
    rw [tsRun_cons] at h
    by_cases h1 : a = '!'
    · subst h1; simp [tsStep] at h
    by_cases h2 : a = '<'
    · subst h2; simp [tsStep] at h
    by_cases h3 : a = '>'
    · subst h3; simp [tsStep] at h
    by_cases h4 : a = '"'
    · subst h4; simp [tsStep] at h
    by_cases h5 : a = '\''
    · subst h5; simp [tsStep] at h
    have hs : tsStep .lt a = some .tag := by simp [tsStep, h1, h2, h3, h4, h5]
    rw [hs] at h
    have hs' := tsStep_tag_plain h3 h2 h4 h5
    refine ⟨a, l', rfl, h1, h2, h3, h4, h5, h, ?_, ?_⟩
    · rw [tsRun_cons, hs']; exact h
    · simp [tagLen, hs, hs']

/-- **At a `<` of character data** the comment alternative fails (no `<!`), and the tag alternative matches exactly the
scanner's tag. -/
theorem strip_matchAt_lt {x : RxCtx} {s : Str} (hx : CtxFor x s) {j : Nat} {l : Str}
    (hl : s.drop j = '<' :: l) (hrun : tsRun .lt l = some .text) :
    striptagsRxExpected.matchAt x j =
      some { start := j, stop := j + 1 + tagLen .lt l, caps := [(1, (j, j + 1 + tagLen .lt l))] } := by
  obtain ⟨a, l', rfl, hbang, _, _, _, _, _, hrunT, hlen⟩ := lt_facts l hrun
  obtain ⟨_, _, h3⟩ := ctx_drop_cons hx hl
  have hn : x.n = s.length := hx.2
  have hlen' : (a :: l').length + (j + 1) = s.length := by
    have := congrArg List.length h3
    simp at this ⊢; omega
  unfold Rx.matchAt
  rw [striptagsRxExpected_eq, m_grp', m_seq, chr_m_cons hx hl, if_pos rfl, m_alt']
  have hcomment : ∀ k : Nat → Caps → Option RxMatch, commentTailRx.m x (j + 1) [] k = none := by
    intro k
    unfold commentTailRx
    rw [m_seq, chr_m_cons hx h3, if_neg hbang]
  rw [hcomment, m_seq, m_star]
  simp only
  rw [tagLoop hx _ [] _ (a :: l') (j + 1) _ 0 false (Nat.le_refl _) h3 hrunT (by omega) (Or.inr rfl), hlen]

/-- at a character other than `<` nothing matches -/
theorem strip_matchAt_ne {x : RxCtx} {s : Str} (hx : CtxFor x s) {j : Nat} {a : Char} {l : Str}
    (hl : s.drop j = a :: l) (ha : a ≠ '<') : striptagsRxExpected.matchAt x j = none := by
  unfold Rx.matchAt
  rw [striptagsRxExpected_eq, m_grp', m_seq, chr_m_cons hx hl, if_neg ha]

/-- at the end of the subject (or beyond) nothing matches -/
theorem strip_matchAt_nil {x : RxCtx} {s : Str} (hx : CtxFor x s) {j : Nat}
    (hl : s.drop j = []) : striptagsRxExpected.matchAt x j = none := by
  unfold Rx.matchAt
  rw [striptagsRxExpected_eq, m_grp', m_seq, cls_m_nil hx hl]

/-! ### `search` from a position in character data -/

theorem drop_add_of_drop {s : Str} {p : Nat} {l : Str} (h : s.drop p = l) (d : Nat) : s.drop (p + d) = l.drop d := by
  rw [← List.drop_drop, h]

/-- no `<` in the rest of the subject: nothing is found -/
theorem strip_search_none {x : RxCtx} {s : Str} (hx : CtxFor x s) {p : Nat} {l : Str}
    (hl : s.drop p = l) (hno : '<' ∉ l) : striptagsRxExpected.search x p = none := by
  apply search_all_none
  intro i hpi _
  have hd : s.drop i = l.drop (i - p) := by
    rw [← drop_add_of_drop hl (i - p)]; congr 1; omega
  cases hr : l.drop (i - p) with
  | nil => exact strip_matchAt_nil hx (hd.trans hr)
  | cons a r =>
    have ha : a ∈ l := List.mem_of_mem_drop (by rw [hr]; simp)
    exact strip_matchAt_ne hx (hd.trans hr) (fun h => hno (h ▸ ha))

/-- the rest of the subject is character data without `<`, then a tag: the tag is found, whole -/
theorem strip_search_some {x : RxCtx} {s : Str} (hx : CtxFor x s) {p : Nat} {pre l : Str}
    (hl : s.drop p = pre ++ '<' :: l) (hpre : '<' ∉ pre) (hrun : tsRun .lt l = some .text) :
    striptagsRxExpected.search x p =
      some { start := p + pre.length, stop := p + pre.length + 1 + tagLen .lt l,
             caps := [(1, (p + pre.length, p + pre.length + 1 + tagLen .lt l))] } := by
  have hq : s.drop (p + pre.length) = '<' :: l := by
    rw [drop_add_of_drop hl]; simp
  apply search_first _ _ p (p + pre.length) _ (by omega)
  · have := (ctx_drop_cons hx hq).1; omega
  · intro i hpi hiq
    have hd : s.drop i = pre.drop (i - p) ++ '<' :: l := by
      rw [← List.drop_append_of_le_length (by omega), ← drop_add_of_drop hl (i - p)]; congr 1; omega
    cases hr : pre.drop (i - p) with
    | nil =>
      have := List.drop_eq_nil_iff.mp hr
      omega
    | cons a r =>
      have ha : a ∈ pre := List.mem_of_mem_drop (by rw [hr]; simp)
      rw [hr] at hd
      exact strip_matchAt_ne hx hd (fun h => hpre (h ▸ ha))
  · exact strip_matchAt_lt hx hq hrun

/-! ### the scanner's projection, piecewise -/

theorem erase_cons (p : Char × Bool) (t : TStr) : TStr.erase (p :: t) = p.1 :: TStr.erase t := rfl
theorem erase_nil : TStr.erase [] = [] := rfl
theorem erase_append (a b : TStr) : TStr.erase (a ++ b) = TStr.erase a ++ TStr.erase b := by simp [TStr.erase]
theorem erase_drop (n : Nat) (t : TStr) : TStr.erase (t.drop n) = (TStr.erase t).drop n := by simp [TStr.erase]
theorem erase_length (t : TStr) : (TStr.erase t).length = t.length := by simp [TStr.erase]

theorem tsStep_text_ne_lt {a : Char} {st : TS} (ha : a ≠ '<') (h : tsStep .text a = some st) : st = .text := by
  simp only [tsStep, beq_iff_eq, ha, if_false] at h
  split at h
  · cases h
  · injection h with h; exact h.symm

/-- character data before the next `<` is kept as it is -/
theorem tsStripT_text_prefix : ∀ (tpre rest : TStr), '<' ∉ tpre.erase →
    tsRun .text ((tpre ++ rest).erase) = some .text →
      tsStripT .text (tpre ++ rest) = tpre ++ tsStripT .text rest ∧ tsRun .text rest.erase = some .text := by
  intro tpre
  induction tpre with
  | nil => intro rest _ h; exact ⟨rfl, h⟩
  | cons p ps ih =>
    intro rest hno h
    rw [List.cons_append, erase_cons, tsRun_cons] at h
    rw [erase_cons] at hno
    have hp : p.1 ≠ '<' := fun e => hno (by rw [e]; simp)
    cases hs : tsStep .text p.1 with
    | none => rw [hs] at h; cases h
    | some st =>
      have := tsStep_text_ne_lt hp hs
      subst this
      rw [hs] at h
      obtain ⟨h1, h2⟩ := ih rest (fun hm => hno (List.mem_cons_of_mem _ hm)) h
      refine ⟨?_, h2⟩
      rw [List.cons_append, tsStripT, hs]
      simp [h1]

/-- from inside a tag, the projection drops everything up to and including the closing `>` -/
theorem tsStripT_tag : ∀ (tl : TStr) (st : TS), st ≠ .text → tsRun st tl.erase = some .text →
    tsStripT st tl = tsStripT .text (tl.drop (tagLen st tl.erase)) ∧
      tsRun .text (tl.erase.drop (tagLen st tl.erase)) = some .text ∧
      1 ≤ tagLen st tl.erase ∧ tagLen st tl.erase ≤ tl.length := by
  intro tl
  induction tl with
  | nil =>
    intro st hst h
    simp only [erase_nil, tsRun, Option.some.injEq] at h
    exact absurd h hst
  | cons p ps ih =>
    intro st hst h
    rw [erase_cons, tsRun_cons] at h
    cases hs : tsStep st p.1 with
    | none => rw [hs] at h; cases h
    | some st' =>
      rw [hs] at h
      have hstb : (st == TS.text) = false := by simpa using hst
      by_cases ht : st' = .text
      · subst ht
        have hlen : tagLen st (TStr.erase (p :: ps)) = 1 := by simp [erase_cons, tagLen, hs]
        rw [hlen]
        refine ⟨?_, by simpa [erase_cons] using h, Nat.le_refl _, by simp⟩
        rw [tsStripT, hs]
        simp [hstb]
      · have hlen : tagLen st (TStr.erase (p :: ps)) = tagLen st' (TStr.erase ps) + 1 := by
          simp only [erase_cons, tagLen, hs]
        obtain ⟨h1, h2, h3, h4⟩ := ih st' ht h
        rw [hlen]
        refine ⟨?_, by simpa [erase_cons] using h2, by omega, by simp; omega⟩
        rw [tsStripT, hs]
        simp [hstb, h1]

theorem first_lt_split (b : Str) (h : '<' ∈ b) : ∃ u v, b = u ++ '<' :: v ∧ '<' ∉ u := by
  induction b with
  | nil => simp at h
  | cons a r ih =>
    by_cases ha : a = '<'
    · exact ⟨[], r, by simp [ha], by simp⟩
    · rcases List.mem_cons.mp h with h | h
      · exact absurd h.symm ha
      · obtain ⟨u, v, h1, h2⟩ := ih h
        refine ⟨a :: u, v, by simp [h1], ?_⟩
        intro hm
        rcases List.mem_cons.mp hm with h3 | h3
        · exact ha h3.symm
        · exact h2 h3

/-! ### the `allSpans` / `deleteSpans` loop -/

theorem deleteSpans_nil {α : Type} (i : Nat) (l : List α) : deleteSpans [] i l = l := by
  cases l <;> simp [deleteSpans]

/-- the first span `[a, b)`, scanning from `i ≤ b`: keep up to `a`, drop up to `b`, go on with the other spans -/
theorem deleteSpans_skip {α : Type} (a b : Nat) (rest : List (Nat × Nat)) (hab : a ≤ b) :
    ∀ (tl : List α) (i : Nat), i ≤ b →
      deleteSpans ((a, b) :: rest) i tl = tl.take (a - i) ++ deleteSpans rest b (tl.drop (b - i)) := by
  intro tl
  induction tl with
  | nil => intro i _; simp [deleteSpans]
  | cons y ys ih =>
    intro i hib
    rw [deleteSpans]
    by_cases h1 : i < a
    · rw [if_pos h1, ih (i + 1) (by omega), show a - i = (a - (i + 1)) + 1 by omega,
        show b - i = (b - (i + 1)) + 1 by omega]
      simp
    · rw [if_neg h1]
      by_cases h2 : i < b
      · rw [if_pos h2, ih (i + 1) (by omega), show a - i = 0 by omega, show a - (i + 1) = 0 by omega,
          show b - i = (b - (i + 1)) + 1 by omega]
        simp
      · rw [if_neg h2, show a - i = 0 by omega, show b - i = 0 by omega]
        have : i = b := by omega
        subst this
        simp

theorem go_none (r : Rx) (x : RxCtx) (fuel p : Nat) (h : r.search x p = none) : allSpans.go r x fuel p = [] := by
  cases fuel with
  | zero => rfl
  | succ f =>
    simp only [allSpans.go, h]
    split <;> rfl

theorem go_some (r : Rx) (x : RxCtx) (f p : Nat) (mt : RxMatch) (hp : p ≤ x.n) (h : r.search x p = some mt)
    (hne : mt.stop ≠ mt.start) : allSpans.go r x (f + 1) p = (mt.start, mt.stop) :: allSpans.go r x f mt.stop := by
  simp only [allSpans.go, h]
  rw [if_neg (by omega), if_neg (by simpa using hne)]

/-- **The loop.**  From a position `p` in character data with enough fuel, deleting the spans the regex finds is the
scanner's projection. -/
theorem strip_go {x : RxCtx} {s : Str} (hx : CtxFor x s) :
    ∀ (n : Nat) (tl : TStr) (p fuel : Nat), tl.length ≤ n → s.drop p = tl.erase →
      tsRun .text tl.erase = some .text → tl.length < fuel →
      deleteSpans (allSpans.go striptagsRxExpected x fuel p) p tl = tsStripT .text tl := by
  intro n
  induction n with
  | zero =>
    intro tl p fuel hn _ _ _
    have : tl = [] := List.length_eq_zero_iff.mp (by omega)
    subst this
    simp [deleteSpans, tsStripT]
  | succ n ih =>
    intro tl p fuel hn hl hrun hf
    by_cases hmem : '<' ∈ tl.erase
    · obtain ⟨pre, l', hsplit, hpre⟩ := first_lt_split _ hmem
      obtain ⟨tpre, trest, rfl, htpre, htrest⟩ := List.map_eq_append_iff.mp hsplit
      obtain ⟨tlt, tl', rfl, htlt, htl'⟩ := List.map_eq_cons_iff.mp htrest
      have hpl : tpre.length = pre.length := by rw [← htpre]; simp
      have hpre' : '<' ∉ TStr.erase tpre := by rw [TStr.erase, htpre]; exact hpre
      obtain ⟨hS1, hR1⟩ := tsStripT_text_prefix tpre (tlt :: tl') hpre' hrun
      have hlt : tsRun .lt (TStr.erase tl') = some .text := by
        rw [erase_cons, htlt, tsRun_cons] at hR1
        simpa [tsStep] using hR1
      obtain ⟨hS2, hR2, hL1, hL2⟩ := tsStripT_tag tl' .lt (by decide) hlt
      have hS3 : tsStripT .text (tlt :: tl') = tsStripT .lt tl' := by
        rw [tsStripT, htlt]
        simp [tsStep]
      have hl' : s.drop p = pre ++ '<' :: TStr.erase tl' := by
        rw [hl, erase_append, erase_cons, htlt, TStr.erase, htpre]
      obtain ⟨f, rfl⟩ : ∃ f, fuel = f + 1 := ⟨fuel - 1, by omega⟩
      have hsr := strip_search_some hx hl' hpre hlt
      have hq : s.drop (p + pre.length) = '<' :: TStr.erase tl' := by
        rw [drop_add_of_drop hl']; simp
      have hqn := (ctx_drop_cons hx hq).1
      rw [go_some _ _ f p _ (by omega) hsr (by simp; omega)]
      simp only
      rw [deleteSpans_skip _ _ _ (by omega) _ _ (by omega), hS1, hS3, hS2]
      have e1 : p + pre.length - p = tpre.length := by omega
      have e2 : p + pre.length + 1 + tagLen .lt (TStr.erase tl') - p =
          tpre.length + (1 + tagLen .lt (TStr.erase tl')) := by omega
      rw [e1, e2, List.take_left', ← List.drop_drop, List.drop_left']
      · simp only [List.drop_succ_cons, Nat.add_comm 1]
        congr 1
        simp only [List.length_append, List.length_cons] at hn hf
        apply ih
        · simp; omega
        · rw [erase_drop, ← drop_add_of_drop (ctx_drop_cons hx hq).2.2]
        · rw [erase_drop]; exact hR2
        · simp; omega
      · rfl
      · rfl
    · rw [go_none _ _ _ _ (strip_search_none hx hl hmem), deleteSpans_nil]
      have := tsStripT_text_prefix tl [] hmem (by simpa using hrun)
      simpa [tsStripT] using this.1.symm

/-! ### the theorems -/

/-- **`StripAgrees`, proved** for the expected regex: for ALL tagged strings whose erasure is well tagged -/
theorem stripAgrees_expected : StripAgrees striptagsRxExpected := by
  intro t hw
  unfold tStriptags allSpans
  exact strip_go (ctxFor_ctxOf t.erase) t.length t 0 _ (Nat.le_refl _) rfl hw (by simp [TStr.erase])

/-- … hence for the regex of the regenerated table -/
theorem stripAgrees_generated : StripAgrees ((namedRx.lookup "mistune.util._striptags_re").getD .fail) := by
  rw [striptagsRx_is_expected]
  exact stripAgrees_expected

/-- the environment the driver builds carries the regenerated regex -/
theorem stripAgrees_mkTEnv (args : List (String × TVal)) (esc : Bool) : StripAgrees (mkTEnv args esc).striptagsRe :=
  stripAgrees_generated

/-! ### hypothesis-free corollaries of the theorems that took `hstrip` -/

/-- **C02, tag structure, on the templates of the working tree** — `render_tagged` without the (formerly tested)
hypothesis `StripAgrees` -/
theorem render_tagged_closed (fuel : Nat) (toks : List Json)
    (h1 : toks.all (refinedOk templates fuel) = true) (h2 : toks.all (tagTreeOk tagTable fuel) = true) :
    WellTagged (renderToks templates (fun a => mkTEnv a true) fuel toks).erase :=
  render_tagged fuel toks stripAgrees_generated h1 h2

/-- `renderTok_tagged_without_wf_false` without `hstrip` -/
theorem renderTok_tagged_without_wf_false_closed :
    ¬ (∀ (tt : TagTable) (mk : List (String × TVal) → TEnv),
        (∀ args, (mk args).escapeFlag = true ∧ (mk args).args = args) →
        (∀ args, StripAgrees (mk args).striptagsRe) →
        ∀ fuel t, refinedOk tt.tbl fuel t = true → tagTreeOk tt fuel t = true →
          WellTagged (renderTok tt.tbl mk fuel t).erase) :=
  renderTok_tagged_without_wf_false stripAgrees_generated

/-- **C06 (a), balance, on the templates of the working tree** — `render_balanced` without the hypothesis `StripAgrees` -/
theorem render_balanced_closed (fuel : Nat) (toks : List Json)
    (h1 : toks.all (refinedOk templates fuel) = true) (h2 : toks.all (balTreeOk tagTable fuel) = true) :
    Balanced (renderToks templates (fun a => mkTEnv a true) fuel toks).erase :=
  render_balanced fuel toks stripAgrees_generated h1 h2

/-- `renderTok_balanced_without_strict_false` without `hstrip` -/
theorem renderTok_balanced_without_strict_false_closed :
    ¬ (∀ (tt : TagTable) (mk : List (String × TVal) → TEnv),
        (∀ args, (mk args).escapeFlag = true ∧ (mk args).args = args) →
        (∀ args, StripAgrees (mk args).striptagsRe) →
        (tt.tbl.tmpls.map (·.1)).Nodup → tt.wf = true →
        ∀ fuel t, refinedOk tt.tbl fuel t = true → balTreeOk tt fuel t = true →
          Neutral (renderTok tt.tbl mk fuel t).erase) :=
  renderTok_balanced_without_strict_false stripAgrees_generated

/-! ### concrete instances (the statement is not vacuous) -/

/-- character data (document data, flagged `true`) around two tags (template literals, flagged `false`); the first tag
has a double-quoted value holding `>`, `'` and `<`, and a single-quoted value holding `>`, `"` and `<` -/
def exTagged : TStr :=
  TStr.ofData "it's ".toList ++ TStr.ofLit "<a href=\"1>2'<3\" title='>\"<' x>".toList ++ TStr.ofData "b".toList ++
    TStr.ofLit "</a>".toList ++ TStr.ofData " c".toList

/-- the hypothesis holds … -/
example : WellTagged exTagged.erase := by unfold WellTagged; decide +kernel

/-- … and the theorem gives the result of `striptags` on it: both tags go, whole (no `>` inside a quoted value ends a
tag, the quote of the other kind does not end a value), the flags of the rest are kept -/
example :
    tStriptags ((namedRx.lookup "mistune.util._striptags_re").getD .fail) exTagged =
      TStr.ofData "it's b c".toList := by
  rw [stripAgrees_generated exTagged (by unfold WellTagged; decide +kernel)]
  decide +kernel

/-- the same instance by running the engine itself (no use of the theorem) -/
example : tStriptags striptagsRxExpected exTagged = TStr.ofData "it's b c".toList := by
  rw [tStriptags_eq_F]
  decide +kernel

/-- the spans the engine finds on it: the two tags -/
example : allSpans striptagsRxExpected exTagged.erase = [(5, 36), (37, 41)] := by decide +kernel

/-- a quoted value that is never closed makes the string ill tagged: the hypothesis is needed (here the regex removes
nothing, the scanner's projection stops at the `<`) -/
example :
    ¬ WellTagged "a<b \"c>d".toList ∧
    tStriptags striptagsRxExpected (TStr.ofLit "a<b \"c>d".toList) = TStr.ofLit "a<b \"c>d".toList ∧
    tsStripT .text (TStr.ofLit "a<b \"c>d".toList) = TStr.ofLit "a".toList := by
  refine ⟨by unfold WellTagged; decide +kernel, ?_, by decide +kernel⟩
  rw [tStriptags_eq_F]
  decide +kernel

/-- `<!` is not well tagged, and there the two differ as well: the regex takes `<!x>` as a tag (second alternative) -/
example :
    ¬ WellTagged "a<!x>b".toList ∧
    tStriptags striptagsRxExpected (TStr.ofLit "a<!x>b".toList) = TStr.ofLit "ab".toList ∧
    tsStripT .text (TStr.ofLit "a<!x>b".toList) = TStr.ofLit "a".toList := by
  refine ⟨by unfold WellTagged; decide +kernel, ?_, by decide +kernel⟩
  rw [tStriptags_eq_F]
  decide +kernel

end Mistune

