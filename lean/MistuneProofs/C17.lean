/-
C17 — the command-line tool is a faithful front end: for every conversion function, flag combination,
file system and non-empty content.
-/
import Mistune.Cli
namespace Mistune

variable (conv : ConvCfg → Str → Str) (fs : Str → Option Str)

/-- **C17 (stdout).** A non-empty message is converted under `cfgOf args` and printed followed by a newline. -/
theorem cli_message_stdout (a : CliArgs) (c : Str) (hc : c ≠ []) (ho : truthyStr a.output = false)
    (stdin : Option Str) :
    cli conv fs { a with message := some c } stdin = .stdout (conv (cfgOf a) c ++ ['\n']) := by
  cases c with
  | nil => exact absurd rfl hc
  | cons x xs =>
    simp only [truthyStr] at ho
    simp [cli, truthyStr, cliOutput, cfgOf, ho]

/-- **C17 (output file).** With `-o path` the file receives exactly the library's text (no newline added). -/
theorem cli_message_file (a : CliArgs) (c p : Str) (hc : c ≠ []) (hp : p ≠ []) (stdin : Option Str) :
    cli conv fs { a with message := some c, output := some p } stdin = .file p (conv (cfgOf a) c) := by
  cases c with
  | nil => exact absurd rfl hc
  | cons x xs =>
    cases p with
    | nil => exact absurd rfl hp
    | cons y ys => simp [cli, truthyStr, cliOutput, cfgOf]

/-- **C17 (channels agree).** The same non-empty content supplied via `-m`, via `-f` (a file holding it) or on
standard input gives the same outcome, whatever the other flags. -/
theorem cli_channels_agree (a : CliArgs) (c f : Str) (hc : c ≠ []) (hf : f ≠ []) (hfs : fs f = some c)
    (stdin : Option Str) :
    cli conv fs { a with message := some c, file := none } stdin
      = cli conv fs { a with message := none, file := some f } stdin
    ∧ cli conv fs { a with message := some c, file := none } stdin
      = cli conv fs { a with message := none, file := none } (some c) := by
  cases c with
  | nil => exact absurd rfl hc
  | cons x xs =>
    cases f with
    | nil => exact absurd rfl hf
    | cons y ys => simp [cli, truthyStr, cliOutput, cfgOf, hfs]

/-- **C17 (flag mapping).** Each flag reaches the documented `create_markdown` argument; plugins default to the
documented list exactly when no `-p` is given. -/
theorem cfgOf_flags (a : CliArgs) :
    (cfgOf a).escape = a.escape ∧ (cfgOf a).hardWrap = a.hardwrap ∧ (cfgOf a).renderer = a.renderer ∧
    (a.plugin = none → (cfgOf a).plugins = defaultPlugins) ∧
    (∀ p, p ≠ [] → a.plugin = some p → (cfgOf a).plugins = p) := by
  refine ⟨rfl, rfl, rfl, ?_, ?_⟩
  · intro h; simp [cfgOf, h]
  · intro p hp h
    cases p with
    | nil => exact absurd rfl hp
    | cons x xs => simp [cfgOf, h]

/-- `-m` wins over `-f` and over standard input. -/
theorem cli_message_wins (a : CliArgs) (c : Str) (hc : c ≠ []) (s1 s2 : Option Str) (f1 f2 : Option Str) :
    cli conv fs { a with message := some c, file := f1 } s1 = cli conv fs { a with message := some c, file := f2 } s2 := by
  cases c with
  | nil => exact absurd rfl hc
  | cons x xs => simp [cli, truthyStr, cliOutput, cfgOf]

/-- non-vacuity -/
example : cli (fun _ s => s ++ "!".toList) (fun _ => none) { message := some "hi".toList } none
    = .stdout "hi!\n".toList := by decide

end Mistune
