/-
C05 (tight lists) — `_transform_tight_list`: in a tight list every `paragraph` child of an item becomes a
`block_text` and nothing else changes; a loose list is returned as it is (nested lists included).

The model function `transformTightList : Nat → Json → Except PyErr Json` (Mistune/Model/Block.lean) is shown equal,
on well-shaped list tokens (`listShape`), to an independent specification `tightSpec` written without the `Except`
monad and without `Json.set`.
-/
import Mistune.Model.Block
namespace Mistune
open Model Blk

/-! ### the shape of a list token -/

/-- a child of a list item: an object with a string `type`; a child of type `"list"` satisfies `rec` -/
def childShape (rec : Json → Bool) (c : Json) : Bool :=
  match c.get? "type" with
  | some (.str s) => if String.ofList s = "list" then rec c else true
  | _ => false

/-- a list item: an object whose `children` is an array of well-shaped children -/
def itemShape (rec : Json → Bool) (it : Json) : Bool :=
  match it.get? "children" with
  | some (.arr cs) => cs.all (childShape rec)
  | _ => false

/-- a list token: an object with a boolean `tight` whose `children` is an array of well-shaped items -/
def listShapeWith (rec : Json → Bool) (tok : Json) : Bool :=
  (match tok.get? "tight" with
   | some (.bool _) => true
   | _ => false) &&
  (match tok.get? "children" with
   | some (.arr items) => items.all (itemShape rec)
   | _ => false)

/-- `listShape d tok`: `tok` is a well-shaped list token whose lists nest at most `d` levels below it
(`listShape 0`: no item has a child of type `"list"`) -/
def listShape : Nat → Json → Bool
  | 0, tok => listShapeWith (fun _ => false) tok
  | d + 1, tok => listShapeWith (listShape d) tok

/-! ### the specification -/

/-- the keys of an object, in order -/
def Json.keys : Json → List String
  | .obj kv => kv.map Prod.fst
  | _ => []

/-- the same object with the value of every entry named `k` replaced by `v`; nothing is added, removed or moved -/
def replaceField (k : String) (v : Json) : Json → Json
  | .obj kv => .obj (kv.map fun p => if p.1 = k then (p.1, v) else p)
  | j => j

/-- the same token with type `"block_text"` -/
def retype (t : Json) : Json := replaceField "type" (Json.s "block_text") t

/-- what happens to a child of an item of a tight list (`rec` is the treatment of a nested list) -/
def specChild (rec : Json → Json) (c : Json) : Json :=
  if c.type = "paragraph" then retype c
  else if c.type = "list" then rec c
  else c

/-- what happens to an item of a tight list -/
def specItem (rec : Json → Json) (it : Json) : Json :=
  replaceField "children" (.arr ((it.getArr "children").map (specChild rec))) it

/-- the specification of `_transform_tight_list` -/
def tightSpec : Nat → Json → Json
  | 0, tok => tok
  | d + 1, tok =>
    if tok.getBool "tight" then
      replaceField "children" (.arr ((tok.getArr "children").map (specItem (tightSpec d)))) tok
    else tok

/-! ### `replaceField` -/

theorem lookup_map_replace (k : String) (v : Json) (k' : String) (kv : List (String × Json)) :
    (kv.map fun p => if p.1 = k then (p.1, v) else p).lookup k' =
      if k' = k then (kv.lookup k').map (fun _ => v) else kv.lookup k' := by
  induction kv with
  | nil => simp
  | cons a l ih =>
    obtain ⟨a1, a2⟩ := a
    by_cases hk : k' = k
    · subst hk
      simp only [if_true] at ih ⊢
      by_cases ha : a1 = k'
      · subst ha; simp
      · have : (k' == a1) = false := by simpa using fun h => ha h.symm
        simp [List.lookup_cons, ha, this, ih]
    · simp only [hk, if_false] at ih ⊢
      by_cases ha : a1 = k
      · subst ha
        have : (k' == a1) = false := by simpa using hk
        simp [List.lookup_cons, this, ih]
      · simp [List.lookup_cons, ha, ih]

theorem get?_replaceField_ne (k : String) (v : Json) (t : Json) (k' : String) (h : k' ≠ k) :
    (replaceField k v t).get? k' = t.get? k' := by
  cases t <;> simp [replaceField, Json.get?, lookup_map_replace, h]

theorem get?_replaceField_self (k : String) (v : Json) (t : Json) :
    (replaceField k v t).get? k = (t.get? k).map (fun _ => v) := by
  cases t <;> simp [replaceField, Json.get?, lookup_map_replace]

theorem keys_replaceField (k : String) (v : Json) (t : Json) : (replaceField k v t).keys = t.keys := by
  cases t <;> simp [replaceField, Json.keys]
  rename_i kv
  intro a b _
  by_cases h : a = k <;> simp [h]

theorem replaceField_replaceField (k : String) (v w : Json) (t : Json) :
    replaceField k v (replaceField k w t) = replaceField k v t := by
  cases t <;> simp [replaceField]
  rename_i kv
  intro a b _
  by_cases h : a = k <;> simp [h]

theorem lookup_some_any (k : String) (kv : List (String × Json)) (v : Json) (h : kv.lookup k = some v) :
    kv.any (fun p => p.1 == k) = true := by
  induction kv with
  | nil => simp at h
  | cons a l ih =>
    obtain ⟨a1, a2⟩ := a
    by_cases ha : a1 = k
    · simp [ha]
    · have : (k == a1) = false := by simpa using fun e => ha e.symm
      simp only [List.lookup_cons, this] at h
      simp [ih h]

/-- `d[k] = v` for a key that is present is `replaceField` -/
theorem set_eq_replaceField (t : Json) (k : String) (v v0 : Json) (h : t.get? k = some v0) :
    t.set k v = replaceField k v t := by
  cases t with
  | obj kv =>
    simp only [Json.get?] at h
    simp only [Json.set, lookup_some_any k kv v0 h, if_true, replaceField, Json.obj.injEq]
    apply List.map_congr_left
    intro p _
    by_cases hp : p.1 = k <;> simp [hp]
  | _ => simp [Json.get?] at h

/-! ### the model function, one level at a time -/

/-- the body of the inner `for tok in list_item["children"]` loop -/
def childStep (fuel : Nat) (t : Json) : Except PyErr Json := do
  let ty ← typeOf t
  if ty == "paragraph" then pure (t.set "type" (Json.s "block_text"))
  else if ty == "list" then transformTightList fuel t
  else pure t

/-- the body of the outer `for list_item in token["children"]` loop -/
def itemStep (fuel : Nat) (listItem : Json) : Except PyErr Json := do
  let cs ← childrenOf listItem
  let cs ← cs.mapM (childStep fuel)
  pure (listItem.set "children" (.arr cs))

theorem transformTightList_succ (fuel : Nat) (token : Json) :
    transformTightList (fuel + 1) token = (do
      if (← getE token "tight").truthy then
        let items ← childrenOf token
        let items ← items.mapM (itemStep fuel)
        pure (token.set "children" (.arr items))
      else pure token) := by
  rfl

theorem mapM_ok_of_forall {α β ε : Type} (f : α → Except ε β) (g : α → β) :
    ∀ (l : List α), (∀ a ∈ l, f a = .ok (g a)) → l.mapM f = .ok (l.map g) := by
  intro l
  induction l with
  | nil => intro _; rfl
  | cons a l ih =>
    intro h
    rw [List.mapM_cons, h a List.mem_cons_self, ih (fun b hb => h b (List.mem_cons_of_mem _ hb))]
    rfl

theorem getE_of_get? (t : Json) (k : String) (v : Json) (h : t.get? k = some v) : getE t k = .ok v := by
  simp [getE, h]

theorem childrenOf_of_get? (t : Json) (l : List Json) (h : t.get? "children" = some (.arr l)) :
    childrenOf t = .ok l := by
  simp [childrenOf, getE, h, bind, Except.bind, pure, Except.pure]

theorem typeOf_of_get? (t : Json) (s : Str) (h : t.get? "type" = some (.str s)) :
    typeOf t = .ok (String.ofList s) := by
  simp [typeOf, getE, h, bind, Except.bind, pure, Except.pure]

theorem type_of_get? (t : Json) (s : Str) (h : t.get? "type" = some (.str s)) : t.type = String.ofList s := by
  simp [Json.type, Json.getStr, h]

theorem getArr_of_get? (t : Json) (k : String) (l : List Json) (h : t.get? k = some (.arr l)) : t.getArr k = l := by
  simp [Json.getArr, h]

theorem getBool_of_get? (t : Json) (k : String) (b : Bool) (h : t.get? k = some (.bool b)) : t.getBool k = b := by
  simp [Json.getBool, h]

/-! ### shape, unfolded -/

theorem childShape_iff (rec : Json → Bool) (c : Json) :
    childShape rec c = true ↔ ∃ s, c.get? "type" = some (.str s) ∧ (String.ofList s = "list" → rec c = true) := by
  unfold childShape
  split
  · rename_i s hs
    by_cases hl : String.ofList s = "list" <;> simp [hs, hl]
  · rename_i hne
    constructor
    · intro h; cases h
    · rintro ⟨s, hs, _⟩; exact absurd hs (hne s)

theorem itemShape_iff (rec : Json → Bool) (it : Json) :
    itemShape rec it = true ↔ ∃ cs, it.get? "children" = some (.arr cs) ∧ ∀ c ∈ cs, childShape rec c = true := by
  unfold itemShape
  split
  · rename_i cs hcs
    simp [hcs]
  · rename_i hne
    constructor
    · intro h; cases h
    · rintro ⟨cs, hcs, _⟩; exact absurd hcs (hne cs)

theorem listShapeWith_iff (rec : Json → Bool) (tok : Json) :
    listShapeWith rec tok = true ↔
      ∃ b items, tok.get? "tight" = some (.bool b) ∧ tok.get? "children" = some (.arr items) ∧
        ∀ it ∈ items, itemShape rec it = true := by
  unfold listShapeWith
  rw [Bool.and_eq_true]
  constructor
  · rintro ⟨h1, h2⟩
    split at h1
    · rename_i b hb
      split at h2
      · rename_i items hitems
        exact ⟨b, items, hb, hitems, by simpa using h2⟩
      · cases h2
    · cases h1
  · rintro ⟨b, items, hb, hitems, h⟩
    simp [hb, hitems]
    exact h

/-! ### the model agrees with the specification -/

theorem childStep_eq_spec (fuel : Nat) (recS : Json → Bool)
    (ih : ∀ c, recS c = true → transformTightList fuel c = .ok (tightSpec fuel c))
    (c : Json) (hc : childShape recS c = true) :
    childStep fuel c = .ok (specChild (tightSpec fuel) c) := by
  obtain ⟨s, hs, hrec⟩ := (childShape_iff recS c).1 hc
  unfold childStep specChild
  rw [typeOf_of_get? c s hs, type_of_get? c s hs]
  by_cases hp : String.ofList s = "paragraph"
  · simp [hp, bind, Except.bind, pure, Except.pure, retype, set_eq_replaceField c "type" _ _ hs]
  · by_cases hl : String.ofList s = "list"
    · simp [hl, bind, Except.bind, ih c (hrec hl)]
    · simp [hp, hl, bind, Except.bind, pure, Except.pure]

theorem itemStep_eq_spec (fuel : Nat) (recS : Json → Bool)
    (ih : ∀ c, recS c = true → transformTightList fuel c = .ok (tightSpec fuel c))
    (it : Json) (hit : itemShape recS it = true) :
    itemStep fuel it = .ok (specItem (tightSpec fuel) it) := by
  obtain ⟨cs, hcs, hall⟩ := (itemShape_iff recS it).1 hit
  unfold itemStep specItem
  rw [childrenOf_of_get? it cs hcs, getArr_of_get? it _ cs hcs]
  simp only [bind, Except.bind]
  rw [mapM_ok_of_forall (childStep fuel) (specChild (tightSpec fuel)) cs
    (fun c hc => childStep_eq_spec fuel recS ih c (hall c hc))]
  simp only [pure, Except.pure, set_eq_replaceField it "children" _ _ hcs]

theorem transform_step (fuel : Nat) (recS : Json → Bool)
    (ih : ∀ c, recS c = true → transformTightList fuel c = .ok (tightSpec fuel c))
    (tok : Json) (hs : listShapeWith recS tok = true) :
    transformTightList (fuel + 1) tok = .ok (tightSpec (fuel + 1) tok) := by
  obtain ⟨b, items, hb, hitems, hall⟩ := (listShapeWith_iff recS tok).1 hs
  rw [transformTightList_succ]
  unfold tightSpec
  rw [getE_of_get? tok _ _ hb, getBool_of_get? tok _ b hb]
  cases b with
  | false => simp [bind, Except.bind, pure, Except.pure, Json.truthy]
  | true =>
    simp only [bind, Except.bind, Json.truthy, if_true]
    rw [childrenOf_of_get? tok items hitems, getArr_of_get? tok _ items hitems]
    simp only
    rw [mapM_ok_of_forall (itemStep fuel) (specItem (tightSpec fuel)) items
      (fun it hit => itemStep_eq_spec fuel recS ih it (hall it hit))]
    simp only [pure, Except.pure, set_eq_replaceField tok "children" _ _ hitems]

/-- what `listShape d` asks of the nested lists: nothing can be nested at depth 0 -/
def recShape : Nat → Json → Bool
  | 0 => fun _ => false
  | d + 1 => listShape d

theorem listShape_eq (d : Nat) (tok : Json) : listShape d tok = listShapeWith (recShape d) tok := by
  cases d <;> rfl

/-- the shape, fully unfolded -/
theorem listShape_unfold (d : Nat) (tok : Json) (hs : listShape d tok = true) :
    ∃ b items, tok.get? "tight" = some (.bool b) ∧ tok.get? "children" = some (.arr items) ∧
      ∀ it ∈ items, ∃ cs, it.get? "children" = some (.arr cs) ∧
        ∀ c ∈ cs, ∃ s, c.get? "type" = some (.str s) ∧ (String.ofList s = "list" → recShape d c = true) := by
  rw [listShape_eq] at hs
  obtain ⟨b, items, hb, hitems, hall⟩ := (listShapeWith_iff _ tok).1 hs
  refine ⟨b, items, hb, hitems, fun it hit => ?_⟩
  obtain ⟨cs, hcs, hc⟩ := (itemShape_iff _ it).1 (hall it hit)
  exact ⟨cs, hcs, fun c hcm => (childShape_iff _ c).1 (hc c hcm)⟩

/-- **the model is the specification** on well-shaped list tokens; the fuel needed is one more than the nesting
depth of lists below the token -/
theorem transform_eq_spec : ∀ (d : Nat) (tok : Json), listShape d tok = true →
    transformTightList (d + 1) tok = .ok (tightSpec (d + 1) tok)
  | 0, tok, hs => transform_step 0 (fun _ => false) (fun _ h => by cases h) tok hs
  | d + 1, tok, hs => transform_step (d + 1) (listShape d) (fun c hc => transform_eq_spec d c hc) tok hs

/-- the nested lists of a well-shaped token are transformed with the remaining fuel -/
theorem recShape_ok : ∀ (d : Nat) (c : Json), recShape d c = true → transformTightList d c = .ok (tightSpec d c)
  | 0, _, h => by cases h
  | d + 1, c, h => transform_eq_spec d c h

/-- **totality**: no Python exception path (`KeyError`, `TypeError`) and no fuel exhaustion for a well-shaped token -/
theorem transform_total (d : Nat) (tok : Json) (hs : listShape d tok = true) :
    ∃ r, transformTightList (d + 1) tok = .ok r :=
  ⟨_, transform_eq_spec d tok hs⟩

/-! ### loose lists -/

theorem tightSpec_loose (n : Nat) (tok : Json) (ht : tok.getBool "tight" = false) : tightSpec n tok = tok := by
  cases n with
  | zero => rfl
  | succ n => simp [tightSpec, ht]

/-- **loose lists are untouched**, nested lists included; nothing is asked of the token but a falsy `tight` -/
theorem loose_id_truthy (fuel : Nat) (tok v : Json) (hv : tok.get? "tight" = some v) (hf : v.truthy = false) :
    transformTightList (fuel + 1) tok = .ok tok := by
  rw [transformTightList_succ, getE_of_get? tok _ _ hv]
  simp [bind, Except.bind, hf, pure, Except.pure]

/-- **loose lists are untouched**, nested lists included -/
theorem loose_id (fuel : Nat) (tok : Json) (ht : tok.get? "tight" = some (.bool false)) :
    transformTightList (fuel + 1) tok = .ok tok :=
  loose_id_truthy fuel tok _ ht rfl

/-! ### what `retype`, `specItem` and `tightSpec` keep -/

/-- `t'` is `t` but for the value of `k`: same keys in the same order, same values under the other keys -/
def sameExcept (k : String) (t t' : Json) : Prop :=
  t'.keys = t.keys ∧ ∀ k', k' ≠ k → t'.get? k' = t.get? k'

theorem sameExcept_refl (k : String) (t : Json) : sameExcept k t t := ⟨rfl, fun _ _ => rfl⟩

theorem sameExcept_replaceField (k : String) (v : Json) (t : Json) : sameExcept k t (replaceField k v t) :=
  ⟨keys_replaceField k v t, fun k' h => get?_replaceField_ne k v t k' h⟩

/-- `retype` changes the value of `type` and nothing else -/
theorem retype_same (c : Json) : sameExcept "type" c (retype c) := sameExcept_replaceField _ _ c

theorem type_eq_ne_empty (c : Json) (h : c.type ≠ "") : ∃ s, c.get? "type" = some (.str s) := by
  unfold Json.type Json.getStr at h
  split at h
  · rename_i s hs; exact ⟨s, hs⟩
  · exact absurd rfl h

theorem retype_get?_type (c v : Json) (h : c.get? "type" = some v) :
    (retype c).get? "type" = some (Json.s "block_text") := by
  simp [retype, get?_replaceField_self, h]

/-- a retyped paragraph is a `block_text` -/
theorem retype_type (c : Json) (h : c.type = "paragraph") : (retype c).type = "block_text" := by
  obtain ⟨s, hs⟩ := type_eq_ne_empty c (by rw [h]; decide)
  have := retype_get?_type c _ hs
  simp only [Json.type, Json.getStr, this, Json.s]
  decide

theorem type_congr (t t' : Json) (h : t'.get? "type" = t.get? "type") : t'.type = t.type := by
  simp [Json.type, Json.getStr, h]

theorem tightSpec_same (n : Nat) (tok : Json) : sameExcept "children" tok (tightSpec n tok) := by
  cases n with
  | zero => exact sameExcept_refl _ _
  | succ n =>
    unfold tightSpec
    split
    · exact sameExcept_replaceField _ _ _
    · exact sameExcept_refl _ _

theorem specItem_same (rec : Json → Json) (it : Json) : sameExcept "children" it (specItem rec it) :=
  sameExcept_replaceField _ _ _

/-- the transformation keeps the type of the list token -/
theorem tightSpec_type (n : Nat) (tok : Json) : (tightSpec n tok).type = tok.type :=
  type_congr _ _ ((tightSpec_same n tok).2 "type" (by decide))

theorem getArr_replaceField_self (k : String) (l : List Json) (t v0 : Json) (h : t.get? k = some v0) :
    (replaceField k (.arr l) t).getArr k = l := by
  simp [Json.getArr, get?_replaceField_self, h]

theorem specItem_children (rec : Json → Json) (it : Json) (cs : List Json)
    (h : it.get? "children" = some (.arr cs)) :
    (specItem rec it).getArr "children" = cs.map (specChild rec) := by
  unfold specItem
  rw [getArr_replaceField_self _ _ _ _ h, getArr_of_get? _ _ _ h]

theorem tightSpec_children (n : Nat) (tok : Json) (items : List Json)
    (ht : tok.getBool "tight" = true) (h : tok.get? "children" = some (.arr items)) :
    (tightSpec (n + 1) tok).getArr "children" = items.map (specItem (tightSpec n)) := by
  unfold tightSpec
  rw [if_pos ht, getArr_replaceField_self _ _ _ _ h, getArr_of_get? _ _ _ h]

/-- the type of a transformed child -/
theorem specChild_type (n : Nat) (c : Json) :
    (specChild (tightSpec n) c).type = if c.type = "paragraph" then "block_text" else c.type := by
  unfold specChild
  by_cases hp : c.type = "paragraph"
  · simp [hp, retype_type]
  · by_cases hl : c.type = "list"
    · simp [hl, tightSpec_type]
    · simp [hp, hl]

/-! ### tight lists: the readable corollaries -/

/-- the relation between a child `c` of an item of a tight list and what replaces it (`fuel`: what is left for the
nested lists) -/
def childRel (fuel : Nat) (c c' : Json) : Prop :=
  (c.type = "paragraph" ∧ c' = retype c) ∨
  (c.type = "list" ∧ transformTightList fuel c = .ok c') ∨
  (c.type ≠ "paragraph" ∧ c.type ≠ "list" ∧ c' = c)

/-- two lists of the same length whose elements are related position by position -/
inductive Forall₂ {α β : Type} (R : α → β → Prop) : List α → List β → Prop
  | nil : Forall₂ R [] []
  | cons {a b l l'} : R a b → Forall₂ R l l' → Forall₂ R (a :: l) (b :: l')

theorem Forall₂.length_eq {α β : Type} {R : α → β → Prop} {l : List α} {l' : List β} (h : Forall₂ R l l') :
    l'.length = l.length := by
  induction h with
  | nil => rfl
  | cons _ _ ih => simp [ih]

theorem forall₂_map {α β : Type} (R : α → β → Prop) (f : α → β) :
    ∀ (l : List α), (∀ a ∈ l, R a (f a)) → Forall₂ R l (l.map f)
  | [], _ => .nil
  | a :: l, h => .cons (h a List.mem_cons_self) (forall₂_map R f l (fun b hb => h b (List.mem_cons_of_mem _ hb)))

/-- **tight lists, item by item and child by child**: the list token and every item keep their keys, their order
and every value but `children`; items and children correspond one to one, in order; a `paragraph` child is replaced
by its `retype`, a `list` child by the result of `_transform_tight_list` on it, any other child by itself. -/
theorem tight_pointwise (d : Nat) (tok r : Json) (hs : listShape d tok = true)
    (hr : transformTightList (d + 1) tok = .ok r) (ht : tok.getBool "tight" = true) :
    sameExcept "children" tok r ∧
    Forall₂
      (fun it it' => sameExcept "children" it it' ∧
        Forall₂ (childRel d) (it.getArr "children") (it'.getArr "children"))
      (tok.getArr "children") (r.getArr "children") := by
  rw [transform_eq_spec d tok hs] at hr
  injection hr with hr
  subst hr
  obtain ⟨b, items, _, hitems, hall⟩ := listShape_unfold d tok hs
  refine ⟨tightSpec_same _ _, ?_⟩
  rw [tightSpec_children d tok items ht hitems, getArr_of_get? _ _ _ hitems]
  apply forall₂_map
  intro it hit
  obtain ⟨cs, hcs, hc⟩ := hall it hit
  refine ⟨specItem_same _ _, ?_⟩
  rw [specItem_children _ it cs hcs, getArr_of_get? _ _ _ hcs]
  apply forall₂_map
  intro c hcm
  obtain ⟨s, hsty, hrec⟩ := hc c hcm
  unfold childRel specChild
  by_cases hp : c.type = "paragraph"
  · simp [hp]
  · by_cases hl : c.type = "list"
    · have := recShape_ok d c (hrec (by rw [← type_of_get? c s hsty]; exact hl))
      simp [hl, this]
    · simp [hp, hl]

/-- **no paragraph is left** among the children of the items of a tight list -/
theorem tight_no_paragraph (d : Nat) (tok r : Json) (hs : listShape d tok = true)
    (hr : transformTightList (d + 1) tok = .ok r) (ht : tok.getBool "tight" = true) :
    ∀ it ∈ r.getArr "children", ∀ c ∈ it.getArr "children", c.type ≠ "paragraph" := by
  rw [transform_eq_spec d tok hs] at hr
  injection hr with hr
  subst hr
  obtain ⟨b, items, _, hitems, hall⟩ := listShape_unfold d tok hs
  rw [tightSpec_children d tok items ht hitems]
  intro it' hit' c' hc'
  obtain ⟨it, hit, rfl⟩ := List.mem_map.1 hit'
  obtain ⟨cs, hcs, _⟩ := hall it hit
  rw [specItem_children _ it cs hcs] at hc'
  obtain ⟨c, _, rfl⟩ := List.mem_map.1 hc'
  rw [specChild_type]
  by_cases hp : c.type = "paragraph"
  · simp [hp]
  · simp [hp]

/-- **every former paragraph is a block_text** and the types of the other children are unchanged:
the types of the children of the items, read in order -/
theorem tight_types (d : Nat) (tok r : Json) (hs : listShape d tok = true)
    (hr : transformTightList (d + 1) tok = .ok r) (ht : tok.getBool "tight" = true) :
    (r.getArr "children").map (fun it => (it.getArr "children").map Json.type) =
    (tok.getArr "children").map (fun it => (it.getArr "children").map
      (fun c => if c.type = "paragraph" then "block_text" else c.type)) := by
  rw [transform_eq_spec d tok hs] at hr
  injection hr with hr
  subst hr
  obtain ⟨b, items, _, hitems, hall⟩ := listShape_unfold d tok hs
  rw [tightSpec_children d tok items ht hitems, getArr_of_get? _ _ _ hitems, List.map_map]
  apply List.map_congr_left
  intro it hit
  obtain ⟨cs, hcs, _⟩ := hall it hit
  simp only [Function.comp]
  rw [specItem_children _ it cs hcs, getArr_of_get? _ _ _ hcs, List.map_map]
  apply List.map_congr_left
  intro c _
  exact specChild_type d c

/-- **counts**: the number of items and the number of children of every item are unchanged -/
theorem tight_counts (d : Nat) (tok r : Json) (hs : listShape d tok = true)
    (hr : transformTightList (d + 1) tok = .ok r) :
    (r.getArr "children").length = (tok.getArr "children").length ∧
    (r.getArr "children").map (fun it => (it.getArr "children").length) =
      (tok.getArr "children").map (fun it => (it.getArr "children").length) := by
  cases ht : tok.getBool "tight" with
  | false =>
    rw [transform_eq_spec d tok hs, tightSpec_loose _ _ ht] at hr
    injection hr with hr
    subst hr
    exact ⟨rfl, rfl⟩
  | true =>
    have h := congrArg (List.map List.length) (tight_types d tok r hs hr ht)
    simp only [List.map_map, Function.comp_def, List.length_map] at h
    exact ⟨by simpa using congrArg List.length h, h⟩

/-! ### idempotence -/

theorem specItem_def (rec : Json → Json) (it : Json) :
    specItem rec it = replaceField "children" (.arr ((it.getArr "children").map (specChild rec))) it := rfl

theorem tightSpec_tight (n : Nat) (tok : Json) (ht : tok.getBool "tight" = true) :
    tightSpec (n + 1) tok =
      replaceField "children" (.arr ((tok.getArr "children").map (specItem (tightSpec n)))) tok := by
  simp [tightSpec, ht]

theorem specChild_idem (fuel : Nat) (recS : Json → Bool)
    (ih : ∀ c, recS c = true → tightSpec fuel (tightSpec fuel c) = tightSpec fuel c)
    (c : Json) (hc : childShape recS c = true) :
    specChild (tightSpec fuel) (specChild (tightSpec fuel) c) = specChild (tightSpec fuel) c := by
  obtain ⟨s, hs, hrec⟩ := (childShape_iff recS c).1 hc
  by_cases hp : c.type = "paragraph"
  · have h1 : specChild (tightSpec fuel) c = retype c := by simp [specChild, hp]
    rw [h1]
    simp [specChild, retype_type c hp]
  · by_cases hl : c.type = "list"
    · have h1 : specChild (tightSpec fuel) c = tightSpec fuel c := by simp [specChild, hl]
      rw [h1]
      simp only [specChild, tightSpec_type, hl]
      simp [ih c (hrec (by rw [← type_of_get? c s hs]; exact hl))]
    · simp [specChild, hp, hl]

theorem map_id_of_forall {α : Type} (f g : α → α) (l : List α) (h : ∀ a ∈ l, f (g a) = g a) :
    (l.map g).map f = l.map g := by
  rw [List.map_map]
  exact List.map_congr_left (fun a ha => h a ha)

theorem specItem_idem (fuel : Nat) (recS : Json → Bool)
    (ih : ∀ c, recS c = true → tightSpec fuel (tightSpec fuel c) = tightSpec fuel c)
    (it : Json) (hit : itemShape recS it = true) :
    specItem (tightSpec fuel) (specItem (tightSpec fuel) it) = specItem (tightSpec fuel) it := by
  obtain ⟨cs, hcs, hall⟩ := (itemShape_iff recS it).1 hit
  have h1 := specItem_children (tightSpec fuel) it cs hcs
  rw [specItem_def (tightSpec fuel) (specItem (tightSpec fuel) it), h1,
    map_id_of_forall _ _ cs (fun c hc => specChild_idem fuel recS ih c (hall c hc)),
    specItem_def (tightSpec fuel) it, replaceField_replaceField, getArr_of_get? _ _ _ hcs]

theorem tightSpec_idem_step (fuel : Nat) (recS : Json → Bool)
    (ih : ∀ c, recS c = true → tightSpec fuel (tightSpec fuel c) = tightSpec fuel c)
    (tok : Json) (hs : listShapeWith recS tok = true) :
    tightSpec (fuel + 1) (tightSpec (fuel + 1) tok) = tightSpec (fuel + 1) tok := by
  obtain ⟨b, items, hb, hitems, hall⟩ := (listShapeWith_iff recS tok).1 hs
  cases b with
  | false =>
    have := getBool_of_get? tok _ _ hb
    rw [tightSpec_loose _ tok this, tightSpec_loose _ tok this]
  | true =>
    have ht := getBool_of_get? tok _ _ hb
    have h1 := tightSpec_children fuel tok items ht hitems
    have ht' : (tightSpec (fuel + 1) tok).getBool "tight" = true := by
      rw [← ht]
      simp only [Json.getBool]
      rw [(tightSpec_same (fuel + 1) tok).2 "tight" (by decide)]
    rw [tightSpec_tight fuel (tightSpec (fuel + 1) tok) ht', h1,
      map_id_of_forall _ _ items (fun it hit => specItem_idem fuel recS ih it (hall it hit)),
      tightSpec_tight fuel tok ht, replaceField_replaceField, getArr_of_get? _ _ _ hitems]

/-- **idempotence of the specification** on well-shaped tokens -/
theorem tightSpec_idem : ∀ (d : Nat) (tok : Json), listShape d tok = true →
    tightSpec (d + 1) (tightSpec (d + 1) tok) = tightSpec (d + 1) tok
  | 0, tok, hs => tightSpec_idem_step 0 (fun _ => false) (fun _ h => by cases h) tok hs
  | d + 1, tok, hs => tightSpec_idem_step (d + 1) (listShape d) (fun c hc => tightSpec_idem d c hc) tok hs

/-! the specification is idempotent on EVERY value and for every fuel (no shape needed) -/

theorem getArr_replaceField_arr (k : String) (l : List Json) (t : Json) :
    (replaceField k (.arr l) t).getArr k = l ∨ ((replaceField k (.arr l) t).getArr k = [] ∧ t.getArr k = []) := by
  cases h : t.get? k with
  | none => right; simp [Json.getArr, get?_replaceField_self, h]
  | some v0 => left; exact getArr_replaceField_self k l t v0 h

theorem specChild_idem_all (rec : Json → Json) (hrec : ∀ c, rec (rec c) = rec c)
    (htype : ∀ c, (rec c).type = c.type) (c : Json) : specChild rec (specChild rec c) = specChild rec c := by
  by_cases hp : c.type = "paragraph"
  · have h1 : specChild rec c = retype c := by simp [specChild, hp]
    rw [h1]
    simp [specChild, retype_type c hp]
  · by_cases hl : c.type = "list"
    · have h1 : specChild rec c = rec c := by simp [specChild, hl]
      rw [h1]
      simp [specChild, htype, hl, hrec]
    · simp [specChild, hp, hl]

theorem specItem_idem_all (rec : Json → Json) (hrec : ∀ c, rec (rec c) = rec c)
    (htype : ∀ c, (rec c).type = c.type) (it : Json) : specItem rec (specItem rec it) = specItem rec it := by
  rw [specItem_def rec (specItem rec it), specItem_def rec it, replaceField_replaceField]
  rcases getArr_replaceField_arr "children" ((it.getArr "children").map (specChild rec)) it with h | ⟨h1, h2⟩
  · rw [h, map_id_of_forall _ _ _ (fun c _ => specChild_idem_all rec hrec htype c)]
  · rw [h1, h2]

theorem tightSpec_idem_all : ∀ (n : Nat) (tok : Json), tightSpec n (tightSpec n tok) = tightSpec n tok
  | 0, _ => rfl
  | n + 1, tok => by
    cases ht : tok.getBool "tight" with
    | false => rw [tightSpec_loose _ tok ht, tightSpec_loose _ tok ht]
    | true =>
      have ht' : (tightSpec (n + 1) tok).getBool "tight" = true := by
        rw [← ht]
        simp only [Json.getBool]
        rw [(tightSpec_same (n + 1) tok).2 "tight" (by decide)]
      rw [tightSpec_tight n (tightSpec (n + 1) tok) ht', tightSpec_tight n tok ht, replaceField_replaceField]
      rcases getArr_replaceField_arr "children" ((tok.getArr "children").map (specItem (tightSpec n))) tok
        with h | ⟨h1, h2⟩
      · rw [h, map_id_of_forall _ _ _
          (fun it _ => specItem_idem_all (tightSpec n) (tightSpec_idem_all n) (tightSpec_type n) it)]
      · rw [h1, h2]

/-! ### the result is well shaped again, and the model function is idempotent -/

theorem childShape_specChild (fuel : Nat) (recS : Json → Bool)
    (ih : ∀ c, recS c = true → recS (tightSpec fuel c) = true)
    (c : Json) (hc : childShape recS c = true) : childShape recS (specChild (tightSpec fuel) c) = true := by
  obtain ⟨s, hs, hrec⟩ := (childShape_iff recS c).1 hc
  unfold specChild
  by_cases hp : c.type = "paragraph"
  · rw [if_pos hp, childShape_iff]
    have hne : ¬ String.ofList "block_text".toList = "list" := by decide
    exact ⟨_, retype_get?_type c _ hs, fun h => absurd h hne⟩
  · rw [if_neg hp]
    by_cases hl : c.type = "list"
    · rw [if_pos hl, childShape_iff]
      refine ⟨s, ?_, fun h => ih c (hrec h)⟩
      rw [(tightSpec_same fuel c).2 "type" (by decide), hs]
    · rw [if_neg hl]; exact hc

theorem itemShape_specItem (fuel : Nat) (recS : Json → Bool)
    (ih : ∀ c, recS c = true → recS (tightSpec fuel c) = true)
    (it : Json) (hit : itemShape recS it = true) : itemShape recS (specItem (tightSpec fuel) it) = true := by
  obtain ⟨cs, hcs, hall⟩ := (itemShape_iff recS it).1 hit
  rw [itemShape_iff]
  refine ⟨cs.map (specChild (tightSpec fuel)), ?_, ?_⟩
  · rw [specItem_def, get?_replaceField_self, hcs, getArr_of_get? _ _ _ hcs]; rfl
  · intro c' hc'
    obtain ⟨c, hc, rfl⟩ := List.mem_map.1 hc'
    exact childShape_specChild fuel recS ih c (hall c hc)

theorem listShapeWith_tightSpec (fuel : Nat) (recS : Json → Bool)
    (ih : ∀ c, recS c = true → recS (tightSpec fuel c) = true)
    (tok : Json) (hs : listShapeWith recS tok = true) : listShapeWith recS (tightSpec (fuel + 1) tok) = true := by
  obtain ⟨b, items, hb, hitems, hall⟩ := (listShapeWith_iff recS tok).1 hs
  cases b with
  | false => rw [tightSpec_loose _ tok (getBool_of_get? tok _ _ hb)]; exact hs
  | true =>
    rw [listShapeWith_iff]
    refine ⟨true, items.map (specItem (tightSpec fuel)), ?_, ?_, ?_⟩
    · rw [(tightSpec_same (fuel + 1) tok).2 "tight" (by decide), hb]
    · rw [tightSpec_tight fuel tok (getBool_of_get? tok _ _ hb), get?_replaceField_self, hitems,
        getArr_of_get? _ _ _ hitems]
      rfl
    · intro it' hit'
      obtain ⟨it, hit, rfl⟩ := List.mem_map.1 hit'
      exact itemShape_specItem fuel recS ih it (hall it hit)

/-- the transformed token is well shaped again, with the same depth -/
theorem listShape_tightSpec : ∀ (d : Nat) (tok : Json), listShape d tok = true →
    listShape d (tightSpec (d + 1) tok) = true
  | 0, tok, hs => listShapeWith_tightSpec 0 (fun _ => false) (fun _ h => by cases h) tok hs
  | d + 1, tok, hs =>
    listShapeWith_tightSpec (d + 1) (listShape d) (fun c hc => listShape_tightSpec d c hc) tok hs

/-- **idempotence of the model function**: transforming the result again returns it -/
theorem transform_idem (d : Nat) (tok r : Json) (hs : listShape d tok = true)
    (hr : transformTightList (d + 1) tok = .ok r) : transformTightList (d + 1) r = .ok r := by
  rw [transform_eq_spec d tok hs] at hr
  injection hr with hr
  subst hr
  rw [transform_eq_spec d _ (listShape_tightSpec d tok hs), tightSpec_idem d tok hs]

/-! ### more fuel changes nothing -/

theorem listShapeWith_mono (rec rec' : Json → Bool) (h : ∀ c, rec c = true → rec' c = true)
    (tok : Json) (hs : listShapeWith rec tok = true) : listShapeWith rec' tok = true := by
  obtain ⟨b, items, hb, hitems, hall⟩ := (listShapeWith_iff rec tok).1 hs
  rw [listShapeWith_iff]
  refine ⟨b, items, hb, hitems, fun it hit => ?_⟩
  obtain ⟨cs, hcs, hc⟩ := (itemShape_iff rec it).1 (hall it hit)
  rw [itemShape_iff]
  refine ⟨cs, hcs, fun c hcm => ?_⟩
  obtain ⟨s, hs, hrec⟩ := (childShape_iff rec c).1 (hc c hcm)
  rw [childShape_iff]
  exact ⟨s, hs, fun hl => h c (hrec hl)⟩

theorem listShape_succ : ∀ (d : Nat) (tok : Json), listShape d tok = true → listShape (d + 1) tok = true
  | 0, tok, hs => listShapeWith_mono _ _ (fun _ h => by cases h) tok hs
  | d + 1, tok, hs => listShapeWith_mono _ _ (fun c hc => listShape_succ d c hc) tok hs

theorem listShape_le (d e : Nat) (h : d ≤ e) (tok : Json) (hs : listShape d tok = true) : listShape e tok = true := by
  induction h with
  | refl => exact hs
  | step _ ih => exact listShape_succ _ tok ih

theorem tightSpec_fuel_step (fuel1 fuel2 : Nat) (recS : Json → Bool)
    (ih : ∀ c, recS c = true → tightSpec fuel1 c = tightSpec fuel2 c)
    (tok : Json) (hs : listShapeWith recS tok = true) : tightSpec (fuel1 + 1) tok = tightSpec (fuel2 + 1) tok := by
  obtain ⟨b, items, hb, hitems, hall⟩ := (listShapeWith_iff recS tok).1 hs
  cases b with
  | false =>
    have := getBool_of_get? tok _ _ hb
    rw [tightSpec_loose _ tok this, tightSpec_loose _ tok this]
  | true =>
    have ht := getBool_of_get? tok _ _ hb
    rw [tightSpec_tight _ tok ht, tightSpec_tight _ tok ht, getArr_of_get? _ _ _ hitems]
    congr 2
    apply List.map_congr_left
    intro it hit
    obtain ⟨cs, hcs, hc⟩ := (itemShape_iff recS it).1 (hall it hit)
    rw [specItem_def, specItem_def, getArr_of_get? _ _ _ hcs]
    congr 2
    apply List.map_congr_left
    intro c hcm
    obtain ⟨s, hs, hrec⟩ := (childShape_iff recS c).1 (hc c hcm)
    unfold specChild
    by_cases hl : c.type = "list"
    · rw [ih c (hrec (by rw [← type_of_get? c s hs]; exact hl))]
    · simp [hl]

/-- the specification does not depend on the fuel once it exceeds the depth -/
theorem tightSpec_fuel : ∀ (d n : Nat) (tok : Json), listShape d tok = true → d < n →
    tightSpec n tok = tightSpec (d + 1) tok
  | _, 0, _, _, h => absurd h (Nat.not_lt_zero _)
  | 0, n + 1, tok, hs, _ => tightSpec_fuel_step n 0 (fun _ => false) (fun _ h => by cases h) tok hs
  | d + 1, n + 1, tok, hs, h =>
    tightSpec_fuel_step n (d + 1) (listShape d)
      (fun c hc => tightSpec_fuel d n c hc (Nat.lt_of_succ_lt_succ h)) tok hs

/-- **the fuel relation**: any fuel above the depth gives the answer of fuel `d + 1`
(`parse_list` calls with `max_nested_level + 3`) -/
theorem transform_fuel (d n : Nat) (tok : Json) (hs : listShape d tok = true) (h : d < n) :
    transformTightList n tok = .ok (tightSpec (d + 1) tok) := by
  obtain ⟨m, rfl⟩ : ∃ m, n = m + 1 := ⟨n - 1, by omega⟩
  rw [transform_eq_spec m tok (listShape_le d m (by omega) tok hs), tightSpec_fuel d (m + 1) tok hs h]

/-! ### a concrete token: a tight list whose first item holds a paragraph, a code block and a nested LOOSE list
(whose paragraphs stay paragraphs), and whose second item holds a paragraph -/

def exPara (t : String) : Json := tok "paragraph" [("text", Json.s t)]
def exBlockText (t : String) : Json := tok "block_text" [("text", Json.s t)]
def exCode : Json := tok "block_code" [("raw", Json.s "c\n"), ("style", Json.s "indent")]

def exLoose : Json :=
  tok "list" [
    ("children", .arr [tok "list_item" [("children", .arr [exPara "x", tok "blank_line" [], exPara "y"])]]),
    ("tight", .bool false), ("bullet", Json.s "-"),
    ("attrs", .obj [("depth", .num 1), ("ordered", .bool false)])]

def exTight : Json :=
  tok "list" [
    ("children", .arr [
      tok "list_item" [("children", .arr [exPara "a", exCode, exLoose])],
      tok "list_item" [("children", .arr [exPara "b"])]]),
    ("tight", .bool true), ("bullet", Json.s "-"),
    ("attrs", .obj [("depth", .num 0), ("ordered", .bool false)])]

/-- the expected result: the two paragraphs of the tight list are block_texts, the loose list is the SAME token -/
def exTightOut : Json :=
  tok "list" [
    ("children", .arr [
      tok "list_item" [("children", .arr [exBlockText "a", exCode, exLoose])],
      tok "list_item" [("children", .arr [exBlockText "b"])]]),
    ("tight", .bool true), ("bullet", Json.s "-"),
    ("attrs", .obj [("depth", .num 0), ("ordered", .bool false)])]

/-- the same list, but the nested list is tight: its paragraphs become block_texts too -/
def exTightTight : Json :=
  tok "list" [
    ("children", .arr [tok "list_item" [("children", .arr [exPara "a", exTight])]]),
    ("tight", .bool true)]

example : listShape 1 exTight = true := by decide
example : listShape 0 exTight = false := by decide      -- depth 0 means: no nested list
example : listShape 0 exLoose = true := by decide
example : listShape 2 exTightTight = true := by decide
example : transformTightList 2 exTight = .ok exTightOut := rfl
example : tightSpec 2 exTight = exTightOut := rfl
example : transformTightList 2 exLoose = .ok exLoose := rfl
example : transformTightList 2 exTightOut = .ok exTightOut := rfl
example : transformTightList 3 exTightTight =
    .ok (tok "list" [
      ("children", .arr [tok "list_item" [("children", .arr [exBlockText "a", exTightOut])]]),
      ("tight", .bool true)]) := rfl
example : retype (exPara "a") = exBlockText "a" := rfl

/-! the hypotheses are needed -/

-- fuel `d` is not enough for depth `d`: the nested call (made for loose nested lists too) has no fuel left
example : transformTightList 1 exTight = .error .depthExceeded := rfl
-- a loose list without the key `tight`: `KeyError`
example : transformTightList 1 (tok "list" [("children", .arr [])]) = .error .keyError := rfl
-- a tight list whose item has no `children`: `KeyError`; whose `children` is not an array: the model's `typeError`
example : transformTightList 1 (tok "list" [("children", .arr [tok "list_item" []]), ("tight", .bool true)])
    = .error .keyError := rfl
example : transformTightList 1 (tok "list" [("children", .null), ("tight", .bool true)]) = .error .typeError := rfl
-- a child without `type`: `KeyError`
example : transformTightList 1
    (tok "list" [("children", .arr [tok "list_item" [("children", .arr [.obj []])]]), ("tight", .bool true)])
    = .error .keyError := rfl
-- a truthy `tight` that is not a boolean: Python (and the model) transform, `tightSpec` reads a boolean
example : transformTightList 1
    (tok "list" [("children", .arr [tok "list_item" [("children", .arr [exPara "a"])]]), ("tight", .num 1)])
    = .ok (tok "list" [("children", .arr [tok "list_item" [("children", .arr [exBlockText "a"])]]), ("tight", .num 1)]) :=
  rfl
example : tightSpec 1
    (tok "list" [("children", .arr [tok "list_item" [("children", .arr [exPara "a"])]]), ("tight", .num 1)])
    = tok "list" [("children", .arr [tok "list_item" [("children", .arr [exPara "a"])]]), ("tight", .num 1)] := rfl


end Mistune
