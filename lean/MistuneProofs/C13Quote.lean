/-
C13 / C04 — the Markdown renderer's block quote and the parser's quote extraction are inverse on canonical content.

* `mdBlockQuote` (Mistune/MdBlocks.lean) is the list-level transcription of `MarkdownRenderer.block_quote`
  (`textwrap.indent` with the always-true predicate, the `split("\n")` / `pop()` loop that trims the trailing empty quote
  lines, `+ "\n\n"`), tied to the method by the driver op `md_block_quote` (harness/props/c13.py, `quote_tie`).
* `md_block_quote_lines`: an exact characterisation of what the method writes on newline-terminated lines.
* `blockQuoteRule_matchAt_hit`: the block rule `block_quote` fires on a line `>content`.
* `md_block_quote_extract` / `md_block_quote_roundtrip`: on that output, followed by arbitrary text that does not start
  with a further blank line, `extract_block_quote` returns exactly the lines the renderer was given (minus the trailing
  empty quote lines it dropped), the quote is ended by the `blank_line` rule on the renderer's blank line, and
  `parse_block_quote` parses exactly that text as the children.
* `NotSpoiler` / `parseMethod_quote`: the plugin `spoiler` rebinds the handler of `block_quote`; under `NotSpoiler` (plugin not
  installed, or nested quote, or the text does not match `_BLOCK_SPOILER_MATCH`; `notSpoiler_of_first`: decided by the first
  character) `parse_method` computes `parse_block_quote`.
* `md_block_quote_step`: one iteration of `BlockParser.parse` consumes exactly what the renderer wrote (`quoteRules_ok`: no
  rule tried before `block_quote` can start with `>`).
* `md_block_quote_extract_eos` / `md_block_quote_step_eos` / `md_quote_only_parse` / `md_block_quote_nested`: the quote that
  ends its subject (the child text of an enclosing quote), and two levels of nesting (`> > x`).
-/
import Mistune.MdBlocks
import MistuneProofs.C11Quote
import MistuneProofs.C04LeafDoc
namespace Mistune
open Mistune.Model Mistune.Model.Blk Mistune.Generated
/-- the text made of the lines `ls`, each newline-terminated -/
def linesNl (ls : List Str) : Str := (ls.map (· ++ ['\n'])).flatten

theorem linesNl_cons (l : Str) (ls : List Str) : linesNl (l :: ls) = l ++ '\n' :: linesNl ls := by
  simp [linesNl]

theorem linesNl_append (a b : List Str) : linesNl (a ++ b) = linesNl a ++ linesNl b := by
  simp [linesNl]

/-- no character of the line is a line boundary of `str.splitlines` -/
def NoBreak (l : Str) : Prop := ∀ c ∈ l, Py.isLineBreak c = false

instance (l : Str) : Decidable (NoBreak l) := by unfold NoBreak; infer_instance

theorem NoBreak.no_nl {l : Str} (h : NoBreak l) : '\n' ∉ l := fun hm => by
  have := h _ hm; revert this; decide

theorem splitLinesKeep_nl (r : Str) : splitLinesKeep ('\n' :: r) = ['\n'] :: splitLinesKeep r := by
  rw [splitLinesKeep]
  · simp [Py.isLineBreak]
  · intro r' e; cases e

theorem splitLinesKeep_other (c : Char) (r : Str) (h : Py.isLineBreak c = false) :
    splitLinesKeep (c :: r) = (c :: (splitLinesKeep r).headD []) :: (splitLinesKeep r).tail := by
  rw [splitLinesKeep]
  · simp only [h]
    cases splitLinesKeep r <;> simp
  · intro r' e
    subst e
    exact absurd h (by decide)

theorem splitLinesKeep_line (l rest : Str) (h : NoBreak l) :
    splitLinesKeep (l ++ '\n' :: rest) = (l ++ ['\n']) :: splitLinesKeep rest := by
  induction l with
  | nil => exact splitLinesKeep_nl rest
  | cons c l ih =>
    rw [List.cons_append, splitLinesKeep_other c _ (h c (by simp)), ih (fun d hd => h d (by simp [hd]))]
    rfl

theorem splitLinesKeep_lines (ls : List Str) (h : ∀ l ∈ ls, NoBreak l) :
    splitLinesKeep (linesNl ls) = ls.map (· ++ ['\n']) := by
  induction ls with
  | nil => rfl
  | cons l ls ih =>
    rw [linesNl_cons, splitLinesKeep_line l _ (h l (by simp)), ih (fun m hm => h m (by simp [hm]))]
    rfl

/-- **`textwrap.indent` with the always-true predicate on newline-terminated lines without exotic separators**: every
line gets the prefix. -/
theorem indentAll_lines (p : Str) (ls : List Str) (h : ∀ l ∈ ls, NoBreak l) :
    indentAll p (linesNl ls) = linesNl (ls.map (p ++ ·)) := by
  unfold indentAll
  rw [splitLinesKeep_lines ls h]
  simp [linesNl, List.map_map, Function.comp_def]

theorem lineSplit_nl (r : Str) : lineSplit ('\n' :: r) = [] :: lineSplit r := by
  simp [lineSplit]

theorem lineSplit_ne_nil (s : Str) : lineSplit s ≠ [] := by
  induction s with
  | nil => simp [lineSplit]
  | cons c r ih =>
    rw [lineSplit]
    split
    · simp
    · split <;> simp

theorem lineSplit_line (l rest : Str) (h : '\n' ∉ l) : lineSplit (l ++ '\n' :: rest) = l :: lineSplit rest := by
  induction l with
  | nil => exact lineSplit_nl rest
  | cons c l ih =>
    have hc : c ≠ '\n' := fun e => h (by simp [e])
    rw [List.cons_append, lineSplit, if_neg hc, ih (fun hm => h (by simp [hm]))]

theorem lineSplit_lines (ls : List Str) (h : ∀ l ∈ ls, '\n' ∉ l) : lineSplit (linesNl ls) = ls ++ [[]] := by
  induction ls with
  | nil => rfl
  | cons l ls ih =>
    rw [linesNl_cons, lineSplit_line l _ (h l (by simp)), ih (fun m hm => h m (by simp [hm]))]
    rfl

theorem join_nl_lines (ls : List Str) (hne : ls ≠ []) : Py.join ['\n'] ls ++ ['\n'] = linesNl ls := by
  induction ls with
  | nil => exact absurd rfl hne
  | cons l ls ih =>
    cases ls with
    | nil => simp [Py.join, linesNl]
    | cons m ms =>
      rw [Py.join, linesNl_cons, ← ih (by simp)]
      · simp
      · simp

/-- the line consists of `>` and blanks only (what `not line.strip("> ")` tests) -/
def QuoteBlank (l : Str) : Prop := ∀ c ∈ l, c = '>' ∨ c = ' '

instance (l : Str) : Decidable (QuoteBlank l) := by unfold QuoteBlank; infer_instance

theorem dropWhile_eq_nil' (p : Char → Bool) (l : Str) : l.dropWhile p = [] ↔ ∀ x ∈ l, p x = true := by
  induction l with
  | nil => simp
  | cons a t ih =>
    rw [List.dropWhile_cons]
    split
    · rename_i h; simp [ih, h]
    · rename_i h; simp [h]

theorem dropWhile_head' (p : Char → Bool) (l : Str) (a : Char) (t : Str) (h : l.dropWhile p = a :: t) :
    p a = false := by
  induction l with
  | nil => simp at h
  | cons b u ih =>
    rw [List.dropWhile_cons] at h
    split at h
    · exact ih h
    · rename_i hb
      injection h with e _
      subst e; simpa using hb

theorem quoteBlankLine_iff (l : Str) : quoteBlankLine l = true ↔ QuoteBlank l := by
  have hP : ∀ c : Char, (['>', ' '].contains c) = true ↔ (c = '>' ∨ c = ' ') := by
    intro c; simp
  unfold quoteBlankLine Py.stripC Py.rstripC Py.lstripC QuoteBlank
  rw [List.isEmpty_iff, List.reverse_eq_nil_iff, dropWhile_eq_nil']
  constructor
  · intro h
    cases hd : List.dropWhile (fun c => ['>', ' '].contains c) l with
    | nil =>
      intro c hc
      exact (hP c).mp ((dropWhile_eq_nil' _ l).mp hd c hc)
    | cons a t =>
      exfalso
      have h1 := dropWhile_head' _ l a t hd
      have h2 := h a (by rw [hd]; simp)
      rw [h1] at h2; cases h2
  · intro h c hc
    have hc' : c ∈ l := (List.dropWhile_sublist _).subset (by simpa using hc)
    exact (hP c).mpr (h c hc')

theorem QuoteBlank.noBreak {l : Str} (h : QuoteBlank l) : NoBreak l := by
  intro c hc
  rcases h c hc with rfl | rfl <;> decide

theorem quoteBlank_prefix (l : Str) : QuoteBlank (['>', ' '] ++ l) ↔ QuoteBlank l := by
  unfold QuoteBlank
  constructor
  · intro h c hc; exact h c (by simp [hc])
  · intro h c hc
    simp only [List.cons_append, List.nil_append, List.mem_cons] at hc
    rcases hc with rfl | rfl | hc
    · exact Or.inl rfl
    · exact Or.inr rfl
    · exact h c hc

theorem dropWhile_append_all (p : Str → Bool) (a b : List Str) (h : ∀ x ∈ a, p x = true) :
    (a ++ b).dropWhile p = b.dropWhile p := by
  induction a with
  | nil => rfl
  | cons x t ih =>
    rw [List.cons_append, List.dropWhile_cons, if_pos (h x (by simp))]
    exact ih (fun y hy => h y (by simp [hy]))

/-- the `while … pop()` loop: the trailing lines made of `>` and blanks go, the last content line stays -/
theorem popQuoteBlank_lines (ms bs : List Str) (z : Str) (hz : ¬ QuoteBlank z) (hbs : ∀ b ∈ bs, QuoteBlank b) :
    popQuoteBlank (ms ++ z :: bs) = ms ++ [z] := by
  unfold popQuoteBlank
  have hrev : (ms ++ z :: bs).reverse = bs.reverse ++ z :: ms.reverse := by simp
  rw [hrev, dropWhile_append_all _ _ _ (fun x hx => (quoteBlankLine_iff x).mpr (hbs x (by simpa using hx))),
    List.dropWhile_cons, if_neg (fun h => hz ((quoteBlankLine_iff z).mp h))]
  simp

/-- **(2) `md_block_quote_lines`: what `MarkdownRenderer.block_quote` writes, exactly.**  The rendered children are the
newline-terminated lines `ls`, then `z` (the last content line: it has a character other than `>` and blank), then
the lines `bs` made of `>` and blanks only (in particular the empty lines every rendered block ends with); no line
contains a line boundary of `str.splitlines` (`\n`, `\r`, `\v`, `\f`, `\x1c`–`\x1e`, `\x85`, `\u2028`, `\u2029`).  Then the
method writes `"> " ++ l ++ "\n"` for every line `l` of `ls ++ [z]` — the lines `bs` are dropped — followed by one empty
line. -/
theorem md_block_quote_lines (ls bs : List Str) (z : Str) (hls : ∀ l ∈ ls, NoBreak l) (hz : NoBreak z)
    (hzb : ¬ QuoteBlank z) (hbs : ∀ b ∈ bs, QuoteBlank b) :
    mdBlockQuote (linesNl (ls ++ z :: bs)) = linesNl ((ls ++ [z]).map (['>', ' '] ++ ·)) ++ ['\n'] := by
  have hall : ∀ l ∈ ls ++ z :: bs, NoBreak l := by
    intro l hl
    rcases List.mem_append.mp hl with h | h
    · exact hls l h
    · rcases List.mem_cons.mp h with rfl | h
      · exact hz
      · exact (hbs l h).noBreak
  have hnl : ∀ l ∈ (ls ++ z :: bs).map (['>', ' '] ++ ·), '\n' ∉ l := by
    intro l hl
    obtain ⟨m, hm, rfl⟩ := List.mem_map.mp hl
    have := (hall m hm).no_nl
    simp only [List.cons_append, List.nil_append, List.mem_cons, not_or]
    exact ⟨by decide, by decide, this⟩
  unfold mdBlockQuote
  simp only []
  rw [indentAll_lines _ _ hall, lineSplit_lines _ hnl, List.map_append, List.map_cons, List.append_assoc,
    List.cons_append,
    popQuoteBlank_lines _ _ _ (fun h => hzb ((quoteBlank_prefix z).mp h)) (by
      intro b hb
      rcases List.mem_append.mp hb with h | h
      · obtain ⟨m, hm, rfl⟩ := List.mem_map.mp h
        exact (quoteBlank_prefix m).mpr (hbs m hm)
      · simp only [List.mem_cons, List.not_mem_nil, or_false] at h
        subst h; intro c hc; cases hc),
    show ['\n', '\n'] = ['\n'] ++ ['\n'] from rfl, ← List.append_assoc, join_nl_lines _ (by simp)]
  simp


/-! ### the block rule `block_quote` fires on `>content` -/

/-- the match of the block rule on the line `>content` at `p` -/
def quoteMatch (p : Nat) (content : Str) : RxMatch :=
  { start := p, stop := p + 1 + content.length, caps := [(1, (p + 1, p + 1 + content.length))] }

/-- **The rule `block_quote` fires on every line that starts with `>`** (no indentation, as the renderer writes it): at a
line start, on `>content` followed by a newline or the end of the subject, the match ends at the end of the line and
`quote_1` is `content`. -/
theorem blockQuoteRule_matchAt_hit (pre content tl : Str) (hbol : pre = [] ∨ pre.getLast? = some '\n')
    (hnl : '\n' ∉ content) (htl : tl = [] ∨ ∃ v, tl = '\n' :: v) :
    blockQuoteRuleExpected.matchAt (Py.ctxOf (pre ++ '>' :: content ++ tl)) pre.length =
      some (quoteMatch pre.length content) := by
  generalize hS : pre ++ '>' :: content ++ tl = S
  have hS1 : pre ++ [] ++ ('>' :: content ++ tl) = S := by rw [← hS]; simp
  have hS2 : (pre ++ ['>']) ++ content ++ tl = S := by rw [← hS]; simp
  have hl2 : (pre ++ ['>']).length = pre.length + 1 := by simp
  unfold Rx.matchAt blockQuoteRuleExpected
  rw [m_seq, m_bol, if_pos (by rw [← hS, List.append_assoc]; exact (bolAt_append_length _ _).mpr hbol), m_seq]
  have h1 := rep_greedy_list pre [] ('>' :: content ++ tl) [.chr 32] (· == ' ')
    (fun ch => clsTest_chr1 pyCats ' ' ch) 0 (some 3)
    (fun j c' => (Rx.seq (.cls false [.chr 62]) (.seq (.grp 1 (.rep (.any false) 0 none false)) .eol)).m
      (Py.ctxOf S) j c' (fun j c => some ({ start := pre.length, stop := j, caps := c } : RxMatch))) []
    (quoteMatch pre.length content)
    (fun ch hch => by cases hch)
    (Or.inr (Or.inr ⟨'>', content ++ tl, rfl, by decide⟩))
    (by intro m hm; cases hm; simp) (by simp)
    (by
      simp only [List.length_nil, Nat.add_zero]
      have hget : S[pre.length]? = some '>' := by
        rw [← hS1, show pre.length = pre.length + ([] : Str).length by simp, getElem?_after]; rfl
      rw [m_seq, QuoteAux.m_cls_hit S false [.chr 62] (· == '>') (fun ch => clsTest_chr1 pyCats '>' ch) _ '>' hget (by decide),
        m_seq, m_grp]
      apply lazyAnyNl_m _ _ _ _ (pre.length + 1) content.length
      · intro t ht
        have hget2 := getElem?_in_tail (pre ++ ['>']) content tl t ht
        rw [hS2, hl2] at hget2
        refine ⟨by rw [ctxOf_n, ← hS]; simp; omega, ?_, ?_⟩
        · rw [ctxOf_chr, hget2, Option.getD_some]
          intro e
          have : content[t] = '\n' := Char.toNat_inj.mp e
          exact hnl (this ▸ List.getElem_mem ht)
        · have := eol_in_tail (pre ++ ['>']) content tl hnl t ht ((1, (pre.length + 1, pre.length + 1 + t)) :: [])
            (fun j c => some ({ start := pre.length, stop := j, caps := c } : RxMatch))
          rw [hS2, hl2] at this
          exact this
      · have := eol_after_tail (pre ++ ['>']) content tl htl
            ((1, (pre.length + 1, pre.length + 1 + content.length)) :: [])
            (fun j c => some ({ start := pre.length, stop := j, caps := c } : RxMatch))
        rw [hS2, hl2] at this
        rw [this]; rfl
      · rw [ctxOf_n, ← hS]; simp; omega)
  rw [hS1] at h1
  exact h1

/-- `quote_1` of that match is `content` -/
theorem quoteMatch_grp (cfg : MdCfg) (hg : cfg.groups = Generated.groupIndex) (st : BlockState) (pre content tl : Str)
    (hx : st.x = Py.ctxOf (pre ++ '>' :: content ++ tl)) :
    grp cfg st (quoteMatch pre.length content) "quote_1" = content := by
  unfold grp groupNamed
  rw [hg, quote1_lookup, hx]
  have hsl : Py.slice (Py.ctxOf (pre ++ '>' :: content ++ tl)).s (pre.length + 1) (pre.length + 1 + content.length) =
      content := by
    rw [show pre ++ '>' :: content ++ tl = (pre ++ ['>']) ++ content ++ tl by simp]
    exact slice_mid (pre ++ ['>']) content tl _ _ (by simp) (by simp)
  rw [List.append_assoc, List.cons_append] at hsl
  simp [Py.groupStr, RxMatch.group, quoteMatch, Caps.get, hsl]

/-! ### the round trip -/

/-- a content line of a canonical quote: no newline, and it does not start with (0–3 blanks) tab (the tab after `> ` would
be expanded by the parser) -/
def PlainLine (l : Str) : Prop := '\n' ∉ l ∧ ¬ TabHead l

/-- the lines `ls`, each written as `"> " ++ l ++ "\n"` -/
def quoteLines (ls : List Str) : Str := linesNl (ls.map (['>', ' '] ++ ·))

theorem quoteLines_cons (l0 : Str) (ls : List Str) :
    quoteLines (l0 :: ls) = '>' :: ' ' :: l0 ++ ['\n'] ++ ((ls.map (fun l => (([] : Str), l))).map markLine).flatten := by
  simp [quoteLines, linesNl, markLine, List.map_map, Function.comp_def]

theorem linesNl_concat (ls : List Str) (hne : ls ≠ []) : ∃ X, linesNl ls = X ++ ['\n'] := by
  rcases List.eq_nil_or_concat ls with rfl | ⟨init, z, rfl⟩
  · exact absurd rfl hne
  · exact ⟨linesNl init ++ z, by simp [linesNl]⟩

theorem not_quoteHead_nl (rest : Str) : ¬ QuoteHead ('\n' :: rest) := by
  rintro ⟨sp, r, e, hsp, _⟩
  cases sp with
  | nil =>
    simp only [List.nil_append, List.cons.injEq] at e
    exact absurd e.1 (by decide)
  | cons a t =>
    simp only [List.cons_append, List.cons.injEq] at e
    have := hsp a (by simp)
    rw [← e.1] at this
    exact absurd this (by decide)

/-- **(3) `md_block_quote_extract`: `extract_block_quote` inverts the renderer.**  The subject is `before`,
then the canonical quote `> l0⏎> l1⏎…> ln⏎`, then the empty line the renderer writes, then `rest`, which does not
start with a further blank line (`BlankStop`: it is empty or starts with a character other than blank, tab, `\v`, `\f`,
newline).  `mt` is the match of the block rule on the first line (`blockQuoteRule_matchAt_hit`).  The content lines
have no newline and no tab in their indentation (`PlainLine`: the hypothesis `¬ TabHead` of `cleanQuote_verbatim`); the
first one is not blank, indented code or a fence (`hreq`: otherwise `require_marker` is set), the last one is not blank
(`hbl`, about `ls` only: `prev_blank_line`).  Then the extracted child text is exactly `l0⏎l1⏎…ln⏎`; the quote is ended
by the rule `blank_line` matching the renderer's empty line: `end_pos` is the position just after that line, and the state
has the cursor at the start of that line and one more token, `blank_line`. -/
theorem md_block_quote_extract (cfg : MdCfg) (hcfg : cfg.named = Generated.namedRx)
    (hg : cfg.groups = Generated.groupIndex) (pm : ParseMethod)
    (hpm : ∀ m s, pm "blank_line" m s = parseBlankLine m s)
    (st : BlockState) (before rest l0 : Str) (ls : List Str) (sc breakTail : List (String × Rx))
    (hx : st.x = Py.ctxOf (before ++ quoteLines (l0 :: ls) ++ '\n' :: rest))
    (hmax : st.cursorMax = (before ++ quoteLines (l0 :: ls) ++ '\n' :: rest).length)
    (hl0 : PlainLine l0) (hls : ∀ l ∈ ls, PlainLine l)
    (hsc : compileSc cfg ["blank_line", "indent_code", "fenced_code"] = .ok sc)
    (hreq : (scMatch (Py.ctxOf (l0 ++ ['\n'])) sc 0).isSome = false)
    (hbsc : compileSc cfg ["blank_line", "thematic_break", "fenced_code", "list", "block_html"] =
      .ok (("blank_line", blankRuleRx) :: breakTail))
    (hbl : (!ls.isEmpty && blankEnd cfg (linesNl ls)) = false)
    (hrest : BlankStop rest) :
    extractBlockQuote cfg pm (quoteMatch before.length (' ' :: l0)) st =
      .ok (linesNl (l0 :: ls), some (before.length + (quoteLines (l0 :: ls)).length + 1),
        ({ st with cursor := before.length + (quoteLines (l0 :: ls)).length } : BlockState).appendToken
          (tok "blank_line" [])) := by
  generalize hsegs : ls.map (fun l => (([] : Str), l)) = segs
  generalize hpre : before ++ '>' :: ' ' :: l0 ++ ['\n'] = pre
  have hq : quoteLines (l0 :: ls) = '>' :: ' ' :: l0 ++ ['\n'] ++ (segs.map markLine).flatten := by
    rw [quoteLines_cons, hsegs]
  have hS : before ++ quoteLines (l0 :: ls) ++ '\n' :: rest = pre ++ (segs.map markLine).flatten ++ '\n' :: rest := by
    rw [hq, ← hpre]; simp
  have hP : pre.length + (segs.map markLine).flatten.length = before.length + (quoteLines (l0 :: ls)).length := by
    rw [hq, ← hpre]; simp only [List.length_append, List.length_cons]; omega
  have hA : before ++ quoteLines (l0 :: ls) = pre ++ (segs.map markLine).flatten := by
    rw [hq, ← hpre]; simp
  -- the renderer's empty line is matched by `blank_line`
  have hbolA : pre ++ (segs.map markLine).flatten = [] ∨ (pre ++ (segs.map markLine).flatten).getLast? = some '\n' := by
    right
    obtain ⟨X, hX⟩ := linesNl_concat ((l0 :: ls).map (['>', ' '] ++ ·)) (by simp)
    rw [← hA, quoteLines, hX, ← List.append_assoc]
    simp
  have hblank := blankRule_matchAt_hit (pre ++ (segs.map markLine).flatten) rest hbolA hrest
  have hbr : scMatch st.x (("blank_line", blankRuleRx) :: breakTail) (pre.length + (segs.map markLine).flatten.length) =
      some ("blank_line", blankMatch (pre.length + (segs.map markLine).flatten.length)) := by
    unfold scMatch
    rw [hx, hS, ctxOf_n, Nat.min_eq_left (by simp only [List.length_append]; omega), scanAt]
    rw [show pre ++ (segs.map markLine).flatten ++ '\n' :: rest = pre ++ (segs.map markLine).flatten ++ ['\n'] ++ rest by simp,
      show pre.length + (segs.map markLine).flatten.length = (pre ++ (segs.map markLine).flatten).length by simp, hblank]
  have hseg : ∀ p ∈ segs, PlainSeg p := by
    intro p hp
    rw [← hsegs] at hp
    obtain ⟨l, hl, rfl⟩ := List.mem_map.mp hp
    exact ⟨by simp, by simp, (hls l hl).1, (hls l hl).2⟩
  have hmt : (quoteMatch before.length (' ' :: l0)).stop + 1 = pre.length := by
    rw [← hpre]; simp only [quoteMatch, List.length_append, List.length_cons, List.length_nil]; omega
  have hq1 : grp cfg st (quoteMatch before.length (' ' :: l0)) "quote_1" = ' ' :: l0 := by
    apply quoteMatch_grp cfg hg st before (' ' :: l0) ('\n' :: ((segs.map markLine).flatten ++ '\n' :: rest))
    rw [hx, hS, ← hpre]; simp
  have hbl' : (!segs.isEmpty && blankEnd cfg ((segs.map (·.2 ++ ['\n'])).flatten)) = false := by
    rw [← hsegs]
    simpa [linesNl, List.map_map, Function.comp_def] using hbl
  have htext : ((l0 :: segs.map (·.2)).map (· ++ ['\n'])).flatten = linesNl (l0 :: ls) := by
    rw [← hsegs]; simp [linesNl, List.map_map, Function.comp_def]
  have := extractBlockQuote_verbatim_break cfg hcfg pm (quoteMatch before.length (' ' :: l0)) st pre ('\n' :: rest) l0
    segs sc (("blank_line", blankRuleRx) :: breakTail) (by rw [hx, hS]) hmt (by rw [hmax, hS]) hq1 ⟨hl0.2, hl0.1⟩ hsc hreq
    hbsc hseg (not_quoteHead_nl rest) (by simp) hbl' "blank_line"
    (blankMatch (pre.length + (segs.map markLine).flatten.length))
    (some (pre.length + (segs.map markLine).flatten.length + 1))
    (({ st with cursor := pre.length + (segs.map markLine).flatten.length } : BlockState).appendToken
      (tok "blank_line" []))
    hbr (by rw [hpm, parseBlankLine_eq]; rfl) rfl
  rw [this, htext, hP]

/-- (2) with the content lines given as one list `L` whose last line is not made of `>` and blanks only -/
theorem md_block_quote_lines_last (L bs : List Str) (hL : ∀ l ∈ L, NoBreak l)
    (hlast : ∃ z, L.getLast? = some z ∧ ¬ QuoteBlank z) (hbs : ∀ b ∈ bs, QuoteBlank b) :
    mdBlockQuote (linesNl (L ++ bs)) = quoteLines L ++ ['\n'] := by
  obtain ⟨z, hz, hzb⟩ := hlast
  obtain ⟨init, rfl⟩ := List.getLast?_eq_some_iff.mp hz
  rw [List.append_assoc, List.singleton_append,
    md_block_quote_lines init bs z (fun l hl => hL l (by simp [hl])) (hL z (by simp)) hzb hbs]
  rfl

/-- **Obligation:** in every regenerated configuration the scanner of the rules that may end a quote starts with the
rule `blank_line`, which is the expected regex. -/
theorem quoteBreakSc_ok : ∀ c ∈ allCfgs,
    (match compileSc (ofRuleCfg c) ["blank_line", "thematic_break", "fenced_code", "list", "block_html"] with
      | .ok ((n, r) :: _) => n == "blank_line" && r == blankRuleRx
      | _ => false) = true := by decide +kernel

theorem quoteBreakSc_of (c : RuleCfg) (hc : c ∈ allCfgs) : ∃ breakTail,
    compileSc (ofRuleCfg c) ["blank_line", "thematic_break", "fenced_code", "list", "block_html"] =
      .ok (("blank_line", blankRuleRx) :: breakTail) := by
  have := quoteBreakSc_ok c hc
  split at this
  · rename_i n r tl heq
    simp only [Bool.and_eq_true, beq_iff_eq] at this
    exact ⟨tl, by rw [heq, this.1, this.2]⟩
  · cases this

/-- **(3) `md_block_quote_roundtrip`.**  `c` is any regenerated configuration, the handlers are the real ones
(`parseMethod`).  The subject is `before` (ending a line), then what `MarkdownRenderer.block_quote` writes for the rendered
children `l0⏎l1⏎…ln⏎` followed by the lines `bs` made of `>` and blanks only (the empty lines every rendered block ends
with), then `rest` (not starting with a blank line).  Hypotheses on the content: no line has a line boundary of
`str.splitlines` (`NoBreak`) nor a tab in its indentation (`PlainLine`), the last is not made of `>` and blanks only
(`hlast`) and not blank (`hbl`), the first is not blank / indented code / a fence (`hreq`).  Then

* the block rule `block_quote` matches at the start of what the renderer wrote;
* `extract_block_quote` returns exactly `l0⏎l1⏎…ln⏎` — the rendered children without the trailing lines `bs` the renderer
  dropped — and the end position is exactly the end of what the renderer wrote (its final empty line included, consumed
  by the rule `blank_line`, whose token is appended);
* hence `parse_block_quote` parses exactly that text as the children (`child` is the result of the child parse on the
  child state whose source is `l0⏎…ln⏎`), inserts the `block_quote` token before the `blank_line` token and continues
  at the end of what the renderer wrote. -/
theorem md_block_quote_roundtrip (c : RuleCfg) (hc : c ∈ allCfgs) (pmFuel : Nat) (st : BlockState)
    (before rest l0 : Str) (ls bs : List Str) (sc : List (String × Rx))
    (hx : st.x = Py.ctxOf (before ++ mdBlockQuote (linesNl (l0 :: ls ++ bs)) ++ rest))
    (hmax : st.cursorMax = (before ++ mdBlockQuote (linesNl (l0 :: ls ++ bs)) ++ rest).length)
    (hbol : before = [] ∨ before.getLast? = some '\n')
    (hnb : ∀ l ∈ l0 :: ls, NoBreak l) (hl0 : ¬ TabHead l0) (hls : ∀ l ∈ ls, ¬ TabHead l)
    (hlast : ∃ z, (l0 :: ls).getLast? = some z ∧ ¬ QuoteBlank z) (hbs : ∀ b ∈ bs, QuoteBlank b)
    (hsc : compileSc (ofRuleCfg c) ["blank_line", "indent_code", "fenced_code"] = .ok sc)
    (hreq : (scMatch (Py.ctxOf (l0 ++ ['\n'])) sc 0).isSome = false)
    (hbl : (!ls.isEmpty && blankEnd (ofRuleCfg c) (linesNl ls)) = false)
    (hrest : BlankStop rest) :
    let out := mdBlockQuote (linesNl (l0 :: ls ++ bs))
    let mt := quoteMatch before.length (' ' :: l0)
    let st1 := ({ st with cursor := before.length + out.length - 1 } : BlockState).appendToken (tok "blank_line" [])
    out = quoteLines (l0 :: ls) ++ ['\n'] ∧
    scanAt st.x ((ofRuleCfg c).blockSc ["block_quote"]) before.length = some ("block_quote", mt) ∧
    extractBlockQuote (ofRuleCfg c) (parseMethod (ofRuleCfg c) (pmFuel + 1)) mt st =
      .ok (linesNl (l0 :: ls), some (before.length + out.length), st1) ∧
    ∀ child, parse (ofRuleCfg c) (parseMethod (ofRuleCfg c) (pmFuel + 1)) (st1.childState (linesNl (l0 :: ls)))
        (some (if st1.depth + 1 ≥ (ofRuleCfg c).maxNested then withoutContainers (ofRuleCfg c).quoteRules
          else (ofRuleCfg c).quoteRules)) = .ok child →
      parseBlockQuote (ofRuleCfg c) (parseMethod (ofRuleCfg c) (pmFuel + 1)) mt st =
        .ok (some (before.length + out.length),
          { st1 with env := child.env,
                     tokens := st.tokens ++ [tok "block_quote" [("children", .arr child.tokens)], tok "blank_line" []] }) := by
  intro out mt st1
  have hout : out = quoteLines (l0 :: ls) ++ ['\n'] := by
    show mdBlockQuote (linesNl (l0 :: ls ++ bs)) = _
    rw [show l0 :: ls ++ bs = (l0 :: ls) ++ bs from rfl]
    exact md_block_quote_lines_last (l0 :: ls) bs hnb hlast hbs
  have hS : before ++ out ++ rest = before ++ quoteLines (l0 :: ls) ++ '\n' :: rest := by rw [hout]; simp
  have hx' : st.x = Py.ctxOf (before ++ quoteLines (l0 :: ls) ++ '\n' :: rest) := by rw [← hS]; exact hx
  have hmax' : st.cursorMax = (before ++ quoteLines (l0 :: ls) ++ '\n' :: rest).length := by rw [← hS]; exact hmax
  have hlen : out.length = (quoteLines (l0 :: ls)).length + 1 := by rw [hout]; simp
  obtain ⟨breakTail, hbsc⟩ := quoteBreakSc_of c hc
  have hext := md_block_quote_extract (ofRuleCfg c) rfl rfl (parseMethod (ofRuleCfg c) (pmFuel + 1)) (fun _ _ => rfl) st
    before rest l0 ls sc breakTail hx' hmax' ⟨(hnb l0 (by simp)).no_nl, hl0⟩
    (fun l hl => ⟨(hnb l (by simp [hl])).no_nl, hls l hl⟩) hsc hreq hbsc hbl hrest
  have hst1 : st1 = ({ st with cursor := before.length + (quoteLines (l0 :: ls)).length } : BlockState).appendToken
      (tok "blank_line" []) := by
    show ({ st with cursor := before.length + out.length - 1 } : BlockState).appendToken _ = _
    rw [hlen]; rfl
  have hE : before.length + out.length = before.length + (quoteLines (l0 :: ls)).length + 1 := by rw [hlen]; omega
  refine ⟨hout, ?_, ?_, ?_⟩
  · -- the rule fires
    have hl : (ofRuleCfg c).blockSpec.lookup "block_quote" = some blockQuoteRuleExpected := blockQuoteRule_lookup c hc
    simp only [MdCfg.blockSc, List.filterMap_cons, List.filterMap_nil, hl, Option.map_some, scanAt]
    have hsub : before ++ quoteLines (l0 :: ls) ++ '\n' :: rest =
        before ++ '>' :: (' ' :: l0) ++ ('\n' :: (quoteLines ls ++ '\n' :: rest)) := by
      simp [quoteLines, linesNl]
    rw [hx', hsub, blockQuoteRule_matchAt_hit before (' ' :: l0) _ hbol
      (by simpa using (hnb l0 (by simp)).no_nl) (Or.inr ⟨_, rfl⟩)]
  · rw [hext, hst1, hE]
  · intro child hchild
    rw [hst1] at hchild
    have := parseBlockQuote_of (ofRuleCfg c) (parseMethod (ofRuleCfg c) (pmFuel + 1)) mt st _ _ _ child hext hchild
    rw [this, hst1, hE]
    simp [truthyPos, listInsert, BlockState.appendToken]

/-! ### the handler bound to `block_quote` (the plugin `spoiler` rebinds it) -/

/-- the handler bound to the rule `block_quote` treats the extracted `text` as an ordinary quote: either the plugin
`spoiler` is not installed (`parse_block_quote` is bound), or `parse_block_spoiler` is bound and does not see a spoiler
(the quote is nested, or `_BLOCK_SPOILER_MATCH` — every line starts with (0–3 blanks) `!` — does not match `text`).
Decidable on instances. -/
def NotSpoiler (cfg : MdCfg) (depth : Nat) (text : Str) : Prop :=
  spoilerActive cfg = false ∨
    (depth == 0 && (Py.matchAt (cfg.rx "mistune.plugins.spoiler._BLOCK_SPOILER_MATCH") (Py.ctxOf text) 0).isSome) = false

instance (cfg : MdCfg) (depth : Nat) (text : Str) : Decidable (NotSpoiler cfg depth text) := by
  unfold NotSpoiler; infer_instance

theorem endsWith_nl (X : Str) : Py.endsWith (X ++ ['\n']) ['\n'] = true := by
  simp [Py.endsWith, Py.startsWith]

/-- `parse_block_spoiler` on a quote that is not a spoiler is `parse_block_quote` -/
theorem parseBlockSpoiler_eq_quote (cfg : MdCfg) (pm : ParseMethod) (mt : RxMatch) (st : BlockState) (X : Str)
    (endPos : Option Nat) (st1 : BlockState)
    (hext : extractBlockQuote cfg pm mt st = .ok (X ++ ['\n'], endPos, st1))
    (hno : (st1.depth == 0 &&
      (Py.matchAt (cfg.rx "mistune.plugins.spoiler._BLOCK_SPOILER_MATCH") (Py.ctxOf (X ++ ['\n'])) 0).isSome) = false) :
    parseBlockSpoiler cfg pm mt st = parseBlockQuote cfg pm mt st := by
  unfold parseBlockSpoiler parseBlockQuote
  have hok : ∀ {α : Type} (a : α), (Except.ok a : Except PyErr α) = pure a := fun _ => rfl
  simp only [hext, hok, pure_bind, endsWith_nl, if_true, hno, Bool.false_eq_true, if_false]

/-- **the dispatch on `block_quote`**: under `NotSpoiler` (for the text the extraction returns, at the depth of the
state it returns) `parse_method` runs `parse_block_quote` -/
theorem parseMethod_quote (cfg : MdCfg) (f : Nat) (mt : RxMatch) (st : BlockState) (X : Str)
    (endPos : Option Nat) (st1 : BlockState)
    (hext : extractBlockQuote cfg (parseMethod cfg f) mt st = .ok (X ++ ['\n'], endPos, st1))
    (hsp : NotSpoiler cfg st1.depth (X ++ ['\n'])) :
    parseMethod cfg (f + 1) "block_quote" mt st = parseBlockQuote cfg (parseMethod cfg f) mt st := by
  show (if spoilerActive cfg then parseBlockSpoiler cfg (parseMethod cfg f) mt st
    else parseBlockQuote cfg (parseMethod cfg f) mt st) = _
  rcases hsp with h | h
  · rw [h]; rfl
  · split
    · exact parseBlockSpoiler_eq_quote cfg _ mt st X endPos st1 hext h
    · rfl

/-- a nested quote is never a spoiler -/
theorem notSpoiler_nested (cfg : MdCfg) (d : Nat) (text : Str) : NotSpoiler cfg (d + 1) text := by
  right; simp

/-- **`NotSpoiler` from the first character**: if `_BLOCK_SPOILER_MATCH` cannot start with the first character of the
text (a decidable fact about the regenerated regex and the character: every character except blank and `!`) -/
theorem notSpoiler_of_first (cfg : MdCfg) (depth : Nat) (a : Char) (more : Str)
    (hmin : 1 ≤ (cfg.rx "mistune.plugins.spoiler._BLOCK_SPOILER_MATCH").minLen)
    (hf : (cfg.rx "mistune.plugins.spoiler._BLOCK_SPOILER_MATCH").firstOk pyCats a.toNat = false) :
    NotSpoiler cfg depth (a :: more) := by
  right
  have : Py.matchAt (cfg.rx "mistune.plugins.spoiler._BLOCK_SPOILER_MATCH") (Py.ctxOf (a :: more)) 0 = none := by
    unfold Py.matchAt
    rw [Nat.zero_min]
    exact firstOk_none _ (a :: more) 0 a rfl hmin hf
  rw [this]; simp

/-- **Obligation:** the regenerated `_BLOCK_SPOILER_MATCH` cannot match the empty string and cannot start with `>`. -/
theorem spoilerMatch_gt_ok :
    (match namedRx.lookup "mistune.plugins.spoiler._BLOCK_SPOILER_MATCH" with
      | some r => decide (1 ≤ r.minLen) && !r.firstOk pyCats '>'.toNat
      | none => false) = true := by decide +kernel

/-- a quote whose first content line is itself a quote line is not a spoiler, in every regenerated configuration -/
theorem notSpoiler_gt (c : RuleCfg) (depth : Nat) (more : Str) : NotSpoiler (ofRuleCfg c) depth ('>' :: more) := by
  have h := spoilerMatch_gt_ok
  split at h
  · rename_i r hr
    simp only [Bool.and_eq_true, decide_eq_true_eq, Bool.not_eq_true'] at h
    have hrx : (ofRuleCfg c).rx "mistune.plugins.spoiler._BLOCK_SPOILER_MATCH" = r := by
      show ((namedRx.lookup _).getD .fail) = r
      rw [hr]; rfl
    exact notSpoiler_of_first (ofRuleCfg c) depth '>' more (by rw [hrx]; exact h.1) (by rw [hrx]; exact h.2)
  · cases h

/-- **which regenerated configurations bind `parse_block_quote` itself**: all but the nine with the plugin `spoiler` -/
theorem spoilerActive_cfgs : ∀ c ∈ allCfgs, spoilerActive (ofRuleCfg c) =
    decide (c.name ∈ ["all", "all-speedup", "all-fenced", "all-rst", "all-tochook", "all-fenced-colon", "ast-all",
      "only-spoiler", "all-noescape-hardwrap"]) := by decide +kernel

/-! ### one iteration of `BlockParser.parse` on a rendered quote -/

/-- the rules tried before `block_quote` cannot start with `>` (and `block_quote` is the expected regex) -/
def quoteOk : List (String × Rx) → Bool
  | [] => false
  | (n, r) :: rest =>
    if n == "block_quote" then r == blockQuoteRuleExpected
    else decide (1 ≤ r.minLen) && !r.firstOk pyCats '>'.toNat && quoteOk rest

theorem quoteOk_split : ∀ (sc : List (String × Rx)), quoteOk sc = true →
    ∃ bf after, sc = bf ++ ("block_quote", blockQuoteRuleExpected) :: after ∧
      bf.all (fun p => decide (1 ≤ p.2.minLen) && !p.2.firstOk pyCats '>'.toNat) = true := by
  intro sc
  induction sc with
  | nil => intro h; cases h
  | cons p rest ih =>
    obtain ⟨n, r⟩ := p
    intro h
    unfold quoteOk at h
    split at h
    · rename_i hn
      refine ⟨[], rest, ?_, rfl⟩
      simp only [beq_iff_eq] at hn h
      rw [hn, h]; rfl
    · simp only [Bool.and_eq_true] at h
      obtain ⟨bf, after, e, hb⟩ := ih h.2
      refine ⟨(n, r) :: bf, after, by rw [e]; rfl, ?_⟩
      simp only [List.all_cons, Bool.and_eq_true]
      exact ⟨h.1, hb⟩

/-- **Obligation:** in every regenerated configuration, in the top-level rule list and in the rule list used inside
quotes, no rule tried before `block_quote` can start with `>`. -/
theorem quoteRules_ok : ∀ c ∈ allCfgs,
    (match compileSc (ofRuleCfg c) (ofRuleCfg c).blockRules with
      | .ok sc => quoteOk sc
      | _ => false) = true ∧
    (match compileSc (ofRuleCfg c) (ofRuleCfg c).quoteRules with
      | .ok sc => quoteOk sc
      | _ => false) = true := by decide +kernel

/-- **`md_block_quote_step`: one iteration of the `while` loop of `BlockParser.parse` consumes exactly what
`MarkdownRenderer.block_quote` wrote.**  Hypotheses as in `md_block_quote_roundtrip`; `sc` is a compiled rule list in
which nothing before `block_quote` can start with `>` (`quoteRules_ok`: the top-level list and the list used inside
quotes of every regenerated configuration), the cursor is at the start of the rendered quote, and the child parse of the
text `l0⏎…ln⏎` succeeds with `child`.  Then the iteration appends the token `block_quote` whose children are
`child.tokens`, then the `blank_line` token of the renderer's empty line, and continues at the end of what the renderer
wrote. -/
theorem md_block_quote_step (c : RuleCfg) (hc : c ∈ allCfgs) (rules : List (String × Rx)) (hrules : quoteOk rules = true)
    (pmFuel fuel : Nat) (st : BlockState)
    (before rest l0 : Str) (ls bs : List Str) (sc : List (String × Rx))
    (hx : st.x = Py.ctxOf (before ++ mdBlockQuote (linesNl (l0 :: ls ++ bs)) ++ rest))
    (hmax : st.cursorMax = (before ++ mdBlockQuote (linesNl (l0 :: ls ++ bs)) ++ rest).length)
    (hcur : st.cursor = before.length)
    (hbol : before = [] ∨ before.getLast? = some '\n')
    (hnb : ∀ l ∈ l0 :: ls, NoBreak l) (hl0 : ¬ TabHead l0) (hls : ∀ l ∈ ls, ¬ TabHead l)
    (hlast : ∃ z, (l0 :: ls).getLast? = some z ∧ ¬ QuoteBlank z) (hbs : ∀ b ∈ bs, QuoteBlank b)
    (hsc : compileSc (ofRuleCfg c) ["blank_line", "indent_code", "fenced_code"] = .ok sc)
    (hreq : (scMatch (Py.ctxOf (l0 ++ ['\n'])) sc 0).isSome = false)
    (hbl : (!ls.isEmpty && blankEnd (ofRuleCfg c) (linesNl ls)) = false)
    (hrest : BlankStop rest) (hsp : NotSpoiler (ofRuleCfg c) st.depth (linesNl (l0 :: ls))) (child : BlockState)
    (hchild : parse (ofRuleCfg c) (parseMethod (ofRuleCfg c) (pmFuel + 1))
      ((({ st with cursor := before.length + (mdBlockQuote (linesNl (l0 :: ls ++ bs))).length - 1 } :
          BlockState).appendToken (tok "blank_line" [])).childState (linesNl (l0 :: ls)))
      (some (if st.depth + 1 ≥ (ofRuleCfg c).maxNested then withoutContainers (ofRuleCfg c).quoteRules
        else (ofRuleCfg c).quoteRules)) = .ok child) :
    parseLoop (ofRuleCfg c) (parseMethod (ofRuleCfg c) (pmFuel + 2)) rules (fuel + 1) st =
      parseLoop (ofRuleCfg c) (parseMethod (ofRuleCfg c) (pmFuel + 2)) rules fuel
        { st with env := child.env,
                  tokens := st.tokens ++ [tok "block_quote" [("children", .arr child.tokens)], tok "blank_line" []],
                  cursor := before.length + (mdBlockQuote (linesNl (l0 :: ls ++ bs))).length } := by
  obtain ⟨hout, hfire, hext, hparse⟩ := md_block_quote_roundtrip c hc pmFuel st before rest l0 ls bs sc hx hmax hbol hnb
    hl0 hls hlast hbs hsc hreq hbl hrest
  have hparse := hparse child hchild
  obtain ⟨X, hX⟩ := linesNl_concat (l0 :: ls) (by simp)
  rw [hX] at hext hsp
  obtain ⟨bf, after, rfl, hb⟩ := quoteOk_split rules hrules
  have hlen : (mdBlockQuote (linesNl (l0 :: ls ++ bs))).length = (quoteLines (l0 :: ls)).length + 1 := by
    rw [hout]; simp
  have hget : (before ++ mdBlockQuote (linesNl (l0 :: ls ++ bs)) ++ rest)[before.length]? = some '>' := by
    rw [hout, show before.length = before.length + ([] : Str).length by simp,
      show before ++ (quoteLines (l0 :: ls) ++ ['\n']) ++ rest =
        before ++ [] ++ ('>' :: (' ' :: l0 ++ '\n' :: (quoteLines ls ++ '\n' :: rest))) by simp [quoteLines, linesNl],
      getElem?_after]
    rfl
  have hl : (ofRuleCfg c).blockSpec.lookup "block_quote" = some blockQuoteRuleExpected := blockQuoteRule_lookup c hc
  simp only [MdCfg.blockSc, List.filterMap_cons, List.filterMap_nil, hl, Option.map_some, scanAt] at hfire
  have hm : blockQuoteRuleExpected.matchAt st.x before.length = some (quoteMatch before.length (' ' :: l0)) := by
    split at hfire
    · rename_i mt' hm'
      simp only [Option.some.injEq, Prod.mk.injEq, true_and] at hfire
      rw [hm', hfire]
    · cases hfire
  have hstep := parseLoop_step (ofRuleCfg c) (parseMethod (ofRuleCfg c) (pmFuel + 2))
    (bf ++ ("block_quote", blockQuoteRuleExpected) :: after) fuel st "block_quote"
    (quoteMatch before.length (' ' :: l0)) (before.length + (quoteLines (l0 :: ls)).length) _
    (by rw [hcur, hmax]; simp only [List.length_append]; omega)
    (by
      rw [hcur]
      apply scan_of_scanAt _ _ _ _ (by rw [hx, ctxOf_n]; simp only [List.length_append]; omega)
      rw [hx, scanAt_skip bf _ _ _ '>' hget hb, ← hx]
      simp only [scanAt, hm])
    (by rw [hcur]; rfl)
    (by
      rw [parseMethod_quote (ofRuleCfg c) (pmFuel + 1) _ st X _ _ hext hsp]
      rw [hparse, hlen]
      rfl)
  rw [hstep, hlen]
  rfl

/-! ### `require_marker` decided by the first character of the first content line -/

/-- **`require_marker` from the first character.**  If none of the rules of `sc` (`blank_line`, `indent_code`,
`fenced_code`) can start with the character `a` (a decidable fact about the regenerated regexes and `a`), then on every
line that starts with `a` the scanner of `extract_block_quote` does not match: `require_marker` is `False`. -/
theorem reqMarker_false_of_first (sc : List (String × Rx)) (a : Char) (more : Str)
    (hall : sc.all (fun p => decide (1 ≤ p.2.minLen) && !p.2.firstOk pyCats a.toNat) = true) :
    (scMatch (Py.ctxOf (a :: more ++ ['\n'])) sc 0).isSome = false := by
  unfold scMatch
  rw [Nat.zero_min]
  have := scanAt_skip sc [] (a :: more ++ ['\n']) 0 a rfl hall
  rw [List.append_nil] at this
  rw [this]
  rfl

/-- **Obligation:** in every regenerated configuration none of `blank_line`, `indent_code`, `fenced_code` can start with
`>`: a content line that is itself a quote line never sets `require_marker`. -/
theorem quoteReqSc_gt_ok : ∀ c ∈ allCfgs,
    (match compileSc (ofRuleCfg c) ["blank_line", "indent_code", "fenced_code"] with
      | .ok sc => sc.all (fun p => decide (1 ≤ p.2.minLen) && !p.2.firstOk pyCats '>'.toNat)
      | _ => false) = true := by decide +kernel

/-- the same for a letter (`x`), as an instance of what the hypothesis looks like on ordinary text -/
example : quoteExSc.all (fun p => decide (1 ≤ p.2.minLen) && !p.2.firstOk pyCats 'x'.toNat) = true := by decide +kernel
example : (scMatch (Py.ctxOf ('x' :: "yz".toList ++ ['\n'])) quoteExSc 0).isSome = false :=
  reqMarker_false_of_first quoteExSc 'x' "yz".toList (by decide +kernel)

/-! ### the quote at the end of the subject (the child text of an outer quote: the renderer's empty line was dropped) -/

/-- **`md_block_quote_extract_eos`**: as `md_block_quote_extract`, when the subject ends with the last quote line (this is
what the child parse of an enclosing quote sees: the enclosing `block_quote` dropped the empty line).  The child text is
`l0⏎…ln⏎`, there is no end position (`None`: the handler then returns the cursor), the cursor is at the end. -/
theorem md_block_quote_extract_eos (cfg : MdCfg) (hcfg : cfg.named = Generated.namedRx)
    (hg : cfg.groups = Generated.groupIndex) (pm : ParseMethod)
    (st : BlockState) (before l0 : Str) (ls : List Str) (sc breakSc : List (String × Rx))
    (hx : st.x = Py.ctxOf (before ++ quoteLines (l0 :: ls)))
    (hmax : st.cursorMax = (before ++ quoteLines (l0 :: ls)).length)
    (hl0 : PlainLine l0) (hls : ∀ l ∈ ls, PlainLine l)
    (hsc : compileSc cfg ["blank_line", "indent_code", "fenced_code"] = .ok sc)
    (hreq : (scMatch (Py.ctxOf (l0 ++ ['\n'])) sc 0).isSome = false)
    (hbsc : compileSc cfg ["blank_line", "thematic_break", "fenced_code", "list", "block_html"] = .ok breakSc) :
    extractBlockQuote cfg pm (quoteMatch before.length (' ' :: l0)) st =
      .ok (linesNl (l0 :: ls), none, { st with cursor := before.length + (quoteLines (l0 :: ls)).length }) := by
  generalize hsegs : ls.map (fun l => (([] : Str), l)) = segs
  generalize hpre : before ++ '>' :: ' ' :: l0 ++ ['\n'] = pre
  have hq : quoteLines (l0 :: ls) = '>' :: ' ' :: l0 ++ ['\n'] ++ (segs.map markLine).flatten := by
    rw [quoteLines_cons, hsegs]
  have hS : before ++ quoteLines (l0 :: ls) = pre ++ (segs.map markLine).flatten := by
    rw [hq, ← hpre]; simp
  have hP : pre.length + (segs.map markLine).flatten.length = before.length + (quoteLines (l0 :: ls)).length := by
    rw [hq, ← hpre]; simp only [List.length_append, List.length_cons]; omega
  have hseg : ∀ p ∈ segs, PlainSeg p := by
    intro p hp
    rw [← hsegs] at hp
    obtain ⟨l, hl, rfl⟩ := List.mem_map.mp hp
    exact ⟨by simp, by simp, (hls l hl).1, (hls l hl).2⟩
  have hmt : (quoteMatch before.length (' ' :: l0)).stop + 1 = pre.length := by
    rw [← hpre]; simp only [quoteMatch, List.length_append, List.length_cons, List.length_nil]; omega
  have hq1 : grp cfg st (quoteMatch before.length (' ' :: l0)) "quote_1" = ' ' :: l0 := by
    apply quoteMatch_grp cfg hg st before (' ' :: l0) ('\n' :: (segs.map markLine).flatten)
    rw [hx, hS, ← hpre]; simp
  have htext : ((l0 :: segs.map (·.2)).map (· ++ ['\n'])).flatten = linesNl (l0 :: ls) := by
    rw [← hsegs]; simp [linesNl, List.map_map, Function.comp_def]
  rw [extractBlockQuote_verbatim_eos cfg hcfg pm (quoteMatch before.length (' ' :: l0)) st pre l0 segs sc breakSc
    (by rw [hx, hS]) hmt (by rw [hmax, hS]) hq1 ⟨hl0.2, hl0.1⟩ hsc hreq hbsc hseg, htext, hP]

/-! ### nesting: the child parse of a quote whose only child is a quote; two levels -/

/-- **`md_block_quote_step_eos`: one iteration of `BlockParser.parse` on a canonical quote that ends the subject** (the
child text of an enclosing quote).  The iteration appends the token `block_quote` whose children are the tokens of the
child parse of `l0⏎…ln⏎`, and the cursor reaches the end of the subject. -/
theorem md_block_quote_step_eos (c : RuleCfg) (hc : c ∈ allCfgs) (rules : List (String × Rx))
    (hrules : quoteOk rules = true) (pmFuel fuel : Nat) (st : BlockState) (before l0 : Str) (ls : List Str)
    (sc : List (String × Rx))
    (hx : st.x = Py.ctxOf (before ++ quoteLines (l0 :: ls)))
    (hmax : st.cursorMax = (before ++ quoteLines (l0 :: ls)).length)
    (hcur : st.cursor = before.length) (hbol : before = [] ∨ before.getLast? = some '\n')
    (hl0 : PlainLine l0) (hls : ∀ l ∈ ls, PlainLine l)
    (hsc : compileSc (ofRuleCfg c) ["blank_line", "indent_code", "fenced_code"] = .ok sc)
    (hreq : (scMatch (Py.ctxOf (l0 ++ ['\n'])) sc 0).isSome = false)
    (hsp : NotSpoiler (ofRuleCfg c) st.depth (linesNl (l0 :: ls))) (child : BlockState)
    (hchild : parse (ofRuleCfg c) (parseMethod (ofRuleCfg c) pmFuel)
      (({ st with cursor := before.length + (quoteLines (l0 :: ls)).length } : BlockState).childState (linesNl (l0 :: ls)))
      (some (if st.depth + 1 ≥ (ofRuleCfg c).maxNested then withoutContainers (ofRuleCfg c).quoteRules
        else (ofRuleCfg c).quoteRules)) = .ok child) :
    parseLoop (ofRuleCfg c) (parseMethod (ofRuleCfg c) (pmFuel + 1)) rules (fuel + 1) st =
      parseLoop (ofRuleCfg c) (parseMethod (ofRuleCfg c) (pmFuel + 1)) rules fuel
        { st with env := child.env,
                  tokens := st.tokens ++ [tok "block_quote" [("children", .arr child.tokens)]],
                  cursor := before.length + (quoteLines (l0 :: ls)).length } := by
  obtain ⟨breakSc, hbsc⟩ := quoteBreakSc_of c hc
  have hext := md_block_quote_extract_eos (ofRuleCfg c) rfl rfl (parseMethod (ofRuleCfg c) pmFuel) st before l0 ls sc _
    hx hmax hl0 hls hsc hreq hbsc
  obtain ⟨X, hX⟩ := linesNl_concat (l0 :: ls) (by simp)
  have hext' := hext
  rw [hX] at hext' hsp
  have hparse := parseBlockQuote_of (ofRuleCfg c) (parseMethod (ofRuleCfg c) pmFuel) _ st _ _ _ child hext hchild
  obtain ⟨bf, after, rfl, hb⟩ := quoteOk_split rules hrules
  have hsub : before ++ quoteLines (l0 :: ls) = before ++ '>' :: (' ' :: l0) ++ ('\n' :: quoteLines ls) := by
    simp [quoteLines, linesNl]
  have hlen : 3 ≤ (quoteLines (l0 :: ls)).length := by
    simp [quoteLines, linesNl]; omega
  have hget : (before ++ quoteLines (l0 :: ls))[before.length]? = some '>' := by
    rw [show before.length = before.length + ([] : Str).length by simp,
      show before ++ quoteLines (l0 :: ls) = before ++ [] ++ ('>' :: (' ' :: l0 ++ '\n' :: quoteLines ls)) by
        simp [quoteLines, linesNl],
      getElem?_after]
    rfl
  have hm : blockQuoteRuleExpected.matchAt st.x before.length = some (quoteMatch before.length (' ' :: l0)) := by
    rw [hx, hsub]
    exact blockQuoteRule_matchAt_hit before (' ' :: l0) _ hbol (by simpa using hl0.1) (Or.inr ⟨_, rfl⟩)
  have hstep := parseLoop_step (ofRuleCfg c) (parseMethod (ofRuleCfg c) (pmFuel + 1))
    (bf ++ ("block_quote", blockQuoteRuleExpected) :: after) fuel st "block_quote"
    (quoteMatch before.length (' ' :: l0)) (before.length + (quoteLines (l0 :: ls)).length - 1) _
    (by rw [hcur, hmax]; simp only [List.length_append]; omega)
    (by
      rw [hcur]
      apply scan_of_scanAt _ _ _ _ (by rw [hx, ctxOf_n]; simp only [List.length_append]; omega)
      rw [hx, scanAt_skip bf _ _ _ '>' hget hb, ← hx]
      simp only [scanAt, hm])
    (by rw [hcur]; rfl)
    (by
      rw [parseMethod_quote (ofRuleCfg c) pmFuel _ st X _ _ hext' hsp]
      rw [hparse]
      simp only [truthyPos, Bool.false_eq_true, if_false]
      rw [show before.length + (quoteLines (l0 :: ls)).length - 1 + 1 = before.length + (quoteLines (l0 :: ls)).length by
        omega])
  rw [hstep, show before.length + (quoteLines (l0 :: ls)).length - 1 + 1 = before.length + (quoteLines (l0 :: ls)).length by
    omega]
  rfl

theorem quoteRulesSc_of (c : RuleCfg) (hc : c ∈ allCfgs) :
    ∃ scQ, compileSc (ofRuleCfg c) (ofRuleCfg c).quoteRules = .ok scQ ∧ quoteOk scQ = true := by
  have := (quoteRules_ok c hc).2
  split at this
  · rename_i scQ heq; exact ⟨scQ, heq, this⟩
  · cases this

theorem parseLoop_done (cfg : MdCfg) (pm : ParseMethod) (sc : List (String × Rx)) (fuel : Nat) (st : BlockState)
    (h : ¬ st.cursor < st.cursorMax) : parseLoop cfg pm sc fuel st = .ok st := by
  cases fuel with
  | zero => rw [parseLoop, if_neg h]
  | succ f => rw [parseLoop, if_neg h]

/-- **`md_quote_only_parse`: `BlockParser.parse` (with the rules used inside quotes) on a text that is exactly one
canonical quote `> l0⏎…> ln⏎`** — what the child parse of an enclosing quote is given when the enclosed quote is its only
child — returns exactly one token `block_quote`, whose children are the tokens of the parse of `l0⏎…ln⏎`. -/
theorem md_quote_only_parse (c : RuleCfg) (hc : c ∈ allCfgs) (pmFuel : Nat) (cs : BlockState) (l0 : Str) (ls : List Str)
    (sc : List (String × Rx))
    (hx : cs.x = Py.ctxOf (quoteLines (l0 :: ls))) (hmax : cs.cursorMax = (quoteLines (l0 :: ls)).length)
    (hcur : cs.cursor = 0) (hl0 : PlainLine l0) (hls : ∀ l ∈ ls, PlainLine l)
    (hsc : compileSc (ofRuleCfg c) ["blank_line", "indent_code", "fenced_code"] = .ok sc)
    (hreq : (scMatch (Py.ctxOf (l0 ++ ['\n'])) sc 0).isSome = false)
    (hsp : NotSpoiler (ofRuleCfg c) cs.depth (linesNl (l0 :: ls))) (child : BlockState)
    (hchild : parse (ofRuleCfg c) (parseMethod (ofRuleCfg c) pmFuel)
      (({ cs with cursor := (quoteLines (l0 :: ls)).length } : BlockState).childState (linesNl (l0 :: ls)))
      (some (if cs.depth + 1 ≥ (ofRuleCfg c).maxNested then withoutContainers (ofRuleCfg c).quoteRules
        else (ofRuleCfg c).quoteRules)) = .ok child) :
    parse (ofRuleCfg c) (parseMethod (ofRuleCfg c) (pmFuel + 1)) cs (some (ofRuleCfg c).quoteRules) =
      .ok { cs with env := child.env,
                    tokens := cs.tokens ++ [tok "block_quote" [("children", .arr child.tokens)]],
                    cursor := (quoteLines (l0 :: ls)).length } := by
  obtain ⟨scQ, hcomp, hq⟩ := quoteRulesSc_of c hc
  have hstep := md_block_quote_step_eos c hc scQ hq pmFuel cs.cursorMax cs [] l0 ls sc hx hmax hcur (Or.inl rfl) hl0 hls
    hsc hreq hsp child (by simpa using hchild)
  unfold parse
  simp only [Option.getD_some, hcomp, bind, Except.bind]
  rw [hstep, parseLoop_done _ _ _ _ _ (by simp [hmax])]
  simp [hmax, pure, Except.pure]

theorem not_tabHead_gt (l : Str) : ¬ TabHead (['>', ' '] ++ l) := by
  rintro ⟨sp, r, e, hsp, _⟩
  cases sp with
  | nil =>
    simp only [List.nil_append, List.cons_append, List.cons.injEq] at e
    exact absurd e.1 (by decide)
  | cons a t =>
    simp only [List.cons_append, List.nil_append, List.cons.injEq] at e
    have := hsp a (by simp)
    rw [← e.1] at this
    exact absurd this (by decide)

theorem noBreak_gt {l : Str} (h : NoBreak l) : NoBreak (['>', ' '] ++ l) := by
  intro ch hch
  simp only [List.cons_append, List.nil_append, List.mem_cons] at hch
  rcases hch with rfl | rfl | hch
  · decide
  · decide
  · exact h ch hch

/-- **(4) `md_block_quote_nested`: two levels, `> > x`.**  The children of the outer quote are one quote, whose rendered
children are `m0⏎…mn⏎` followed by the lines `bs2` of `>` and blanks; the subject is `before`, what
`MarkdownRenderer.block_quote` writes for the outer quote (i.e. `block_quote` applied to the output of `block_quote`), and
`rest`.  Below the nesting limit (`hdepth`), one iteration of `BlockParser.parse` appends a `block_quote` token whose only
child is a `block_quote` token whose children are the tokens of the parse of exactly `m0⏎…mn⏎` (`child2`, parsed in a
state two levels below `st`), then the `blank_line` token, and continues at the end of what the renderer wrote. -/
theorem md_block_quote_nested (c : RuleCfg) (hc : c ∈ allCfgs) (rules : List (String × Rx)) (hrules : quoteOk rules = true)
    (pmFuel fuel : Nat) (st : BlockState) (before rest m0 : Str) (ms bs2 : List Str) (sc : List (String × Rx))
    (hx : st.x = Py.ctxOf (before ++ mdBlockQuote (mdBlockQuote (linesNl (m0 :: ms ++ bs2))) ++ rest))
    (hmax : st.cursorMax = (before ++ mdBlockQuote (mdBlockQuote (linesNl (m0 :: ms ++ bs2))) ++ rest).length)
    (hcur : st.cursor = before.length) (hbol : before = [] ∨ before.getLast? = some '\n')
    (hnb : ∀ l ∈ m0 :: ms, NoBreak l) (hm0 : ¬ TabHead m0) (hms : ∀ l ∈ ms, ¬ TabHead l)
    (hlast : ∃ z, (m0 :: ms).getLast? = some z ∧ ¬ QuoteBlank z) (hbs2 : ∀ b ∈ bs2, QuoteBlank b)
    (hsc : compileSc (ofRuleCfg c) ["blank_line", "indent_code", "fenced_code"] = .ok sc)
    (hreq : (scMatch (Py.ctxOf (m0 ++ ['\n'])) sc 0).isSome = false)
    (hbl : (!ms.isEmpty && blankEnd (ofRuleCfg c) (linesNl (ms.map (['>', ' '] ++ ·)))) = false)
    (hrest : BlankStop rest) (hdepth : st.depth + 1 < (ofRuleCfg c).maxNested) (child2 : BlockState)
    (hchild2 : parse (ofRuleCfg c) (parseMethod (ofRuleCfg c) pmFuel)
      ((st.childState []).childState (linesNl (m0 :: ms)))
      (some (if st.depth + 1 + 1 ≥ (ofRuleCfg c).maxNested then withoutContainers (ofRuleCfg c).quoteRules
        else (ofRuleCfg c).quoteRules)) = .ok child2) :
    parseLoop (ofRuleCfg c) (parseMethod (ofRuleCfg c) (pmFuel + 2)) rules (fuel + 1) st =
      parseLoop (ofRuleCfg c) (parseMethod (ofRuleCfg c) (pmFuel + 2)) rules fuel
        { st with env := child2.env,
                  tokens := st.tokens ++
                    [tok "block_quote" [("children", .arr [tok "block_quote" [("children", .arr child2.tokens)]])],
                     tok "blank_line" []],
                  cursor := before.length + (mdBlockQuote (mdBlockQuote (linesNl (m0 :: ms ++ bs2)))).length } := by
  -- the inner quote as written: the lines `> m`, then one empty line
  have hK : mdBlockQuote (linesNl (m0 :: ms ++ bs2)) =
      linesNl ((['>', ' '] ++ m0) :: ms.map (['>', ' '] ++ ·) ++ [[]]) := by
    rw [show m0 :: ms ++ bs2 = (m0 :: ms) ++ bs2 from rfl, md_block_quote_lines_last (m0 :: ms) bs2 hnb hlast hbs2,
      show (['>', ' '] ++ m0) :: ms.map (['>', ' '] ++ ·) ++ [[]] = (m0 :: ms).map (['>', ' '] ++ ·) ++ [[]] from rfl,
      linesNl_append]
    rfl
  rw [hK] at hx hmax ⊢
  have hsc' : (scMatch (Py.ctxOf ((['>', ' '] ++ m0) ++ ['\n'])) sc 0).isSome = false := by
    have := quoteReqSc_gt_ok c hc
    rw [hsc] at this
    exact reqMarker_false_of_first sc '>' (' ' :: m0) this
  have hnot : ¬ (st.depth + 1 ≥ (ofRuleCfg c).maxNested) := by omega
  -- the child parse of the outer quote: its text is exactly the inner quote
  have hinner := md_quote_only_parse c hc pmFuel
    ((({ st with cursor := before.length +
        (mdBlockQuote (linesNl ((['>', ' '] ++ m0) :: ms.map (['>', ' '] ++ ·) ++ [[]]))).length - 1 } :
          BlockState).appendToken (tok "blank_line" [])).childState (quoteLines (m0 :: ms)))
    m0 ms sc rfl rfl rfl ⟨(hnb m0 (by simp)).no_nl, hm0⟩ (fun l hl => ⟨(hnb l (by simp [hl])).no_nl, hms l hl⟩) hsc hreq
    (notSpoiler_nested (ofRuleCfg c) st.depth _) child2 hchild2
  have := md_block_quote_step c hc rules hrules pmFuel fuel st before rest (['>', ' '] ++ m0) (ms.map (['>', ' '] ++ ·))
    [[]] sc hx hmax hcur hbol
    (by
      intro l hl
      rcases List.mem_cons.mp hl with rfl | hl
      · exact noBreak_gt (hnb m0 (by simp))
      · obtain ⟨m, hm, rfl⟩ := List.mem_map.mp hl
        exact noBreak_gt (hnb m (by simp [hm])))
    (not_tabHead_gt m0)
    (by
      intro l hl
      obtain ⟨m, hm, rfl⟩ := List.mem_map.mp hl
      exact not_tabHead_gt m)
    (by
      obtain ⟨z, hz, hzb⟩ := hlast
      refine ⟨['>', ' '] ++ z, ?_, fun h => hzb ((quoteBlank_prefix z).mp h)⟩
      rw [show (['>', ' '] ++ m0) :: ms.map (['>', ' '] ++ ·) = (m0 :: ms).map (['>', ' '] ++ ·) from rfl,
        List.getLast?_map, hz]
      rfl)
    (by intro b hb; simp only [List.mem_cons, List.not_mem_nil, or_false] at hb; subst hb; intro ch hch; cases hch)
    hsc hsc' (by simpa using hbl) hrest (by rw [linesNl_cons]; exact notSpoiler_gt c _ _) _
    (by rw [if_neg hnot]; exact hinner)
  rw [this]
  rfl

/-! ### Examples: non-vacuity, and what happens outside the hypotheses -/

section Examples

/-- `md_block_quote_lines` instantiated: content lines `foo`, (empty), `> bar`, `baz`, then two lines the renderer drops -/
example : mdBlockQuote "foo\n\n> bar\nbaz\n\n> \n".toList = "> foo\n> \n> > bar\n> baz\n\n".toList :=
  md_block_quote_lines ["foo".toList, [], "> bar".toList] [[], "> ".toList] "baz".toList (by decide) (by decide)
    (by decide) (by decide)

/-- the empty quote -/
example : mdBlockQuote [] = "\n\n".toList := by decide
/-- a last line without final newline is written the same way -/
example : mdBlockQuote "foo\nbar".toList = "> foo\n> bar\n\n".toList := by decide

/-- **the hypothesis `NoBreak` is necessary**: `textwrap.indent` works on `str.splitlines(True)`, so a form feed (or `\v`,
`\x1c`–`\x1e`, `\x85`, `\u2028`, `\u2029`, a lone `\r`) inside a line is followed by another `> `, which the parser does not
remove: the content `a\x0cb` is written `> a\x0c> b` and re-read as `a\x0c> b`. -/
example : mdBlockQuote "a\x0cb\n".toList = "> a\x0c> b\n\n".toList := by decide
example : ¬ NoBreak "a\x0cb".toList := by decide
example : mdBlockQuote "a\u2028b\n".toList = "> a\u2028> b\n\n".toList := by decide

/-- **the hypothesis on the last line is necessary**: a last content line made of `>` and blanks is dropped with the
empty lines (the children `foo⏎>⏎` — a quote whose last child is an empty quote — lose it) -/
example : mdBlockQuote "foo\n>\n\n".toList = "> foo\n\n".toList := by decide

/-- the rule on the engine: `> foo` at position 4 of `bar⏎> foo⏎> x⏎` -/
example : blockQuoteRuleExpected.matchAt (Py.ctxOf ("bar\n".toList ++ '>' :: " foo".toList ++ "\n> x\n".toList)) 4 =
    some { start := 4, stop := 9, caps := [(1, (5, 9))] } :=
  blockQuoteRule_matchAt_hit "bar\n".toList " foo".toList "\n> x\n".toList (by decide) (by decide) (Or.inr ⟨_, rfl⟩)

/-- the document of the example below: a heading line, then the quote as the renderer writes it, then a paragraph -/
def exQuoteDoc : Str := "# t\n".toList ++ mdBlockQuote (linesNl ("foo  bar".toList :: ["".toList, "> x".toList] ++ [[], []])) ++
  "next\n".toList

example : exQuoteDoc = "# t\n> foo  bar\n> \n> > x\n\nnext\n".toList := by decide

/-- **non-vacuity of `md_block_quote_roundtrip`** (core configuration): the rendered children are `foo  bar⏎⏎> x⏎⏎⏎`
(a paragraph and a nested quote); the rule fires at 4, the extracted child text is `foo  bar⏎⏎> x⏎`, the end position
25 is the end of the renderer's output -/
example :=
  md_block_quote_roundtrip cfg_core cfg_core_mem 2 (BlockState.root exQuoteDoc) "# t\n".toList "next\n".toList
    "foo  bar".toList ["".toList, "> x".toList] [[], []] quoteExSc rfl rfl (by decide) (by decide) (by decide) (by decide)
    ⟨"> x".toList, rfl, by decide⟩ (by decide) rfl (by decide +kernel) (by decide +kernel)
    (Or.inr ⟨'n', "ext\n".toList, rfl, by decide, by decide⟩)

/-- the values in that instance -/
example : linesNl ("foo  bar".toList :: ["".toList, "> x".toList]) = "foo  bar\n\n> x\n".toList := by decide
example : "# t\n".toList.length +
    (mdBlockQuote (linesNl ("foo  bar".toList :: ["".toList, "> x".toList] ++ [[], []]))).length = 25 := by decide

/-- the child parse of that example succeeds (so the last part of the theorem applies to it) -/
example : (parse exCfg (parseMethod exCfg 3)
    ((({ BlockState.root exQuoteDoc with cursor := 24 } : BlockState).appendToken (tok "blank_line" [])).childState
      "foo  bar\n\n> x\n".toList) (some exCfg.quoteRules)).toBool = true := by decide +kernel

/-- the document `> > x⏎⏎next⏎`, as `block_quote` applied twice writes it -/
example : mdBlockQuote (mdBlockQuote (linesNl ("x".toList :: [] ++ [[], []]))) ++ "next\n".toList =
    "> > x\n\nnext\n".toList := by decide

/-- **non-vacuity of `md_block_quote_nested`** (core configuration, top-level rules, root state): on `> > x⏎⏎next⏎` the
first iteration of `BlockParser.parse` appends the nested `block_quote` tokens and the `blank_line` token -/
example (rules : List (String × Rx)) (hr : compileSc exCfg exCfg.blockRules = .ok rules) (fuel : Nat) :
    ∃ child2, parse exCfg (parseMethod exCfg 1)
        (((BlockState.root ([] ++ mdBlockQuote (mdBlockQuote (linesNl ("x".toList :: [] ++ [[], []]))) ++
          "next\n".toList)).childState []).childState (linesNl ["x".toList])) (some exCfg.quoteRules) = .ok child2 ∧
      parseLoop exCfg (parseMethod exCfg 3) rules (fuel + 1)
          (BlockState.root ([] ++ mdBlockQuote (mdBlockQuote (linesNl ("x".toList :: [] ++ [[], []]))) ++ "next\n".toList)) =
        parseLoop exCfg (parseMethod exCfg 3) rules fuel
          { BlockState.root ([] ++ mdBlockQuote (mdBlockQuote (linesNl ("x".toList :: [] ++ [[], []]))) ++
              "next\n".toList) with
            env := child2.env,
            tokens := [] ++
              [tok "block_quote" [("children", .arr [tok "block_quote" [("children", .arr child2.tokens)]])],
               tok "blank_line" []],
            cursor := ([] : Str).length + (mdBlockQuote (mdBlockQuote (linesNl ("x".toList :: [] ++ [[], []])))).length } := by
  have hrules : quoteOk rules = true := by
    have := (quoteRules_ok cfg_core cfg_core_mem).1
    rw [hr] at this
    exact this
  cases hp : parse exCfg (parseMethod exCfg 1)
      (((BlockState.root ([] ++ mdBlockQuote (mdBlockQuote (linesNl ("x".toList :: [] ++ [[], []]))) ++
        "next\n".toList)).childState []).childState (linesNl ["x".toList])) (some exCfg.quoteRules) with
  | error e =>
    exfalso
    have : (parse exCfg (parseMethod exCfg 1)
      (((BlockState.root ([] ++ mdBlockQuote (mdBlockQuote (linesNl ("x".toList :: [] ++ [[], []]))) ++
        "next\n".toList)).childState []).childState (linesNl ["x".toList])) (some exCfg.quoteRules)).toBool = true := by
      decide +kernel
    rw [hp] at this
    cases this
  | ok child2 =>
    refine ⟨child2, rfl, ?_⟩
    exact md_block_quote_nested cfg_core cfg_core_mem rules hrules 1 fuel _ [] "next\n".toList "x".toList [] [[], []]
      quoteExSc rfl rfl rfl (Or.inl rfl) (by decide) (by decide) (by decide) ⟨"x".toList, rfl, by decide⟩ (by decide) rfl
      (by decide +kernel) rfl (Or.inr ⟨'n', "ext\n".toList, rfl, by decide, by decide⟩) (by decide) child2 hp

/-! the handler bound to `block_quote` -/

/-- core configuration: `parse_block_quote` itself is bound -/
example : spoilerActive exCfg = false := by decide
example : NotSpoiler exCfg 0 "! x\n".toList := Or.inl (by decide)
/-- `only-spoiler`: `parse_block_spoiler` is bound; a quote without `!` is not a spoiler, `! x` is, a nested one is not -/
example : spoilerActive (ofRuleCfg cfg_only_spoiler) = true := by decide
example : NotSpoiler (ofRuleCfg cfg_only_spoiler) 0 "foo  bar\n\n> x\n".toList := by decide +kernel
example : ¬ NotSpoiler (ofRuleCfg cfg_only_spoiler) 0 "! x\n".toList := by decide +kernel
example : NotSpoiler (ofRuleCfg cfg_only_spoiler) 1 "! x\n".toList := notSpoiler_nested _ 0 _
/-- from the first character (`f`) -/
example : NotSpoiler (ofRuleCfg cfg_only_spoiler) 0 ('f' :: "oo\n".toList) :=
  notSpoiler_of_first _ 0 'f' _ (by decide +kernel) (by decide +kernel)

theorem cfg_only_spoiler_mem : cfg_only_spoiler ∈ allCfgs := by simp [allCfgs]

/-- **non-vacuity of `md_block_quote_step` on a configuration WITH the plugin `spoiler`** (`only-spoiler`, root state,
top-level rules): the document `# t⏎> foo  bar⏎> ⏎> > x⏎⏎next⏎` with the cursor at 4; the dispatch goes to
`parse_block_spoiler`, which computes what `parse_block_quote` computes -/
example (rules : List (String × Rx))
    (hr : compileSc (ofRuleCfg cfg_only_spoiler) (ofRuleCfg cfg_only_spoiler).blockRules = .ok rules) (fuel : Nat)
    (child : BlockState)
    (hchild : parse (ofRuleCfg cfg_only_spoiler) (parseMethod (ofRuleCfg cfg_only_spoiler) 2)
      ((({ ({ BlockState.root exQuoteDoc with cursor := 4 } : BlockState) with
          cursor := "# t\n".toList.length +
            (mdBlockQuote (linesNl ("foo  bar".toList :: ["".toList, "> x".toList] ++ [[], []]))).length - 1 } :
          BlockState).appendToken (tok "blank_line" [])).childState
        (linesNl ("foo  bar".toList :: ["".toList, "> x".toList])))
      (some (ofRuleCfg cfg_only_spoiler).quoteRules) = .ok child) :
    parseLoop (ofRuleCfg cfg_only_spoiler) (parseMethod (ofRuleCfg cfg_only_spoiler) 3) rules (fuel + 1)
        ({ BlockState.root exQuoteDoc with cursor := 4 } : BlockState) =
      parseLoop (ofRuleCfg cfg_only_spoiler) (parseMethod (ofRuleCfg cfg_only_spoiler) 3) rules fuel
        { ({ BlockState.root exQuoteDoc with cursor := 4 } : BlockState) with
          env := child.env,
          tokens := [] ++ [tok "block_quote" [("children", .arr child.tokens)], tok "blank_line" []],
          cursor := "# t\n".toList.length +
            (mdBlockQuote (linesNl ("foo  bar".toList :: ["".toList, "> x".toList] ++ [[], []]))).length } :=
  md_block_quote_step cfg_only_spoiler cfg_only_spoiler_mem rules
    (by have := (quoteRules_ok cfg_only_spoiler cfg_only_spoiler_mem).1; rw [hr] at this; exact this)
    1 fuel _ "# t\n".toList "next\n".toList "foo  bar".toList ["".toList, "> x".toList] [[], []] quoteExSc rfl rfl rfl
    (by decide) (by decide) (by decide) (by decide) ⟨"> x".toList, rfl, by decide⟩ (by decide) rfl (by decide +kernel)
    (by decide +kernel) (Or.inr ⟨'n', "ext\n".toList, rfl, by decide, by decide⟩) (by decide +kernel) child hchild

/-- … and the child parse of that instance succeeds -/
example : (parse (ofRuleCfg cfg_only_spoiler) (parseMethod (ofRuleCfg cfg_only_spoiler) 2)
    ((({ BlockState.root exQuoteDoc with cursor := 24 } : BlockState).appendToken (tok "blank_line" [])).childState
      "foo  bar\n\n> x\n".toList) (some (ofRuleCfg cfg_only_spoiler).quoteRules)).toBool = true := by decide +kernel

end Examples

/-! ### axioms of the headline theorems -/

#print axioms md_block_quote_lines
#print axioms md_block_quote_lines_last
#print axioms indentAll_lines
#print axioms blockQuoteRule_matchAt_hit
#print axioms quoteBreakSc_ok
#print axioms md_block_quote_extract
#print axioms md_block_quote_roundtrip
#print axioms quoteRules_ok
#print axioms md_block_quote_step
#print axioms reqMarker_false_of_first
#print axioms quoteReqSc_gt_ok
#print axioms md_block_quote_extract_eos
#print axioms md_block_quote_step_eos
#print axioms md_quote_only_parse
#print axioms md_block_quote_nested
#print axioms parseBlockSpoiler_eq_quote
#print axioms parseMethod_quote
#print axioms notSpoiler_of_first
#print axioms spoilerMatch_gt_ok
#print axioms notSpoiler_gt
#print axioms spoilerActive_cfgs

end Mistune
