"""Writes MANIFEST.json from the registry below (kept in one place so it stays valid)."""
import json, os
VERIF = os.path.dirname(os.path.dirname(os.path.abspath(__file__)))
ALL = ["C%02d" % i for i in range(1, 19)]

CLAIMS = {
    "C12": dict(cat="proof", design="§7 C12", technique="Lean 4 theorems about the reference-table machine (first definition wins for every definition sequence) + C18 unikey theorems + hook-based replay of the real parser's definition events; placement by metamorphic oracle",
                text="Proved (Lean kernel, every sequence of definitions): a key resolves to the data of its FIRST definition, later definitions never change an existing resolution, undefined keys resolve to nothing; labels are case / white-space-run insensitive by the unikey theorems of C18 over CPython's full tables. Tie: every consumed definition reported by the MISTUNE_VERIF hook (stored or ignored duplicate, at any nesting) replayed through the machine reproduces the real env['ref_links'], and every reference-style link token carries the machine's resolution. That a definition LINE is recognised equally at top, bottom, middle, in a quote, list item, quote-in-list and at the nesting limit (6 deep, pure and alternating), that duplicates do not leak url or title, and that undefined labels stay literal is the metamorphic oracle on the implementation (tested).",
                note="Partial: placement invariance of the definition syntax and the block-pass order of nested definitions are observed/tested, not proved. Trusted: Lean kernel; hook (add-only, guarded)."),
    "C09": dict(cat="proof", design="§7 C09", technique="Lean 4 scanner-level theorems (no rule can start inside a chunk claimed by the speedup text rule; lazy-repeat priority lemma) + kernel-decided obligations on the regenerated rule tables; HTML equality by differential oracle",
                text="Proved (Lean kernel, any subject, any rule table): the lazy text rule `[\\s\\S]+?(?=…)` stops at the FIRST position where its look-ahead holds; a rule whose finite first-character set is inside the stop set cannot match at a non-stop character; hence no such rule can start strictly inside a claimed chunk. Kernel-decided on every run against the regenerated tables of all named configurations: the text regex has that shape, every inline rule other than line breaks/url_link starts only with stop characters, the block fast path is line-anchored, contains at most one newline and no later rule can start with a character it accepts. Byte-equality of the HTML (with speedup registered last, incl. mistune.html and hard_wrap) is the differential oracle on the implementation, not yet a theorem.",
                note="Partial: theorems are at the scanner level; handler/rendering equivalence (HARD_LINEBREAK_RE.sub vs soft breaks, add_paragraph vs holes) is tested. Claim is for speedup registered after the other plugins. Trusted: Lean kernel, regex conformance tie, generator reach."),
    "C10": dict(cat="proof", design="§7 C10", technique="Lean 4 theorem: a rule needing an absent character never changes scanner results (from matcher soundness + verified `needs` analysis); trigger sets computed from regenerated regexes; HTML equality by differential oracle",
                text="Proved (Lean kernel, any subject, any rule tables, any insertion position): adding a rule one of whose needed characters does not occur in the subject leaves every scanner search result unchanged. The needed characters of every plugin rule are computed by the verified analysis from the regex regenerated from the working tree; a kernel-decided obligation checks every plugin rule has one. The consequence for the HTML (plugin P on top of any subset/order of other plugins, trigger-free document) is evaluated by the differential oracle; inertness of replaced handlers and hooks is tested, not proved.",
                note="Partial: scanner-level theorem; handler replacements/hooks (spoiler, fenced directive, task_lists, abbr) and closure of child sources under the parent's alphabet are tested. Trusted: Lean kernel, regex conformance tie."),
    "C01": dict(cat="proof", design="§7 C01", technique="Lean 4: soundness of a CPython-semantics regex matcher + generic termination/progress theorems for the two scanner loops, with kernel-decided obligations on rule tables regenerated from the working tree; ties: regex conformance, loop-trace replay, handler-contract monitoring; guarded-process oracle",
                text="Proved (Lean kernel, all subjects / all rule tables / all handler tables): the backtracking matcher is sound w.r.t. a declarative match relation; every match is at least minLen long; with rules that consume a character and handlers satisfying the progress contract, BlockParser.parse and InlineParser.parse terminate normally with strictly increasing cursor in at most |src| iterations. Kernel-decided on data regenerated from the working tree on every run: every rule of every named configuration has minLen >= 1, no regex anywhere has a nullable repeat body, every pattern was translated. Ties checked every run: engine vs re on every pattern (span + groups), the real loops' iterations replayed through the model loops, the progress contract monitored on every real handler call. NOT proved (tested): the contract of each concrete handler, the recursion-depth bound, renderer totality — covered by the oracle: documents, noise and nesting pumps under the configuration space in guarded worker processes.",
                note="Trusted: Lean kernel + standard axioms; CPython re termination per call; extractor (re._parser based) re-validated behaviourally; generator reach. Partial: handler contracts and nesting bound are monitored/tested, not theorems."),
    "C08": dict(cat="proof", design="§7 C08", technique="Lean 4 theorems (history induction; interleaving invariant) about a model in which only coherent compile caches persist + state-footprint correspondence on the real object graph + history/thread differential against a pristine interpreter",
                text="Theorems (Lean kernel): modelling a conversion as a program over the compile caches, for EVERY history on one converter each output equals the one-shot output, and for EVERY schedule of the atomic dictionary reads/writes of any number of concurrent conversions each finished thread returned its one-shot result (and a scheduled thread finishes). The abstraction 'only the scanner caches, _cached_modules and __cached_parsers persist, each entry being what its key compiles to' is checked, not assumed: a deep snapshot of everything reachable from the converter and from the mistune modules' globals (function defaults, closures, class attributes included) is compared before/after real calls. The property itself is evaluated on histories (reference links, footnotes, abbreviations, TOC ids, RST image counters, deep nesting) against a fork()ed pristine interpreter, on mistune.html and markdown() caches, and on 8-thread runs with a 1 µs switch interval.",
                note="Trusted: Lean kernel + standard axioms; the action alphabet (dict get/set atomic under the GIL) — real preemption is covered only by the threaded runs; objects unreachable from the converter or mistune module globals are outside the footprint."),
    "C14": dict(cat="proof", design="§7 C14", technique="Lean 4 theorems about the footnote numbering machine for all definition sets and reference sequences + replay of the real handler's call log through the model",
                text="Theorems (Lean kernel) for ALL definition sets and reference sequences: emitted notes are the distinct defined referenced keys in order of first reference, duplicate-free; every reference occurrence becomes a footnote_ref iff defined and carries the final number of its note (repeats reuse it); every emitted note is referenced; items are numbered 1..n. Tied to the code by replaying the exact call sequence of parse_inline_footnote on generated documents through the model (indices, final notes, section items). The HTML-level bijection (ids/hrefs, one section, after the body, AST carries the same notes) is evaluated on the implementation.",
                note="Trusted: Lean kernel + standard axioms; that the handler is called in document order and sees the complete definition table is observed in the call log, not proved; HTML template shapes of footnote_ref/footnote_item are matched by regex in the oracle."),
    "C17": dict(cat="proof", design="§7 C17", technique="Lean 4 theorems about a model of __main__.cli for every conversion function and flag combination + real-subprocess correspondence over the flag x channel product",
                text="Theorems (Lean kernel), for every conversion function, flag combination, file system and non-empty content: stdout = library text + newline; -o file = library text unchanged; -m, -f and stdin agree; each flag reaches the documented create_markdown argument; default plugin list iff no -p. Tied to the code by running the real `python -m mistune` over {escape}x{hardwrap}x{html,markdown,rst}x plugin sets x{-m,-f,stdin}x{stdout,-o} (sampled in quick, complete in thorough) and comparing with the model's prescribed outcome executed with the real library (exit status and exceptions included).",
                note="Trusted: Lean kernel + standard axioms; argparse; UTF-8 locale fixed (PYTHONUTF8=1); the library's conversion is a parameter of the theorems."),
    "C15": dict(cat="proof", design="§7 C15", technique="Lean 4 theorem (invariant over the fold) about a model of render_toc_ul for all level lists + string-exact correspondence; hook/directive clauses tested",
                text="Theorem toc_wf (Lean kernel): for EVERY list of levels (any naturals, any length, any jumps) the output of the model of render_toc_ul passes a content-model checker with nothing left open, contains each entry exactly once in order, and nests each entry under exactly the chain of closest preceding strictly shallower entries. Tied to the code by string-exact comparison on all level sequences up to length 5/6 over 1..6 plus long random walks. The hook/directive clauses (unique ids in document order, selection by level range, entry text) are evaluated on the implementation against an independent computation from the token list (tested, not proved).",
                note="Trusted: Lean kernel + propext/Quot.sound; the abstraction of each <a> entry to an item event; html.parser as independent nesting oracle. Entry texts are compared modulo surrounding ASCII whitespace (a setext heading's TOC entry carries a trailing newline)."),
    "C16": dict(cat="proof", design="§7 C16", technique="Lean 4 theorems about the normalisation function for all strings + model/implementation correspondence on state.src",
                text="Theorems (Lean kernel) for ALL strings: rewriting every line ending as CRLF / CR / LF, or supplying the missing final newline, leaves the normalised source unchanged; norm \"\" = \"\\n\" (= what None maps to). Tied to the code by comparing the real parser's state.src with the model on exhaustive short strings and random documents; the property itself is also evaluated on the implementation over 12+ configurations.",
                note="Trusted: Lean kernel + propext/Classical.choice/Quot.sound; that everything after the first four statements of Markdown.parse reads only state.src (sampled by the behavioural oracle); CPython str.replace/endswith semantics as modelled."),
    "C18": dict(cat="proof", design="§7 C18", technique="Lean 4 theorems about a model of util.py for all strings (kernel-checked table obligations for Unicode) + exact output correspondence",
                text="Theorems (Lean kernel) for ALL strings: escape never emits < > (\" when quoting) and decodes back to its input; the quote layer of escape_url emits only URL-safe ASCII, leaves %HH alone and is idempotent; safe_entity has no raw specials for any decoder; unikey is idempotent, whitespace-run and case insensitive (CPython's full Unicode tables, decide +kernel). Tied to mistune.util by exact output comparison on all strings up to length 3/4 over a 20-char special alphabet plus random Unicode.",
                note="Trusted: Lean kernel + the three standard axioms; html._replace_charref (unescape) is a parameter of the theorems, its composition is checked; Lean Char excludes lone surrogates (escape_url raises on them)."),
}


def main():
    checks = []
    for pid in ALL:
        if pid not in CLAIMS:
            continue
        c = CLAIMS[pid]
        checks.append({
            "property_id": pid,
            "quick_cmd": "./check %s --tier quick" % pid,
            "thorough_cmd": "./check %s --tier thorough" % pid,
            "evidence_file": "evidence/%s.json" % pid,
            "replay_cmd_template": "./check %s --replay {path}" % pid,
            "engine": "lean-model+correspondence",
            "level_claimed": {"category": c["cat"], "text": c["text"], "design_ref": c["design"]},
            "level_note": c["note"],
            "technique": c["technique"],
        })
    na = [{"property_id": p, "reason": "check not built yet in this round (planned, see DESIGN.md §11); not claimed until its machinery exists"}
          for p in ALL if p not in CLAIMS]
    m = {
        "version": 1,
        "setup_cmd": "./check --setup",
        "hooks": {"guard": "MISTUNE_VERIF", "enable": "MISTUNE_VERIF=1 in the environment (set by ./check); sources are imported from /repo/src, never from an installed copy",
                  "baseline_off_cmd": "cd /repo && env -u MISTUNE_VERIF /venv/bin/python -m pytest -q -p no:cacheprovider",
                  "source_commits": ["dfa6078"], "add_only": True},
        "engines": [{"name": "lean-model+correspondence", "path": "lean/ + harness/",
                     "serves_properties": sorted(CLAIMS), "kind_free_text": "Lean 4 model and theorems (lake build, #print axioms audit), data regenerated from the working tree by harness/extract.py, compiled model driver compared with the implementation in-process"}],
        "checks": checks,
        "not_applicable": na,
        "notes": "All checks: ./check <ID> [--tier quick|thorough]; exit 0 held, 1 VIOLATION, 2 infrastructure error. Known findings in known_findings.json.",
    }
    with open(os.path.join(VERIF, "MANIFEST.json"), "w") as f:
        json.dump(m, f, indent=1)


if __name__ == "__main__":
    main()
