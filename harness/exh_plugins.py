r"""Exhaustive small-alphabet inputs for the plugin handlers of the concrete model (inline kind, and doc kind for the block rules).

  exh_plugins.py [--cfg only-strikethrough] [--maxlen 6]
  exh_plugins.py --cfg only-ruby --unicode 5000 [--seed 1]
Every string over the configuration's alphabet up to the given length is compared (Lean model vs implementation); with
--unicode N: N random strings of alphabet items mixed with random characters of gen.UNI_RANGES (character classes \w, \s, \S
of the plugins' patterns on non-ASCII letters, digits and blanks)."""
import sys, os, argparse, itertools, random
HERE = os.path.dirname(os.path.abspath(__file__))
sys.path.insert(0, HERE)
import corr_model as cm, gen, common

ALPH = {
    "only-strikethrough": ("inline", ["~", "a", " ", "\\", "*", "\n"]),
    "only-mark": ("inline", ["=", "a", " ", "\\", "`", "\n"]),
    "only-insert": ("inline", ["^", "a", " ", "\\", "_", "\n"]),
    "only-superscript": ("inline", ["^", "a", " ", "\\", "*", "\n"]),
    "only-subscript": ("inline", ["~", "a", " ", "\\", "[", "]"]),
    "only-url": ("inline", ["http://", "a", ".", " ", "<", ")", "*", "&amp;"]),
    "only-math": ("doc", ["$", "a", " ", "\n", "\\", "$$\n", "- "]),
    "only-speedup": ("doc", ["a", " ", "\n", "*", "1", "\\", "  \n", "é"]),
    "only-ruby": ("inline", ["[", "]", "(", ")", "a", " ", "[a(b)]", "foo"]),
    "only-spoiler": ("doc", [">!", "!<", "a", " ", "\n", "!", ">", "- "]),
    "all-speedup": ("doc", ["~~", "~", "==", "^^", "^", "$", "http://", "[a(b)]", ">!", "!<", "a", " ", "\n", "\\", "*", "[", "](/u)", "$$\n"]),
}


def main():
    ap = argparse.ArgumentParser()
    ap.add_argument("--cfg", default="only-strikethrough")
    ap.add_argument("--maxlen", type=int, default=6)
    ap.add_argument("--show", type=int, default=5)
    ap.add_argument("--unicode", type=int, default=0)
    ap.add_argument("--seed", type=int, default=1)
    a = ap.parse_args()
    kind, alph = ALPH[a.cfg]
    side = cm.Side(a.cfg)
    if a.unicode:
        rng = random.Random(a.seed)
        docs = []
        while len(docs) < a.unicode:
            d = "".join(rng.choice(alph) if rng.random() < 0.6 else gen.rand_char(rng) for _ in range(rng.randint(1, 14)))
            if not common.has_surrogate(d):
                docs.append(d)
    else:
        docs = ["".join(t) for n in range(a.maxlen + 1) for t in itertools.product(alph, repeat=n)]
    bad = cm.compare(side, kind, docs)
    print("exh %s/%s: %d inputs, %d disagreements" % (kind, a.cfg, len(docs), len(bad)))
    print("    firing counts: %s" % cm.firing_stats(side, kind, docs))
    for s, want, got in bad[: a.show]:
        print("--- input: %r\n    implementation: %s\n    model         : %s" % (s, cm.decode_canon(want), cm.decode_canon(got)))
    return 1 if bad else 0


if __name__ == "__main__":
    sys.exit(main())
