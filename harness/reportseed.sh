#!/bin/bash
# re-port stored seeds over a fix commit of /repo:  harness/reportseed.sh <fix-commit> <seed-id>...
# (apply the stored patch to the parent of the fix, commit, cherry-pick the fix on top; conflicts are left in /tmp/port_<id> for manual resolution)
fix=$1; shift
for s in "$@"; do
  git -C /repo worktree remove --force /tmp/port_$s 2>/dev/null
  git -C /repo worktree add --detach /tmp/port_$s $fix~1 -q || continue
  ( cd /tmp/port_$s && git apply /verif/seeded/$s/patch.diff && git -c user.name=x -c user.email=x@x commit -qam seed &&
    if git -c user.name=x -c user.email=x@x cherry-pick $fix >/dev/null 2>&1; then git diff $fix HEAD > /tmp/port_$s.diff; echo "$s ported: $(wc -l < /tmp/port_$s.diff) lines"; git -C /repo worktree remove --force /tmp/port_$s; else echo "$s CONFLICT in /tmp/port_$s"; fi )
done
