"""Exhaustive small-alphabet block inputs for corr_model (block kind).
  exh_block.py ALPHABET MAXLEN [CFG [KIND]]     (CFG default core, KIND default block)"""
import sys, os, itertools
HERE = os.path.dirname(os.path.abspath(__file__))
sys.path.insert(0, HERE)
import corr_model as cm, common

def main():
    alph = eval(sys.argv[1]); maxlen = int(sys.argv[2])
    cfg = sys.argv[3] if len(sys.argv) > 3 else "core"
    kind = sys.argv[4] if len(sys.argv) > 4 else "block"
    side = cm.Side(cfg)
    docs = ["".join(t) for n in range(maxlen + 1) for t in itertools.product(alph, repeat=n)]
    bad = []
    for i in range(0, len(docs), 20000):
        bad += cm.compare(side, kind, docs[i:i + 20000])
    print("exhaustive %s/%s %r <= %d: %d inputs, %d disagreements" % (kind, cfg, alph, maxlen, len(docs), len(bad)))
    for s, want, got in bad[:5]:
        print("--- input: %r" % s)
        print("    implementation: %s" % cm.decode_canon(want))
        print("    model         : %s" % cm.decode_canon(got))

if __name__ == "__main__":
    main()
