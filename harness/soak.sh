#!/bin/bash
# run every check for several seeds on the unchanged tree; print any non-zero exit (false-alarm hunt)
cd /verif
SEEDS="${@:-1 2 3 4 5}"
for seed in $SEEDS; do
  for p in C01 C02 C03 C04 C05 C06 C07 C08 C09 C10 C11 C12 C13 C14 C15 C16 C17 C18; do
    VERIF_SEED=$seed ./check $p > /tmp/scratch/soak_${p}_$seed.txt 2>&1
    rc=$?
    if [ $rc -ne 0 ]; then echo "seed=$seed $p exit=$rc: $(grep VIOLATION /tmp/scratch/soak_${p}_$seed.txt | head -2 | tr '\n' ' ')"; cp replay/${p}_0.json /tmp/scratch/soakfail_${p}_$seed.json 2>/dev/null; fi
  done
done
echo "soak done"
