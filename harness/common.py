"""Shared machinery of the checks: paths, seeded RNG, Lean build + axiom audit, model driver,
known findings, verdict and evidence writing.  See DESIGN.md §5."""
import os, sys, json, time, random, subprocess, fcntl, re, hashlib, traceback

HERE = os.path.dirname(os.path.abspath(__file__))
VERIF = os.path.dirname(HERE)
LEAN = os.path.join(VERIF, "lean")
REPO = os.environ.get("MISTUNE_REPO", "/repo")
EVID = os.path.join(VERIF, "evidence")
REPLAY = os.path.join(VERIF, "replay")
CORPUS = os.path.join(VERIF, "corpus")
DRIVER = os.path.join(LEAN, ".lake", "build", "bin", "mistune-model")
ALLOWED_AXIOMS = {"propext", "Classical.choice", "Quot.sound"}
FORBIDDEN = re.compile(r"\b(sorry|admit|native_decide|bv_decide|implemented_by|unsafe)\b|^\s*axiom\s|maxHeartbeats\s+0")

TRUSTED_BASE = [
    "Lean 4.33.0 kernel; axioms allowed: propext, Classical.choice, Quot.sound (audited by `#print axioms` on every run)",
    "CPython 3.12 semantics of str/re/html/urllib as described by the model (sampled by the correspondence on every run)",
    "harness/extract.py where its output is not behaviourally re-validated (constants copied verbatim)",
    "the correspondence generator's reach: behaviour on inputs it never produces is tied only by review",
]


class Infra(Exception):
    """The check could not run (toolchain, timeout): exit 2, never a verdict."""


def repo_src():
    return os.path.join(REPO, "src")


def ensure_repo_on_path():
    p = repo_src()
    if p not in sys.path:
        sys.path.insert(0, p)
    os.environ["MISTUNE_VERIF"] = "1"
    import mistune  # noqa
    mp = os.path.realpath(os.path.dirname(mistune.__file__))
    if not mp.startswith(os.path.realpath(p)):
        raise Infra("mistune imported from %s, not from %s" % (mp, p))
    return mistune


# ------------------------------------------------------------------------------------------------
# strings on the line protocol

def enc(s):
    return ",".join(str(ord(c)) for c in s)


def dec(f):
    f = f.strip("\n")
    if not f:
        return ""
    return "".join(chr(int(t)) for t in f.split(","))


def dec_list(f):
    f = f.strip("\n")
    if not f:
        return []
    return [dec(x) for x in f.split("|")]


def has_surrogate(s):
    return any(0xD800 <= ord(c) <= 0xDFFF for c in s)


# ------------------------------------------------------------------------------------------------
# Lean: regenerate, build, audit

class Lock:
    def __init__(self, name="build"):
        os.makedirs(os.path.join(LEAN, ".lake"), exist_ok=True)
        self.path = os.path.join(LEAN, ".lake", name + ".lock")

    def __enter__(self):
        self.f = open(self.path, "w")
        fcntl.flock(self.f, fcntl.LOCK_EX)
        return self

    def __exit__(self, *a):
        fcntl.flock(self.f, fcntl.LOCK_UN)
        self.f.close()


def run(cmd, cwd=None, timeout=3000, input=None, env=None):
    e = dict(os.environ)
    if env:
        e.update(env)
    try:
        p = subprocess.run(cmd, cwd=cwd, input=input, capture_output=True, text=True, timeout=timeout, env=e)
    except subprocess.TimeoutExpired:
        raise Infra("timeout: %s" % (cmd,))
    except FileNotFoundError as ex:
        raise Infra(str(ex))
    return p.returncode, p.stdout + p.stderr


_build_cache = {}


def lean_build(targets=None):
    """Regenerate Generated/* from the working tree, then `lake build`.  Returns (ok, log, failed_modules)."""
    key = tuple(targets or ())
    if key in _build_cache:
        return _build_cache[key]
    import extract
    with Lock():
        changed = extract.main()
        cmd = ["lake", "build"] + list(targets or [])
        rc, out = run(cmd, cwd=LEAN, timeout=3400)
    failed = re.findall(r"^- (\S+)", out, flags=re.M)
    errs = re.findall(r"^error: (\S+?\.lean):(\d+):(\d+): (.*)$", out, flags=re.M)
    res = (rc == 0, out, {"failed_modules": failed, "errors": errs[:20], "regenerated": changed})
    _build_cache[key] = res
    return res


def source_scan():
    """No sorry/admit/axiom/native_decide/... outside comments in the Lean sources."""
    hits = []
    for root, _, files in os.walk(LEAN):
        if ".lake" in root:
            continue
        for fn in files:
            if not fn.endswith(".lean"):
                continue
            path = os.path.join(root, fn)
            txt = open(path, encoding="utf-8").read()
            # strip block comments and line comments
            txt2 = re.sub(r"/-.*?-/", lambda m: "\n" * m.group(0).count("\n"), txt, flags=re.S)
            for i, line in enumerate(txt2.split("\n"), 1):
                line = line.split("--")[0]
                if FORBIDDEN.search(line):
                    hits.append("%s:%d: %s" % (os.path.relpath(path, LEAN), i, line.strip()[:100]))
    return hits


def audit_axioms(theorems, tag, modules=None):
    """`#print axioms` for every named theorem.  Returns dict name -> list of axioms (or None if missing)."""
    path = os.path.join(LEAN, ".lake", "audit_%s.lean" % tag)
    with open(path, "w") as f:
        f.write("".join("import %s\n" % m for m in (modules or ["MistuneProofs"])))
        for t in theorems:
            f.write("#print axioms %s\n" % t)
    rc, out = run(["lake", "env", "lean", path], cwd=LEAN, timeout=1200)
    res = {}
    for t in theorems:
        m = re.search(r"'%s' depends on axioms: \[([^\]]*)\]" % re.escape(t), out)
        if m:
            res[t] = [a.strip() for a in m.group(1).replace("\n", " ").split(",") if a.strip()]
        elif re.search(r"'%s' does not depend on any axioms" % re.escape(t), out):
            res[t] = []
        else:
            res[t] = None
    return res, out


_DECL = r"^\s*(?:@\[[^\]]*\]\s*)*(?:private\s+|protected\s+|noncomputable\s+)*(?:theorem|lemma|def|abbrev|instance)\s+(?:Mistune\.)?%s(?![\w'.])"


def lean_sources():
    out = {}
    for root, _, files in os.walk(LEAN):
        if ".lake" in root:
            continue
        for fn in files:
            if fn.endswith(".lean"):
                path = os.path.join(root, fn)
                mod = os.path.relpath(path, LEAN)[:-5].replace(os.sep, ".")
                out[mod] = open(path, encoding="utf-8").read()
    return out


def theorem_modules(theorems, srcs=None):
    """module of every named theorem (None when it cannot be located)"""
    srcs = srcs or lean_sources()
    res = {}
    for t in theorems:
        short = t.split(".", 1)[1] if t.startswith("Mistune.") else t
        rx = re.compile(_DECL % re.escape(short), re.M)
        hit = [m for m, txt in srcs.items() if m.startswith("MistuneProofs") and rx.search(txt)] or [m for m, txt in srcs.items() if rx.search(txt)]
        if not hit and "." in short:
            # declared inside nested namespaces (`Mistune.Model.Blk.parseMethod_progress` is `theorem parseMethod_progress` in `namespace Blk`)
            parts = short.split(".")
            rx2 = re.compile(_DECL % re.escape(parts[-1]), re.M)
            hit = [m for m, txt in srcs.items() if m.startswith("MistuneProofs") and rx2.search(txt) and all(re.search(r"^namespace\s+(?:\S+\.)?%s\b" % re.escape(p), txt, re.M) for p in parts[:-1])]
        res[t] = hit[0] if hit else None
    return res


def import_closure(mods, srcs=None):
    srcs = srcs or lean_sources()
    seen, todo = set(), [m for m in mods if m]
    while todo:
        m = todo.pop()
        if m in seen or m not in srcs:
            continue
        seen.add(m)
        todo += re.findall(r"^import\s+(\S+)", srcs[m], flags=re.M)
    return seen


def proof_stage(ctx, theorems, targets=None):
    """Build + scan + audit.  Records obligations/discharged; returns list of broken items (strings).
    A build failure counts for this property only when it is in a module the property's theorems are stated in or import (their
    import closure, which contains the model and the regenerated data they use): an obligation of another property that stops
    checking is that property's violation, not this one's."""
    broken = []
    ok, log, info = lean_build(targets)
    srcs = lean_sources()
    tmods = theorem_modules(theorems, srcs)
    closure = import_closure(set(tmods.values()), srcs) if all(tmods.values()) else None
    if not ok:
        rel = []
        for e in info["errors"]:
            mod = e[0][:-5].replace("/", ".").lstrip(".")
            if closure is None or mod in closure or mod not in srcs:
                rel.append("lean-build: %s:%s: %s" % (e[0], e[1], e[3][:200]))
        failed_rel = [m for m in info["failed_modules"] if closure is None or m in closure or m not in srcs]
        if rel or (failed_rel and not info["errors"]) or not (info["errors"] or info["failed_modules"]):
            broken += rel or ["lean-build failed: " + log[-400:]]
        else:
            ctx.notes.append("lean build fails in modules this property does not depend on (%s): reported by the properties that do" % ", ".join(sorted(set(e[0] for e in info["errors"]))[:4]))
            ok = True
    hits = source_scan()
    for h in hits:
        broken.append("forbidden-token: " + h)
    axioms = {}
    if ok:
        axioms, out = audit_axioms(theorems, ctx.prop, sorted(set(tmods.values())) if all(tmods.values()) else None)
        for t, ax in axioms.items():
            if ax is None:
                broken.append("theorem-missing: " + t)
            elif not set(ax) <= ALLOWED_AXIOMS:
                broken.append("axioms: %s uses %s" % (t, sorted(set(ax) - ALLOWED_AXIOMS)))
    if ok and ctx.tier == "thorough" and all(tmods.values()):
        # independent re-check of the compiled modules that state this property's theorems (and, by replay, of what they import)
        mods = sorted(set(tmods.values()))
        rc, out = run(["lake", "env", "leanchecker"] + mods, cwd=LEAN, timeout=3000)
        ctx.cov["leanchecker"] = {"modules": mods, "exit": rc, "tail": out[-300:]}
        if rc != 0:
            broken.append("leanchecker rejects %s: %s" % (", ".join(mods), out[-300:]))
    n = len(theorems)
    good = sum(1 for t in theorems if axioms.get(t) is not None and set(axioms[t]) <= ALLOWED_AXIOMS) if ok and not hits else 0
    ctx.cov["obligations"] = ctx.cov.get("obligations", 0) + n
    ctx.cov["discharged"] = ctx.cov.get("discharged", 0) + good
    ctx.cov["checker_cmd"] = "cd lean && lake build && lake env lean .lake/audit_%s.lean  # #print axioms of every listed theorem" % ctx.prop
    ctx.cov["theorems"] = {t: axioms.get(t) for t in theorems}
    ctx.cov["regenerated"] = info.get("regenerated")
    return broken


class Driver:
    """Batch access to the compiled Lean model."""

    def __init__(self):
        if not os.path.exists(DRIVER):
            ok, log, info = lean_build()
            if not os.path.exists(DRIVER):
                raise Infra("model driver not built: " + log[-500:])

    def batch(self, requests):
        """requests: list of tuples (op, field, field, …) with fields already encoded. Returns list of reply lines."""
        if not requests:
            return []
        data = "".join("\t".join(r) + "\n" for r in requests)
        rc, out = run([DRIVER], input=data, timeout=1800)
        lines = out.split("\n")
        if lines and lines[-1] == "":
            lines.pop()
        if rc != 0 or len(lines) != len(requests):
            raise Infra("driver failed rc=%s replies=%d/%d tail=%r" % (rc, len(lines), len(requests), out[-300:]))
        return lines


PLUGIN_MODEL_CFGS = ["only-table", "only-footnotes", "only-task_lists", "only-def_list", "only-abbr", "only-strikethrough", "only-mark", "only-insert", "only-superscript",
                     "only-subscript", "only-url", "only-math", "only-ruby", "only-spoiler", "only-speedup", "preset", "all", "all-speedup", "all-noescape-hardwrap",
                     # both directive syntaxes (and the custom fence marker) with every plugin
                     "all-rst", "all-fenced", "all-fenced-colon"]


def plugin_model_tie(ctx, n_each, cfgs=None, extra_docs=None):
    """Correspondence of the concrete Lean parser model on the PLUGIN configurations (every plugin of mistune is transcribed: block handlers,
    inline handlers, hooks; only directives and the TOC hook are not): documents made of the plugins' own syntax (corr_model.inputs mixes
    gen.md_plugins / gen.md_inline_plugins with the stock generators according to the configuration), full token trees of md(s) with renderer=None."""
    import corr_model
    total = 0
    names = list(cfgs or PLUGIN_MODEL_CFGS)
    if ctx.quick() and cfgs is None:
        # every run: the shipped preset and the all-plugins pair, plus a seeded half of the single-plugin configurations
        rest = [n for n in names if n not in ("preset", "all", "all-speedup")]
        ctx.rng.shuffle(rest)
        names = ["preset", "all", "all-speedup", "all-rst", "all-fenced", "all-fenced-colon"] + [n for n in rest if not n.startswith(("all-rst", "all-fenced"))][:8]
    for name in names:
        side = corr_model.Side(name)
        docs = corr_model.inputs("doc", ctx.rng, n_each, 500, side.plugins, directives=getattr(side, "directives", None))
        if extra_docs:
            for p in side.plugins:
                docs += list(extra_docs.get(p, []))
        total += model_tie(ctx, docs, name, "doc")
    ctx.cov["model_plugin_configurations"] = sorted(set(ctx.cov.get("model_plugin_configurations", [])) | set(names))
    return total


# ------------------------------------------------------------------------------------------------
# known findings

def load_known():
    p = os.path.join(VERIF, "known_findings.json")
    try:
        with open(p) as f:
            return json.load(f)
    except FileNotFoundError:
        return {"findings": [], "fixed": []}


# ------------------------------------------------------------------------------------------------
# context / verdict

class Ctx:
    def __init__(self, prop, tier, seed, level):
        self.prop, self.tier, self.seed, self.level = prop, tier, seed, level
        self.rng = random.Random(seed * 1000003 + int(hashlib.sha1(prop.encode()).hexdigest()[:6], 16))
        self.t0 = time.time()
        self.cov = {}
        self.assumptions = []
        self.failures = []   # concrete failing inputs: dict(signature=…, what=…, replay={…})
        self.broken = []     # proof obligations / ties that no longer check (strings)
        self.known = [k for k in load_known()["findings"] if k["property"] == prop]
        self.notes = []

    def quick(self):
        return self.tier == "quick"

    def fail(self, signature, what, replay):
        self.failures.append({"signature": signature, "what": what, "replay": replay})

    def is_known(self, signature):
        for k in self.known:
            if re.fullmatch(k["signature"], signature):
                return k
        return None


def write_json(path, obj):
    os.makedirs(os.path.dirname(path), exist_ok=True)
    tmp = path + ".tmp%d" % os.getpid()
    with open(tmp, "w") as f:
        json.dump(obj, f, indent=1, ensure_ascii=True, default=str)
    os.replace(tmp, path)


def finish(ctx):
    """Print KNOWN-FINDING / VIOLATION lines, write evidence, return exit code."""
    unknown, seen_known = [], {}
    for f in ctx.failures:
        k = ctx.is_known(f["signature"])
        if k is not None:
            seen_known.setdefault(k["signature"], (k, f))
        else:
            unknown.append(f)
    for sig, (k, f) in seen_known.items():
        print("KNOWN-FINDING: property=%s %s" % (ctx.prop, k["what"]))
    rc = 0
    nviol = 0
    import glob
    for old in glob.glob(os.path.join(REPLAY, "%s_*.json" % ctx.prop)):
        try:
            os.remove(old)
        except OSError:
            pass
    if unknown:
        by_sig = {}
        for f in unknown:
            by_sig.setdefault(f["signature"], f)
        for i, (sig, f) in enumerate(sorted(by_sig.items())):
            path = os.path.join(REPLAY, "%s_%d.json" % (ctx.prop, i))
            write_json(path, {"property": ctx.prop, "signature": sig, "what": f["what"], "replay": f["replay"],
                              "broken_obligations": ctx.broken, "seed": ctx.seed, "tier": ctx.tier})
            print("VIOLATION property=%s replay=%s" % (ctx.prop, os.path.relpath(path, VERIF)))
            nviol += 1
        rc = 1
    elif ctx.broken:
        path = os.path.join(REPLAY, "%s_unproved.json" % ctx.prop)
        write_json(path, {"property": ctx.prop, "no_failing_input_found": True,
                          "no_longer_checks": ctx.broken, "seed": ctx.seed, "tier": ctx.tier,
                          "note": "a proof obligation or the model/implementation tie broke and the failing-input "
                                  "search found no concrete counterexample; the property is no longer shown to hold"})
        print("VIOLATION property=%s replay=%s no-failing-input-found" % (ctx.prop, os.path.relpath(path, VERIF)))
        nviol = 1
        rc = 1
    cov = dict(ctx.cov)
    cov.setdefault("trusted_base", TRUSTED_BASE)
    cov["known_findings_reproduced"] = sorted(seen_known)
    cov["broken"] = ctx.broken
    if ctx.notes:
        cov["notes"] = ctx.notes
    ev = {"property_id": ctx.prop, "tier": ctx.tier, "seed": ctx.seed, "level": ctx.level, "coverage": cov,
          "assumptions": ctx.assumptions, "wall_s": round(time.time() - ctx.t0, 2), "violations": nviol}
    write_json(os.path.join(EVID, "%s.json" % ctx.prop), ev)
    return rc


def sample(xs, k):
    xs = list(xs)
    return xs[:k]


class Pristine:
    """Client of harness/pristine.py (fresh interpreter state per request)."""

    def __init__(self):
        env = dict(os.environ)
        env["PYTHONPATH"] = repo_src() + os.pathsep + HERE
        self.p = subprocess.Popen([sys.executable, "-B", os.path.join(HERE, "pristine.py")], stdin=subprocess.PIPE,
                                  stdout=subprocess.PIPE, text=True, env=env)

    def ask(self, kind, doc, call="md", kw=None):
        self.p.stdin.write(json.dumps({"kind": kind, "doc": doc, "call": call, "kw": kw}) + "\n")
        self.p.stdin.flush()
        line = self.p.stdout.readline()
        if not line:
            raise Infra("pristine server died")
        r = json.loads(line)
        if "ok" in r:
            return r["ok"]
        return ["EXC", r["exc"]]

    def close(self):
        try:
            self.p.stdin.close()
            self.p.wait(timeout=10)
        except Exception:
            self.p.kill()


def model_tie(ctx, docs, cfgname="core", kind="doc", limit=None):
    """Concrete-model correspondence: the Lean parser model vs the implementation on the given documents
    (full token trees).  Disagreements break the tie (they are not violations by themselves)."""
    import corr_model
    side = corr_model.Side(cfgname)
    ds = [d for d in docs if not has_surrogate(d) and len(d) <= 600]
    if limit:
        ds = ds[:limit]
    bad = corr_model.compare(side, kind, ds)
    for s, want, got in bad[:3]:
        ctx.broken.append("model-correspondence (%s/%s): on %r the implementation gives %s, the Lean model %s" % (kind, cfgname, s[:80], want[:160], got[:160]))
    ctx.cov["model_docs_compared"] = ctx.cov.get("model_docs_compared", 0) + len(ds)
    ctx.cov["model_disagreements"] = ctx.cov.get("model_disagreements", 0) + len(bad)
    ctx.cov["traces_validated_against_impl"] = ctx.cov.get("traces_validated_against_impl", 0) + len(ds)
    return len(bad)
