"""C08 — conversions are isolated from each other.

Decided by: Lean theorems about the model "a conversion is a program over compile caches" — for every history
and every schedule of atomic cache accesses each conversion returns its one-shot result.  The abstraction
"only compile caches persist, and coherently" is CHECKED on the real object graph: before/after every call
a deep snapshot of everything reachable from the converter and from the mistune modules' globals is taken and
the difference must lie inside the modelled caches with exactly the value the key compiles to.
Plus the property's own oracle: history differential and threaded runs on the implementation."""
import sys, re, types, threading, copy
import common, gen, configs

LEVEL = "proof"
THEOREMS = ["Mistune.run_indep", "Mistune.history_indep", "Mistune.schedule_indep", "Mistune.thread_finishes"]

ALLOWED = re.compile(r"(\._Parser__sc(\[|$)|mistune\.plugins\._cached_modules\[|mistune\.__cached_parsers\[|mistune\.__cached_parsers$|mistune\.plugins\._cached_modules$)")
PRIM = (str, int, float, bool, bytes, type(None), complex)


def summarize(roots, limit=200000):
    """Flatten the object graph reachable from named roots into {path: summary}. Cycles are cut by id."""
    out, seen, stack = {}, {}, [(p, o) for p, o in roots]
    n = 0
    while stack:
        path, o = stack.pop()
        n += 1
        if n > limit:
            raise common.Infra("object graph too large")
        if isinstance(o, PRIM):
            out[path] = ("v", repr(o)[:200]); continue
        if isinstance(o, re.Pattern):
            out[path] = ("re", o.pattern, o.flags); continue
        if isinstance(o, types.ModuleType):
            out[path] = ("module", o.__name__); continue
        oid = id(o)
        if oid in seen:
            out[path] = ("ref", seen[oid]); continue
        seen[oid] = path
        if isinstance(o, dict):
            out[path] = ("dict", len(o))
            for k, v in o.items():
                stack.append(("%s[%r]" % (path, k if isinstance(k, PRIM) else ("key@" + type(k).__name__)), v))
        elif isinstance(o, (list, tuple)):
            out[path] = (type(o).__name__, len(o))
            for i, v in enumerate(o):
                stack.append(("%s[%d]" % (path, i), v))
        elif isinstance(o, (set, frozenset)):
            out[path] = ("set", tuple(sorted(map(repr, o)))[:50])
        elif isinstance(o, (types.FunctionType, types.LambdaType)):
            out[path] = ("fn", getattr(o, "__qualname__", "?"))
            if o.__defaults__:
                stack.append((path + ".__defaults__", o.__defaults__))
            if o.__kwdefaults__:
                stack.append((path + ".__kwdefaults__", o.__kwdefaults__))
            if o.__closure__:
                for i, c in enumerate(o.__closure__):
                    try:
                        stack.append(("%s.<cell %s>" % (path, o.__code__.co_freevars[i]), c.cell_contents))
                    except ValueError:
                        pass
        elif isinstance(o, types.MethodType):
            out[path] = ("method", o.__func__.__qualname__)
            stack.append((path + ".__self__", o.__self__))
        elif isinstance(o, type):
            out[path] = ("class", o.__qualname__)
            if o.__module__ and o.__module__.startswith("mistune"):
                for k, v in vars(o).items():
                    if k.startswith("__") and k.endswith("__"):
                        continue
                    if isinstance(v, (dict, list, set, tuple) + PRIM) or isinstance(v, re.Pattern):
                        stack.append(("%s.%s" % (path, k), v))
        elif hasattr(o, "__dict__") and type(o).__module__.startswith("mistune"):
            out[path] = ("obj", type(o).__qualname__)
            for k, v in vars(o).items():
                stack.append(("%s.%s" % (path, k), v))
            stack.append((path + ".<class>", type(o)))
        else:
            out[path] = ("other", type(o).__name__)
    return out


def module_roots():
    roots = []
    for name, mod in sorted(sys.modules.items()):
        if name == "mistune" or name.startswith("mistune."):
            for k, v in vars(mod).items():
                if k.startswith("__") and k.endswith("__"):
                    continue
                if isinstance(v, types.ModuleType):
                    continue
                roots.append(("%s.%s" % (name, k), v))
    return roots


def sc_coherent(md):
    """every scanner-cache entry equals what its key compiles to"""
    bad = []
    for pname, parser in (("block", md.block), ("inline", md.inline)):
        sc = parser._Parser__sc
        for key, pat in sc.items():
            rules = parser.rules if key == "$" else key.split("|")
            try:
                regex = "|".join(r"(?P<%s>%s)" % (k, parser.specification[k]) for k in rules)
            except KeyError as e:
                bad.append("%s cache key %r names an unknown rule %s" % (pname, key, e)); continue
            exp = re.compile(regex, parser.sc_flag)
            if pat.pattern != exp.pattern or pat.flags != exp.flags:
                bad.append("%s cache entry %r is not what its key compiles to" % (pname, key))
    return bad


def footprint(ctx, mds, docs, per_doc=None):
    n = 0
    names = sorted(mds)
    plan = []
    for doc in docs:
        for nm in (names if per_doc is None else ctx.rng.sample(names, min(per_doc, len(names)))):
            plan.append((nm, doc))
    if True:
        for nm, doc in plan:
            md = mds[nm]
            before = summarize([("md", md)] + module_roots())
            try:
                md(doc)
            except RecursionError:
                continue
            except Exception:
                continue
            after = summarize([("md", md)] + module_roots())
            n += 1
            diff = [p for p in set(before) | set(after) if before.get(p) != after.get(p)]
            illegal = [p for p in diff if not ALLOWED.search(p)]
            if illegal:
                ctx.broken.append("footprint: converting %r on %s changed persistent state outside the modelled caches: %s" % (doc[:60], nm, sorted(illegal)[:4]))
                return n
            bad = sc_coherent(md)
            if bad:
                ctx.broken.append("footprint: incoherent cache after %r on %s: %s" % (doc[:60], nm, bad[:2]))
                return n
    return n


# ---------------------------------------------------------------- histories
DEFS = ["[foo]: /url-{i} 'T{i}'\n", "[^n]: note {i}\n", "*[HTML]: Hyper {i}\n", "# Heading {i}\n", "![img{i}](/i{i}.png)\n",
        "[Foo]: </other{i}>\n", "> [foo]: /quoted{i}\n", "- [foo]: /listed{i}\n", "[^n]: other\n\n    more {i}\n", "Title {i}\n=====\n",
        ".. toc::\n\n# In toc {i}\n", "```{toc}\n```\n\n## T {i}\n", "term {i}\n: def\n", "| h |\n|---|\n| [foo] |\n",
        ".. toc::\n\nSetext {i}\n=====\n\nSub {i}\n-----\n", "```{toc}\n```\n\nSetext {i}\n=====\n", "Setext only {i}\n-----\n\n# Atx {i}\n",
        "> > > > > > > deep quote {i}\n", "- - - - - - - deep list {i}\n", "> - > - > - > - mixed {i}\n", "1. 1. 1. 1. 1. 1. 1. deep ordered {i}\n",
        ">! >! >! >! >! >! >! spoiler {i}\n", "> > > > > > > [foo]: /deep{i}\n", "```{note} T\n```{note} U\n```{note} V\ninner {i}\n```\n```\n```\n",
        "*a **b *c **d *e {i}* f** g* h** i*\n", "[a [b [c [d {i}](u)](v)](w)](x)\n"]
USES = ["> ```{toc}\n> ```\n\n# Q\n", "- .. toc::\n\n# R\n", "> .. toc::\n\n## S\n", "- ```{toc}\n  ```\n", "<b>raw</b> [j](javascript:x) see https://e.f/x now\n", "a | b\n--|--\n: def\n", "> outer\n>\n> > inner quote\n", "- a\n  - b\n    - c\n", "Setext use\n=====\n\nSecond\n-----\n", "> - x\n>   > y\n",
        "see [foo] and [foo][] and [x][foo]\n", "ref[^n] again[^n]\n", "The HTML spec\n", "# Another\n\n## Sub\n", "![other](/o.png) ![b](/p.png)\n",
        "plain paragraph\n", "> [foo]\n", "[^n]\n\n[FOO]\n", "- [foo]\n- ![a](/z)\n", "text with HTML and [foo]\n"]


def histories(ctx, k):
    out = []
    for i in range(k):
        h = []
        for j in range(ctx.rng.randint(2, 6)):
            r = ctx.rng.random()
            if r < 0.45:
                d = ctx.rng.choice(DEFS).replace("{i}", str(ctx.rng.randint(1, 99)))
                if ctx.rng.random() < 0.5:
                    d += "\n" + ctx.rng.choice(USES)
            elif r < 0.85:
                d = ctx.rng.choice(USES)
            elif r < 0.89:
                # the same set of definitions in another ORDER (and, half of the time, other data): whatever is remembered under the *set*
                # of keys shows here -- prefix-related abbreviation keys, duplicate reference labels, footnote keys
                keys = ctx.rng.choice([["HTML", "HTML5"], ["W3", "W3C", "W"], ["a b", "a"], ["CSS", "CS"]])
                ks = list(keys); ctx.rng.shuffle(ks)
                tag = ctx.rng.choice(["one", "two"])
                kind = ctx.rng.choice(["abbr", "abbr", "ref", "fn"])
                body = " ".join(keys[::-1]) + " and " + keys[-1] + keys[0]
                if kind == "abbr":
                    d = "\n".join("*[%s]: %s %s" % (k, k.lower(), tag) for k in ks) + "\n\nuse " + body + " " + "".join(keys)
                elif kind == "ref":
                    d = "\n".join("[%s]: /%s-%s" % (k, k.replace(" ", "_"), tag) for k in ks) + "\n\nuse " + " ".join("[%s]" % k for k in keys)
                else:
                    d = "use " + " ".join("[^%s]" % k.replace(" ", "") for k in keys) + "\n\n" + "\n".join("[^%s]: note %s %s" % (k.replace(" ", ""), k, tag) for k in ks)
            elif r < 0.93:
                d = gen.md_doc(ctx.rng, 5)
            elif r < 0.97 and h:
                # an earlier document of this history again, in another letter case (anything remembered under a case-folded / normalised key shows here)
                d = ctx.rng.choice([str.lower, str.upper, str.swapcase, str.title])(ctx.rng.choice(h))
            else:
                # the same destinations / labels / info strings in two spellings within one history
                u = ctx.rng.choice(["https://Example.com/Docs/README.html", "/Static/Logo.PNG", "HTTP://E.F/g", "mailto:Me@Ex.Org", "#Frag", "Data:image/PNG;base64,AA"])
                v = ctx.rng.choice([u.lower(), u.upper(), u.swapcase(), u])
                d = ctx.rng.choice(["[x](%s) ![i](%s)", "<%s> and [r]\n\n[r]: %s", "```%s\ncode\n```\n\n[a](%s 'T')", "see %s [b](%s \"t\")"]) % (u, v)
                if ctx.rng.random() < 0.5:
                    d = d.replace(u, v)
            h.append(d)
        out.append(h)
    return out


def converter_kinds():
    import mistune
    from mistune.toc import add_toc_hook
    kinds = {}
    for c in configs.named("quick"):
        kinds[c["name"]] = (lambda c=c: configs.make(c))
    def with_toc():
        md = mistune.create_markdown(plugins=["footnotes", "abbr", "table"])
        add_toc_hook(md)
        return md
    kinds["toc-hook"] = with_toc
    return kinds


def history_oracle(ctx, hs):
    """outputs along a history on reused converters vs the result in a pristine interpreter (fork server), so that
    leaks through module globals are visible too"""
    import mistune
    kinds = converter_kinds()
    n = 0
    shared = {nm: mk() for nm, mk in kinds.items()}
    shared["mistune.html"] = mistune.html
    pr = common.Pristine()
    memo = {}

    def fresh(nm, d, call="md", kw=None):
        key = (nm, d, call, repr(kw))
        if key not in memo:
            memo[key] = pr.ask(nm, d, call, kw)
        return memo[key]
    try:
        for h in hs:
            for nm in ctx.rng.sample(sorted(shared), 4):
                md = shared[nm]
                for i, d in enumerate(h):
                    n += 1
                    try:
                        got = md(d)
                    except RecursionError:
                        got = ["EXC", "RecursionError"]
                    except Exception as e:
                        got = ["EXC", type(e).__name__]
                    exp = fresh(nm, d)
                    if got != exp:
                        ctx.fail("history:" + nm.split("-")[0], "on a reused %s converter, document %d of the history converts differently than in a fresh interpreter" % (nm, i),
                                 {"kind": "history", "config": nm, "history": h[:i + 1], "got": got, "fresh": exp})
                        break
            # mistune.markdown(): cached converters keyed by arguments
            for i, d in enumerate(h):
                for kw in ({}, {"escape": False}, {"renderer": "ast"}, {"plugins": ("table", "footnotes")}, {"plugins": ("footnotes", "table")}, {"plugins": ("speedup", "url")}, {"plugins": ("url", "speedup")},
                           {"plugins": ("table", "def_list")}, {"plugins": ("def_list", "table")}, {"renderer_obj": {"escape": False}}, {"renderer_obj": {"escape": True}},
                           {"renderer_obj": {"escape": True, "allow_harmful_protocols": True}}):
                    n += 1
                    try:
                        if "renderer_obj" in kw:
                            # a renderer OBJECT, built anew for every call (equal classes, different settings)
                            from mistune.renderers.html import HTMLRenderer
                            got = mistune.markdown(d, renderer=HTMLRenderer(**kw["renderer_obj"]))
                        else:
                            got = mistune.markdown(d, **kw)
                    except RecursionError:
                        got = ["EXC", "RecursionError"]
                    except Exception as e:
                        got = ["EXC", type(e).__name__]
                    jkw = {k: (list(v) if isinstance(v, tuple) else v) for k, v in kw.items()}
                    exp = fresh(None, d, "markdown", jkw)
                    if got != exp:
                        ctx.fail("history:markdown()", "mistune.markdown(%r) differs from a fresh interpreter after earlier calls" % (kw,),
                                 {"kind": "markdown()", "history": h[:i + 1], "kw": repr(kw)})
    finally:
        pr.close()
    return n


def include_history(ctx):
    """Markdown.read() on pages that include the same files, on one reused converter vs a fresh converter per page"""
    import mistune, tempfile, shutil, os
    from mistune.directives import FencedDirective, RSTDirective, Include, TableOfContents, Admonition
    n = 0
    tmp = tempfile.mkdtemp(prefix="verif-c08-")
    try:
        def w(name, text):
            with open(os.path.join(tmp, name), "w", encoding="utf-8") as f:
                f.write(text)
        for style in ("rst", "fenced"):
            inc = (lambda f: ".. include:: %s\n\n" % f) if style == "rst" else (lambda f: "```{include} %s\n```\n\n" % f)
            toc = ".. toc::\n\n" if style == "rst" else "```{toc}\n```\n\n"
            w("shared.md", "## Shared notice\n\nsee [the guide][g] and ![logo][logo] and [^n]\n\n### Details\n\ntext *x*\n")
            w("footer.md", "---\n\nfooter [g]\n")
            pages = {
                "a.md": "# Page A\n\n" + inc("shared.md") + "[g]: /a/guide\n[logo]: /a/logo.png\n\n[^n]: note A\n\n" + inc("footer.md"),
                "b.md": toc + "# Page B\n\n" + inc("shared.md") + "middle\n\n" + inc("shared.md") + "[g]: /b/guide 'B'\n[logo]: /b/logo.png\n\n[^n]: note B\n\n" + inc("footer.md"),
                "c.md": "# Page C\n\n" + inc("footer.md") + inc("shared.md"),
            }
            for k, v in pages.items():
                w(k, v)
            D = RSTDirective if style == "rst" else FencedDirective
            mk = lambda: mistune.create_markdown(plugins=["footnotes", "table", D([Include(), TableOfContents(), Admonition()])])
            used = mk()
            for order in (["a.md", "b.md", "c.md", "a.md"], ["c.md", "b.md", "a.md", "b.md"]):
                for pg in order:
                    n += 1
                    def run(md):
                        try:
                            return md.read(os.path.join(tmp, pg))[0]
                        except Exception as e:
                            return "EXC " + type(e).__name__ + ": " + str(e)[:80]
                    got, exp = run(used), run(mk())
                    if got != exp:
                        ctx.fail("history:include", "Markdown.read(%s) on a converter that read other pages before differs from a fresh converter (%s include syntax)" % (pg, style),
                                 {"kind": "include", "style": style, "page": pg, "order": order, "pages": pages, "got": got[:500], "fresh": exp[:500]})
                        break
            # … and two threads on one converter, pages that include each other's parts (chapter includes shared; index includes chapter)
            import threading
            w("chapter.md", "# Chapter\n\n" + inc("shared.md") + "text\n")
            w("index.md", "# Index\n\n" + inc("chapter.md") + inc("footer.md"))
            conv = mk()
            want = {pg: mk().read(os.path.join(tmp, pg))[0] for pg in ("chapter.md", "index.md", "a.md")}
            bad = []
            def work(pg, rounds):
                for _ in range(rounds):
                    try:
                        got = conv.read(os.path.join(tmp, pg))[0]
                    except Exception as e:
                        got = "EXC " + type(e).__name__
                    if got != want[pg] and not bad:
                        bad.append((pg, got))
            import sys as _sys
            old_si = _sys.getswitchinterval()
            _sys.setswitchinterval(1e-5)
            try:
                ths = [threading.Thread(target=work, args=(pg, 150 if ctx.quick() else 1500)) for pg in ("chapter.md", "index.md", "chapter.md", "a.md")]
                [t.start() for t in ths]; [t.join() for t in ths]
            finally:
                _sys.setswitchinterval(old_si)
            n += 4
            if bad:
                ctx.fail("threads:include", "Markdown.read(%s) on a converter shared by threads that read other pages differs from the single-threaded result (%s include syntax)" % (bad[0][0], style),
                         {"kind": "include-threads", "style": style, "page": bad[0][0], "got": bad[0][1][:400], "fresh": want[bad[0][0]][:400]})
    finally:
        shutil.rmtree(tmp, ignore_errors=True)
    return n


def cross_converter(ctx):
    """Two converters of different configuration in ONE fresh interpreter: what B returns after A has converted documents must be
    what B returns in an interpreter of its own (state shared between converters: module-level caches keyed too coarsely)."""
    import subprocess, os, sys, json
    kinds = [configs.C("core"), configs.C("all", plugins=configs.PLUGINS), configs.C("fenced", plugins=["table", "def_list"], directives="fenced"),
             configs.C("fenced-colon", plugins=["def_list"], directives="fenced-colon"), configs.C("fenced-pct", directives="fenced-pct"), configs.C("rst", plugins=["footnotes"], directives="rst"),
             configs.C("spoiler-abbr", plugins=["spoiler", "abbr", "def_list", "task_lists"]), configs.C("ast-all", renderer="ast", plugins=configs.PLUGINS),
             # rule lists of quotes and list items that differ from each other (the "…_in_list" / "…_in_quote" plugins)
             configs.C("table-in-list", plugins=["table", "mistune.plugins.table.table_in_list", "math", "mistune.plugins.math.math_in_quote"]),
             configs.C("table-in-quote", plugins=["table", "mistune.plugins.table.table_in_quote", "math", "mistune.plugins.math.math_in_list"])]
    probes = ["- a\n- b\n", "1. a\n2. b\n", "* a\n\n  b\n", "- item\n:::{note} t\ntext\n:::\n", "- item\n%%%{note} T\nbody\n%%%\n", "1. item\n::::{tip}\n::::\n", "- item\n```{note}\nx\n```\n",
              "- item\n:::{note}\n[foo]: /in-note\n:::\n\n[foo]\n\n[foo]: /later\n", "- item\n.. note:: t\n", "> q\n:::{note}\n:::\n", "> q\n>! s\n- l\n", "term\n: def\n- l\n: d2\n",
              "| a |\n|---|\n| b |\n- l\n| c |\n", "*[A]: t\n\nA - l\n", "- [ ] t\n- x\n", "# h\n\n.. toc::\n", "> > > > > > q\n\n- - - - - - | a |\n            |---|\n", "[x]: /u\n\n[x] [^n]\n\n[^n]: f\n",
              "> > > > > > q\n", "- - - - - - l\n", "- - - - - | a |\n          |---|\n          | b |\n", "> > > > > | a |\n> > > > > |---|\n> > > > > | b |\n", "> > > > > $$\n> > > > > m\n> > > > > $$\n",
              "- - - - - $$\n          m\n          $$\n", "- | a |\n  |---|\n  | b |\n", "> | a |\n> |---|\n> | b |\n"]
    jobs = [(a, b) for a in kinds for b in kinds if a["name"] != b["name"]]
    if ctx.quick():
        ctx.rng.shuffle(jobs)
        keep = [j for j in jobs if "fenced" in j[0]["name"] and "fenced" in j[1]["name"]]
        jobs = keep + [j for j in jobs if j not in keep][:14]
    here = os.path.dirname(os.path.dirname(os.path.abspath(__file__)))
    def launch(steps):
        pr = subprocess.Popen([sys.executable, "-B", os.path.join(here, "seqworker.py")], stdin=subprocess.PIPE, stdout=subprocess.PIPE, stderr=subprocess.PIPE, text=True)
        return pr, json.dumps({"steps": steps, "src": common.repo_src()})
    alone = {}
    for b in kinds:
        alone[b["name"]] = launch([[b, d] for d in probes])
    # … and within ONE converter: the same probes in two different orders must agree document by document
    rev = list(reversed(probes))
    orders = {b["name"]: launch([[b, d] for d in rev]) for b in kinds}
    alone_res = {}
    for nm, (pr, payload) in alone.items():
        try:
            alone_res[nm] = json.loads(pr.communicate(payload, timeout=300)[0])
        except Exception:
            alone_res[nm] = None
    n = 0
    for nm, (pr, payload) in orders.items():
        try:
            res = list(reversed(json.loads(pr.communicate(payload, timeout=300)[0])))
        except Exception:
            continue
        for d, r, r0 in zip(probes, res, alone_res.get(nm) or []):
            n += 1
            if r != r0:
                ctx.fail("history:order-of-documents", "converter %s converts %r differently depending on which of the other probe documents it converted before" % (nm, d),
                         {"kind": "cross-converter", "config": [k for k in kinds if k["name"] == nm][0], "doc": d, "probes": probes})
                break
    procs = [(a, b, launch([[a, d] for d in probes] + [[b, d] for d in probes])) for a, b in jobs]
    for a, b, (pr, payload) in procs:
        try:
            res = json.loads(pr.communicate(payload, timeout=300)[0])
        except Exception:
            continue
        ref = alone_res.get(b["name"])
        if ref is None:
            continue
        for d, r, r0 in zip(probes, res[len(probes):], ref):
            n += 1
            if r != r0:
                ctx.fail("history:other-converter", "converter %s converts %r differently after converter %s was used in the same interpreter (%s vs %s alone)" % (b["name"], d, a["name"], r.get("exc") or r.get("hash"), r0.get("exc") or r0.get("hash")),
                         {"kind": "cross-converter", "first": a, "config": b, "doc": d, "probes": probes})
                break
    return n


def thread_oracle(ctx, docs, rounds):
    import mistune
    n = 0
    old = sys.getswitchinterval()
    sys.setswitchinterval(1e-6)
    try:
        for r in range(rounds):
            for nm, mk in (("preset", lambda: mistune.create_markdown(escape=False, plugins=["strikethrough", "footnotes", "table", "speedup"])),
                           ("all", lambda: configs.make(configs.C("all", plugins=configs.PLUGINS))),
                           ("rst", lambda: configs.make(configs.C("rst", renderer="rst")))):
                md = mk()          # cold caches: concurrent first use
                ds = [ctx.rng.choice(docs) for _ in range(24)]
                seq = mk()
                exp = []
                for d in ds:
                    try:
                        exp.append(seq(d))
                    except Exception as e:
                        exp.append(("EXC", type(e).__name__))
                res = [None] * 8
                bar = threading.Barrier(8)

                def work(t):
                    bar.wait()
                    out = []
                    for d in ds[t::8] + ds:
                        try:
                            out.append(md(d))
                        except Exception as e:
                            out.append(("EXC", type(e).__name__))
                    res[t] = out
                ths = [threading.Thread(target=work, args=(t,)) for t in range(8)]
                for t in ths: t.start()
                for t in ths: t.join()
                for t in range(8):
                    want = exp[t::8] + exp
                    n += len(want)
                    if res[t] != want:
                        j = next(i for i, (a, b) in enumerate(zip(res[t], want)) if a != b)
                        ctx.fail("threads:" + nm, "concurrent conversion on a shared %s converter returned a different result than sequentially" % nm,
                                 {"kind": "threads", "config": nm, "doc": (ds[t::8] + ds)[j]})
                        break
    finally:
        sys.setswitchinterval(old)
    return n


def run(ctx):
    ctx.broken += common.proof_stage(ctx, THEOREMS)
    q = ctx.quick()
    docs = [d for h in histories(ctx, 30) for d in h] + [gen.md_doc(ctx.rng, 6) for _ in range(30)]
    mds = {nm: mk() for nm, mk in converter_kinds().items()}
    import mistune
    mds["mistune.html"] = mistune.html
    fdocs = [d.replace("{i}", "7") for d in DEFS + USES] + docs[: (10 if q else 80)]
    nf = footprint(ctx, mds, fdocs)
    # every definition together with every use (caches keyed by what a document defines fill only when both are present),
    # deep nesting (paths that run only at the nesting limit), and syntax templates with edge fillers
    combos = [d.replace("{i}", "3") + "\n" + u for d in DEFS for u in USES]
    sweep = gen.slot_sweep()
    ctx.rng.shuffle(sweep)
    nf += footprint(ctx, mds, combos + sweep[: (150 if q else 1500)], per_doc=(2 if q else 4))
    hs = histories(ctx, 150 if q else 2000)
    nh = history_oracle(ctx, hs)
    nt = thread_oracle(ctx, docs, 2 if q else 12)
    nh += include_history(ctx)
    nh += cross_converter(ctx)
    if ctx.broken and not ctx.failures:
        ctx.notes.append("search mode entered")
        nh += history_oracle(ctx, histories(ctx, 3000))
        nt += thread_oracle(ctx, docs, 10)
    ctx.cov.update({
        "evaluations": nf + nh + nt,
        "distinct_nontrivial": len(set(tuple(h) for h in hs if len(h) >= 2)),
        "rule": "%d state-footprint comparisons (deep snapshot of converter + module globals before/after a call); %d history steps (defining document then using document for "
                "reference links, footnotes, abbreviations, headings/TOC ids, RST image counters) on reused vs fresh converters incl. the shared mistune.html and markdown() caches; "
                "%d results from 8-thread runs with a 1 µs switch interval on cold shared converters; non-trivial = history of at least two documents" % (nf, nh, nt),
        "samples": [hs[0]],
        "traces_validated_against_impl": nf, "disagreements_checked": nf,
    })
    ctx.assumptions += ["the model's action alphabet is dictionary get / set; real preemption inside C code (dict operations are atomic under the GIL) is runtime behaviour covered only by the threaded runs",
                        "objects not reachable from the converter or from mistune module globals (none known) are outside the footprint"]


def replay(ctx, path):
    import json
    r = json.load(open(path))["replay"]
    print(json.dumps(r, indent=1)[:3000])
    return 1
