"""C14 — footnote references and notes stay in bijection.

Decided by: Lean theorems about the numbering machine (`fnRef`/`fnRun`/`fnItems`) for ALL definition sets and
reference sequences; tied to the code by replaying, through the model, the exact sequence of
`parse_inline_footnote` calls the real parser makes on generated documents (key, defined?, emitted index,
final notes, section items); plus the HTML-level bijection oracle on the implementation."""
import re
import common, gen, configs
from common import enc, dec

LEVEL = "proof"
THEOREMS = ["Mistune.fn_notes_eq", "Mistune.fn_notes_nodup", "Mistune.fn_refs_sound", "Mistune.fn_refs_keys",
            "Mistune.fn_items_referenced", "Mistune.fn_items_numbers",
            # refinement: the CONCRETE model's footnote handlers are steps of the abstract numbering machine (parse_inline_footnote = fnRef on env["footnotes"]; the inline pass = fnRun over
            # the handler calls; md_footnotes_hook emits fnItems of the notes, one section iff non-empty): parseDoc_footnotes for every source string of a footnotes configuration
            "Mistune.Model.parseInlineFootnote_step", "Mistune.Model.parseInlineFootnote_inImage", "Mistune.Model.mdFootnotesHook_items", "Mistune.Model.renderState_notes",
            "Mistune.Model.inlineParseEnv_notes", "Mistune.Model.blockParse_no_footnotes", "Mistune.Model.doc_footnotes", "Mistune.Model.parseDoc_footnotes"]

KEYS = ["1", "a", "A", "note", "Note  x", "b c", "ß", "n-2", "", "x]", "q"]
BODY = ["alpha", "beta *em*", "see [^{k}] inside", "`code`", "word [link](u)", "tail"]


def enc_list(xs):
    return "|".join("s" + enc(x) for x in xs)


def dec_list(f):
    if not f:
        return []
    return [dec(t[1:]) for t in f.split("|")]


def fn_doc(rng):
    keys = rng.sample(KEYS, rng.randint(1, 5))
    lines = []
    def ref():
        k = rng.choice(keys + ["zz", "undefined"]) if rng.random() < 0.85 else rng.choice(KEYS)
        if rng.random() < 0.3:
            k = k.upper() if rng.random() < 0.5 else k.replace(" ", "   ")
        return "[^%s]" % k
    n = rng.randint(2, 9)
    defined = []
    for _ in range(n):
        r = rng.random()
        if r < 0.40:
            words = [rng.choice(gen.WORDS) for _ in range(rng.randint(1, 4))]
            for _ in range(rng.randint(0, 3)):
                words.insert(rng.randint(0, len(words)), ref())
            pre = rng.choice(["", "", "> ", "- ", "1. ", "# ", "*emph ", "> - ", "![alt "])
            lines.append(pre + " ".join(words) + ("*" if pre == "*emph " else "](/i.png) tail" if pre == "![alt " else ""))
            lines.append("")
        elif r < 0.75:
            k = rng.choice(keys)
            defined.append(k)
            body = rng.choice(BODY).replace("{k}", rng.choice(keys))
            pre = rng.choice(["", "", "", " ", "   "])
            lines.append("%s[^%s]: %s" % (pre, k, body))
            if rng.random() < 0.35:
                lines.append(pre + "   continued line")
                if rng.random() < 0.5:
                    lines.append("")
                    lines.append(pre + "   second paragraph " + ref())
            lines.append("")
        elif r < 0.78:
            # a reference hard-wrapped inside its label (labels compare after white-space normalisation)
            k = rng.choice([x for x in keys if " " in x] or ["b c"])
            if k not in keys:
                keys.append(k)
            lines.append("wrapped [^%s] ref and [^%s] again" % (k.replace(" ", "\n", 1), k)); lines.append("")
            if rng.random() < 0.8:
                lines.append("[^%s]: the wrapped note" % k); lines.append(""); defined.append(k)
        elif r < 0.80:
            lines.append("> [^%s]: quoted definition" % rng.choice(keys)); lines.append("")
        elif r < 0.86:
            # references inside emphasis together with a link whose own text holds a reference (the emphasis handler looks ahead)
            a, b = ref(), ref()
            lines.append(rng.choice(["*see %s and [link %s](/u)*", "**x %s [t %s](/u 't') y**", "_%s `c` [%s](/u)_", "*%s <b> [a %s](/u)*",
                                     # a reference right after "!" (not an image), and references deep inside an image description
                                     "Wow!%s and again!%s", "![*see [the link %s](/u) here*](/pic.png) then %s", "![**[x %s](/u)** _[y %s](/v)_](/p.png)", "a!%s ![b!%s](/i.png)"]) % (a, b)); lines.append("")
        elif r < 0.90:
            # a definition without text (the note exists and is empty)
            k = rng.choice(keys); defined.append(k)
            lines.append("[^%s]:%s" % (k, rng.choice([" ", "\t", "  "]))); lines.append("")
        else:
            lines.append("| a | b |\n|---|---|\n| %s | x |" % ref()); lines.append("")
    return "\n".join(lines) + "\n"


def instrumented(plugins, renderer):
    """a converter whose footnote inline handler logs (key, result token) in call order"""
    import mistune
    from mistune.util import unikey
    md = mistune.create_markdown(renderer=renderer, plugins=plugins)
    log = []
    orig = md.inline._methods["footnote"]

    def wrapped(m, state):
        before = len(state.tokens)
        r = orig(m, state)
        tok = state.tokens[-1]
        log.append((unikey(m.group("footnote_key")), tok, bool(state.in_image)))
        return r
    md.inline._methods["footnote"] = wrapped
    return md, log


def walk(tokens):
    for t in tokens:
        yield t
        if "children" in t:
            yield from walk(t["children"])


def correspondence(ctx, docs):
    d = common.Driver()
    reqs, exps = [], []
    for doc in docs:
        md, log = instrumented(["footnotes", "table", "strikethrough"], None)
        try:
            toks, state = md.parse(doc)
        except Exception as e:
            ctx.fail("exception", "footnotes conversion raised %r" % e, {"doc": doc})
            continue
        defs = list((state.env.get("ref_footnotes") or {}).keys())
        notes_final = list(state.env.get("footnotes") or [])
        sect = [t for t in toks if t["type"] == "footnotes"]
        sect_ids = set(id(t) for s_ in sect for t in walk(s_["children"]))
        # calls made while the footnote items are inline-parsed (fresh env, after the main pass) vs the main pass
        # … and calls made inside an image description (rendered as plain alt text): the handler must leave them literal,
        # they never reach the numbering machine
        main_calls = [(k, t) for k, t, im in log if id(t) not in sect_ids and not im]
        sect_calls = [(k, t) for k, t, im in log if id(t) in sect_ids or im]
        items = [(c["attrs"]["key"], c["attrs"]["index"]) for s_ in sect for c in s_["children"]]
        reqs.append(("fn", enc_list(defs), enc_list([k for k, _ in main_calls])))
        exps.append((doc, defs, main_calls, sect_calls, notes_final, items, len(sect)))
    outs = d.batch(reqs)
    bad = 0
    for (doc, defs, calls, sect_calls, notes_final, items, nsect), got in zip(exps, outs):
        g_notes, g_idx, g_items = got.split(";")
        m_notes = dec_list(g_notes)
        m_idx = g_idx.split(",") if g_idx else []
        m_items = [int(x) for x in g_items.split(",")] if g_items else []
        r_idx = [str(tok["attrs"]["index"]) if tok["type"] == "footnote_ref" else "-" for _, tok in calls]
        if m_idx != r_idx or m_notes != notes_final or [i for _, i in items] != m_items or [k for k, _ in items] != m_notes \
                or nsect != (1 if m_notes else 0) or any(t["type"] != "text" for _, t in sect_calls):
            bad += 1
            if bad <= 3:
                ctx.broken.append("correspondence: document %r: handler emitted %s, notes %s, items %s; model emitted %s, notes %s (defs %s)"
                                  % (doc, r_idx, notes_final, items, m_idx, m_notes, defs))
    ctx.cov["traces_validated_against_impl"] = len(reqs)
    ctx.cov["disagreements_checked"] = len(reqs)
    ctx.cov["disagreements"] = bad
    return len(reqs)


def html_oracle(ctx, docs):
    """The property on the real HTML."""
    import mistune
    base = {"plugins": ["footnotes", "table", "strikethrough"]}
    variants = [("plain", dict(base), ""), ("toc-hook", dict(base, toc_hook=True), ""), ("toc-rst", dict(base, directives="rst"), ".. toc::\n\n"),
                ("toc-fenced", dict(base, directives="fenced"), "```{toc}\n```\n\n"), ("all-hardwrap", {"plugins": configs.PLUGINS, "hard_wrap": True}, ""),
                ("all-tochook-noescape", {"plugins": configs.PLUGINS, "toc_hook": True, "escape": False}, "")]
    pairs = [(nm, configs.make(configs.C(nm, **kw)), configs.make(configs.C(nm, renderer="ast", **{k: v for k, v in kw.items() if k != "toc_hook"})), pre) for nm, kw, pre in variants]
    # the plugin applied more than once (twice in the list; `use()` on a converter that already has it, as with the pre-built mistune.html):
    # registration is idempotent for rules, and must be for the section too
    from mistune.plugins.footnotes import footnotes as _fn_plugin
    def _twice(renderer):
        md2 = mistune.create_markdown(renderer=renderer, plugins=["footnotes", "table", "footnotes"])
        return md2
    def _used(renderer):
        md2 = mistune.create_markdown(renderer=renderer, plugins=["strikethrough", "footnotes", "table"])
        md2.use(_fn_plugin)
        return md2
    pairs.append(("footnotes-listed-twice", _twice("html"), _twice("ast"), ""))
    pairs.append(("footnotes-used-again", _used("html"), _used("ast"), ""))
    n = 0
    for i, doc0 in enumerate(docs):
        nm, md, ast, pre = pairs[0] if i % 2 == 0 else pairs[1 + (i // 2) % (len(pairs) - 1)]
        doc = pre + doc0
        try:
            html = md(doc)
            toks = ast(doc)
        except Exception as e:
            ctx.fail("exception", "footnotes conversion raised %r" % e, {"doc": doc})
            continue
        n += 1
        refs = [(int(a), int(b), int(c)) for a, b, c in re.findall(r'<sup class="footnote-ref" id="fnref-(\d+)"><a href="#fn-(\d+)">(\d+)</a></sup>', html)]
        notes = [(int(a), int(b)) for a, b in re.findall(r'<li id="fn-(\d+)">.*?<a href="#fnref-(\d+)" class="footnote">&#8617;</a></p></li>', html, re.S)]
        nsec = html.count('<section class="footnotes">')
        rep = {"doc": doc, "variant": nm}
        if any(not (a == b == c) for a, b, c in refs):
            ctx.fail("ref-inconsistent", "a reference's id/href/label numbers differ: %r" % refs, rep); continue
        first = []
        for a, _, _ in refs:
            if a not in first:
                first.append(a)
        if first != list(range(1, len(first) + 1)):
            ctx.fail("not-first-reference-order", "reference numbers in order of first occurrence are %r, expected 1..n" % first, rep); continue
        if [a for a, _ in notes] != list(range(1, len(first) + 1)) or any(a != b for a, b in notes):
            ctx.fail("notes-mismatch", "notes %r do not match referenced numbers 1..%d" % (notes, len(first)), rep); continue
        if nsec != (1 if first else 0):
            ctx.fail("section-count", "%d footnote sections for %d referenced notes" % (nsec, len(first)), rep); continue
        if first and not html.rstrip().endswith("</section>"):
            ctx.fail("section-not-last", "footnotes section is not at the end", rep); continue
        # a reference to a DEFINED note in running text is a link: nothing of the form [^key] with a defined key may be left as text
        # (outside code, image descriptions, the notes' own texts and TOC entries, where references are literal by design)
        body_html = html.split('<section class="footnotes">')[0]
        body_html = re.sub(r'<details class="toc".*?</details>', "", body_html, flags=re.S)
        body_html = re.sub(r'<code>.*?</code>|<pre>.*?</pre>| alt="[^"]*"', "", body_html, flags=re.S)
        from mistune.util import unikey
        import html as _h
        defined_keys = set()
        try:
            _, st_ = ast.parse(doc)
            defined_keys = set((st_.env.get("ref_footnotes") or {}).keys())
        except Exception:
            pass
        left = [k for k in re.findall(r"\[\^([^\]]+)\]", _h.unescape(body_html)) if unikey(k) in defined_keys]
        if left:
            ctx.fail("defined-reference-literal", "references %r to defined notes are left as literal text in %r" % (left, doc), rep); continue
        # token-list output carries the same notes
        sect = [t for t in toks if t["type"] == "footnotes"]
        t_items = [c["attrs"]["index"] for s in sect for c in s["children"]]
        t_refs = [t["attrs"]["index"] for t in walk([x for x in toks if x["type"] != "footnotes"]) if t["type"] == "footnote_ref"]
        item_of = {c["attrs"]["key"]: c["attrs"]["index"] for s_ in sect for c in s_["children"]}
        wrong = [(t["raw"], t["attrs"]["index"]) for t in walk([x for x in toks if x["type"] != "footnotes"])
                 if t["type"] == "footnote_ref" and item_of.get(t["raw"]) != t["attrs"]["index"]]
        if wrong:
            ctx.fail("ref-points-to-wrong-note", "references (key, number) %r do not carry the number of their note %r" % (wrong, item_of), rep); continue
        if len(item_of) != len(t_items):
            ctx.fail("duplicate-note", "a note is emitted twice: %r" % t_items, rep); continue
        if t_items != [a for a, _ in notes] or t_refs != [a for a, _, _ in refs]:
            ctx.fail("ast-differs", "token-list notes %r / refs %r differ from HTML notes %r / refs %r" % (t_items, t_refs, notes, refs), rep); continue
    return n


def block_order(ctx, n):
    """Blocks that interrupt each other without blank lines (a list ends a quote, a heading / quote / rule / fence ends a list
    item) are the same blocks as when written with blank lines between them: the notes must be numbered, and the blocks
    emitted, in the same order."""
    import mistune
    md = mistune.create_markdown(renderer=None, plugins=["footnotes", "table", "strikethrough", "spoiler"])
    cnt = 0
    for _ in range(n):
        k = ctx.rng.randint(2, 5)
        blocks, kinds = [], []
        prev = None
        for i in range(k):
            if prev in (None,):
                kind = ctx.rng.choice(["quote", "list", "olist", "spoiler"])
            elif prev in ("quote", "spoiler"):
                kind = ctx.rng.choice(["list", "olist", "hr", "fence"])     # (an HTML block does not end a quote in mistune: not a C14 matter)
            elif prev in ("list", "olist"):
                kind = ctx.rng.choice(["quote", "heading", "hr", "fence", "spoiler"])
            else:
                break
            key = "k%d" % i
            body = {"quote": "> q%d [^%s]" % (i, key), "spoiler": ">! s%d [^%s]" % (i, key), "list": "- item%d [^%s]" % (i, key), "olist": "1. item%d [^%s]" % (i, key),
                    "heading": "# h%d [^%s]" % (i, key), "hr": "***", "fence": "```\ncode%d\n```" % i, "html": "<div>\nraw%d\n</div>" % i}[kind]
            blocks.append(body); kinds.append(kind); prev = kind
        defs = "".join("\n[^k%d]: note %d\n" % (i, i) for i in range(len(blocks)))
        loose = "\n\n".join(blocks) + "\n" + defs
        tight = "\n".join(blocks) + "\n" + defs
        try:
            ta, tb = md(loose), md(tight)
        except Exception:
            continue
        cnt += 1
        def shape(toks):
            return [t["type"] for t in toks if t["type"] not in ("blank_line", "footnotes")]
        def note_keys(toks):
            return [c["attrs"]["key"] for t in toks if t["type"] == "footnotes" for c in t["children"]]
        if shape(ta) != shape(tb):
            ctx.fail("block-order", "blocks written without blank lines come out in another order than with blank lines: %r vs %r for %r" % (shape(tb), shape(ta), tight), {"doc": tight, "variant": "block-order"})
        elif note_keys(ta) != note_keys(tb):
            ctx.fail("not-first-reference-order:blocks", "notes are numbered in the order %r for %r but %r when the same blocks are separated by blank lines" % (note_keys(tb), tight, note_keys(ta)),
                     {"doc": tight, "variant": "block-order"})
    return cnt


DEFS3 = "\n\n[^a]: note A\n\n[^b]: note B\n\n[^c]: note C\n"
EDGE_DOCS = [d + DEFS3 for d in (
    "*see [^a] and [link [^b]](/u)* then [^c]", "**x [^a] [t [^b]](/u 't') y** [^c]", "_[^a] `c` [l [^b]][r]_ [^c]\n\n[r]: /u", "Wow![^a] second[^b] again[^a] [^c]", "First![^a] second[^b] again[^a]",
    "![*see [the link [^a]](/u) here*](/pic.png) then [^b] [^c]", "![chart [source[^a]](http://e/data)](chart.png) [^b]", "see also[^todo][^a] and [^b][^undefined][^c]", "x[^a]^[^b]^ [^c]", "H~[^a]~ ==[^b]== [^c]",
    "> q [^a]\n- item [^b]\n# h [^c]", "| h[^a] |\n|---|\n| [^b] |\n\n[^c]", "Read [the manual[^a]](/handbook) first [^b].", "[^a][^a][^b]\n[^c]", "t\n: d[^b]\n\nu[^a] [^c]",
    "# T[^b]\n\nintro[^a]\n\n## U[^c]\n", "[^a]: dup\n\nx[^a] y[^b]", "x[^A] y[^a] z[^ b ] [^c]")] + \
    ["x[^a] y[^b]\n\n[^a]: \n[^b]: note B\n", "x[^a]\n\n[^a]:\t\n", "a[^1]\n\n[^1]: one\n   two\n\n   three\n\n    four\n", "[^1]\n\n[^1]: see [^2] inside\n\n[^2]: other\n"]


ADJ_BEFORE = ["", " ", "word", "[manual]", "[nolabel]", ")", "*", "**", "_", ".", ":", "\\\\", "(", "`c`", "[t](/u)", "<b>", "]", "'", "\""]
ADJ_AFTER = ["", " ", "word", "(disputed)", "(/url)", "(/url 'title')", "[manual]", "[nolabel]", "[x]", "[]", ":", ": text", "{.cls}", "*", "!", ".", "](", ")", "<b>", "`c`", "[^zz]", "\\"]


def adjacency(ctx, n):
    """Which `[^key]` occurrences are references must not depend on the characters right next to them: a paragraph is assembled from words
    and references to DEFINED notes, each reference glued directly to a random left and right neighbour (a defined / undefined shortcut link,
    a parenthesis that could be a link destination, emphasis marks, punctuation, an escaped backslash, another bracket pair ...).  The expected
    sequence of referenced keys is known by construction; it is compared with the real reference tokens, the emitted notes and their numbers."""
    import mistune
    from mistune.util import unikey
    mds = [configs.make(configs.C("adj", plugins=["footnotes"], renderer="ast")),
           configs.make(configs.C("adj-all", plugins=configs.PLUGINS, renderer="ast"))]
    htmls = [configs.make(configs.C("adjh", plugins=["footnotes"])), configs.make(configs.C("adjh-all", plugins=configs.PLUGINS))]
    keys = ["a", "b", "note", "1", "k2"]
    cnt = 0
    for i in range(n):
        parts, expected = [], []
        for _ in range(ctx.rng.randint(1, 4)):
            k = ctx.rng.choice(keys)
            b, a = ctx.rng.choice(ADJ_BEFORE), ctx.rng.choice(ADJ_AFTER)
            if ctx.rng.random() < 0.5:
                b = ctx.rng.choice(["", " ", "word", "[manual]"])
            if ctx.rng.random() < 0.5:
                a = ctx.rng.choice(["", " ", "word", "(disputed)"])
            parts.append(ctx.rng.choice(["lead ", "The claim"] + ([""] if parts else [])) + b + "[^%s]" % k + a)
            expected.append(k)
        sep = ctx.rng.choice([" and ", " x ", " , "])
        para = sep.join(parts)
        pre = ctx.rng.choice(["", "", "> ", "- ", "# "])
        defs = "".join("[^%s]: note %s\n\n" % (k, k) for k in keys)
        doc = pre + para + "\n\n[manual]: /manual\n\n" + defs
        j = i % 2
        try:
            toks = mds[j](doc)
            html = htmls[j](doc)
        except Exception as e:
            ctx.fail("exception", "footnotes conversion raised %r" % e, {"doc": doc}); continue
        cnt += 1
        got = [t["raw"] for t in walk([x for x in toks if x["type"] != "footnotes"]) if t["type"] == "footnote_ref"]
        rep = {"doc": doc, "variant": "adjacency", "expected_refs": expected, "got_refs": got}
        if got != [unikey(k) for k in expected]:
            ctx.fail("adjacent-reference-lost", "the paragraph %r holds references to the defined notes %r in running text, the parser produced references %r" % (para, expected, got), rep); continue
        nrefs = len(re.findall(r'<sup class="footnote-ref"', html))
        if nrefs != len(expected):
            ctx.fail("adjacent-reference-lost", "the paragraph %r holds %d references to defined notes, the HTML has %d" % (para, len(expected), nrefs), rep); continue
    return cnt


def run(ctx):
    ctx.broken += common.proof_stage(ctx, THEOREMS)
    docs = EDGE_DOCS * 6 + [fn_doc(ctx.rng) for _ in range(1500 if ctx.quick() else 15000)]
    n1 = correspondence(ctx, docs)
    # the concrete Lean parser model of the footnotes plugin (inline reference, block definition, md_footnotes_hook): full token trees
    common.model_tie(ctx, docs, 'only-footnotes', 'doc', limit=(700 if ctx.quick() else 7000))
    n2 = html_oracle(ctx, docs)
    n2 += block_order(ctx, 400 if ctx.quick() else 6000)
    n2 += adjacency(ctx, 1500 if ctx.quick() else 20000)
    if ctx.broken and not ctx.failures:
        ctx.notes.append("search mode entered")
        n2 += html_oracle(ctx, [fn_doc(ctx.rng) for _ in range(20000)])
    nt = sum(1 for d in docs if d.count("[^") >= 3)
    ctx.cov.update({
        "evaluations": n1 + n2, "distinct_nontrivial": len(set(d for d in docs if d.count("[^") >= 3)),
        "rule": "seeded documents mixing references (repeated, undefined, case/whitespace variants, inside quotes/lists/headings/emphasis/tables, inside notes) and "
                "definitions (single/multi-paragraph, duplicate, indented, quoted); non-trivial = at least three reference/definition sites",
        "samples": docs[:2],
    })
    ctx.assumptions += ["the model is the numbering machine only; which `[^key]` occurrences reach the handler and in which order is taken from the real parser's call log (document order is observed, not proved)",
                        "keys are compared after unikey() (C18)"]


def replay(ctx, path):
    import json
    r = json.load(open(path))["replay"]
    html_oracle(ctx, [r["doc"]])
    correspondence(ctx, [r["doc"]])
    for f in ctx.failures:
        print("FAILS:", f["what"])
    print(ctx.broken)
    return 1 if (ctx.failures or ctx.broken) else 0
