"""C11 — code is reproduced verbatim.

Decided by (Lean): clause (iv) — `escape_roundtrip` (decoding the escaped code gives back exactly the code, for ALL
strings) with the regenerated `block_code` / `codespan` render methods checked to be `escape(code)` between fixed
literals; clauses (i)-(iii) (fenced, indented, code span extraction) are evaluated on the concrete Lean parser model
where available (model = implementation by the correspondence run) and by the constructive oracle below on the
implementation: bodies generated together with their expected text."""
import html as htmlmod, re, json
import common, gen, configs

LEVEL = "proof"
THEOREMS = ["Mistune.escape_roundtrip", "Mistune.escape_no_specials", "Mistune.escape_eq_flatMap",
            # (i) fenced code: the model of parse_fenced_code returns the body verbatim (closed: up to the first closing-fence line; unclosed: the rest)
            "Mistune.fenced_closed_verbatim", "Mistune.fenced_unclosed_verbatim", "Mistune.parseFencedCode_eq", "Mistune.reSub_trim", "Mistune.trim_code",
            # (iii) code spans: the model of parse_codespan returns the normalised content up to the first closing run of exactly n back-ticks
            "Mistune.codespanEndRx_matchAt", "Mistune.codespan_closed_verbatim", "Mistune.codespan_unclosed_iff", "Mistune.parseCodespan_eq",
            # (ii) indented code: the regenerated `_expand_tab_re` / `_INDENT_CODE_TRIM` are the expected terms (kernel-decided), the text computation of parse_indent_code equals the
            # line-level specification for every string, and lines written with any of the five four-column indents come back verbatim
            "Mistune.expandTabRx_lookup", "Mistune.indentTrimRx_lookup", "Mistune.indentBody_eq", "Mistune.indentBody_eq_ofRuleCfg", "Mistune.indent_verbatim_iff", "Mistune.indent_verbatim", "Mistune.parseIndentCode_eq",
            # container de-prefixing (block quotes): the three regenerated quote regexes are the expected terms (kernel-decided); `cleanQuote` equals a per-line specification for EVERY
            # string; marked lines come back verbatim (the tab-expansion exception is an explicit hypothesis, shown necessary); `_STRICT_BLOCK_QUOTE.match` evaluated exactly (sound and
            # complete) on the engine; extract_block_quote / parse_block_quote on canonical quotes; fenced code written inside a quote has its body verbatim
            "Mistune.quoteLeadingRx_lookup", "Mistune.quoteTrimRx_lookup", "Mistune.strictQuoteRx_lookup", "Mistune.blockQuoteRule_lookup", "Mistune.quote1_lookup",
            "Mistune.cleanQuote_eq", "Mistune.cleanQuote_eq_ofRuleCfg", "Mistune.cleanQuote_lines", "Mistune.cleanQuote_verbatim", "Mistune.cleanQuote_verbatim_tight", "Mistune.cleanQuote_verbatim_marked",
            "Mistune.strictQuote_matchAt", "Mistune.strictQuote_matchAt_isSome_iff", "Mistune.strictQuote_matchAt_open",
            "Mistune.extractBlockQuote_marker", "Mistune.extractBlockQuote_verbatim_eos", "Mistune.extractBlockQuote_verbatim_break", "Mistune.parseBlockQuote_of", "Mistune.blockQuote_match_ofRuleCfg",
            "Mistune.quoted_fenced_verbatim"]

LINE_BITS = ["alpha", "beta gamma", "&amp; &lt; &#35;", "\\* \\` \\\\", "<b>html</b>", "*em* **st** `c`", "[l](u) ![i](s)", "    deep", "  two", "x  ", "# not heading",
             "> not quote", "- not list", "1. no", "***", "---", "===", "| a | b |", "é ß 日本", "\\", "$m$ ~~s~~", "<!-- c -->", "&", "``", "`", "~~", "~", "a\tb", "http://u.v",
             "[foo]: /u", "{note}", ".. x::", ":::",
             # characters str.splitlines() treats as line ends although Markdown does not (only LF, CR, CRLF end a line)
             "a\x00b", "\x00", "\x01\x7f", "\ufffd \ufeff", "x = 1;\x0cy = 2", "a\x0bb", "a\x1cb", "a\x1db", "a\x1eb", "a\x85b", "a\u2028b", "a\u2029b", "\x0c", "end\x85"]


def body_lines(rng, c, n, allow_blank=True, allow_lead_tab=True):
    k = rng.randint(0, 6)
    out = []
    for _ in range(k):
        r = rng.random()
        if r < 0.12 and allow_blank:
            out.append("")
        elif r < 0.18 and allow_blank:
            out.append(rng.choice(["   ", " ", "\t", "  \t ", "\xa0", "\u2003", "\u3000\u3000", "\u202f", "\xa0 \xa0"]))            # whitespace-only line (ASCII or not: Markdown's blank line is spaces and tabs only)
        elif r < 0.3:
            out.append(c * rng.randint(1, n - 1) + rng.choice(["", " x", ""]))   # fence-like run, too short to close
        elif r < 0.4:
            oc = "~" if c == "`" else "`"
            out.append(oc * rng.randint(1, 6))                              # the other fence character
        elif r < 0.46:
            out.append(c * n + " trailing text")                           # long enough but followed by text: not a closer
        elif r < 0.52 and allow_lead_tab:
            out.append("\t" + rng.choice(LINE_BITS))
        else:
            out.append(rng.choice(["", " ", "  ", "    "]) + rng.choice(LINE_BITS) if rng.random() < 0.3 else rng.choice(LINE_BITS))
    return out


def is_closer(line, c, n):
    return re.match(r"^ {0,3}" + re.escape(c) + "{" + str(n) + r",}[ \t]*$", line) is not None


CONTAINERS = ["top", "quote", "bullet", "ordered", "quote-in-list", "defn"]


def wrap(lines, container):
    """lines of a block -> lines inside the container (first line carries the marker)"""
    if container == "top":
        return list(lines)
    if container == "quote":
        return ["> " + l if l else ">" for l in lines]
    if container == "bullet":
        return [("- " if i == 0 else "  ") + l if (l or i == 0) else "" for i, l in enumerate(lines)]
    if container == "ordered":
        return [("1. " if i == 0 else "   ") + l if (l or i == 0) else "" for i, l in enumerate(lines)]
    if container == "quote-in-list":
        inner = ["> " + l if l else ">" for l in lines]
        return [("- " if i == 0 else "  ") + l for i, l in enumerate(inner)]
    if container == "defn":
        # the definition of a definition list (def_list plugin): first line after ":   ", the others indented by four
        return ["term"] + [(":   " if i == 0 else "    ") + l if (l or i == 0) else "" for i, l in enumerate(lines)]
    raise ValueError(container)


def find_code(tokens, container):
    path = {"top": [], "quote": ["block_quote"], "bullet": ["list", "list_item"], "ordered": ["list", "list_item"],
            "quote-in-list": ["list", "list_item", "block_quote"], "defn": ["def_list", "def_list_item"]}[container]
    cur = tokens
    for ty in path:
        nxt = [t for t in cur if t["type"] == ty]
        if len(nxt) != 1:
            return None
        cur = nxt[0]["children"]
    codes = [t for t in cur if t["type"] == "block_code"]
    return codes[0] if len(codes) == 1 else None


def fenced_case(rng):
    c = rng.choice("`~"); n = rng.randint(3, 6); k = rng.randint(0, 3)
    container = rng.choice(CONTAINERS)
    info = rng.choice(["", "", "py", "lang extra", "c++", "a\\*b", "{.python}", "{#id}", "{r,echo=FALSE}", "{py:function}", "{.python .numberLines}", "{x"])
    body = [l for l in body_lines(rng, c, n) if not is_closer(l, c, n)]
    closed = rng.random() < 0.85
    ind = " " * k
    lines = [ind + c * n + info] + [(ind + l) if l else "" for l in body]
    if closed:
        lines.append(ind + c * (n + rng.randint(0, 2)))
    if container in ("quote", "quote-in-list", "bullet", "ordered") and rng.random() < 0.35:
        # the code is not the first block of its container: a paragraph and a blank line come first (a quote that does not start with code is
        # extracted by the lazy-continuation loop, not by the strict branch)
        lines = [rng.choice(["intro", "intro words", "*intro*"]), ""] + lines
    doc = "\n".join(wrap(lines, container)) + "\n"
    if container == "top" and k < 2 and rng.random() < 0.45:
        # directly (no blank line) after a block that a fence interrupts: the block ends, the fenced block is a sibling at top level
        doc = rng.choice(["para", "- item", "1. item", "* a\n* b", "+ x\n  y", "> quote", "# head", "- a\n\n  b", "10) item", "- > q", "para\nmore"]) + "\n" + doc
    expected = "".join(l + "\n" for l in body)
    return {"kind": "fenced", "container": container, "doc": doc, "expected": expected, "info": info, "closed": closed, "body": body, "directives": info.startswith("{") or rng.random() < 0.15}


def indented_case(rng):
    body = []
    for _ in range(rng.randint(1, 5)):
        if body and rng.random() < 0.2:
            body.append(None)        # interior blank line
        body.append(rng.choice(["", " ", "  "]) + rng.choice([b for b in LINE_BITS if b.strip()]))
    while body and body[-1] is None:
        body.pop()
    inds = ["    ", "\t", " \t", "  \t", "   \t"]
    lines = [(rng.choice(inds) + l) if l is not None else "" for l in body]
    doc = "para\n\n" + "\n".join(lines) + "\n\nafter\n"
    expected = "\n".join(l if l is not None else "" for l in body)
    return {"kind": "indented", "container": "top", "doc": doc, "expected": expected, "body": body}


def span_case(rng):
    n = rng.randint(1, 3)
    parts = []
    for _ in range(rng.randint(1, 4)):
        r = rng.random()
        if r < 0.3:
            m = rng.choice([k for k in (1, 2, 3, 4) if k != n])
            parts.append("`" * m)
        else:
            parts.append(rng.choice(["a", " b ", "&amp;", "\\", "*x*", "<i>", " ", "  ", "\n", "c\nd", "[l](u)", "$", "p\x0cq", "p\u2028q", "p\x85q", "p\x1cq", "   "]))
    x = "x".join(parts) if rng.random() < 0.5 else "".join(parts)
    # content must neither start nor end with a backtick, nor contain a run of exactly n backticks
    x = (x.strip("`").rstrip("\n").replace("\n`", "\n'")) or "q"
    x = x.strip("`") or "q"
    x = re.sub(r"\n[ \t]*(?=\n)", "", x)     # no blank line inside a span (it would end the paragraph)
    if n >= 3:
        x = x.replace("\n", " ")     # a line starting (after <= 3 spaces) with a run of 3+ backticks would open a fenced block
    if re.search(r"(?<!`)`{%d}(?!`)" % n, x):
        x = x.replace("`", "'")
    span = "a " + "`" * n + x + "`" * n + " b"
    where = rng.choice(["para", "para", "heading", "emphasis", "link", "quote", "item", "cell", "cell", "defn"])
    if "\n" in x or "|" in x.replace("\\|", ""):
        where = "para" if "\n" in x else rng.choice(["para", "heading", "quote", "item"])
    if where == "emphasis" and ("*" in x or "_" in x):
        where = "para"
    if where == "link" and ("[" in x or "]" in x):
        where = "para"
    if where == "cell" and rng.random() < 0.5 and "`" not in x:
        # an escaped pipe does not end the cell; inside the code span it is still a backslash and a pipe
        x = x + " \\| " + rng.choice(["q", "r s", ""])
        x = x.rstrip() or "q"
        span = "a " + "`" * n + x + "`" * n + " b"
    doc = {"para": span, "heading": "## " + span, "emphasis": "*" + span + "*", "link": "[" + span + "](/u)", "quote": "> " + span, "item": "- x\n- " + span,
           "cell": "| h | k |\n|---|---|\n| " + span + " | z |", "defn": "term\n: " + span}[where] + "\n"
    e = x.replace("\n", " ")
    if e.strip() and e.startswith(" ") and e.endswith(" "):
        e = e[1:-1]
    return {"kind": "span", "container": where, "doc": doc, "expected": e}


def classify(case, got):
    """known deviations of code inside containers (KNOWN findings) vs anything else"""
    exp = case["expected"]
    if case["kind"] != "fenced" or case["container"] == "top":
        return None
    el, gl = exp.split("\n"), got.split("\n")
    if not case["closed"]:
        while el and not el[-1].strip(): el.pop()
        while gl and not gl[-1].strip(): gl.pop()
    if len(el) != len(gl):
        return None
    kinds = set()
    for a, b in zip(el, gl):
        if a == b:
            continue
        if a.strip(" \t\x0b\x0c") == "" and b == "" and case["container"] in ("bullet", "ordered", "quote-in-list"):     # the characters of mistune's BLANK_LINE (space, tab, VT, FF): the known deviation is about those lines only
            kinds.add("blank-emptied")
        elif "\t" in a[: len(a) - len(a.lstrip(" \t"))] and a.lstrip(" \t") == b.lstrip(" ") and b[: len(b) - len(b.lstrip(" "))].strip(" ") == "":
            kinds.add("tab-expanded")
        else:
            return None
    return "+".join(sorted(kinds)) if kinds else None


def oracle(ctx, n):
    import mistune
    ast = mistune.create_markdown(renderer=None)
    hm = mistune.create_markdown(escape=True)
    ast_p = mistune.create_markdown(renderer=None, plugins=["table", "def_list", "strikethrough", "footnotes"])
    hm_p = mistune.create_markdown(escape=True, plugins=["table", "def_list", "strikethrough", "footnotes"])
    ast_d = configs.make(configs.C("x", renderer="ast", directives="fenced"))
    hm_d = configs.make(configs.C("x", directives="fenced"))
    def walk(ts):
        for t in ts:
            yield t
            if "children" in t:
                yield from walk(t["children"])
    cnt = 0
    for _ in range(n):
        r = ctx.rng.random()
        case = fenced_case(ctx.rng) if r < 0.6 else indented_case(ctx.rng) if r < 0.8 else span_case(ctx.rng)
        cnt += 1
        plug = case["container"] in ("cell", "defn")
        conv = (ast_d, hm_d) if case.get("directives") and not plug else (ast_p, hm_p) if plug else (ast, hm)
        try:
            toks = conv[0](case["doc"])
            out = conv[1](case["doc"])
        except Exception as e:
            ctx.fail("exception", "conversion raised %r" % e, case)
            continue
        if case["kind"] == "span":
            spans = [t for t in walk(toks) if t["type"] == "codespan"]
            if len(spans) != 1:
                ctx.fail("span:not-recognised", "code span not recognised: %r" % case["doc"], case); continue
            got = spans[0]["raw"]
            m = re.search(r"<code>(.*?)</code>", out, re.S)
            hgot = htmlmod.unescape(m.group(1)) if m else None
        else:
            tok = find_code(toks, case["container"])
            if tok is None:
                ctx.fail("%s:%s:not-recognised" % (case["kind"], case["container"]), "code block not found where expected for %r" % case["doc"], case); continue
            got = tok["raw"]
            if case["kind"] == "fenced" and (tok.get("attrs") or {}).get("info", "") != case["info"].replace("\\*", "*"):
                ctx.fail("fenced:info", "info string %r became %r" % (case["info"], (tok.get("attrs") or {}).get("info")), case); continue
            m = re.search(r"<pre><code[^>]*>(.*?)</code></pre>", out, re.S)
            hgot = htmlmod.unescape(m.group(1)) if m else None
        exp = case["expected"]
        if case["kind"] == "fenced" and not case["closed"] and case["container"] != "top":
            exp_alt = exp.rstrip("\n") + "\n" if exp else exp       # an unclosed fence in a container ends with the container
        else:
            exp_alt = exp
        def no_trailing_ws_lines(t):
            ls = t.split("\n")
            while ls and not ls[-1].strip():
                ls.pop()
            return ls
        unclosed_in_container = case["kind"] == "fenced" and not case["closed"] and case["container"] != "top"
        if unclosed_in_container and no_trailing_ws_lines(got) == no_trailing_ws_lines(exp):
            pass          # an unclosed fence ends with its container, whose trailing white space is trimmed
        elif got != exp and got != exp_alt and got.rstrip("\n") != exp.rstrip("\n"):
            k = classify(case, got)
            sig = "%s:%s:%s" % (case["kind"], case["container"], k or "differs")
            ctx.fail(sig, "%s code in %s is not reproduced verbatim: expected %r, got %r (document %r)" % (case["kind"], case["container"], exp, got, case["doc"]),
                     dict(case, got=got))
            continue
        if hgot is None or (hgot != got and hgot != got + "\n" and hgot.rstrip("\n") != got.rstrip("\n")):
            ctx.fail("html-unescape:" + case["kind"], "HTML output does not unescape to the code text: %r vs %r" % (hgot, got), dict(case, got=got, html=out)); continue
    return cnt


def extra_cases(ctx, n):
    """code blocks right after a table (table plugin), and code at the very end of a file pulled in by the include directive
    (no final line end: included files are not normalised)"""
    import mistune, tempfile, shutil, os
    from mistune.directives import FencedDirective, RSTDirective, Include
    cnt = 0
    ast_t = mistune.create_markdown(renderer=None, plugins=["table", "def_list", "footnotes"])
    def codes(toks):
        for t in toks:
            if t["type"] == "block_code":
                yield t
            if "children" in t:
                yield from codes(t["children"])
    for _ in range(n):
        body = [l for l in body_lines(ctx.rng, "`", 3, allow_blank=False, allow_lead_tab=False) if not is_closer(l, "`", 3) and l.strip()] or ["x"]
        table = ctx.rng.choice(["| a | b |\n|---|---|\n| c | d |\n", "a | b\n--- | ---\nc | d\n", "| h |\n|---|\n"])
        gap = "\n" * ctx.rng.randint(1, 3)
        if ctx.rng.random() < 0.5:
            doc = table + gap + "".join("    " + l + "\n" for l in body)
            exp = "\n".join(body)
        else:
            ind = " " * ctx.rng.randint(0, 3)
            doc = table + gap + ind + "```\n" + "".join(ind + l + "\n" for l in body) + ind + "```\n"
            exp = "".join(l + "\n" for l in body)
        cnt += 1
        try:
            found = list(codes(ast_t(doc)))
        except Exception as e:
            ctx.fail("exception", "conversion raised %r" % e, {"kind": "after-table", "container": "top", "doc": doc}); continue
        if len(found) != 1 or found[0]["raw"].rstrip("\n") != exp.rstrip("\n"):
            ctx.fail("after-table:differs", "code after a table is not reproduced verbatim: expected %r, got %r (document %r)" % (exp, [f["raw"] for f in found], doc), {"kind": "after-table", "container": "top", "doc": doc, "expected": exp})
    # two fenced blocks with the same fence character: the first closed by a fence that is not literally its opener (longer, indented, trailing blanks),
    # the second written plainly — each body ends at ITS first closing fence
    ast0 = mistune.create_markdown(renderer=None)
    for _ in range(n):
        c = ctx.rng.choice("`~"); k = ctx.rng.randint(3, 4)
        b1 = [l for l in body_lines(ctx.rng, c, k, allow_blank=True, allow_lead_tab=False) if not is_closer(l, c, k)] or ["one"]
        b2 = [l for l in body_lines(ctx.rng, c, k, allow_blank=True, allow_lead_tab=False) if not is_closer(l, c, k)] or ["two"]
        closer1 = ctx.rng.choice([c * (k + 1), " " + c * k, "  " + c * k, c * k + "  ", c * k + "\t", "   " + c * (k + 2) + " ", c * k])
        mid = ctx.rng.choice(["\n", "\ntext between\n\n", "text\n", ""])
        doc = c * k + ctx.rng.choice(["", "py"]) + "\n" + "".join(l + "\n" for l in b1) + closer1 + "\n" + mid + c * k + "\n" + "".join(l + "\n" for l in b2) + c * k + "\n\nafter\n"
        cnt += 1
        try:
            found = [t["raw"] for t in codes(ast0(doc))]
        except Exception as e:
            ctx.fail("exception", "conversion raised %r" % e, {"kind": "two-fences", "container": "top", "doc": doc}); continue
        exp = ["".join(l + "\n" for l in b1), "".join(l + "\n" for l in b2)]
        if found != exp:
            ctx.fail("two-fences:differs", "two fenced blocks are not reproduced verbatim: expected %r, got %r (document %r)" % (exp, found, doc), {"kind": "two-fences", "container": "top", "doc": doc, "expected": exp})
    # a fenced block (indented by 0-3 blanks) after an indented code block and one or two blank lines: two blocks, both verbatim
    for _ in range(n):
        c = ctx.rng.choice("`~"); k = ctx.rng.randint(3, 4); ind = " " * ctx.rng.randint(0, 3)
        b2 = [l for l in body_lines(ctx.rng, c, k, allow_blank=True, allow_lead_tab=False) if not is_closer(l, c, k)] or ["two"]
        first = ctx.rng.choice(["first", "a b", "x = 1"])
        doc = ctx.rng.choice(["", "para\n\n"]) + "    " + first + "\n" + "\n" * ctx.rng.randint(1, 2) + ind + c * k + "\n" + "".join(((ind + l) if l else "") + "\n" for l in b2) + ind + c * k + "\n"
        cnt += 1
        try:
            found = [t["raw"] for t in codes(ast0(doc))]
        except Exception as e:
            ctx.fail("exception", "conversion raised %r" % e, {"kind": "after-indented", "container": "top", "doc": doc}); continue
        exp = [first, "".join(l + "\n" for l in b2)]
        if found != exp:
            ctx.fail("after-indented-code:differs", "a fenced block after an indented code block is not reproduced verbatim: expected %r, got %r (document %r)" % (exp, found, doc), {"kind": "after-indented", "container": "top", "doc": doc, "expected": exp})
    tmp = tempfile.mkdtemp(prefix="verif-c11-")
    try:
        for style in ("rst", "fenced"):
            D = RSTDirective if style == "rst" else FencedDirective
            md = mistune.create_markdown(renderer=None, plugins=[D([Include()])])
            for _ in range(max(4, n // 20)):
                c = ctx.rng.choice("`~"); k = ctx.rng.randint(3, 5)
                body = [l for l in body_lines(ctx.rng, c, k, allow_lead_tab=False) if not is_closer(l, c, k)] or ["print(1)"]
                closed = ctx.rng.random() < 0.7
                content = c * k + "\n" + "".join(l + "\n" for l in body) + (c * k if closed else "")
                if not closed:
                    content = content.rstrip("\n")
                with open(os.path.join(tmp, "inc.md"), "w", newline="") as f:
                    f.write(content)            # no final line end
                with open(os.path.join(tmp, "main.md"), "w", newline="") as f:
                    f.write((".. include:: inc.md\n" if style == "rst" else "```{include} inc.md\n```\n"))
                cnt += 1
                try:
                    toks = md.read(os.path.join(tmp, "main.md"))[0]
                except Exception as e:
                    ctx.fail("exception", "reading a file that includes a fenced block raised %r" % e, {"kind": "included", "container": "top", "doc": content}); continue
                found = list(codes(toks))
                exp = "".join(l + "\n" for l in body)
                if len(found) != 1 or found[0]["raw"].rstrip("\n") != exp.rstrip("\n"):
                    ctx.fail("included-file:differs", "fenced code at the end of an included file (no final line end) is not reproduced verbatim: expected %r, got %r (file %r)" % (exp, [f["raw"] for f in found], content),
                             {"kind": "included", "container": "top", "doc": content, "expected": exp})
    finally:
        shutil.rmtree(tmp, ignore_errors=True)
    return cnt


def template_tie(ctx):
    """block_code / codespan render methods are literal + escape(code) + literal (probed with adversarial code)"""
    import mistune
    r = mistune.HTMLRenderer(escape=True)
    from mistune.util import escape
    n = 0
    for code in ["", "<&>\"'", "a\nb", "&amp;", "</code></pre>", "\\", "é", "x" * 50] + [gen.rand_mixed(ctx.rng) for _ in range(300)]:
        n += 1
        if r.block_code(code) != "<pre><code>" + escape(code) + "</code></pre>\n" or r.codespan(code) != "<code>" + escape(code) + "</code>" \
                or r.block_code(code, "py") != '<pre><code class="language-py">' + escape(code) + "</code></pre>\n":
            ctx.broken.append("template: block_code/codespan are no longer literal + escape(code) + literal (probe %r)" % code)
            break
    return n


def replay_known(ctx):
    """each listed finding's stored example is evaluated first, so its KNOWN-FINDING line appears on every run"""
    import mistune
    ast = mistune.create_markdown(renderer=None)
    for k in ctx.known:
        ex = k.get("example") or {}
        if "doc" not in ex:
            continue
        doc = ex["doc"]
        container = "quote" if doc.startswith(">") else "bullet"
        tok = find_code(ast(doc), container)
        got = tok["raw"] if tok else None
        if got != ex["expected"]:
            case = {"kind": "fenced", "container": container, "doc": doc, "expected": ex["expected"], "closed": True}
            kind = classify(case, got or "")
            ctx.fail("fenced:%s:%s" % (container, kind or "differs"), "stored example of a known finding: expected %r, got %r" % (ex["expected"], got), dict(case, got=got))
        else:
            ctx.notes.append("a stored known-finding example no longer fails: %r" % doc)


def bare_block_parser(ctx, n):
    """BlockParser used directly (the documented way to reuse the block pass) on a source that was NOT normalised: no final line end, so the
    last line -- a closing fence, the last line of an unclosed fence, an indented code line -- ends at the end of the subject."""
    import mistune
    md = mistune.create_markdown(renderer=None)
    k = 0
    for _ in range(n):
        ch = ctx.rng.choice(["`", "~"]); ln = ctx.rng.randint(3, 5)
        body_lines = [ctx.rng.choice(LINE_BITS) for _ in range(ctx.rng.randint(0, 4))]
        body_lines = [l for l in body_lines if not (l.strip().startswith(ch * 3))]
        body = "".join(l + "\n" for l in body_lines)
        kind = ctx.rng.choice(["closed", "unclosed", "indented"])
        if kind == "closed":
            src, want = ch * ln + "\n" + body + ch * ln, body
        elif kind == "unclosed":
            last = ctx.rng.choice(["tail", "x  y", "&amp;"])
            src, want = ch * ln + "\n" + body + last, body + last
        else:
            lines = [l for l in body_lines if l.strip()] or ["code"]
            src, want = "".join("    " + l + "\n" for l in lines[:-1]) + "    " + lines[-1], "\n".join(lines)
        st = md.block.state_cls()
        st.process(src)
        try:
            md.block.parse(st)
        except Exception:
            continue
        k += 1
        codes = [t for t in st.tokens if t["type"] == "block_code"]
        got = codes[0]["raw"] if codes else None
        if got is None or got.rstrip("\n") != want.rstrip("\n") or (kind == "closed" and got != want):
            ctx.fail("verbatim:block-parser-unterminated-source:" + kind, "BlockParser.parse on %r (no final line end): code %r, expected %r" % (src, got, want), {"doc": src, "kind": "bare-" + kind, "expected": want, "got": got})
    return k


def run(ctx):
    ctx.broken += common.proof_stage(ctx, THEOREMS)
    replay_known(ctx)
    template_tie(ctx)
    tdocs = []
    for _ in range(1500 if ctx.quick() else 15000):
        r = ctx.rng.random()
        tdocs.append((fenced_case(ctx.rng) if r < 0.6 else indented_case(ctx.rng) if r < 0.8 else span_case(ctx.rng))["doc"])
    common.model_tie(ctx, tdocs, "core", "doc")
    n = oracle(ctx, 6000 if ctx.quick() else 80000)
    n += extra_cases(ctx, 400 if ctx.quick() else 4000)
    n += bare_block_parser(ctx, 300 if ctx.quick() else 4000)
    if ctx.broken and not [f for f in ctx.failures if not ctx.is_known(f["signature"])]:
        ctx.notes.append("search mode entered")
        n += oracle(ctx, 60000)
    ctx.cov.update({
        "evaluations": n, "distinct_nontrivial": n,
        "rule": "constructed cases with their expected text: fenced blocks (fence char x length 3..6 x indent 0..3 x info x closed/unclosed x container top/quote/bullet/ordered/quote-in-list, "
                "bodies with fence-like runs, entities, backslashes, blank/whitespace-only/indented/tab lines), indented code (all five ways to write the indent, interior blank lines), code spans "
                "(1..3 backticks, inner backtick runs of other lengths, newlines, edge spaces); token raw and unescaped HTML compared with the expected text",
        "samples": [fenced_case(ctx.rng)["doc"], span_case(ctx.rng)["doc"]],
    })
    ctx.assumptions += ["clauses (i), (ii) and (iii) are theorems about the Lean transcriptions of parse_fenced_code / parse_indent_code / parse_codespan (handler level: given the opening match; any subject, any body, any fence length); "
                        "that the transcriptions behave like the Python handlers is checked by the full-tree model correspondence on this run's fenced / indented / span documents, and that the opening rule fires where the "
                        "document has a fence or a back-tick run (and containers hand the handler the de-prefixed text) is tested by the constructive oracle; clause (ii) (indented code) is tested; "
                        "clause (iv) rests on escape_roundtrip + the probed shape of the two render methods",
                        "html.unescape agrees with the four-entity decoder on escape's image (C18)"]


def replay(ctx, path):
    r = json.load(open(path))["replay"]
    import mistune
    print(json.dumps(mistune.create_markdown(renderer=None)(r["doc"]))[:2000])
    return 1
