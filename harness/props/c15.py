"""C15 — tables of contents mirror the document's headings.

Decided by: Lean theorem `toc_wf` about the model of `render_toc_ul` for EVERY list of levels (well-formed
nested list, every entry once in order, nested under the closest preceding shallower entry); tied to the
code by exact string comparison of model and implementation on all level sequences up to a length plus
long random ones.  The hook / directive clauses (ids, selection by level range, text) are evaluated on the
implementation against an independent computation from the token list."""
import itertools, re
from html.parser import HTMLParser
import common, gen, configs
from common import enc, dec

LEVEL = "proof"
THEOREMS = ["Mistune.toc_wf", "Mistune.toc_items", "Mistune.toc_stack_sorted"]


# ---------------------------------------------------------------- render_toc_ul: independent oracle
class TocTree(HTMLParser):
    def __init__(self):
        super().__init__(convert_charrefs=False)
        self.stack = []       # open elements: ('ul',) / ('li', entry or None)
        self.ok = True
        self.why = ""
        self.records = []     # (href, [ancestor hrefs innermost first])
        self.in_a = None

    def bad(self, why):
        if self.ok:
            self.ok, self.why = False, why

    def handle_starttag(self, tag, attrs):
        top = self.stack[-1] if self.stack else None
        if tag == "ul":
            if top is not None and not (top[0] == "li" and top[1] is not None):
                self.bad("ul not directly inside an li that has its entry")
            self.stack.append(["ul"])
        elif tag == "li":
            if top is None or top[0] != "ul":
                self.bad("li not directly inside ul")
            self.stack.append(["li", None])
        elif tag == "a":
            if top is None or top[0] != "li" or top[1] is not None:
                self.bad("a not first thing inside li")
            else:
                href = dict(attrs).get("href")
                top[1] = href
                self.records.append((href, [e[1] for e in reversed(self.stack[:-1]) if e[0] == "li"]))
            self.in_a = True
        else:
            self.bad("unexpected tag " + tag)

    def handle_endtag(self, tag):
        if tag == "a":
            self.in_a = None
            return
        if not self.stack or self.stack[-1][0] != tag:
            self.bad("close %s does not match" % tag)
            return
        self.stack.pop()

    def handle_data(self, data):
        if data.strip() and not self.in_a:
            self.bad("stray text %r" % data)


def spec_anc(levels):
    out = []
    for i, lv in enumerate(levels):
        chain, cur = [], lv
        for j in range(i - 1, -1, -1):
            if levels[j] < cur:
                chain.append(j)
                cur = levels[j]
        out.append(chain)
    return out


def check_toc_html(htmltext, levels):
    """returns None if fine else a description"""
    if not levels:
        return None if htmltext == "" else "non-empty output for no items"
    p = TocTree()
    p.feed(htmltext)
    p.close()
    if not p.ok:
        return p.why
    if p.stack:
        return "unclosed elements"
    hrefs = [r[0] for r in p.records]
    if hrefs != ["#k%d" % i for i in range(len(levels))]:
        return "entries are not exactly the items in order"
    anc = spec_anc(levels)
    for i, (h, chain) in enumerate(p.records):
        if chain != ["#k%d" % j for j in anc[i]]:
            return "entry %d is nested under %s, expected under entries %s" % (i, chain, anc[i])
    return None


def level_seqs(ctx, big=False):
    k = 6 if (big or not ctx.quick()) else 5
    seqs = [list(t) for n in range(k + 1) for t in itertools.product(range(1, 7), repeat=n)]
    for _ in range(3000 if (big or not ctx.quick()) else 600):
        n = ctx.rng.randint(7, 60)
        mode = ctx.rng.random()
        if mode < 0.5:
            seqs.append([ctx.rng.randint(1, 6) for _ in range(n)])
        else:   # walks with occasional jumps, levels outside 1..6 too (the function takes any integers)
            cur, s = ctx.rng.randint(1, 6), []
            for _ in range(n):
                cur = max(0, cur + ctx.rng.choice([-3, -2, -1, -1, 0, 0, 1, 1, 2, 5]))
                s.append(cur)
            seqs.append(s)
    return seqs


def toc_list_part(ctx, seqs):
    from mistune.toc import render_toc_ul
    d = common.Driver()
    outs = d.batch([("toc", ",".join(map(str, s))) for s in seqs] + [("toc_check", ",".join(map(str, s))) for s in seqs[-300:]])
    bad = 0
    for s, got in zip(seqs, outs):
        real = render_toc_ul([(lv, "k%d" % i, "t%d" % i) for i, lv in enumerate(s)])
        if real != dec(got):
            bad += 1
            if bad <= 3:
                ctx.broken.append("correspondence: render_toc_ul(levels=%s): model %r vs implementation %r" % (s, dec(got), real))
        why = check_toc_html(real, s)
        if why:
            ctx.fail("toc-list:" + why.split(" ")[0], "render_toc_ul on levels %s: %s" % (s, why), {"kind": "list", "levels": s, "out": real})
        # the documented parameter type is Iterable: tuples, iterators, generators and filter/map objects must give the same list
        items = [(lv, "k%d" % i, "t%d" % i) for i, lv in enumerate(s)]
        if len(s) <= 12:
            for nm, mk in (("tuple", lambda: tuple(items)), ("iter", lambda: iter(items)), ("generator", lambda: (it for it in items)), ("filter", lambda: filter(None, items)),
                           ("map", lambda: map(lambda it: it, items))):
                try:
                    alt = render_toc_ul(mk())
                except Exception as e:
                    alt = "EXC %r" % e
                if alt != real:
                    ctx.fail("toc-list:iterable:" + nm, "render_toc_ul(%s of the items for levels %s) gives %r, the list gives %r" % (nm, s, alt[:120], real[:120]), {"kind": "list", "levels": s, "out": alt, "iterable": nm})
                    break
    for got in outs[len(seqs):]:
        if got != "ok":
            ctx.broken.append("model self-check: checkEvs(renderToc) ≠ ancSpec evaluated in the driver")
    return bad


# ---------------------------------------------------------------- hook and directive on documents
class TextOf(HTMLParser):
    def __init__(self):
        super().__init__(convert_charrefs=False)
        self.out = []

    def handle_data(self, d): self.out.append(d)
    def handle_entityref(self, n): self.out.append("&%s;" % n)
    def handle_charref(self, n): self.out.append("&#%s;" % n)


def text_of(htmltext):
    p = TextOf(); p.feed(htmltext); p.close()
    return "".join(p.out)


HEAD_PLUGINS = ["strikethrough", "mark", "insert", "superscript", "subscript", "math", "ruby", "spoiler", "abbr", "footnotes"]
HEAD_TEXTS = ["alpha", "beta *em* gamma", "`code` here", "a **strong** b", "x &amp; y", "[link](http://u.v) z", "tail <b>raw</b> t",
              "q < r", "plain words here", "![img](i.png) cap", "one\\*two", "e ~~s~~ f", "",
              "c <!-- x > y --> d", "<!-- a --> b <i>c</i>", "e <!-- --> f <!-- > -->", "x <a href=\"u\">l</a> y", "<span class=\"k\">s</span> t <!-- <b> -->", "[l](/u \"a>b\") m", "![a > b](/i.png) n",
              "[foo][bar] and [baz]", "see [baz] x", "Release notes  \nVersion two", "line one\\\nline two", "soft\nbreak", "a  \nb  \nc", "==Breaking== changes", "H~2~O and x^2^", "a ^^ins^^ b", "$e=mc$ q", "[ruby(rt)] r", ">!sp!< s", "plain = sign", "1 + 1 = 2", "<span title=\"a>b\">x</span> y", "foo <!-- a >\n b --> bar", "<i data-x='>'>k</i> l",
              # attribute values that hold the other kind of quote (apostrophes in alt texts and titles, quotes inside single-quoted values)
              "Logo ![Bob's photo](p.png) cap", "[docs](/d \"User's guide\") m", "[d](/d 'say \"hi\"') n", "<span title=\"it's\">x</span> y", "<i data-x='a\"b'>k</i> l", "![say \"cheese\"](c.png) o",
              "![a'b\"c](x.png) p",
              # abbreviations (defined at the end of every document) after an escape or an unmatched delimiter in the same heading
              "C\\# bindings for the HTML parser", "a [ b HTML c", "x * the W3C y", "HTML", "pre\\*HTML\\* post", "`c` HTML <b>W3C</b>", "[it's](/u) q 'r'", "<b class=x title=it's>u</b> v", "<a href=\"u\" title='w\"x' data-y=\"z'\">l</a> m",
              # a footnote reference in a heading (the marker word fnword identifies these entries): known finding, see known_findings.json
              "fnword[^n1] here", "see fnword [^n1]"]


FN_SIG = "toc:entry-shows-footnote-reference-source"


def fn_only_diff(got, exp):
    """the two entry lists differ only in entries whose text shows the source of a footnote reference (`fnword[^n1]`): the known finding"""
    return got != exp and len(got) == len(exp) and all(g == e or (tuple(g[:-1]) == tuple(e[:-1]) and "fnword" in g[-1] and "[^" in g[-1]) for g, e in zip(got, exp))


def fn_report(ctx, got, exp, rep):
    ctx.fail(FN_SIG, "TOC entries %r show the source text of a footnote reference where the heading shows %r" % ([g for g, e in zip(got, exp) if g != e][:2], [e for g, e in zip(got, exp) if g != e][:2]), rep)


def heading_doc(rng):
    lines, n = [], rng.randint(0, 9)
    for _ in range(n):
        r = rng.random()
        lvl = rng.randint(1, 6)
        txt = rng.choice(HEAD_TEXTS)
        if "\n" in txt:
            lines.append(txt + "\n" + ("===" if lvl % 2 else "---"))       # a heading text of two lines exists only in setext form
        elif r < 0.6:
            lines.append("#" * lvl + " " + txt)
        elif r < 0.7 and txt and "\\" not in txt:
            lines.append(txt + "\n" + ("===" if lvl % 2 else "---"))
        elif r < 0.8:
            lines.append("> " + "#" * lvl + " nested " + txt)
        elif r < 0.9:
            lines.append("- " + "#" * lvl + " nested " + txt)
        else:
            lines.append("para " + txt)
        lines.append("")
    return "\n".join(lines) + "\n[bar]: /u\n[baz]: /v 'T'\n\n*[HTML]: Hyper Text\n*[W3C]: Consortium\n\n[^n1]: the note\n"


def expected_items(doc, lo, hi, all_ids=False, escape=True):
    """independent: from the token list of a hook-free parser"""
    import mistune
    ast = mistune.create_markdown(renderer="ast", plugins=HEAD_PLUGINS)(doc)
    hmd = mistune.create_markdown(escape=escape, plugins=HEAD_PLUGINS)
    heads = [t for t in ast if t["type"] == "heading"]
    if not all_ids:
        heads = [t for t in heads if lo <= t["attrs"]["level"] <= hi]
    items = []
    for i, t in enumerate(heads):
        st = mistune.BlockState()
        h = hmd.renderer(t["children"], st)
        items.append((t["attrs"]["level"], "toc_%d" % (i + 1), text_of(h).strip()))
    if all_ids:
        items = [it for it in items if lo <= it[0] <= hi]
    return items, len(heads)


def hook_part(ctx, n_docs):
    import mistune
    from mistune.toc import add_toc_hook, render_toc_ul
    n = 0
    for _ in range(n_docs):
        doc = heading_doc(ctx.rng)
        lo = ctx.rng.randint(1, 4); hi = ctx.rng.randint(lo, 6)
        esc = ctx.rng.random() < 0.65       # with escaping off raw tags and comments reach the heading HTML, and "markup removed" must remove them
        md = mistune.create_markdown(escape=esc, plugins=HEAD_PLUGINS)
        add_toc_hook(md, lo, hi)
        try:
            html, state = md.parse(doc)
        except Exception as e:
            ctx.fail("toc-hook:exception", "toc hook raised %r" % e, {"kind": "hook", "doc": doc, "min": lo, "max": hi, "escape": esc})
            continue
        n += 1
        # texts are compared modulo surrounding ASCII whitespace: a setext heading's source text keeps its final
        # newline, which the TOC entry shows as a trailing "\n" inside the <a> (insignificant in HTML, not "markup")
        got = [(x[0], x[1], x[2].strip()) for x in state.env.get("toc_items", [])]
        exp, nheads = expected_items(doc, lo, hi, escape=esc)
        if fn_only_diff(got, exp):
            fn_report(ctx, got, exp, {"kind": "hook", "doc": doc, "min": lo, "max": hi, "escape": esc})
            got = exp
        if got != exp:
            ctx.fail("toc-hook:items", "toc_items %r differ from the top-level headings in range %r (escape=%s)" % (got, exp, esc), {"kind": "hook", "doc": doc, "min": lo, "max": hi, "escape": esc})
            continue
        ids = re.findall(r'<h[1-6] id="([^"]*)"', html)
        if ids != [e[1] for e in exp]:
            ctx.fail("toc-hook:ids", "heading ids in HTML %r differ from the entries %r" % (ids, [e[1] for e in exp]), {"kind": "hook", "doc": doc, "min": lo, "max": hi})
        toc_html = render_toc_ul(state.env.get("toc_items", []))
        links = re.findall(r'<a href="#([^"]*)">', toc_html)
        if links != ids:
            ctx.fail("toc-hook:links", "TOC links %r do not match heading ids %r" % (links, ids), {"kind": "hook", "doc": doc, "min": lo, "max": hi})
    return n


FOOTER = "\n[bar]: /u\n[baz]: /v 'T'\n\n*[HTML]: Hyper Text\n*[W3C]: Consortium\n\n[^n1]: the note\n"


def history_docs(rng):
    """documents for ONE converter: the same headings with the definitions present, absent and changed, and unrelated ones --
    an entry must show the heading text of ITS document, whatever the converter rendered before"""
    base = heading_doc(rng)
    assert base.endswith(FOOTER)
    body = base[:-len(FOOTER)]
    forced = rng.choice(["# [baz]\n\n", "## see [foo][bar]\n\n", "# the HTML of W3C\n\n", "[baz] title\n===\n\n"])
    body = forced + body
    variants = [body + FOOTER, body + "\n", body + "\n[bar]: /other\n[baz]: /w\n\n*[HTML]: Other Words\n", body + "\n[baz]: /v\n\n*[W3C]: Else\n",
                heading_doc(rng), body + FOOTER]
    rng.shuffle(variants)
    return variants[:rng.randint(2, 6)]


def history_part(ctx, n_hist):
    """hook and directive on a converter that is reused for several documents"""
    import mistune
    from mistune.toc import add_toc_hook
    from mistune.directives import FencedDirective, RSTDirective, TableOfContents
    n = 0
    for _ in range(n_hist):
        docs = history_docs(ctx.rng)
        lo = ctx.rng.randint(1, 2); hi = ctx.rng.randint(max(lo, 2), 6)
        esc = ctx.rng.random() < 0.7
        mode = ctx.rng.choice(["hook", "hook", "fenced", "rst"])
        if mode == "hook":
            md = mistune.create_markdown(escape=esc, plugins=HEAD_PLUGINS)
            add_toc_hook(md, lo, hi)
        else:
            esc = True
            d = FencedDirective([TableOfContents()]) if mode == "fenced" else RSTDirective([TableOfContents()])
            md = mistune.create_markdown(escape=True, plugins=HEAD_PLUGINS + [d])
        for j, doc in enumerate(docs):
            rep = {"kind": "history", "mode": mode, "docs": docs[:j + 1], "min": lo, "max": hi, "escape": esc}
            try:
                if mode == "hook":
                    html, state = md.parse(doc)
                    got = [(x[0], x[1], x[2].strip()) for x in state.env.get("toc_items", [])]
                    exp, _ = expected_items(doc, lo, hi, escape=esc)
                else:
                    head = ("```{toc}\n:min-level: %d\n:max-level: %d\n```\n\n" if mode == "fenced" else ".. toc::\n   :min-level: %d\n   :max-level: %d\n\n") % (lo, min(hi, 3))
                    html = md(head + doc)
                    blk = re.findall(r'<details class="toc"[^>]*>\n<summary>.*?</summary>\n(.*?)</details>\n', html, re.S)
                    exp, _ = expected_items(doc, lo, min(hi, 3), all_ids=True)
                    got = [(l, a, b.strip()) for (l, _, _), (a, b) in zip(exp, re.findall(r'<a href="#([^"]*)">(.*?)</a>', blk[0] if blk else "", re.S))]
                    if blk and len(re.findall(r'<a href="#', blk[0])) != len(exp):
                        got = got + [("count", len(re.findall(r'<a href="#', blk[0])), "")]
            except Exception as e:
                ctx.fail("toc-history:exception", "document %d of a history on one converter (%s) raised %r" % (j + 1, mode, e), rep)
                break
            n += 1
            if fn_only_diff(got, exp):
                fn_report(ctx, got, exp, rep)
            elif got != exp:
                ctx.fail("toc-history:items", "document %d rendered by a converter (%s) that rendered %d document(s) before: entries %r differ from its own headings %r" % (j + 1, mode, j, got, exp), rep)
                break
    return n


def directive_part(ctx, n_docs):
    import mistune
    from mistune.directives import FencedDirective, RSTDirective, TableOfContents
    n = 0
    for _ in range(n_docs):
        body = heading_doc(ctx.rng)
        fenced = ctx.rng.random() < 0.5
        d = FencedDirective([TableOfContents()]) if fenced else RSTDirective([TableOfContents()])
        both = ctx.rng.random() < 0.25      # the other syntax is enabled too, with a TableOfContents of its own
        k = ctx.rng.choice([1, 1, 2, 3])          # several directives with different ranges in one document
        ranges, parts = [], [body]
        for _ in range(k):
            lo = ctx.rng.randint(1, 3); hi = ctx.rng.randint(lo, 3)
            ranges.append((lo, hi))
            if fenced:
                sp1, sp2 = ctx.rng.choice([" ", " ", "", "  "]), ctx.rng.choice([" ", " ", "", "\t"])       # the blank after ":name:" is optional
                gap = ctx.rng.choice(["", "", "\n", "\n\n"])          # option lines may be separated by empty lines
                pre_opt = ctx.rng.choice(["", "", ":collapse:\n", ":collapse:\n\n"])
                head = "```{toc} Contents\n%s:min-level:%s%d\n%s:max-level:%s%d\n```\n\n" % (pre_opt, sp1, lo, gap, sp2, hi)
            else:
                gap = ctx.rng.choice(["", "", "\n", "\n\n"])
                pre_opt = ctx.rng.choice(["", "", "   :collapse:\n", "   :collapse:\n\n"])
                head = ".. toc:: Contents\n%s   :min-level: %d\n%s   :max-level: %d\n\n" % (pre_opt, lo, gap, hi)
            if ctx.rng.random() < 0.6:
                parts.insert(0, head)
                ranges.insert(0, ranges.pop())
            else:
                parts.append("\n" + head)
        doc = "".join(parts)
        extra = [RSTDirective([TableOfContents()]) if fenced else FencedDirective([TableOfContents()])] if both else []
        md = mistune.create_markdown(escape=True, plugins=HEAD_PLUGINS + ([d] + extra if ctx.rng.random() < 0.5 else extra + [d]))
        try:
            html = md(doc)
        except Exception as e:
            ctx.fail("toc-directive:exception", "toc directive raised %r" % e, {"kind": "directive", "doc": doc})
            continue
        n += 1
        blocks = re.findall(r'<details class="toc"[^>]*>\n<summary>(.*?)</summary>\n(.*?)</details>\n', html, re.S)
        if len(blocks) != k:
            ctx.fail("toc-directive:missing", "%d TOC blocks in output, expected %d" % (len(blocks), k), {"kind": "directive", "doc": doc})
            continue
        nheads = None
        for (lo, hi), blk in zip(ranges, blocks):
            exp, nheads = expected_items(body, lo, hi, all_ids=True)
            entries = [(a, b.strip()) for a, b in re.findall(r'<a href="#([^"]*)">(.*?)</a>', blk[1], re.S)]
            if fn_only_diff(entries, [(e[1], e[2]) for e in exp]):
                fn_report(ctx, entries, [(e[1], e[2]) for e in exp], {"kind": "directive", "doc": doc})
            elif entries != [(e[1], e[2]) for e in exp]:
                ctx.fail("toc-directive:entries", "TOC (levels %d..%d) entries %r differ from the headings in range %r" % (lo, hi, entries, exp), {"kind": "directive", "doc": doc})
            lv = [e[0] for e in exp]
            p = TocTree(); p.feed(blk[1]); p.close()
            if lv and (not p.ok or p.stack):
                ctx.fail("toc-directive:malformed", "TOC list malformed: %s" % p.why, {"kind": "directive", "doc": doc})
        ids = re.findall(r'<h[1-6] id="([^"]*)"', html)
        if ids != ["toc_%d" % (i + 1) for i in range(nheads)]:
            ctx.fail("toc-directive:ids", "heading ids %r are not toc_1..toc_%d in order" % (ids, nheads), {"kind": "directive", "doc": doc})
    return n


def include_part(ctx):
    """documents assembled with the include directive (the same file may be included more than once): ids stay unique, in
    document order, and every TOC entry links to a heading that carries its id"""
    import mistune, tempfile, shutil, os
    from mistune.toc import add_toc_hook
    from mistune.directives import FencedDirective, RSTDirective, Include, TableOfContents
    n = 0
    tmp = tempfile.mkdtemp(prefix="verif-c15-")
    try:
        def w(name, text):
            with open(os.path.join(tmp, name), "w", encoding="utf-8") as f:
                f.write(text)
        w("shared.md", "## Shared notice\n\ntext\n\n### Details\n\nmore\n")
        w("other.md", "# Other\n\n## Sub *em*\n")
        for style in ("rst", "fenced"):
            inc = (lambda f: ".. include:: %s\n\n" % f) if style == "rst" else (lambda f: "```{include} %s\n```\n\n" % f)
            toc = ".. toc::\n   :max-level: 3\n\n" if style == "rst" else "```{toc}\n:max-level: 3\n```\n\n"
            D = RSTDirective if style == "rst" else FencedDirective
            for mode in ("hook", "directive"):
                body = "# Main\n\n" + inc("shared.md") + "## Middle\n\n" + inc("shared.md") + inc("other.md") + inc("shared.md") + "## End\n"
                w("page.md", (toc if mode == "directive" else "") + body)
                md = mistune.create_markdown(plugins=[D([Include()] + ([TableOfContents()] if mode == "directive" else []))])
                if mode == "hook":
                    add_toc_hook(md, 1, 3)
                try:
                    html, state = md.read(os.path.join(tmp, "page.md"))
                except Exception as e:
                    ctx.fail("toc-include:exception", "reading a page with includes raised %r" % e, {"kind": "include", "style": style, "mode": mode}); continue
                n += 1
                ids = re.findall(r'<h[1-6] id="([^"]*)"', html)
                nheads = len(re.findall(r"<h[1-6][ >]", html))
                rep = {"kind": "include", "style": style, "mode": mode, "html": html[:1500]}
                if ids != ["toc_%d" % (i + 1) for i in range(len(ids))] or len(ids) != nheads:
                    ctx.fail("toc-include:ids", "heading ids of a page that includes the same file several times are %r (%d headings): not unique ids in document order" % (ids, nheads), rep)
                    continue
                if mode == "hook":
                    from mistune.toc import render_toc_ul
                    links = re.findall(r'<a href="#([^"]*)">', render_toc_ul(state.env.get("toc_items", [])))
                else:
                    blk = re.search(r'<details class="toc".*?</details>', html, re.S)
                    links = re.findall(r'<a href="#([^"]*)">', blk.group(0)) if blk else None
                if links != ids:
                    ctx.fail("toc-include:links", "TOC links %r do not match the heading ids %r" % (links, ids), rep)
    finally:
        shutil.rmtree(tmp, ignore_errors=True)
    return n


def replay_known(ctx):
    import mistune
    from mistune.toc import add_toc_hook
    for k in ctx.known:
        ex = k.get("example") or {}
        if "doc" not in ex:
            continue
        md = mistune.create_markdown(plugins=["footnotes"])
        add_toc_hook(md)
        html, state = md.parse(ex["doc"])
        got = [(x[0], x[1], x[2].strip()) for x in state.env.get("toc_items", [])]
        if any("[^" in g[2] for g in got):
            ctx.fail(k["signature"], "stored example of a known finding: the TOC entry of %r is %r" % (ex["doc"], got), {"kind": "hook", "doc": ex["doc"], "min": 1, "max": 3, "escape": True})
        else:
            ctx.notes.append("a stored known-finding example no longer fails: %r" % ex["doc"])


def run(ctx):
    ctx.broken += common.proof_stage(ctx, THEOREMS)
    replay_known(ctx)
    seqs = level_seqs(ctx)
    toc_list_part(ctx, seqs)
    nh = hook_part(ctx, 400 if ctx.quick() else 4000)
    nd = directive_part(ctx, 300 if ctx.quick() else 3000)
    nd += include_part(ctx)
    nhist = history_part(ctx, 120 if ctx.quick() else 1500)
    if ctx.broken and not ctx.failures:
        ctx.notes.append("search mode entered")
        toc_list_part(ctx, level_seqs(ctx, big=True))
        nh += hook_part(ctx, 5000)
        nd += directive_part(ctx, 4000)
    ctx.cov.update({
        "evaluations": len(seqs) + nh + nd + nhist,
        "history_documents": nhist,
        "distinct_nontrivial": len(set(tuple(s) for s in seqs if len(set(s)) > 1)),
        "rule": "ALL level sequences over 1..6 up to length %d (exhaustive) + seeded long random sequences/walks (levels may leave 1..6) for render_toc_ul, "
                "model vs implementation string-exact and an independent html.parser nesting oracle; %d hook documents and %d directive documents against an independent "
                "computation from the token list; non-trivial = at least two different levels" % (5 if ctx.quick() else 6, nh, nd),
        "samples": [seqs[500], seqs[-1]],
        "traces_validated_against_impl": len(seqs), "disagreements_checked": len(seqs),
        "exhaustive_up_to_length": 5 if ctx.quick() else 6,
    })
    ctx.assumptions += ["the anchor text/id of an entry does not influence the list structure (the model abstracts each `<a …>` to an item event; string-exact comparison uses ids k<i>, texts t<i>)",
                        "hook/directive clauses (ids, range selection, text) are tested on the implementation, not proved"]


def replay(ctx, path):
    import json
    from mistune.toc import render_toc_ul
    r = json.load(open(path))["replay"]
    if r.get("kind") == "list":
        s = r["levels"]
        real = render_toc_ul([(lv, "k%d" % i, "t%d" % i) for i, lv in enumerate(s)])
        why = check_toc_html(real, s)
        print(real); print("oracle:", why)
        return 1 if why else 0
    print(r)
    return 1
