"""C03 — parsing neither loses nor duplicates document text.

Decided by (Lean): the partition theorems of the scanner loops (`blockLoop_partition*` / `inlineLoop_partition*`,
`MistuneProofs/C03Partition.lean`: holes, handled spans, declined spans and the tail tile the source from the start
cursor to its end — no gap, no overlap, texts concatenate to the source, no rule matches inside a hole — for ANY
rule table and handler returns that satisfy the progress contract), tied to the code by the loop-trace replay
(the real loops' iterations on this run's documents replayed through the model loops); and `iterRender_length`/`iterRender_shape` for the second pass.  That each HANDLER keeps the
words of the span it consumed is not a theorem: it is the word-multiset oracle below (with the MISTUNE_VERIF
hook giving the exact slices of consumed reference definitions)."""
import re, json
from collections import Counter
import common, gen, configs

LEVEL = "proof"
THEOREMS = ["Mistune.blockLoop_total", "Mistune.inlineLoop_total", "Mistune.blockLoop_iterations", "Mistune.scan_sound",
            "Mistune.iterRender_length", "Mistune.iterRender_shape",
            # the loops PARTITION the source: holes (-> paragraph text / text tokens), handled spans, declined spans and the tail tile [cursor, n) without gap or
            # overlap, their texts concatenate to the source, and no rule matches anywhere inside a hole or the tail
            "Mistune.blockLoop_partition", "Mistune.blockLoop_partition_disjoint", "Mistune.blockLoop_partition_concat", "Mistune.blockLoop_holes_unclaimed", "Mistune.blockLoop_kinds",
            "Mistune.blockLoop_partition_total", "Mistune.inlineLoop_partition", "Mistune.inlineLoop_partition_disjoint", "Mistune.inlineLoop_partition_concat", "Mistune.inlineLoop_holes_unclaimed",
            "Mistune.inlineLoop_kinds", "Mistune.inlineLoop_partition_total",
            # list items: the de-indentation of the item text loses, duplicates or reorders no character other than leading blanks / tabs, keeps the line structure,
            # and is anchored at the line start (lines written with the item's indentation come back verbatim)
            "Mistune.expandTab_eq", "Mistune.replaceFirst_prefix", "Mistune.cleanListItemText_eq", "Mistune.cleanListItemText_eq_ofRuleCfg", "Mistune.clean_conserve",
            "Mistune.clean_line_count", "Mistune.clean_verbatim"]

WORD = re.compile(r"[A-Za-z]+")
PLUGIN_SETS = [[], ["task_lists"], ["task_lists", "table", "def_list"], ["table"], ["def_list"], ["strikethrough", "mark", "insert", "superscript", "subscript"], ["speedup"], ["spoiler"],
               ["table", "def_list", "strikethrough", "mark", "insert", "superscript", "subscript", "spoiler", "speedup"], ["url"], ["math", "ruby"]]

TOKS = [t for t in gen.INLINE_TOKS if "&" not in t and "%" not in t and "[x]" not in t and all(ord(c) < 128 for c in t) and "[^" not in t and "*[" not in t]
STARTS = [t for t in gen.LINE_STARTS if "&" not in t and "[^" not in t and "*[" not in t and "{" not in t and ".. " not in t and "[x]" not in t and "[ ]" not in t and ":depth" not in t and ":class" not in t]


WORD_URL = re.compile(r"https?(?=://)|[A-Za-z]+?(?=https?://)|[A-Za-z]+")
_mode = {"url": False}


DEF_SHAPE = re.compile(r"""\A[ \t]{0,3}\[(?:[^\[\]\\]|\\.)+\]:[ \t]*\n?[ \t]*(?:<[^<>\n]*>|[^\s<][^\s]*)(?:[ \t]*\n?[ \t]*(?:"(?:[^"\\]|\\.)*"|'(?:[^'\\]|\\.)*'))?[ \t]*\n?\Z""", re.S)


def words(s):
    # with the url plugin a bare URL starts a token even in the middle of a letter run: segment the same way on both sides
    return Counter((WORD_URL if _mode["url"] else WORD).findall(s))


def table_block(rng):
    k = rng.randint(1, 4)
    pipe = rng.random() < 0.6
    def row(n):
        sep = lambda: (rng.choice(gen.EXOTIC_BREAKS + [" \\| ", "\t"]) if rng.random() < 0.12 else " ")
        cells = [sep().join(rng.choice(gen.WORDS) for _ in range(rng.randint(1, 2))) for _ in range(n)]
        return ("| " + " | ".join(cells) + " |") if pipe else " | ".join(cells)
    out = [row(k), ("|" + "|".join(rng.choice(["---", ":-:", "--:", ":--"]) for _ in range(k)) + "|") if pipe else " | ".join("---" for _ in range(k))]
    for _ in range(rng.randint(0, 3)):
        out.append(row(max(1, k + rng.choice([0, 0, 0, 1, -1, 2]))))
    return out


def deflist_block(rng):
    out = [rng.choice(gen.WORDS)]
    for _ in range(rng.randint(1, 3)):
        out.append(":   " + " ".join(rng.choice(gen.WORDS) for _ in range(rng.randint(1, 3))))
        if rng.random() < 0.3:
            out.append("    " + rng.choice(gen.WORDS))
    return out


def refdef_block(rng):
    w = lambda: rng.choice(gen.WORDS)
    label = rng.choice(["foo", "bar", "Foo  Bar", w()])
    out = ["%s[%s]:%s%s" % (rng.choice(["", " ", "   "]), label, rng.choice([" ", "\n", "  "]), rng.choice(["/" + w(), "<" + w() + " " + w() + ">", w()]))]
    r = rng.random()
    q = rng.choice(['"%s"', "'%s'", "(%s)"])
    if r < 0.3:
        out[-1] += " " + q % (w() + " " + w())                       # title on the same line
    elif r < 0.5:
        out.append(q % w())                                          # title on the next line
    elif r < 0.75:
        out.append(q % w() + " " + w())                              # NOT a title: text follows on the line
    elif r < 0.85:
        out[-1] += " " + q % w() + " " + w()                         # trailing text after the title: not a definition at all
    out.append("")
    out.append("see [%s] and [%s][%s]" % (label, w(), label))
    if rng.random() < 0.35:
        # a later line that starts like a definition of the same (already defined) label but is not one: ordinary text
        out.append("")
        out.append("%s[%s]: %s %s %s" % (rng.choice(["", "> ", "- "]), label, w(), w(), w()))
    return out


def bracket_items(rng):
    """list items that begin with a one-character bracket which is NOT a task marker (kept as text by the task_lists plugin)"""
    w = lambda: rng.choice(gen.WORDS)
    out = []
    for _ in range(rng.randint(1, 3)):
        out.append("%s [%s] %s %s" % (rng.choice(["-", "*", "1.", "+"]), rng.choice(["1", "a", "-", "/", "?", "y", "0"]), w(), w()))
    return out + [""]


def nested_inline(rng):
    """links, images and code nested in each other's text (destinations, titles and labels of the inner ones are document words too)"""
    w = lambda: rng.choice(gen.WORDS)
    inner = rng.choice(["[%s](/%s '%s')" % (w(), w(), w()), "[%s][foo]" % w(), "![%s](/%s \"%s\")" % (w(), w(), w()), "`%s`" % w(), "*%s*" % w(), "<%s@%s.com>" % (w(), w())])
    outer = rng.choice(["![%s %s %s](/%s)", "[%s %s %s](/%s)", "![%s %s %s][bar] %s", "*%s %s %s* %s", "[%s %s %s]: %s"])
    line = outer % (w(), inner, w(), w())
    return [line, "", "[foo]: /%s '%s'" % (w(), w()), "[bar]: </%s>" % w(), ""]


def doc(rng):
    lines = []
    for _ in range(rng.randint(1, 8)):
        r0 = rng.random()
        if r0 < 0.05:
            lines += refdef_block(rng) + [""]; continue
        r0 = rng.random()
        if r0 < 0.08:
            lines += table_block(rng) + [""]; continue
        if r0 < 0.12:
            lines += deflist_block(rng) + [""]; continue
        if r0 < 0.17:
            lines += nested_inline(rng); continue
        if r0 < 0.20:
            lines += bracket_items(rng); continue
        if r0 < 0.25:
            # a list item with a wide marker (content column 3..7) followed, without a blank line, by lines led by blanks and tabs in every
            # mixture (continuation / lazy continuation / code, decided after tab expansion) and then by plain lines: the offsets of the item
            # loop are computed on expanded text but applied to the source
            w = lambda: " ".join(rng.choice(gen.WORDS) for _ in range(rng.randint(1, 3)))
            lines.append(rng.choice(["100. ", "1.   ", "-    ", "-   ", "12)  ", "* ", "- ", "7.  ", "+     ", "1234567. "]) + w())
            for _ in range(rng.randint(1, 3)):
                lines.append(rng.choice(["\t", " \t", "  \t", "   \t", "   ", "    ", "     ", "\t\t", "  ", " ", "\t ", "      "]) + w())
            for _ in range(rng.randint(0, 2)):
                lines.append(w())
            if rng.random() < 0.5:
                lines.append("")
            continue
        if rng.random() < 0.15:
            lines.append(""); continue
        parts = [rng.choice(STARTS)]
        for _ in range(rng.randint(0, 8)):
            if rng.random() < 0.5:
                parts.append(rng.choice(gen.WORDS) + ((rng.choice(gen.EXOTIC_BREAKS) if rng.random() < 0.04 else " ") if rng.random() < 0.7 else ""))
            else:
                parts.append(rng.choice(TOKS))
        if rng.random() < 0.12:
            # attribute-like endings other dialects give a meaning to (explicit heading ids, classes, trailing hashes): plain text here
            parts.append(rng.choice([" {#%s}", " {.%s}", " {%s}", " {: #%s}", " {#%s} #", " {#%s} ##  ", " #%s", " {#%s .x}", "{#%s}", " {#%s}\\"]) % rng.choice(gen.WORDS))
        lines.append("".join(parts))
    d = "\n".join(lines) + rng.choice(["\n", "", "\n\n"])
    r = rng.random()
    if r < 0.06:
        d = d.replace("\n", "\r")             # classic-Mac line ends
    elif r < 0.12:
        d = d.replace("\n", "\r\n")
    elif r < 0.16 and "\n" in d:
        i = rng.choice([k for k, c in enumerate(d) if c == "\n"])
        d = d[:i] + rng.choice(["\r", "\r\n", "\n\r"]) + d[i + 1:]         # one stray line end of another style
    return d


def leaf_words(tokens, out, where):
    for t in tokens:
        ty = t["type"]
        attrs = t.get("attrs") or {}
        if "raw" in t:
            out.update(words(t["raw"])); where.append((ty, t["raw"]))
        if ty in ("link", "image"):
            child_words = Counter()
            leaf_words(t.get("children", []), child_words, where)
            out.update(child_words)
            if "ref" in t:
                # reference form: url/title belong to the definition (counted there); the label is source text of its own
                # unless it is the collapsed/shortcut form, where the label IS the link text
                if words(t.get("label") or "") != child_words:
                    out.update(words(t.get("label") or ""))
                else:
                    # `[X]`, `[X][]` (label is the text: one occurrence) or `[X][X]` (two): undecidable from the token
                    where.append(("ambiguous-label", t.get("label") or ""))
            else:
                url = attrs.get("url") or ""
                kids = t.get("children", [])
                from mistune.util import escape_url
                is_auto = len(kids) == 1 and kids[0].get("type") == "text" and url in (kids[0]["raw"], "mailto:" + kids[0]["raw"],
                                                                                         escape_url(kids[0]["raw"]), escape_url("mailto:" + kids[0]["raw"]))
                if not is_auto:
                    # the generated documents contain no "%" (side condition), so every %XX of a destination was written by escape_url for a character
                    # of the source (">" becomes %3E): the words of the destination are those of its decoded form
                    from urllib.parse import unquote
                    out.update(words(unquote(url)))
                out.update(words(attrs.get("title") or ""))
            continue
        if ty == "block_code":
            out.update(words(attrs.get("info") or ""))
        if ty == "ruby":
            out.update(words(attrs.get("rt") or ""))
        if "children" in t:
            leaf_words(t["children"], out, where)


def oracle(ctx, docs):
    import mistune
    mds = [(pl, mistune.create_markdown(renderer=None, plugins=pl or None)) for pl in PLUGIN_SETS]
    n = 0
    for d in docs:
        for pl, md in ctx.rng.sample(mds, 2) + [mds[0]]:
            try:
                toks, st = md.parse(d)
            except RecursionError:
                continue
            except Exception:
                continue
            n += 1
            _mode["url"] = "url" in pl
            got, where = Counter(), []
            leaf_words(toks, got, where)
            for sl, key, stored in st.env.get("__verif_defs__", []):
                if not DEF_SHAPE.match(sl):
                    # the hook only says what the handler consumed; whether that text IS a definition is judged here,
                    # independently: label, colon, a destination, optionally a quoted title, nothing else
                    continue
                got.update(words(sl))
                if stored:
                    ent = st.env["ref_links"].get(key) or {}
                    extra = (words(ent.get("title") or "") + words(ent.get("label") or "")) - words(sl)
                    if extra:
                        got.update(extra)      # the table holds words that are not in the slice the definition consumed
            want = words(d)
            if got != want and not (got - want):
                # tolerate the label of ambiguous reference forms being a second occurrence
                slack = Counter()
                for k_, v_ in where:
                    if k_ == "ambiguous-label":
                        slack.update(words(v_))
                if not ((want - got) - slack):
                    got = want
            if got != want:
                lost = want - got; dup = got - want
                kind = "lost" if lost else "duplicated"
                ctx.fail("words-%s" % kind, "plugins %s: words %s: %s for %r" % (pl, kind, dict(lost or dup), d),
                         {"plugins": pl, "doc": d, "lost": dict(lost), "duplicated": dict(dup)})
    return n


def unique_word_part(ctx, n):
    """Constructs whose words C03's general accounting does not model (footnote texts, directive contents): every marker word
    zqN of the document must occur in the token tree exactly once."""
    import mistune
    from mistune.directives import FencedDirective, RSTDirective, Admonition, Figure, Image, TableOfContents
    cnt = 0
    mds = {"footnotes": mistune.create_markdown(renderer=None, plugins=["footnotes", "table"]),
           "fenced": mistune.create_markdown(renderer=None, plugins=["def_list", "footnotes", FencedDirective([Admonition(), Figure(), Image(), TableOfContents()])]),
           "rst": mistune.create_markdown(renderer=None, plugins=["def_list", "footnotes", RSTDirective([Admonition(), Figure(), Image(), TableOfContents()])])}
    for _ in range(n):
        k = [0]
        def w():
            k[0] += 1
            return "zq%d" % k[0]
        r = ctx.rng.random()
        if r < 0.4:
            # a note with continuation lines of varying indentation (1-3 blanks) and further paragraphs
            lines = [ctx.rng.choice(["text[^n] %s", "Read [the manual[^n]](/handbook) %s", "*em[^n]* %s", "| a |\n|---|\n| c[^n] %s |"]) % w(), "", "[^n]: %s" % w()]
            for _ in range(ctx.rng.randint(1, 4)):
                if ctx.rng.random() < 0.3:
                    lines.append("")
                lines.append(" " * ctx.rng.randint(1, 3) + w() + " " + w())
            kind, doc = "footnotes", "\n".join(lines) + "\n\nafter %s\n" % w()
        else:
            follow = ctx.rng.choice([lambda: "- %s\n- %s" % (w(), w()), lambda: "> %s" % w(), lambda: "# %s" % w(), lambda: "```%s\n%s\n```" % (w(), w()), lambda: "%s\n\n%s" % (w(), w()),
                                     lambda: "1. %s" % w(), lambda: "***\n%s" % w(), lambda: "%s\n: %s" % (w(), w())])()
            body = w() + " caption\n" + (follow if ctx.rng.random() < 0.7 else "\n" + follow)
            name = ctx.rng.choice(["figure", "note", "warning"])
            title = "p.png" if name == "figure" else w()
            if ctx.rng.random() < 0.5:
                kind = "fenced"
                doc = "````{%s} %s\n%s\n````\n" % (name, title, body)
            else:
                kind = "rst"
                doc = ".. %s:: %s\n\n%s\n" % (name, title, "\n".join(("   " + l) if l else "" for l in body.split("\n")))
        try:
            toks = mds[kind](doc)
        except Exception:
            continue
        cnt += 1
        dump = json.dumps(toks)
        counts = [len(re.findall(r"zq%d(?![0-9])" % i, dump)) for i in range(1, k[0] + 1)]
        if kind != "footnotes" and name == "figure" and not any(counts) and '"figcaption"' not in dump:
            ctx.fail("figure-without-leading-paragraph", "a figure directive whose content does not start with a paragraph drops its whole content: %r" % doc, {"plugins": [kind], "doc": doc})
            continue
        for i in range(1, k[0] + 1):
            c = counts[i - 1]
            if c != 1:
                ctx.fail("marker-word-%s:%s" % ("lost" if c == 0 else "duplicated", kind), "the word zq%d occurs %d times in the token tree of %r (%s)" % (i, c, doc, kind), {"plugins": [kind], "doc": doc, "count": c})
                break
    return cnt


def run(ctx):
    ctx.broken += common.proof_stage(ctx, THEOREMS)
    docs = [doc(ctx.rng) for _ in range(3000 if ctx.quick() else 40000)]
    common.model_tie(ctx, docs, 'core', 'doc', limit=(1200 if ctx.quick() else 12000))
    common.model_tie(ctx, docs[::3], 'core-hardwrap', 'doc', limit=(400 if ctx.quick() else 4000))
    common.plugin_model_tie(ctx, 250 if ctx.quick() else 3000)
    import importlib
    importlib.import_module("props.c01").trace_correspondence(ctx, docs[:250 if ctx.quick() else 2500], [configs.C("core"), configs.C("all", plugins=configs.PLUGINS)])
    n = oracle(ctx, docs)
    n += unique_word_part(ctx, 600 if ctx.quick() else 8000)
    if ctx.broken and not ctx.failures:
        ctx.notes.append("search mode entered")
        n += oracle(ctx, [doc(ctx.rng) for _ in range(40000)])
    ctx.cov.update({
        "evaluations": n, "distinct_nontrivial": len(set(d for d in docs if len(words(d)) >= 2)),
        "rule": "seeded ASCII documents: vocabulary words embedded in Markdown punctuation, indentation, container prefixes, tables, HTML blocks, reference definitions and uses "
                "(no character references, no '%%': escape_url legitimately rewrites those); the multiset of ASCII-letter words of the input must equal that of the leaves "
                "(raw, info, title, url, label, with auto-links and collapsed references counted once) plus the consumed definition slices reported by the hook; non-trivial = at least two words",
        "samples": docs[:2],
    })
    ctx.assumptions += ["side condition NoDecodedEntityInDest / no percent sign (generator excludes them)", "handler-level word conservation is tested, not proved; the partition of the source by the loops is proved"]


def replay(ctx, path):
    r = json.load(open(path))["replay"]
    import mistune
    md = mistune.create_markdown(renderer=None, plugins=r["plugins"] or None)
    toks, st = md.parse(r["doc"])
    print(json.dumps(toks)[:3000]); print(st.env.get("__verif_defs__"))
    return 1
