"""C01 — conversion is total and terminating for every input and configuration.

Decided by:
 * Lean theorems `blockLoop_total` / `inlineLoop_total`: for ANY subject, ANY rule table whose rules consume a
   character and ANY handler table with the progress contract, each scanner loop terminates normally and its
   cursor strictly increases; built on the proved soundness of the regex matcher (`m_sound`) and of `minLen`.
 * kernel-checked obligations on the rule tables REGENERATED from the working tree (`allCfgs_consume`,
   `allCfgs_repBodies`, `namedRx_repBodies`, `no_unsupported`).
 * ties: regex conformance (engine vs `re` on every pattern), loop-trace correspondence (the real loops'
   iterations replayed through the model loops), run-time monitoring of the handler progress contract.
 * the property's own oracle in guarded worker processes: random documents and nesting pumps over the
   configuration space; failure = exception, timeout, wrong result type.
What is NOT proved: the progress contract of each concrete handler (monitored at run time) and the bound on
recursion depth (tested by pumps)."""
import json, os, sys, itertools
import common, gen, configs, trace, rxconf, rxconv, worker
from common import enc

LEVEL = "proof"
THEOREMS = ["Mistune.m_sound", "Mistune.spec_bounds", "Mistune.matchAt_sound", "Mistune.search_sound", "Mistune.search_none",
            "Mistune.minLen_sound", "Mistune.scan_sound", "Mistune.lineEnd_progress",
            "Mistune.blockLoop_total", "Mistune.inlineLoop_total", "Mistune.blockLoop_iterations",
            "Mistune.allCfgs_consume", "Mistune.allCfgs_repBodies", "Mistune.namedRx_repBodies", "Mistune.no_unsupported",
            # the progress contract K1 PROVED for the concrete parser model, handler by handler (core handlers, the plugin handlers the model transcribes, every inner loop), by
            # induction on the nesting budget: no loop of the block / inline model ever stalls, for every source string; the hypotheses are decidable obligations on the
            # regenerated tables, discharged for every configuration by the kernel (allCfgs_cfgOk, allCfgs_iCfgOk)
            "Mistune.Model.Blk.parseMethod_progress", "Mistune.Model.blockParse_no_noProgress", "Mistune.allCfgs_cfgOk", "Mistune.allCfgs_blockParse_no_noProgress",
            "Mistune.Model.Inl.recAt_ok", "Mistune.Model.inlineParse_no_noProgress", "Mistune.Model.inlineParseEnv_no_noProgress", "Mistune.allCfgs_iCfgOk", "Mistune.allCfgs_inlineParse_no_noProgress",
            # document level: the whole pipeline of Markdown.parse as modelled (hooks, block pass, both second passes, footnotes hook) never stalls: for the 21 regenerated
            # configurations without the abbr plugin with no hypothesis at all, for the 9 with it under `no empty abbreviation key in the block pass's env` (_partial; the
            # regex-level half -- every match of the regenerated ref_abbr rule captures a non-empty key -- is proved and kernel-checked: abbrKey_nonempty, allCfgs_abbrRuleOk)
            "Mistune.Model.parseDoc_no_noProgress", "Mistune.Model.parseDoc_no_noProgress_partial", "Mistune.allCfgs_docCfgOk", "Mistune.allCfgs_parseDoc_no_noProgress",
            "Mistune.Model.allCfgs_abbrRuleOk", "Mistune.Model.abbrKey_nonempty"]

BLOCK_OPEN = ["> ", "- ", "1. ", "* ", "+ ", ">! ", "> - ", "- > ", "1. > ", "> 1. ", "- - > ", ">\t", "-\t", "  - ", "   > "]
INLINE_OPEN = [("[![", "](u)](u)"), ("![[", "](u)](u)"), ("[a ![b ", "](u)](v)"), ("*", "*"), ("**", "**"), ("_", "_"), ("[", "](u)"), ("![", "](u)"), ("<a>", "</a>"), ("[</a>", "](u)"),
               ("`", "`"), ("~~", "~~"), ("==", "=="), ("^", "^"), ("[^", "]"), ("<b>", "</b>"), ("*_", "_*"),
               ("[![", "](a)](b)"), ("***", "***"), ("[*", "*](u)"), ("<", ">"), ("\\", ""), ("&", ";"), ("$", "$"), (">!", "!<")]
DIRECTIVE_OPEN = ["```{note}\n", "````{note} T\n", ":::{note}\n", ".. note::\n\n   ", "```{figure} x.png\n", "```{toc}\n"]


def pumps(ctx, n):
    out = []
    for a in BLOCK_OPEN:
        out.append(a * n + "x")
        out.append((a + "\n") * 3 + a * n + "x\n")
    for a, b in itertools.combinations(BLOCK_OPEN[:8], 2):
        out.append((a + b) * (n // 2) + "x")
    for o, c in INLINE_OPEN:
        out.append(o * n + "x" + c * n)
        out.append(o * n + "x")
        out.append("x" + c * n)
    for (o1, c1), (o2, c2) in itertools.combinations(INLINE_OPEN[:10], 2):
        out.append((o1 + o2) * (n // 2) + "x" + (c2 + c1) * (n // 2))
    for d in DIRECTIVE_OPEN:
        out.append(d * min(n, 60) + "x\n")
    # an opener that is never closed, followed by a run of one short unit (label / destination / title / tag scanners)
    for pre in ("[", "![", "[^", "*[", "[x]: ", "[x]: /u \"", "<", "<a ", "[a](", "[a](/u \"", "[a][", "`", "$", "|"):
        for unit in ("\\a", "\\", "\\]", "a ", "&", "\\\\", "a=b\t", "\n", "'"):
            out.append(pre + unit * n)
    # indentation ladders (each line one level deeper) and bare-marker ladders
    for mk in ("-", "- a", "1.", "1. a", ">", "> a", "*", "+ a", ":   t", "- [ ] a"):
        out.append("".join("  " * i + mk + "\n" for i in range(n)))
        out.append("".join("   " * i + mk + "\n" for i in range(n)))
    out.append("term\n" + "".join("    " * i + ":   t%d\n" % i for i in range(min(n, 120))))
    # adjacent repetitions of closed constructs (no nesting, long runs)
    for unit in ("[a(b)]", "[^1]", "$x$", "~~a~~", "<a>", "&amp;", "![a](b)", "[a](b)", "<http://a.b>", "`a`", "*a*", "**a**", "\\*", "[a][b]",
                 "<b>x</b>", "==a==", "^a^", ">!a!<", "http://a.b ", "a@b.c ", "| a ", "[x] ", "  \n", "\\\n", "<!-- a -->", "&#35;"):
        out.append(unit * (n * 8))
        out.append("[^1]: n\n\n[b]: u\n\n*[A]: t\n\n" + unit * (n * 4))
    for info in ("&#32;", "&#9;", "&nbsp;", " &#x20; ", "&Tab;x", "&#32;py&#32;", "\\ ", "&#0;", "{&#32;}", "&"):
        out.append("```" + info + "\ncode\n```\n")
        out.append("~~~" + info + "\ncode\n~~~\n")
    out.append("> " * n + "```\n" + "> " * n + "x\n")
    out.append("- [ ] " * n + "x")
    out.append("| a " * n + "|\n" + "|---" * n + "|\n" + "| b " * n + "|\n")
    out.append("a\n: " * n + "x\n")
    out.append("[^1]: " * n + "x\n\n[^1]")
    out.append("*[A]: " * n + "\nA " * n)
    return out


def deep_pumps(ctx):
    """few but very deep: recursion that is bounded only by a per-kind flag shows up past ~1000 levels"""
    out = []
    for o, c in INLINE_OPEN:
        out.append(o * 1200 + "x" + c * 1200)
    out.append("term\n" + "".join("    " * i + ":   t%d\n" % i for i in range(500)))
    out.append("".join("  " * i + "- a\n" for i in range(500)))
    out.append("".join("  " * i + "-\n" for i in range(500)))
    out.append("".join(" " * i + "> a\n" for i in range(4)) + "> " * 1200 + "x\n")
    out.append("[a(b)]" * 3000)
    # sibling alternation: blocks that interrupt each other without blank lines (handlers that parse the interrupting
    # block from inside the interrupted one recurse once per alternation, with no nesting in the result)
    alt = ["> a", "- b", "1. c", "# h", "---", "```", "    code", "<div>", "| a | b |", ": d", "[x]: u", "text", "* * *", "+ d", "a\n===", ">! s", "  - e", "   > f",
           "```{note}", ".. note::", "$$", "[^1]: n", "*[A]: t", "- [ ] k"]
    for a, b in itertools.permutations(alt, 2):
        out.append((a + "\n" + b + "\n") * 500)
    for _ in range(60):
        u = "".join(ctx.rng.choice(alt) + "\n" for _ in range(3))
        out.append(u * 400)
    out.append("[^1]: x\n\n" + "[^1]" * 3000)
    return out


def documents(ctx, big=False):
    q = ctx.quick() and not big
    docs = [gen.md_any(ctx.rng, 8) for _ in range(1200 if q else 15000)]
    docs += [gen.md_noise(ctx.rng, 120) for _ in range(200 if q else 3000)]
    docs += [gen.rand_unicode(ctx.rng, 40) for _ in range(100 if q else 1000)]
    for n in ((30, 150) if q else (30, 150, 400)):
        docs += pumps(ctx, n)
    docs += deep_pumps(ctx)
    docs += gen.slot_sweep()
    # destinations: URLs assembled from their components (valid and invalid IDN hosts, IPv6 literals, unsafe characters) in every place a destination can stand,
    # and links whose destination part is cut or unbalanced, followed by ordinary text
    docs += [gen.url_doc(ctx.rng) for _ in range(600 if q else 8000)]
    docs += [gen.link_tail(ctx.rng) for _ in range(400 if q else 6000)]
    return docs


def config_space(ctx, big=False):
    cfgs = configs.named("quick" if (ctx.quick() and not big) else "thorough")
    cfgs = cfgs + [configs.C("ast-all-fenced", renderer="ast", plugins=configs.PLUGINS, directives="fenced"),
                   configs.C("ast-all-rst", renderer="ast", plugins=configs.PLUGINS, directives="rst")]
    # the documented helper plugins that extend the rule lists of quotes and list items (reachable by dotted name), alone and TOGETHER: each
    # assumes it owns the list it appends to
    H = {"tq": "mistune.plugins.table.table_in_quote", "tl": "mistune.plugins.table.table_in_list", "mq": "mistune.plugins.math.math_in_quote", "ml": "mistune.plugins.math.math_in_list"}
    combos = [("tq", "tl"), ("mq", "ml"), ("tq", "tl", "mq", "ml"), ("tl", "mq"), ("tq",), ("ml",)]
    for cb in (combos if not (ctx.quick() and not big) else [combos[0], combos[2], ctx.rng.choice(combos[1:])]):
        base = (["table"] if any(k[0] == "t" for k in cb) else []) + (["math"] if any(k[0] == "m" for k in cb) else [])
        cfgs.append(configs.C("helpers-" + "-".join(cb), renderer=ctx.rng.choice(["html", "ast"]), plugins=base + [H[k] for k in cb]))
    for _ in range(4 if (ctx.quick() and not big) else 30):
        c = configs.random_cfg(ctx.rng, html_only=False)
        c["name"] = "rand-%d" % ctx.rng.randint(0, 10 ** 6)
        cfgs.append(c)
    return cfgs


def crash_sig(r, d):
    """exception type + innermost mistune frame; for recursion: the handler cycle + the punctuation alphabet of the input
    (so that a different way into the same cycle is a different finding)"""
    sig = "crash:%s@%s" % (r["exc"], r["where"])
    if r["exc"] == "RecursionError":
        sig += "#punct=" + "".join(sorted(set(c for c in d if not c.isalnum() and not c.isspace())))[:40]
    return sig


def oracle(ctx, docs, cfgs, per_doc=2, limit=20.0):
    os.environ["MISTUNE_SRC"] = common.repo_src()
    tasks, meta = [], []
    by_name = {c["name"]: c for c in cfgs}
    for d in docs:
        chosen = ctx.rng.sample(cfgs, min(per_doc, len(cfgs)))
        # a document that uses a directive syntax is also converted by a converter that knows that syntax (HTML and token list)
        want = []
        if ".. " in d:
            want += ["all-rst", "ast-all-rst"]
        if "```{" in d or "~~~{" in d:
            want += ["all-fenced", "ast-all-fenced"]
        if ":::" in d:
            want += ["all-fenced-colon"]
        if "# " in d or "\n===" in d or "\n---" in d:
            want += ["all-tochook"] if ctx.rng.random() < 0.3 else []
        for nm in want:
            if nm in by_name and by_name[nm] not in chosen:
                chosen.append(by_name[nm])
        for c in chosen:
            tasks.append((c, d, limit)); meta.append((c, d))
    # construction-time failures of every configuration
    res = worker.run_all(tasks)
    n_ok = 0
    for (c, d), r in zip(meta, res):
        if r["status"] == "ok":
            n_ok += 1
            continue
        if r["status"] == "exc":
            sig = crash_sig(r, d)
            what = "%s in %s converting %r under %s" % (r["exc"], r["where"], d[:80], c["name"])
        elif r["status"] == "timeout":
            sig = "timeout"
            what = "no result within %.0f s for %r (%d chars) under %s" % (limit, d[:60], len(d), c["name"])
        elif r["status"] == "type":
            sig = "result-type"
            what = "result of type %s under %s" % (r["got"], c["name"])
        else:
            sig = "worker-crash"
            what = "the interpreter died converting %r under %s" % (d[:60], c["name"])
        ctx.fail(sig, what, {"config": {k: v for k, v in c.items()}, "doc": d, "result": r})
    return len(tasks), n_ok


def api_oracle(ctx):
    """documented entry points with documented argument shapes"""
    import mistune
    n = 0
    for kw in ({"plugins": ["table"]}, {"plugins": ("table", "url")}, {"renderer": "ast"}, {"escape": False}, {"renderer": None}):
        n += 1
        try:
            mistune.markdown("x *y*", **kw)
        except Exception as e:
            ctx.fail("crash:%s@markdown()" % type(e).__name__, "mistune.markdown('x *y*', **%r) raises %r" % (kw, e), {"api": "markdown", "kw": repr(kw)})
    from mistune.directives import FencedDirective, RSTDirective, Admonition, TableOfContents, Include, Image, Figure
    for D in (FencedDirective, RSTDirective):
        for P in (Admonition, TableOfContents, Include, Image, Figure):
            for rend in ("html", None):
                n += 1
                try:
                    md = mistune.create_markdown(renderer=rend, plugins=[D([P()])])
                    md("x\n")
                except Exception as e:
                    ctx.fail("crash:%s@construct:%s" % (type(e).__name__, P.__name__),
                             "create_markdown(renderer=%r, plugins=[%s([%s()])]) raises %r" % (rend, D.__name__, P.__name__, e),
                             {"api": "create_markdown", "renderer": rend, "directive": D.__name__, "plugin": P.__name__})
    return n


def include_oracle(ctx):
    """Markdown.read() with the include directive on small file trees: cycles, chains, missing / binary / oddly encoded files"""
    import mistune, tempfile, shutil
    from mistune.directives import FencedDirective, RSTDirective, Include, Admonition, TableOfContents
    n = 0
    tmp = tempfile.mkdtemp(prefix="verif-c01-")
    try:
        def w(name, data):
            pth = os.path.join(tmp, name)
            os.makedirs(os.path.dirname(pth), exist_ok=True)
            with open(pth, "wb") as f:
                f.write(data if isinstance(data, bytes) else data.encode("utf-8"))
            return pth
        for style in ("rst", "fenced"):
            inc = (lambda f, opt="": ".. include:: %s\n%s\n" % (f, opt)) if style == "rst" else (lambda f, opt="": "```{include} %s\n%s```\n\n" % (f, opt.replace("   ", "")))
            w("a.md", "# A\n\n" + inc("b.md"))
            w("b.md", "para b\n\n" + inc("a.md"))                      # mutual inclusion
            w("self.md", inc("self.md"))
            w("self2.md", inc("./sub/../self2.md"))
            w("sub/c.md", inc("../a.md"))
            w("chain0.md", "end\n")
            for i in range(1, 41):
                w("chain%d.md" % i, "level %d\n\n" % i + inc("chain%d.md" % (i - 1)))
            w("bin.md", bytes(range(256)))
            w("bin.txt", b"\xff\xfe\x00bad")
            w("latin.txt", "caf\xe9".encode("latin-1"))
            w("ok.html", "<b>raw</b>")
            w("top.md", "".join(inc(f) for f in ["missing.md", "bin.md", "bin.txt", "ok.html", "chain40.md", "sub/c.md", "bin.txt/more.md", "ok.html/x.txt", "n" * 300 + ".md", "\u65e5" * 100 + ".md", "sub", "sub/", ".", "..", "a\x00b.md", "~/x.md", "/etc/hostname", "sub/../sub/../a.md"]) + inc("latin.txt", "   :encoding: latin-1\n") + inc("latin.txt", "   :encoding: nope\n") + inc("latin.txt"))
            D = RSTDirective if style == "rst" else FencedDirective
            for rend in ("html", None):
                md = mistune.create_markdown(renderer=rend, plugins=[D([Include(), Admonition(), TableOfContents()])])
                for f in ("a.md", "self.md", "self2.md", "sub/c.md", "chain40.md", "top.md"):
                    n += 1
                    try:
                        md.read(os.path.join(tmp, f))
                    except RecursionError as e:
                        ctx.fail("crash:RecursionError@include:%s" % ("cycle" if f in ("a.md", "sub/c.md", "self2.md", "top.md") else f), "Markdown.read(%s) with the include directive (%s syntax) exhausts the recursion limit" % (f, style),
                                 {"api": "read", "file": f, "style": style, "files": {"a.md": "# A\n\n" + inc("b.md"), "b.md": "para b\n\n" + inc("a.md")}})
                    except Exception as e:
                        ctx.fail("crash:%s@include:%s" % (type(e).__name__, f), "Markdown.read(%s) with the include directive (%s syntax) raises %r" % (f, style, e), {"api": "read", "file": f, "style": style})
    finally:
        shutil.rmtree(tmp, ignore_errors=True)
    return n


def cross_history(ctx):
    """Converters of different configurations used one after the other in ONE fresh interpreter: a conversion must not raise
    because another converter (with other rules registered) ran before it.  Each ordered pair of structurally different
    configurations: A converts the probe documents, then B does."""
    import subprocess
    kinds = [configs.C("core"), configs.C("all", plugins=configs.PLUGINS), configs.C("fenced", plugins=["table"], directives="fenced"), configs.C("fenced-colon", directives="fenced-colon"),
             configs.C("rst", directives="rst"), configs.C("ast-spoiler", renderer="ast", plugins=["spoiler", "def_list", "abbr"]), configs.C("markdown", renderer="markdown")]
    probes = ["- a\n- b\n", "1. a\n2. b\n", "* a\n\n  b\n", "- item\n:::{note} t\ntext\n:::\n", "1. item\n::::{tip}\n::::\n", "- item\n```{note}\nx\n```\n", "- item\n.. note:: t\n", "> q\n:::{note}\n:::\n",
              "> q\n>! s\n- l\n", "term\n: def\n- l\n: d2\n", "| a |\n|---|\n| b |\n- l\n| c |\n", "*[A]: t\n\nA - l\n", "- [ ] t\n- x\n", "# h\n\n.. toc::\n", "a\n===\n- l\n---\n"]
    sweep = gen.slot_sweep()
    ctx.rng.shuffle(sweep)
    probes = probes + sweep[:60]
    n = 0
    jobs = []
    for a in kinds:
        for b in kinds:
            if a["name"] != b["name"]:
                jobs.append((a, b))
    if ctx.quick():
        ctx.rng.shuffle(jobs)
        jobs = jobs[:16] + [j for j in jobs[16:] if j[0]["name"] == "fenced-colon"]
    here = os.path.dirname(os.path.dirname(os.path.abspath(__file__)))
    procs = []
    for a, b in jobs:
        steps = [[a, d] for d in probes] + [[b, d] for d in probes]
        pr = subprocess.Popen([sys.executable, "-B", os.path.join(here, "seqworker.py")], stdin=subprocess.PIPE, stdout=subprocess.PIPE, stderr=subprocess.PIPE, text=True)
        procs.append((a, b, steps, pr, json.dumps({"steps": steps, "src": common.repo_src()})))
    for a, b, steps, pr, payload in procs:
        try:
            so, se = pr.communicate(payload, timeout=300)
            res = json.loads(so)
        except Exception as e:
            ctx.fail("crash:sequence-worker", "a conversion sequence (%s then %s) killed its interpreter or produced no result: %r" % (a["name"], b["name"], e), {"first": a, "second": b})
            continue
        for (cfg, doc), r in zip(steps, res):
            n += 1
            if r["status"] != "ok" and r.get("exc") != "RecursionError":
                ctx.fail("crash:%s@%s#after-other-converter" % (r["exc"], r["where"]), "%s in %s converting %r under %s after converter %s was used in the same interpreter" % (r["exc"], r["where"], doc[:60], cfg["name"], a["name"]),
                         {"config": cfg, "doc": doc, "history_first_config": a, "probes": probes[:15]})
                break
    return n


def table_wire(parser, flags):
    items = []
    for k, v in parser.specification.items():
        try:
            tree, ng, gi = rxconv.from_pattern(v, flags)
            items.append("%s=%s" % (k, rxconv.to_wire(tree)))
        except rxconv.Unsupported:
            pass
    return ";".join(items)


def trace_correspondence(ctx, docs, cfgs):
    import re
    d = common.Driver()
    reqs, exp = [], []
    contract = []
    depth_max = 0
    n_frames = 0
    for ci, c in enumerate(cfgs):
        try:
            md = configs.make(c)
        except Exception:
            continue
        brec, irec = trace.instrument(md)
        reqs.append(("deftable", "b%d" % ci, table_wire(md.block, re.M))); exp.append(None)
        reqs.append(("deftable", "i%d" % ci, table_wire(md.inline, 0))); exp.append(None)
        for doc in docs:
            if common.has_surrogate(doc):
                continue
            brec.frames.clear(); irec.frames.clear()
            try:
                md(doc)
            except RecursionError:
                continue
            except Exception:
                pass
            depth_max = max(depth_max, brec.depth_max, irec.depth_max)
            for kind, rec, tid in (("block_loop", brec, "b%d" % ci), ("inline_loop", irec, "i%d" % ci)):
                for fr in rec.frames[:40]:
                    rules = fr["rules"]
                    rets = ",".join("%d:%s" % (s, "-" if not r else str(r)) for (_, s, _, r) in fr["events"])
                    reqs.append((kind, tid, ",".join(rules), enc(fr["src"]), str(fr["start_cursor"] if kind == "block_loop" else 0), rets))
                    exp.append((c["name"], kind, fr))
                    n_frames += 1
        contract += brec.contract_violations + irec.contract_violations
    outs = d.batch(reqs)
    bad = 0
    rules_fired = {}
    for e, got in zip(exp, outs):
        if e is None:
            if got != "ok":
                ctx.broken.append("trace: rule table not accepted by the driver: " + got)
            continue
        cname, kind, fr = e
        evs = fr["events"]
        for (rule, s, t, r) in evs:
            rules_fired[rule] = rules_fired.get(rule, 0) + 1
        if got.startswith("error") or "|" not in got:
            model = got
        else:
            body, fin = got.rsplit("|", 1)
            model = [tuple(x.split(",")) for x in body.split(";")] if body else []
            model = [(a, int(b), int(c_)) for a, b, c_, _ in model]
        real = [(rule, s, t) for (rule, s, t, r) in evs]
        if model != real:
            bad += 1
            if bad <= 3:
                ctx.broken.append("trace: %s under %s on %r: implementation iterations %s, model %s" % (kind, cname, fr["src"][:80], real[:6], str(model)[:200]))
    for v in contract[:3]:
        ctx.broken.append("handler-contract: %s rule %s returned %r for a match at [%d,%d) of %r" % (v[0], v[1], v[5], v[3], v[4], v[2][:60]))
    ctx.cov["traces_validated_against_impl"] = n_frames
    ctx.cov["disagreements_checked"] = n_frames
    ctx.cov["trace_disagreements"] = bad
    ctx.cov["handler_contract_violations"] = len(contract)
    ctx.cov["rules_fired"] = dict(sorted(rules_fired.items(), key=lambda kv: -kv[1]))
    ctx.cov["max_parse_nesting_seen"] = depth_max
    return n_frames


def replay_known(ctx):
    """each listed finding's stored example is replayed first: it must still fail with its signature"""
    os.environ["MISTUNE_SRC"] = common.repo_src()
    tasks = []
    for k in ctx.known:
        ex = k.get("example") or {}
        if "doc_expr" in ex:
            tasks.append((ex["config"], eval(ex["doc_expr"], {"__builtins__": {}}), 30.0))
    for (c, d, _), r in zip(tasks, worker.run_all(tasks, workers=2)):
        if r["status"] == "exc":
            ctx.fail(crash_sig(r, d), "%s in %s (stored example of a known finding)" % (r["exc"], r["where"]), {"config": c, "doc": d})
        else:
            ctx.notes.append("a stored known-finding example no longer fails: %r" % d[:40])


def run(ctx):
    ctx.broken += common.proof_stage(ctx, THEOREMS)
    replay_known(ctx)
    n_rx, n_m, rx_broken, unsup = rxconf.run(ctx)
    ctx.broken += rx_broken
    ctx.broken += ["regex-translation: unsupported construct in %s" % u for u in unsup]
    ctx.cov["regex_conformance_checks"] = n_rx
    ctx.cov["regex_conformance_matches"] = n_m
    docs = documents(ctx)
    cfgs = config_space(ctx)
    tdocs = [d for d in docs if len(d) < 400][: (250 if ctx.quick() else 2500)]
    tcfgs = [c for c in cfgs if c["name"] in ("core", "core-hardwrap", "all-speedup", "all-fenced", "all-rst", "ast-all", "rst-core", "markdown-core")]
    trace_correspondence(ctx, tdocs, tcfgs)
    # the progress theorems (C01Progress*) are about the concrete Lean parser model: its full-tree correspondence on this run's documents (pumps included) is their tie
    common.model_tie(ctx, [d for d in docs if len(d) <= 300], "core", "doc", limit=(500 if ctx.quick() else 5000))
    common.model_tie(ctx, [d for d in docs if len(d) <= 300][::2], "all-speedup", "doc", limit=(300 if ctx.quick() else 3000))
    n, n_ok = oracle(ctx, docs, cfgs)
    n += api_oracle(ctx)
    n += include_oracle(ctx)
    n += cross_history(ctx)
    if ctx.broken and not [f for f in ctx.failures if not ctx.is_known(f["signature"])]:
        ctx.notes.append("search mode entered: " + "; ".join(ctx.broken)[:300])
        n2, _ = oracle(ctx, documents(ctx, big=True), config_space(ctx, big=True), per_doc=3)
        n += n2
    ctx.cov.update({
        "evaluations": n, "distinct_nontrivial": len(set(d for d in docs if len(d) > 3)),
        "rule": "seeded token-level Markdown documents, noise, random Unicode and nesting pumps (every block/inline/directive opener and pairs of them repeated up to %d times), "
                "each converted under sampled configurations of the documented space (named set + random plugin subsets/orders, html/ast/markdown/rst, escape, hard_wrap, both directive syntaxes) "
                "in guarded worker processes; non-trivial = longer than 3 characters" % (150 if ctx.quick() else 400),
        "samples": [docs[0], docs[-1][:80]],
        "configurations": [c["name"] for c in cfgs],
        "conversions_ok": n_ok,
    })
    ctx.assumptions += ["the progress contract of each concrete handler is monitored on every traced run, not proved",
                        "the bound on recursion depth (Python frames per nesting level) is tested by pumps, not proved",
                        "CPython's re terminates on every call (each regex has no nullable repeat body: obligation allCfgs_repBodies / namedRx_repBodies)"]


def replay(ctx, path):
    r = json.load(open(path))["replay"]
    os.environ["MISTUNE_SRC"] = common.repo_src()
    if "doc" in r:
        res = worker.convert((r["config"], r["doc"], 30.0))
        print(res)
        return 0 if res["status"] == "ok" else 1
    print(r)
    return 1
