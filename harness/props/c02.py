"""C02 — escaped HTML output carries no input-controlled markup or script URLs.

Decided by (Lean): the C18 theorems for ALL strings — `escape` never emits `<`, `>`, `"`; `safe_entity` likewise for
any decoder; `escape_url` emits only URL-safe printable ASCII (no space, quotes, angle brackets, control
characters) — so every render method that wraps its data in one of these cannot let data open a tag or leave a
quoted attribute.  WHICH escaper each render method applies to each argument is established per run by
token-level canary injection (every free-text field of real token trees is replaced by a markup canary and the
rendered output is parsed with html.parser) and by document-level injection; the URL-scheme clause by a
scheme oracle over obfuscated destinations.  (A template-level theorem over extracted render methods is planned.)"""
import re, json, copy
from html.parser import HTMLParser
import tmpltie
import common, gen, configs

LEVEL = "proof"
THEOREMS = [# END TO END for the concrete model (plugin-free configurations): every tree Model.parseDoc returns satisfies refinedOk (the hypothesis of render_safe is now a theorem about the
            # model's own output: attrs hold only numbers / booleans except url, title, info, which are data arguments), hence for EVERY source string the template rendering of the parsed
            # document with escaping on contains no document-controlled < > "
            "Mistune.templates_core", "Mistune.Model.parseDoc_refinedOk", "Mistune.Model.parseDoc_render_safe", "Mistune.Model.parseDoc_render_safe_core",
            "Mistune.escape_no_specials", "Mistune.safeEntity_no_specials", "Mistune.escapeUrl_attr_safe", "Mistune.quote_ok", "Mistune.escape_eq_flatMap",
            "Mistune.templates_ok", "Mistune.templates_none_opaque", "Mistune.evalPieces_safe", "Mistune.evalTmpl_safe", "Mistune.renderTok_safe", "Mistune.render_safe",
            "Mistune.evalTmpl_tagged", "Mistune.renderTok_tagged", "Mistune.render_tagged", "Mistune.templates_tagOk", "Mistune.templates_nodup", "Mistune.tagTable_wf", "Mistune.templateIntArgs_eq",
            # striptags: the regenerated regex IS the expected term (kernel-decided) and on well-tagged strings it equals the tag scanner's projection (proved)
            "Mistune.striptagsRx_is_expected", "Mistune.stripAgrees_expected", "Mistune.stripAgrees_generated", "Mistune.render_tagged_closed",
            # script URLs: escape_url at parse time + safe_url at render time = what a browser reads is never a harmful scheme
            "Mistune.escapeUrl_browser_fixed", "Mistune.safeUrlStr_cases", "Mistune.href_not_script", "Mistune.rendered_url_not_script", "Mistune.rendered_url_not_scriptCI",
            "Mistune.applyOp_safeUrl_not_script", "Mistune.harmful_lower_ascii", "Mistune.goodData_lower_ascii", "Mistune.lowerTree_ascii"]

CANARIES = ['onq9=1//', 'a"onq9="1', '<xq9 onq9=1//', 'R&D<xq9', '5" onq9="1', '<xq9 yq9="1">', '"><xq9 onq9="1">', "'><xq9>", '" onq9="1', "</p><xq9>", "-->", "<!--", "<script>xq9</script>", "&lt;xq9&gt;", '\\"<xq9>', "`<xq9>`", "javascript:xq9"]
# free-text fields of tokens (data that comes verbatim from the input); alphabet-restricted fields (ruby raw/rt, heading id,
# table align, admonition name, list start/depth, footnote index, checked) are refinements of the grammar and are not injected
RAW_TYPES = {"text", "codespan", "inline_html", "block_code", "block_html", "block_error", "inline_math", "block_math", "include"}
ATTR_FIELDS = {"title", "info", "alt", "class", "figclass", "figwidth", "url", "src", "target", "width", "height", "key"}


ALLOWED = {"tags": None, "attrs": None}       # element / attribute names that occur in the literals of the render templates (by design)


def design_names():
    """from the render methods of the working tree: every element name and attribute name a template literal writes"""
    if ALLOWED["tags"] is None:
        import tmpl
        tags, attrs = set(), set()
        for d in ("rst", "fenced"):
            md = configs.make(configs.C("x", plugins=configs.PLUGINS, directives=d))
            def walk(x):
                if isinstance(x, list):
                    if len(x) == 2 and x[0] == "lit" and isinstance(x[1], str):
                        tags.update(t.lower() for t in re.findall(r"</?([A-Za-z][A-Za-z0-9]*)", x[1]))
                        attrs.update(a.lower() for a in re.findall(r"[\s\"]([A-Za-z][A-Za-z-]*)=\"", " " + x[1]))
                        attrs.update(a for a in ("disabled", "checked", "open") if re.search(r"\s%s[\s/>]" % a, x[1]))
                    for y in x:
                        walk(y)
            for t in tmpl.extract(md).values():
                walk(t)
        tags.add("h")           # "<h" + level
        tags.update("h%d" % i for i in range(1, 7))
        ALLOWED["tags"], ALLOWED["attrs"] = tags, attrs
    return ALLOWED["tags"], ALLOWED["attrs"]


class Seen(HTMLParser):
    def __init__(self):
        super().__init__(convert_charrefs=True)
        self.bad = []
        self.urls = []
        self.foreign = []

    def handle_starttag(self, tag, attrs):
        tags, names = design_names()
        if tag not in tags:
            self.foreign.append("element <%s>" % tag)
        if "xq9" in tag:
            self.bad.append("element <%s>" % tag)
        for k, v in attrs:
            if k not in names:
                self.foreign.append("attribute %s on <%s>" % (k, tag))
            if "q9" in k:
                self.bad.append("attribute %s on <%s>" % (k, tag))
            if k in ("href", "src") and v is not None:
                self.urls.append((tag, k, v))

    handle_startendtag = handle_starttag

    def handle_comment(self, data):
        if "xq9" in data or "q9" in data:
            self.bad.append("canary inside a comment it opened")


HARMFUL = ("javascript:", "vbscript:", "file:", "data:")
GOOD_DATA = ("data:image/gif;", "data:image/png;", "data:image/jpeg;", "data:image/webp;")


def harmful(u):
    # what a browser does: strip leading white space / controls, drop tab/CR/LF anywhere, compare case-insensitively
    v = "".join(c for c in u if c not in "\t\r\n").lstrip("".join(chr(i) for i in range(33))).lower()
    return v.startswith(HARMFUL) and not v.startswith(GOOD_DATA)


def analyse(htmltext):
    p = Seen()
    try:
        p.feed(htmltext); p.close()
    except Exception as e:
        return ["html.parser failed: %r" % e], []
    if p.foreign and not p.bad:
        p.bad = ["not emitted by design: " + p.foreign[0]]
    return p.bad, p.urls


def inject(tokens, rng, log):
    for t in tokens:
        ty = t.get("type")
        if "raw" in t and ty in RAW_TYPES and rng.random() < 0.7:
            t["raw"] = rng.choice(CANARIES) + t["raw"][:5]
            log.append(ty + ".raw")
        a = t.get("attrs")
        if isinstance(a, dict):
            for k in list(a):
                if k in ATTR_FIELDS and isinstance(a[k], str) and rng.random() < 0.7:
                    if k in ("width", "height"):
                        a[k] = "10" + rng.choice(CANARIES)      # the parser guarantees a leading number only
                    else:
                        a[k] = rng.choice(CANARIES)
                    log.append("%s.attrs.%s" % (ty, k))
        if "children" in t:
            inject(t["children"], rng, log)


def token_level(ctx, docs, cfgs):
    import mistune
    n = 0
    for c in cfgs:
        ast_cfg = dict(c); ast_cfg["renderer"] = "ast"
        try:
            ast, hm = configs.make(ast_cfg), configs.make(c)
        except Exception:
            continue
        for d in docs:
            try:
                toks, state = ast.parse(d)
            except Exception:
                continue
            toks = copy.deepcopy(toks)
            log = []
            inject(toks, ctx.rng, log)
            if not log:
                continue
            n += 1
            try:
                out = hm.renderer(toks, state)
            except Exception as e:
                continue
            bad, urls = analyse(out)
            if bad:
                # attribute the leak to the injected field whose canary got through: re-render with one field at a time is costly; name all
                fields = sorted(set(log))
                sig = "inject:" + (fields[0] if len(fields) == 1 else guess_field(hm, toks, state, fields))
                if 'class="error"' in out and not analyse(re.sub(r'(<div class="error"><pre>).*?(</pre></div>\n)', r"\1\2", out, flags=re.S))[0]:
                    sig = "inject:block_error.raw"        # markup inside the unescaped text of an error block (the document's own or injected)
                ctx.fail(sig, "escape=%s config %s: a canary injected into token fields %s reaches the output as markup (%s)" % (c.get("escape"), c["name"], fields, bad[0]),
                         {"config": c, "doc": d, "fields": fields, "output": out[:600]})
    return n


def guess_field(hm, toks, state, fields):
    """render the tree again with the canaries neutralised in all fields but one, to name the leaking field"""
    def walk(ts, keep):
        for t in ts:
            ty = t.get("type")
            if "raw" in t and ty in RAW_TYPES and (ty + ".raw") != keep:
                t["raw"] = "safe"
            a = t.get("attrs")
            if isinstance(a, dict):
                for k in list(a):
                    if k in ATTR_FIELDS and isinstance(a[k], str) and ("%s.attrs.%s" % (ty, k)) != keep:
                        a[k] = "10" if k in ("width", "height") else "safe"
            if "children" in t:
                walk(t["children"], keep)
    for f in fields:
        tt = copy.deepcopy(toks)
        walk(tt, f)
        try:
            bad, _ = analyse(hm.renderer(tt, state))
        except Exception:
            continue
        if bad:
            return f
    return "+".join(fields)


# every inline plugin construct inside an image description (whose rendering is tag-stripped and put into alt="..." as it is: each
# construct's own renderer must have escaped quotes too), directly, inside a nested link, and through a reference
ALT_TEMPLATES = ["![${c}$](x.png)", "![~~{c}~~](x.png)", "![=={c}==](x.png)", "![^^{c}^^](x.png)", "![^{c}^ ~{c}~](x.png)", "![>!{c}!<](x.png)", "![[k({c})]](x.png)", "![a $x{c}y$ b][r]\n\n[r]: /i.png",
                 "[![${c}$](x.png)](/u)", "![http://e.x/{c}](x.png)", "![[l $m{c}$](/u)](x.png)", "![*e $q{c}$*](x.png)", "![<http://e.x/{c}>](x.png)", "![a\\\n{c}  \nb](x.png)", "![&quot;{c}&#34;](x.png)",
                 "*[ab]: t{c}\n\n![ab {c}](x.png)", "![x[^n]{c}](x.png)\n\n[^n]: note {c}", "# ![${c}$](x.png)\n\n.. toc::", "| ![${c}$](x.png) |\n|---|\n| ![~~{c}~~](y.png) |"]
DOC_TEMPLATES = ALT_TEMPLATES + ["{c}", "para {c} text", "# head {c}", "> quote {c}", "- item {c}", "`{c}`", "```{c}\ncode {c}\n```", "    {c}", "[l](u \"{c}\")", "[l](<{c}>)", "![{c}](u)",
                 "[ref]: /u \"{c}\"\n\n[ref]", "<{c}>", "[{c}]", "*{c}*", "| a | {c} |\n|---|---|\n| {c} | b |", "term {c}\n: def {c}", "text[^1]\n\n[^1]: note {c}", "*[{c}]: x\n{c}",
                 "${c}$", "$$\n{c}\n$$", "[a({c})]", ">! {c}", "==a {c}==", "~~{c}~~", "- [ ] {c}", "http://a.b/{c}", "<a href=\"{c}\">", "<div {c}>\n</div>", "<!-- {c} -->",
                 ".. note:: {c}\n   :class: {c}\n\n   body {c}", "```{{note}} {c}\n:class: {c}\nbody {c}\n```", ".. image:: {c}\n   :alt: {c}\n   :width: 10{c}\n   :target: {c}\n   :align: {c}",
                 ".. figure:: p.png\n   :figclass: {c}\n   :figwidth: {c}\n   :align: {c}\n\n   cap {c}", ".. toc:: {c}\n   :max-level: {c}\n\n# h {c}", ".. unknown:: {c}\n\n   {c}", "```{{unknown}} {c}\n{c}\n```",
                 ".. include:: {c}", ".. admonition:: {c}", "*[{c}]: long\n\nuse {c} here and ![a {c} disk](x)", "*[{c}]: t\n*[ab]: u\n\n*{c}* [{c}](/u) ab", "![[a](<{c}> \"t\nu\")](x.png)", "![[a]({c} 't\nu')](x.png)", "![![i](<{c}> \"t\nu\")](y.png)", "![*e* [a][r] `{c}`](x.png)\n\n[r]: <{c}> \"t\nu\"",
                 "![<b title=\"{c}\nx\">](x.png)", "[![i](s \"{c}\")](u \"t\nu\")", "# h [a](<{c}> \"t\nu\")\n\n.. toc::", "![a\n[b](<{c}> \"t\")\nc](x.png)",
                 # raw constructs in headings that a TOC lists (CDATA / processing instruction with an inner ">" and a lone quote)
                 "# <![CDATA[ > <img src=x {c} \" ]]>\n\n.. toc::", "# <?x > <img src=x {c} \" ?>\n\n```{{toc}}\n```", "x <!-- > <i {c} ' -->\n===\n\n.. toc::", "## a <b title=\">\"> <img {c}>\n\n```{{toc}}\n```",
                 ".. image:: p.png\n   :width: 1\" {c} data-x=\"%\n   :height: 5{c}%", "```{{figure}} p.png\n:width: 10\" {c} \"%\n:figwidth: 1{c}%\n```", "``` {c} {c}\nx\n```", "~~~ \"{c}\nx\n~~~"]

# every directive with an option line for every option key, including keys that collide with the names of token attributes
# (what a directive copies from its options onto the token must not displace the fields the renderer trusts)
OPTION_KEYS = ["name", "class", "title", "alt", "width", "height", "align", "target", "id", "level", "figclass", "figwidth", "collapse", "min-level", "max-level",
               "depth", "src", "href", "url", "style", "onclick", "raw", "text", "type", "children", "start", "checked", "lang", "info", "key", "index", "rt", "legend", "caption"]
OPTION_SWEEP = []
OPTION_DIRECTIVES = [("note", "T"), ("warning", ""), ("tip", "T {c}"), ("danger", "Title"), ("image", "p.png"), ("figure", "p.png"), ("toc", "Contents"), ("include", "x.md")]
for _d, _t in OPTION_DIRECTIVES:
    for _k in OPTION_KEYS:
        OPTION_SWEEP.append(("rst", ".. %s:: %s\n   :%s: {c}\n\n   body\n\n# h" % (_d, _t, _k)))
        OPTION_SWEEP.append(("fenced", "```{%s} %s\n:%s: {c}\n\nbody\n```\n\n# h" % (_d, _t, _k)))


def option_sweep(ctx, cfgs):
    """deterministic: every (directive, option key) pair once per tier with a random canary, under an escaping configuration with that directive syntax"""
    by = {}
    for c in cfgs:
        if c.get("escape", True) and c.get("directives") in ("rst", "fenced") and c.get("renderer", "html") == "html":
            by.setdefault(c["directives"], []).append(c)
    made = {}
    n = 0
    for syn, tpl in OPTION_SWEEP:
        if not by.get(syn):
            continue
        c = ctx.rng.choice(by[syn])
        if c["name"] not in made:
            try:
                made[c["name"]] = configs.make(c)
            except Exception:
                made[c["name"]] = None
        md = made[c["name"]]
        if md is None:
            continue
        doc = tpl.replace("{c}", ctx.rng.choice(CANARIES)) + "\n"
        try:
            out = md(doc)
        except Exception:
            continue
        n += 1
        bad, urls = analyse(out)
        if bad:
            where = "unknown-directive" if ("unknown" in doc and 'class="error"' in out) else ("block_error" if 'class="error"' in out else "doc")
            ctx.fail("inject-doc:" + where, "escape=True config %s: input text reaches the output as markup (%s) for %r" % (c["name"], bad[0], doc), {"config": c, "doc": doc, "output": out[:600]})
    return n

SCHEMES = ["javascript:alert(1)//data:image/png;", "vbscript:x#data:image/gif;", "data:text/html,x#data:image/jpeg;base64", "file:///etc/passwd?data:image/webp;", "javascript:data:image/png;base64,AA", "data:image/svg+xml;base64,AA", "data:text/html;base64,AA", "file:///usr/share/doc/x", "file:///etc/passwd", "javascript:void(0)", "javascript:void(1)", "javascript:alert(1)", "JaVaScRiPt:alert(1)", "vbscript:x", "file:///etc/passwd", "data:text/html,<x>", "data:image/png;base64,AA", " javascript:x", "java\tscript:x",
           "javascript&colon;x", "javascript&#58;x", "javascript&#x3a;x", "&#106;avascript:x", "java&#x73;cript:x", "javascript&amp;colon;x", "javascript&amp;#58;x", "&amp;#106;avascript:x",
           "\x01javascript:x", "JAVASCRIPT&Colon;x", "javascript%3Ax", "data&colon;text/html,x", "Data:x", "FILE:x", "vbscript&NewLine;:x", "java&Tab;script:x", "javascript&amp;amp;colon;x"]
URL_TEMPLATES = ["[x]({u})", "[x](<{u}>)", "![x]({u})", "[r]: {u}\n\n[r]", "[r]: <{u}>\n\n![r]", "<{u}>", ".. image:: {u}", ".. image:: p.png\n   :target: {u}", ".. figure:: {u}\n\n   c",
                 "```{{image}} {u}\n```", "[x]({u} \"t\")", "{u}", "[a(b)]({u})"]


def doc_level(ctx, n, cfgs):
    mds = []
    for c in cfgs:
        try:
            mds.append((c, configs.make(c)))
        except Exception:
            pass
    cnt = 0
    for _ in range(n):
        c, md = ctx.rng.choice(mds)
        r = ctx.rng.random()
        if r < 0.6:
            tpl = ctx.rng.choice(DOC_TEMPLATES)
            doc = "\n\n".join(t.replace("{c}", ctx.rng.choice(CANARIES)).replace("{{", "{").replace("}}", "}") for t in ([tpl] + ([ctx.rng.choice(DOC_TEMPLATES)] if ctx.rng.random() < 0.5 else []))) + "\n"
            kind = "canary"
        elif r < 0.9:
            u = ctx.rng.choice(SCHEMES)
            doc = ctx.rng.choice(URL_TEMPLATES).replace("{u}", u).replace("{{", "{").replace("}}", "}") + "\n"
            kind = "scheme"
        elif r < 0.95:
            doc = gen.md_any(ctx.rng, 6).replace("foo", ctx.rng.choice(CANARIES))
            kind = "canary"
        else:
            doc = gen.url_doc(ctx.rng)
            kind = "canary"
        try:
            out = md(doc)
        except Exception:
            continue
        cnt += 1
        bad, urls = analyse(out)
        if bad and c.get("escape", True):
            where = "unknown-directive" if ("unknown" in doc and 'class="error"' in out) else ("block_error" if 'class="error"' in out else "doc")
            ctx.fail("inject-doc:" + where, "escape=True config %s: input text reaches the output as markup (%s) for %r" % (c["name"], bad[0], doc), {"config": c, "doc": doc, "output": out[:600]})
        allowed = c.get("allow_harmful")
        for tag, k, v in urls:
            # with escaping off raw HTML of the input passes through by design: the URL clause is about Markdown destinations
            if allowed is True:
                continue            # the caller explicitly allowed every scheme
            if allowed and "".join(ch for ch in v if ch not in "\t\r\n").lstrip().lower().startswith(tuple(a.lower() for a in allowed)):
                continue            # the caller explicitly allowed this prefix
            if harmful(v) and (kind == "scheme" or c.get("escape", True)):
                ctx.fail("scheme:%s.%s" % (tag, k), "config %s: %s %s=%r is a script-capable URL, from %r" % (c["name"], tag, k, v, doc), {"config": c, "doc": doc, "output": out[:400]})
    return cnt


def api_level(ctx, n):
    """The documented entry points with their defaults: mistune.html is NOT escaping by design; create_markdown() and
    markdown() escape by default.  markdown() keeps converters in a cache keyed by its arguments: call it with escaping
    off and on, in both orders, for the same renderer and plugins."""
    import mistune
    cnt = 0
    plug_sets = [None, ["strikethrough"], ["table", "footnotes"], ["url", "abbr", "math"], ["spoiler", "ruby", "def_list", "task_lists"]]
    for _ in range(n):
        plugins = ctx.rng.choice(plug_sets)
        seq = [ctx.rng.choice([False, True, None]) for _ in range(ctx.rng.randint(2, 4))]
        for esc in seq:
            tpl = ctx.rng.choice(DOC_TEMPLATES[:40])
            doc = tpl.replace("{c}", ctx.rng.choice(CANARIES)).replace("{{", "{").replace("}}", "}") + "\n"
            kw = {} if esc is None else {"escape": esc}
            if plugins is not None:
                kw["plugins"] = plugins
            try:
                out = mistune.markdown(doc, **kw)
            except Exception:
                continue
            cnt += 1
            if esc is False:
                continue
            bad, _ = analyse(out)
            if bad and 'class="error"' not in out:
                ctx.fail("inject-api:markdown()", "mistune.markdown(%r, %s) after the calls %r: input text reaches the output as markup (%s)" % (doc, kw, seq, bad[0]),
                         {"config": {"api": "markdown", "kw": repr(kw), "sequence": repr(seq)}, "doc": doc, "output": out[:600]})
    return cnt


def allow_history(ctx, n):
    """A caller's scheme exemption belongs to that caller's renderer.  History in ONE interpreter: a converter whose caller allowed a
    scheme prefix renders a destination (it passes, by design), then converters with the default lists render the byte-identical
    destination: it must be blocked there, whatever was rendered before (any sharing of verdicts between renderers shows here)."""
    import mistune
    from mistune.renderers.html import HTMLRenderer
    allow_sets = [["javascript:void(0)"], ["data:image/svg+xml", "file:///usr/share/doc/"], ["vbscript:", "javascript:"], ["data:"]]
    tails = ["", ";alert(1)", "x", "/a.txt", ",<svg onload=alert(1)>", "%20", "?q=1#f"]
    tpls = ["[x]({u})", "[x](<{u}>)", "![x]({u})", "[r]: {u}\n\n[r]", "<{u}>", "[x]({u} \"t\")", "[r]: <{u}>\n\n![r]"]
    dtpls = [".. image:: {u}", ".. image:: p.png\n   :target: {u}", ".. figure:: {u}\n\n   c"]
    cnt = 0
    for _ in range(n):
        allowed = ctx.rng.choice(allow_sets)
        u = ctx.rng.choice(allowed) + ctx.rng.choice(tails)
        if ctx.rng.random() < 0.3:
            u = "".join(ch.upper() if ctx.rng.random() < 0.3 else ch for ch in u)
        rst = ctx.rng.random() < 0.3
        doc = ctx.rng.choice(dtpls if rst else tpls).replace("{u}", u) + "\n"
        plugins = []
        if rst:
            from mistune.directives import RSTDirective, Image, Figure
            plugins = [RSTDirective([Image(), Figure()])]
        esc = ctx.rng.random() < 0.7
        first = mistune.create_markdown(renderer=HTMLRenderer(escape=esc, allow_harmful_protocols=allowed), plugins=plugins)
        k = ctx.rng.randint(1, 3)
        try:
            for _i in range(k):
                first(doc)
        except Exception:
            continue
        later = [("create_markdown(escape=%s)" % esc, lambda d: mistune.create_markdown(escape=esc, plugins=plugins)(d)),
                 ("HTMLRenderer()", lambda d: mistune.create_markdown(renderer=HTMLRenderer(), plugins=plugins)(d))]
        if not rst:
            later += [("mistune.html", mistune.html), ("mistune.markdown", lambda d: mistune.markdown(d))]
        name, f = ctx.rng.choice(later)
        try:
            out = f(doc)
        except Exception:
            continue
        cnt += 1
        _, urls = analyse(out)
        for tag, kk, v in urls:
            if harmful(v):
                ctx.fail("scheme-history:%s.%s" % (tag, kk), "%s, called after a converter whose caller allowed %r had rendered the same document: %s %s=%r is a script-capable URL, from %r" % (name, allowed, tag, kk, v, doc),
                         {"config": {"api": name, "history": "HTMLRenderer(allow_harmful_protocols=%r) rendered the document %d time(s) first" % (allowed, k)}, "doc": doc, "output": out[:400]})
    return cnt


def replay_known(ctx):
    for k in ctx.known:
        ex = k.get("example") or {}
        if "doc" not in ex:
            continue
        md = configs.make(ex["config"])
        out = md(ex["doc"])
        bad, _ = analyse(out)
        if bad:
            ctx.fail(ex["signature"], "stored example of a known finding: %s" % bad[0], {"doc": ex["doc"], "output": out[:300]})
        else:
            ctx.notes.append("a stored known-finding example no longer fails: %r" % ex["doc"])


def run(ctx):
    ctx.broken += common.proof_stage(ctx, THEOREMS)
    replay_known(ctx)
    q = ctx.quick()
    esc_cfgs = [configs.C("core"), configs.C("all", plugins=configs.PLUGINS), configs.C("all-fenced", plugins=configs.PLUGINS, directives="fenced"),
                configs.C("all-rst", plugins=configs.PLUGINS, directives="rst"), configs.C("all-hardwrap", hard_wrap=True, plugins=configs.PLUGINS)]
    noesc = [configs.C("noesc-all-rst", escape=False, plugins=configs.PLUGINS, directives="rst"), configs.C("noesc-core", escape=False),
             # explicit allow-lists: only URLs that start with an allowed entry may pass
             configs.C("allow-svg-data", plugins=["url"], directives="rst", allow_harmful=["data:image/svg+xml"]), configs.C("allow-doc-files", allow_harmful=["file:///usr/share/doc/"]),
             configs.C("allow-js-void", escape=False, allow_harmful=["javascript:void(0)"])]
    docs = [gen.md_any(ctx.rng, 7) for _ in range(300 if q else 4000)] + [t.replace("{c}", "zz").replace("{{", "{").replace("}}", "}") + "\n" for t in DOC_TEMPLATES]
    n0 = tmpltie.stage(ctx, docs if q else docs[:3000], [c for c in esc_cfgs + noesc if c.get("allow_harmful") is None])    # (the model renders with the default scheme lists)
    n1 = token_level(ctx, docs, esc_cfgs)
    n2 = doc_level(ctx, 5000 if q else 80000, esc_cfgs + noesc)
    n2 += option_sweep(ctx, esc_cfgs)
    n2 += api_level(ctx, 150 if q else 3000)
    n2 += allow_history(ctx, 300 if q else 6000)
    if ctx.broken and not [f for f in ctx.failures if not ctx.is_known(f["signature"])]:
        ctx.notes.append("search mode entered")
        n2 += doc_level(ctx, 60000, esc_cfgs + noesc)
    ctx.cov.update({
        "evaluations": n0 + n1 + n2, "distinct_nontrivial": n1 + n2,
        "rule": "template tie: every HTML render method translated from its AST to a template (regenerated every run), probed against the real method, and the model's rendering of the token list the "
                "renderer actually receives compared for equality with the returned HTML; `refinedOk` (hypothesis of render_safe) evaluated on those trees; "
                "token-level: every free-text field (raw of text/code/HTML/math/error/include leaves; title, info, alt, class, figclass, figwidth, url, src, target, width, height) of real token trees "
                "replaced by a markup canary, rendered with escape=True under core / all plugins / both directive syntaxes, output parsed with html.parser (no canary element, attribute or comment); "
                "document-level: %d construct templates x %d canaries; URL clause: %d obfuscated script-URL spellings x %d destination constructs under escape on and off" % (len(DOC_TEMPLATES), len(CANARIES), len(SCHEMES), len(URL_TEMPLATES)),
        "samples": [DOC_TEMPLATES[8].replace("{c}", CANARIES[1]), URL_TEMPLATES[0].replace("{u}", SCHEMES[8])],
    })
    ctx.assumptions += ["render_safe speaks about the extracted templates: the extraction (harness/tmpl.py, symbolic execution of the method ASTs) is tied by probing and by exact equality on real token trees, not proved",
                        "alphabet-restricted token fields (ruby text, heading id from the built-in id generator, table align, admonition name, integers) are hypotheses of the theorem (`refinedOk`), evaluated on every real tree of the run, not derived from the parser",
                        "block_error is exempt from the template obligation (known finding)",
                        "html.parser as the reference HTML tokenizer; browser URL normalisation modelled as: drop TAB/CR/LF, strip leading C0/space, case-fold"]


def replay(ctx, path):
    r = json.load(open(path))["replay"]
    md = configs.make(r["config"])
    out = md(r["doc"])
    print(out); print(analyse(out))
    return 1
