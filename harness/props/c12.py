"""C12 — link references resolve independently of position, case and spacing.

Decided by: Lean theorems about the reference-table machine (`refBuild_first`: for EVERY sequence of
definitions a key resolves to its FIRST definition, undefined keys to nothing; `refBuild_append_stable`), the
unikey theorems of C18 for case / white-space insensitivity of labels, and the two-pass structure of the
document model (every inline lookup sees the final table).  Tie: the definition events the real block parser
reports through the MISTUNE_VERIF hook (every consumed definition, stored or ignored) replayed through the
machine give exactly the real `env['ref_links']`; every reference-style link token carries the data the machine
resolves for its label.  The placement clauses (top / bottom / nested) are the metamorphic oracle on the
implementation."""
import common, gen, configs
from common import enc, dec

LEVEL = "proof"
THEOREMS = ["Mistune.refLookup_refAdd_same", "Mistune.refLookup_refAdd_other", "Mistune.refBuild_first", "Mistune.refBuild_append_stable",
            "Mistune.unikeyPy_idem", "Mistune.unikeyPy_ws_run", "Mistune.unikeyPy_ws_lead", "Mistune.unikeyPy_ws_trail", "Mistune.unikeyPy_case",
            # refinement: the CONCRETE model's handlers are steps of the abstract reference-table machine. parse_ref_link changes env only by the refAdd step of an accepted definition
            # (stored iff the normalised key was absent); every other block handler (core and plugins, containers threading child.env) leaves ref_links alone; hence for EVERY source
            # string and configuration the final table of the block pass is refBuild over the accepted definitions in call order and a key resolves to its FIRST definition
            # (blockParse_refs / _first / _use); the use site looks the label up by unikey (parseLinkRef_lookup, with the case / white-space laws lifted)
            "Mistune.Model.parseRefLink_env", "Mistune.Model.parseRefLink_decline", "Mistune.Model.parseRefLink_invalid", "Mistune.Model.blockParse_refs", "Mistune.Model.blockParse_first",
            "Mistune.Model.blockParse_use", "Mistune.Model.parseLinkRef_lookup", "Mistune.Model.parseLinkRef_case", "Mistune.Model.parseLinkRef_ws"]

LABELS = ["foo", "Foo Bar", "ß", "a*b", "x y  z", "1", "ΑΓΩ", "Ǆ", "q\\]r", "İ", "ﬃ",
          # long labels: the limit of link labels counts a backslash escape as ONE character (so up to ~1000 source characters)
          "l" + "ong" * 160, "x" + "\\*" * 255, "y" + "\\*" * 300 + " z", "w " * 60 + "end", "e" + "\\]" * 200]
URLS = ["/u", "<>", "<http://a.b/c d>", "/p(q)", "http://x.y/?a=1&b=2", "/é", "#frag"]
TITLES = ["", ' "T"', " 'single'", " (paren)", ' "multi word title"']


def variant(rng, label):
    r = rng.random()
    v = label
    if r < 0.25:
        v = v.upper()
    elif r < 0.5:
        v = v.lower()
    elif r < 0.6:
        v = v.swapcase()
    if rng.random() < 0.4:
        v = v.replace(" ", rng.choice(["  ", "\t", " \n ", "   "]))
    if rng.random() < 0.2:
        v = " " + v + "  "
    return v


def place(rng, body_lines, def_line, where):
    if where == "top":
        return def_line + "\n\n" + "\n".join(body_lines) + "\n"
    if where == "bottom":
        return "\n".join(body_lines) + "\n\n" + def_line + "\n"
    if where == "top-tight":
        # the definition directly followed (no blank line) by another line: a definition ends at its line end (or after its title)
        follower = rng.choice(["plain words", " one blank", "  two blanks", "   three blanks", "    four blanks", "\tafter a tab", "   [other]: /o", "[other]: /o 't'", "> quote", "- item",
                               "  - item", "# head", "   # head", "```\ncode\n```", " \\", "  *em*", "   \"not a title", "   'open", " <b>", "   (x)"])
        return def_line + "\n" + follower + "\n\n" + "\n".join(body_lines) + "\n"
    # white space between a container marker and the definition: anything below four columns of indentation
    if where == "quote":
        return "\n".join(body_lines) + "\n\n> quoted\n>\n>" + rng.choice([" ", " ", "\t", "", "  ", "   ", " \t"]) + def_line + "\n"
    if where == "list":
        return "- item\n\n" + rng.choice(["  ", "  ", "   ", "    ", "\t"]) + def_line + "\n\n" + "\n".join(body_lines) + "\n"
    if where == "quote-in-list":
        return "\n".join(body_lines) + "\n\n- >" + rng.choice([" ", " ", "\t", "", "  "]) + def_line + "\n"
    if where.startswith("deep-"):
        # nested as deep as the nesting limit allows (6 containers): quotes, list items, alternating
        unit = {"deep-quote": ["> "] * 6, "deep-list": ["- "] * 6, "deep-mixed": ["> ", "- "] * 3, "deep-mixed2": ["- ", "> "] * 3}[where]
        return "\n".join(body_lines) + "\n\n" + "".join(unit) + def_line + "\n"
    if where == "middle":
        k = rng.randint(0, len(body_lines))
        return "\n".join(body_lines[:k]) + "\n\n" + def_line + "\n\n" + "\n".join(body_lines[k:]) + "\n"
    raise ValueError(where)


PLACES = ["top", "bottom", "top-tight", "quote", "list", "quote-in-list", "middle", "deep-quote", "deep-list", "deep-mixed", "deep-mixed2"]


def metamorphic(ctx, n_cases):
    import mistune
    md_core = mistune.create_markdown(escape=True)
    md_plug = mistune.create_markdown(escape=True, plugins=["footnotes", "table", "def_list", "strikethrough", "task_lists"])
    n = 0
    for case_i in range(n_cases):
        # every third case: use sites that exist only with plugins (the text of a footnote, a table cell, a definition-list entry)
        plug = case_i % 3 == 2
        md = md_plug if plug else md_core
        label = ctx.rng.choice(LABELS)
        url = ctx.rng.choice(URLS); title = ctx.rng.choice(TITLES)
        if ctx.rng.random() < 0.15:
            # titles that span lines, with escapes and a backslash at a line end (only where the definition is not inside a container: the second line carries no marker)
            title = ctx.rng.choice([' "alpha\nbeta"', ' "alpha line\\\nbeta line"', " 'a\\\nb'", ' "x \\" y"', ' "tail\\\\"', " 'it\\'s'", ' "a\n  b\n c"', ' "\\\nx"'])
        def_line = "[%s]: %s%s" % (variant(ctx.rng, label).replace("\n", " "), url, title)
        uses = []
        for _ in range(ctx.rng.randint(1, 3)):
            v = variant(ctx.rng, label).replace("\n", " ")
            form = ctx.rng.choice(["[%s]", "[text][%s]", "[%s][]", "![img][%s]", "*em [%s] em*", "> quoted [%s]", "- li [%s]", "# h [%s]",
                                   # a reference followed by brackets that open no label, and references next to raw inline HTML (other than <a>)
                                   "[%s][ rest", "[%s][unclosed *x*", "[%s][[x]] y", "<abbr>[%s]</abbr>", "<audio> [%s] z", "x <area> [%s]", "<b>[%s]</b> <aside>", "see [%s]`::new()` x", "![%s]`c`", "[%s]*em*", "[%s]<b>", "[%s]&amp;", "[%s]\\",
                                   # a reference right after an escaped backslash, other escapes, punctuation and delimiter runs
                                   "a \\\\[%s] b", "a\\\\\\\\[%s]", "\\\\![img][%s]", "\\*[%s]", "([%s])", "'[%s]'", ":[%s]:", "*[%s]*", "**[%s]**", "_[%s]_", "x][%s]", "&amp;[%s]", "`c`[%s]", "<b>[%s]", "a\\\\[text][%s]"]
                                  + (["note here[^n1]\n\n[^n1]: inside the note [%s] end", "| head |\n|------|\n| cell [%s] |", "term\n: definition [%s]", "- [ ] task [%s]", "~~del [%s]~~"] * 2 if plug else []))
            uses.append((form % v).replace("n1", "n%d" % (len(uses) + 1)))      # (footnote keys distinct per use)
        body = []
        for u in uses:
            body += ["para " + u if not u.startswith((">", "-", "#", "|", "term", "note here")) else u, ""]
        body += ["other [undefined label] and [zz][yy] stay"]
        outs = {}
        places = [w for w in PLACES if w in ("top", "bottom", "middle")] if "\n" in def_line else PLACES
        for w in places:
            doc = place(ctx.rng, body, def_line, w)
            try:
                outs[w] = md(doc)
            except Exception as e:
                outs[w] = "EXC " + type(e).__name__
        n += len(places)
        # compare the rendered use sites: strip the structural wrapper the placement itself adds by comparing link targets
        import re
        def sites(h):
            found = re.findall(r'<(?:a href|img src)="([^"]*)"(?: alt="[^"]*")?(?: title="([^"]*)")?', h)
            return sorted(x for x in found if not x[0].startswith(("#fn-", "#fnref-"))), ("[undefined label]" in h), ("[zz][yy]" in h)
        ref = sites(outs["top"])
        if not ref[0] and title != " (paren)":
            # every label / destination / quoted title of the lists above makes a valid definition (parenthesised titles are the one
            # form mistune does not read): if NO use resolves, the definition or the label matching is broken
            ctx.fail("use-unresolved:all:%s" % ("plugins" if plug else "core"), "no use of the valid definition %r resolves" % (def_line[:200],),
                     {"def": def_line, "body": body, "doc": place(ctx.rng, body, def_line, "top"), "out": outs["top"][:600]})
            continue
        if not ref[0]:
            continue   # the definition line itself was not a valid definition (e.g. label variant with a line break inside a list) — nothing to compare
        if len(ref[0]) != len(uses):
            ctx.fail("use-unresolved:%s" % ("plugins" if plug else "core"), "the definition %r is valid (some uses resolve) but %d of %d use sites do not resolve" % (def_line, len(uses) - len(ref[0]), len(uses)),
                     {"def": def_line, "body": body, "doc": place(ctx.rng, body, def_line, "top"), "out": outs["top"]})
            continue
        for w in places[1:]:
            if sites(outs[w]) != ref:
                ctx.fail("placement:" + w, "a definition written at '%s' resolves differently than at the top: %r" % (w, def_line),
                         {"def": def_line, "body": body, "place": w, "top": outs["top"], "other": outs[w]})
                break
        if not ref[1] or not ref[2]:
            ctx.fail("undefined-not-literal", "a reference to an undefined label did not stay literal", {"def": def_line, "body": body, "out": outs["top"]})
        # duplicates: first wins, wherever the later one stands
        dup = "[%s]: /SECOND 'second'" % variant(ctx.rng, label).replace("\n", " ")
        for w2 in ("bottom", "quote", "list"):
            doc = place(ctx.rng, body + ["", def_line], dup, w2) if w2 != "list" else place(ctx.rng, [def_line, ""] + body, dup, "bottom")
            n += 1
            h = md(doc)
            if "/SECOND" in h:
                ctx.fail("first-wins", "a later duplicate definition changed the resolution", {"first": def_line, "dup": dup, "doc": doc, "out": h})
                break
            if title and ("second" in h):
                ctx.fail("first-wins-title", "a later duplicate definition's title leaked", {"first": def_line, "dup": dup, "doc": doc, "out": h})
                break
        # … also when the first definition sits in a quote (or list item) that the next block ends without a blank line
        a, b = ctx.rng.choice([("> ", "- "), ("- ", "> "), ("> ", "1. "), ("1. ", "> ")])
        doc = a + def_line + "\n" + b + dup + "\n\n" + "\n".join(body) + "\n"
        n += 1
        h = md(doc)
        if "/SECOND" in h:
            ctx.fail("first-wins:tight-%s" % ("quote-then-list" if a == "> " else "list-then-quote"), "a later duplicate definition won: the first stands in a %s that the block holding the second ends without a blank line" % ("quote" if a == "> " else "list item"),
                     {"first": def_line, "dup": dup, "doc": doc, "out": h})
    return n


def enc_list(xs):
    return "|".join("s" + enc(x) for x in xs)


def walk(tokens):
    for t in tokens:
        yield t
        if "children" in t:
            yield from walk(t["children"])


def correspondence(ctx, docs):
    """definition events (hook) -> machine == real env; reference-style links carry the machine's resolution"""
    import mistune
    from mistune.util import unikey
    md = mistune.create_markdown(renderer=None)
    d = common.Driver()
    reqs, exp = [], []
    for doc in docs:
        try:
            toks, st = md.parse(doc)
        except Exception:
            continue
        events = st.env.get("__verif_defs__")
        if events is None:
            if st.env["ref_links"]:
                ctx.broken.append("hook: MISTUNE_VERIF definition log missing although definitions were stored")
                return 0
            events = []
        keys = [k for _, k, _ in events]
        stored = [k for _, k, s in events if s]
        reqs.append(("ref_build", enc_list(keys)))
        exp.append((doc, keys, stored, list(st.env["ref_links"].keys()), toks, st.env["ref_links"]))
    outs = d.batch(reqs)
    bad = 0
    for (doc, keys, stored, real_keys, toks, table), got in zip(exp, outs):
        m_keys, m_first = got.split(";")
        m_keys = [dec(x[1:]) for x in m_keys.split("|")] if m_keys else []
        m_first = [int(x) for x in m_first.split(",")] if m_first else []
        # machine: table keys in insertion order, and for each event whether it was the first of its key
        if m_keys != real_keys or [k for k, f in zip(keys, m_first) if f] != stored:
            bad += 1
            if bad <= 3:
                ctx.broken.append("correspondence: definitions %r: implementation table %r (stored %r), machine %r" % (keys, real_keys, stored, m_keys))
            continue
        for t in walk(toks):
            if t["type"] in ("link", "image") and "ref" in t:
                data = table.get(t["ref"])
                if data is None or unikey(t["label"]) != t["ref"] or t["attrs"]["url"] != data["url"] or t["attrs"].get("title") != data.get("title"):
                    ctx.fail("lookup-mismatch", "a reference link token does not carry the table's data for its label", {"doc": doc, "token": {k: v for k, v in t.items() if k != "children"}})
    ctx.cov["traces_validated_against_impl"] = len(reqs)
    ctx.cov["disagreements_checked"] = len(reqs)
    ctx.cov["disagreements"] = bad
    return len(reqs)


def ref_docs(ctx, n):
    out = []
    for _ in range(n):
        lines = []
        for _ in range(ctx.rng.randint(2, 8)):
            r = ctx.rng.random()
            label = variant(ctx.rng, ctx.rng.choice(LABELS))
            if r < 0.45:
                pre = ctx.rng.choice(["", "", "> ", "- ", "  ", "   ", "1. ", "> - "])
                lines.append("%s[%s]: %s%s" % (pre, label, ctx.rng.choice(URLS), ctx.rng.choice(TITLES)))
                if ctx.rng.random() < 0.5:
                    lines.append("")
            elif r < 0.9:
                lines.append(ctx.rng.choice(["see [%s] here", "[t][%s]", "> q [%s][]", "- ![i][%s]", "text"]) .replace("%s", label.replace("\n", " ")))
                lines.append("")
            else:
                lines.append(gen.md_line(ctx.rng, 5))
        out.append("\n".join(lines) + "\n")
    return out


def replay_known(ctx):
    import mistune
    for k in ctx.known:
        ex = k.get("example") or {}
        if "doc" not in ex:
            continue
        h = mistune.create_markdown(escape=True)(ex["doc"])
        if "/SECOND" in h:
            ctx.fail(k["signature"], "stored example of a known finding: a later duplicate definition won", {"doc": ex["doc"], "out": h})
        else:
            ctx.notes.append("a stored known-finding example no longer fails: %r" % ex["doc"])


def include_part(ctx):
    """Pages assembled with the include directive: a definition written in an included file resolves uses in that file and in the page, a
    definition of the page resolves uses in the included file, case / white-space variants included; the first definition in reading order wins."""
    import mistune, tempfile, shutil, os, re
    from mistune.directives import FencedDirective, RSTDirective, Include
    n = 0
    tmp = tempfile.mkdtemp(prefix="verif-c12-")
    try:
        def w(name, text):
            with open(os.path.join(tmp, name), "w", encoding="utf-8") as f:
                f.write(text)
        for style in ("rst", "fenced"):
            D = RSTDirective if style == "rst" else FencedDirective
            inc = (lambda f: ".. include:: %s\n\n" % f) if style == "rst" else (lambda f: "```{include} %s\n```\n\n" % f)
            md = mistune.create_markdown(plugins=[D([Include()])])
            for label, var in [("foo", "FOO"), ("Foo Bar", "foo   bar"), ("\u00df", "SS"), ("q", "Q")]:
                for where_def in ("inc", "page-before", "page-after", "both"):
                    w("inc.md", "inc uses [%s] and [%s].\n\n" % (label, var) + ("[%s]: /from-inc\n" % label if where_def in ("inc", "both") else ""))
                    page = ("[%s]: /from-page\n\n" % var if where_def in ("page-before", "both") else "") + "page uses [%s].\n\n" % var + inc("inc.md") + "tail uses [%s].\n" % label + \
                           ("\n[%s]: /from-page\n" % var if where_def == "page-after" else "")
                    w("page.md", page)
                    try:
                        html = md.read(os.path.join(tmp, "page.md"))[0]
                    except Exception as e:
                        ctx.fail("include:exception", "reading a page with an included file raised %r" % e, {"kind": "include", "style": style, "page": page}); continue
                    n += 1
                    hrefs = re.findall(r'<a href="([^"]*)"', html)
                    # reading order: page-before < inc < page-after
                    want = "/from-page" if where_def in ("page-before", "both", "page-after") else "/from-inc"
                    if where_def == "both":
                        want = "/from-page"
                    if len(hrefs) != 4 or set(hrefs) != {want}:
                        ctx.fail("include:definition-%s" % where_def, "page with an included file (%s syntax), definition of %r in %s: the four uses resolve to %r, expected four links to %s: %r" % (style, label, where_def, hrefs, want, html[:300]),
                                 {"kind": "include", "style": style, "page": page, "inc": open(os.path.join(tmp, "inc.md")).read()})
    finally:
        shutil.rmtree(tmp, ignore_errors=True)
    return n


def run(ctx):
    ctx.broken += common.proof_stage(ctx, THEOREMS)
    replay_known(ctx)
    docs = ref_docs(ctx, 1500 if ctx.quick() else 15000)
    n1 = correspondence(ctx, docs)
    # the refinement theorems (C12Refine*) are about the concrete Lean parser model: token trees AND the final reference table (block kind compares env) on this run's documents
    common.model_tie(ctx, docs, "core", "block", limit=(600 if ctx.quick() else 6000))
    common.model_tie(ctx, docs, "core", "doc", limit=(600 if ctx.quick() else 6000))
    common.model_tie(ctx, docs[::2], "all", "doc", limit=(300 if ctx.quick() else 3000))
    n2 = metamorphic(ctx, 250 if ctx.quick() else 3000)
    n2 += include_part(ctx)
    if ctx.broken and not ctx.failures:
        ctx.notes.append("search mode entered")
        n2 += metamorphic(ctx, 4000)
    ctx.cov.update({
        "evaluations": n1 + n2, "distinct_nontrivial": len(set(docs)),
        "rule": "documents with definitions (top level, in quotes, list items, indented; duplicates; case/white-space variants of labels incl. non-ASCII case pairs) and uses: "
                "definition events replayed through the Lean table machine; metamorphic placement test (top/bottom/middle/quote/list/quote-in-list), duplicate definitions, undefined labels",
        "samples": docs[:2],
    })
    ctx.assumptions += ["the order in which the block pass reaches nested definitions is taken from the hook log (observed, not proved)",
                        "placement invariance of the definition-line syntax itself is tested (metamorphic oracle), not proved"]


def replay(ctx, path):
    import json
    r = json.load(open(path))["replay"]
    print(json.dumps(r, indent=1)[:3000])
    return 1
